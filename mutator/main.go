// mutator: lists small logic mutations of the repository's Go sources (a self-test of /verif's checks, lib/srcmut.py).
//
//	mutator <repo> > sites.json
//
// Output: a JSON array of {file, start, end, old, new, op, line, func}. Every entry replaces the bytes [start,end) of
// the file by `new`. The operators are the slips reviewers actually let through: a comparison off by one, a negated or
// dropped condition, break for continue, a statement that no longer runs, a constant off by one, a library call
// replaced by its near-synonym, a slice bound off by one.
package main

import (
	"encoding/json"
	"fmt"
	"go/ast"
	"go/parser"
	"go/token"
	"os"
	"path/filepath"
	"sort"
	"strings"
)

type site struct {
	File  string `json:"file"`
	Start int    `json:"start"`
	End   int    `json:"end"`
	Old   string `json:"old"`
	New   string `json:"new"`
	Op    string `json:"op"`
	Line  int    `json:"line"`
	Func  string `json:"func"`
}

var binSwap = map[token.Token][]token.Token{
	token.LSS:  {token.LEQ},
	token.LEQ:  {token.LSS},
	token.GTR:  {token.GEQ},
	token.GEQ:  {token.GTR},
	token.EQL:  {token.NEQ},
	token.NEQ:  {token.EQL},
	token.LAND: {token.LOR},
	token.LOR:  {token.LAND},
	token.ADD:  {token.SUB},
	token.SUB:  {token.ADD},
}

// near-synonyms with the same signature
var callSwap = map[string][]string{
	"strings.TrimLeft":        {"strings.TrimPrefix"},
	"strings.TrimRight":       {"strings.TrimSuffix"},
	"strings.TrimPrefix":      {"strings.TrimLeft"},
	"strings.TrimSuffix":      {"strings.TrimRight"},
	"strings.HasPrefix":       {"strings.HasSuffix", "strings.Contains"},
	"strings.HasSuffix":       {"strings.HasPrefix"},
	"strings.Index":           {"strings.LastIndex"},
	"strings.LastIndex":       {"strings.Index"},
	"strings.IndexByte":       {"strings.LastIndexByte"},
	"strings.LastIndexByte":   {"strings.IndexByte"},
	"strings.ToUpper":         {"strings.ToLower", "strings.TrimSpace"},
	"strings.ToLower":         {"strings.ToUpper"},
	"strings.TrimSpace":       {"strings.ToLower"},
	"strings.Split":           {"strings.SplitAfter", "strings.Fields2"},
	"strings.Count":           {"strings.Index"},
	"strings.EqualFold":       {"strings.HasPrefix"},
	"url.PathUnescape":        {"url.QueryUnescape"},
	"url.QueryUnescape":       {"url.PathUnescape"},
	"url.QueryEscape":         {"url.PathEscape"},
	"url.PathEscape":          {"url.QueryEscape"},
	"path.Clean":              {"path.Base", "path.Dir"},
	"path.Join":               {"path.Dir2"},
	"strconv.Atoi":            {"strconv.Atoi"},
	"regexp.QuoteMeta":        {"strings.TrimSpace"},
	"regexp.MustCompile":      {"regexp.MustCompilePOSIX"},
	"regexp.Compile":          {"regexp.CompilePOSIX"},
	"bytes.TrimSpace":         {"bytes.ToLower"},
	"reflect.DeepEqual":       {"reflect.DeepEqual"},
	"http.CanonicalHeaderKey": {"strings.ToLower"},
}

// method-name swaps on any receiver
var methodSwap = map[string][]string{
	"Get":                {"Values0"},
	"Implements":         {"AssignableTo"},
	"AssignableTo":       {"ConvertibleTo"},
	"MatchString":        {"MatchStringX"},
	"FindStringSubmatch": {"FindStringSubmatchX"},
	"Written":            {"WrittenX"},
	"Elem":               {"ElemX"},
}

func main() {
	if len(os.Args) < 2 {
		fmt.Fprintln(os.Stderr, "usage: mutator <repo>")
		os.Exit(2)
	}
	repo := os.Args[1]
	var files []string
	_ = filepath.Walk(repo, func(p string, info os.FileInfo, err error) error {
		if err != nil {
			return nil
		}
		if info.IsDir() {
			if strings.HasPrefix(info.Name(), ".") && p != repo {
				return filepath.SkipDir
			}
			return nil
		}
		if strings.HasSuffix(p, ".go") && !strings.HasSuffix(p, "_test.go") && !strings.HasPrefix(info.Name(), "verif_") {
			files = append(files, p)
		}
		return nil
	})
	sort.Strings(files)
	var out []site
	for _, f := range files {
		out = append(out, mutateFile(repo, f)...)
	}
	enc := json.NewEncoder(os.Stdout)
	enc.SetIndent("", " ")
	_ = enc.Encode(out)
}

func mutateFile(repo, path string) []site {
	src, err := os.ReadFile(path)
	if err != nil {
		return nil
	}
	fset := token.NewFileSet()
	f, err := parser.ParseFile(fset, path, src, parser.ParseComments)
	if err != nil {
		return nil
	}
	rel, _ := filepath.Rel(repo, path)
	var out []site
	off := func(p token.Pos) int { return fset.Position(p).Offset }
	text := func(a, b token.Pos) string { return string(src[off(a):off(b)]) }
	curFunc := ""
	add := func(a, b token.Pos, nw, op string) {
		if !a.IsValid() || !b.IsValid() || off(b) < off(a) {
			return
		}
		old := text(a, b)
		if old == nw {
			return
		}
		out = append(out, site{File: rel, Start: off(a), End: off(b), Old: old, New: nw, Op: op, Line: fset.Position(a).Line, Func: curFunc})
	}
	for _, d := range f.Decls {
		fd, ok := d.(*ast.FuncDecl)
		if !ok || fd.Body == nil {
			// package-level var/const initialisers: integer and string literals are the translator's business
			continue
		}
		curFunc = fd.Name.Name
		if fd.Recv != nil && len(fd.Recv.List) == 1 {
			curFunc = strings.TrimLeft(text(fd.Recv.List[0].Type.Pos(), fd.Recv.List[0].Type.End()), "*") + "." + curFunc
		}
		ast.Inspect(fd.Body, func(n ast.Node) bool {
			switch x := n.(type) {
			case *ast.BinaryExpr:
				for _, t := range binSwap[x.Op] {
					if (x.Op == token.ADD || x.Op == token.SUB) && isStringy(x) {
						continue
					}
					add(x.OpPos, x.OpPos+token.Pos(len(x.Op.String())), t.String(), "binop")
				}
			case *ast.IfStmt:
				if x.Cond != nil {
					add(x.Cond.Pos(), x.Cond.End(), "!("+text(x.Cond.Pos(), x.Cond.End())+")", "negate-if")
				}
			case *ast.ForStmt:
				if x.Cond != nil {
					if be, ok := x.Cond.(*ast.BinaryExpr); ok && len(binSwap[be.Op]) > 0 {
						_ = be // covered by binop
					}
				}
			case *ast.BranchStmt:
				if x.Label == nil {
					switch x.Tok {
					case token.BREAK:
						if inLoopNotSwitch(fd.Body, x) {
							add(x.Pos(), x.End(), "continue", "break-continue")
						}
					case token.CONTINUE:
						add(x.Pos(), x.End(), "break", "break-continue")
					}
				}
			case *ast.ExprStmt:
				if _, ok := x.X.(*ast.CallExpr); ok {
					add(x.Pos(), x.End(), "if false { "+text(x.Pos(), x.End())+" }", "drop-stmt")
				}
			case *ast.AssignStmt:
				if x.Tok != token.DEFINE {
					add(x.Pos(), x.End(), "if false { "+text(x.Pos(), x.End())+" }", "drop-stmt")
				}
			case *ast.IncDecStmt:
				add(x.Pos(), x.End(), "if false { "+text(x.Pos(), x.End())+" }", "drop-stmt")
			case *ast.DeferStmt:
				add(x.Pos(), x.End(), "if false { "+text(x.Pos(), x.End())+" }", "drop-defer")
			case *ast.ReturnStmt:
				if len(x.Results) == 0 && fd.Type.Results == nil {
					add(x.Pos(), x.End(), "{}", "drop-return")
				}
				if len(x.Results) == 1 {
					if id, ok := x.Results[0].(*ast.Ident); ok && (id.Name == "true" || id.Name == "false") {
						add(id.Pos(), id.End(), map[string]string{"true": "false", "false": "true"}[id.Name], "bool-literal")
					}
				}
			case *ast.BasicLit:
				if x.Kind == token.INT {
					switch x.Value {
					case "0":
						add(x.Pos(), x.End(), "1", "int-literal")
					case "1":
						add(x.Pos(), x.End(), "0", "int-literal")
						add(x.Pos(), x.End(), "2", "int-literal")
					default:
						add(x.Pos(), x.End(), "("+x.Value+" + 1)", "int-literal")
						add(x.Pos(), x.End(), "("+x.Value+" - 1)", "int-literal")
					}
				}
			case *ast.SliceExpr:
				if x.Low != nil {
					add(x.Low.Pos(), x.Low.End(), "("+text(x.Low.Pos(), x.Low.End())+")+1", "slice-bound")
				}
				if x.High != nil {
					add(x.High.Pos(), x.High.End(), "("+text(x.High.Pos(), x.High.End())+")-1", "slice-bound")
				}
			case *ast.CallExpr:
				if sel, ok := x.Fun.(*ast.SelectorExpr); ok {
					if id, ok := sel.X.(*ast.Ident); ok {
						full := id.Name + "." + sel.Sel.Name
						for _, nw := range callSwap[full] {
							if nw != full && !strings.HasSuffix(nw, "2") {
								add(x.Fun.Pos(), x.Fun.End(), nw, "call-swap")
							}
						}
					}
					for _, nw := range methodSwap[sel.Sel.Name] {
						if !strings.HasSuffix(nw, "X") && !strings.HasSuffix(nw, "0") {
							add(sel.Sel.Pos(), sel.Sel.End(), nw, "method-swap")
						}
					}
					// arguments of a two-argument call swapped when both are plain identifiers of the same look
					if len(x.Args) == 2 {
						a0, ok0 := x.Args[0].(*ast.Ident)
						a1, ok1 := x.Args[1].(*ast.Ident)
						if ok0 && ok1 && a0.Name != a1.Name {
							add(x.Args[0].Pos(), x.Args[1].End(), a1.Name+", "+a0.Name, "arg-swap")
						}
					}
				}
			case *ast.UnaryExpr:
				if x.Op == token.NOT {
					add(x.Pos(), x.End(), text(x.X.Pos(), x.X.End()), "drop-not")
				}
			}
			return true
		})
	}
	return out
}

func isStringy(x *ast.BinaryExpr) bool {
	lit := func(e ast.Expr) bool {
		b, ok := e.(*ast.BasicLit)
		return ok && (b.Kind == token.STRING || b.Kind == token.CHAR)
	}
	if lit(x.X) || lit(x.Y) {
		return true
	}
	if l, ok := x.X.(*ast.BinaryExpr); ok && l.Op == token.ADD && isStringy(l) {
		return true
	}
	return false
}

// inLoopNotSwitch: the innermost breakable statement around b is a loop (then `continue` compiles and differs)
func inLoopNotSwitch(body *ast.BlockStmt, b *ast.BranchStmt) bool {
	var stack []ast.Node
	res := false
	ast.Inspect(body, func(n ast.Node) bool {
		if n == nil {
			stack = stack[:len(stack)-1]
			return true
		}
		stack = append(stack, n)
		if n == ast.Node(b) {
			for i := len(stack) - 2; i >= 0; i-- {
				switch stack[i].(type) {
				case *ast.ForStmt, *ast.RangeStmt:
					res = true
					return false
				case *ast.SwitchStmt, *ast.TypeSwitchStmt, *ast.SelectStmt:
					res = false
					return false
				case *ast.FuncLit:
					return false
				}
			}
		}
		return true
	})
	return res
}
