module verif/mutator

go 1.22.0
