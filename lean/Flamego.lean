-- This module serves as the root of the `Flamego` library.
-- Import modules here that should be built as part of the library.
import Flamego.Basic
