/-
  Props/C10JoinCode.lean — the dispatcher and the matcher, joined at the level of the CODE.

  `Gen/RouterCode.lean` (router.ServeHTTP) takes what a tree answers to `Match` as a parameter, and Props/C10Code proves the
  dispatcher against the model under the assumption (`Agrees.matcher`) that this parameter is the model's `Node.match`.
  `Gen/BaseTreeCode.lean` contains the translated `baseTree.Match`, and Props/C02BaseTreeCode proves it to BE the model's
  `Node.match`.  Here the parameter is instantiated with the translated matcher:

    * `code_matcher_agrees`: with the translated `baseTree.Match` as the matcher the assumption holds;
    * `serve_code_matcher`: the translated dispatcher running the translated matcher makes exactly the one call the model's
      `Router.serve` decides — the static shortcut, the tree search with its precedence, the not-found handler — for every
      router built from a model router, every request.
-/
import Flamego.Props.C10Code
import Flamego.Props.C02BaseTreeCode
set_option linter.unusedSimpArgs false
set_option linter.unusedVariables false
namespace Flamego.C10JoinCode
open Flamego.GoSem Flamego.Gen.RouterCode Flamego.C10Code

/-- a tree of the model as the Go struct the matcher's methods run on -/
def treeOf (t : Node) : Gen.BaseTreeCode.baseTree :=
  { parent := default, segment := (), subtrees := t.subs, leaves := t.leaves }

/-- `tree.Match(path, header)` as the translated code computes it -/
def codeMatcher (E : Engine) (hok : Nat → Bool) : Lib.Tree → Bytes → Lib.Header → Lib.Leaf × List (Bytes × Bytes) × Bool :=
  fun t path hdr => (Gen.BaseTreeCode.Match E hok (treeOf t) path hdr).1

theorem code_matcher_agrees (E : Engine) (enc : String → Bytes) (hinj : ∀ a b, enc a = enc b → a = b) (R : Flamego.Router)
    (r : router) (hs : r.staticRoutes = staticsOf enc R) (ht : r.routeTrees = treesOf enc R)
    (hdr : Lib.Header) (mhdrs : List (Bytes × Bytes)) :
    Agrees E enc R r (codeMatcher E (R.hok E mhdrs)) hdr mhdrs := by
  have h0 := agrees_of E enc hinj R r hs ht hdr mhdrs
  refine ⟨h0.statics, h0.trees, ?_⟩
  intro t path
  simp only [codeMatcher]
  rw [C02BaseTreeCode.Match_refines E (R.hok E mhdrs) (treeOf t) t rfl rfl path hdr]
  cases Node.match E (R.hok E mhdrs) t path with
  | none => rfl
  | some v => obtain ⟨l, ps⟩ := v; rfl

/-- the translated dispatcher with the translated matcher: one call, the one the model's `serve` decides -/
theorem serve_code_matcher (E : Engine) (enc : String → Bytes) (hinj : ∀ a b, enc a = enc b → a = b) (R : Flamego.Router)
    (r : router) (hs : r.staticRoutes = staticsOf enc R) (ht : r.routeTrees = treesOf enc R)
    (w : Env) (req : Lib.Request) (mreq : Flamego.Request) (hv : ReqView enc req mreq) :
    (ServeHTTP (codeMatcher E (R.hok E mreq.hdrs)) r w req).2
      = { r with world := r.world ++ [dispatchOf r.notFound (R.serve E mreq)] } :=
  serve_refines E enc R r _ w req mreq hv (code_matcher_agrees E enc hinj R r hs ht req.header mreq.hdrs)

end Flamego.C10JoinCode
