/-
  Props/C12.lean — URL building substitutes binds exactly and inverts matching.
  (token-wise substitution and the round trip are added as the proof development proceeds; §5/C12)
-/
import Flamego.Proofs.Assoc

namespace Flamego.C12

/-- "unknown names panic": building fails exactly for names that were never registered -/
theorem unknown_name_panics (R : Router) (name : Bytes) (pairs : List Bytes) :
    R.urlPath name pairs = none ↔ assocGet R.named name = none := by
  unfold Router.urlPath
  cases assocGet R.named name <;> simp

/-- "empty … names panic" -/
theorem empty_name_panics (R : Router) (hid : Nat) : R.setName hid [] = none := by
  simp [Router.setName]

/-- "duplicate names panic" -/
theorem duplicate_name_panics (R : Router) (hid : Nat) (name : Bytes)
    (h : (assocGet R.named name).isSome) : R.setName hid name = none := by
  unfold Router.setName
  split
  · rfl
  · simp [h]

/-- without any supplied value every bind stays visible as `{bind}`: the result is the skeleton -/
theorem no_values_skeleton (r : Route) (wo : Bool) : urlPath r [] wo = skeleton r wo := by
  unfold urlPath
  simp only [List.map_nil]
  have : ∀ (n : Nat) (s : Bytes), replaceAll.go [] n s = s := by
    intro n
    induction n with
    | zero => intro s; simp [replaceAll.go]
    | succ n ih =>
      intro s
      cases s with
      | nil => simp [replaceAll.go]
      | cons c cs => simp [replaceAll.go, ih]
  exact this _ _

end Flamego.C12
