/-
  Props/C12.lean — URL building substitutes binds exactly and inverts matching.
  Token view of the buffer `Leaf.URLPath` writes, token-wise simultaneous substitution
  (`replace_tokenwise`), map-order independence, dropped annotations, the optional segment,
  `router.URLPath`'s folding of its `k v k v …` arguments, and the segment view that the
  round trip of C02 uses.  Lemmas: `Proofs/Url.lean`.  (DESIGN.md §5/C12)

  Not proved here: the full round trip "for any request dispatched to a named route, building with
  that request's parameters reproduces the request path" — it needs the matcher's theory (C02);
  `round_trip_segments` below is the URL-building half of it.
-/
import Flamego.Proofs.Url

namespace Flamego.C12

/-- "unknown names panic": building fails exactly for names that were never registered -/
theorem unknown_name_panics (R : Router) (name : Bytes) (pairs : List Bytes) :
    R.urlPath name pairs = none ↔ assocGet R.named name = none := by
  unfold Router.urlPath
  cases assocGet R.named name <;> simp

/-- "empty … names panic" -/
theorem empty_name_panics (R : Router) (hid : Nat) : R.setName hid [] = none := by
  simp [Router.setName]

/-- "duplicate names panic" -/
theorem duplicate_name_panics (R : Router) (hid : Nat) (name : Bytes)
    (h : (assocGet R.named name).isSome) : R.setName hid name = none := by
  unfold Router.setName
  split
  · rfl
  · simp [h]

/-- without any supplied value every bind stays visible as `{bind}`: the result is the skeleton -/
theorem no_values_skeleton (r : Route) (wo : Bool) : urlPath r [] wo = skeleton r wo := by
  unfold urlPath
  simp only [List.map_nil]
  have : ∀ (n : Nat) (s : Bytes), replaceAll.go [] n s = s := by
    intro n
    induction n with
    | zero => intro s; simp [replaceAll.go]
    | succ n ih =>
      intro s
      cases s with
      | nil => simp [replaceAll.go]
      | cons c cs => simp [replaceAll.go, ih]
  exact this _ _

open Url

/-! ### 1. The token view of the skeleton

`Tok.lit b` is a text written as is, `Tok.hole n` is the placeholder `{n}`.  `skeletonToks r wo`
has the tokens of every route element (identifier ↦ `lit`; `{bind}` ↦ `hole`; a parameter list
`{a: …, b: …}` ↦ one `hole` per bind parameter: the first; and, when the first is regex-valued, every
later regex-valued one — a list whose first value is a literal, i.e. a match-all `{p: **, capture: 2}`,
binds only its first parameter) and a `lit "/"` per segment; an
empty buffer (no segment, or the first one optional and not asked for) becomes `lit "/"`. -/

/-- the buffer `URLPath` builds is the rendering of the token list -/
theorem skeleton_tokens (r : Route) (wo : Bool) : skeleton r wo = render (skeletonToks r wo) :=
  skeleton_eq r wo

/- `BraceFree r` (decidable, `Proofs/Url.lean`): every identifier text and bind name of `r` contains
   neither `{` nor `}`, and no parameter list is empty.  Every route the parser produces satisfies
   it: identifiers and bind names are lexed by the `Ident` class, which excludes both braces, and
   the grammar requires at least one parameter between `{` and `}`. -/

/-- the tokens of a brace-free route are brace-free -/
theorem skeletonToks_braceFree (r : Route) (wo : Bool) (h : BraceFree r = true) :
    (skeletonToks r wo).all Tok.braceFree = true :=
  orRoot_braceFree _ (skeletonToks_go_braceFree wo r.segs h)

/-! ### 2. Token-wise substitution -/

/-- fuel sufficiency: `replaceAll` starts with fuel = input length; any fuel that covers the
    remaining input gives the same result (each step consumes at least one input byte) -/
theorem replace_fuel (pairs : List (Bytes × Bytes)) (s : Bytes) (fuel : Nat) (h : s.length ≤ fuel) :
    replaceAll.go pairs fuel s = replaceAll pairs s :=
  go_fuel pairs s.length s fuel s.length (Nat.le_refl _) h (Nat.le_refl _)

/-- "replaces every `{bind}` of the route by the supplied value, all at once (supplied values are
    never re-scanned), leaves binds without a value visible as `{bind}`, ignores unknown names":
    for brace-free tokens and brace-free KEYS (values arbitrary: they may contain braces, other
    bind names, slashes, or be empty) the replacer acts token by token — a literal is copied, a hole
    becomes the value listed for its name, or stays `{name}` if there is none; names that are no
    hole of the route have no effect.  (Distinctness of the keys is not even needed: `lookup`
    and the replacer both take the first listed pair.) -/
theorem replace_tokenwise (toks : List Tok) (vals : List (Bytes × Bytes))
    (ht : toks.all Tok.braceFree = true) (hv : vals.all (fun p => noBrace p.1) = true) :
    replaceAll (vals.map fun (k, v) => (B "{" ++ k ++ B "}", v)) (render toks) =
      toks.flatMap fun
        | .lit b => b
        | .hole n => match vals.lookup n with
          | some v => v
          | none => B "{" ++ n ++ B "}" := by
  have h := go_toks vals hv toks ht (render toks).length (Nat.le_refl _)
  have hf : (fun t : Tok => match t with
        | .lit b => b
        | .hole n => match vals.lookup n with
          | some v => v
          | none => B "{" ++ n ++ B "}") = Tok.subst vals := by
    funext t; cases t <;> rfl
  rw [hf]
  exact h

/-- the same for a route: `URLPath` of a brace-free route is its token list with every hole
    substituted simultaneously -/
theorem urlPath_tokenwise (r : Route) (vals : List (Bytes × Bytes)) (wo : Bool)
    (hr : BraceFree r = true) (hv : vals.all (fun p => noBrace p.1) = true) :
    urlPath r vals wo = (skeletonToks r wo).flatMap (Tok.subst vals) := by
  unfold urlPath
  rw [skeleton_tokens]
  exact go_toks vals hv _ (skeletonToks_braceFree r wo hr) _ (Nat.le_refl _)

/-- "ignores unknown names": a supplied name that is no hole of the route changes nothing -/
theorem unknown_value_ignored (r : Route) (vals : List (Bytes × Bytes)) (wo : Bool) (k v : Bytes)
    (hr : BraceFree r = true) (hv : vals.all (fun p => noBrace p.1) = true) (hk : noBrace k = true)
    (hunk : Tok.hole k ∉ skeletonToks r wo) :
    urlPath r ((k, v) :: vals) wo = urlPath r vals wo := by
  rw [urlPath_tokenwise r _ wo hr (by simp [hk, hv]), urlPath_tokenwise r vals wo hr hv]
  apply flatMap_congr_mem
  intro t ht
  cases t with
  | lit b => rfl
  | hole n =>
    have hne : n ≠ k := fun h => hunk (h ▸ ht)
    have : (n == k) = false := by simp [hne]
    simp [Tok.subst, List.lookup_cons, this]

/-! ### 3. Independence of the map iteration order -/

/-- Go builds the replacer's pairs by ranging over a map: with distinct brace-free keys the result
    is the same for every order of the pairs -/
theorem replace_perm (toks : List Tok) (vals vals' : List (Bytes × Bytes))
    (ht : toks.all Tok.braceFree = true) (hv : vals.all (fun p => noBrace p.1) = true)
    (hd : DistinctKeys vals) (hp : vals.Perm vals') :
    replaceAll (vals.map fun (k, v) => (B "{" ++ k ++ B "}", v)) (render toks) =
      replaceAll (vals'.map fun (k, v) => (B "{" ++ k ++ B "}", v)) (render toks) := by
  have h1 := go_toks vals hv toks ht (render toks).length (Nat.le_refl _)
  have h2 := go_toks vals' (all_perm hp hv) toks ht (render toks).length (Nat.le_refl _)
  show replaceAll.go (keyed vals) _ _ = replaceAll.go (keyed vals') _ _
  rw [h1, h2]
  apply flatMap_congr_mem
  intro t _
  cases t with
  | lit b => rfl
  | hole n => simp only [Tok.subst, lookup_perm hp hd n]

theorem urlPath_perm (r : Route) (vals vals' : List (Bytes × Bytes)) (wo : Bool)
    (hr : BraceFree r = true) (hv : vals.all (fun p => noBrace p.1) = true)
    (hd : DistinctKeys vals) (hp : vals.Perm vals') :
    urlPath r vals wo = urlPath r vals' wo := by
  unfold urlPath
  rw [skeleton_tokens]
  exact replace_perm _ vals vals' (skeletonToks_braceFree r wo hr) hv hd hp

/-! ### 4. Annotations are dropped; the optional segment only when asked -/

/-- "drops regex and capture annotations": the token list — hence the URL — is that of the route
    with every parameter list `{a: …, b: …}` turned into the sequence `{a}{b}` of plain binds of its
    bind parameters (`stripElem`); which parameters are binds depends only on whether the values
    are regexes or literals — no regex text, literal text or capture limit can influence the URL -/
theorem annotations_dropped (r : Route) (wo : Bool) :
    skeletonToks r wo = skeletonToks (stripRoute r) wo := by
  show orRoot _ = orRoot (skeletonToks.go wo (stripRoute r).segs)
  rw [stripRoute, skeletonToks_go_strip]

/-- the stripped route really carries no annotation: its only parameter lists are empty ones -/
theorem stripRoute_no_annotations (r : Route) :
    ∀ s ∈ (stripRoute r).segs, ∀ e ∈ s.elems, ∀ ps, e = Elem.params ps → ps = [] := by
  intro s hs e he ps hps
  simp only [stripRoute, List.mem_map] at hs
  obtain ⟨s0, _, rfl⟩ := hs
  simp only [List.mem_flatMap] at he
  obtain ⟨e0, _, he0⟩ := he
  rcases stripElem_binds e0 e he0 with ⟨h, hno⟩ | ⟨n, h⟩
  · subst h hps
    cases ps with
    | nil => rfl
    | cons q qs => exact absurd rfl (hno q qs)
  · rw [h] at hps; cases hps

theorem urlPath_annotations_dropped (r : Route) (vals : List (Bytes × Bytes)) (wo : Bool) :
    urlPath r vals wo = urlPath (stripRoute r) vals wo := by
  unfold urlPath
  rw [skeleton_tokens, skeleton_tokens, annotations_dropped]

/-- "includes the optional segment only when asked": without the flag the skeleton stops before the
    first optional segment — it is the full skeleton of the route cut there (both sides are `/`
    when nothing is left) -/
theorem optional_only_when_asked (r : Route) :
    skeleton r false = skeleton ⟨r.segs.takeWhile fun s => !s.optional⟩ true := by
  rw [skeleton_tokens, skeleton_tokens]
  show render (orRoot (skeletonToks.go false r.segs)) = render (orRoot (skeletonToks.go true _))
  rw [skeletonToks_go_false, skeletonToks_go_true]

/-- "the route without its only, optional segment is the root path": when the first segment is
    optional and not asked for, the buffer is `/` -/
theorem optional_fallback_root (r : Route) (s : Segment) (rest : List Segment)
    (h : r.segs = s :: rest) (ho : s.optional = true) : skeleton r false = B "/" := by
  rw [skeleton_tokens]
  show render (orRoot (skeletonToks.go false r.segs)) = _
  rw [h, skeletonToks_go_opt s rest ho]
  simp [orRoot, render, Tok.render]

/-- the same for the URL, whatever the values (no guard needed: no key `{…}` occurs in `/`) -/
theorem urlPath_fallback_root (r : Route) (s : Segment) (rest : List Segment)
    (h : r.segs = s :: rest) (ho : s.optional = true) (vals : List (Bytes × Bytes)) :
    urlPath r vals false = B "/" := by
  unfold urlPath
  rw [optional_fallback_root r s rest h ho, B_slash]
  have := go_lit (keyed vals) (keyed_start vals) [] [47] (by decide) 1 (by simp)
  show replaceAll.go (keyed vals) 1 [47] = [47]
  simpa [go_nil] using this

/-- the token lists in general: the segments covered, or `/` if that is nothing -/
theorem skeletonToks_true_eq (r : Route) : skeletonToks r true = orRoot (r.segs.flatMap segToks) := by
  show orRoot _ = _
  rw [skeletonToks_go_true]

theorem skeletonToks_false_eq (r : Route) :
    skeletonToks r false = orRoot ((r.segs.takeWhile fun s => !s.optional).flatMap segToks) := by
  show orRoot _ = _
  rw [skeletonToks_go_false]

/-- with the flag every segment is covered, optional or not -/
theorem optional_included_when_asked (r : Route) (hne : r.segs ≠ []) :
    skeletonToks r true = r.segs.flatMap segToks := by
  obtain ⟨s, rest, h⟩ := List.exists_cons_of_ne_nil hne
  show orRoot _ = _
  rw [orRoot_of_ne (by rw [h]; exact skeletonToks_go_ne true s rest (Or.inr rfl)),
    skeletonToks_go_true]

/-- without it (first segment not optional) exactly the segments before the first optional one -/
theorem optional_excluded_otherwise (r : Route) (s : Segment) (rest : List Segment)
    (h : r.segs = s :: rest) (hs : s.optional = false) :
    skeletonToks r false = (r.segs.takeWhile fun s => !s.optional).flatMap segToks := by
  show orRoot _ = _
  rw [orRoot_of_ne (by rw [h]; exact skeletonToks_go_ne false s rest (Or.inl hs)),
    skeletonToks_go_false]

/-! ### 5. `router.URLPath`: the `k v k v …` argument list

`keysOf pairs` are the elements at even positions that have a partner; `lastVal pairs k` is the
value of the LAST occurrence of `k` among them. -/

/-- "later duplicates of a key win" / the value map in closed form -/
theorem mk_lookup (pairs : List Bytes) (k : Bytes) :
    assocGet (Router.urlPath.mk pairs []) k = lastVal pairs k :=
  mk_get_nil k pairs

/-- the last `k v` of the list decides, whatever came before -/
theorem later_duplicate_wins (pairs : List Bytes) (k v : Bytes) (h : pairs.length % 2 = 0) :
    assocGet (Router.urlPath.mk (pairs ++ [k, v]) []) k = some v := by
  rw [mk_append_even _ _ _ h]
  simp only [Router.urlPath.mk]
  exact assocGet_assocSet_same _ k v

/-- "a trailing odd element is ignored" -/
theorem trailing_odd_ignored (pairs : List Bytes) (x : Bytes) (h : pairs.length % 2 = 0) :
    Router.urlPath.mk (pairs ++ [x]) [] = Router.urlPath.mk pairs [] := by
  rw [mk_append_even _ _ _ h]
  simp only [Router.urlPath.mk]

/-- the value map has distinct keys (it models a Go map) -/
theorem mk_distinct_keys (pairs : List Bytes) : DistinctKeys (Router.urlPath.mk pairs []) :=
  mk_distinct pairs [] List.Pairwise.nil

/-- "`withOptional=true` is consumed and switches the flag": the pair is removed from the values
    (so a bind that happens to be called `withOptional` stays visible) and the optional segment is
    included; any other value of `withOptional` is an ordinary value and the flag stays off -/
theorem withOptional_consumed (R : Router) (name : Bytes) (pairs : List Bytes) (r : Route)
    (hn : assocGet R.named name = some r) :
    R.urlPath name pairs =
      if lastVal pairs (B "withOptional") = some (B "true")
      then some (urlPath r (assocDel (Router.urlPath.mk pairs []) (B "withOptional")) true)
      else some (urlPath r (Router.urlPath.mk pairs []) false) := by
  unfold Router.urlPath
  simp only [hn, mk_lookup]
  by_cases h : lastVal pairs (B "withOptional") = some (B "true")
  · simp [h]
  · have : (lastVal pairs (B "withOptional") == some (B "true")) = false := by simpa using h
    simp [h, this]

theorem withOptional_removed (pairs : List Bytes) :
    assocGet (assocDel (Router.urlPath.mk pairs []) (B "withOptional")) (B "withOptional") = none :=
  assocGet_assocDel_same _ _

/-- `router.URLPath` in closed form, for a brace-free route and brace-free argument names: every
    hole `{n}` becomes the value of the last `n v` among the arguments (except that a consumed
    `withOptional` is gone), or stays visible -/
theorem router_urlPath_tokenwise (R : Router) (name : Bytes) (pairs : List Bytes) (r : Route)
    (hn : assocGet R.named name = some r) (hr : BraceFree r = true)
    (hk : (keysOf pairs).all noBrace = true) :
    R.urlPath name pairs =
      let wo := decide (lastVal pairs (B "withOptional") = some (B "true"))
      some ((skeletonToks r wo).flatMap fun
        | .lit b => b
        | .hole n =>
          match (if wo && n == B "withOptional" then none else lastVal pairs n) with
          | some v => v
          | none => B "{" ++ n ++ B "}") := by
  rw [withOptional_consumed R name pairs r hn]
  have hkeys := mk_keys noBrace pairs [] hk rfl
  by_cases h : lastVal pairs (B "withOptional") = some (B "true")
  · simp only [h, ↓reduceIte, decide_true, Bool.true_and]
    rw [urlPath_tokenwise r _ true hr (assocDel_all _ _ hkeys)]
    congr 1
    apply flatMap_congr_mem
    intro t _
    cases t with
    | lit b => rfl
    | hole n =>
      simp only [Tok.subst, ← assocGet_eq_lookup]
      by_cases hnw : n = B "withOptional"
      · subst hnw; simp [assocGet_assocDel_same]
      · have : (n == B "withOptional") = false := by simp [hnw]
        simp only [this, Bool.false_eq_true, ↓reduceIte]
        rw [assocGet_assocDel_other _ _ _ hnw, mk_lookup]
        cases lastVal pairs n <;> rfl
  · simp only [h, ↓reduceIte, decide_false, Bool.false_and, Bool.false_eq_true]
    rw [urlPath_tokenwise r _ false hr hkeys]
    congr 1
    apply flatMap_congr_mem
    intro t _
    cases t with
    | lit b => rfl
    | hole n =>
      simp only [Tok.subst, ← assocGet_eq_lookup, mk_lookup]
      cases lastVal pairs n <;> rfl

/-! ### 6. The segment view (the URL-building half of the round trip of C02)

`instSeg vals s` is the segment `s` with every bind replaced by its value in `vals` (C02 passes the
request's captured parameters).  For a route of static texts and `{bind}` placeholders whose values
and texts are slash-free, the URL built with the optional segment splits — exactly as `Tree.Match`
splits a request path: `splitSlash ∘ trimLeftSlash` — into the instantiated segments. -/

theorem instElem_ident (vals : List (Bytes × Bytes)) (s : Bytes) : instElem vals (.ident s) = s := by
  simp [instElem, elemToks, Tok.subst]

theorem instElem_bind (vals : List (Bytes × Bytes)) (n v : Bytes) (h : vals.lookup n = some v) :
    instElem vals (.bind n) = v := by
  simp [instElem, elemToks, Tok.subst, h]

/-- a parameter list gives the values of its bind parameters, concatenated: the first one, then
    (`laterHoles`) every later regex-valued one if the first is regex-valued -/
theorem instElem_params (vals : List (Bytes × Bytes)) (p : BindParam) (ps : List BindParam) :
    instElem vals (.params (p :: ps)) =
      Tok.subst vals (.hole p.ident) ++ (laterHoles p ps).flatMap (Tok.subst vals) := rfl

/-- a list whose first value is a literal (a match-all `{name: **, capture: 2}`) stands for the
    value of its first name alone, whatever the further parameters are -/
theorem instElem_params_lit (vals : List (Bytes × Bytes)) (p : BindParam) (ps : List BindParam)
    (v t : Bytes) (hp : p.val = .lit t) (h : vals.lookup p.ident = some v) :
    instElem vals (.params (p :: ps)) = v := by
  rw [instElem_params, laterHoles_lit p ps t hp]
  simp [Tok.subst, h]

/-- a regex list: the value of the first name, then those of the later regex-valued parameters -/
theorem instElem_params_re (vals : List (Bytes × Bytes)) (p : BindParam) (ps : List BindParam)
    (t : Bytes) (hp : p.val = .re t) :
    instElem vals (.params (p :: ps)) =
      Tok.subst vals (.hole p.ident) ++ (regexHoles ps).flatMap (Tok.subst vals) := by
  rw [instElem_params, laterHoles_re p ps t hp]

/-- the URL is `/seg₁/seg₂/…` with the segments instantiated -/
theorem urlPath_segments (r : Route) (vals : List (Bytes × Bytes))
    (hr : BraceFree r = true) (hv : vals.all (fun p => noBrace p.1) = true) (hne : r.segs ≠ []) :
    urlPath r vals true = r.segs.flatMap fun s => slash :: instSeg vals s := by
  rw [urlPath_tokenwise r vals true hr hv, optional_included_when_asked r hne,
    subst_flatMap_segToks]

theorem urlPath_join (r : Route) (vals : List (Bytes × Bytes))
    (hr : BraceFree r = true) (hv : vals.all (fun p => noBrace p.1) = true) (hne : r.segs ≠ []) :
    urlPath r vals true = slash :: joinSlash (r.segs.map (instSeg vals)) := by
  rw [urlPath_segments r vals hr hv hne, ← flatMap_slash_eq_join _ (by simpa using hne),
    List.flatMap_map]

/-- splitting the built URL the way the matcher splits a path gives back the instantiated
    segments, provided they are slash-free (values and texts without `/`) and the first one is
    non-empty unless it is the only one (leading slashes are trimmed by the matcher) -/
theorem round_trip_segments (r : Route) (vals : List (Bytes × Bytes))
    (hr : BraceFree r = true) (hv : vals.all (fun p => noBrace p.1) = true)
    (s0 : Segment) (rest : List Segment) (hsegs : r.segs = s0 :: rest)
    (hfirst : instSeg vals s0 ≠ [] ∨ rest = [])
    (hsf : ∀ s ∈ r.segs, slashFree (instSeg vals s) = true) :
    splitSlash (trimLeftSlash (urlPath r vals true)) = r.segs.map (instSeg vals) := by
  rw [urlPath_join r vals hr hv (by simp [hsegs]), hsegs]
  have h0 : slashFree (instSeg vals s0) = true := hsf s0 (by simp [hsegs])
  have htrim : trimLeftSlash (slash :: joinSlash ((s0 :: rest).map (instSeg vals))) =
      joinSlash ((s0 :: rest).map (instSeg vals)) := by
    rw [trimLeftSlash]
    simp only [↓reduceIte, List.map_cons]
    apply trimLeftSlash_joinSlash _ _ h0
    rcases hfirst with h | h
    · exact Or.inl h
    · exact Or.inr (by simp [h])
  rw [htrim]
  apply splitSlash_joinSlash _ (by simp)
  rw [List.all_eq_true]
  intro b hb
  obtain ⟨s, hs, rfl⟩ := List.mem_map.mp hb
  exact hsf s (hsegs ▸ hs)

/-- slash-freeness of a segment follows from that of its texts and values -/
theorem instSeg_slashFree_of_elems (vals : List (Bytes × Bytes)) (s : Segment)
    (h : ∀ e ∈ s.elems, slashFree (instElem vals e) = true) : slashFree (instSeg vals s) = true :=
  instSeg_slashFree vals s h

/-! ### Non-vacuity: concrete routes and values -/

/-- `/u/{x}-{y: /[0-9]+/}/?{z}` -/
def exRoute : Route :=
  ⟨[⟨false, [.ident [117]]⟩,
    ⟨false, [.bind [120], .ident [45], .params [⟨[121], .re [91, 48, 45, 57, 93, 43]⟩]]⟩,
    ⟨true, [.bind [122]]⟩]⟩

/-- `x ↦ "{y}"` (looks like another bind), `y ↦ "}{"`, and the unknown name `w ↦ "/"` -/
def exVals : List (Bytes × Bytes) := [([120], [123, 121, 125]), ([121], [125, 123]), ([119], [47])]

example : BraceFree exRoute = true := by decide
example : exVals.all (fun p => noBrace p.1) = true := by decide
example : DistinctKeys exVals := by decide

/-- all at once, values not re-scanned (`{y}` coming from `x` survives), the regex is dropped, `w` is
    ignored, `{z}` without a value stays visible, optional segment included: `/u/{y}-}{/{z}` -/
example : urlPath exRoute exVals true =
    [47, 117, 47, 123, 121, 125, 45, 125, 123, 47, 123, 122, 125] := by
  rw [urlPath_tokenwise exRoute exVals true (by decide) (by decide)]
  simp [exRoute, exVals, skeletonToks, skeletonToks.go, segToks, elemToks, laterHoles, regexHoles, orRoot, Tok.subst, B_slash,
    B_lbrace, B_rbrace, List.lookup]

/-- an empty value, optional segment not asked for: `/u/` then `-{y}` -/
example : urlPath exRoute [([120], [])] false = [47, 117, 47, 45, 123, 121, 125] := by
  rw [urlPath_tokenwise exRoute _ false (by decide) (by decide)]
  simp [exRoute, skeletonToks, skeletonToks.go, segToks, elemToks, laterHoles, regexHoles, orRoot, Tok.subst, B_slash,
    B_lbrace, B_rbrace, List.lookup]

/-- any order of the map gives the same URL -/
example : urlPath exRoute exVals true = urlPath exRoute exVals.reverse true :=
  urlPath_perm exRoute exVals _ true (by decide) (by decide) (by decide) (List.reverse_perm _).symm

/-- the round-trip hypotheses are satisfiable: `/u/{x}` with `x ↦ "a"` splits into `["u", "a"]` -/
example : splitSlash (trimLeftSlash (urlPath ⟨[⟨false, [.ident [117]]⟩, ⟨false, [.bind [120]]⟩]⟩
    [([120], [97])] true)) = [[117], [97]] := by
  rw [round_trip_segments _ [([120], [97])] (by decide) (by decide) ⟨false, [.ident [117]]⟩
    [⟨false, [.bind [120]]⟩] rfl (Or.inl (by decide)) (by decide)]
  decide

/-- the guard on the KEYS is needed: a name containing braces can swallow several tokens —
    on `/{a}/{b}` the single name `a}/{b` replaces the whole `{a}/{b}` -/
example : urlPath ⟨[⟨false, [.bind [97]]⟩, ⟨false, [.bind [98]]⟩]⟩ [([97, 125, 47, 123, 98], [33])] true
    = [47, 33] := by
  simp [urlPath, skeleton, skeleton.go, elemSkeleton, replaceAll, replaceAll.go, isPrefixOf',
    B_slash, B_lbrace, B_rbrace]

/-- `router.URLPath("n", "x","a", "x","b", "withOptional","true", "z")`: the later `x` wins, the
    flag is consumed and switches the optional segment on, the trailing odd `z` is ignored:
    `/u/b-{y}/{z}` -/
example : ({ trees := [], named := [([110], exRoute)] } : Router).urlPath [110]
    [[120], [97], [120], [98], B "withOptional", B "true", [122]] =
    some [47, 117, 47, 98, 45, 123, 121, 125, 47, 123, 122, 125] := by
  rw [router_urlPath_tokenwise _ [110] _ exRoute rfl (by decide)
    (by rw [B_withOptional, B_true]; decide)]
  simp [exRoute, lastVal, skeletonToks, skeletonToks.go, segToks, elemToks, laterHoles, regexHoles, orRoot, B_slash,
    B_lbrace, B_rbrace, B_withOptional, B_true]

/-- `/{a: /x+/, b: /y+/}-{r: **, capture: 2}`: every bind parameter of a list gets its value
    (`a ↦ "1"`, `b ↦ "{a}"` — not re-scanned, `r ↦ "p/q"`), the capture limit `capture` is no bind even
    though a value is supplied for it: `/1{a}-p/q` -/
example : urlPath
    ⟨[⟨false, [.params [⟨[97], .re [120, 43]⟩, ⟨[98], .re [121, 43]⟩], .ident [45],
               .params [⟨[114], .lit [42, 42]⟩, ⟨[99], .lit [50]⟩]]⟩]⟩
    [([97], [49]), ([98], [123, 97, 125]), ([114], [112, 47, 113]), ([99], [33])] true =
    [47, 49, 123, 97, 125, 45, 112, 47, 113] := by
  rw [urlPath_tokenwise _ _ true (by decide) (by decide)]
  simp [skeletonToks, skeletonToks.go, segToks, elemToks, laterHoles, regexHoles, orRoot, Tok.subst, B_slash,
    List.lookup]

/-- `/?{z}`: without the optional segment the URL is the root path `/`, with it `/v` -/
example : urlPath ⟨[⟨true, [.bind [122]]⟩]⟩ [([122], [118])] false = [47] := by
  rw [urlPath_tokenwise _ _ false (by decide) (by decide)]
  simp [skeletonToks, skeletonToks.go, orRoot, Tok.subst, B_slash]

example : urlPath ⟨[⟨true, [.bind [122]]⟩]⟩ [([122], [118])] true = [47, 118] := by
  rw [urlPath_tokenwise _ _ true (by decide) (by decide)]
  simp [skeletonToks, skeletonToks.go, segToks, elemToks, orRoot, Tok.subst, B_slash, List.lookup]

/-- `/{p: **, q: /x+/}`: the first value is a literal, so only `p` is a bind — `p ↦ "a/b"` gives
    `/a/b`, no `{q}` is written -/
example : urlPath ⟨[⟨false, [.params [⟨[112], .lit [42, 42]⟩, ⟨[113], .re [120, 43]⟩]]⟩]⟩
    [([112], [97, 47, 98])] true = [47, 97, 47, 98] := by
  rw [urlPath_tokenwise _ _ true (by decide) (by decide)]
  simp [skeletonToks, skeletonToks.go, segToks, elemToks, laterHoles, orRoot, Tok.subst, B_slash,
    List.lookup]

end Flamego.C12
