/-
  Props/C06Code.lean — C06 at the level of the CODE: `(*Segment).String` and `(*Route).String` (definition.go), the
  canonical text of a parsed route.

  `Gen/SegStringCode.lean` and `Gen/RouteStringCode.lean` are regenerated from internal/route/definition.go on every run
  (/verif/translator: gocode.go, treecode.go).  Each body is `sync.Once.Do(func() { … })` around loops that write into a
  `bytes.Buffer`, then `return s.str`: the Once is its done flag, the buffer its content.

  Proved, for every segment / route AST:

    * `params_loop`, `elem_body`: the loops in closed form — what they write is the model's `renderParams` / `Elem.render`;
    * `seg_string_fresh`: on a segment whose Once has not fired, `String` returns the model's `Segment.render`, and remembers it;
    * `Memo` (done → the remembered text is the rendering) holds of a parsed segment, is preserved by `String`, and under it
      `String` returns the rendering whether or not the memo is filled (`seg_string_memo`): memoisation cannot be observed —
      which is what lets `(*Route).String` stand on the VALUE of `s.String()` alone;
    * `route_string_fresh`, `route_string_memo`: the same for routes — `String` is the model's `Route.render`, every time
      (`route_string_stable`: any number of calls, the same text);
    * `code_render_fixpoint`: Props/C06's canonical-form theorem for the code — for every accepted input, `String()` of the
      parsed route is the input with normalised spacing, parses to the same structure and is a fixpoint.
-/
import Flamego.Gen.SegStringCode
import Flamego.Gen.RouteStringCode
import Flamego.Code.LoopLemmas
import Flamego.Model.Syntax
import Flamego.Props.C06
set_option linter.unusedSimpArgs false
set_option linter.unusedVariables false
namespace Flamego.C06Code
open Flamego.GoSem Flamego.LoopLemmas

abbrev GSeg := Flamego.Gen.SegStringCode.Segment
abbrev GRoute := Flamego.Gen.RouteStringCode.Route
open Flamego.Gen.SegStringCode (BindParameterValue BindParameter BindParameters SegmentElement)

/-! ### the parser's AST in the Go structs -/

def goVal : BindVal → BindParameterValue
  | .lit s => { Literal := some s, Regex := none }
  | .re s => { Literal := none, Regex := some s }
def goParam (p : BindParam) : BindParameter := { Ident := p.ident, Value := goVal p.val }
def goElem : Elem → SegmentElement
  | .ident s => { Pos := (), EndPos := (), Ident := some s, BindIdent := none, BindParameters := none }
  | .bind n => { Pos := (), EndPos := (), Ident := none, BindIdent := some n, BindParameters := none }
  | .params ps => { Pos := (), EndPos := (), Ident := none, BindIdent := none,
                    BindParameters := some { Parameters := ps.map goParam } }
/-- a segment as the parser leaves it: the Once has not fired -/
def goSeg (s : Flamego.Segment) : GSeg :=
  { Pos := (), Slash := [47], Optional := s.optional, Elements := s.elems.map goElem, strOnce := false, str := [] }
def goRoute (r : Flamego.Route) : GRoute :=
  { Segments := r.segs.map fun s => some (goSeg s), strOnce := false, str := [] }

theorem B_slash : B "/" = [47] := by decide
theorem B_open : B "{" = [123] := by decide
theorem B_close : B "}" = [125] := by decide
theorem B_q : B "?" = [63] := by decide
theorem B_qqq : B "???" = [63, 63, 63] := by decide
theorem B_colon : B ": " = [58, 32] := by decide
theorem B_comma : B ", " = [44, 32] := by decide

/-! ### the loops in closed form -/

/-- the `switch` on a parameter's value, as the translation spells it -/
def valText (q : BindParameter) (b0 : Lib.Buffer) : Lib.Buffer :=
  if (q.Value.Literal).isSome then Lib.Buffer_WriteString b0 (GoSem.deref q.Value.Literal)
  else if (q.Value.Regex).isSome then
    Lib.Buffer_WriteString (Lib.Buffer_WriteString (Lib.Buffer_WriteString b0 [47]) (GoSem.deref q.Value.Regex)) [47]
  else Lib.Buffer_WriteString b0 [63, 63, 63]

/-- what one parameter writes, before the separator -/
theorem param_text (p : BindParam) (buf : Lib.Buffer) :
    valText (goParam p) (Lib.Buffer_WriteString (Lib.Buffer_WriteString buf (goParam p).Ident) [58, 32]) = buf ++ p.render := by
  obtain ⟨pid, pv⟩ := p
  cases pv <;>
    simp [valText, goParam, goVal, GoSem.deref, Lib.Buffer_WriteString, BindParam.render, BindVal.render, B_colon, B_slash,
      List.append_assoc]

/-- the loop over a parameter list: the parameters joined by ", " -/
theorem params_loop (N : Int) (body : Int × BindParameter → Lib.Buffer → GoSem.Ctl Bytes × Lib.Buffer)
    (hb : ∀ (i : Int) (q : BindParameter) (b : Lib.Buffer), body (i, q) b = (GoSem.Ctl.next,
      if decide (N > i + 1) then
        Lib.Buffer_WriteString (valText q (Lib.Buffer_WriteString (Lib.Buffer_WriteString b q.Ident) [58, 32])) [44, 32]
      else valText q (Lib.Buffer_WriteString (Lib.Buffer_WriteString b q.Ident) [58, 32])))
    (ps : List BindParam) (n : Nat) (hN : N = (n : Int) + (ps.length : Int)) (buf : Lib.Buffer) :
    GoSem.forRangeCtl (ρ := Bytes) (((ps.map goParam).zipIdx n).map fun p => ((p.2 : Int), p.1)) body buf
      = (GoSem.Ctl.next, buf ++ renderParams ps) := by
  induction ps generalizing n buf with
  | nil => simp [GoSem.forRangeCtl, renderParams]
  | cons p rest ih =>
    simp only [List.map_cons, List.zipIdx_cons, GoSem.forRangeCtl, hb, param_text]
    cases rest with
    | nil =>
      have : decide (N > (n : Int) + 1) = false := by simp [hN]
      simp [this, GoSem.forRangeCtl, renderParams]
    | cons q rest' =>
      have : decide (N > (n : Int) + 1) = true := by simp [hN]; omega
      simp only [this, if_true]
      rw [ih (n + 1) (by simp [hN]; omega)]
      simp [renderParams, Lib.Buffer_WriteString, B_comma, List.append_assoc]

/-- what one element writes (the body of the loop over a segment's elements, as the translation spells it) -/
theorem elem_body (e : Elem) (buf : Lib.Buffer) :
    (if ((goElem e).Ident).isSome then (
        let buf := Lib.Buffer_WriteString buf (GoSem.deref (goElem e).Ident);
        ((GoSem.Ctl.next : GoSem.Ctl Bytes), buf)
      ) else (
        if ((goElem e).BindIdent).isSome then (
          let buf := Lib.Buffer_WriteString buf (([123] : Bytes));
          let buf := Lib.Buffer_WriteString buf (GoSem.deref (goElem e).BindIdent);
          let buf := Lib.Buffer_WriteString buf (([125] : Bytes));
          (GoSem.Ctl.next, buf)
        ) else (
          if (((goElem e).BindParameters).isNone || (((GoSem.deref (goElem e).BindParameters).Parameters.length : Int) == 0)) then (
            let buf := Lib.Buffer_WriteString buf (([63, 63, 63] : Bytes));
            (GoSem.Ctl.next, buf)
          ) else (
            let buf := Lib.Buffer_WriteString buf (([123] : Bytes));
            let (ctl_, buf) := GoSem.forRangeCtl (ρ := Bytes) (GoSem.enum ((GoSem.deref (goElem e).BindParameters).Parameters)) (fun (i, p) buf =>
                let buf := Lib.Buffer_WriteString buf p.Ident;
                let buf := Lib.Buffer_WriteString buf (([58, 32] : Bytes));
                let buf := (if (p.Value.Literal).isSome then (
                    let buf := Lib.Buffer_WriteString buf (GoSem.deref p.Value.Literal);
                    buf
                  ) else (
                    let buf := (if (p.Value.Regex).isSome then (
                        let buf := Lib.Buffer_WriteString buf (([47] : Bytes));
                        let buf := Lib.Buffer_WriteString buf (GoSem.deref p.Value.Regex);
                        let buf := Lib.Buffer_WriteString buf (([47] : Bytes));
                        buf
                      ) else (
                        let buf := Lib.Buffer_WriteString buf (([63, 63, 63] : Bytes));
                        buf
                      ));
                    buf
                  ));
                let buf := (if (decide (((GoSem.deref (goElem e).BindParameters).Parameters.length : Int) > (i + 1))) then (
                    let buf := Lib.Buffer_WriteString buf (([44, 32] : Bytes));
                    buf
                  ) else (
                    buf
                  ));
                (GoSem.Ctl.next, buf)
              ) buf;
            let buf := Lib.Buffer_WriteString buf (([125] : Bytes));
            (GoSem.Ctl.next, buf)
          )
        )
      )) = (GoSem.Ctl.next, buf ++ e.render) := by
  cases e with
  | ident s => simp [goElem, GoSem.deref, Lib.Buffer_WriteString, Elem.render]
  | bind n => simp [goElem, GoSem.deref, Lib.Buffer_WriteString, Elem.render, B_open, B_close]
  | params ps =>
    cases ps with
    | nil => simp [goElem, GoSem.deref, Lib.Buffer_WriteString, Elem.render, B_qqq]
    | cons p ps =>
      have hlen : ((((List.map goParam (p :: ps)).length : Nat) : Int) == 0) = false := by
        simp only [List.map_cons, List.length_cons, beq_eq_false_iff_ne, ne_eq]; omega
      simp only [goElem, GoSem.deref, Option.isSome_none, Bool.false_eq_true, if_false, Option.isNone_some, Bool.false_or,
        Option.getD_some, hlen, GoSem.enum]
      rw [params_loop ((List.map goParam (p :: ps)).length : Nat) _ (fun i q b => rfl) (p :: ps) 0 (by simp)]
      simp [Elem.render, Lib.Buffer_WriteString, B_open, B_close, List.append_assoc]

/-! ### `(*Segment).String` -/

open Flamego.Gen.SegStringCode in
/-- on a segment whose Once has not fired (what the parser produces), `String` computes the model's rendering, returns it
and remembers it -/
theorem seg_string_fresh (s : Flamego.Segment) :
    String' (goSeg s) = (s.render, { goSeg s with strOnce := true, str := s.render }) := by
  unfold String'
  have hel : (goSeg s).Elements = s.elems.map goElem := rfl
  have ho : (goSeg s).strOnce = false := rfl
  simp only [ho, Bool.false_eq_true, if_false, hel, GoSem.enum]
  rw [loop_next (ρ := Bytes) goElem (fun (b : Lib.Buffer) e => b ++ e.render) _ (fun i e b => elem_body e b)]
  have hd : (default : Lib.Buffer) = ([] : Bytes) := rfl
  have hr : (if (goSeg s).Optional = true then Lib.Buffer_WriteString (Lib.Buffer_WriteString default [47]) [63]
      else Lib.Buffer_WriteString default [47]) = B "/" ++ (if s.optional then B "?" else []) := by
    show (if s.optional = true then _ else _) = _
    cases s.optional <;> simp [Lib.Buffer_WriteString, hd, B_slash, B_q]
  simp only [hr, foldl_append_flatMap, Lib.Buffer_String]
  rfl

/-- the memo of a segment is sound: once the Once has fired, the remembered text is the rendering -/
def Memo (s : Flamego.Segment) (g : GSeg) : Prop :=
  g.Optional = s.optional ∧ g.Elements = s.elems.map goElem ∧ (g.strOnce = true → g.str = s.render)

theorem memo_parsed (s : Flamego.Segment) : Memo s (goSeg s) := ⟨rfl, rfl, by intro h; cases h⟩

open Flamego.Gen.SegStringCode in
/-- under the invariant `String` returns the rendering whether or not the memo is filled, and keeps the invariant:
memoisation cannot be observed -/
theorem seg_string_memo (s : Flamego.Segment) (g : GSeg) (h : Memo s g) :
    (String' g).1 = s.render ∧ Memo s (String' g).2 ∧ (String' g).2.strOnce = true := by
  obtain ⟨hopt, hel, hm⟩ := h
  cases hdone : g.strOnce with
  | true =>
    have : String' g = (g.str, g) := by simp [String', hdone]
    rw [this]
    exact ⟨hm hdone, ⟨hopt, hel, hm⟩, hdone⟩
  | false =>
    have hfresh := seg_string_fresh s
    have hcong : String' g = (s.render, { g with strOnce := true, str := s.render }) := by
      unfold String' at hfresh ⊢
      have ho : (goSeg s).strOnce = false := rfl
      have hel' : (goSeg s).Elements = s.elems.map goElem := rfl
      have hopt' : (goSeg s).Optional = s.optional := rfl
      simp only [ho, hdone, Bool.false_eq_true, if_false, hel, hel', hopt, hopt'] at hfresh ⊢
      have h1 := congrArg Prod.fst hfresh
      simp only at h1
      simp only [h1]
    rw [hcong]
    exact ⟨rfl, ⟨hopt, hel, fun _ => rfl⟩, rfl⟩

open Flamego.Gen.SegStringCode in
/-- any number of calls: always the rendering -/
theorem seg_string_stable (s : Flamego.Segment) (g : GSeg) (h : Memo s g) (n : Nat) :
    (String' (Nat.repeat (fun g => (String' g).2) n g)).1 = s.render := by
  have hm : Memo s (Nat.repeat (fun g => (String' g).2) n g) := by
    induction n with
    | zero => exact h
    | succ n ih => exact (seg_string_memo s _ ih).2.1
  exact (seg_string_memo s _ hm).1

/-! ### `(*Route).String` -/

/-- the route's segments, each with a sound memo (filled or not) -/
def SegsOK : List Flamego.Segment → List (Option GSeg) → Prop
  | [], [] => True
  | s :: ss, some g :: gs => Memo s g ∧ SegsOK ss gs
  | _, _ => False

/-- the invariant of a route: its segments' memos are sound and so is its own -/
def RMemo (r : Flamego.Route) (g : GRoute) : Prop :=
  SegsOK r.segs g.Segments ∧ (g.strOnce = true → g.str = r.render)

theorem segsOK_parsed (ss : List Flamego.Segment) : SegsOK ss (ss.map fun s => some (goSeg s)) := by
  induction ss with
  | nil => trivial
  | cons s ss ih => exact ⟨memo_parsed s, ih⟩

theorem rmemo_parsed (r : Flamego.Route) : RMemo r (goRoute r) := ⟨segsOK_parsed r.segs, by intro h; cases h⟩

open Flamego.Gen.RouteStringCode in
theorem segs_loop (body : Int × Option GSeg → Lib.Buffer → GoSem.Ctl Bytes × Lib.Buffer)
    (hb : ∀ i g b, body (i, g) b = (GoSem.Ctl.next, Lib.Buffer_WriteString b (segString g)))
    (ss : List Flamego.Segment) (gs : List (Option GSeg)) (h : SegsOK ss gs) (n : Nat) (buf : Lib.Buffer) :
    GoSem.forRangeCtl (ρ := Bytes) ((gs.zipIdx n).map fun p => ((p.2 : Int), p.1)) body buf
      = (GoSem.Ctl.next, buf ++ ss.flatMap Flamego.Segment.render) := by
  induction ss generalizing gs n buf with
  | nil =>
    cases gs with
    | nil => simp [GoSem.forRangeCtl]
    | cons g gs => cases h
  | cons s ss ih =>
    cases gs with
    | nil => cases h
    | cons g gs =>
      cases g with
      | none => cases h
      | some g =>
        obtain ⟨hm, hrest⟩ := h
        have hv : segString (some g) = s.render := (seg_string_memo s g hm).1
        simp only [List.zipIdx_cons, List.map_cons, GoSem.forRangeCtl, hb, hv]
        rw [ih gs hrest]
        simp [Lib.Buffer_WriteString, List.flatMap_cons, List.append_assoc]

open Flamego.Gen.RouteStringCode in
/-- **`(*Route).String` is the model's `Route.render`**, whatever memos are filled; it changes nothing but its own memo,
which stays sound -/
theorem route_string_memo (r : Flamego.Route) (g : GRoute) (h : RMemo r g) :
    (String' g).1 = r.render ∧ RMemo r (String' g).2 ∧ (String' g).2.Segments = g.Segments := by
  obtain ⟨hs, hm⟩ := h
  cases hdone : g.strOnce with
  | true =>
    have : String' g = (g.str, g) := by simp [String', hdone]
    rw [this]
    exact ⟨hm hdone, ⟨hs, hm⟩, rfl⟩
  | false =>
    have hcong : String' g = (r.render, { g with strOnce := true, str := r.render }) := by
      unfold String'
      simp only [hdone, Bool.false_eq_true, if_false, GoSem.enum]
      rw [segs_loop _ (fun i g b => rfl) r.segs g.Segments hs 0]
      have hd : (default : Lib.Buffer) = ([] : Bytes) := rfl
      simp only [hd, List.nil_append, Lib.Buffer_String]
      rfl
    rw [hcong]
    exact ⟨rfl, ⟨hs, fun _ => rfl⟩, rfl⟩

open Flamego.Gen.RouteStringCode in
/-- for the route the parser produced -/
theorem route_string_fresh (r : Flamego.Route) : (String' (goRoute r)).1 = r.render :=
  (route_string_memo r _ (rmemo_parsed r)).1

open Flamego.Gen.RouteStringCode in
/-- any number of calls: always the same text, the rendering -/
theorem route_string_stable (r : Flamego.Route) (g : GRoute) (h : RMemo r g) (n : Nat) :
    (String' (Nat.repeat (fun g => (String' g).2) n g)).1 = r.render := by
  have hm : RMemo r (Nat.repeat (fun g => (String' g).2) n g) := by
    induction n with
    | zero => exact h
    | succ n ih => exact (route_string_memo r _ ih).2.1
  exact (route_string_memo r _ hm).1

/-! ### Props/C06's theorems, for the code -/

open Flamego.Gen.RouteStringCode Flamego.RouteGrammar in
/-- for every input the parser accepts: what `String()` of the parsed route returns is the input with the spacing after
`:` and `,` normalised, it parses to the same structure, and whatever it parses to renders to the same text (a fixpoint) —
on the first call and on every later one -/
theorem code_render_fixpoint (s : Bytes) (r : Flamego.Route) (h : parse s = some r) (n : Nat) :
    let text := (String' (Nat.repeat (fun g => (String' g).2) n (goRoute r))).1
    text = normaliseSpacing s ∧ parse text = some r ∧ (∀ r', parse text = some r' → r'.render = text) := by
  intro text
  have ht : text = r.render := route_string_stable r _ (rmemo_parsed r) n
  obtain ⟨h1, h2, h3⟩ := render_fixpoint s r h
  rw [ht]
  exact ⟨h2, h1, h3⟩

/-! ### the definitions compute -/

def demoRoute : Flamego.Route :=
  ⟨[⟨false, [.ident [117]]⟩,                                             -- /u
    ⟨true, [.params [⟨[97], .re [46, 43]⟩, ⟨[99], .lit [50]⟩], .bind [120]]⟩]⟩   -- /?{a: /.+/, c: 2}{x}

example : (Flamego.Gen.RouteStringCode.String' (goRoute demoRoute)).1
    = B "/u/?{a: /.+/, c: 2}{x}" := by decide
example : (Flamego.Gen.RouteStringCode.String' (goRoute demoRoute)).2.strOnce = true := by decide

end Flamego.C06Code
