/-
  Props/C09.lean — Header constraints gate a route in every form it can be reached.
  (the gating theorems over dispatch are added as the proof development proceeds; DESIGN.md §5/C09)
-/
import Flamego.Proofs.Assoc
import Flamego.Proofs.HeaderFilter
import Flamego.Props.C01

namespace Flamego.C09

/-- "specifying constraints again replaces the previous set": after two `Headers` calls on the same
    route only the second set is consulted, for every request — for every leaf (both forms, every
    method) since all leaves of one registration look their constraints up under the same handle. -/
theorem headers_replace (E : Engine) (R : Router) (hid : Nat) (p1 p2 : List HdrPair)
    (req : List (Bytes × Bytes)) (hh : (assocGet R.handles hid).isSome) :
    ((R.setHeaders hid p1).setHeaders hid p2).hok E req hid = hdrPairsOK E p2 req := by
  obtain ⟨ls, hls⟩ := Option.isSome_iff_exists.mp hh
  simp only [Router.setHeaders, hls, Router.hok, assocGet_assocSet_same]

/-- a route that never got constraints is eligible whatever the headers -/
theorem no_constraints_always_ok (E : Engine) (R : Router) (hid : Nat) (req : List (Bytes × Bytes))
    (h : assocGet R.hdrs hid = none) : R.hok E req hid = true := by
  simp [Router.hok, h]

/-- "for every constrained header, the request carries a non-empty value that the given expression
    matches": the eligibility test is exactly that conjunction. -/
theorem constraints_iff (E : Engine) (pairs : List HdrPair) (req : List (Bytes × Bytes)) :
    hdrPairsOK E pairs req = true ↔
      ∀ p ∈ pairs, ∃ v, assocGet req p.canon = some v ∧ v ≠ [] ∧ E.search p.expr v = true := by
  simp only [hdrPairsOK, List.all_eq_true]
  constructor
  · intro h p hp
    have := h p hp
    cases hv : assocGet req p.canon with
    | none => simp [hv] at this
    | some v => simp [hv] at this; exact ⟨v, rfl, this.1, this.2⟩
  · intro h p hp
    obtain ⟨v, hv, hne, hs⟩ := h p hp
    simp [hv, hne, hs]

/-- `Headers` evicts the route from the fast-path table, so a constrained fully static route is
    always decided by the tree (where its leaf checks the constraints). -/
theorem headers_evict_shortcut (R : Router) (hid : Nat) (pairs : List HdrPair) (m : String) (leaf : Leaf)
    (leaves : List (String × Leaf)) (hl : assocGet R.handles hid = some leaves)
    (hm : (m, leaf) ∈ leaves) (hs : leaf.allStatic = true) :
    assocGet (R.setHeaders hid pairs).statics (m, leaf.route.render) = none := by
  simp only [Router.setHeaders, hl]
  -- deleting is monotone: once a key is gone it stays gone along the fold
  have del_none : ∀ (st : List ((String × Bytes) × Leaf)) (k k2 : String × Bytes),
      assocGet st k = none → assocGet (assocDel st k2) k = none := by
    intro st k k2 h
    induction st with
    | nil => simp [assocDel, assocGet]
    | cons p rest ih =>
      obtain ⟨k', v'⟩ := p
      simp only [assocGet, List.find?] at h
      by_cases hk : (k' == k) = true
      · simp [hk] at h
      · simp only [hk] at h
        simp only [assocDel, assocGet] at ih ⊢
        by_cases h2 : (k' == k2) = true
        · simp only [List.filter, h2, Bool.not_true]; exact ih h
        · simp only [List.filter, h2, Bool.not_false, List.find?, hk]; exact ih h
  have fold_none : ∀ (ls : List (String × Leaf)) (st : List ((String × Bytes) × Leaf)) (k : String × Bytes),
      assocGet st k = none →
      assocGet (ls.foldl (fun st (x : String × Leaf) =>
        if x.2.allStatic then assocDel st (x.1, x.2.route.render) else st) st) k = none := by
    intro ls
    induction ls with
    | nil => intro st k h; exact h
    | cons x xs ih =>
      intro st k h
      simp only [List.foldl]
      apply ih
      split
      · exact del_none _ _ _ h
      · exact h
  have key : ∀ (ls : List (String × Leaf)) (st : List ((String × Bytes) × Leaf)),
      (m, leaf) ∈ ls →
      assocGet (ls.foldl (fun st (x : String × Leaf) =>
        if x.2.allStatic then assocDel st (x.1, x.2.route.render) else st) st) (m, leaf.route.render) = none := by
    intro ls
    induction ls with
    | nil => intro st h; cases h
    | cons x xs ih =>
      intro st h
      simp only [List.foldl]
      rcases List.mem_cons.mp h with h | h
      · subst h
        simp only [hs, ↓reduceIte]
        exact fold_none _ _ _ (assocGet_assocDel_same _ _)
      · exact ih _ h
  exact key leaves R.statics hm

/-! ### gating of dispatch (all route sets, all requests)

`hok hid` says whether the constraints of registration `hid` hold for the request; every leaf of a
registration — the long and the short form, in every method's tree — carries the same `hid`, so
one predicate gates every way the route can be reached. -/

open Flamego.C01 in
/-- "eligible for a request only if … ": whatever is chosen satisfies its own constraints — for a
    fully static route, a dynamic one, the long or the short form alike (`l.long` is arbitrary). -/
theorem chosen_satisfies_constraints (E : Engine) (hok : Nat → Bool) (h : List (Route × Nat))
    (hP : ∀ rh ∈ h, ∀ s ∈ rh.1.segs, ParsedSeg s = true) (path : Bytes) (l : Leaf)
    (hc : chosen E hok (build E h) path = some l) : hok l.hid = true := by
  obtain ⟨_, _, f, _, hid, _, ha⟩ := dispatch_sound E hok h hP path l hc
  rw [← hid]; exact ha.2

open Flamego.C01 in
/-- "when the constraints fail the route is invisible (lower-priority routes or the not-found chain
    take the request)": the winner under constraints is the first walk of the UNCONSTRAINED priority
    order whose registration's constraints hold — failing routes are skipped, nothing else moves. -/
theorem constraints_filter_priority_order (E : Engine) (hok : Nat → Bool) (h : List (Route × Nat)) (path : Bytes)
    (s : Seg) (rest : List Seg) (hs : segsOf path = s :: rest) :
    chosen E hok (build E h) path =
      ((derivs E allOK (build E h).subs (build E h).leaves s rest).filter (fun l => hok l.hid)).head? := by
  rw [dispatch_first E hok h path s rest hs, derivs_filter]

open Flamego.C01 in
/-- a request that satisfies every constraint is dispatched exactly as if no route were constrained -/
theorem satisfied_constraints_transparent (E : Engine) (hok : Nat → Bool) (h : List (Route × Nat)) (path : Bytes)
    (hall : ∀ i, hok i = true) : chosen E hok (build E h) path = chosen E allOK (build E h) path := by
  have : hok = allOK := funext hall
  rw [this]

/-- at the router: the same constraint set is consulted for every leaf of the registration, in
    every method's tree (the lookup is by `hid` alone) -/
theorem one_constraint_set_per_registration (E : Engine) (R : Router) (req : List (Bytes × Bytes)) (l₁ l₂ : Leaf)
    (h : l₁.hid = l₂.hid) : R.hok E req l₁.hid = R.hok E req l₂.hid := by rw [h]

end Flamego.C09
