/-
  Props/C09Values.lean — C09, the clauses about the VALUE a constrained header carries: "the request carries a
  non-empty value that the given expression matches".  A request may carry one header name on several lines
  (`http.Header` maps a name to a LIST of values); `HeaderMatcher.Match` reads `header.Get(name)`, the first one.
  The request's headers are the list of (canonical name, value) pairs in line order; `assocGet` is `Header.Get`.
-/
import Flamego.Props.C09
namespace Flamego.C09

/-- `Header.Get`: a later line of a name that already occurs changes nothing -/
theorem get_first_value {α β} [BEq α] [LawfulBEq α] (req more : List (α × β)) (k : α) (v : β)
    (h : assocGet req k = some v) : assocGet (req ++ more) k = some v := by
  unfold assocGet at *
  rw [List.find?_append]
  cases hf : req.find? (·.1 == k) with
  | none => simp [hf] at h
  | some p => simp [hf] at h ⊢; exact h

/-- a header the request does not carry at all is looked up in what follows -/
theorem get_absent_then {α β} [BEq α] [LawfulBEq α] (req more : List (α × β)) (k : α)
    (h : assocGet req k = none) : assocGet (req ++ more) k = assocGet more k := by
  unfold assocGet at *
  rw [List.find?_append]
  cases hf : req.find? (·.1 == k) with
  | none => simp
  | some p => simp [hf] at h

/-- **only the first value of a repeated header counts**: lines added after the request's own lines never make a
    constrained route eligible or ineligible, provided every constrained name already occurs.  (A second line
    `X-Role: admin` after `X-Role: guest` does not satisfy `X-Role: ^admin$`; a joined reading `guest, admin` would.) -/
theorem later_lines_ignored (E : Engine) (pairs : List HdrPair) (req more : List (Bytes × Bytes))
    (hall : ∀ p ∈ pairs, (assocGet req p.canon).isSome = true) :
    hdrPairsOK E pairs (req ++ more) = hdrPairsOK E pairs req := by
  unfold hdrPairsOK
  induction pairs with
  | nil => rfl
  | cons p ps ih =>
    have hp := hall p (List.mem_cons_self ..)
    have ih' := ih (fun q hq => hall q (List.mem_cons_of_mem _ hq))
    simp only [List.all_cons, ih']
    cases hv : assocGet req p.canon with
    | none => simp [hv] at hp
    | some v => rw [get_first_value req more p.canon v hv]

/-- a constrained header that is present but EMPTY fails, whatever the expression (also the empty expression, which
    finds a match in every text) -/
theorem empty_value_fails (E : Engine) (pairs : List HdrPair) (req : List (Bytes × Bytes)) (p : HdrPair)
    (hp : p ∈ pairs) (hv : assocGet req p.canon = some []) : hdrPairsOK E pairs req = false := by
  cases h : hdrPairsOK E pairs req with
  | false => rfl
  | true =>
    obtain ⟨v, hv', hne, _⟩ := (constraints_iff E pairs req).mp h p hp
    rw [hv] at hv'
    cases hv'
    exact absurd rfl hne

/-- a constrained header that is absent fails -/
theorem absent_header_fails (E : Engine) (pairs : List HdrPair) (req : List (Bytes × Bytes)) (p : HdrPair)
    (hp : p ∈ pairs) (hv : assocGet req p.canon = none) : hdrPairsOK E pairs req = false := by
  cases h : hdrPairsOK E pairs req with
  | false => rfl
  | true =>
    obtain ⟨v, hv', _, _⟩ := (constraints_iff E pairs req).mp h p hp
    rw [hv] at hv'
    cases hv'

/-- an empty constraint set (`Headers()` without arguments) admits every request -/
theorem empty_constraint_set_admits (E : Engine) (req : List (Bytes × Bytes)) : hdrPairsOK E [] req = true := rfl

/-- constraints are a conjunction: adding one can only take requests away -/
theorem more_constraints_fewer_requests (E : Engine) (p : HdrPair) (pairs : List HdrPair) (req : List (Bytes × Bytes))
    (h : hdrPairsOK E (p :: pairs) req = true) : hdrPairsOK E pairs req = true := by
  simp only [hdrPairsOK, List.all_cons, Bool.and_eq_true] at h ⊢
  exact h.2

/-- the order in which the constraints were given does not matter -/
theorem constraint_order_irrelevant (E : Engine) (ps qs : List HdrPair) (req : List (Bytes × Bytes))
    (h : ps.Perm qs) : hdrPairsOK E ps req = hdrPairsOK E qs req := by
  unfold hdrPairsOK
  exact h.all_eq

/-- at the router, after `Headers(pairs…)` on a registration: the registration is eligible for a request iff every
    constrained header's FIRST value is non-empty and matched — the statement of the property for the state the call
    leaves behind, in every method's tree and for both forms (the lookup is by the registration's handle alone) -/
theorem eligible_after_headers (E : Engine) (R : Router) (hid : Nat) (pairs : List HdrPair) (req : List (Bytes × Bytes))
    (leaves : List (String × Leaf)) (hl : assocGet R.handles hid = some leaves) :
    (R.setHeaders hid pairs).hok E req hid = true ↔
      ∀ p ∈ pairs, ∃ v, assocGet req p.canon = some v ∧ v ≠ [] ∧ E.search p.expr v = true := by
  have : assocGet (R.setHeaders hid pairs).hdrs hid = some pairs := by
    simp only [Router.setHeaders, hl]
    exact assocGet_assocSet_same _ _ _
  simp only [Router.hok, this]
  exact constraints_iff E pairs req

example : hdrPairsOK ⟨fun _ => some 0, fun _ _ => none, fun p v => p == v⟩
    [⟨[120], [88], [97]⟩] [([88], [103]), ([88], [97])] = false ∧
    hdrPairsOK ⟨fun _ => some 0, fun _ _ => none, fun p v => p == v⟩
    [⟨[120], [88], [97]⟩] [([88], [97]), ([88], [103])] = true := by decide

end Flamego.C09
