/-
  Props/C01Priority.lean — C01, the documented priority read in terms of RANK and REGISTRATION IDS.

  "When several routes admit it the winner is decided segment by segment from the left: static
   beats regex beats placeholder beats match-all; among equally ranked alternatives the
   earlier-registered wins; a match-all in the middle of a route prefers the fewest captured
   segments; a match-all that ends a route is tried only after every alternative that continues
   with further segments."

  Props/C01.lean proves that the winner is the head of the enumeration `derivs` (children in LIST
  order, …).  This file says what list order IS: by rank, and within a rank by registration id —
  for every history whose registration ids increase (`IdsIncrease`; the harness and the router
  layer number registrations in the order of the calls), every engine, header predicate and path.

  Vocabulary (Proofs/TreeWalks.lean): a `TWalk` is the list of steps from the root (`TStep.sub n`:
  through child `n`, one segment; `TStep.allSub n k`: through the match-all child `n`, `k` segments)
  and the leaf taking what is left.  `Accepting` walks are given declaratively (`ReachW`);
  `chosenWalk` is the walk of the leaf `Tree.Match` returns (`chosenWalk_leaf`).  A node has no
  registration id of its own: its registration time is `minHid n`, the smallest id of a leaf below
  it — the earliest accepted registration whose route goes through `n` (`subtree_time`).
  Proofs: Proofs/TreeBirth.lean (`BirthInv`), Proofs/TreeWalks.lean (`derivWalks_sorted`),
  Proofs/RouterBirth.lean (the ids of a router's method trees increase when the calls' ids do).
-/
import Flamego.Props.C01
import Flamego.Proofs.TreeWalks
import Flamego.Proofs.RouterBirth

namespace Flamego.C01

/-- the registration ids of the history increase strictly (the k-th call gets a larger id than
    every earlier one) -/
def IdsIncrease (h : List (Route × Nat)) : Prop := (h.map (·.2)).Pairwise (· < ·)

instance (h : List (Route × Nat)) : Decidable (IdsIncrease h) := by
  unfold IdsIncrease; infer_instance

/-- `w` is a walk of the tree `t` that accepts the request path (and whose leaf's header
    constraints hold) -/
def Accepting (E : Engine) (hok : Nat → Bool) (t : Node) (path : Bytes) (w : TWalk) : Prop :=
  ∃ s rest, segsOf path = s :: rest ∧ ReachW E hok t.subs t.leaves s rest w

/-- the walk the matcher takes: the first one of the priority enumeration -/
def chosenWalk (E : Engine) (hok : Nat → Bool) (t : Node) (path : Bytes) : Option TWalk :=
  match segsOf path with
  | [] => none
  | s :: rest => (derivWalks E hok t.subs t.leaves s rest).head?

/-- the chosen walk ends in the leaf `Tree.Match` returns -/
theorem chosenWalk_leaf (E : Engine) (hok : Nat → Bool) (h : List (Route × Nat)) (path : Bytes) :
    (chosenWalk E hok (build E h) path).map (·.2) = chosen E hok (build E h) path := by
  unfold chosenWalk
  cases hs : segsOf path with
  | nil => exact absurd hs (segsOf_ne_nil path)
  | cons s rest =>
    rw [dispatch_first E hok h path s rest hs, ← derivWalks_leaves, List.head?_map]

/-- the chosen walk is an accepting walk -/
theorem chosenWalk_accepting (E : Engine) (hok : Nat → Bool) (t : Node) (path : Bytes) (w : TWalk)
    (hc : chosenWalk E hok t path = some w) : Accepting E hok t path w := by
  unfold chosenWalk at hc
  cases hs : segsOf path with
  | nil => rw [hs] at hc; cases hc
  | cons s rest =>
    rw [hs] at hc
    exact ⟨s, rest, hs, (mem_derivWalks_iff_reachW E hok _ _ s rest w).mp (mem_of_head? hc)⟩

/-- something is chosen as soon as an accepting walk exists -/
theorem chosenWalk_some_of_accepting (E : Engine) (hok : Nat → Bool) (t : Node) (path : Bytes) (w : TWalk)
    (ha : Accepting E hok t path w) : (chosenWalk E hok t path).isSome = true := by
  obtain ⟨s, rest, hs, hr⟩ := ha
  unfold chosenWalk
  rw [hs]
  have hm := reachW_imp_mem E hok hr
  cases hd : derivWalks E hok t.subs t.leaves s rest with
  | nil => rw [hd] at hm; cases hm
  | cons a l => simp [hd]

/-- accepting walks are what dispatch is about: the leaf of an accepting walk belongs to an
    accepted registration one of whose forms admits the path (routes as the parser produces them) -/
theorem accepting_walk_route (E : Engine) (hok : Nat → Bool) (h : List (Route × Nat))
    (hP : ∀ rh ∈ h, ∀ s ∈ rh.1.segs, ParsedSeg s = true) (path : Bytes) (w : TWalk)
    (ha : Accepting E hok (build E h) path w) :
    ∃ rh ∈ accepted E h, ∃ f ∈ formsOfRoute E rh.1 rh.2,
      f.hid = w.2.hid ∧ f.long = w.2.long ∧ f.Admits E hok (segsOf path) := by
  obtain ⟨s, rest, hs, hr⟩ := ha
  obtain ⟨f, hf, h1, h2, hadm⟩ := reach_form E hok hr.reach
  obtain ⟨rh, hrh, hfr⟩ := (build_forms_parsed E h hP f).mp hf
  exact ⟨rh, hrh, f, hfr, h1, h2, by rw [hs]; exact hadm⟩

/-- every admitting form has an accepting walk (routes as the parser produces them) -/
theorem admitted_has_walk (E : Engine) (hok : Nat → Bool) (h : List (Route × Nat))
    (hP : ∀ rh ∈ h, ∀ s ∈ rh.1.segs, ParsedSeg s = true) (path : Bytes)
    (rh : Route × Nat) (hrh : rh ∈ accepted E h) (f : Form) (hf : f ∈ formsOfRoute E rh.1 rh.2)
    (ha : f.Admits E hok (segsOf path)) :
    ∃ w, Accepting E hok (build E h) path w ∧ w.2.hid = f.hid ∧ w.2.long = f.long := by
  cases hs : segsOf path with
  | nil => exact absurd hs (segsOf_ne_nil path)
  | cons s rest =>
    rw [hs] at ha
    obtain ⟨l, hr, h1, h2⟩ := form_reach E hok ((build_forms_parsed E h hP f).mpr ⟨rh, hrh, hf⟩) ha
    obtain ⟨st, hw⟩ := (reach_iff_reachW E hok _ _ s rest l).mp hr
    exact ⟨(st, l), ⟨s, rest, hs, hw⟩, h1, h2⟩

/-! ### list order is registration order -/

/-- **the ids stored in the tree are exactly the ids of the accepted registrations** (a failed
    registration leaves nothing behind) -/
theorem tree_ids_accepted (E : Engine) (h : List (Route × Nat)) (x : Nat) :
    x ∈ (build E h).hids ↔ ∃ rh ∈ accepted E h, rh.2 = x := by
  rw [build_hids, List.mem_map]

/-- **in every sibling list of a built tree, equally ranked siblings stand in registration order**:
    leaves by their id (the two forms of one registration may share a list; then both are static
    with different literals), nodes by the id of their earliest route; and every node has a leaf
    beneath it — at every depth, for every history with increasing ids -/
theorem birth_order (E : Engine) (h : List (Route × Nat)) (hinc : IdsIncrease h) :
    BirthInv (build E h).subs (build E h).leaves := build_birth E h hinc

/-- one registration keeps the order: what `sibling_order_fifo` says about ONE list, for the whole
    tree and in terms of ids (the new id being larger than every id in the tree) -/
theorem birth_order_step (E : Engine) (t t' : Node) (r : Route) (hid : Nat)
    (hinv : TreeInv t.subs t.leaves) (hb : BirthInv t.subs t.leaves) (hlt : ∀ x ∈ t.hids, x < hid)
    (h : addRoute E t r hid = .ok t') : BirthInv t'.subs t'.leaves := addRoute_birth hinv hb hlt h

/-- **the registration time of a node on an accepting walk is the id of the earliest accepted
    route through it**: `minHid` is the id of a leaf below the node, it is the smallest such id,
    and it is the id of an accepted registration -/
theorem subtree_time (E : Engine) (hok : Nat → Bool) (h : List (Route × Nat)) (hinc : IdsIncrease h)
    (path : Bytes) (pre x : List TStep) (a : TStep) (l : Leaf)
    (ha : Accepting E hok (build E h) path (pre ++ a :: x, l)) :
    minHid a.node ∈ a.node.hids ∧ (∀ i ∈ a.node.hids, minHid a.node ≤ i) ∧
      ∃ rh ∈ accepted E h, rh.2 = minHid a.node := by
  obtain ⟨s, rest, _, hr⟩ := ha
  obtain ⟨hne, hsub⟩ := ReachW.node_hids pre (birth_order E h hinc) hr
  refine ⟨minHid_mem hne, fun i hi => minHid_le hi, ?_⟩
  refine (tree_ids_accepted E h _).mp ?_
  rw [Node.hids_eq]
  exact hsub _ (minHid_mem hne)

/-! ### the four clauses -/

/-- **"static beats regex beats placeholder beats match-all; among equally ranked alternatives
    the earlier-registered wins" — leaves**: the chosen walk ends in leaf `l`; another accepting
    walk takes the same steps and ends in another leaf `l'` of the same node.  Then `l` has the
    lower rank (`rank_documented`: static < regex < placeholder < match-all), or the same rank and
    the smaller registration id. -/
theorem leaf_priority (E : Engine) (hok : Nat → Bool) (h : List (Route × Nat)) (hinc : IdsIncrease h)
    (path : Bytes) (pre : List TStep) (l l' : Leaf)
    (hc : chosenWalk E hok (build E h) path = some (pre, l))
    (ho : Accepting E hok (build E h) path (pre, l')) (hne : l' ≠ l) :
    l.pat.rank < l'.pat.rank ∨ (l.pat.rank = l'.pat.rank ∧ l.hid < l'.hid) := by
  obtain ⟨s, rest, hs, hr⟩ := ho
  unfold chosenWalk at hc
  rw [hs] at hc
  exact walk_leaf_priority E hok (build_inv E h) (birth_order E h hinc) hc hr hne

/-- **the same for subtrees**: at the first node where the chosen walk and another accepting walk
    part — the chosen one goes on through child `a`, the other through child `b` — `a` has the
    lower rank, or the same rank and the earlier registration time: its earliest route
    (`subtree_time`) was registered before `b`'s earliest route. -/
theorem subtree_priority (E : Engine) (hok : Nat → Bool) (h : List (Route × Nat)) (hinc : IdsIncrease h)
    (path : Bytes) (pre x y : List TStep) (a b : TStep) (l l' : Leaf)
    (hc : chosenWalk E hok (build E h) path = some (pre ++ a :: x, l))
    (ho : Accepting E hok (build E h) path (pre ++ b :: y, l')) (hne : a.node ≠ b.node) :
    a.node.pat.rank < b.node.pat.rank ∨
      (a.node.pat.rank = b.node.pat.rank ∧ minHid a.node < minHid b.node) := by
  obtain ⟨s, rest, hs, hr⟩ := ho
  unfold chosenWalk at hc
  rw [hs] at hc
  exact walk_subtree_priority E hok (build_inv E h) (birth_order E h hinc) hc hr hne

/-- **"a match-all in the middle of a route prefers the fewest captured segments"**: the chosen
    walk and another accepting walk take the same steps and then go through the same match-all
    node `n`; the chosen one lets it capture `k` segments, the other `k'`.  Then `k ≤ k'`. -/
theorem matchall_fewest (E : Engine) (hok : Nat → Bool) (h : List (Route × Nat)) (hinc : IdsIncrease h)
    (path : Bytes) (pre x y : List TStep) (n : Node) (k k' : Nat) (l l' : Leaf)
    (hc : chosenWalk E hok (build E h) path = some (pre ++ .allSub n k :: x, l))
    (ho : Accepting E hok (build E h) path (pre ++ .allSub n k' :: y, l')) : k ≤ k' := by
  obtain ⟨s, rest, hs, hr⟩ := ho
  unfold chosenWalk at hc
  rw [hs] at hc
  exact walk_matchall_fewest E hok (build_inv E h) (birth_order E h hinc) hc hr

/-- **"a match-all that ends a route is tried only after every alternative that continues with
    further segments"**: if some accepting walk continues below the node reached by the steps
    `pre` (through a child `b`), the chosen walk does not end at that node — so the node's own
    match-all leaf (the only leaf that can take more than one segment) is not chosen. -/
theorem matchall_leaf_last (E : Engine) (hok : Nat → Bool) (h : List (Route × Nat)) (hinc : IdsIncrease h)
    (path : Bytes) (pre y : List TStep) (b : TStep) (l l' : Leaf)
    (ho : Accepting E hok (build E h) path (pre ++ b :: y, l')) :
    chosenWalk E hok (build E h) path ≠ some (pre, l) := by
  intro hc
  obtain ⟨s, rest, hs, hr⟩ := ho
  unfold chosenWalk at hc
  rw [hs] at hc
  exact walk_matchall_leaf_last E hok (build_inv E h) (birth_order E h hinc) hc hr

/-- the enumeration whose head is chosen is sorted by the documented priority `Prior` (by list
    position and captured count along the walk) — in every tree -/
theorem enumeration_sorted (E : Engine) (hok : Nat → Bool) (t : Node) (s : Seg) (rest : List Seg) :
    (derivWalks E hok t.subs t.leaves s rest).Pairwise (Prior t.subs t.leaves) :=
  derivWalks_sorted E hok t.subs t.leaves s rest

/-- **the chosen walk comes before every other accepting walk** in the documented order `Prior`
    (the five ways two walks from one node can compare: earlier leaf; a child before the node's own
    match-all leaf; earlier child; fewer captured segments; same step and the rest compares below) —
    the four clauses above are its readings at the node where the two walks part -/
theorem chosen_walk_first (E : Engine) (hok : Nat → Bool) (t : Node) (path : Bytes) (w w' : TWalk)
    (hc : chosenWalk E hok t path = some w) (ho : Accepting E hok t path w') :
    w' = w ∨ Prior t.subs t.leaves w w' := by
  obtain ⟨s, rest, hs, hr⟩ := ho
  unfold chosenWalk at hc
  rw [hs] at hc
  exact head_walk_prior E hok hc hr

/-! ### router level: the hypothesis on the ids holds for the method trees of a router

A router history numbers its registration calls (`RouterOp.add hid …`); when the numbers increase
from call to call and no call lists a method twice, every method tree is the tree of a history
with increasing ids, so the four clauses hold for what `Router.ServeHTTP` walks. -/

/-- every method tree of a reachable router is `build E h` for a history `h` with increasing ids -/
theorem router_ids_increase (E : Engine) (ops : List RouterOp)
    (hinc : ((addPairs ops).map Prod.fst).Pairwise (· < ·))
    (hnd : ∀ hid r ms, RouterOp.add hid r ms ∈ ops → ms.Nodup) (m : String) (t : Node)
    (ht : assocGet (Router.run E ops).trees m = some t) :
    ∃ h : List (Route × Nat), t = build E h ∧ IdsIncrease h :=
  run_trees_inc E ops hinc hnd m t ht

/-- list order is registration order in every method tree of a reachable router -/
theorem router_birth_order (E : Engine) (ops : List RouterOp)
    (hinc : ((addPairs ops).map Prod.fst).Pairwise (· < ·))
    (hnd : ∀ hid r ms, RouterOp.add hid r ms ∈ ops → ms.Nodup) (m : String) (t : Node)
    (ht : assocGet (Router.run E ops).trees m = some t) : BirthInv t.subs t.leaves := by
  obtain ⟨h, rfl, hi⟩ := router_ids_increase E ops hinc hnd m t ht
  exact birth_order E h hi

/-- `leaf_priority` for the tree of the request's method, with the router's header predicate -/
theorem router_leaf_priority (E : Engine) (ops : List RouterOp)
    (hinc : ((addPairs ops).map Prod.fst).Pairwise (· < ·))
    (hnd : ∀ hid r ms, RouterOp.add hid r ms ∈ ops → ms.Nodup) (req : Request) (t : Node)
    (ht : assocGet (Router.run E ops).trees req.method = some t) (pre : List TStep) (l l' : Leaf)
    (hc : chosenWalk E ((Router.run E ops).hok E req.hdrs) t req.path = some (pre, l))
    (ho : Accepting E ((Router.run E ops).hok E req.hdrs) t req.path (pre, l')) (hne : l' ≠ l) :
    l.pat.rank < l'.pat.rank ∨ (l.pat.rank = l'.pat.rank ∧ l.hid < l'.hid) := by
  obtain ⟨h, rfl, hi⟩ := router_ids_increase E ops hinc hnd req.method t ht
  exact leaf_priority E _ h hi req.path pre l l' hc ho hne

/-- `subtree_priority` for the tree of the request's method -/
theorem router_subtree_priority (E : Engine) (ops : List RouterOp)
    (hinc : ((addPairs ops).map Prod.fst).Pairwise (· < ·))
    (hnd : ∀ hid r ms, RouterOp.add hid r ms ∈ ops → ms.Nodup) (req : Request) (t : Node)
    (ht : assocGet (Router.run E ops).trees req.method = some t)
    (pre x y : List TStep) (a b : TStep) (l l' : Leaf)
    (hc : chosenWalk E ((Router.run E ops).hok E req.hdrs) t req.path = some (pre ++ a :: x, l))
    (ho : Accepting E ((Router.run E ops).hok E req.hdrs) t req.path (pre ++ b :: y, l'))
    (hne : a.node ≠ b.node) :
    a.node.pat.rank < b.node.pat.rank ∨
      (a.node.pat.rank = b.node.pat.rank ∧ minHid a.node < minHid b.node) := by
  obtain ⟨h, rfl, hi⟩ := router_ids_increase E ops hinc hnd req.method t ht
  exact subtree_priority E _ h hi req.path pre x y a b l l' hc ho hne

/-- `matchall_fewest` for the tree of the request's method -/
theorem router_matchall_fewest (E : Engine) (ops : List RouterOp)
    (hinc : ((addPairs ops).map Prod.fst).Pairwise (· < ·))
    (hnd : ∀ hid r ms, RouterOp.add hid r ms ∈ ops → ms.Nodup) (req : Request) (t : Node)
    (ht : assocGet (Router.run E ops).trees req.method = some t)
    (pre x y : List TStep) (n : Node) (k k' : Nat) (l l' : Leaf)
    (hc : chosenWalk E ((Router.run E ops).hok E req.hdrs) t req.path = some (pre ++ .allSub n k :: x, l))
    (ho : Accepting E ((Router.run E ops).hok E req.hdrs) t req.path (pre ++ .allSub n k' :: y, l')) :
    k ≤ k' := by
  obtain ⟨h, rfl, hi⟩ := router_ids_increase E ops hinc hnd req.method t ht
  exact matchall_fewest E _ h hi req.path pre x y n k k' l l' hc ho

/-- `matchall_leaf_last` for the tree of the request's method -/
theorem router_matchall_leaf_last (E : Engine) (ops : List RouterOp)
    (hinc : ((addPairs ops).map Prod.fst).Pairwise (· < ·))
    (hnd : ∀ hid r ms, RouterOp.add hid r ms ∈ ops → ms.Nodup) (req : Request) (t : Node)
    (ht : assocGet (Router.run E ops).trees req.method = some t)
    (pre y : List TStep) (b : TStep) (l l' : Leaf)
    (ho : Accepting E ((Router.run E ops).hok E req.hdrs) t req.path (pre ++ b :: y, l')) :
    chosenWalk E ((Router.run E ops).hok E req.hdrs) t req.path ≠ some (pre, l) := by
  obtain ⟨h, rfl, hi⟩ := router_ids_increase E ops hinc hnd req.method t ht
  exact matchall_leaf_last E _ h hi req.path pre y b l l' ho

/-! ### non-vacuity -/

section Example

private def seg1 (e : Elem) : Segment := ⟨false, [e]⟩

/-! #### subtrees: `/{x}/d` (0), `/{y}/c` (1), `/{x}/c` (2); the request `/q/c`.
  Both `{x}` and `{y}` are placeholders; `{x}` is older (its earliest route is 0), so the request
  goes to registration 2 below `{x}` although registration 1 below `{y}` admits it too and was
  made BEFORE 2: the age of an alternative is the age of its oldest route. -/
def rXd : Route := ⟨[seg1 (.bind [120]), seg1 (.ident [100])]⟩
def rYc : Route := ⟨[seg1 (.bind [121]), seg1 (.ident [99])]⟩
def rXc : Route := ⟨[seg1 (.bind [120]), seg1 (.ident [99])]⟩
def hP : List (Route × Nat) := [(rXd, 0), (rYc, 1), (rXc, 2)]

def lXd : Leaf := ⟨[100], .static [100], 0, rXd, true, false⟩
def lXc : Leaf := ⟨[99], .static [99], 2, rXc, true, false⟩
def lYc : Leaf := ⟨[99], .static [99], 1, rYc, true, false⟩
def nX : Node := .mk [47, 123, 120, 125] (.hole [120]) [] [lXd, lXc]
def nY : Node := .mk [47, 123, 121, 125] (.hole [121]) [] [lYc]

theorem build_hP : build E₀ hP = .mk [] (.static []) [nX, nY] [] := by rfl

example : IdsIncrease hP := by decide
example : (accepted E₀ hP).map (·.2) = [0, 1, 2] := by decide

theorem hP_chosen :
    chosenWalk E₀ (fun _ => true) (build E₀ hP) [47, 113, 47, 99] = some ([] ++ .sub nX :: [], lXc) := by
  have hs : segsOf [47, 113, 47, 99] = [[113], [99]] := by decide
  simp only [chosenWalk, hs, build_hP, Node.subs, Node.leaves]
  simp [derivWalks, walksSubs, nX, nY, Pat.acceptsTree, leafDerivs, allLeafDerivs, Pat.acceptsLeaf,
    lXd, lXc, lYc, TWalk.cons]

theorem hP_other :
    Accepting E₀ (fun _ => true) (build E₀ hP) [47, 113, 47, 99] ([] ++ .sub nY :: [], lYc) := by
  refine ⟨[113], [[99]], by decide, ?_⟩
  rw [build_hP]
  exact .sub _ _ _ _ _ [] lYc _ _ _ _ (by simp [Node.subs, nY]) rfl rfl
    (.leaf _ _ _ _ (by simp) (by decide) rfl)

/-- the premises of `subtree_priority` are met, and its conclusion is the second alternative:
    equal ranks, `minHid nX = 0 < 1 = minHid nY` -/
example : nX.pat.rank = nY.pat.rank ∧ minHid nX < minHid nY := by
  have hne : (TStep.sub nX).node ≠ (TStep.sub nY).node := by
    intro e
    have := congrArg Node.key e
    simp [TStep.node, nX, nY, Node.key] at this
  rcases subtree_priority E₀ (fun _ => true) hP (by decide) [47, 113, 47, 99] [] [] [] (.sub nX) (.sub nY)
    lXc lYc hP_chosen hP_other hne with h | h
  · exact absurd h (by decide)
  · exact h

/-- the winner (registration 2) was registered after the loser (registration 1) -/
example : lXc.hid = 2 ∧ lYc.hid = 1 := ⟨rfl, rfl⟩

/-! #### leaves: `/a/{x}` (0), `/a/{y}` (1); the request `/a/b` is taken by the older leaf -/
def rAx : Route := ⟨[seg1 (.ident [97]), seg1 (.bind [120])]⟩
def rAy : Route := ⟨[seg1 (.ident [97]), seg1 (.bind [121])]⟩
def hL : List (Route × Nat) := [(rAx, 0), (rAy, 1)]
def lAx : Leaf := ⟨[123, 120, 125], .hole [120], 0, rAx, true, false⟩
def lAy : Leaf := ⟨[123, 121, 125], .hole [121], 1, rAy, true, false⟩
def nA : Node := .mk [47, 97] (.static [97]) [] [lAx, lAy]

theorem build_hL : build E₀ hL = .mk [] (.static []) [nA] [] := by rfl

theorem hL_chosen :
    chosenWalk E₀ (fun _ => true) (build E₀ hL) [47, 97, 47, 98] = some ([.sub nA], lAx) := by
  have hs : segsOf [47, 97, 47, 98] = [[97], [98]] := by decide
  simp only [chosenWalk, hs, build_hL, Node.subs, Node.leaves]
  simp [derivWalks, walksSubs, nA, Pat.acceptsTree, leafDerivs, allLeafDerivs, Pat.acceptsLeaf,
    lAx, lAy, TWalk.cons]

theorem hL_other :
    Accepting E₀ (fun _ => true) (build E₀ hL) [47, 97, 47, 98] ([.sub nA], lAy) := by
  refine ⟨[97], [[98]], by decide, ?_⟩
  rw [build_hL]
  exact .sub _ _ _ _ _ [] lAy _ _ _ _ (by simp [Node.subs, nA]) rfl (by decide)
    (.leaf _ _ _ _ (by simp) (by decide) rfl)

/-- the premises of `leaf_priority` are met; equal ranks, so the ids decide: 0 < 1 -/
example : lAx.pat.rank = lAy.pat.rank ∧ lAx.hid < lAy.hid := by
  rcases leaf_priority E₀ (fun _ => true) hL (by decide) [47, 97, 47, 98] [.sub nA] lAx lAy
    hL_chosen hL_other (by decide) with h | h
  · exact absurd h (by decide)
  · exact h

/-! #### match-all: `/{p: **}/z` (0), `/{q: **}` (1), `/{p: **}/z/z` (2); the request `/u/z/z`
  is admitted by all three (0 with `p` = "u/z", 2 with `p` = "u", 1 with `q` = "u/z/z"); the
  match-all node `p` takes the fewest segments (so 2 wins), and the route that ENDS in a match-all
  (1) comes last. -/
def sP : Segment := seg1 (.params [⟨[112], .lit [42, 42]⟩])
def sQ : Segment := seg1 (.params [⟨[113], .lit [42, 42]⟩])
def sZ : Segment := seg1 (.ident [122])
def rPz : Route := ⟨[sP, sZ]⟩
def rQ : Route := ⟨[sQ]⟩
def rPzz : Route := ⟨[sP, sZ, sZ]⟩
def hM : List (Route × Nat) := [(rPz, 0), (rQ, 1), (rPzz, 2)]
def lPz : Leaf := ⟨[122], .static [122], 0, rPz, true, false⟩
def lPzz : Leaf := ⟨[122], .static [122], 2, rPzz, true, false⟩
def lQ : Leaf := ⟨sQ.leafKey, .all [113] 0, 1, rQ, true, false⟩
def nZ : Node := .mk [47, 122] (.static [122]) [] [lPzz]
def nP : Node := .mk sP.render (.all [112] 0) [nZ] [lPz]

theorem build_hM : build E₀ hM = .mk [] (.static []) [nP] [lQ] := by rfl

theorem hM_chosen :
    chosenWalk E₀ (fun _ => true) (build E₀ hM) [47, 117, 47, 122, 47, 122] =
      some ([] ++ .allSub nP 1 :: [.sub nZ], lPzz) := by
  have hs : segsOf [47, 117, 47, 122, 47, 122] = [[117], [122], [122]] := by decide
  simp only [chosenWalk, hs, build_hM, Node.subs, Node.leaves]
  simp [derivWalks, walksSubs, walksAll, nP, nZ, Pat.acceptsTree, leafDerivs, allLeafDerivs,
    Pat.acceptsLeaf, lPz, lPzz, lQ, TWalk.cons, capOK]

theorem hM_other :
    Accepting E₀ (fun _ => true) (build E₀ hM) [47, 117, 47, 122, 47, 122]
      ([] ++ .allSub nP 2 :: [], lPz) := by
  refine ⟨[117], [[122], [122]], by decide, ?_⟩
  rw [build_hM]
  exact .allSub _ _ _ [] lPz _ _ _ _ _ [[122]] [122] [] (by simp [Node.subs, nP]) (by decide)
    (.leaf _ _ _ _ (by simp) (by decide) rfl)

theorem hM_last :
    Accepting E₀ (fun _ => true) (build E₀ hM) [47, 117, 47, 122, 47, 122] ([], lQ) := by
  refine ⟨[117], [[122], [122]], by decide, ?_⟩
  rw [build_hM]
  exact .allLeaf _ _ _ _ _ lQ [113] 0 (by simp [Node.leaves]) rfl (by decide) rfl

/-- the premises of `matchall_fewest` are met by two different capture counts: 1 ≤ 2 -/
example : (1 : Nat) ≤ 2 :=
  matchall_fewest E₀ (fun _ => true) hM (by decide) _ [] _ [] nP 1 2 lPzz lPz hM_chosen hM_other

/-- the premises of `matchall_leaf_last` are met: the walk ending in the root's match-all leaf
    accepts the path, another accepting walk continues through a child, and the former is not chosen -/
example : chosenWalk E₀ (fun _ => true) (build E₀ hM) [47, 117, 47, 122, 47, 122] ≠ some ([], lQ) :=
  matchall_leaf_last E₀ (fun _ => true) hM (by decide) _ [] [] (.allSub nP 2) lQ lPz hM_other

/-! #### router level: two registration calls with increasing numbers, distinct methods each -/
def opsX : List RouterOp := [.add 0 rXd ["GET"], .headers 0 [], .add 1 rYc ["GET", "POST"]]

example : ((addPairs opsX).map Prod.fst).Pairwise (· < ·) := by decide

example : ∀ hid r ms, RouterOp.add hid r ms ∈ opsX → ms.Nodup := by
  intro hid r ms h
  simp only [opsX, List.mem_cons, RouterOp.add.injEq, List.not_mem_nil, or_false, reduceCtorEq,
    false_or] at h
  rcases h with ⟨_, _, rfl⟩ | ⟨_, _, rfl⟩ <;> decide

end Example

end Flamego.C01
