/-
  Props/ConstFacts.lean — every documented-value obligation about the constants the translator
  reads from the Go source (`translator/constfacts*.go` → `Gen/ConstFacts.lean`).

  The obligations live in one module per property, so that a changed literal breaks the
  obligations of the properties it serves and no others:

    Props/ConstFacts/C02  reserved parameter `route`, the assembled segment pattern, separators (also C01)
    Props/ConstFacts/C08  `*`, the match-all keyword `**` (four sites), `capture`, the `/?` cutset
    Props/ConstFacts/C11  the method each shortcut registers, `Any`, `Routes`' separator, AutoHead
    Props/ConstFacts/C12  `withOptional` / `true`, the `{` `}` `???` `/` of URL building
    Props/ConstFacts/C13  implicit 200 of Write and Flush, HEAD, the unwritten status 0
    Props/ConstFacts/C14  500 for an error value
    Props/ConstFacts/C15  Recovery's 500, its two content types, EnvTypeDev, the plain body
    Props/ConstFacts/C16  Static's defaults, methods, 302, 304, header names, cutsets
    Props/ConstFacts/C17  the four Content-Type literals, the default charset, http.Error's 500
    Props/ConstFacts/C18  strconv bases and bit sizes, `Set-Cookie`

  `lib/props.py` lists `Flamego.Props.ConstFacts.Cxx` among the `props_modules` of property Cxx.
  This module only gathers them (building it checks all of them at once).
-/
import Flamego.Props.ConstFacts.C02
import Flamego.Props.ConstFacts.C08
import Flamego.Props.ConstFacts.C11
import Flamego.Props.ConstFacts.C12
import Flamego.Props.ConstFacts.C13
import Flamego.Props.ConstFacts.C14
import Flamego.Props.ConstFacts.C15
import Flamego.Props.ConstFacts.C16
import Flamego.Props.ConstFacts.C17
import Flamego.Props.ConstFacts.C18
