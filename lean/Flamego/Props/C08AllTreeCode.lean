/-
  Props/C08AllTreeCode.lean — C08 (and C01/C02) at the level of the CODE: `matchAllTree.matchAll` (tree.go), the match-all
  SUBTREE — try the children on what follows; on a miss swallow one more segment into the bind; stop at the capture limit.

  `Gen/AllTreeCode.lean` is regenerated from internal/route/tree.go on every run.  The body is a `for cond { … }` loop with
  a `return` and a `break` inside; it is translated onto fuel (`GoSem.whileFuel`, bound `len(path) + 1`), and running out of
  fuel would be the result `none`.  `t.matchNextSegment`, inherited from the embedded baseTree, is the search below the
  node (the model's `matchNextIdx` on the node's children; Props/C02BaseTreeCode proves the translated body of that method
  to be exactly this).

  Proved, for every match-all tree node, path, cursor, accumulated segment and parameter map:

    * `loop_refines`: from any iteration on, with fuel for the rest of the path, the loop is the model's `matchAllLoopIdx`;
    * `matchAll_refines`: the body returns `some` of what `matchAllLoopIdx … 1 …` returns — in particular the fuel
      `len(path) + 1` always suffices (the loop terminates: every iteration that goes on moves `next` past a "/") — whenever
      the model does not panic; the receiver is unchanged;
    * `matchAll_segments`: at a cursor behind a "/" that is the segment-level `matchAllLoop` (Model/Tree.lean);
      `matchAll_is_lib`: it is what the call `st.(*matchAllTree).matchAll(…)` stands for in Props/C02BaseTreeCode.
-/
import Flamego.Gen.AllTreeCode
import Flamego.Proofs.TreeIdx
set_option linter.unusedSimpArgs false
set_option linter.unusedVariables false
namespace Flamego.C08AllTreeCode
open Flamego.GoSem Flamego.Gen.AllTreeCode

variable (E : Flamego.Engine) (hok : Nat → Bool)

theorem mapSet_eq_set (m : Params) (k v : Bytes) : GoSem.mapSet m k v = m.set k v := by
  induction m with
  | nil => rfl
  | cons p m ih =>
    obtain ⟨k', v'⟩ := p
    by_cases h : k' = k <;> simp [GoSem.mapSet, Params.set, h, ih]

/-- the three values of the Go method, from a search result of the model -/
def tri : Option Leaf × Params → Lib.Leaf × Bool × Params
  | (some l, ps) => (l, true, ps)
  | (none, ps) => (default, false, ps)

abbrev St := Params × Bytes × Int × Int

/-- the loop condition, as the translation spells it -/
def cond (t : matchAllTree) : St → Bool :=
  fun (params, segment, next, captured) => ((decide (t.capture ≤ 0)) || (decide (t.capture ≥ captured)))

/-- the loop body, as the translation spells it -/
def body (t : matchAllTree) (path : Bytes) (header : Lib.Header) :
    St → GoSem.Ctl (Option (Lib.Leaf × Bool × Params)) × St :=
  fun (params, segment, next, captured) =>
      let (t1, t2, params) := selfNext E hok t path next params header;
      let (leaf, ok) := (t1, t2);
      if ok then (
        let params := GoSem.mapSet params t.bind segment;
        (GoSem.Ctl.ret (some (leaf, true, params)), (params, segment, next, captured))
      ) else (
        let i := (Lib.strings_Index (GoSem.sliceFrom path next) (([47] : Bytes)));
        if (i == (-1)) then (
          (GoSem.Ctl.brk, (params, segment, next, captured))
        ) else (
          let segment := (segment ++ (([47] : Bytes) ++ (GoSem.sliceTo (GoSem.sliceFrom path next) ((next + i) - next))));
          let next := (next + (i + 1));
          let captured := (captured + 1);
          (GoSem.Ctl.next, (params, segment, next, captured))
        )
      )

/-- what the loop leaves behind, given the model's answer: a `return` of the hit, or the loop's end with the model's map -/
def Post (r : Option Leaf × Params) (x : Option (GoSem.Ctl (Option (Lib.Leaf × Bool × Params)) × St)) : Prop :=
  match r with
  | (some l, ps) => ∃ st, x = some (GoSem.Ctl.ret (some (l, true, ps)), st)
  | (none, ps) => ∃ sg nx cp, x = some (GoSem.Ctl.next, (ps, sg, nx, cp))

theorem strings_Index_slash (s : Bytes) :
    Lib.strings_Index s [47] = (match indexSlash s with | some i => (i : Int) | none => -1) := by
  unfold Lib.strings_Index
  rw [if_pos rfl]
  cases indexSlash s <;> rfl

/-- from any iteration on: with fuel for what is left of the path, the loop is the model's `matchAllLoopIdx` -/
theorem loop_refines (t : matchAllTree) (path : Bytes) (h : Lib.Header) (fuel : Nat) :
    ∀ (captured : Nat) (seg : Bytes) (next : Nat) (ps : Params) (r : Option Leaf × Params),
      path.length - next + 1 ≤ fuel →
      matchAllLoopIdx E hok t.baseTree.subtrees t.baseTree.leaves t.bind t.capture captured path seg next ps = .ok r →
      Post r (GoSem.whileFuel fuel (cond t) (body E hok t path h) (ps, seg, (next : Int), (captured : Int))) := by
  induction fuel with
  | zero => intro captured seg next ps r hf; omega
  | succ fuel ih =>
    intro captured seg next ps r hf hr
    rw [matchAllLoopIdx] at hr
    by_cases hc : (decide (t.capture ≤ 0) || decide (t.capture ≥ (captured : Int))) = true
    · have hcond : cond t (ps, seg, (next : Int), (captured : Int)) = true := hc
      simp only [hc, if_true] at hr
      have hnat : ((next : Nat) : Int).toNat = next := Int.toNat_natCast next
      have hself : selfNext E hok t path (next : Int) ps h
          = Lib.resOf ps (matchNextIdx E hok t.baseTree.subtrees t.baseTree.leaves path next ps) := by
        simp only [selfNext, hnat]
      cases hn : matchNextIdx E hok t.baseTree.subtrees t.baseTree.leaves path next ps with
      | error e => simp [hn] at hr
      | ok v =>
        obtain ⟨ol, ps'⟩ := v
        cases ol with
        | some l =>
          simp only [hn] at hr
          cases hr
          have hb : body E hok t path h (ps, seg, (next : Int), (captured : Int))
              = (GoSem.Ctl.ret (some (l, true, ps'.set t.bind seg)), (ps'.set t.bind seg, seg, (next : Int), (captured : Int))) := by
            simp only [body, hself, hn, Lib.resOf, mapSet_eq_set]; rfl
          simp only [GoSem.whileFuel, hcond, if_true, hb, Post]
          exact ⟨_, rfl⟩
        | none =>
          simp only [hn] at hr
          split at hr
          · cases hr
          · rename_i tail hs
            obtain ⟨hle, htail⟩ := sliceFrom_ok hs
            have hdrop : GoSem.sliceFrom path (next : Int) = tail := by simp [GoSem.sliceFrom, htail]
            split at hr
            · rename_i hi
              cases hr
              have hb : body E hok t path h (ps, seg, (next : Int), (captured : Int))
                  = (GoSem.Ctl.brk, (ps', seg, (next : Int), (captured : Int))) := by
                simp only [body, hself, hn, Lib.resOf, hdrop, strings_Index_slash, hi]; rfl
              simp only [GoSem.whileFuel, hcond, if_true, hb, Post]
              exact ⟨_, _, _, rfl⟩
            · rename_i i hi
              have hlt := indexSlash_lt hi
              have hlen : tail.length = path.length - next := by rw [htail, List.length_drop]
              have hsl : slice path next (next + i) = .ok (tail.take i) := by
                rw [slice_eq path next i (by omega), htail]
              simp only [hsl] at hr
              have hne : ((i : Int) == -1) = false := by
                simp only [beq_eq_false_iff_ne, ne_eq]; omega
              have hseg : GoSem.sliceTo tail (((next : Int) + (i : Int)) - (next : Int)) = tail.take i := by
                have : ((next : Int) + (i : Int)) - (next : Int) = (i : Int) := by omega
                simp [GoSem.sliceTo, this]
              have e1 : (next : Int) + ((i : Int) + 1) = ((next + i + 1 : Nat) : Int) := by omega
              have e2 : (captured : Int) + 1 = ((captured + 1 : Nat) : Int) := by omega
              have hb : body E hok t path h (ps, seg, (next : Int), (captured : Int))
                  = (GoSem.Ctl.next, (ps', seg ++ slash :: tail.take i, ((next + i + 1 : Nat) : Int), ((captured + 1 : Nat) : Int))) := by
                simp only [body, hself, hn, Lib.resOf, hdrop, strings_Index_slash, hi, hne, hseg, e1, e2]
                rfl
              simp only [GoSem.whileFuel, hcond, if_true, hb]
              exact ih (captured + 1) _ (next + i + 1) ps' r (by omega) hr
    · have hcond : cond t (ps, seg, (next : Int), (captured : Int)) = false := by simpa [cond] using hc
      have hc' : (decide (t.capture ≤ 0) || decide (t.capture ≥ (captured : Int))) = false := by simpa using hc
      simp only [hc', Bool.false_eq_true, if_false] at hr
      cases hr
      simp only [GoSem.whileFuel, hcond, Bool.false_eq_true, if_false, Post]
      exact ⟨_, _, _, rfl⟩

/-- **`matchAllTree.matchAll` is the model's `matchAllLoopIdx`** started at one captured segment: the fuel `len(path) + 1`
suffices (the result is `some …`: the loop terminates), and the answer is the model's, whenever the model does not panic -/
theorem matchAll_refines (t : matchAllTree) (path seg : Bytes) (next : Nat) (ps : Params) (h : Lib.Header)
    (r : Option Leaf × Params)
    (hr : matchAllLoopIdx E hok t.baseTree.subtrees t.baseTree.leaves t.bind t.capture 1 path seg next ps = .ok r) :
    matchAll E hok t path seg (next : Int) ps h = (some (tri r), t) := by
  have hshape : matchAll E hok t path seg (next : Int) ps h =
      (match GoSem.whileFuel (path.length + 1) (cond t) (body E hok t path h) (ps, seg, (next : Int), ((1 : Nat) : Int)) with
       | none => (none, t)
       | some (ctl_, (params, _, _, _)) =>
         match ctl_ with
         | GoSem.Ctl.ret r_ => (r_, t)
         | _ => ((some ((default : Lib.Leaf), false, params)), t)) := rfl
  rw [hshape]
  have hp := loop_refines E hok t path h (path.length + 1) 1 seg next ps r (by omega) hr
  obtain ⟨ol, ps'⟩ := r
  cases ol with
  | some l =>
    obtain ⟨st, e⟩ := hp
    rw [e]
    obtain ⟨a, b, c, d⟩ := st
    rfl
  | none =>
    obtain ⟨sg, nx, cp, e⟩ := hp
    rw [e]
    rfl

/-- the connection with the tree one level up: what `Lib.Tree_matchAll` (the call `st.(*matchAllTree).matchAll(…)` in
`baseTree.matchSubtree`, Props/C02BaseTreeCode) stands for is what this body computes, for the node whose fields are the
model node's -/
theorem matchAll_is_lib (t : matchAllTree) (key : Bytes) (path seg : Bytes) (next : Nat) (ps : Params) (h : Lib.Header)
    (r : Option Leaf × Params)
    (hr : matchAllLoopIdx E hok t.baseTree.subtrees t.baseTree.leaves t.bind t.capture 1 path seg next ps = .ok r) :
    (matchAll E hok t path seg (next : Int) ps h).1
      = some (Lib.Tree_matchAll E hok (Node.mk key (.all t.bind t.capture) t.baseTree.subtrees t.baseTree.leaves) path seg
                (next : Int) ps h) := by
  rw [matchAll_refines E hok t path seg next ps h r hr]
  simp only [Lib.Tree_matchAll, Node.pat, Node.subs, Node.leaves, Int.toNat_natCast, hr]
  obtain ⟨ol, ps'⟩ := r
  cases ol <;> rfl

/-- at a cursor behind a "/" inside the path: the body returns what the SEGMENT-level `matchAllLoop` of Model/Tree.lean
returns (the capture limit counted in segments: Props/C08's theorems are about that function), and the model does not
panic there -/
theorem matchAll_segments (t : matchAllTree) (path seg : Bytes) (next : Nat) (ps : Params) (h : Lib.Header)
    (s' : Seg) (rest' : List Seg) (hc : CursorS path next) (hsp : splitSlash (path.drop next) = s' :: rest') :
    matchAll E hok t path seg (next : Int) ps h
      = (some (tri (matchAllLoop E hok t.baseTree.subtrees t.baseTree.leaves t.bind t.capture 1 seg s' rest' ps)), t) :=
  matchAll_refines E hok t path seg next ps h _
    (matchAllLoopIdx_refines E hok t.baseTree.subtrees t.baseTree.leaves t.bind t.capture 1 path seg next s' rest' ps hc hsp)

/-- `getBinds`: the one name a match-all subtree binds (what `newTree` / `newLeaf` below it check for a duplicate) -/
theorem getBinds_refines (t : matchAllTree) : getBinds t = ((Pat.all t.bind t.capture).binds, t) := rfl

/-! ### the hypotheses are met -/

/-- "a/b/c" with the cursor behind the first "/": the premises of `matchAll_segments` hold -/
example : CursorS [97, 47, 98, 47, 99] 2 ∧ splitSlash (([97, 47, 98, 47, 99] : Bytes).drop 2) = [[98], [99]] := by
  refine ⟨⟨by decide, by decide, by decide⟩, by decide⟩

/-- hence, for EVERY match-all node, engine and header predicate, the translated body on that path is the segment-level
loop on the segments `b`, `c` — an instance of the theorem with nothing left to assume -/
example (E : Flamego.Engine) (hok : Nat → Bool) (t : matchAllTree) (ps : Params) (h : Lib.Header) :
    matchAll E hok t [97, 47, 98, 47, 99] [97] 2 ps h
      = (some (tri (matchAllLoop E hok t.baseTree.subtrees t.baseTree.leaves t.bind t.capture 1 [97] [98] [[99]] ps)), t) :=
  matchAll_segments E hok t [97, 47, 98, 47, 99] [97] 2 ps h [98] [[99]] ⟨by decide, by decide, by decide⟩ (by decide)

end Flamego.C08AllTreeCode
