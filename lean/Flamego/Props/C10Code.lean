/-
  Props/C10Code.lean — C07 and C10 at the level of the CODE: `router.ServeHTTP`, the dispatcher.

  `Gen/RouterCode.lean` is regenerated from router.go on every run (/verif/translator: gocode.go, routercode.go).  Leaves
  and trees stand for the model's (Code/LibRoute.lean); what a tree answers to `Match` is the parameter `matchTree`; the
  handler the dispatcher calls is recorded in `world`.

  Proved, for every engine, every model router `R`, every code-level router whose tables hold what `R`'s hold (`Agrees`)
  and every request:

    * `serve_refines`: the body of `ServeHTTP` makes exactly ONE call — of the handler of the leaf `Router.serve` (the model,
      Model/Router.lean) chooses, with the parameters it delivers, or of the not-found handler exactly when the model says
      not-found — and changes nothing else in the router;
    * hence C07's "exactly one chain" (`code_one_chain`) and, for every router a history of registrations builds, C10's "the
      shortcut is unobservable" (`code_shortcut_unobservable`: what the body does is what full tree matching alone would
      have made it do) hold of the code's own dispatcher;
    * `agrees_of`: the agreement is satisfiable — the tables built from `R` in the shape the Go struct has (a map of maps
      keyed by method and path, a map of trees keyed by method) agree with `R`, for every encoding of method names as bytes
      that does not confuse two of them.
-/
import Flamego.Gen.RouterCode
import Flamego.Props.C10
import Flamego.Props.C07
set_option linter.unusedSimpArgs false
set_option linter.unusedVariables false
namespace Flamego.C10Code
open Flamego.GoSem Flamego.Gen.RouterCode

/-- the request as the model sees it: `enc` spells method names as bytes, `hdrs` is what `Header.Get` returns -/
structure ReqView (enc : String → Bytes) (req : Lib.Request) (mreq : Flamego.Request) : Prop where
  method : req.method = enc mreq.method
  path : req.path = mreq.path

/-- the code's tables hold what the model router's hold, and a tree answers what the model's matcher answers under the
router's header constraints -/
structure Agrees (E : Engine) (enc : String → Bytes) (R : Flamego.Router) (r : router)
    (matchTree : Lib.Tree → Bytes → Lib.Header → Lib.Leaf × List (Bytes × Bytes) × Bool)
    (hdr : Lib.Header) (mhdrs : List (Bytes × Bytes)) : Prop where
  statics : ∀ m p, GoSem.mapGet2 (GoSem.mapGet r.staticRoutes (enc m)) p
              = (match assocGet R.statics (m, p) with | some l => (l, true) | none => (default, false))
  trees : ∀ m, GoSem.mapGet2 r.routeTrees (enc m)
              = (match assocGet R.trees m with | some t => (t, true) | none => (default, false))
  matcher : ∀ t path, matchTree t path hdr
              = (match t.match E (R.hok E mhdrs) path with | some (l, ps) => (l, ps, true) | none => (default, [], false))

/-- the model's outcome as the call the dispatcher makes -/
def dispatchOf (nf : FuncVal) : Outcome → Lib.Dispatch
  | .handler l ps => .handler (l.hid : Int) ps
  | .notFound => .notFound nf

theorem mapSet_eq_set (ps : List (Bytes × Bytes)) (k v : Bytes) : GoSem.mapSet ps k v = Params.set ps k v := by
  induction ps with
  | nil => rfl
  | cons kv ps ih =>
    obtain ⟨k', v'⟩ := kv
    by_cases h : k' = k <;> simp [GoSem.mapSet, Params.set, h, ih]

/-- REFINEMENT: one call, the one the model's `serve` decides, nothing else touched -/
theorem serve_refines (E : Engine) (enc : String → Bytes) (R : Flamego.Router) (r : router)
    (matchTree : Lib.Tree → Bytes → Lib.Header → Lib.Leaf × List (Bytes × Bytes) × Bool)
    (w : Env) (req : Lib.Request) (mreq : Flamego.Request)
    (hv : ReqView enc req mreq) (ha : Agrees E enc R r matchTree req.header mreq.hdrs) :
    (ServeHTTP matchTree r w req).2
      = { r with world := r.world ++ [dispatchOf r.notFound (R.serve E mreq)] } := by
  have hs := ha.statics mreq.method mreq.path
  have ht := ha.trees mreq.method
  simp only [ServeHTTP, Lib.Request_Method, Lib.URL_Path, Lib.Request_URL, Lib.Request_Header, hv.method, hv.path]
  rw [hs]
  unfold Router.serve
  cases hst : assocGet R.statics (mreq.method, mreq.path) with
  | some l =>
    simp [call_Handler, dispatchOf, Lib.Leaf_Handler, Lib.Leaf_Route, B]
  | none =>
    simp only [Bool.false_eq_true, if_false]
    rw [ht]
    unfold Router.serveTreeOnly
    cases htr : assocGet R.trees mreq.method with
    | none => simp [call_HandlerFunc, dispatchOf]
    | some t =>
      simp only [Bool.not_true, Bool.false_eq_true, if_false]
      rw [ha.matcher t mreq.path]
      cases hm : t.match E (R.hok E mreq.hdrs) mreq.path with
      | none => simp [call_HandlerFunc, dispatchOf]
      | some lp =>
        obtain ⟨l, ps⟩ := lp
        simp [call_Handler, dispatchOf, Lib.Leaf_Handler, Lib.Leaf_Route, mapSet_eq_set, B]

/-! ### the two setters translated along with the dispatcher -/

theorem autoHead_sets (r : router) (v : Bool) : (AutoHead r v).2 = { r with autoHead := v } := rfl
theorem handlerWrapper_sets (r : router) (f : FuncVal) : (HandlerWrapper r f).2 = { r with handlerWrapper := f } := rfl

/-! ### the clauses -/

/-- C07 ("exactly one handler chain"): serving makes exactly one call into the world, whatever the request -/
theorem code_one_chain (E : Engine) (enc : String → Bytes) (R : Flamego.Router) (r : router)
    (matchTree : Lib.Tree → Bytes → Lib.Header → Lib.Leaf × List (Bytes × Bytes) × Bool)
    (w : Env) (req : Lib.Request) (mreq : Flamego.Request)
    (hv : ReqView enc req mreq) (ha : Agrees E enc R r matchTree req.header mreq.hdrs) :
    (ServeHTTP matchTree r w req).2.world.length = r.world.length + 1 := by
  rw [serve_refines E enc R r matchTree w req mreq hv ha]; simp

/-- C10 ("the shortcut is unobservable"): for a router built by any history of registrations, `Headers()` and `Name()`
calls, what the dispatcher's body does is what full tree matching alone decides -/
theorem code_shortcut_unobservable (E : Engine) (enc : String → Bytes) (ops : List RouterOp) (r : router)
    (matchTree : Lib.Tree → Bytes → Lib.Header → Lib.Leaf × List (Bytes × Bytes) × Bool)
    (w : Env) (req : Lib.Request) (mreq : Flamego.Request)
    (hparsed : ∀ hr ∈ addPairs ops, ∀ s ∈ hr.2.segs, ParsedSeg s = true)
    (hdistinct : ((addPairs ops).map Prod.fst).Nodup)
    (hv : ReqView enc req mreq) (ha : Agrees E enc (Router.run E ops) r matchTree req.header mreq.hdrs) :
    (ServeHTTP matchTree r w req).2
      = { r with world := r.world ++ [dispatchOf r.notFound ((Router.run E ops).serveTreeOnly E mreq)] } := by
  rw [serve_refines E enc _ r matchTree w req mreq hv ha, C10.shortcut_unobservable E ops hparsed hdistinct mreq]

/-! ### the agreement is satisfiable: tables in the shape of the Go struct, built from the model router -/

/-- `staticRoutes map[string]map[string]route.Leaf`: method ↦ (path ↦ leaf) -/
def staticsOf (enc : String → Bytes) (R : Flamego.Router) : List (Bytes × List (Bytes × Lib.Leaf)) :=
  ((R.statics.map (·.1.1)).eraseDups).map fun m =>
    (enc m, (R.statics.filter (fun e => e.1.1 == m)).map fun e => (e.1.2, e.2))

/-- `routeTrees map[string]route.Tree` -/
def treesOf (enc : String → Bytes) (R : Flamego.Router) : List (Bytes × Lib.Tree) :=
  R.trees.map fun e => (enc e.1, e.2)

/-- `Tree.Match` answered by the model's matcher under the router's header constraints -/
def matchOf (E : Engine) (R : Flamego.Router) (mhdrs : List (Bytes × Bytes)) :
    Lib.Tree → Bytes → Lib.Header → Lib.Leaf × List (Bytes × Bytes) × Bool :=
  fun t path _ => match t.match E (R.hok E mhdrs) path with
    | some (l, ps) => (l, ps, true)
    | none => (default, [], false)

theorem find_enc {ν : Type} (enc : String → Bytes) (hinj : ∀ a b, enc a = enc b → a = b) (g : String → ν) (m : String)
    (ks : List String) :
    (ks.map fun k => (enc k, g k)).find? (fun kv => kv.1 == enc m) = if m ∈ ks then some (enc m, g m) else none := by
  induction ks with
  | nil => simp
  | cons k ks ih =>
    by_cases h : k = m
    · subst h; simp
    · have h' : ¬ enc k = enc m := fun e => h (hinj _ _ e)
      have h'' : ¬ m = k := fun e => h e.symm
      simp [List.find?_cons, h', ih, h'']

theorem find_filtered (l : List ((String × Bytes) × Leaf)) (m : String) (p : Bytes) :
    ((l.filter (fun e => e.1.1 == m)).map fun e => (e.1.2, e.2)).find? (fun kv => kv.1 == p)
      = (l.find? (fun e => e.1 == (m, p))).map fun e => (e.1.2, e.2) := by
  induction l with
  | nil => rfl
  | cons e l ih =>
    obtain ⟨⟨m', p'⟩, lf⟩ := e
    by_cases hm : m' = m
    · subst hm
      by_cases hp : p' = p
      · subst hp; simp [List.filter_cons, List.find?_cons]
      · have : ¬ (m', p') = (m', p) := by intro e; exact hp (Prod.mk.inj e).2
        simp [List.filter_cons, List.find?_cons, hp, this, ih]
    · have : ¬ (m', p') = (m, p) := by intro e; exact hm (Prod.mk.inj e).1
      simp [List.filter_cons, List.find?_cons, hm, this, ih]

theorem agrees_of (E : Engine) (enc : String → Bytes) (hinj : ∀ a b, enc a = enc b → a = b) (R : Flamego.Router)
    (r : router) (hs : r.staticRoutes = staticsOf enc R) (ht : r.routeTrees = treesOf enc R)
    (hdr : Lib.Header) (mhdrs : List (Bytes × Bytes)) :
    Agrees E enc R r (matchOf E R mhdrs) hdr mhdrs := by
  refine ⟨?_, ?_, fun t path => rfl⟩
  · intro m p
    rw [hs]
    unfold GoSem.mapGet staticsOf
    rw [find_enc enc hinj (fun m => (R.statics.filter (fun e => e.1.1 == m)).map fun e => (e.1.2, e.2)) m]
    unfold GoSem.mapGet2 assocGet
    by_cases hmem : m ∈ (R.statics.map (·.1.1)).eraseDups
    · simp only [hmem, if_true]
      rw [find_filtered]
      cases hf : R.statics.find? (fun e => e.1 == (m, p)) <;> simp [hf]
    · simp only [hmem, if_false]
      have hnone : R.statics.find? (fun e => e.1 == (m, p)) = none := by
        rw [List.find?_eq_none]
        intro e he hk
        apply hmem
        rw [List.mem_eraseDups]
        have : e.1 = (m, p) := by simpa using hk
        exact List.mem_map.mpr ⟨e, he, by rw [this]⟩
      simp [hnone]
      rfl
  · intro m
    rw [ht]
    unfold GoSem.mapGet2 treesOf assocGet
    have : ∀ (ts : List (String × Node)),
        (ts.map fun e => (enc e.1, e.2)).find? (fun kv => kv.1 == enc m)
          = (ts.find? (fun e => e.1 == m)).map fun e => (enc e.1, e.2) := by
      intro ts
      induction ts with
      | nil => rfl
      | cons e ts ih =>
        by_cases h : e.1 = m
        · simp [List.find?_cons, h]
        · have h' : ¬ enc e.1 = enc m := fun q => h (hinj _ _ q)
          simp [List.find?_cons, h, h', ih]
    rw [this]
    cases hf : R.trees.find? (fun e => e.1 == m) <;> simp [hf]

end Flamego.C10Code
