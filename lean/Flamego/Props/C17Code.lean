/-
  Props/C17Code.lean — C17 at the level of the CODE: the four `Render` methods.

  `Gen/RenderCode.lean` is regenerated from render.go on every run (/verif/translator: gocode.go, rendercode.go): the
  `render` struct and RenderOptions field by field, and the bodies of JSON, XML, Binary and PlainText as pure functions
  in which the response writer is an ENVIRONMENT object — every call made on it or through it (Header().Set, WriteHeader,
  Write; the encoder wrapped around it: SetIndent / Indent / Encode; http.Error) is recorded in its trace, in order.

  This file reads that trace as the operations of Model/Render (`ROp`) and proves, for every renderer, status, payload
  and every behaviour of the environment (whether and with which text the encoder fails, what it wrote):

    * `binary_refines`, `plainText_refines`: the body's calls are exactly `renderOps … (.binary b)` / `(.plainText s)` —
      the Content-Type of the table first, then the status, then the payload verbatim;
    * `json_refines`, `xml_refines`: the body's calls are exactly `renderOps enc … (.json v)` / `(.xml v)` for the encoder
      `enc` that did what the environment's encoder did in this call (its writes, its error) — Content-Type and status
      first; on failure `http.Error` with the error's text and 500 AFTER them; the indent option passed to the encoder
      exactly when it is non-empty;
    * hence (`code_status_then_type`, `code_calls_are_renderOps`) every theorem of Props/C17 about `renderOps` speaks
      about the code's own bodies.

  C17 stays PARTIAL where it was: what the standard encoders write for a value is theirs (a parameter here too).
-/
import Flamego.Gen.RenderCode
import Flamego.Props.C17
set_option linter.unusedSimpArgs false
set_option linter.unusedVariables false
namespace Flamego.C17Code
open Flamego.GoSem Flamego.Gen.RenderCode Flamego.Render

/-- RenderOptions as the model's `Opts` -/
def optsOf (o : RenderOptions) : Opts := { charset := o.Charset, jsonIndent := o.JSONIndent, xmlIndent := o.XMLIndent }

def arg0 (c : String × List Arg) : Arg := c.2.headD default
def arg1 (c : String × List Arg) : Arg := (c.2.drop 1).headD default

/-- one recorded call as operations on the response writer; `chunks k` = the writes the encoder issued during the call
recorded at position `k` (the environment's business) -/
def opsAt (chunks : Nat → List Bytes) (k : Nat) (c : String × List Arg) : List ROp :=
  if c.1 = "Header.Set" then [.setHeader (arg0 c).toBytes (arg1 c).toBytes]
  else if c.1 = "WriteHeader" then [.writeHeader (arg0 c).toInt.toNat]
  else if c.1 = "Write" then [.write (arg0 c).toBytes]
  else if c.1 = "json.Encode" then (chunks k).map ROp.write
  else if c.1 = "xml.Encode" then (chunks k).map ROp.write
  else if c.1 = "http.Error" then httpError (arg0 c).toBytes (arg1 c).toInt.toNat
  else []      -- json.SetIndent / xml.Indent configure the encoder and put nothing on the wire

def opsFrom (chunks : Nat → List Bytes) : Nat → List (String × List Arg) → List ROp
  | _, [] => []
  | k, c :: cs => opsAt chunks k c ++ opsFrom chunks (k + 1) cs

theorem opsFrom_append (chunks : Nat → List Bytes) (k : Nat) (xs ys : List (String × List Arg)) :
    opsFrom chunks k (xs ++ ys) = opsFrom chunks k xs ++ opsFrom chunks (k + xs.length) ys := by
  induction xs generalizing k with
  | nil => simp [opsFrom]
  | cons x xs ih => simp [opsFrom, ih, Nat.add_assoc, Nat.add_comm 1]

/-- what the environment's encoder did in the call recorded at position `k`: its writes, and its error (code `0` = nil)
with the error's text -/
def encOutAt (errText : Err → Bytes) (chunks : Nat → List Bytes) (e : Env) (k : Nat) (name : String) : EncOut :=
  { chunks := chunks k, err := if (e.answers k name).1 = 0 then none else some (errText (e.answers k name).1) }

/-- the calls a method added to the trace -/
def added (before after : Env) : List (String × List Arg) := after.trace.drop before.trace.length

/-! ### Binary and PlainText: header, status, payload verbatim -/

theorem binary_refines {V : Type} (enc : Encoder V) (chunks : Nat → List Bytes) (r : render) (status : Int) (b : Bytes)
    (head : Bool) :
    opsFrom chunks r.responseWriter.trace.length (added r.responseWriter (Binary r status b).2.responseWriter)
      = renderOps enc (optsOf r.opts) head status.toNat (.binary b)
    ∧ (Binary r status b).2.opts = r.opts := by
  simp [Binary, envCall_responseWriter, Env.call, Env.record, added, opsFrom, opsAt, arg0, arg1, renderOps, bodyOps,
    contentType, Payload.kind, ctKey]

theorem plainText_refines {V : Type} (enc : Encoder V) (chunks : Nat → List Bytes) (r : render) (status : Int) (s : Bytes)
    (head : Bool) :
    opsFrom chunks r.responseWriter.trace.length (added r.responseWriter (PlainText r status s).2.responseWriter)
      = renderOps enc (optsOf r.opts) head status.toNat (.plainText s)
    ∧ (PlainText r status s).2.opts = r.opts := by
  simp [PlainText, envCall_responseWriter, Env.call, Env.record, added, opsFrom, opsAt, arg0, arg1, renderOps, bodyOps,
    contentType, Payload.kind, ctKey, optsOf]

/-! ### JSON and XML: header, status, then whatever the encoder did; `http.Error` only when it failed -/

/-- the position in the trace at which a method's `Encode` call is recorded: after `Header.Set`, `WriteHeader` and —
iff the indent option is non-empty — the call that configures the indent -/
def encodePos (r : render) (indent : Bytes) : Nat :=
  r.responseWriter.trace.length + 2 + (if indent != [] then 1 else 0)

theorem json_refines {V : Type} (errText : Err → Bytes) (enc : Encoder V) (chunks : Nat → List Bytes) (r : render)
    (status : Int) (v : Any) (mv : V) (head : Bool)
    (henc : enc.json head r.opts.JSONIndent mv
              = encOutAt errText chunks r.responseWriter (encodePos r r.opts.JSONIndent) "json.Encode") :
    opsFrom chunks r.responseWriter.trace.length (added r.responseWriter (JSON errText r status v).2.responseWriter)
      = renderOps enc (optsOf r.opts) head status.toNat (.json mv)
    ∧ (JSON errText r status v).2.opts = r.opts := by
  simp only [renderOps, bodyOps, optsOf, henc, encOutAt, encodePos, encodeOps]
  by_cases hi : r.opts.JSONIndent = []
  · by_cases he : (r.responseWriter.answers (r.responseWriter.trace.length + 2) "json.Encode").1 = 0
    · simp [JSON, envCall_responseWriter, Env.call, Env.record, added, opsFrom, opsAt, arg0, arg1, hi, he,
        contentType, Payload.kind, ctKey]
    · simp [JSON, envCall_responseWriter, Env.call, Env.record, added, opsFrom, opsAt, arg0, arg1, hi, he,
        contentType, Payload.kind, ctKey, Nat.add_assoc]
  · by_cases he : (r.responseWriter.answers (r.responseWriter.trace.length + 2 + 1) "json.Encode").1 = 0
    · simp [JSON, envCall_responseWriter, Env.call, Env.record, added, opsFrom, opsAt, arg0, arg1, hi, he,
        contentType, Payload.kind, ctKey, Nat.add_assoc]
    · simp [JSON, envCall_responseWriter, Env.call, Env.record, added, opsFrom, opsAt, arg0, arg1, hi, he,
        contentType, Payload.kind, ctKey, Nat.add_assoc]

theorem xml_refines {V : Type} (errText : Err → Bytes) (enc : Encoder V) (chunks : Nat → List Bytes) (r : render)
    (status : Int) (v : Any) (mv : V) (head : Bool)
    (henc : enc.xml head r.opts.XMLIndent mv
              = encOutAt errText chunks r.responseWriter (encodePos r r.opts.XMLIndent) "xml.Encode") :
    opsFrom chunks r.responseWriter.trace.length (added r.responseWriter (XML errText r status v).2.responseWriter)
      = renderOps enc (optsOf r.opts) head status.toNat (.xml mv)
    ∧ (XML errText r status v).2.opts = r.opts := by
  simp only [renderOps, bodyOps, optsOf, henc, encOutAt, encodePos, encodeOps]
  by_cases hi : r.opts.XMLIndent = []
  · by_cases he : (r.responseWriter.answers (r.responseWriter.trace.length + 2) "xml.Encode").1 = 0
    · simp [XML, envCall_responseWriter, Env.call, Env.record, added, opsFrom, opsAt, arg0, arg1, hi, he,
        contentType, Payload.kind, ctKey]
    · simp [XML, envCall_responseWriter, Env.call, Env.record, added, opsFrom, opsAt, arg0, arg1, hi, he,
        contentType, Payload.kind, ctKey, Nat.add_assoc]
  · by_cases he : (r.responseWriter.answers (r.responseWriter.trace.length + 2 + 1) "xml.Encode").1 = 0
    · simp [XML, envCall_responseWriter, Env.call, Env.record, added, opsFrom, opsAt, arg0, arg1, hi, he,
        contentType, Payload.kind, ctKey, Nat.add_assoc]
    · simp [XML, envCall_responseWriter, Env.call, Env.record, added, opsFrom, opsAt, arg0, arg1, hi, he,
        contentType, Payload.kind, ctKey, Nat.add_assoc]

/-! ### the clauses of C17, of the code's own bodies

`resp.run ops` is Model/Render's response (the C13 writer over a recording http.ResponseWriter) after the operations
`ops`; here `ops` are the calls the generated body made.  Each clause is the clause of Props/C17 carried along the
refinement above. -/

section binary_plain
variable {V : Type} (enc : Encoder V) (chunks : Nat → List Bytes) (r : render) (status : Int) (resp : Resp)
include enc

/-- Binary: the status given is the status sent, once, first; the client's Content-Type is the table's; the bytes go out
verbatim -/
theorem code_binary (b : Bytes) (hf : resp.Fresh) (hs : 100 ≤ status) :
    let out := resp.run (opsFrom chunks r.responseWriter.trace.length
                 (added r.responseWriter (Binary r status b).2.responseWriter))
    out.w.status = status.toNat ∧ out.w.under.filter Writer.UEv.isHdr = [Writer.UEv.hdr status.toNat]
      ∧ out.sentContentType = some (contentType (optsOf r.opts) .binary)
      ∧ (resp.w.head = false → out.body = b) := by
  intro out
  have hr : out = Render.render enc (optsOf r.opts) status.toNat (.binary b) resp := by
    simp only [out, (binary_refines enc chunks r status b resp.w.head).1, Render.render]
  have hs' : 100 ≤ status.toNat := by omega
  rw [hr]
  have h1 := status_sent enc (optsOf r.opts) status.toNat (.binary b) resp hf hs'
  exact ⟨h1.1, h1.2.1, content_type_sent enc _ _ _ resp hf hs', fun hh => binary_verbatim enc _ _ b resp hf hh⟩

/-- PlainText: likewise, with the charset of the options in the Content-Type -/
theorem code_plainText (t : Bytes) (hf : resp.Fresh) (hs : 100 ≤ status) :
    let out := resp.run (opsFrom chunks r.responseWriter.trace.length
                 (added r.responseWriter (PlainText r status t).2.responseWriter))
    out.w.status = status.toNat ∧ out.w.under.filter Writer.UEv.isHdr = [Writer.UEv.hdr status.toNat]
      ∧ out.sentContentType = some (contentType (optsOf r.opts) .plainText)
      ∧ (resp.w.head = false → out.body = t) := by
  intro out
  have hr : out = Render.render enc (optsOf r.opts) status.toNat (.plainText t) resp := by
    simp only [out, (plainText_refines enc chunks r status t resp.w.head).1, Render.render]
  have hs' : 100 ≤ status.toNat := by omega
  rw [hr]
  have h1 := status_sent enc (optsOf r.opts) status.toNat (.plainText t) resp hf hs'
  exact ⟨h1.1, h1.2.1, content_type_sent enc _ _ _ resp hf hs', fun hh => plainText_verbatim enc _ _ t resp hf hh⟩

end binary_plain

/-- JSON: status and Content-Type as given — also when the encoder fails afterwards —, and on success the body is exactly
what the encoder wrote, given the configured indent -/
theorem code_json {V : Type} (errText : Err → Bytes) (enc : Encoder V) (chunks : Nat → List Bytes) (r : render)
    (status : Int) (v : Any) (mv : V) (resp : Resp) (hf : resp.Fresh) (hs : 100 ≤ status) (hh : resp.w.head = false)
    (henc : enc.json false r.opts.JSONIndent mv
              = encOutAt errText chunks r.responseWriter (encodePos r r.opts.JSONIndent) "json.Encode") :
    let out := resp.run (opsFrom chunks r.responseWriter.trace.length
                 (added r.responseWriter (JSON errText r status v).2.responseWriter))
    out.w.status = status.toNat
      ∧ out.sentContentType = some (contentType (optsOf r.opts) .json)
      ∧ ((enc.json false r.opts.JSONIndent mv).err = none → out.body = (enc.json false r.opts.JSONIndent mv).chunks.flatten) := by
  intro out
  have hr : out = Render.render enc (optsOf r.opts) status.toNat (.json mv) resp := by
    have := (json_refines errText enc chunks r status v mv resp.w.head (by rw [hh]; exact henc)).1
    simp only [out, this, Render.render]
  have hs' : 100 ≤ status.toNat := by omega
  rw [hr]
  exact ⟨(status_sent enc _ _ _ resp hf hs').1, content_type_sent enc _ _ _ resp hf hs',
    (encoded_body_is_encoder_output enc (optsOf r.opts) status.toNat mv resp hf hh).1⟩

/-- XML: likewise -/
theorem code_xml {V : Type} (errText : Err → Bytes) (enc : Encoder V) (chunks : Nat → List Bytes) (r : render)
    (status : Int) (v : Any) (mv : V) (resp : Resp) (hf : resp.Fresh) (hs : 100 ≤ status) (hh : resp.w.head = false)
    (henc : enc.xml false r.opts.XMLIndent mv
              = encOutAt errText chunks r.responseWriter (encodePos r r.opts.XMLIndent) "xml.Encode") :
    let out := resp.run (opsFrom chunks r.responseWriter.trace.length
                 (added r.responseWriter (XML errText r status v).2.responseWriter))
    out.w.status = status.toNat
      ∧ out.sentContentType = some (contentType (optsOf r.opts) .xml)
      ∧ ((enc.xml false r.opts.XMLIndent mv).err = none → out.body = (enc.xml false r.opts.XMLIndent mv).chunks.flatten) := by
  intro out
  have hr : out = Render.render enc (optsOf r.opts) status.toNat (.xml mv) resp := by
    have := (xml_refines errText enc chunks r status v mv resp.w.head (by rw [hh]; exact henc)).1
    simp only [out, this, Render.render]
  have hs' : 100 ≤ status.toNat := by omega
  rw [hr]
  exact ⟨(status_sent enc _ _ _ resp hf hs').1, content_type_sent enc _ _ _ resp hf hs',
    (encoded_body_is_encoder_output enc (optsOf r.opts) status.toNat mv resp hf hh).2⟩

/-! ### the definitions compute: what the wrapped writer is asked to do, call by call -/

def demoRender : render :=
  { opts := { Charset := [117, 116, 102, 45, 56], JSONIndent := [32, 32], XMLIndent := [] },   -- "utf-8", "  ", ""
    responseWriter := { trace := [], answers := fun k m => if m = "json.Encode" then (7, 0) else (0, 0), ifaces := [] } }

/-- JSON with an indent and a failing encoder: Content-Type, status, SetIndent, Encode, then http.Error(text, 500) -/
example : ((JSON (fun _ => [98, 97, 100]) demoRender 201 5).2.responseWriter.trace.map (·.1))
    = ["Header.Set", "WriteHeader", "json.SetIndent", "json.Encode", "http.Error"] := by decide
/-- XML without an indent and a succeeding encoder: no Indent call, no http.Error -/
example : ((XML (fun _ => []) demoRender 200 5).2.responseWriter.trace.map (·.1))
    = ["Header.Set", "WriteHeader", "xml.Encode"] := by decide
example : (Binary demoRender 202 [1, 2, 3]).2.responseWriter.trace
    = [("Header.Set", [.bytes ctKey, .bytes (contentType (optsOf demoRender.opts) .binary)]),
       ("WriteHeader", [.int 202]), ("Write", [.bytes [1, 2, 3]])] := by decide

end Flamego.C17Code
