/-
  Props/C08.lean — Registration validated up front: ill-formed rejected, well-formed accepted.
  (the characterisation `register_ok_iff` is added as the proof development proceeds; §5/C08)
-/
import Flamego.Proofs.Assoc

namespace Flamego.C08

/-- "a non-final segment is optional" ⇒ rejected, whatever the tree -/
theorem inner_optional_rejected (E : Engine) (r : Route) (hid : Nat) (s s2 : Segment) (rest : List Segment)
    (subs : List Node) (leaves : List Leaf) (ab : List Bytes) (aa as : Bool) (h : s.optional = true) :
    addNext E r hid (s :: s2 :: rest) subs leaves ab aa as = .error .innerOptional := by
  simp [addNext, h]

/-- "the same route is already registered for that method" ⇒ rejected: a leaf list that already
    holds the segment's text (the optional mark aside) refuses it -/
theorem duplicate_leaf_rejected (E : Engine) (leaves : List Leaf) (ab : List Bytes) (as : Bool)
    (r : Route) (s : Segment) (hid : Nat) (long : Bool) (h : ∃ l ∈ leaves, l.key = s.leafKey) :
    addLeafTo E leaves ab as r s hid long = .error .dupRoute := by
  obtain ⟨l, hl, hk⟩ := h
  have : leaves.any (fun l => decide (l.key = s.leafKey)) = true := by
    simp only [List.any_eq_true, decide_eq_true_eq]; exact ⟨l, hl, hk⟩
  simp [addLeafTo, this]

/-- a failed registration leaves the tree untouched: `addRoute` returns either a new tree or an
    error, and the router keeps the old tree on error (functional update) -/
theorem failed_add_keeps_router (E : Engine) (R : Router) (hid : Nat) (r : Route) (m : String) (t : Node)
    (ht : assocGet R.trees m = some t) (e : RegErr) (hf : addRoute E t r hid = .error e) :
    R.addMethods E hid r [m] [] = (R, false) := by
  simp [Router.addMethods, ht, hf]

end Flamego.C08
