/-
  Props/C08.lean — Registration validated up front: ill-formed rejected, well-formed accepted.

  "A registration fails loudly at registration time - never later, during a request - when the
   route text is outside the grammar, the HTTP method is unknown, the same route is already
   registered for that method (including the short form implied by an optional segment), a bind
   name is reused along one route, a non-final segment is optional, an inner segment is empty, two
   match-all segments precede the end of one route or two different match-alls share a position,
   or an expression does not compile. Every other route - any combination of static, placeholder,
   regex, match-all and a final optional segment - is accepted and then reachable by its own
   instances subject only to priority."

  Objects.  `addRoute E t r hid` (Model/Tree.lean) is `route.AddRoute` on one method's tree;
  `Router.addMethods` (Model/Router.lean) is `router.addRoute` after parsing; `parse`
  (Model/Parser.lean, C06) is the route parser.  `ValidNew E t r` (Spec/Register.lean) says which
  registrations are accepted, clause by clause, without the algorithm: `RouteOK` (the route alone)
  and `WalkFree` (what the tree already holds along the route's path).

  Quantifiers.  Every regular-expression engine `E`; every tree `t` satisfying `RegInv E t` — the
  three invariants every tree built by registrations of parsed routes has (`built_regInv`):
  `TreeInv` (sibling lists sorted by rank, one match-all at most, keys distinct), `KeyInv` (every
  node was created from a parsed segment rendering as its key and classifying as its pattern) and
  `PathInv` (binds distinct and at most one match-all node along every path); every route `r`
  whose segments are `ParsedSeg` (all the parser produces: `wf_parsedSeg` with C06's
  `parse_sound`).  On ASTs the parser cannot produce the characterisation is false (a static
  identifier spelled `{a}` renders like a placeholder; Proofs/TreeAdd `forms_need_faithful`).

  Main theorem: `register_ok_iff`.  Lemmas: Proofs/Register.lean.
-/
import Flamego.Proofs.Assoc
import Flamego.Proofs.Register
import Flamego.Props.C01
import Flamego.Props.C06
import Flamego.Props.C07

namespace Flamego.C08

/-- "a non-final segment is optional" ⇒ rejected, whatever the tree -/
theorem inner_optional_rejected (E : Engine) (r : Route) (hid : Nat) (s s2 : Segment) (rest : List Segment)
    (subs : List Node) (leaves : List Leaf) (ab : List Bytes) (aa as : Bool) (h : s.optional = true) :
    addNext E r hid (s :: s2 :: rest) subs leaves ab aa as = .error .innerOptional := by
  simp [addNext, h]

/-- "the same route is already registered for that method" ⇒ rejected: a leaf list that already
    holds the segment's text (the optional mark aside) refuses it -/
theorem duplicate_leaf_rejected (E : Engine) (leaves : List Leaf) (ab : List Bytes) (as : Bool)
    (r : Route) (s : Segment) (hid : Nat) (long : Bool) (h : ∃ l ∈ leaves, l.key = s.leafKey) :
    addLeafTo E leaves ab as r s hid long = .error .dupRoute := by
  obtain ⟨l, hl, hk⟩ := h
  have : leaves.any (fun l => decide (l.key = s.leafKey)) = true := by
    simp only [List.any_eq_true, decide_eq_true_eq]; exact ⟨l, hl, hk⟩
  simp [addLeafTo, this]

/-- a failed registration leaves the tree untouched: `addRoute` returns either a new tree or an
    error, and the router keeps the old tree on error (functional update) -/
theorem failed_add_keeps_router (E : Engine) (R : Router) (hid : Nat) (r : Route) (m : String) (t : Node)
    (ht : assocGet R.trees m = some t) (e : RegErr) (hf : addRoute E t r hid = .error e) :
    R.addMethods E hid r [m] [] = (R, false) := by
  simp [Router.addMethods, ht, hf]

/-! ### the characterisation -/

/-- every tree built from `NewTree()` by registrations of parsed routes (accepted or not) has the
    invariants the characterisation needs -/
theorem built_regInv (E : Engine) (h : List (Route × Nat))
    (hP : ∀ rh ∈ h, ∀ s ∈ rh.1.segs, ParsedSeg s = true) : RegInv E (build E h) :=
  build_regInv E h hP

/-- … and a successful registration keeps them -/
theorem regInv_kept (E : Engine) (t t' : Node) (r : Route) (hid : Nat) (hinv : RegInv E t)
    (hP : ∀ s ∈ r.segs, ParsedSeg s = true) (h : addRoute E t r hid = .ok t') : RegInv E t' :=
  addRoute_regInv hinv hP h

/-- what the parser returns is made of `ParsedSeg` segments (C06: `parse s = some r → WF r`) -/
theorem parsed_of_parse (text : Bytes) (r : Route) (h : parse text = some r) :
    ∀ s ∈ r.segs, ParsedSeg s = true :=
  wf_parsedSeg (RouteGrammar.parse_sound text r h).1

/-- **accepted iff valid** — a registration succeeds exactly when every clause of `ValidNew`
    holds: "[fails] when … Every other route … is accepted".  Both directions, every error. -/
theorem register_ok_iff (E : Engine) (t : Node) (r : Route) (hid : Nat) (hinv : RegInv E t)
    (hP : ∀ s ∈ r.segs, ParsedSeg s = true) :
    (∃ t', addRoute E t r hid = .ok t') ↔ ValidNew E t r :=
  addRoute_ok_iff_validNew hinv hP

/-- the same, for the tree after any history of parsed registrations -/
theorem register_ok_iff_built (E : Engine) (h : List (Route × Nat))
    (hPh : ∀ rh ∈ h, ∀ s ∈ rh.1.segs, ParsedSeg s = true) (r : Route) (hid : Nat)
    (hP : ∀ s ∈ r.segs, ParsedSeg s = true) :
    (∃ t', addRoute E (build E h) r hid = .ok t') ↔ ValidNew E (build E h) r :=
  register_ok_iff E _ r hid (built_regInv E h hPh) hP

/-- not valid ⇒ an error, at registration time -/
theorem rejected_iff (E : Engine) (t : Node) (r : Route) (hid : Nat) (hinv : RegInv E t)
    (hP : ∀ s ∈ r.segs, ParsedSeg s = true) :
    (∃ e, addRoute E t r hid = .error e) ↔ ¬ ValidNew E t r := by
  rw [← register_ok_iff E t r hid hinv hP]
  cases addRoute E t r hid <;> simp

/-- in terms of histories: appending `(r, hid)` to a history extends the accepted registrations
    by it exactly when it is valid on the tree built so far -/
theorem accepted_snoc_iff (E : Engine) (h : List (Route × Nat))
    (hPh : ∀ rh ∈ h, ∀ s ∈ rh.1.segs, ParsedSeg s = true) (r : Route) (hid : Nat)
    (hP : ∀ s ∈ r.segs, ParsedSeg s = true) :
    accepted E (h ++ [(r, hid)]) = accepted E h ++ [(r, hid)] ↔ ValidNew E (build E h) r := by
  rw [← register_ok_iff_built E h hPh r hid hP]
  unfold accepted build
  rw [acceptedFrom_append]
  simp only [acceptedFrom]
  cases addRoute E (buildFrom E Node.root h) r hid <;> simp

/-! ### one rejection lemma per clause of the statement

  Shape: the tree `t` is any tree with the invariants (in particular any built tree), the route is
  `inner ++ [last]` and parsed, and one concrete thing is wrong ⇒ `addRoute` returns an error. -/

/-- the tool: if the clauses fail for the (unique) decomposition of the route, it is rejected -/
theorem rejected_of_clause {E : Engine} {t : Node} {r : Route} {hid : Nat} (hinv : RegInv E t)
    (hP : ∀ s ∈ r.segs, ParsedSeg s = true) {inner : List Segment} {last : Segment}
    (hs : r.segs = inner ++ [last])
    (h : RouteOK E inner last → WalkFree E last inner t.subs t.leaves → False) :
    ∃ e, addRoute E t r hid = .error e := by
  rw [rejected_iff E t r hid hinv hP, validNew_iff_of_snoc hs]
  exact fun ⟨h1, h2, _⟩ => h h1 h2

/-- "a non-final segment is optional" ⇒ rejected (any position before the last) -/
theorem optional_inner_rejected {E : Engine} {t : Node} {r : Route} {hid : Nat} (hinv : RegInv E t)
    (hP : ∀ s ∈ r.segs, ParsedSeg s = true) {inner : List Segment} {last s : Segment}
    (hs : r.segs = inner ++ [last]) (hm : s ∈ inner) (ho : s.optional = true) :
    ∃ e, addRoute E t r hid = .error e :=
  rejected_of_clause hinv hP hs fun hr _ => by
    have := hr.innerNotOptional s hm; rw [ho] at this; cases this

/-- "an inner segment is empty" ⇒ rejected (`/a//b`) -/
theorem empty_inner_rejected {E : Engine} {t : Node} {r : Route} {hid : Nat} (hinv : RegInv E t)
    (hP : ∀ s ∈ r.segs, ParsedSeg s = true) {inner : List Segment} {last s : Segment}
    (hs : r.segs = inner ++ [last]) (hm : s ∈ inner) (he : s.elems = []) :
    ∃ e, addRoute E t r hid = .error e :=
  rejected_of_clause hinv hP hs fun hr _ => hr.innerNotEmpty s hm he

/-- "an expression does not compile" ⇒ rejected: some segment (inner or last, not a match-all)
    has a parameter `q` whose value is an expression `e` the engine refuses -/
theorem bad_expression_rejected {E : Engine} {t : Node} {r : Route} {hid : Nat} (hinv : RegInv E t)
    (hP : ∀ s ∈ r.segs, ParsedSeg s = true) {s : Segment} (hm : s ∈ r.segs)
    {ps : List BindParam} {q : BindParam} {e : Bytes} (hps : Elem.params ps ∈ s.elems)
    (hq : q ∈ ps) (hv : q.val = .re e) (hc : E.compile e = none) (hna : allBind s = none) :
    ∃ e, addRoute E t r hid = .error e := by
  obtain ⟨ht, hl⟩ := classify_bad_expression (E := E) hps hq hv hc hna
  rcases snoc_cases r.segs with h0 | ⟨inner, last, hs⟩
  · rw [h0] at hm; cases hm
  · refine rejected_of_clause hinv hP hs fun hr _ => ?_
    rw [hs, List.mem_append, List.mem_singleton] at hm
    rcases hm with hm | rfl
    · have := hr.innerClassify s hm; rw [ht] at this; cases this
    · have := hr.lastClassify; rw [hl] at this; cases this

/-- "a bind name is reused along one route" ⇒ rejected: an inner segment and the last one -/
theorem bind_reuse_rejected {E : Engine} {t : Node} {r : Route} {hid : Nat} (hinv : RegInv E t)
    (hP : ∀ s ∈ r.segs, ParsedSeg s = true) {inner : List Segment} {last s : Segment}
    (hs : r.segs = inner ++ [last]) (hm : s ∈ inner) {b : Bytes}
    (h1 : b ∈ optBinds (treePat E s)) (h2 : b ∈ optBinds (leafPat E last)) :
    ∃ e, addRoute E t r hid = .error e :=
  rejected_of_clause hinv hP hs fun hr _ => by
    have := hr.bindsDistinct
    unfold bindsAlong at this
    exact (List.nodup_append.mp this).2.2 b (List.mem_flatMap.mpr ⟨s, hm, h1⟩) b h2 rfl

/-- … two inner segments -/
theorem bind_reuse_inner_rejected {E : Engine} {t : Node} {r : Route} {hid : Nat} (hinv : RegInv E t)
    (hP : ∀ s ∈ r.segs, ParsedSeg s = true) {pre post : List Segment} {last s₁ s₂ : Segment}
    (hs : r.segs = (pre ++ s₁ :: post) ++ [last]) (hm : s₂ ∈ post) {b : Bytes}
    (h1 : b ∈ optBinds (treePat E s₁)) (h2 : b ∈ optBinds (treePat E s₂)) :
    ∃ e, addRoute E t r hid = .error e :=
  rejected_of_clause hinv hP hs fun hr _ => by
    have := hr.bindsDistinct
    unfold bindsAlong at this
    have := (List.nodup_append.mp this).1
    rw [List.flatMap_append, List.flatMap_cons] at this
    have := (List.nodup_append.mp (List.nodup_append.mp this).2.1).2.2
    exact this b h1 b (List.mem_flatMap.mpr ⟨s₂, hm, h2⟩) rfl

/-- "two match-all segments precede the end of one route" ⇒ rejected -/
theorem two_matchall_rejected {E : Engine} {t : Node} {r : Route} {hid : Nat} (hinv : RegInv E t)
    (hP : ∀ s ∈ r.segs, ParsedSeg s = true) {pre post : List Segment} {last s₁ s₂ : Segment}
    (hs : r.segs = (pre ++ s₁ :: post) ++ [last]) (hm : s₂ ∈ post)
    (h1 : optIsAll (treePat E s₁) = true) (h2 : optIsAll (treePat E s₂) = true) :
    ∃ e, addRoute E t r hid = .error e :=
  rejected_of_clause hinv hP hs fun hr _ => by
    have := hr.oneMatchAll
    obtain ⟨p1, p2, rfl⟩ := List.append_of_mem hm
    simp only [List.filter_append, List.filter_cons, h1, h2, ↓reduceIte, List.length_append,
      List.length_cons] at this
    omega

/-- "two different match-alls share a position" ⇒ rejected: the route starts with a match-all
    segment that is not yet a child of the root while another match-all child is there -/
theorem matchall_sibling_rejected {E : Engine} {t : Node} {r : Route} {hid : Nat} (hinv : RegInv E t)
    (hP : ∀ s ∈ r.segs, ParsedSeg s = true) {inner : List Segment} {last s : Segment}
    (hs : r.segs = (s :: inner) ++ [last]) (hall : optIsAll (treePat E s) = true)
    (hnew : ∀ n ∈ t.subs, n.key ≠ s.render) {n : Node} (hn : n ∈ t.subs) (hna : n.pat.isAll = true) :
    ∃ e, addRoute E t r hid = .error e :=
  rejected_of_clause hinv hP hs fun _ hw => by
    have hfind : t.subs.find? (fun n => decide (n.key = s.render)) = none :=
      List.find?_eq_none.mpr fun m hm => by simpa using hnew m hm
    rw [WalkFree, hfind] at hw
    have := hw.1 hall n hn
    rw [hna] at this; cases this

/-- … the same for leaves: a one-segment match-all route while the root has a match-all leaf -/
theorem matchall_leaf_sibling_rejected {E : Engine} {t : Node} {r : Route} {hid : Nat}
    (hinv : RegInv E t) (hP : ∀ s ∈ r.segs, ParsedSeg s = true) {last : Segment}
    (hs : r.segs = [last]) (hall : optIsAll (leafPat E last) = true)
    {l : Leaf} (hl : l ∈ t.leaves) (hla : l.pat.isAll = true) :
    ∃ e, addRoute E t r hid = .error e :=
  rejected_of_clause hinv hP (inner := []) (by simpa using hs) fun _ hw => by
    have := hw.2 hall l hl
    rw [hla] at this; cases this

/-! ### "the same route is already registered for that method (including the short form implied
  by an optional segment)" — against the whole history, not only the previous registration -/

/-- an accepted registration's path and leaf are in the tree after any further history -/
theorem accepted_leaf_present (E : Engine) (h : List (Route × Nat))
    (hPh : ∀ rh ∈ h, ∀ s ∈ rh.1.segs, ParsedSeg s = true) (rh : Route × Nat) (hrh : rh ∈ accepted E h)
    {inner : List Segment} {last : Segment} (hs : rh.1.segs = inner ++ [last]) :
    WalkHas last.leafKey inner (build E h).subs (build E h).leaves :=
  accepted_invariant E (fun t => WalkHas last.leafKey inner t.subs t.leaves) rh
    (fun _ _ _ ht => addRoute_walkHas_long ht hs)
    (fun _ _ _ _ hinv _ ht hw => addRoute_walkHas_mono hinv.tree ht _ _ hw)
    h Node.root (RegInv.root E) hPh (Or.inr hrh)

/-- … and so is its short form when its last segment is optional -/
theorem accepted_short_present (E : Engine) (h : List (Route × Nat))
    (hPh : ∀ rh ∈ h, ∀ s ∈ rh.1.segs, ParsedSeg s = true) (rh : Route × Nat) (hrh : rh ∈ accepted E h)
    {init : List Segment} {prev last : Segment} (hs : rh.1.segs = init ++ [prev, last])
    (ho : last.optional = true) :
    WalkHas prev.leafKey init (build E h).subs (build E h).leaves :=
  accepted_invariant E (fun t => WalkHas prev.leafKey init t.subs t.leaves) rh
    (fun _ _ _ ht => addRoute_walkHas_short ht hs ho)
    (fun _ _ _ _ hinv _ ht hw => addRoute_walkHas_mono hinv.tree ht _ _ hw)
    h Node.root (RegInv.root E) hPh (Or.inr hrh)

/-- … and the root path for an accepted "/?x" -/
theorem accepted_root_present (E : Engine) (h : List (Route × Nat))
    (hPh : ∀ rh ∈ h, ∀ s ∈ rh.1.segs, ParsedSeg s = true) (rh : Route × Nat) (hrh : rh ∈ accepted E h)
    {s : Segment} (hs : rh.1.segs = [s]) (ho : s.optional = true) (he : s.elems ≠ []) :
    ∃ l ∈ (build E h).leaves, l.key = [] :=
  accepted_invariant E (fun t => WalkHas [] [] t.subs t.leaves) rh
    (fun _ _ _ ht => addRoute_walkHas_root ht hs ho he)
    (fun _ _ _ _ hinv _ ht hw => addRoute_walkHas_mono hinv.tree ht _ _ hw)
    h Node.root (RegInv.root E) hPh (Or.inr hrh)

theorem leafKey_of_elems {s s' : Segment} (h : s'.elems = s.elems) : s'.leafKey = s.leafKey := by
  unfold Segment.leafKey; rw [h]

/-- **the optional mark does not make a new route**: once `…/a` or `…/?a` is accepted, both
    `…/a` and `…/?a` are rejected (`/x/a` after `/x/?a` and vice versa; same text = duplicate) -/
theorem optional_mark_is_not_a_new_route (E : Engine) (h : List (Route × Nat))
    (hPh : ∀ rh ∈ h, ∀ s ∈ rh.1.segs, ParsedSeg s = true) (rh : Route × Nat) (hrh : rh ∈ accepted E h)
    {inner : List Segment} {last last' : Segment} (hs : rh.1.segs = inner ++ [last])
    (r : Route) (hid : Nat) (hP : ∀ s ∈ r.segs, ParsedSeg s = true)
    (hr : r.segs = inner ++ [last']) (hk : last'.elems = last.elems) :
    ∃ e, addRoute E (build E h) r hid = .error e :=
  rejected_of_clause (built_regInv E h hPh) hP hr fun _ hw =>
    walkHas_not_walkFree_long E last' _ (leafKey_of_elems hk) inner _ _ (built_regInv E h hPh).tree
      (accepted_leaf_present E h hPh rh hrh hs) hw

/-- **a route that was accepted is rejected ever after** (same method tree, any later moment) -/
theorem duplicate_rejected (E : Engine) (h : List (Route × Nat))
    (hPh : ∀ rh ∈ h, ∀ s ∈ rh.1.segs, ParsedSeg s = true) (rh : Route × Nat) (hrh : rh ∈ accepted E h)
    (hid : Nat) : ∃ e, addRoute E (build E h) rh.1 hid = .error e := by
  have hP := hPh rh (accepted_subset E h rh hrh)
  rcases snoc_cases rh.1.segs with h0 | ⟨inner, last, hs⟩
  · rw [rejected_iff E _ _ hid (built_regInv E h hPh) hP]
    rintro ⟨inner, last, hs, _⟩
    rw [h0] at hs; cases inner <;> cases hs
  · exact optional_mark_is_not_a_new_route E h hPh rh hrh hs rh.1 hid hP hs rfl

/-- **the short form counts**: after `…/a/?b` is accepted, `…/a` (and `…/?a`) is rejected -/
theorem duplicate_short_form_rejected (E : Engine) (h : List (Route × Nat))
    (hPh : ∀ rh ∈ h, ∀ s ∈ rh.1.segs, ParsedSeg s = true) (rh : Route × Nat) (hrh : rh ∈ accepted E h)
    {init : List Segment} {prev last prev' : Segment} (hs : rh.1.segs = init ++ [prev, last])
    (ho : last.optional = true)
    (r : Route) (hid : Nat) (hP : ∀ s ∈ r.segs, ParsedSeg s = true)
    (hr : r.segs = init ++ [prev']) (hk : prev'.elems = prev.elems) :
    ∃ e, addRoute E (build E h) r hid = .error e :=
  rejected_of_clause (built_regInv E h hPh) hP hr fun _ hw =>
    walkHas_not_walkFree_long E prev' _ (leafKey_of_elems hk) init _ _ (built_regInv E h hPh).tree
      (accepted_short_present E h hPh rh hrh hs ho) hw

/-- … and the other way round: after `…/a` is accepted, `…/a/?b` is rejected for every `b`,
    because its short form is the registered route -/
theorem short_form_of_new_route_rejected (E : Engine) (h : List (Route × Nat))
    (hPh : ∀ rh ∈ h, ∀ s ∈ rh.1.segs, ParsedSeg s = true) (rh : Route × Nat) (hrh : rh ∈ accepted E h)
    {init : List Segment} {prev prev' last : Segment} (hs : rh.1.segs = init ++ [prev])
    (r : Route) (hid : Nat) (hP : ∀ s ∈ r.segs, ParsedSeg s = true)
    (hr : r.segs = (init ++ [prev']) ++ [last]) (ho : last.optional = true)
    (hk : prev'.elems = prev.elems) :
    ∃ e, addRoute E (build E h) r hid = .error e :=
  rejected_of_clause (built_regInv E h hPh) hP hr fun _ hw =>
    walkHas_not_walkFree_short E prev' last _ (leafKey_of_elems hk) ho init _ _
      (built_regInv E h hPh).tree (accepted_leaf_present E h hPh rh hrh hs) hw

/-- the root: after "/?x" is accepted, "/" is rejected -/
theorem root_after_optional_rejected (E : Engine) (h : List (Route × Nat))
    (hPh : ∀ rh ∈ h, ∀ s ∈ rh.1.segs, ParsedSeg s = true) (rh : Route × Nat) (hrh : rh ∈ accepted E h)
    {s : Segment} (hs : rh.1.segs = [s]) (ho : s.optional = true) (he : s.elems ≠ [])
    (r : Route) (hid : Nat) (o : Bool) (hr : r.segs = [⟨o, []⟩]) :
    ∃ e, addRoute E (build E h) r hid = .error e := by
  have hP : ∀ x ∈ r.segs, ParsedSeg x = true := by
    rw [hr]; intro x hx; rw [List.mem_singleton.mp hx]; rfl
  obtain ⟨l, hl, hk⟩ := accepted_root_present E h hPh rh hrh hs ho he
  exact rejected_of_clause (built_regInv E h hPh) hP (inner := []) (by simpa using hr)
    fun _ hw => (show LeafFree E _ ⟨o, []⟩ from hw).1 l hl hk

/-- … and after "/" is accepted, "/?x" is rejected for every `x` -/
theorem optional_after_root_rejected (E : Engine) (h : List (Route × Nat))
    (hPh : ∀ rh ∈ h, ∀ s ∈ rh.1.segs, ParsedSeg s = true) (rh : Route × Nat) (hrh : rh ∈ accepted E h)
    {o : Bool} (hs : rh.1.segs = [⟨o, []⟩])
    (r : Route) (hid : Nat) (hP : ∀ s ∈ r.segs, ParsedSeg s = true) {s : Segment}
    (hr : r.segs = [s]) (ho : s.optional = true) (he : s.elems ≠ []) :
    ∃ e, addRoute E (build E h) r hid = .error e := by
  obtain ⟨l, hl, hk⟩ := accepted_leaf_present E h hPh rh hrh (inner := []) (by simpa using hs)
  rw [rejected_iff E _ r hid (built_regInv E h hPh) hP,
    validNew_iff_of_snoc (inner := []) (last := s) (by simpa using hr)]
  exact fun ⟨_, _, h3⟩ => h3 rfl ho he l hl hk

/-! ### "never later, during a request" / "accepted and then reachable by its own instances" -/

/-- **nothing fails later**: whatever registrations were attempted before (accepted, rejected,
    any order — `R` is any router value), serving a request is a total function that starts
    exactly one chain (`C07.serve_one_chain`), and the index-level matcher never slices out of
    range on any tree and any byte string (`C07.matchIdx_no_panic`).  All of a registration's
    checks are made by `addRoute`; the matcher has no error outcome a route could trigger. -/
theorem register_error_early (E : Engine) (R : Router) (req : Request) :
    C07.chainsStarted (R.serve E req) = 1 ∧
    (∀ hok t path, Node.matchIdx E hok t path ≠ .error .sliceBounds) :=
  ⟨C07.serve_one_chain E R req, fun hok t path => C07.matchIdx_no_panic E hok t path⟩

/-- **reachable by its own instances subject only to priority**: let `rh` be an accepted
    registration and `f` one of its forms (long, or short for an optional last segment).  Every
    path whose segments `f` consumes (with the header constraints met) has an accepting walk to
    the route's own leaf `l'`; the request IS dispatched; and the winner `l` is the head of the
    priority enumeration `derivs`, in which `l'` occurs — so the handler that runs is the route's
    own unless an accepting walk earlier in priority exists. -/
theorem accepted_reachable (E : Engine) (hok : Nat → Bool) (h : List (Route × Nat))
    (hP : ∀ rh ∈ h, ∀ s ∈ rh.1.segs, ParsedSeg s = true) (rh : Route × Nat) (hrh : rh ∈ accepted E h)
    (f : Form) (hf : f ∈ formsOfRoute E rh.1 rh.2) (path : Bytes) (s : Seg) (rest : List Seg)
    (hs : C01.segsOf path = s :: rest) (ha : f.Admits E hok (C01.segsOf path)) :
    ∃ l', Reach E hok (build E h).subs (build E h).leaves s rest l' ∧ l'.hid = rh.2 ∧ l'.long = f.long ∧
      ∃ l tl, C01.chosen E hok (build E h) path = some l ∧
        derivs E hok (build E h).subs (build E h).leaves s rest = l :: tl ∧ (l' = l ∨ l' ∈ tl) := by
  have hft := (build_forms_parsed E h hP f).mpr ⟨rh, hrh, hf⟩
  rw [hs] at ha
  obtain ⟨l', hreach, hhid, hlong⟩ := form_reach E hok hft ha
  obtain ⟨l, pre, post, hc, hd, hm⟩ := C01.dispatch_least E hok h path s rest hs l' hreach
  exact ⟨l', hreach, hhid.trans (formsOfRoute_hid hf), hlong, l, pre ++ post, hc, hd, hm⟩

/-- the plain reading: an instance of an accepted route is never answered not-found, and the
    route that answers admits the path too -/
theorem accepted_reachable_dispatched (E : Engine) (hok : Nat → Bool) (h : List (Route × Nat))
    (hP : ∀ rh ∈ h, ∀ s ∈ rh.1.segs, ParsedSeg s = true) (rh : Route × Nat) (hrh : rh ∈ accepted E h)
    (f : Form) (hf : f ∈ formsOfRoute E rh.1 rh.2) (path : Bytes)
    (ha : f.Admits E hok (C01.segsOf path)) :
    ∃ l, C01.chosen E hok (build E h) path = some l ∧
      ∃ rh' ∈ accepted E h, ∃ f' ∈ formsOfRoute E rh'.1 rh'.2,
        f'.hid = l.hid ∧ f'.long = l.long ∧ f'.Admits E hok (C01.segsOf path) := by
  have hne := C01.backtracking_complete E hok h hP path rh hrh f hf ha
  cases hc : C01.chosen E hok (build E h) path with
  | none => exact absurd hc hne
  | some l => exact ⟨l, rfl, C01.dispatch_sound E hok h hP path l hc⟩

/-! ### router level: unknown method, text outside the grammar -/

/-- "the HTTP method is unknown" ⇒ rejected, the router unchanged: a method that has no tree
    fails before any tree is touched -/
theorem unknown_method_rejected (E : Engine) (R : Router) (hid : Nat) (r : Route) (m : String)
    (ms : List String) (acc : List (String × Leaf)) (h : assocGet R.trees m = none) :
    R.addMethods E hid r (m :: ms) acc = (R, false) := by
  simp [Router.addMethods, h]

/-- … and the trees of a new router are exactly those of `httpMethods` (router.go's table) -/
theorem unknown_method_has_no_tree (m : String) (h : m ∉ Gen.httpMethods) :
    assocGet Router.new.trees m = none := by
  have gen : ∀ (l : List String), m ∉ l →
      assocGet (l.map fun x => (x, Node.root)) m = none := by
    intro l
    induction l with
    | nil => intro _; rfl
    | cons a l ih =>
      intro hm
      simp only [List.mem_cons, not_or] at hm
      have hne : (a == m) = false := by simpa using Ne.symm hm.1
      have := ih hm.2
      simp only [assocGet, List.map_cons, List.find?_cons, hne] at this ⊢
      exact this
  exact gen _ h

/-- `router.addRoute(method, routePath, handler)` (router.go:190-232) with the method already
    upper-cased: the method table, then the parser, then one `AddRoute` per method -/
def registerText (E : Engine) (R : Router) (hid : Nat) (method : String) (text : Bytes) : Router × Bool :=
  let methods := if method = "*" then Gen.httpMethods
                 else if Gen.httpMethods.contains method then [method] else []
  if methods.isEmpty then (R, false)                       -- panic("unknown HTTP method")
  else match parse text with
    | none => (R, false)                                   -- panic("unable to parse route")
    | some r => R.addMethods E hid r methods []

theorem unknown_method_text_rejected (E : Engine) (R : Router) (hid : Nat) (method : String)
    (text : Bytes) (h1 : method ≠ "*") (h2 : method ∉ Gen.httpMethods) :
    registerText E R hid method text = (R, false) := by
  simp [registerText, h1, h2]

/-- "the route text is outside the grammar" ⇒ rejected, the router unchanged.  Outside the
    grammar = not a rendering (with any spacing after `:` and `,`) of any well-formed tree;
    by C06 `parse_iff` that is exactly `parse text = none`. -/
theorem grammar_rejected (E : Engine) (R : Router) (hid : Nat) (method : String) (text : Bytes)
    (h : ∀ r, RouteGrammar.WF r → ∀ sp, text ≠ RouteGrammar.renderWith sp r) :
    registerText E R hid method text = (R, false) := by
  have hp : parse text = none := by
    cases hr : parse text with
    | none => rfl
    | some r =>
      obtain ⟨hwf, sp, he⟩ := (RouteGrammar.parse_iff text r).mp hr
      exact absurd he (h r hwf sp)
  unfold registerText
  simp only [hp]
  split <;> simp

/-- conversely a text of the grammar reaches the trees with the tree it denotes -/
theorem grammar_accepted_reaches_trees (E : Engine) (R : Router) (hid : Nat) (m : String)
    (hm : m ∈ Gen.httpMethods) (r : Route) (hwf : RouteGrammar.WF r) (sp : RouteGrammar.Spacing) :
    registerText E R hid m (RouteGrammar.renderWith sp r) = R.addMethods E hid r [m] [] := by
  have hp := RouteGrammar.parse_complete sp r hwf
  have h1 : m ≠ "*" := by
    intro e; rw [e] at hm; revert hm; decide
  simp [registerText, h1, hm, hp]

/-! ### a failed registration has no effect -/

/-- `addRoute` is a function into `Except`: on an error there is no new tree, the caller goes on
    with `t` itself (trivial functionally; the Go code removes what it had created) — so the
    rest of any history runs as if the registration had not been attempted -/
theorem failed_register_no_effect (E : Engine) (t : Node) (r : Route) (hid : Nat) (e : RegErr)
    (h : addRoute E t r hid = .error e) (later : List (Route × Nat)) :
    buildFrom E t ((r, hid) :: later) = buildFrom E t later ∧
    acceptedFrom E t ((r, hid) :: later) = acceptedFrom E t later := by
  simp [buildFrom, acceptedFrom, h]

/-- `C01.rejected_registrations_invisible`, restated: the tree after a history is the tree built
    from its accepted registrations alone, so dispatch never sees a rejected one -/
theorem rejected_registrations_invisible (E : Engine) (h : List (Route × Nat)) :
    build E h = build E (accepted E h) :=
  C01.rejected_registrations_invisible E h

/-! ### non-vacuity: one history, accepted and rejected registrations on top of it -/

section Example
/-- an engine for which every expression compiles (no groups), and one for which none does -/
def E₁ : Engine := ⟨fun _ => some 0, fun _ _ => none, fun _ _ => false⟩
def E₀ : Engine := ⟨fun _ => none, fun _ _ => none, fun _ _ => false⟩

def st (x : String) : Segment := ⟨false, [.ident (B x)]⟩                        -- `/x`
def ph (x : String) : Segment := ⟨false, [.bind (B x)]⟩                         -- `/{x}`
def ma (x : String) : Segment := ⟨false, [.params [⟨B x, .lit (B "**")⟩]]⟩      -- `/{x: **}`
def re (x e : String) : Segment := ⟨false, [.params [⟨B x, .re (B e)⟩]]⟩        -- `/{x: /e/}`
def opt (s : Segment) : Segment := ⟨true, s.elems⟩                              -- `/?…`

/-- `none` = accepted -/
def verdict : Except RegErr Node → Option RegErr
  | .ok _ => none
  | .error e => some e

/-- `/a/{x}`, `/f/{p: **}/z`, `/u/?v`, `/{id: /[0-9]+/}` — all accepted -/
def h₁ : List (Route × Nat) :=
  [(⟨[st "a", ph "x"]⟩, 0), (⟨[st "f", ma "p", st "z"]⟩, 1), (⟨[st "u", opt (st "v")]⟩, 2),
   (⟨[re "id" "[0-9]+"]⟩, 3)]

theorem h₁_parsed : ∀ rh ∈ h₁, ∀ s ∈ rh.1.segs, ParsedSeg s = true := by decide
example : (accepted E₁ h₁).map (·.2) = [0, 1, 2, 3] := by decide

/-- accepted: `/a/{x}/c` (goes through two existing nodes), and then `ValidNew` holds -/
example : verdict (addRoute E₁ (build E₁ h₁) ⟨[st "a", ph "x", st "c"]⟩ 9) = none := by decide
example : ValidNew E₁ (build E₁ h₁) ⟨[st "a", ph "x", st "c"]⟩ := by
  refine (register_ok_iff_built E₁ h₁ h₁_parsed _ 9 (by decide)).mp ?_
  cases hr : addRoute E₁ (build E₁ h₁) ⟨[st "a", ph "x", st "c"]⟩ 9 with
  | ok t' => exact ⟨t', rfl⟩
  | error e =>
    have : verdict (addRoute E₁ (build E₁ h₁) ⟨[st "a", ph "x", st "c"]⟩ 9) = none := by decide
    rw [hr] at this; cases this

/-- rejected, one per clause: the same route; the short form `/u` of `/u/?v`; `/u/v` (the mark);
    `/{y}/?q/r`; `/a//b`; `/{x}/b/{x}`; `/{a: **}/m/{b: **}/z`; `/f/{q: **}/z` beside `/f/{p: **}`;
    an expression the engine refuses -/
example : verdict (addRoute E₁ (build E₁ h₁) ⟨[st "a", ph "x"]⟩ 9) = some .dupRoute := by decide
example : verdict (addRoute E₁ (build E₁ h₁) ⟨[st "u"]⟩ 9) = some .dupRoute := by decide
example : verdict (addRoute E₁ (build E₁ h₁) ⟨[st "u", st "v"]⟩ 9) = some .dupRoute := by decide
example : verdict (addRoute E₁ (build E₁ h₁) ⟨[ph "y", opt (st "q"), st "r"]⟩ 9) = some .innerOptional := by decide
example : verdict (addRoute E₁ (build E₁ h₁) ⟨[st "a", ⟨false, []⟩, st "b"]⟩ 9) = some .emptySegment := by decide
example : verdict (addRoute E₁ (build E₁ h₁) ⟨[ph "x", st "b", ph "x"]⟩ 9) = some .dupBind := by decide
example : verdict (addRoute E₁ (build E₁ h₁) ⟨[ma "a", st "m", ma "b", st "z"]⟩ 9) = some .dupMatchAllStyle := by decide
example : verdict (addRoute E₁ (build E₁ h₁) ⟨[st "f", ma "q", st "z"]⟩ 9) = some .dupMatchAllSibling := by decide
example : verdict (addRoute E₀ (build E₁ h₁) ⟨[re "id" "["]⟩ 9) = some .badSubexpr := by decide

/-- the hypotheses of the corollaries are met by these: e.g. `duplicate_short_form_rejected` for
    `/u` after `/u/?v`, `two_matchall_rejected`, `bad_expression_rejected` -/
example : ∃ e, addRoute E₁ (build E₁ h₁) ⟨[st "u"]⟩ 9 = .error e :=
  duplicate_short_form_rejected E₁ h₁ h₁_parsed (⟨[st "u", opt (st "v")]⟩, 2) (by decide)
    (init := []) (prev := st "u") (last := opt (st "v")) rfl rfl ⟨[st "u"]⟩ 9 (by decide) rfl rfl
example : ∃ e, addRoute E₁ (build E₁ h₁) ⟨[ma "a", st "m", ma "b", st "z"]⟩ 9 = .error e :=
  two_matchall_rejected (built_regInv E₁ h₁ h₁_parsed) (by decide) (pre := []) (s₁ := ma "a")
    (post := [st "m", ma "b"]) (last := st "z") (s₂ := ma "b") rfl (by decide) (by decide) (by decide)
example : ∃ e, addRoute E₀ (build E₀ []) ⟨[re "id" "["]⟩ 9 = .error e :=
  bad_expression_rejected (built_regInv E₀ [] (by decide)) (by decide) (s := re "id" "[")
    (by decide) (ps := [⟨B "id", .re (B "[")⟩]) (q := ⟨B "id", .re (B "[")⟩) (e := B "[")
    (by decide) (by decide) rfl rfl (by decide)

/-- router level: an unknown method; a text outside the grammar (`/{a: /x=y/}`, C06 `f12_equals_rejected`) -/
example : (Router.new.addMethods E₁ 0 ⟨[st "a"]⟩ ["BREW"] []).2 = false := by
  rw [unknown_method_rejected E₁ _ 0 _ "BREW" [] [] (unknown_method_has_no_tree "BREW" (by decide))]
example : registerText E₁ Router.new 0 "GET" [47, 123, 97, 58, 32, 47, 120, 61, 121, 47, 125] = (Router.new, false) :=
  grammar_rejected E₁ _ 0 "GET" _ fun r hwf sp he => by
    have := (RouteGrammar.parse_iff _ r).mpr ⟨hwf, sp, he⟩
    rw [RouteGrammar.f12_equals_rejected] at this; cases this

/-- reachability: `/u` is an instance of the short form of the accepted `/u/?v`, so it is dispatched -/
example : ∃ l, C01.chosen E₁ (fun _ => true) (build E₁ h₁) (B "/u") = some l ∧ l.hid = 2 ∧ l.long = false := by
  have hs : C01.segsOf (B "/u") = [B "u"] := by decide
  obtain ⟨l', hreach, h1, h2, l, tl, hc, hd, hm⟩ := accepted_reachable E₁ (fun _ => true) h₁ h₁_parsed
    (⟨[st "u", opt (st "v")]⟩, 2) (by decide) ⟨[.static (B "u")], 2, false⟩ (by decide) (B "/u")
    (B "u") [] hs (by rw [hs]; exact ⟨Consumes.lastOne _ _ rfl (by decide), rfl⟩)
  refine ⟨l, hc, ?_⟩
  rw [derivs] at hd
  have hall : ∀ x ∈ leafDerivs E₁ (fun _ => true) (build E₁ h₁).leaves (B "u"),
      x.hid = 2 ∧ x.long = false := by decide
  exact hall l (by rw [hd]; exact List.mem_cons_self ..)
end Example

end Flamego.C08
