/-
  Props/C07.lean — Serving is total: any request runs exactly one chain, never a routing panic.

  Two readings of the matcher exist: `Model/Tree` (segments; cannot express an index error) and
  `Model/TreeIdx` (Go's string indexes `path`, `next`; every slice expression can panic).  The
  theorems here say the second never panics and equals the first (lemmas: Proofs/TreeIdx.lean).
-/
import Flamego.Proofs.Assoc
import Flamego.Proofs.TreeIdx

namespace Flamego.C07

/-- number of handler chains a request starts: the chosen route's or the not-found chain -/
def chainsStarted : Outcome → Nat
  | .handler _ _ => 1
  | .notFound => 1

/-- "runs exactly one handler chain: that of the single chosen route, or the not-found chain"
    — `serve` is a total function into `Outcome`, and every outcome starts exactly one chain. -/
theorem serve_one_chain (E : Engine) (R : Router) (req : Request) :
    chainsStarted (R.serve E req) = 1 := by
  cases R.serve E req <;> rfl

/-- "the method is unknown" ⇒ the not-found chain: a method without a tree and without fast-path
    entries is answered not-found whatever the path and headers. -/
theorem unknown_method_not_found (E : Engine) (R : Router) (req : Request)
    (h1 : assocGet R.trees req.method = none)
    (h2 : ∀ p, assocGet R.statics (req.method, p) = none) :
    ∃ o, R.serve E req = o ∧ (match o with | .notFound => True | _ => False) := by
  refine ⟨_, rfl, ?_⟩
  simp [Router.serve, Router.serveTreeOnly, h1, h2]

/-! ### "any byte string as path … serving returns without the framework panicking" -/

/-- The index-level `Tree.Match` (tree.go written over `path`, `next` with `path[next:]`,
    `path[next:next+i]`, `path[next-1:]`) never takes a slice out of range: for every byte string
    as path (empty, repeated or trailing slashes, non-UTF-8, any length), every tree (no invariant
    on the tree needed), every regex engine and header verdict. -/
theorem matchIdx_no_panic (E : Engine) (hok : Nat → Bool) (t : Node) (path : Bytes) :
    Node.matchIdx E hok t path ≠ .error .sliceBounds := by
  rw [Node.matchIdx_eq]; intro h; cases h

/-- The index-level matcher computes exactly what the segment-level matcher computes (so whatever
    is proved of `Node.match` — C01 C02 C08 C09 C10 — holds of the algorithm as written over string
    indexes). -/
theorem matchIdx_refines (E : Engine) (hok : Nat → Bool) (t : Node) (path : Bytes) :
    Node.matchIdx E hok t path = .ok (t.match E hok path) :=
  Node.matchIdx_eq E hok t path

/-- The invariant behind `matchIdx_no_panic`, proved directly on the index-level functions (by
    induction over their own call structure, without the segment model): started from a cursor
    with `next ≤ len(path)`, `matchNextSegment` does not panic; started from a cursor with
    `1 ≤ next ≤ len(path)` and `path[next-1] = '/'`, `matchSubtree` (which may evaluate
    `path[next-1:]` in `matchAllLeaf.matchAll`) and `matchAllTree.matchAll` do not panic; and the
    cursor every call passes on satisfies the callee's precondition (that is how the induction
    hypotheses are obtained, see `matchIdx_safe_all`). -/
theorem matchIdx_cursor_invariant (E : Engine) (hok : Nat → Bool) (path : Bytes) :
    (∀ subs leaves next ps, next ≤ path.length →
      ∀ e, matchNextIdx E hok subs leaves path next ps ≠ .error e) ∧
    (∀ subs leaves segment next ps, 1 ≤ next → next ≤ path.length → path[next - 1]? = some slash →
      ∀ e, matchSubsIdx E hok subs leaves path segment next ps ≠ .error e) ∧
    (∀ csubs cleaves b cap captured segment next ps,
      1 ≤ next → next ≤ path.length → path[next - 1]? = some slash →
      ∀ e, matchAllLoopIdx E hok csubs cleaves b cap captured path segment next ps ≠ .error e) ∧
    (∀ leaves segment next ps, 1 ≤ next → next ≤ path.length → path[next - 1]? = some slash →
      ∀ e, matchAllLeafIdx hok leaves path segment next ps ≠ .error e) := by
  obtain ⟨h1, h2, h3⟩ := matchIdx_safe_all E hok path
  refine ⟨fun subs leaves next ps hn => h1 subs leaves next ps hn,
    fun subs leaves segment next ps a b c => h2 subs leaves segment next ps (CursorS.of_byte a b c),
    fun csubs cleaves b cap captured segment next ps a b' c =>
      h3 csubs cleaves b cap captured segment next ps (CursorS.of_byte a b' c),
    fun leaves segment next ps a b c =>
      matchAllLeafIdx_safe hok leaves path segment next ps (CursorS.of_byte a b c)⟩

/-- The same for a whole request: `ServeHTTP` with the tree searched at the index level returns
    (no panic) the outcome of the segment-level `serve`, for any method token, path and headers. -/
theorem serveIdx_no_panic (E : Engine) (R : Router) (req : Request) :
    R.serveIdx E req = .ok (R.serve E req) :=
  Router.serveIdx_eq E R req

/-! ### "the outcome is a function of the registered routes and the request alone" -/

/-- Repeating a request: two evaluations with equal router state and equal request give equal
    outcomes.  (Trivial — `serve` is a function; kept because the property states it.) -/
theorem serve_deterministic (E : Engine) (R1 R2 : Router) (q1 q2 : Request)
    (hR : R1 = R2) (hq : q1 = q2) : R1.serve E q1 = R2.serve E q2 := by
  rw [hR, hq]

/-- Frame: the outcome depends on the router only through the route trees, the fast-path table and
    the header constraints — not on the name table or the registration handles. -/
theorem serve_frame (E : Engine) (R R' : Router) (req : Request)
    (ht : R.trees = R'.trees) (hs : R.statics = R'.statics) (hh : R.hdrs = R'.hdrs) :
    R.serve E req = R'.serve E req := by
  have hhok : R.hok E req.hdrs = R'.hok E req.hdrs := by
    funext hid; simp only [Router.hok, hh]
  simp only [Router.serve, Router.serveTreeOnly, ht, hs, hhok]

/-- in particular `Name(...)` and anything else that only touches `named` / `handles` -/
theorem serve_frame_named_handles (E : Engine) (R : Router) (req : Request)
    (named : List (Bytes × Route)) (handles : List (Nat × List (String × Leaf))) :
    ({ R with named := named, handles := handles }).serve E req = R.serve E req :=
  serve_frame E _ R req rfl rfl rfl

/-! ### non-vacuity: the index-level model *can* panic where the invariant fails, and matches a
    real multi-segment path through every slicing line where it holds -/

/-- `path[next:]` with `next > len(path)` is a panic in the model -/
example (E : Engine) (hok : Nat → Bool) :
    matchNextIdx E hok [] [] [97] 2 [] = .error .sliceBounds := by
  rw [matchNextIdx]; rfl

/-- `path[next-1:]` with `next = 0` (Go: `path[-1:]`) is a panic in the model -/
example (hok : Nat → Bool) (r : Route) :
    matchAllLeafIdx hok [⟨[], .all [120] 2, 0, r, true, false⟩] [97] [97] 0 [] = .error .sliceBounds := by
  rfl

/-- the tree of `/a/{x: **, capture: 2}`-like shape (a static subtree `a` without children and a
    match-all leaf on the root) on the path `//a/b`: TrimLeft, `Index`, both slices, the fall-back
    with `path[next-1:]` and `Count` all run, and `x = "a/b"` is captured -/
example (E : Engine) (r : Route) :
    Node.matchIdx E (fun _ => true)
      (.mk [] (.static []) [.mk [47, 97] (.static [97]) [] []] [⟨[], .all [120] 2, 7, r, true, false⟩])
      [47, 47, 97, 47, 98]
    = .ok (some (⟨[], .all [120] 2, 7, r, true, false⟩, [([120], [97, 47, 98])])) := by
  simp [Node.matchIdx, trimLeftSlash, slash, Node.subs, Node.leaves, matchNextIdx, matchSubsIdx,
    matchAllLeafIdx, matchLeavesIdx, matchLeaves, treeMatch, sliceFrom, slice, sliceFromPred,
    indexSlash, countSlash, Params.set, pathUnescapeOrRaw, pathUnescape, pct]

end Flamego.C07
