/-
  Props/C07.lean — Serving is total: any request runs exactly one chain, never a routing panic.
  (the index-level no-panic theorems are added as the proof development proceeds; DESIGN.md §5/C07)
-/
import Flamego.Proofs.Assoc

namespace Flamego.C07

/-- number of handler chains a request starts: the chosen route's or the not-found chain -/
def chainsStarted : Outcome → Nat
  | .handler _ _ => 1
  | .notFound => 1

/-- "runs exactly one handler chain: that of the single chosen route, or the not-found chain"
    — `serve` is a total function into `Outcome`, and every outcome starts exactly one chain. -/
theorem serve_one_chain (E : Engine) (R : Router) (req : Request) :
    chainsStarted (R.serve E req) = 1 := by
  cases R.serve E req <;> rfl

/-- "the method is unknown" ⇒ the not-found chain: a method without a tree and without fast-path
    entries is answered not-found whatever the path and headers. -/
theorem unknown_method_not_found (E : Engine) (R : Router) (req : Request)
    (h1 : assocGet R.trees req.method = none)
    (h2 : ∀ p, assocGet R.statics (req.method, p) = none) :
    ∃ o, R.serve E req = o ∧ (match o with | .notFound => True | _ => False) := by
  refine ⟨_, rfl, ?_⟩
  simp [Router.serve, Router.serveTreeOnly, h1, h2]

end Flamego.C07
