/-
  Props/C13Nest.lean — property C13 for a STACK of response writers: a flamego writer whose underlying
  `http.ResponseWriter` is another flamego writer (an application mounted inside a handler, a sub-request
  served with the caller's `c.ResponseWriter()`), operations arriving at either level in any order.

  `NewResponseWriter` always wraps, so each level is a writer of its own; `stack_projects` says that after
  EVERY session on the stack each level is in the state an ordinary writer reaches on an operation sequence
  of its own (the inner one on the caller's operations, the outer one on what the inner one forwards plus
  what the caller does to it directly).  Every clause of C13 then holds at both levels: the corollaries
  below restate the ones a client and a handler rely on.
-/
import Flamego.Props.C13
import Flamego.Proofs.WriterNest
namespace Flamego.Writer

def ValidSession (ops : List (Bool × Op)) : Prop := ∀ lv ∈ ops, lv.2.valid

theorem projOps_valid (n : Nest) (ops : List (Bool × Op)) (hv : ValidSession ops) :
    ValidOps (projOps n ops).1 ∧ ValidOps (projOps n ops).2 := by
  induction ops generalizing n with
  | nil => exact ⟨fun _ h => by simp [projOps] at h, fun _ h => by simp [projOps] at h⟩
  | cons x xs ih =>
    obtain ⟨lv, op⟩ := x
    have hop : op.valid := hv (lv, op) (by simp)
    have hxs : ValidSession xs := fun y hy => hv y (by simp [hy])
    cases lv with
    | true =>
      have := ih (n.stepInner op) hxs
      refine ⟨?_, ?_⟩
      · intro q hq
        simp only [projOps, List.mem_append] at hq
        rcases hq with hq | hq
        · exact forwarded_valid n.i op hop q hq
        · exact this.1 q hq
      · intro q hq
        simp only [projOps, List.mem_cons] at hq
        rcases hq with rfl | hq
        · exact innerOp_valid n.o op hop
        · exact this.2 q hq
    | false =>
      have := ih (n.stepOuter op) hxs
      refine ⟨?_, this.2⟩
      intro q hq
      simp only [projOps, List.mem_cons] at hq
      rcases hq with rfl | hq
      · exact hop
      · exact this.1 q hq

/-- **every level of a stack is an ordinary writer.**  For every session (operations on the inner and on the
    outer writer, in any order) there are two operation sequences — valid whenever the session's are — such
    that the outer writer is in the state `run` reaches on the first and the inner writer in the state `run`
    reaches on the second. -/
theorem stack_projects (oh ih : Bool) (ops : List (Bool × Op)) (hv : ValidSession ops) :
    ∃ oops iops, ValidOps oops ∧ ValidOps iops ∧
      (Nest.run oh ih ops).o = run oh oops ∧ (Nest.run oh ih ops).i = run ih iops := by
  have h := foldl_proj (Nest.init oh ih) ops
  have hv' := projOps_valid (Nest.init oh ih) ops hv
  exact ⟨_, _, hv'.1, hv'.2, by rw [run_eq_runFrom]; exact h.1, by rw [run_eq_runFrom]; exact h.2⟩

/-- (1a) the CLIENT's writer receives at most one status line, whatever arrives at whichever level -/
theorem stack_client_one_status (oh ih : Bool) (ops : List (Bool × Op)) (hv : ValidSession ops) :
    ((Nest.run oh ih ops).o.under.filter UEv.isHdr).length ≤ 1 := by
  obtain ⟨oops, _, hvo, _, ho, _⟩ := stack_projects oh ih ops hv
  rw [ho]; exact at_most_one_status oh oops hvo

/-- (1b) … and receives it before any body byte or flush -/
theorem stack_client_status_first (oh ih : Bool) (ops : List (Bool × Op)) (hv : ValidSession ops)
    (a : List UEv) (e : UEv) (b : List UEv) (hu : (Nest.run oh ih ops).o.under = a ++ e :: b)
    (he : e.isBody = true ∨ e = UEv.flush) : ∃ x ∈ a, x.isHdr = true := by
  obtain ⟨oops, _, hvo, _, ho, _⟩ := stack_projects oh ih ops hv
  rw [ho] at hu; exact status_before_body oh oops hvo a e b hu he

/-- (2) both levels report truthfully: `Status()` is the first status that level sent (0 before), `Written()`
    is true exactly from then on, `Size()` is the body bytes that level's underlying writer accepted -/
theorem stack_levels_truthful (oh ih : Bool) (ops : List (Bool × Op)) (hv : ValidSession ops) :
    let n := Nest.run oh ih ops
    n.o.status = (firstHdr n.o.under).getD 0 ∧ n.i.status = (firstHdr n.i.under).getD 0 ∧
    (n.o.written = true ↔ ∃ e ∈ n.o.under, e.isHdr = true) ∧ (n.i.written = true ↔ ∃ e ∈ n.i.under, e.isHdr = true) ∧
    n.o.size = bodySum n.o.under ∧ n.i.size = bodySum n.i.under := by
  obtain ⟨oops, iops, hvo, hvi, ho, hi⟩ := stack_projects oh ih ops hv
  simp only
  rw [ho, hi]
  exact ⟨status_truthful oh oops hvo, status_truthful ih iops hvi, written_iff oh oops hvo, written_iff ih iops hvi,
    size_truthful oh oops hvo, size_truthful ih iops hvi⟩

/-- (4) a HEAD writer forwards no body bytes at its own level: an inner HEAD writer passes none to the outer
    writer, an outer HEAD writer passes none to the client — whatever the other level's method is -/
theorem stack_head_no_body (x : Bool) (ops : List (Bool × Op)) (hv : ValidSession ops) :
    (∀ e ∈ (Nest.run x true ops).i.under, e.isBody = false) ∧ (∀ e ∈ (Nest.run true x ops).o.under, e.isBody = false) := by
  obtain ⟨_, iops, _, hvi, _, hi⟩ := stack_projects x true ops hv
  obtain ⟨oops, _, hvo, _, ho, _⟩ := stack_projects true x ops hv
  rw [hi, ho]
  exact ⟨head_no_body iops hvi, head_no_body oops hvo⟩

/-- a fresh inner writer starts unwritten whatever the outer one has already sent: `NewResponseWriter` wraps,
    it never adopts the state of the writer it is given -/
theorem stack_inner_starts_fresh (oh ih : Bool) (ops : List (Bool × Op)) (ho : ∀ lv ∈ ops, lv.1 = false) :
    (Nest.run oh ih ops).i = Writer.init ih := by
  unfold Nest.run
  generalize hn : Nest.init oh ih = n
  have hi : n.i = Writer.init ih := by rw [← hn]; rfl
  clear hn
  induction ops generalizing n with
  | nil => exact hi
  | cons x xs ih' =>
    have hx : x.1 = false := ho x (by simp)
    simp only [List.foldl_cons, Nest.step, hx, Bool.false_eq_true, if_false]
    exact ih' (fun y hy => ho y (by simp [hy])) _ (by simpa [Nest.stepOuter, viaOuter_i] using hi)

/-! ### non-vacuity: a GET handler serves a HEAD sub-request with its own writer, after having written itself -/

example :
    let ops : List (Bool × Op) :=
      [(false, .before 1), (true, .before 7), (true, .write 5 5), (false, .write 3 2), (true, .writeHeader 404), (true, .size)]
    ValidSession ops ∧
    (Nest.run false false ops).log = [.ihook 7, .client (.hook 1), .client (.hdr 200), .client (.body 5), .client (.body 2)] ∧
    (Nest.run false false ops).i.size = 5 ∧ (Nest.run false false ops).o.size = 7 ∧
    (Nest.run false true ops).log = [.ihook 7, .client (.hook 1), .client (.hdr 200), .client (.body 2)] ∧
    (Nest.run true false ops).i.size = 0 ∧ (Nest.run true false ops).o.under = [.hook 1, .hdr 200] := by
  refine ⟨?_, by decide, by decide, by decide, by decide, by decide, by decide⟩
  intro lv h
  simp at h
  rcases h with rfl | rfl | rfl | rfl | rfl | rfl <;> simp [Op.valid]

end Flamego.Writer
