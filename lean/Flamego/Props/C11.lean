/-
  Props/C11.lean — Group/Combo/Routes/Any/AutoHead equal their flat expansion.

  Quantifier: every registration program (`Prog`: arbitrarily nested `group`s with group
  handlers, `combo`, `routes` with a comma list and/or several method strings, `any`, the nine
  verb shortcuts, `route`, `autoHead`, panics raised inside group bodies and recovered by the
  caller), every answer `acc` of the route-tree layer to "is this single registration accepted
  after those already made?" (parse errors, duplicates … — property C08's business), every
  router state where a statement is stated for one statement.

  `interp` runs the program on the router state exactly as router.go does (the `groups` stack,
  the `autoHead` flag, Combo's `added` set); `flat` reads the same program as a flat sequence of
  single-method registrations `Route(method, concatenated path, concatenated handlers)` with the
  group prefix handed down as an environment.  A result is the list of single-method
  registrations IN ORDER, the final flag, the recovered panics and the panic the program ended
  with.

  "Same chosen route, same handler order and same parameters for every request": dispatch, the
  handler chain and the bind parameters are functions of the registration list alone (the
  per-method route trees are built from it by `route.AddRoute`, in this order — properties
  C01/C02/C03 are stated over that list), so equal registration lists give equal behaviour for
  every request.  This file proves the equality of the lists; the harness additionally serves
  requests on a real router built from the program and on one built from the flat list.

  Modelled behaviour is the REPAIRED code (findings F9, F13, F16, see Model/Dsl.lean).
-/
import Flamego.Proofs.Dsl
namespace Flamego.Dsl

/-! ### the property -/

/-- C11, main clause: "Routes declared through arbitrarily nested Group (with group handlers),
    Combo, Routes, Any and AutoHead behave exactly like the flat list of single-method
    registrations with the concatenated path and concatenated handler list" — the same
    registrations in the same order, the same final flag, the same recovered panics and the same
    final panic; when a panic stops the program the registrations made before it are the same. -/
theorem interp_eq_flat (acc : Acc) (p : Prog) : interp acc p = flat acc p := by
  simp only [interp, flat]
  rw [execList_eq]
  rfl

/-- the `Except` reading of the same fact -/
theorem interpE_eq_flat (acc : Acc) (p : Prog) :
    interpE acc p = (match (flat acc p).err with | none => .ok (flat acc p).regs | some e => .error e) := by
  unfold interpE
  rw [interp_eq_flat]
  cases (flat acc p).err <;> rfl

/-- no statement, panicking or not, leaves the group stack changed -/
theorem exec_keeps_groups (acc : Acc) (s : Stmt) (st : St) : (exec acc s st).1.groups = st.groups := by
  rw [exec_eq]; rfl

/-- C11: "Leaving a group restores the enclosing scope" — after a group statement the stack is
    what it was, whether the body ran to its end or panicked (the pop is deferred) … -/
theorem group_restores_scope (acc : Acc) (path : Bytes) (hs : List Nat) (body : List Stmt) (st : St) :
    (exec acc (.group path hs body) st).1.groups = st.groups :=
  exec_keeps_groups acc _ st

/-- … in particular after a group whose body panicked and whose caller recovered … -/
theorem group_restores_scope_after_panic (acc : Acc) (path : Bytes) (hs : List Nat) (body : List Stmt) (st : St) :
    (exec acc (Stmt.panicInGroup path hs body) st).1.groups = st.groups ∧
    (exec acc (Stmt.panicInGroup path hs body) st).2 = none := by
  refine ⟨exec_keeps_groups acc _ st, ?_⟩
  simp only [Stmt.panicInGroup, exec]
  split <;> rfl

/-- … so what follows a group is registered in the enclosing scope: the statements after a
    group (panicking and recovered, or not) see the stack the group statement saw. -/
theorem after_group_same_scope (acc : Acc) (s : Stmt) (rest : List Stmt) (st : St)
    (hok : (exec acc s st).2 = none) :
    execList acc (s :: rest) st = execList acc rest (exec acc s st).1 ∧
    (exec acc s st).1.groups = st.groups := by
  refine ⟨?_, exec_keeps_groups acc s st⟩
  simp only [execList]
  generalize exec acc s st = o at hok
  obtain ⟨s1, e⟩ := o
  simp only at hok; subst hok; rfl

/-- the replay of finding F13 as a theorem about the repaired behaviour: a group whose body
    panics at once and is recovered leaves the router as it was (only the caller's `recover()`
    saw something), so by `after_group_same_scope` a route declared next is NOT prefixed by it -/
theorem recovered_panicking_group_is_noop (acc : Acc) (g : Bytes) (gh : List Nat) (st : St) :
    exec acc (Stmt.panicInGroup g gh []) st = ({ st with caught := st.caught ++ [.user] }, none) := by
  simp [Stmt.panicInGroup, exec, execList]

/-- C11: "AutoHead affects only GET routes registered while it is on" — `Get` while the flag is
    on is `Route("GET")` followed by `Route("HEAD")` with the same path and handlers; while it is
    off it is `Route("GET")` alone; every other verb is `Route(<its method>)` whatever the flag. -/
theorem autohead_only_get_while_on (acc : Acc) (v : Verb) (p : Bytes) (hs : List Nat) (st : St) :
    (v = .get → st.autoHead = true →
        exec acc (.verb v p hs) st = execList acc [.route (B "GET") p hs, .route (B "HEAD") p hs] st) ∧
    (v = .get → st.autoHead = false →
        exec acc (.verb v p hs) st = exec acc (.route (B "GET") p hs) st) ∧
    (v ≠ .get → exec acc (.verb v p hs) st = exec acc (.route v.method p hs) st) := by
  refine ⟨?_, ?_, ?_⟩
  · rintro rfl ha
    have hk : ∀ st1, (exec acc (.route (B "GET") p hs) st = (st1, none)) → st1.autoHead = true := by
      intro st1 h
      have := congrArg (fun o => o.1.flat.autoHead) h
      simp only [exec, routeCall_eq, lift_flat, flatRoute_autoHead] at this
      exact (this.symm : st1.autoHead = st.autoHead).trans ha
    simp only [exec, execList, verbCall]
    have hm : Verb.get.method = B "GET" := rfl
    rw [hm]
    generalize hr : routeCall acc (B "GET") p hs st = o
    obtain ⟨st1, e⟩ := o
    cases e with
    | some e => rfl
    | none =>
      have h1 := hk st1 (by simpa [exec] using hr)
      simp only [h1, and_self, if_true]
      generalize routeCall acc (B "HEAD") p hs st1 = o2
      obtain ⟨st2, e2⟩ := o2
      cases e2 <;> rfl
  · rintro rfl ha
    have hk : ∀ st1, (exec acc (.route (B "GET") p hs) st = (st1, none)) → st1.autoHead = false := by
      intro st1 h
      have := congrArg (fun o => o.1.flat.autoHead) h
      simp only [exec, routeCall_eq, lift_flat, flatRoute_autoHead] at this
      exact (this.symm : st1.autoHead = st.autoHead).trans ha
    simp only [exec, verbCall]
    have hm : Verb.get.method = B "GET" := rfl
    rw [hm]
    generalize hr : routeCall acc (B "GET") p hs st = o
    obtain ⟨st1, e⟩ := o
    cases e with
    | some e => rfl
    | none =>
      have h1 := hk st1 (by simpa [exec] using hr)
      simp [h1]
  · intro hv
    simp only [exec, verbCall, hv, false_and, if_false]
    generalize routeCall acc v.method p hs st = o
    obtain ⟨st1, e⟩ := o
    cases e <;> rfl

/-- … `Route`, `Any` and `Routes` (also `Routes(…, "GET")` and `Route("GET", …)`) never look at
    the flag: with the flag set either way they do the same and leave it as it was … -/
theorem autohead_not_for_route_any_routes (acc : Acc) (s : Stmt) (st : St) (b : Bool)
    (hs : (∃ m p h, s = .route m p h) ∨ (∃ p h, s = .any p h) ∨ (∃ p ms args, s = .routes p ms args)) :
    exec acc s { st with autoHead := b }
      = ({ (exec acc s st).1 with autoHead := b }, (exec acc s st).2) := by
  rcases hs with ⟨m, p, h, rfl⟩ | ⟨p, h, rfl⟩ | ⟨p, ms, args, rfl⟩
  · simp only [exec]; exact routeCall_setAH acc m p h st b
  · simp only [exec]; exact routeCall_setAH acc _ p h st b
  · simp only [exec]; exact routesCall_setAH acc p ms args st b

/-- … and `AutoHead(b)` itself touches nothing but the flag ("existing routes remain unchanged") -/
theorem autohead_keeps_existing (acc : Acc) (b : Bool) (st : St) :
    exec acc (.autoHead b) st = ({ st with autoHead := b }, none) := rfl

/-! `Combo` -/

/-- C11: "Combo refuses the same method twice" — at the first chained call whose verb was
    already used the Combo panics: what ran before it is exactly the Combo of the earlier calls,
    nothing of the repeated call or of anything after it is registered. -/
theorem combo_refuses_repeat (acc : Acc) (p : Bytes) (common : List Nat)
    (pre post : List (Verb × List Nat)) (v : Verb) (hs : List Nat) (st : St)
    (hnd : (pre.map Prod.fst).Nodup) (hv : v ∈ pre.map Prod.fst) :
    exec acc (.combo p common (pre ++ (v, hs) :: post)) st =
      match exec acc (.combo p common pre) st with
      | (s1, some e) => (s1, some e)
      | (s1, none) => (s1, some .comboDup) := by
  simp only [exec]
  rw [comboCalls_append acc p common pre _ [] st hnd (by simp)]
  generalize comboCalls acc p common pre [] st = o
  obtain ⟨s1, e⟩ := o
  cases e with
  | some e => rfl
  | none => simp [comboCalls, hv]

/-- … hence a Combo that names a verb twice always ends in a panic -/
theorem combo_repeat_panics (acc : Acc) (p : Bytes) (common : List Nat)
    (pre post : List (Verb × List Nat)) (v : Verb) (hs : List Nat) (st : St)
    (hnd : (pre.map Prod.fst).Nodup) (hv : v ∈ pre.map Prod.fst) :
    (exec acc (.combo p common (pre ++ (v, hs) :: post)) st).2 ≠ none := by
  rw [combo_refuses_repeat acc p common pre post v hs st hnd hv]
  generalize exec acc (.combo p common pre) st = o
  obtain ⟨s1, e⟩ := o
  cases e <;> simp

/-! handler and path order -/

/-- C11: "(outer group handlers first, then inner, then the route's own)" and "the concatenated
    path" — a call nested in groups g₁ … gₙ (outermost first) is the same call, made outside any
    group, with path g₁.path ++ … ++ gₙ.path ++ its own path and handler list
    g₁.handlers ++ … ++ gₙ.handlers ++ its own handlers (for a Combo: ++ its common handlers ++
    each method's own). -/
theorem handlers_outer_first (acc : Acc) (gs : List Group) (s : Stmt) (hc : s.isCall = true) :
    interp acc [nest gs s]
      = interp acc [s.inEnv ⟨(gs.map Group.path).flatten, (gs.map Group.handlers).flatten⟩] := by
  simp only [interp_eq_flat, flat, flatList]
  rw [flatStmt_nest, flatStmt_inEnv acc _ s hc]
  simp [envOf, groupPrefix_eq]

/-- every registration made inside a group — however deep, through Combo/Routes/Any/verbs —
    starts with the enclosing groups' paths then this group's path, and its handler list
    starts with the enclosing groups' handlers (outermost first) then this group's -/
theorem group_regs_prefixed (acc : Acc) (path : Bytes) (hs : List Nat) (body : List Stmt) (st : St) :
    ∃ new, (exec acc (.group path hs body) st).1.regs = st.regs ++ new ∧
      ∀ r ∈ new, ((st.groups.map Group.path).flatten ++ path) <+: r.path ∧
                 ((st.groups.map Group.handlers).flatten ++ hs) <+: r.handlers := by
  rw [exec_eq]
  obtain ⟨new, h1, h2⟩ := flatStmt_prefixed acc (envOf st.groups) (.group path hs body) st.flat
  refine ⟨new, h1, fun r hr => ?_⟩
  -- the group statement's own environment is pushed inside `flatStmt`
  simp only [flatStmt] at h1
  obtain ⟨n2, h3, h4⟩ := flatList_prefixed acc ⟨(envOf st.groups).pfx ++ path, (envOf st.groups).hpfx ++ hs⟩ body st.flat
  have : new = n2 := by
    have := h1.symm.trans h3
    exact List.append_cancel_left this
  subst this
  have := h4 r hr
  simpa [envOf, groupPrefix_eq] using this

/-! ### facts regenerated from the source -/

/-- the method list of router.go is the documented one, in this order (`Any` = "*" expands to it) -/
theorem httpMethods_documented :
    Gen.httpMethods = ["GET", "POST", "PUT", "DELETE", "PATCH", "OPTIONS", "HEAD", "CONNECT", "TRACE"] := rfl

/-- every verb shortcut names one of those methods, so `Get` … `Trace` never panic on the method -/
theorem verb_methods_known (v : Verb) : methodsOf v.method = [v.method] := by
  cases v <;> decide

/-- `Any` registers the nine methods, in the order of `httpMethods`, when all are accepted -/
theorem any_registers_all_nine (p : Bytes) (hs : List Nat) :
    (interp (fun _ _ => true) [.any p hs]).regs = httpMethods.map fun m => ⟨m, p, hs⟩ := by
  have h : methodsOf anyArg = httpMethods := by decide
  simp only [interp, execList, exec, routeCall, addRoute, h, groupPrefix, List.foldl_nil, List.nil_append]
  rfl

/-! ### non-vacuity: a program with nested groups, a Combo, AutoHead, Routes with a method
    string among the handlers, a recovered panic, a refused duplicate and a repeated Combo verb -/

/-- a tree layer that refuses a second registration of the same (method, path) -/
def accNoDup : Acc := fun regs r => !(regs.any fun r' => r'.method = r.method ∧ r'.path = r.path)

def demo : Prog := [
  .autoHead true,
  .group (B "/g") [1] [
    .group (B "/{x}") [2] [
      .verb .get (B "/a") [3],
      .combo (B "/c") [4] [(.post, [5]), (.put, [6])] ],
    .panicInGroup (B "/bad") [7] [ .verb .post (B "/p") [8] ],
    .autoHead false,
    .routes (B "/r") (B "get, post") [.str (B "PUT"), .fn 9],
    .recover [.combo (B "/d") [] [(.get, [11]), (.get, [12])]],
    .recover [.verb .head (B "/{x}/a") [13]] ],
  .verb .get (B "/after") [10] ]

example : interp accNoDup demo =
    { regs := [⟨B "GET", B "/g/{x}/a", [1, 2, 3]⟩, ⟨B "HEAD", B "/g/{x}/a", [1, 2, 3]⟩,
               ⟨B "POST", B "/g/{x}/c", [1, 2, 4, 5]⟩, ⟨B "PUT", B "/g/{x}/c", [1, 2, 4, 6]⟩,
               ⟨B "POST", B "/g/bad/p", [1, 7, 8]⟩,
               ⟨B "GET", B "/g/r", [1, 9]⟩, ⟨B "POST", B "/g/r", [1, 9]⟩, ⟨B "PUT", B "/g/r", [1, 9]⟩,
               ⟨B "GET", B "/g/d", [1, 11]⟩,
               ⟨B "GET", B "/after", [10]⟩],
      autoHead := false,
      caught := [.user, .comboDup, .rejected],
      err := none } := by decide +kernel

example : flat accNoDup demo = interp accNoDup demo := by decide +kernel

/-- the hypotheses of `combo_refuses_repeat` and `handlers_outer_first` are satisfiable -/
example : ([(Verb.get, [11])].map Prod.fst).Nodup ∧ Verb.get ∈ [(Verb.get, [11])].map Prod.fst := by decide +kernel
example : (Stmt.combo (B "/c") [4] [(.post, [5])]).isCall = true := rfl
example : interp accNoDup [nest [⟨B "/g", [1]⟩, ⟨B "/{x}", [2]⟩] (.verb .get (B "/a") [3])]
    = interp accNoDup [.verb .get (B "/g/{x}/a") [1, 2, 3]] := by decide +kernel

end Flamego.Dsl
