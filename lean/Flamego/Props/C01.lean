/-
  Props/C01.lean — Dispatch: a route is chosen iff one admits the path, by the documented priority.
  (theorems are added below as the proof development proceeds; see DESIGN.md §5/C01)
-/
import Flamego.Model.Router

namespace Flamego.C01

/-- "static beats regex beats placeholder beats match-all": the order of the regenerated
    iota block of leaf.go is the documented one. A reordering of the constants in the
    source breaks this theorem at build time. -/
theorem rank_documented (l p x y : Bytes) (b : List Bytes) (c : Int) :
    (Pat.static l).rank < (Pat.regex p b).rank ∧ (Pat.regex p b).rank < (Pat.hole x).rank ∧
    (Pat.hole x).rank < (Pat.all y c).rank := by
  simp only [Pat.rank]; decide

end Flamego.C01
