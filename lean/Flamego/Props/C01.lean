/-
  Props/C01.lean — Dispatch: a route is chosen iff one admits the path, by the documented priority.

  Quantifier: every history `h` of registrations `(route, id)` (any order, accepted or rejected,
  routes as the parser produces them: `ParsedSeg`), every regular-expression engine `E`, every
  header predicate `hok` (which registrations' header constraints the request satisfies), every
  request path (any byte string).

  Vocabulary (Spec/Dispatch.lean, tree-free): `formsOfRoute E r id` — the long form of a route and,
  when its last segment is optional, the short form; `Form.Admits` — the form's patterns consume
  exactly the path's segments (`Consumes`: static / regex / placeholder take one segment, a match-all
  in the middle takes k ≥ 1 within its capture limit and leaves at least one, a final match-all
  takes all that is left) and the header constraints hold.  `segsOf path` — leading slashes
  ignored, split at '/', a trailing slash giving an extra empty segment.

  Proof structure: Proofs/TreeMatch.lean (the matcher returns the head of the priority-ordered
  enumeration `derivs` of all accepting walks; walks ↔ admitting forms of the tree) and
  Proofs/TreeAdd.lean (registration keeps the invariant `TreeInv`, and the tree stores exactly
  the forms of the accepted routes; `insertByRank` is first-in-first-served within a rank).
-/
import Flamego.Proofs.TreeMatch
import Flamego.Proofs.TreeAdd
import Flamego.Model.Router
import Flamego.Proofs.ParsedOfWF

namespace Flamego.C01

/-- "segment-wise, leading slashes ignored, a trailing slash being an extra empty segment" -/
def segsOf (path : Bytes) : List Seg := splitSlash (trimLeftSlash path)

theorem segsOf_ne_nil (path : Bytes) : segsOf path ≠ [] := splitSlash_ne_nil _

/-- the leaf `Tree.Match` returns, params dropped -/
def chosen (E : Engine) (hok : Nat → Bool) (t : Node) (path : Bytes) : Option Leaf :=
  (t.match E hok path).map (·.1)

theorem chosen_eq (E : Engine) (hok : Nat → Bool) (t : Node) (path : Bytes) (s : Seg) (rest : List Seg)
    (hs : segsOf path = s :: rest) :
    chosen E hok t path = (matchNext E hok t.subs t.leaves s rest []).1 := by
  unfold chosen Node.match
  unfold segsOf at hs
  rw [hs]
  cases h : matchNext E hok t.subs t.leaves s rest [] with
  | mk o ps => cases o <;> simp [h]

/-- "static beats regex beats placeholder beats match-all": the order of the regenerated
    iota block of leaf.go is the documented one. A reordering of the constants in the
    source breaks this theorem at build time. -/
theorem rank_documented (l p x y : Bytes) (b : List Bytes) (c : Int) :
    (Pat.static l).rank < (Pat.regex p b).rank ∧ (Pat.regex p b).rank < (Pat.hole x).rank ∧
    (Pat.hole x).rank < (Pat.all y c).rank := by
  simp only [Pat.rank]; decide

/-- **dispatched iff admitted** — "the request is dispatched to a route handler if and only if at
    least one route registered for its method admits the path".  `h` is the registration history
    of the request's method; `accepted E h` are the registrations that succeeded. -/
theorem dispatch_iff (E : Engine) (hok : Nat → Bool) (h : List (Route × Nat))
    (hP : ∀ rh ∈ h, ∀ s ∈ rh.1.segs, ParsedSeg s = true) (path : Bytes) :
    (chosen E hok (build E h) path).isSome ↔
      ∃ rh ∈ accepted E h, ∃ f ∈ formsOfRoute E rh.1 rh.2, f.Admits E hok (segsOf path) := by
  cases hs : segsOf path with
  | nil => exact absurd hs (segsOf_ne_nil path)
  | cons s rest =>
    rw [chosen_eq E hok _ path s rest hs, matchNext_some_iff E hok _ _ s rest [] (build_inv E h)]
    constructor
    · rintro ⟨f, hf, ha⟩
      obtain ⟨rh, hrh, hfr⟩ := (build_forms_parsed E h hP f).mp hf
      exact ⟨rh, hrh, f, hfr, ha⟩
    · rintro ⟨rh, hrh, f, hfr, ha⟩
      exact ⟨f, (build_forms_parsed E h hP f).mpr ⟨rh, hrh, hfr⟩, ha⟩

/-- **never not-found while an admitting route exists** — "a failure deeper in a preferred branch
    falls back to the next alternative, never to not-found": the ⇐ direction of `dispatch_iff`
    spelled out. -/
theorem backtracking_complete (E : Engine) (hok : Nat → Bool) (h : List (Route × Nat))
    (hP : ∀ rh ∈ h, ∀ s ∈ rh.1.segs, ParsedSeg s = true) (path : Bytes)
    (rh : Route × Nat) (hrh : rh ∈ accepted E h) (f : Form) (hf : f ∈ formsOfRoute E rh.1 rh.2)
    (ha : f.Admits E hok (segsOf path)) :
    chosen E hok (build E h) path ≠ none := by
  have := (dispatch_iff E hok h hP path).mpr ⟨rh, hrh, f, hf, ha⟩
  intro hn; rw [hn] at this; simp at this

/-- **the chosen route admits the path** — the handler that runs belongs to an accepted
    registration one of whose forms (long or short, as the leaf says) admits the path. -/
theorem dispatch_sound (E : Engine) (hok : Nat → Bool) (h : List (Route × Nat))
    (hP : ∀ rh ∈ h, ∀ s ∈ rh.1.segs, ParsedSeg s = true) (path : Bytes) (l : Leaf)
    (hc : chosen E hok (build E h) path = some l) :
    ∃ rh ∈ accepted E h, ∃ f ∈ formsOfRoute E rh.1 rh.2,
      f.hid = l.hid ∧ f.long = l.long ∧ f.Admits E hok (segsOf path) := by
  cases hs : segsOf path with
  | nil => exact absurd hs (segsOf_ne_nil path)
  | cons s rest =>
    rw [chosen_eq E hok _ path s rest hs] at hc
    obtain ⟨f, hf, h1, h2, ha⟩ := matchNext_sound_form E hok _ _ s rest [] l hc
    obtain ⟨rh, hrh, hfr⟩ := (build_forms_parsed E h hP f).mp hf
    exact ⟨rh, hrh, f, hfr, h1, h2, ha⟩

/-- **the winner is the first accepting walk in priority order** — `derivs` enumerates every
    accepting root-to-leaf walk: the children of a node in list order, a match-all child taking
    1, 2, 3 … segments in that order ("prefers the fewest captured segments"), the node's own
    match-all leaf after every child ("tried only after every alternative that continues with
    further segments"); the matcher returns its head, for every tree registration can build. -/
theorem dispatch_first (E : Engine) (hok : Nat → Bool) (h : List (Route × Nat)) (path : Bytes)
    (s : Seg) (rest : List Seg) (hs : segsOf path = s :: rest) :
    chosen E hok (build E h) path = (derivs E hok (build E h).subs (build E h).leaves s rest).head? := by
  rw [chosen_eq E hok _ path s rest hs]
  exact matchNext_leaf_eq_head E hok _ _ s rest [] (build_inv E h)

/-- every other accepting walk comes later in the enumeration: if `l'` is reachable at all then
    something is chosen, and it is `l'` or a walk enumerated before it -/
theorem dispatch_least (E : Engine) (hok : Nat → Bool) (h : List (Route × Nat)) (path : Bytes)
    (s : Seg) (rest : List Seg) (hs : segsOf path = s :: rest) (l' : Leaf)
    (hr : Reach E hok (build E h).subs (build E h).leaves s rest l') :
    ∃ l pre post, chosen E hok (build E h) path = some l ∧
      derivs E hok (build E h).subs (build E h).leaves s rest = l :: pre ++ post ∧
      (l' = l ∨ l' ∈ pre ++ post) := by
  have hm := (mem_derivs_iff_reach E hok _ _ s rest l').mpr hr
  rw [dispatch_first E hok h path s rest hs]
  cases hd : derivs E hok (build E h).subs (build E h).leaves s rest with
  | nil => rw [hd] at hm; cases hm
  | cons l tl =>
    refine ⟨l, tl, [], rfl, by simp, ?_⟩
    rw [hd] at hm
    simpa using hm

/-- **sibling order = rank, then age** — "static beats regex beats placeholder beats match-all;
    among equally ranked alternatives the earlier-registered wins": registration puts a new
    alternative after every existing one of lower or EQUAL rank and before every one of strictly
    higher rank, in a list that is sorted by rank (`TreeInv`, kept by `build_inv`). -/
theorem sibling_order_fifo {α : Type} (rank : α → Nat) (x : α) (l : List α)
    (hs : l.Pairwise (fun a b => rank a ≤ rank b)) :
    ∃ pre post, l = pre ++ post ∧ insertByRank rank x l = pre ++ x :: post ∧
      (∀ y ∈ pre, rank y ≤ rank x) ∧ (∀ y ∈ post, rank x < rank y) :=
  insertByRank_split rank x l hs

/-- the invariant every reachable tree satisfies: every sibling list sorted by rank, at most one
    match-all and it is last, canonical texts pairwise different — at every depth -/
theorem tree_invariant (E : Engine) (h : List (Route × Nat)) :
    TreeInv (build E h).subs (build E h).leaves := build_inv E h

/-- a registration that fails changes nothing: the tree is the one built from the accepted
    registrations alone -/
theorem rejected_registrations_invisible (E : Engine) (h : List (Route × Nat)) :
    build E h = build E (accepted E h) := by
  unfold build accepted
  generalize Node.root = t
  induction h generalizing t with
  | nil => rfl
  | cons rh h ih =>
    simp only [buildFrom, acceptedFrom]
    cases hr : addRoute E t rh.1 rh.2 with
    | error e => simp only []; exact ih t
    | ok t' => simp only [buildFrom, hr]; exact ih t'

/-! ### from route TEXTS: what `f.Get("/a/{x}", …)` registers

A registration is a route text; texts outside the grammar are rejected by the parser (C06/C08) and
contribute nothing. For the others the hypothesis `ParsedSeg` of the theorems above is a theorem
(`parsedSeg_of_parse`), so dispatch is characterised for every history of texts, with no side
condition at all. -/

/-- the registrations whose text is inside the grammar, as `(route, id)` -/
def parsedHistory (ts : List (Bytes × Nat)) : List (Route × Nat) :=
  ts.filterMap fun (txt, hid) => (parse txt).map fun r => (r, hid)

theorem parsedHistory_parsed (ts : List (Bytes × Nat)) :
    ∀ rh ∈ parsedHistory ts, ∀ s ∈ rh.1.segs, ParsedSeg s = true := by
  intro rh hrh
  simp only [parsedHistory, List.mem_filterMap] at hrh
  obtain ⟨⟨txt, hid⟩, _, hp⟩ := hrh
  cases hparse : parse txt with
  | none => simp [hparse] at hp
  | some r =>
    simp only [hparse, Option.map_some, Option.some.injEq] at hp
    subst hp
    exact parsedSeg_of_parse hparse

/-- **dispatched iff admitted, for every history of route texts** -/
theorem dispatch_iff_text (E : Engine) (hok : Nat → Bool) (ts : List (Bytes × Nat)) (path : Bytes) :
    (chosen E hok (build E (parsedHistory ts)) path).isSome ↔
      ∃ rh ∈ accepted E (parsedHistory ts), ∃ f ∈ formsOfRoute E rh.1 rh.2, f.Admits E hok (segsOf path) :=
  dispatch_iff E hok (parsedHistory ts) (parsedHistory_parsed ts) path

/-- the chosen route admits the path, for every history of route texts -/
theorem dispatch_sound_text (E : Engine) (hok : Nat → Bool) (ts : List (Bytes × Nat)) (path : Bytes) (l : Leaf)
    (hc : chosen E hok (build E (parsedHistory ts)) path = some l) :
    ∃ rh ∈ accepted E (parsedHistory ts), ∃ f ∈ formsOfRoute E rh.1 rh.2,
      f.hid = l.hid ∧ f.long = l.long ∧ f.Admits E hok (segsOf path) :=
  dispatch_sound E hok (parsedHistory ts) (parsedHistory_parsed ts) path l hc

/-! ### router level: the method selects the tree -/

/-- full tree matching at the router: the request's method selects the tree, an unknown method has
    none ("or the method is unknown" ⇒ not found) -/
theorem router_tree_dispatch (E : Engine) (R : Router) (req : Request) (t : Node)
    (ht : assocGet R.trees req.method = some t) :
    (∃ l ps, R.serveTreeOnly E req = .handler l ps) ↔ (chosen E (R.hok E req.hdrs) t req.path).isSome := by
  unfold Router.serveTreeOnly chosen
  rw [ht]
  cases hm : t.match E (R.hok E req.hdrs) req.path with
  | none => simp [hm]
  | some lp => obtain ⟨l, ps⟩ := lp; simp [hm]

/-! ### non-vacuity: a history with a rejected route, several admitting forms, backtracking -/

section Example
/-- `E₀`: an engine that knows no expression -/
def E₀ : Engine := ⟨fun _ => none, fun _ _ => none, fun _ _ => false⟩

/-- `/a/{x}`, `/a/b` (static wins although registered later), `/{p: **}` and a duplicate `/a/b` -/
def h₀ : List (Route × Nat) :=
  [(⟨[⟨false, [.ident [97]]⟩, ⟨false, [.bind [120]]⟩]⟩, 0),
   (⟨[⟨false, [.ident [97]]⟩, ⟨false, [.ident [98]]⟩]⟩, 1),
   (⟨[⟨false, [.params [⟨[112], .lit [42, 42]⟩]]⟩]⟩, 2),
   (⟨[⟨false, [.ident [97]]⟩, ⟨false, [.ident [98]]⟩]⟩, 3)]

example : (∀ rh ∈ h₀, ∀ s ∈ rh.1.segs, ParsedSeg s = true) := by decide
example : (accepted E₀ h₀).map (·.2) = [0, 1, 2] := by decide
example : segsOf [47, 47, 97, 47, 98] = [[97], [98]] := by decide                         -- "//a/b"
example : segsOf [47, 97, 47] = [[97], []] := by decide                                   -- "/a/" : extra empty segment

/-- the premises of `dispatch_iff` are met by a concrete request: `/a/b` is admitted by the form of
    registration 1 (and by those of 0 and 2), so it is dispatched -/
example : (chosen E₀ (fun _ => true) (build E₀ h₀) [47, 97, 47, 98]).isSome = true := by
  refine (dispatch_iff E₀ (fun _ => true) h₀ (by decide) [47, 97, 47, 98]).mpr ?_
  refine ⟨(⟨[⟨false, [.ident [97]]⟩, ⟨false, [.ident [98]]⟩]⟩, 1), by decide,
          ⟨[.static [97], .static [98]], 1, true⟩, by decide, ?_, rfl⟩
  show Consumes E₀ [.static [97], .static [98]] (segsOf [47, 97, 47, 98])
  have : segsOf [47, 97, 47, 98] = [[97], [98]] := by decide
  rw [this]
  exact Consumes.innerOne _ _ _ _ (by simp) rfl (by decide) (Consumes.lastOne _ _ rfl (by decide))

/-- … and a path no form admits is not dispatched: `/a` (one segment; every form needs two, or is
    the match-all which `/a`… also admits — so use a method tree without it) -/
example : (chosen E₀ (fun _ => true) (build E₀ (h₀.take 2)) [47, 97]).isSome = false := by
  have hne : ¬ (chosen E₀ (fun _ => true) (build E₀ (h₀.take 2)) [47, 97]).isSome = true := by
    rw [dispatch_iff E₀ (fun _ => true) (h₀.take 2) (by decide) [47, 97]]
    rintro ⟨rh, hrh, f, hf, hc, _⟩
    have hs : segsOf [47, 97] = [[97]] := by decide
    rw [hs] at hc
    have hacc : accepted E₀ (h₀.take 2) = h₀.take 2 := by decide
    rw [hacc] at hrh
    simp only [h₀, List.take, List.mem_cons, List.mem_nil_iff, or_false] at hrh
    rcases hrh with rfl | rfl
    · have : f = ⟨[.static [97], .hole [120]], 0, true⟩ := by
        have : formsOfRoute E₀ ⟨[⟨false, [.ident [97]]⟩, ⟨false, [.bind [120]]⟩]⟩ 0 = [⟨[.static [97], .hole [120]], 0, true⟩] := by decide
        rw [this] at hf; simpa using hf
      subst this
      cases hc with
      | innerOne _ _ _ _ _ _ _ hr => cases hr
    · have : f = ⟨[.static [97], .static [98]], 1, true⟩ := by
        have : formsOfRoute E₀ ⟨[⟨false, [.ident [97]]⟩, ⟨false, [.ident [98]]⟩]⟩ 1 = [⟨[.static [97], .static [98]], 1, true⟩] := by decide
        rw [this] at hf; simpa using hf
      subst this
      cases hc with
      | innerOne _ _ _ _ _ _ _ hr => cases hr
  simpa using hne
end Example

end Flamego.C01
