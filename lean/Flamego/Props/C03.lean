/-
  Props/C03.lean — Handler chain: ordered, at-most-once, onion nesting, stops on write or cancel.

  Quantifier: every configuration `c : Cfg` (any middleware / group / route handler lists, action
  present or nil, request method HEAD or not (`c.head`), any handler programs over write/body/next/cancel/map/panic/hook-panic with any
  return effect, Recovery and unresolvable handlers anywhere, both environments, both settings of
  `onceBug`).  `serve c` is one request; `run c f st` is one call of `run()`, i.e. one `Next()`.
  Slots are numbered along `c.chain = mw ++ grp ++ rt`, the action is slot `c.n`.
  `starts tr` lists the slots whose handler `run()` started (enter / failed injection / nil action).
-/
import Flamego.Proofs.Chain

namespace Flamego.Chain

/-! ### "handlers start strictly in chain order … each at most once and never skipping one" -/

/-- The slots started during a request are exactly 0, 1, …, k-1, in this order, for some
    k ≤ len(handlers)+1: chain order, no slot skipped (the started slots are an initial segment of
    the chain), none started twice.  (On the code before the F10 repair this was false.) -/
theorem starts_no_skip (c : Cfg) : ∃ k, k ≤ c.n + 1 ∧ starts (serve c).trace = List.range k := by
  obtain ⟨evs, st1, p, _, h, hb, ht, _, _⟩ := serve_ext c
  refine ⟨st1.idx, hb, ?_⟩
  rw [ht, starts_append, h.st, starts_escEv, List.range_eq_range']
  show List.range' 0 (st1.idx - 0) ++ [] = _
  simp

/-- start events carry strictly increasing slot numbers -/
theorem starts_increasing (c : Cfg) : (starts (serve c).trace).Pairwise (· < ·) := by
  obtain ⟨k, _, h⟩ := starts_no_skip c
  rw [h]; exact List.pairwise_lt_range

/-- no slot is started twice -/
theorem at_most_once (c : Cfg) : (starts (serve c).trace).Nodup := by
  obtain ⟨k, _, h⟩ := starts_no_skip c
  rw [h]; exact List.nodup_range

/-- "application middleware, then group handlers outermost first, then the route's own handlers,
    then the final action": what sits in slot i -/
theorem chain_layout (c : Cfg) (i : Nat) :
    c.slot i =
      if i < c.mw.length then c.mw[i]?
      else if i < c.mw.length + c.grp.length then c.grp[i - c.mw.length]?
      else if i < c.mw.length + c.grp.length + c.rt.length then c.rt[i - c.mw.length - c.grp.length]?
      else if i = c.mw.length + c.grp.length + c.rt.length then c.action
      else none := by
  have hn : c.n = c.mw.length + c.grp.length + c.rt.length := by simp [Cfg.n, Cfg.chain]; omega
  unfold Cfg.slot
  rw [hn]
  by_cases h1 : i < c.mw.length
  · have : i ≠ c.mw.length + c.grp.length + c.rt.length := by omega
    simp [h1, this, Cfg.chain, List.getElem?_append_left]
  by_cases h2 : i < c.mw.length + c.grp.length
  · have : i ≠ c.mw.length + c.grp.length + c.rt.length := by omega
    have h3 : i - c.mw.length < c.grp.length := by omega
    simp [h1, h2, h3, this, Cfg.chain, List.getElem?_append]
  by_cases h3 : i < c.mw.length + c.grp.length + c.rt.length
  · have : i ≠ c.mw.length + c.grp.length + c.rt.length := by omega
    have h4 : ¬ (i - c.mw.length < c.grp.length) := by omega
    have h5 : i - c.mw.length - c.grp.length = i - (c.mw.length + c.grp.length) := by omega
    simp [h1, h2, h3, h4, h5, this, Cfg.chain, List.getElem?_append]
  by_cases h4 : i = c.mw.length + c.grp.length + c.rt.length
  · subst h4
    rw [if_pos rfl, if_neg h1, if_neg h2, if_neg h3, if_pos rfl]
  · have : c.chain.length ≤ i := by simp [Cfg.chain]; omega
    simp [h1, h2, h3, h4, List.getElem?_eq_none this]

/-! ### "A handler that calls Next() has the remainder of the chain run - as far as it gets - and
    finish inside that call (so code after Next() runs in reverse order)" -/

/-- One `Next()` (= one call of `run`, whatever the state it is called in): the events it adds start
    exactly the next slots `idx, idx+1, …` up to where the cursor is left (the remainder of the chain,
    as far as it gets), and they are well bracketed — every handler entered during the call has
    returned (`exit`) or been unwound (`abort`) before the call returns, innermost first. -/
theorem next_runs_rest_inside (c : Cfg) (f : Nat) (st : St) :
    ∃ evs, (run c f st).1.trace = st.trace ++ evs ∧ Balanced evs ∧
      starts evs = List.range' st.idx ((run c f st).1.idx - st.idx) := by
  obtain ⟨evs, h⟩ := run_ext c f st
  exact ⟨evs, h.tr, h.bal, h.st⟩

/-- The whole request is well bracketed: reading the trace with a stack, every `exit i`/`abort i`
    finds `i` on top (handlers finish in reverse order of starting) and nothing is left open. -/
theorem well_bracketed (c : Cfg) : wbGo [] (serve c).trace = some [] := by
  obtain ⟨evs, st1, p, _, h, _, ht, _, _⟩ := serve_ext c
  rw [ht]
  exact balanced_append h.bal (balanced_escEv p) []

/-! ### "further Next() calls do nothing once the chain is exhausted" -/

theorem next_exhausted_noop (c : Cfg) (f : Nat) (st : St) (h : c.n < st.idx) : run c f st = (st, none) :=
  run_exhausted f h

/-- …and a `Next()` that came back normally without the response being written has exhausted the
    chain or seen the cancellation: every further `Next()` is a no-op. -/
theorem next_after_unwritten_return_noop (c : Cfg) (f g : Nat) (st st' : St) (hf : c.n + 1 - st.idx ≤ f)
    (hr : run c f st = (st', none)) (hw : st'.w.written = false) : run c g st' = (st', none) := by
  rcases run_done c f st st' hf hr with h | h | h
  · rw [hw] at h; cases h
  · exact run_cancelled g h
  · exact run_exhausted g h

/-! ### "After a handler returns (its return values, if any, having been rendered first) the chain
    advances on its own only if nothing has been written to the response and the request context is
    not cancelled." -/

/-- One loop iteration of `run()`: handler `k` in slot `st.idx` was invoked and came back normally in
    state `st1` (`invoke` includes the rendering of its return values).  The loop goes on to another
    iteration iff status = 0 ∧ ¬cancelled; otherwise `run()` returns at once. -/
theorem auto_advance_iff (c : Cfg) (f : Nat) (st st1 : St) (k : Kind) (h1 : ¬ c.n < st.idx)
    (h2 : st.cancelled = false) (hs : c.slot st.idx = some k)
    (hr : invoke c (run c f) st.idx k st.adv = (st1, none)) :
    run c (f + 1) st = if st1.w.status = 0 ∧ st1.cancelled = false then run c f st1 else (st1, none) := by
  cases hw : st1.w.written with
  | true =>
    rw [run_stop _ h1 h2 hs hr hw]
    have : st1.w.status ≠ 0 := by simpa [Writer.W.written] using hw
    simp [this]
  | false =>
    rw [run_loop _ h1 h2 hs hr hw]
    have : st1.w.status = 0 := by simpa [Writer.W.written] using hw
    cases hc : st1.cancelled with
    | true => simp [this, run_cancelled f hc]
    | false => simp [this]

/-- …and "goes on" means: the very next slot is started (when there is one). -/
theorem auto_advance_starts_next (c : Cfg) (f : Nat) (st1 : St) (hc : st1.cancelled = false)
    (hi : ¬ c.n < st1.idx) :
    ∃ evs, (run c (f + 1) st1).1.trace = st1.trace ++ evs ∧ (starts evs).head? = some st1.idx := by
  obtain ⟨evs, h⟩ := run_ext c (f + 1) st1
  refine ⟨evs, h.tr, ?_⟩
  have := run_advances c f st1 hi hc
  obtain ⟨d, hd⟩ := Nat.exists_eq_add_of_le this
  rw [h.st, hd]
  have : st1.idx + 1 + d - st1.idx = d + 1 := by omega
  rw [this, List.range'_succ]; rfl

/-! ### fuel: the interpreter never runs dry -/

/-- `serve` gives `run` more fuel than it can use: any larger amount yields the same request. -/
theorem serve_fuel_sufficient (c : Cfg) (g : Nat) (hg : c.fuel ≤ g) : run c g c.st0 = run c c.fuel c.st0 :=
  run_fuel_irrelevant c c.fuel g c.st0 (by show c.n + 1 - 0 ≤ c.n + 2; omega) hg

/-! ### non-vacuity -/

/-- F10's stack: h0 calls Next() twice, h1 writes, then h2 h3.  The second Next() starts h2 (not h3),
    h3 is never started because the response is written. -/
example :
    let c : Cfg := { mw := [.plain { acts := [.next, .next] }],
                     rt := [.plain { acts := [.write 200] }, .plain { acts := [] }, .plain { acts := [] }] }
    (serve c).trace = [.enter 0, .enter 1, .exit 1, .enter 2, .exit 2, .exit 0] ∧ (serve c).w.status = 200 := by
  decide

/-- nothing written, not cancelled: the chain advances by itself through group, route and action -/
example :
    let c : Cfg := { mw := [.plain { acts := [.map] }], grp := [.plain { acts := [] }],
                     rt := [.plain { acts := [.next, .body 2] }], action := some (.plain { acts := [], ret := .nothing }) }
    (serve c).trace = [.enter 0, .exit 0, .enter 1, .exit 1, .enter 2, .enter 3, .exit 3, .exit 2] := by
  decide

/-- cancellation stops the automatic advance -/
example :
    let c : Cfg := { mw := [.plain { acts := [.cancel] }, .plain { acts := [] }] }
    (serve c).trace = [.enter 0, .exit 0] := by
  decide

/-- HEAD: a group guard that answers only with a returned body ("admins only", no explicit status).
    The writer forwards no body for HEAD but still commits the implicit 200, so the response counts
    as written and the guarded route handler is not started. -/
example :
    let c : Cfg := { grp := [.plain { acts := [], ret := .body 11 }], rt := [.plain { acts := [.write 204] }],
                     head := true }
    (serve c).trace = [.enter 0, .exit 0] ∧ (serve c).w.status = 200 ∧
      (serve c).w.under = [Writer.UEv.hdr 200] ∧ (serve c).out = [] := by
  decide

end Flamego.Chain
