/-
  Props/C01Code.lean — C01 / C02 / C08 at the level of the CODE: which match style a segment gets.

  `Gen/ClassifyCode.lean` is regenerated on every run from internal/route: the AST structs of definition.go field by field
  (a pointer field is an `Option`) and the three predicates of leaf.go that `newLeaf` / `newTree` ask, in this order, to
  decide a segment's style — `isMatchStyleStatic`, `checkMatchStylePlaceholder`, `checkMatchStyleAll`.

  The parser's AST, as the model has it (Model/Syntax.lean: an element is an identifier, a bare bind or a parameter list),
  is embedded into the Go structs by `goSeg`; every segment the real parser returns is of that shape (exactly one of
  `Ident` / `BindIdent` / `BindParameters` is set — C06's subject).  For EVERY model segment:

    * `static_refines`, `placeholder_refines`, `all_refines`: the generated predicate answers what the model's `staticLit`,
      `holeBind`, `allBind` (Model/Classify.lean) answer — the functions the priority theorems of C01, the capture theorems
      of C02 and the acceptance theorems of C08 are built on;
    * `styles_exclusive`: at most one of the three says yes — the order in which `newLeaf` asks them cannot matter.
-/
import Flamego.Gen.ClassifyCode
import Flamego.Model.Classify
set_option linter.unusedSimpArgs false
set_option linter.unusedVariables false
namespace Flamego.C01Code
open Flamego.GoSem Flamego.Gen.ClassifyCode

/-! ### the parser's AST in the Go structs -/

def goVal : BindVal → BindParameterValue
  | .lit s => { Literal := some s, Regex := none }
  | .re s => { Literal := none, Regex := some s }

def goParam (p : BindParam) : BindParameter := { Ident := p.ident, Value := goVal p.val }

def goElem : Elem → SegmentElement
  | .ident s => { Pos := (), EndPos := (), Ident := some s, BindIdent := none, BindParameters := none }
  | .bind n => { Pos := (), EndPos := (), Ident := none, BindIdent := some n, BindParameters := none }
  | .params ps => { Pos := (), EndPos := (), Ident := none, BindIdent := none,
                    BindParameters := some { Parameters := ps.map goParam } }

def goSeg (s : Flamego.Segment) : Gen.ClassifyCode.Segment :=
  { Pos := (), Slash := [47], Optional := s.optional, Elements := s.elems.map goElem, strOnce := false, str := [] }

/-! ### the three predicates -/

theorem len2_ne1 (n : Nat) : ((n : Int) + 1 + 1 = 1) = False := by
  apply eq_false; omega
theorem len2_ne0 (n : Nat) : ((n : Int) + 1 + 1 = 0) = False := by
  apply eq_false; omega
theorem len2_gt1 (n : Nat) : (1 < (n : Int) + 1 + 1) = True := by
  apply eq_true; omega

theorem static_refines (s : Flamego.Segment) :
    isMatchStyleStatic (goSeg s) = (staticLit s).isSome := by
  obtain ⟨o, es⟩ := s
  match es with
  | [] => rfl
  | [.ident _] => rfl
  | [.bind _] => rfl
  | [.params _] => rfl
  | _ :: _ :: _ => simp [isMatchStyleStatic, goSeg, staticLit, len2_ne1]

theorem placeholder_refines (s : Flamego.Segment) :
    checkMatchStylePlaceholder (goSeg s)
      = (match holeBind s with | some b => (b, true) | none => ([], false)) := by
  obtain ⟨o, es⟩ := s
  match es with
  | [] => rfl
  | [.ident _] => rfl
  | [.bind b] =>
    by_cases h : b = [42, 42]
    · subst h; simp [checkMatchStylePlaceholder, goSeg, goElem, holeBind, starStar, GoSem.idx, GoSem.deref]
    · simp [checkMatchStylePlaceholder, goSeg, goElem, holeBind, starStar, GoSem.idx, GoSem.deref, h]
  | [.params _] => rfl
  | _ :: _ :: _ => simp [checkMatchStylePlaceholder, goSeg, holeBind, len2_ne1]

theorem all_refines (s : Flamego.Segment) :
    checkMatchStyleAll (goSeg s)
      = (match allBind s with | some (b, c) => (b, c, true) | none => ([], 0, false)) := by
  obtain ⟨o, es⟩ := s
  match es with
  | [] => rfl
  | [.ident _] => rfl
  | [.bind b] =>
    by_cases h : b = [42, 42]
    · subst h; simp [checkMatchStyleAll, goSeg, goElem, allBind, starStar, GoSem.idx, GoSem.deref]
    · simp [checkMatchStyleAll, goSeg, goElem, allBind, starStar, GoSem.idx, GoSem.deref, h]
  | [.params []] => simp [checkMatchStyleAll, goSeg, goElem, allBind, GoSem.idx, GoSem.deref]
  | [.params (p :: ps)] =>
    obtain ⟨pid, pv⟩ := p
    cases pv with
    | re e => simp [checkMatchStyleAll, goSeg, goElem, goParam, goVal, allBind, starStar, GoSem.idx, GoSem.deref]
    | lit l =>
      by_cases hl : l = [42, 42]
      · subst hl
        match ps with
        | [] => simp [checkMatchStyleAll, goSeg, goElem, goParam, goVal, allBind, starStar, GoSem.idx, GoSem.deref]
        | q :: qs =>
          obtain ⟨qid, qv⟩ := q
          cases qv with
          | re e =>
            by_cases hq : qid = [99, 97, 112, 116, 117, 114, 101] <;>
              simp [checkMatchStyleAll, goSeg, goElem, goParam, goVal, allBind, starStar, captureKeyword, GoSem.idx,
                GoSem.deref, hq, len2_ne0, len2_gt1]
          | lit v =>
            by_cases hq : qid = [99, 97, 112, 116, 117, 114, 101] <;>
              simp [checkMatchStyleAll, goSeg, goElem, goParam, goVal, allBind, starStar, captureKeyword, GoSem.idx,
                GoSem.deref, hq, Lib.route_Atoi, len2_ne0, len2_gt1]
      · simp [checkMatchStyleAll, goSeg, goElem, goParam, goVal, allBind, starStar, GoSem.idx, GoSem.deref, hl]
  | _ :: _ :: _ => simp [checkMatchStyleAll, goSeg, allBind, len2_ne1]

/-- at most one of the three predicates says yes: the order in which `newLeaf` and `newTree` ask them cannot matter -/
theorem styles_exclusive (s : Flamego.Segment) :
    ¬ (isMatchStyleStatic (goSeg s) = true ∧ (checkMatchStylePlaceholder (goSeg s)).2 = true)
    ∧ ¬ (isMatchStyleStatic (goSeg s) = true ∧ (checkMatchStyleAll (goSeg s)).2.2 = true)
    ∧ ¬ ((checkMatchStylePlaceholder (goSeg s)).2 = true ∧ (checkMatchStyleAll (goSeg s)).2.2 = true) := by
  rw [static_refines, placeholder_refines, all_refines]
  obtain ⟨o, es⟩ := s
  match es with
  | [] => simp [staticLit, holeBind, allBind]
  | [.ident _] => simp [staticLit, holeBind, allBind]
  | [.bind b] => by_cases h : b = starStar <;> simp [staticLit, holeBind, allBind, h]
  | [.params ps] =>
    refine ⟨by simp [staticLit], by simp [staticLit], by simp [holeBind]⟩
  | _ :: _ :: _ => simp [staticLit, holeBind, allBind]

/-! ### the definitions compute -/

/-- `/{name}`, `/{**}`, `/{rest: **, capture: 3}`, `/a{b}` -/
example :
    checkMatchStylePlaceholder (goSeg ⟨false, [.bind [110]]⟩) = ([110], true)
    ∧ checkMatchStyleAll (goSeg ⟨false, [.bind [42, 42]]⟩) = ([42, 42], 0, true)
    ∧ checkMatchStyleAll (goSeg ⟨false, [.params [⟨[114], .lit [42, 42]⟩, ⟨[99, 97, 112, 116, 117, 114, 101], .lit [51]⟩]]⟩)
        = ([114], 3, true)
    ∧ isMatchStyleStatic (goSeg ⟨false, [.ident [97], .bind [98]]⟩) = false := by decide

end Flamego.C01Code
