/-
  Props/C17.lean — Render: given status, matching Content-Type, faithful body; the renderer
  is visible to later handlers of the same request.                          (PARTIAL, see below)

  Quantifiers: every status code net/http accepts (`100 ≤ status`), every option record,
  every payload (all byte strings of any length; every value `v : V` of an arbitrary value
  type), every pair of standard encoders (`enc : Encoder V`, a PARAMETER: what `Encode`
  wrote and whether it failed), both kinds of request method (`head`), every set of hooks
  registered on the writer (they are observers, C13), every interleaving of requests.

  What is proved: status, Content-Type (the table, with the configured charset), the body for
  Binary/PlainText (verbatim) and for JSON/XML *as the bytes the standard encoder produced
  with the configured indentation*; that an earlier status stands; visibility.
  What is NOT proved (the partial part): that those encoder bytes decode back to the value.
  That is a property of encoding/json and encoding/xml; the correspondence check decodes
  every generated body with the standard decoders and compares it with the input.
-/
import Flamego.Proofs.Render
import Flamego.Props.C13

namespace Flamego.Render
open Flamego.Writer (UEv)

variable {V : Type}

/-! ### "the matching Content-Type (with the configured charset where applicable)" -/

/-- `Renderer(opts)`: the charset is the configured one, "utf-8" when none is configured;
    the indentation options are taken as they are -/
theorem charset_default (o : Opts) :
    o.parse.charset = (if o.charset = [] then b!"utf-8" else o.charset) ∧
    o.parse.jsonIndent = o.jsonIndent ∧ o.parse.xmlIndent = o.xmlIndent := by
  unfold Opts.parse; split <;> simp_all

/-- the table, for a renderer made by `Renderer(o)` -/
theorem content_type_table (o : Opts) :
    let cs := if o.charset = [] then b!"utf-8" else o.charset
    contentType o.parse .json = b!"application/json; charset=" ++ cs ∧
    contentType o.parse .xml = b!"text/xml; charset=" ++ cs ∧
    contentType o.parse .plainText = b!"text/plain; charset=" ++ cs ∧
    contentType o.parse .binary = b!"application/octet-stream" := by
  have := (charset_default o).1
  simp [contentType, this]

/-- Binary carries no charset whatever is configured -/
theorem binary_has_no_charset (o o' : Opts) : contentType o .binary = contentType o' .binary := rfl

/-! ### on a response to which nothing was sent yet -/

/-- "send exactly the given status": the writer reports it, and the wrapped writer received
    exactly one status line — this one — after the hooks and before everything else (C13's
    closed form with `WriteHeader status` as the first trigger) -/
theorem status_sent (enc : Encoder V) (o : Opts) (status : Nat) (p : Payload V) (r : Resp)
    (hf : r.Fresh) (hs : 100 ≤ status) :
    (render enc o status p r).w.status = status ∧
    (render enc o status p r).w.under.filter UEv.isHdr = [UEv.hdr status] ∧
    Writer.firstHdr (render enc o status p r).w.under = some status ∧
    ∃ rest, (render enc o status p r).w.under =
        r.w.hooks.reverse.map UEv.hook ++ UEv.hdr status :: rest ∧
        ∀ e ∈ rest, e.isHdr = false ∧ e.isHook = false := by
  have hw : (render enc o status p r).w
      = Writer.runFrom r.w ([] ++ Writer.Op.writeHeader status :: wOps (bodyOps enc o r.w.head p)) := by
    simp [render, run_w, renderOps, wOps, ROp.toW, List.filterMap]
  have hc := Writer.runFrom_fresh_trigger r.w [] (.writeHeader status) (wOps (bodyOps enc o r.w.head p))
    hf.w (by simp) rfl hs
  rw [hw, hc]
  have hno := Writer.tailOf_noHdr r.w.head (Writer.Op.writeHeader status :: wOps (bodyOps enc o r.w.head p))
  simp only [Writer.Op.code, Writer.hooksOf, List.flatMap_nil, List.append_nil]
  refine ⟨by simp, ?_, ?_, _, by simp, fun e he => hno e he⟩
  · simp only [List.filter_append, Writer.filter_hdr_hooks]
    rw [Writer.filter_none (fun e he => (hno e he).1)]
    simp [List.filter, UEv.isHdr]
  · simp only [List.append_assoc, Writer.firstHdr_hooks]; simp [Writer.firstHdr]

/-- "the matching Content-Type": the headers the client receives (frozen when the status line
    went out) carry the table entry of the method for the renderer's options — also when the
    encoder fails afterwards -/
theorem content_type_sent (enc : Encoder V) (o : Opts) (status : Nat) (p : Payload V) (r : Resp)
    (hf : r.Fresh) (hs : 100 ≤ status) :
    (render enc o status p r).sentContentType = some (contentType o p.kind) := by
  obtain ⟨h1, h2, h3⟩ := render_fresh_shape enc o status p r hf hs
  rw [h1]
  have := (run_sent_stable _ (bodyOps enc o r.w.head p) (by rw [h2]; omega)).2
  simp only [Resp.sentContentType, this, h3, Option.bind, Hdr.get_set_same]

/-- the renderer touches no header but Content-Type: the header set the client receives is the
    one that was there before, with Content-Type replaced by the table entry — no stray header -/
theorem headers_sent_exact (enc : Encoder V) (o : Opts) (status : Nat) (p : Payload V) (r : Resp)
    (hf : r.Fresh) (hs : 100 ≤ status) :
    (render enc o status p r).sent = some (Hdr.set r.hdr ctKey (contentType o p.kind)) := by
  obtain ⟨h1, h2, h3⟩ := render_fresh_shape enc o status p r hf hs
  rw [h1, (run_sent_stable _ (bodyOps enc o r.w.head p) (by rw [h2]; omega)).2, h3]

/-- in particular it announces no Content-Length of its own (one that could disagree with the
    body and make a real server cut the response short): the client sees the one the handler
    had set before, if any -/
theorem no_content_length_added (enc : Encoder V) (o : Opts) (status : Nat) (p : Payload V) (r : Resp)
    (hf : r.Fresh) (hs : 100 ≤ status) :
    (render enc o status p r).sent.bind (Hdr.get · b!"Content-Length") = Hdr.get r.hdr b!"Content-Length" := by
  rw [headers_sent_exact enc o status p r hf hs]
  exact Hdr.get_set_other _ _ _ _ (by decide)

/-- … and for a renderer made by `Renderer(o)` that is the table with the configured charset -/
theorem content_type_sent_configured (enc : Encoder V) (o : Opts) (status : Nat) (p : Payload V)
    (r : Resp) (hf : r.Fresh) (hs : 100 ≤ status) :
    (render enc o.parse status p r).sentContentType =
      some (match p.kind with
        | .json => b!"application/json; charset=" ++ (if o.charset = [] then b!"utf-8" else o.charset)
        | .xml => b!"text/xml; charset=" ++ (if o.charset = [] then b!"utf-8" else o.charset)
        | .plainText => b!"text/plain; charset=" ++ (if o.charset = [] then b!"utf-8" else o.charset)
        | .binary => b!"application/octet-stream") := by
  rw [content_type_sent enc o.parse status p r hf hs]
  obtain ⟨a, b, c, d⟩ := content_type_table o
  cases p <;> simp only [Payload.kind, a, b, c, d]

/-- the live header map afterwards: the same entry when the encoder succeeded (always, for
    Binary and PlainText); `http.Error`'s "text/plain; charset=utf-8" when it failed — too late
    for the client, whose copy was taken before -/
theorem content_type_live (enc : Encoder V) (o : Opts) (status : Nat) (p : Payload V) (r : Resp) :
    (render enc o status p r).liveContentType =
      match encErr enc o r.w.head p with
      | none => some (contentType o p.kind)
      | some _ => some errorContentType := by
  have hsplit : render enc o status p r =
      (r.run [.setHeader ctKey (contentType o p.kind), .writeHeader status]).run (bodyOps enc o r.w.head p) := by
    simp [render, renderOps, Resp.run]
  have hwrites : ∀ (cs : List Bytes), ∀ op ∈ cs.map ROp.write, touchesHdr op = false := by
    intro cs op hop; simp at hop; obtain ⟨_, _, rfl⟩ := hop; rfl
  have hpre : (r.run [.setHeader ctKey (contentType o p.kind), .writeHeader status]).liveContentType
      = some (contentType o p.kind) := by
    simp [Resp.run, Resp.apply, Resp.liveContentType, Hdr.get_set_same]
  have henc : ∀ (e : EncOut) (r' : Resp), r'.liveContentType = some (contentType o p.kind) →
      (r'.run (encodeOps e)).liveContentType =
        match e.err with | none => some (contentType o p.kind) | some _ => some errorContentType := by
    intro e r' h'
    obtain ⟨cs, err⟩ := e
    cases err with
    | none =>
      simp only [encodeOps, List.append_nil]
      simp only [Resp.liveContentType] at h' ⊢
      rw [run_hdr_untouched _ _ (hwrites cs)]; exact h'
    | some m => simp only [encodeOps, run_append]; exact httpError_live _ m 500
  rw [hsplit]
  cases p with
  | json v => exact henc _ _ hpre
  | xml v => exact henc _ _ hpre
  | binary b =>
    simp only [bodyOps, encErr, Resp.liveContentType] at hpre ⊢
    rw [run_hdr_untouched _ _ (by intro op hop; simp at hop; subst hop; rfl)]; exact hpre
  | plainText s =>
    simp only [bodyOps, encErr, Resp.liveContentType] at hpre ⊢
    rw [run_hdr_untouched _ _ (by intro op hop; simp at hop; subst hop; rfl)]; exact hpre

/-- "a body …": the wrapped writer receives exactly the method's bytes, all of them, in order
    — nothing for a HEAD request -/
theorem body_sent (enc : Encoder V) (o : Opts) (status : Nat) (p : Payload V) (r : Resp) (hf : r.Fresh) :
    (render enc o status p r).body = if r.w.head then [] else bodyOf enc o r.w.head p := by
  simp only [render, run_body, hf.body, renderOps, written_append, written, written_bodyOps]
  simp

/-- "verbatim for bytes": Binary forwards its argument unchanged, whatever its length or content -/
theorem binary_verbatim (enc : Encoder V) (o : Opts) (status : Nat) (b : Bytes) (r : Resp)
    (hf : r.Fresh) (hh : r.w.head = false) :
    (render enc o status (.binary b) r).body = b := by
  rw [body_sent enc o status _ r hf, hh]; rfl

/-- "verbatim for … strings": PlainText forwards the bytes of its argument unchanged -/
theorem plainText_verbatim (enc : Encoder V) (o : Opts) (status : Nat) (s : Bytes) (r : Resp)
    (hf : r.Fresh) (hh : r.w.head = false) :
    (render enc o status (.plainText s) r).body = s := by
  rw [body_sent enc o status _ r hf, hh]; rfl

/-- "via the standard encoders with the configured indentation otherwise": the JSON (XML) body
    is exactly what the standard encoder, given the configured JSON (XML) indent, wrote for the
    value — when it succeeds, nothing else.  (That these bytes decode back to `v` is the
    encoders' own property: checked differentially, not proved.) -/
theorem encoded_body_is_encoder_output (enc : Encoder V) (o : Opts) (status : Nat) (v : V) (r : Resp)
    (hf : r.Fresh) (hh : r.w.head = false) :
    ((enc.json false o.jsonIndent v).err = none →
      (render enc o status (.json v) r).body = (enc.json false o.jsonIndent v).chunks.flatten) ∧
    ((enc.xml false o.xmlIndent v).err = none →
      (render enc o status (.xml v) r).body = (enc.xml false o.xmlIndent v).chunks.flatten) := by
  constructor <;> intro he <;> rw [body_sent enc o status _ r hf, hh] <;> simp [bodyOf, encBytes, he]

/-- when the encoder fails: the status already sent stands (`status_sent` has no success
    hypothesis), the client's Content-Type stays (`content_type_sent`), and the body is what
    the encoder had flushed, then the error text and a newline -/
theorem encoder_error_body (enc : Encoder V) (o : Opts) (status : Nat) (v : V) (m : Bytes) (r : Resp)
    (hf : r.Fresh) (hh : r.w.head = false) :
    ((enc.json false o.jsonIndent v).err = some m →
      (render enc o status (.json v) r).body = (enc.json false o.jsonIndent v).chunks.flatten ++ m ++ [10]) ∧
    ((enc.xml false o.xmlIndent v).err = some m →
      (render enc o status (.xml v) r).body = (enc.xml false o.xmlIndent v).chunks.flatten ++ m ++ [10]) := by
  constructor <;> intro he <;> rw [body_sent enc o status _ r hf, hh] <;> simp [bodyOf, encBytes, he]

/-! ### "if something was already written before, the earlier status stands" -/

theorem earlier_status_stands (enc : Encoder V) (o : Opts) (status : Nat) (p : Payload V) (r : Resp)
    (hw : r.w.status ≠ 0) :
    (render enc o status p r).w.status = r.w.status ∧
    (render enc o status p r).sent = r.sent ∧
    (render enc o status p r).w.under.filter UEv.isHdr = r.w.under.filter UEv.isHdr ∧
    (render enc o status p r).body = if r.w.head then r.body else r.body ++ bodyOf enc o r.w.head p := by
  have h := run_sent_stable r (renderOps enc o r.w.head status p) hw
  refine ⟨h.1, h.2, ?_, ?_⟩
  · have := run_hdrEvents_stable r (renderOps enc o r.w.head status p) hw
    have hfn : isHdrEv = UEv.isHdr := by
      funext e; cases e <;> rfl
    rw [hfn] at this; exact this
  · simp only [render, run_body, renderOps, written_append, written, written_bodyOps]
    simp

/-! ### "the renderer is available to every handler that runs after the Renderer middleware
        in the same request" -/

/-- After `Renderer(o)` ran in request `rid`, at every later moment (whatever handlers of this
    or of other requests ran in between, as long as no second `Renderer` of this request
    replaced it) a handler of `rid` asking for `Render` gets the renderer created for `rid`
    — the one holding `rid`'s ResponseWriter — with the parsed options. -/
theorem renderer_visible_later (g : Scope) (evs : List (Nat × H)) (rid : Nat)
    (pre : List H) (o : Opts) (post : List H)
    (hown : ownHandlers evs rid = pre ++ H.renderer o :: post)
    (hpost : ∀ h ∈ post, h.isRenderer = false) :
    ((Inst.new g).run evs).resolveIn rid .render = some (.render rid o.parse) := by
  have hs : ((Inst.new g).run evs).reqs rid =
      runHandlers rid (H.run rid (runHandlers rid (initScope rid) pre) (.renderer o)) post := by
    rw [inst_run_reqs]
    show runHandlers rid (initScope rid) (ownHandlers evs rid) = _
    rw [hown, runHandlers_append]; rfl
  simp only [Inst.resolveIn, resolve, hs, runHandlers_nonRenderer_lookup _ _ _ hpost, H.run,
    lookup_mapTo_same]

/-- … and not for other requests: when the instance itself has no `Render` bound, a request in
    which no `Renderer` ran resolves nothing (in Go: the handler's injection fails), however
    many other requests had theirs; and whatever a request does resolve is its OWN renderer,
    never one holding another request's ResponseWriter. -/
theorem renderer_not_visible_elsewhere (g : Scope) (evs : List (Nat × H)) (rid : Nat)
    (hg : g.lookup .render = none) :
    ((∀ h ∈ ownHandlers evs rid, h.isRenderer = false) →
        ((Inst.new g).run evs).resolveIn rid .render = none) ∧
    (∀ v, ((Inst.new g).run evs).resolveIn rid .render = some v → ∃ o, v = .render rid o) := by
  have hs : ((Inst.new g).run evs).reqs rid = runHandlers rid (initScope rid) (ownHandlers evs rid) := by
    rw [inst_run_reqs]; rfl
  have hgl : ((Inst.new g).run evs).global = g := inst_run_global _ _
  constructor
  · intro hn
    simp only [Inst.resolveIn, resolve, hs, hgl, runHandlers_nonRenderer_lookup _ _ _ hn, hg]
    simp [initScope, Scope.lookup]
  · intro v hv
    simp only [Inst.resolveIn, resolve, hs, hgl, hg] at hv
    rcases lookup_render_own rid (ownHandlers evs rid) (initScope rid)
        (Or.inl (by simp [initScope, Scope.lookup])) with h | ⟨o, h⟩
    · rw [h] at hv; simp at hv
    · rw [h] at hv; simp at hv; exact ⟨o, hv.symm⟩

/-! ### non-vacuity: concrete runs meet the hypotheses and show the shapes -/

/-- a toy encoder pair: JSON writes `v` and a newline in one Write, XML fails on 0 after one chunk -/
def toyEnc : Encoder Nat where
  json _ _ v := { chunks := [[UInt8.ofNat v, 10]] }
  xml _ _ v := if v = 0 then { chunks := [[60]], err := some b!"bad" } else { chunks := [[60], [62]] }

example :
    let r := Resp.init false
    let o : Opts := { charset := b!"gbk" }
    r.Fresh ∧
    (render toyEnc o.parse 404 (.binary [0, 255, 7]) r).body = [0, 255, 7] ∧
    (render toyEnc o.parse 404 (.binary [0, 255, 7]) r).w.status = 404 ∧
    (render toyEnc o.parse 404 (.binary [0, 255, 7]) r).sentContentType = some b!"application/octet-stream" ∧
    (render toyEnc o.parse 201 (.plainText b!"hi") r).sentContentType = some b!"text/plain; charset=gbk" ∧
    (render toyEnc ({} : Opts).parse 201 (.json 65) r).sentContentType = some b!"application/json; charset=utf-8" ∧
    (render toyEnc o.parse 201 (.json 65) r).body = [65, 10] ∧
    -- encoder failure after WriteHeader(201): 201 stands, the client's type stays, live map says text/plain
    (render toyEnc o.parse 201 (.xml 0) r).w.status = 201 ∧
    (render toyEnc o.parse 201 (.xml 0) r).sentContentType = some b!"text/xml; charset=gbk" ∧
    (render toyEnc o.parse 201 (.xml 0) r).liveContentType = some b!"text/plain; charset=utf-8" ∧
    (render toyEnc o.parse 201 (.xml 0) r).body = [60] ++ b!"bad" ++ [10] ∧
    (render toyEnc o.parse 201 (.xml 0) r).w.under = [.hdr 201, .body 1, .body 4] ∧
    -- HEAD: status and type, no body
    (render toyEnc o.parse 201 (.plainText b!"hi") (Resp.init true)).body = [] ∧
    -- something written before: 202 stands
    (render toyEnc o.parse 500 (.plainText b!"hi") (r.run [.writeHeader 202, .write b!"x"])).w.status = 202 ∧
    (render toyEnc o.parse 500 (.plainText b!"hi") (r.run [.writeHeader 202, .write b!"x"])).body = b!"xhi" ∧
    (render toyEnc o.parse 500 (.plainText b!"hi") (r.run [.writeHeader 202, .write b!"x"])).sentContentType = none := by
  refine ⟨fresh_init false, ?_, ?_, ?_, ?_, ?_, ?_, ?_, ?_, ?_, ?_, ?_, ?_, ?_, ?_, ?_⟩ <;> decide

example :
    let evs : List (Nat × H) :=
      [(1, .probe), (2, .renderer { charset := b!"gbk" }), (1, .renderer {}), (2, .mapOther 5 6), (1, .probe), (3, .probe)]
    ownHandlers evs 1 = [.probe] ++ H.renderer {} :: [.probe] ∧
    ((Inst.new []).run evs).resolveIn 1 .render = some (.render 1 { charset := b!"utf-8" }) ∧
    ((Inst.new []).run evs).resolveIn 2 .render = some (.render 2 { charset := b!"gbk" }) ∧
    ((Inst.new []).run evs).resolveIn 3 .render = none ∧
    ((Inst.new []).run (evs.take 2)).resolveIn 1 .render = none := by
  refine ⟨by decide, by decide, by decide, by decide, by decide⟩

end Flamego.Render
