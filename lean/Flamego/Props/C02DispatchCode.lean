/-
  Props/C02DispatchCode.lean — the calls on a tree's children, closed: in the translation of `baseTree`'s matcher
  (Gen/BaseTreeCode.lean) a method call on a child — an interface value — stands for a function of Code/LibTree.lean.  This
  file shows, kind by kind, that each of those functions IS the translated body of the method Go dispatches to, run on the
  child: what is left to trust between the levels of the tree is Go's dynamic dispatch itself (which method an interface
  value runs is decided by its dynamic type, and the kind of node built for a segment by `newTree` / `newLeaf`, whose
  decision is C01Code's subject).

    * leaves: `static_is_lib`, `hole_is_lib`, `regex_is_lib`, `all_is_lib` — `l.match(segment, params, header)`;
      `all_matchAll_is_lib` — `leaf.(*matchAllLeaf).matchAll(…)`;
    * subtrees: `staticTree_match_is_lib`, `regexTree_match_is_lib`, `holeTree_match_is_lib` — `st.match(segment, params)`;
      `next_is_lib` — `st.matchNextSegment(…)` is the translated `baseTree.matchNextSegment` on the child's own fields;
      `C08AllTreeCode.matchAll_is_lib` — `st.(*matchAllTree).matchAll(…)`.
-/
import Flamego.Props.C02LeafCode
import Flamego.Props.C01LeafCode
import Flamego.Props.C02TreeCode
import Flamego.Props.C02BaseTreeCode
import Flamego.Props.C08AllTreeCode
import Flamego.Props.C06Code
import Flamego.Gen.StaticTreeCode
set_option linter.unusedSimpArgs false
set_option linter.unusedVariables false
namespace Flamego.C02DispatchCode
open Flamego.GoSem

variable (E : Engine) (hok : Nat → Bool)

/-! ### leaves -/

theorem static_is_lib (hdrOK : Gen.StaticLeafCode.staticLeaf → Lib.Header → Bool) (l : Gen.StaticLeafCode.staticLeaf)
    (hid : Nat) (r : Route) (seg : Bytes) (ps : Params) (header : Lib.Header) (hh : hdrOK l header = hok hid) :
    Lib.Leaf_match E hok (C02LeafCode.mkLeaf (.static l.literals) hid r) seg ps header
      = ((Gen.StaticLeafCode.«match» hdrOK l seg ps header).1, ps) := by
  have h := (C02LeafCode.static_leaf_refines E hok hdrOK l hid r seg ps ps header hh).1
  simp only [Lib.Leaf_match, h]
  cases (Gen.StaticLeafCode.«match» hdrOK l seg ps header).1 <;> rfl

theorem hole_is_lib (hdrOK : Gen.HoleLeafCode.placeholderLeaf → Lib.Header → Bool) (l : Gen.HoleLeafCode.placeholderLeaf)
    (hid : Nat) (r : Route) (seg : Bytes) (ps : Params) (header : Lib.Header) (hh : hdrOK l header = hok hid) :
    Lib.Leaf_match E hok (C02LeafCode.mkLeaf (.hole l.bind) hid r) seg ps header
      = (Gen.HoleLeafCode.«match» hdrOK l seg ps header).1 := by
  have h := (C02LeafCode.hole_leaf_refines E hok hdrOK l hid r seg ps header hh).1
  simp only [Lib.Leaf_match]
  cases hm : leafMatch E hok (C02LeafCode.mkLeaf (.hole l.bind) hid r) seg ps with
  | some ps' => rw [hm] at h; exact h.symm
  | none => rw [hm] at h; exact h.symm

theorem regex_is_lib (hdrOK : Gen.RegexLeafCode.regexLeaf → Lib.Header → Bool) (l : Gen.RegexLeafCode.regexLeaf)
    (hid : Nat) (r : Route) (seg : Bytes) (ps : Params) (header : Lib.Header) (hh : hdrOK l header = hok hid) :
    Lib.Leaf_match E hok (C02LeafCode.mkLeaf (.regex l.regexp l.binds) hid r) seg ps header
      = (Gen.RegexLeafCode.«match» E hdrOK l seg ps header).1 := by
  have h := (C02LeafCode.regex_leaf_refines E hok hdrOK l hid r seg ps header hh).1
  simp only [Lib.Leaf_match]
  cases hm : leafMatch E hok (C02LeafCode.mkLeaf (.regex l.regexp l.binds) hid r) seg ps with
  | some ps' => rw [hm] at h; exact h.symm
  | none => rw [hm] at h; exact h.symm

theorem all_is_lib (hdrOK : Gen.AllLeafCode.matchAllLeaf → Lib.Header → Bool) (l : Gen.AllLeafCode.matchAllLeaf)
    (hid : Nat) (r : Route) (seg : Bytes) (ps : Params) (header : Lib.Header) (hh : hdrOK l header = hok hid) :
    Lib.Leaf_match E hok (C01LeafCode.leafOf l hid r) seg ps header
      = (Gen.AllLeafCode.«match» hdrOK l seg ps header).1 := by
  rw [(C01LeafCode.match_refines hdrOK l seg ps header).1, hh]
  simp only [Lib.Leaf_match, leafMatch, C01LeafCode.leafOf]
  by_cases hk : hok hid = true
  · simp [hk]
  · simp [hk]

theorem all_matchAll_is_lib (hdrOK : Gen.AllLeafCode.matchAllLeaf → Lib.Header → Bool) (l : Gen.AllLeafCode.matchAllLeaf)
    (hid : Nat) (r : Route) (path seg : Bytes) (next : Nat) (ps : Params) (header : Lib.Header)
    (hh : hdrOK l header = hok hid) (h1 : 1 ≤ next) (h2 : next ≤ path.length) :
    Lib.Leaf_matchAll hok (C01LeafCode.leafOf l hid r) path seg (next : Int) ps header
      = (Gen.AllLeafCode.matchAll hdrOK l path seg (next : Int) ps header).1 := by
  obtain ⟨hm, hf, _⟩ := C01LeafCode.matchAll_refines hdrOK hok l hid r [] path seg next ps header hh h1 h2
  simp only [List.nil_append] at hm
  simp only [Lib.Leaf_matchAll, Int.toNat_natCast, hm]
  cases hb : (Gen.AllLeafCode.matchAll hdrOK l path seg (next : Int) ps header).1.1 with
  | true =>
    simp only [if_true]
    exact Prod.ext hb.symm rfl
  | false =>
    simp only [Bool.false_eq_true, if_false]
    exact Prod.ext hb.symm (hf hb).symm

/-! ### subtrees -/

theorem regexTree_match_is_lib (key : Bytes) (t : Gen.RegexTreeCode.regexTree) (subs : List Node) (leaves : List Leaf)
    (seg : Bytes) (ps : Params) :
    Lib.Tree_match E (Node.mk key (.regex t.regexp t.binds) subs leaves) seg ps = (Gen.RegexTreeCode.«match» E t seg ps).1 := by
  have h := (C02TreeCode.tree_match_refines E t seg ps).2
  simp only [Lib.Tree_match, Node.pat]
  cases hm : treeMatch E (.regex t.regexp t.binds) seg ps with
  | some ps' => rw [hm] at h; exact h.symm
  | none => rw [hm] at h; exact h.symm

theorem holeTree_match_is_lib (key : Bytes) (t : Gen.HoleTreeCode.placeholderTree) (subs : List Node) (leaves : List Leaf)
    (seg : Bytes) (ps : Params) :
    Lib.Tree_match E (Node.mk key (.hole t.bind) subs leaves) seg ps = (Gen.HoleTreeCode.«match» t seg ps).1 := by
  obtain ⟨h1, _, h3, _⟩ := C02TreeCode.hole_match_refines E t seg ps
  simp only [Lib.Tree_match, Node.pat, h3, h1]

/-- `staticTree.match`: the segment's canonical text without its leading "/" against the request's segment — for an inner
(non-optional) static segment that text is the literal of the model's pattern, whether or not the segment's memo is filled -/
theorem staticTree_match_is_lib (key : Bytes) (t : Gen.StaticTreeCode.staticTree) (lit : Bytes)
    (g : Gen.SegStringCode.Segment) (hg : t.baseTree.segment = some g) (hm : C06Code.Memo ⟨false, [.ident lit]⟩ g)
    (subs : List Node) (leaves : List Leaf) (seg : Bytes) (ps : Params) :
    Lib.Tree_match E (Node.mk key (.static lit) subs leaves) seg ps = ((Gen.StaticTreeCode.«match» t seg ps).1, ps)
      ∧ (Gen.StaticTreeCode.«match» t seg ps).2 = t := by
  have hs : Gen.StaticTreeCode.segString t.baseTree.segment = (⟨false, [.ident lit]⟩ : Flamego.Segment).render := by
    rw [hg]; exact (C06Code.seg_string_memo _ g hm).1
  have hr : (⟨false, [.ident lit]⟩ : Flamego.Segment).render = (47 : UInt8) :: lit := by
    simp [Segment.render, Elem.render, C06Code.B_slash]
  refine ⟨?_, rfl⟩
  simp only [Lib.Tree_match, Node.pat, treeMatch, Gen.StaticTreeCode.«match», hs, hr, GoSem.sliceFrom]
  by_cases h : lit = seg
  · simp [h]
  · have : (lit == seg) = false := by simpa using h
    simp [h, this]

/-- `st.matchNextSegment(path, next, params, header)` on a child is the translated `baseTree.matchNextSegment` run on the
child's own subtrees and leaves (whenever the model does not panic) -/
theorem next_is_lib (t : Gen.BaseTreeCode.baseTree) (st : Node) (hs : t.subtrees = st.subs) (hl : t.leaves = st.leaves)
    (path : Bytes) (next : Nat) (ps : Params) (header : Lib.Header) (r : Option Leaf × Params)
    (hr : matchNextIdx E hok st.subs st.leaves path next ps = .ok r) :
    Lib.Tree_matchNextSegment E hok st path (next : Int) ps header
      = (Gen.BaseTreeCode.matchNextSegment E hok t path (next : Int) ps header).1 := by
  rw [C02BaseTreeCode.matchNextSegment_refines E hok t path next ps header r (by rw [hs, hl]; exact hr)]
  simp only [Lib.Tree_matchNextSegment, Int.toNat_natCast, hr, C02BaseTreeCode.resOf_ok]

end Flamego.C02DispatchCode
