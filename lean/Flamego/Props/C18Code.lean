/-
  Props/C18Code.lean — C18 at the level of the CODE.

  `Gen/ContextCode.lean` is regenerated from context.go on every run (/verif/translator: gocode.go, contextcode.go): the
  `context` struct field by field and the bodies of Param, ParamInt, ParamInt64, Query, QueryTrim, QueryStrings,
  QueryUnescape, QueryBool, QueryInt, QueryInt64, Cookie and RemoteAddr as pure functions, with the library calls they
  make standing for the models of Code/LibHTTP.lean.  For every context, name and list of variadic defaults this file proves

    * the generated accessor returns exactly what the hand-written accessor of Model/Access returns (`…_refines`) — the
      functions the `*_rule` theorems of Props/C18 are about — so the property's one rule holds of the code's own bodies
      (`code_query_rule` … below);
    * and it leaves the context as it was (`…_pure`): reading request data changes nothing.

  NOT covered here (and said so in Code/GoSem.lean): a panic on an out-of-range index — `defaultVal[0]` is guarded by
  `len(defaultVal) > 0` in every body, which the theorems use, but the translation does not represent panics; "never
  panics" stays with the correspondence check.  QueryFloat64, SetCookie and Redirect are outside the translated subset.
-/
import Flamego.Gen.ContextCode
import Flamego.Props.C18
set_option linter.unusedSimpArgs false
set_option linter.unusedVariables false
namespace Flamego.C18Code
open Flamego.GoSem Flamego.Gen.ContextCode Flamego.Access

/-- the parsed query of the request a context carries -/
def qOf (c : context) : Query := parseQuery c.request.rawQuery

/-- a variadic `defaultVal ...T` as the model's `Option T`: the first one passed, if any -/
def dflt (d : List α) : Option α := d.head?

/-! ### the library models against the model's own helpers -/

theorem mapGet_param (ps : List (Bytes × Bytes)) (name : Bytes) : GoSem.mapGet ps name = param ps name := by
  unfold GoSem.mapGet param pLookup
  cases h : List.find? (fun kv => kv.1 == name) ps <;> simp [h] <;> rfl

theorem idx_zero [Inhabited α] (d : List α) (h : 0 < d.length) : GoSem.idx d 0 = d.head (by intro h'; simp [h'] at h) := by
  cases d with
  | nil => simp at h
  | cons x xs => simp [GoSem.idx]

theorem find_key (name : Bytes) (ks : List Bytes) :
    ks.find? (fun k => k == name) = if name ∈ ks then some name else none := by
  induction ks with
  | nil => simp
  | cons k ks ih =>
    by_cases h : k = name
    · subst h; simp
    · have h' : (k == name) = false := by simpa using h
      have h'' : ¬ name = k := fun e => h e.symm
      simp [List.find?_cons, h', ih, h'']

theorem mem_keys (q : Query) (name : Bytes) : name ∈ (q.map (·.1)).eraseDups ↔ qValues q name ≠ [] := by
  rw [List.mem_eraseDups]
  induction q with
  | nil => simp [qValues]
  | cons kv q ih =>
    by_cases h : kv.1 = name
    · subst h; simp [qValues]
    · have h' : (kv.1 == name) = false := by simpa using h
      have h'' : ¬ name = kv.1 := fun e => h e.symm
      simp only [List.map_cons, List.mem_cons, h'', false_or, ih]
      simp [qValues, List.filter_cons, h']

theorem head_values (q : Query) (name : Bytes) : (qValues q name).head?.getD [] = qGet q name := by
  induction q with
  | nil => simp [qValues, qGet, qLookup]
  | cons kv q ih =>
    by_cases h : kv.1 = name
    · subst h; simp [qValues, qGet, qLookup]
    · have h' : (kv.1 == name) = false := by simpa using h
      simp only [qValues, qGet, qLookup, List.filter_cons, h', Bool.false_eq_true, if_false, List.find?_cons] at ih ⊢
      exact ih

/-- the entry of a key in the grouped values -/
theorem find_group (q : Query) (name : Bytes) :
    (Lib.groupValues q).find? (fun kv => kv.1 == name)
      = if qValues q name ≠ [] then some (name, qValues q name) else none := by
  unfold Lib.groupValues
  rw [List.find?_map]
  have : ((fun kv : Bytes × List Bytes => kv.1 == name) ∘ fun k => (k, qValues q k)) = fun k => k == name := rfl
  rw [this, find_key]
  by_cases h : name ∈ (q.map (·.1)).eraseDups
  · simp [h, (mem_keys q name).mp h]
  · have : qValues q name = [] := by
      by_cases e : qValues q name = []
      · exact e
      · exact absurd ((mem_keys q name).mpr e) h
    simp [h, this]

theorem firstOf_group (q : Query) (name : Bytes) : Lib.firstOf (Lib.groupValues q) name = qGet q name := by
  unfold Lib.firstOf
  rw [find_group, ← head_values]
  by_cases h : qValues q name = []
  · simp [h]
  · cases hv : qValues q name with
    | nil => exact absurd hv h
    | cons v vs => simp [hv]

theorem range_group (q : Query) (name : Bytes) :
    GoSem.forRangeRet (Lib.groupValues q) (fun (k, v) => if (k == name) then some v else none)
      = if qValues q name ≠ [] then some (qValues q name) else none := by
  unfold GoSem.forRangeRet
  have hlam : (fun (p : Bytes × List Bytes) => match p with | (k, v) => if (k == name) then some v else none)
      = fun kv => if (kv.1 == name) then some kv.2 else none := by
    funext ⟨k, v⟩; rfl
  have hgen : ∀ (L : List (Bytes × List Bytes)),
      L.findSome? (fun kv => if (kv.1 == name) then some kv.2 else none)
        = (L.find? (fun kv => kv.1 == name)).map (·.2) := by
    intro L
    induction L with
    | nil => simp
    | cons kv L ih =>
      by_cases h : kv.1 = name
      · simp [List.findSome?_cons, List.find?_cons, h]
      · have h' : (kv.1 == name) = false := by simpa using h
        rw [List.findSome?_cons, List.find?_cons]
        simp only [h', Bool.false_eq_true, if_false]
        exact ih
  rw [hlam]
  rw [hgen, find_group]
  by_cases h : qValues q name = [] <;> simp [h]

theorem lastIndexByte_colon (s : Bytes) : Lib.lastIndexByte 58 s = lastColon s := by
  induction s with
  | nil => rfl
  | cons c cs ih => cases h : lastColon cs <;> simp [Lib.lastIndexByte, lastColon, ih, h]

/-! ### accessor by accessor: the code's body computes the model's accessor and changes nothing -/

theorem param_refines (c : context) (name : Bytes) :
    (Param c name).1 = param c.params name ∧ (Param c name).2 = c :=
  ⟨mapGet_param _ _, rfl⟩

theorem paramInt_refines (c : context) (name : Bytes) :
    (ParamInt c name).1 = paramInt c.params name ∧ (ParamInt c name).2 = c := by
  simp [ParamInt, Param, paramInt, mapGet_param, Lib.strconv_Atoi]

theorem paramInt64_refines (c : context) (name : Bytes) :
    (ParamInt64 c name).1 = paramInt64 c.params name ∧ (ParamInt64 c name).2 = c := by
  simp [ParamInt64, Param, paramInt64, mapGet_param, Lib.strconv_ParseInt, paramInt64Bits, Gen.paramInt64BitSize]

/-- what every `Query…` body starts with: `v == "" && len(defaultVal) > 0` picks `defaultVal[0]` -/
theorem pick_default [Inhabited α] (v : Bytes) (d : List α) (f : α) :
    (if ((v == ([] : Bytes)) && (decide ((d.length : Int) > 0))) then GoSem.idx d 0 else f)
      = (match dflt d with | some dv => if v = [] then dv else f | none => f) := by
  cases d with
  | nil => simp [dflt]
  | cons x xs =>
    have : ((((x :: xs).length : Nat) : Int) > 0) := by simp
    by_cases hv : v = [] <;> simp [dflt, hv, GoSem.idx, this]

theorem ite_pair (b : Bool) (x y : α) (c : σ) :
    (if b then (x, c) else (y, c)) = ((if b then x else y), c) := by cases b <;> rfl

theorem values_get (c : context) (name : Bytes) :
    Lib.Values_Get (Lib.URL_Query (Lib.Request_URL c.request)) name = qGet (qOf c) name := by
  simp [Lib.Values_Get, Lib.URL_Query, Lib.Request_URL, firstOf_group, qOf]

theorem query_refines (c : context) (name : Bytes) (d : List Bytes) :
    (Gen.ContextCode.Query c name d).1 = query (qOf c) name (dflt d) ∧ (Gen.ContextCode.Query c name d).2 = c := by
  simp only [Gen.ContextCode.Query, Request, ite_pair, pick_default, values_get, and_true]
  unfold query
  cases dflt d <;> rfl

/-- `c.Query(name)` as the other accessors call it: no default -/
theorem query_nodefault (c : context) (name : Bytes) :
    Gen.ContextCode.Query c name [] = (query (qOf c) name none, c) := by
  have h := query_refines c name []
  exact Prod.ext h.1 h.2

theorem queryTrim_refines (c : context) (name : Bytes) (d : List Bytes) :
    (QueryTrim c name d).1 = queryTrim (qOf c) name (dflt d) ∧ (QueryTrim c name d).2 = c := by
  simp only [QueryTrim, query_nodefault, ite_pair, pick_default, and_true, Lib.strings_TrimSpace]
  unfold queryTrim
  cases dflt d <;> rfl

theorem queryUnescape_refines (c : context) (name : Bytes) (d : List Bytes) :
    (QueryUnescape c name d).1 = queryUnescapeAcc (qOf c) name (dflt d) ∧ (QueryUnescape c name d).2 = c := by
  have hu : ∀ v, (Lib.url_QueryUnescape v).1 = (queryUnescape v).getD [] := by
    intro v; unfold Lib.url_QueryUnescape; cases queryUnescape v <;> rfl
  simp only [QueryUnescape, query_nodefault, ite_pair, pick_default, and_true, hu]
  unfold queryUnescapeAcc
  cases dflt d <;> rfl

theorem queryBool_refines (c : context) (name : Bytes) (d : List Bool) :
    (QueryBool c name d).1 = queryBool (qOf c) name (dflt d) ∧ (QueryBool c name d).2 = c := by
  simp only [QueryBool, query_nodefault, ite_pair, pick_default, and_true, Lib.strconv_ParseBool]
  unfold queryBool
  cases dflt d <;> rfl

theorem queryInt_refines (c : context) (name : Bytes) (d : List Int) :
    (QueryInt c name d).1 = queryInt (qOf c) name (dflt d) ∧ (QueryInt c name d).2 = c := by
  simp only [QueryInt, query_nodefault, ite_pair, pick_default, and_true, Lib.strconv_ParseInt]
  unfold queryInt queryIntBits
  cases dflt d <;> simp [Gen.queryIntBitSize]

theorem queryInt64_refines (c : context) (name : Bytes) (d : List Int) :
    (QueryInt64 c name d).1 = queryInt64 (qOf c) name (dflt d) ∧ (QueryInt64 c name d).2 = c := by
  simp only [QueryInt64, query_nodefault, ite_pair, pick_default, and_true, Lib.strconv_ParseInt]
  unfold queryInt64 queryInt64Bits
  cases dflt d <;> simp [Gen.queryInt64BitSize]

theorem queryStrings_refines (c : context) (name : Bytes) (d : List (List Bytes)) :
    (QueryStrings c name d).1 = queryStrings (qOf c) name (dflt d) ∧ (QueryStrings c name d).2 = c := by
  have hr := range_group (qOf c) name
  simp only [QueryStrings, Request, Lib.URL_Query, Lib.Request_URL]
  simp only [qOf] at hr
  rw [hr]
  unfold queryStrings
  by_cases hq : qValues (parseQuery c.request.rawQuery) name = []
  · simp only [hq, ne_eq, not_true_eq_false, if_false, qOf]
    cases d with
    | nil => simp [dflt]
    | cons x xs =>
      have : ((((x :: xs).length : Nat) : Int) > 0) := by simp
      simp [dflt, GoSem.idx, this]
  · simp only [hq, ne_eq, not_false_eq_true, if_true, qOf, and_true]

theorem cookie_refines (c : context) (name : Bytes) :
    (Cookie c name).1 = cookie c.request.cookieLines name ∧ (Cookie c name).2 = c := by
  cases hrc : requestCookie c.request.cookieLines name with
  | none =>
    have h1 : Lib.Request_Cookie c.request name = (default, 1) := by simp [Lib.Request_Cookie, hrc]
    simp [Cookie, Request, h1, cookie, hrc]
  | some v =>
    have h1 : Lib.Request_Cookie c.request name = ({ value := v }, 0) := by simp [Lib.Request_Cookie, hrc]
    simp only [Cookie, Request, h1, cookie, hrc, unescapeOrRaw, Lib.Cookie_Value, Lib.url_QueryUnescape]
    cases hq : queryUnescape v <;> simp [hq]

/-- "X-Real-IP" and "X-Forwarded-For", as bytes -/
def xRealIP : Bytes := [88, 45, 82, 101, 97, 108, 45, 73, 80]
def xForwardedFor : Bytes := [88, 45, 70, 111, 114, 119, 97, 114, 100, 101, 100, 45, 70, 111, 114]
example : xRealIP = "X-Real-IP".toList.map (fun ch => ch.toNat.toUInt8)
    ∧ xForwardedFor = "X-Forwarded-For".toList.map (fun ch => ch.toNat.toUInt8) := by decide

theorem remoteAddr_refines (c : context) :
    (RemoteAddr c).1 = remoteAddr (Lib.Header_Get c.request.header xRealIP)
        (Lib.Header_Get c.request.header xForwardedFor) c.request.remoteAddr
      ∧ (RemoteAddr c).2 = c := by
  simp only [RemoteAddr, Request, Lib.Request_Header, Lib.Request_RemoteAddr, remoteAddr, Lib.strings_LastIndex,
    lastIndexByte_colon, xRealIP, xForwardedFor]
  split
  · rename_i h1
    have h1' : Lib.Header_Get c.request.header [88, 45, 82, 101, 97, 108, 45, 73, 80] ≠ [] := by simpa using h1
    simp [h1']
  · rename_i h1
    have h1' : Lib.Header_Get c.request.header [88, 45, 82, 101, 97, 108, 45, 73, 80] = [] := by simpa using h1
    split
    · rename_i h2
      have h2' : Lib.Header_Get c.request.header [88, 45, 70, 111, 114, 119, 97, 114, 100, 101, 100, 45, 70, 111, 114] ≠ [] := by
        simpa using h2
      simp [h1', h2']
    · rename_i h2
      have h2' : Lib.Header_Get c.request.header [88, 45, 70, 111, 114, 119, 97, 114, 100, 101, 100, 45, 70, 111, 114] = [] := by
        simpa using h2
      simp only [h1', h2', ne_eq, not_true_eq_false, if_false]
      cases hl : lastColon c.request.remoteAddr with
      | none => simp
      | some i =>
        have : ((i : Int) > -1) := by omega
        simp [this, GoSem.sliceTo]

/-! ### THE rule of C18, of the code's own bodies

`accessRule raw conv dflt zero`: present and non-empty → the converted value; absent or empty → the caller's default, or
the zero value when none was given (Model/Access).  `raw` is what the request carries under the name. -/

theorem code_param_rule (c : context) (n : Bytes) :
    (Param c n).1 = accessRule (pLookup c.params n) id none [] := by
  rw [(param_refines c n).1, Access.param_rule]

theorem code_paramInt_rule (c : context) (n : Bytes) :
    (ParamInt c n).1 = accessRule (pLookup c.params n) (fun v => (atoi v).1) none 0 := by
  rw [(paramInt_refines c n).1, Access.paramInt_rule]

theorem code_paramInt64_rule (c : context) (n : Bytes) :
    (ParamInt64 c n).1 = accessRule (pLookup c.params n) (fun v => (parseInt 64 v).1) none 0 := by
  rw [(paramInt64_refines c n).1, Access.paramInt64_rule]

theorem code_query_rule (c : context) (n : Bytes) (d : List Bytes) :
    (Gen.ContextCode.Query c n d).1 = accessRule (qLookup (qOf c) n) id (dflt d) [] := by
  rw [(query_refines c n d).1, Access.query_rule]

theorem code_queryTrim_rule (c : context) (n : Bytes) (d : List Bytes) :
    (QueryTrim c n d).1 = accessRule (qLookup (qOf c) n) trimSpace (dflt d) [] := by
  rw [(queryTrim_refines c n d).1, Access.queryTrim_rule]

theorem code_queryUnescape_rule (c : context) (n : Bytes) (d : List Bytes) :
    (QueryUnescape c n d).1 = accessRule (qLookup (qOf c) n) (fun v => (queryUnescape v).getD []) (dflt d) [] := by
  rw [(queryUnescape_refines c n d).1, Access.queryUnescape_rule]

theorem code_queryBool_rule (c : context) (n : Bytes) (d : List Bool) :
    (QueryBool c n d).1 = accessRule (qLookup (qOf c) n) (fun v => (parseBool v).1) (dflt d) false := by
  rw [(queryBool_refines c n d).1, Access.queryBool_rule]

theorem code_queryInt_rule (c : context) (n : Bytes) (d : List Int) :
    (QueryInt c n d).1 = accessRule (qLookup (qOf c) n) (fun v => (parseInt intSize v).1) (dflt d) 0 := by
  rw [(queryInt_refines c n d).1, Access.queryInt_rule]

theorem code_queryInt64_rule (c : context) (n : Bytes) (d : List Int) :
    (QueryInt64 c n d).1 = accessRule (qLookup (qOf c) n) (fun v => (parseInt 64 v).1) (dflt d) 0 := by
  rw [(queryInt64_refines c n d).1, Access.queryInt64_rule]

theorem code_queryStrings_rule (c : context) (n : Bytes) (d : List (List Bytes)) :
    (QueryStrings c n d).1 = accessRule (qAll (qOf c) n) id (dflt d) [] := by
  rw [(queryStrings_refines c n d).1, Access.queryStrings_rule]

theorem code_cookie_rule (c : context) (n : Bytes) :
    (Cookie c n).1 = accessRule (requestCookie c.request.cookieLines n) unescapeOrRaw none [] := by
  rw [(cookie_refines c n).1, Access.cookie_rule]

/-! ### `SetCookie`: the write side of the cookie round trip -/

/-- "Set-Cookie", as bytes -/
def setCookieKey : Bytes := [83, 101, 116, 45, 67, 111, 111, 107, 105, 101]

/-- `SetCookie(cookie)` makes exactly one call on the response writer: `Header().Add("Set-Cookie", line)` with the line
Model/Access calls `setCookieHeader name value` — the value query-escaped, then printed by `Cookie.String()` — and
touches nothing else -/
theorem setCookie_refines (c : context) (ck : Lib.Cookie) :
    (SetCookie c ck).2 = { c with responseWriter :=
        (Env.record c.responseWriter ("Header.Add", [Arg.bytes setCookieKey, Arg.bytes (setCookieHeader ck.name ck.value)])) } := by
  simp [SetCookie, envCall_responseWriter, Env.call, Env.record, setCookieKey, setCookieHeader, Lib.Cookie_String,
    Lib.Cookie_setValue, Lib.Cookie_Value, Lib.url_QueryEscape]

/-- the header line a `SetCookie` call added, as the user agent sees it -/
def lastSetCookie (c : context) : Bytes := ((c.responseWriter.trace.getLast?.map (·.2)).getD []).getLast?.map Arg.toBytes |>.getD []

/-- THE ROUND TRIP, from the code's own bodies: what `SetCookie` wrote (`setCookie_refines`), echoed by the user agent,
is what `Cookie(name)` reads on the next request (`cookie_refines`) — byte for byte, for every value -/
theorem code_cookie_roundtrip (c c' : context) (n s : Bytes) (hn : cookieNameValid n = true)
    (hnext : c'.request.cookieLines = [clientEcho (lastSetCookie (SetCookie c { name := n, value := s }).2)]) :
    (Cookie c' n).1 = s := by
  rw [(cookie_refines c' n).1, hnext, setCookie_refines]
  simp only [lastSetCookie, Env.record, List.getLast?_append, List.getLast?_singleton, Option.map_some, Option.getD_some,
    Option.some_or]
  simp only [List.getLast?, List.getLast, Option.map_some, Option.getD_some, Arg.toBytes_bytes]
  exact cookie_roundtrip n hn s

/-- reading request data changes nothing: every translated accessor returns the context it was given -/
theorem code_accessors_pure (c : context) (n : Bytes) (ds : List Bytes) (db : List Bool) (di : List Int)
    (dl : List (List Bytes)) :
    (Param c n).2 = c ∧ (ParamInt c n).2 = c ∧ (ParamInt64 c n).2 = c ∧ (Gen.ContextCode.Query c n ds).2 = c
      ∧ (QueryTrim c n ds).2 = c ∧ (QueryUnescape c n ds).2 = c ∧ (QueryBool c n db).2 = c ∧ (QueryInt c n di).2 = c
      ∧ (QueryInt64 c n di).2 = c ∧ (QueryStrings c n dl).2 = c ∧ (Cookie c n).2 = c ∧ (RemoteAddr c).2 = c :=
  ⟨(param_refines c n).2, (paramInt_refines c n).2, (paramInt64_refines c n).2, (query_refines c n ds).2,
   (queryTrim_refines c n ds).2, (queryUnescape_refines c n ds).2, (queryBool_refines c n db).2,
   (queryInt_refines c n di).2, (queryInt64_refines c n di).2, (queryStrings_refines c n dl).2, (cookie_refines c n).2,
   (remoteAddr_refines c).2⟩

/-! ### the definitions compute -/

def demoReq : Lib.Request :=
  { rawQuery := [110, 61, 52, 50, 38, 120, 61, 37, 50, 48, 97, 38, 110, 61, 55],   -- "n=42&x=%20a&n=7"
    header := [(xForwardedFor, [[49, 46, 50, 46, 51, 46, 52]])],                    -- X-Forwarded-For: 1.2.3.4
    remoteAddr := [91, 58, 58, 49, 93, 58, 56, 48],                                 -- "[::1]:80"
    cookieLines := [] }
def demoCtx : context := { (default : context) with request := demoReq, params := [([105, 100], [45, 53])] }

example : (QueryInt demoCtx [110] []).1 = 42 ∧ (QueryInt demoCtx [122] [9]).1 = 9 ∧ (QueryInt demoCtx [122] []).1 = 0
    ∧ (QueryStrings demoCtx [110] []).1 = [[52, 50], [55]] ∧ (QueryTrim demoCtx [120] []).1 = [97]
    ∧ (ParamInt demoCtx [105, 100]).1 = -5 ∧ (RemoteAddr demoCtx).1 = [49, 46, 50, 46, 51, 46, 52] := by decide

end Flamego.C18Code
