/-
  Props/C04.lean — dependency injection resolves every parameter by type, nearest scope first.

  Quantifier: every universe of types (`U : Universe`, i.e. every `isInterface` / `implements`
  relation `reflect` could report), every chain of scopes of any length with registrations made in
  any order (`Scope` = the registrations oldest first; Map / MapTo / Set are all `register`), every
  handler signature and struct layout over the universe, every function body, and every choice the
  Go map iteration makes when several implementors of an interface sit in one scope (`c`, `cs`).

  Reading of "the value registered … under a type implementing the interface": when one scope
  holds several implementors the Go code returns whichever its map iteration meets first, so the
  clause is stated as membership in `implementors U s t` (DESIGN.md §6, "not findings").
  Guards: registered values are valid reflect.Values; parent links are acyclic (see Model/Inject).
-/
import Flamego.Proofs.Inject

namespace Flamego.Inject

/-! ### Value: exact type, nearest scope; implementors of an interface before the parent -/

/-- "receives the value registered for exactly its type in the nearest scope": if every scope
    nearer than `s` has nothing for `t` (no exact registration and, for an interface, no
    implementor) and `s` has an exact registration, that value is the only admissible answer,
    whatever `s` holds besides (implementors included) and whatever the outer scopes hold. -/
theorem value_nearest_exact (U : Universe) (pre : List Scope) (s : Scope) (post : List Scope)
    (t : Ty) (v : Val) (hpre : ∀ s' ∈ pre, Silent U s' t) (h : lookup s t = some v) :
    valueSet U (pre ++ s :: post) t = [v] ∧ ∀ c, value U (pre ++ s :: post) t c = some v := by
  have hs : valueSet U (pre ++ s :: post) t = [v] := by
    rw [valueSet_skip U pre _ t hpre, valueSet_exact U s post t v h]
  exact ⟨hs, fun c => by simp [value, hs, pick_singleton]⟩

/-- for a type that is not an interface the answer is simply the first exact registration along
    the chain (request scope before application scope before its parent) -/
theorem value_concrete_closed_form (U : Universe) (chain : List Scope) (t : Ty)
    (hi : U.isInterface t = false) :
    valueSet U chain t = (chain.findSome? (lookup · t)).toList := by
  induction chain with
  | nil => rfl
  | cons s chain ih =>
    cases hl : lookup s t with
    | some v => simp [valueSet, hl, List.findSome?]
    | none => rw [valueSet_parent_concrete U s chain t hl hi, ih]; simp [List.findSome?, hl]

/-- "for an interface-typed parameter with no exact registration in a scope, a value registered in
    that scope under a type implementing the interface, before outer scopes are consulted":
    if the nearer scopes are silent, `s` has no exact registration for the interface `t` but holds
    some implementor, then every answer is a value currently registered in `s` under a key that
    implements `t`, an answer always exists, and the outer scopes `post` play no part. -/
theorem value_implementor_before_parent (U : Universe) (pre : List Scope) (s : Scope) (post : List Scope)
    (t : Ty) (hpre : ∀ s' ∈ pre, Silent U s' t) (hl : lookup s t = none) (hi : U.isInterface t = true)
    (k : Ty) (w : Val) (hk : U.implements k t = true) (hw : lookup s k = some w) :
    valueSet U (pre ++ s :: post) t = implementors U s t ∧
    ∀ c, ∃ v, value U (pre ++ s :: post) t c = some v ∧ ∃ k', U.implements k' t = true ∧ lookup s k' = some v := by
  have hne : implementors U s t ≠ [] := by
    intro he
    have : w ∈ implementors U s t := (mem_implementors U s t w).mpr ⟨k, hk, hw⟩
    rw [he] at this; cases this
  have hs : valueSet U (pre ++ s :: post) t = implementors U s t := by
    rw [valueSet_skip U pre _ t hpre, valueSet_impl U s post t hl hi hne]
  refine ⟨hs, fun c => ?_⟩
  cases hp : value U (pre ++ s :: post) t c with
  | none =>
    simp only [value, hs] at hp
    exact absurd ((pick_none_iff _ _).mp hp) hne
  | some v =>
    refine ⟨v, rfl, ?_⟩
    simp only [value, hs] at hp
    exact (mem_implementors U s t v).mp (pick_mem hp)

/-- … and when only one value is registered under implementing keys, it is the answer -/
theorem value_single_implementor (U : Universe) (pre : List Scope) (s : Scope) (post : List Scope)
    (t : Ty) (hpre : ∀ s' ∈ pre, Silent U s' t) (hl : lookup s t = none) (hi : U.isInterface t = true)
    (k : Ty) (w : Val) (hk : U.implements k t = true) (hw : lookup s k = some w)
    (honly : ∀ k' v, U.implements k' t = true → lookup s k' = some v → v = w) (c : Nat) :
    value U (pre ++ s :: post) t c = some w := by
  obtain ⟨v, hv, k', hk', hv'⟩ := (value_implementor_before_parent U pre s post t hpre hl hi k w hk hw).2 c
  rw [hv, honly k' v hk' hv']

/-- a scope that has neither an exact registration nor (for an interface) an implementor hands the
    question to its parent unchanged; with no scope left the value is not found -/
theorem value_falls_to_parent (U : Universe) (s : Scope) (parents : List Scope) (t : Ty)
    (h : Silent U s t) : valueSet U (s :: parents) t = valueSet U parents t ∧ valueSet U [] t = [] := by
  have := valueSet_skip U [s] parents t (by simpa using h)
  exact ⟨by simpa using this, rfl⟩

/-- the type of a parameter is matched exactly: a registration under another concrete type — even
    one with the same implementations — is never the answer for a type that is not an interface -/
theorem value_ignores_other_types (U : Universe) (s : Scope) (parents : List Scope) (t t' : Ty) (v : Val)
    (hi : U.isInterface t = false) (hne : t ≠ t') :
    valueSet U (register s t' v :: parents) t = valueSet U (s :: parents) t := by
  rw [value_concrete_closed_form U _ t hi, value_concrete_closed_form U _ t hi]
  simp [List.findSome?, lookup_register_ne s t' t v hne]

/-! ### Re-registration -/

/-- "a later registration for the same type in the same scope replaces the earlier": after
    `register s t v` the scope answers `v` for `t` whatever was registered before (under `t` or under
    implementors of `t`), and the entries of all other types are untouched. -/
theorem map_last_wins (U : Universe) (s : Scope) (parents : List Scope) (t : Ty) (v : Val) :
    lookup (register s t v) t = some v ∧
    (∀ c, value U (register s t v :: parents) t c = some v) ∧
    (∀ t', t' ≠ t → lookup (register s t v) t' = lookup s t') := by
  refine ⟨lookup_register_same s t v, fun c => ?_, fun t' h => lookup_register_ne s t t' v h⟩
  exact (value_nearest_exact U [] _ parents t v (by simp) (lookup_register_same s t v)).2 c

/-! ### Request scope and application scope -/

/-- "values mapped during a request are visible to later handlers of that request only":
    after a handler of request `i` maps `v` for `t`,
    (a) the application scope (and its ancestors) is unchanged;
    (b) every other request — already created or created later on the same Flame — is invoked with
        exactly the scope chain it had, so all its answers are unchanged;
    (c) later handlers of request `i` itself get `v` for `t`;
    (d) a request created afterwards starts from its own services and the application scope only. -/
theorem request_scope_isolated (U : Universe) (w : World) (i : Nat) (t : Ty) (v : Val) :
    (w.mapReq i t v).app = w.app ∧
    (∀ j, j ≠ i → (w.mapReq i t v).chain j = w.chain j ∧
                  ∀ t', valueSet U ((w.mapReq i t v).chain j) t' = valueSet U (w.chain j) t') ∧
    (i < w.reqs.length → ∀ c, value U ((w.mapReq i t v).chain i) t c = some v) ∧
    (∀ services, ((w.mapReq i t v).newRequest services).chain (w.reqs.length) = services :: w.app) := by
  refine ⟨rfl, ?_, ?_, ?_⟩
  · intro j hj
    have : (w.mapReq i t v).chain j = w.chain j := by
      simp only [World.chain, World.mapReq, modifyAt_get_ne _ _ i j hj]
    exact ⟨this, fun t' => by rw [this]⟩
  · intro hi c
    have : (w.mapReq i t v).chain i = register (w.reqs[i]?.getD []) t v :: w.app := by
      simp [World.chain, World.mapReq, modifyAt_get_same, List.getElem?_eq_getElem hi]
    rw [this]
    exact (map_last_wins U _ _ t v).2.1 c
  · intro services
    have hlen : (modifyAt (register · t v) w.reqs i).length = w.reqs.length := modifyAt_length _ _ _
    simp [World.chain, World.newRequest, World.mapReq, ← hlen]

/-- mapping on the Flame itself is what every request sees next (unless its own scope says otherwise),
    and it does not touch any request scope -/
theorem app_scope_shared (w : World) (t : Ty) (v : Val) (s : Scope) (rest : List Scope) (h : w.app = s :: rest) :
    (w.mapApp t v).reqs = w.reqs ∧ ∀ j, (w.mapApp t v).chain j = (w.reqs[j]?.getD []) :: register s t v :: rest := by
  simp [World.mapApp, h, World.chain]

/-! ### Invoke -/

/-- "If any parameter cannot be resolved the invocation reports an error naming the type and the
    handler body does not run": with `t` the FIRST parameter type (left to right) that has no
    admissible value, the outcome is the error naming `t` and no call — for plain functions and for
    fast invokers alike, whatever the body is and whatever the other parameters are. -/
theorem invoke_error_no_run (U : Universe) (chain : List Scope) (cs : List Nat) (h : Handler)
    (pre : List Ty) (t : Ty) (post : List Ty) (hsig : h.sig = pre ++ t :: post)
    (hpre : ∀ p ∈ pre, valueSet U chain p ≠ []) (ht : valueSet U chain t = []) :
    invoke U chain cs h = { calls := [], result := .error t } := by
  have he : resolveArgs U chain h.sig cs = .error t :=
    (resolve_error_iff U chain h.sig cs t).mpr ((argSets_error_iff U chain h.sig t).mpr ⟨pre, post, hsig, hpre, ht⟩)
  cases h with
  | plain sig body => simp only [Handler.sig] at he; simp [invoke, callInvoke, he]
  | fast sig f => simp only [Handler.sig] at he; simp [invoke, fastInvoke, he]

/-- conversely a plain function's invocation reports an error only in that situation -/
theorem invoke_error_only_unresolved (U : Universe) (chain : List Scope) (cs : List Nat)
    (sig : List Ty) (body : Body) (t : Ty)
    (h : (invoke U chain cs (.plain sig body)).result = .error t) :
    (invoke U chain cs (.plain sig body)).calls = [] ∧
    ∃ pre post, sig = pre ++ t :: post ∧ (∀ p ∈ pre, valueSet U chain p ≠ []) ∧ valueSet U chain t = [] := by
  simp only [invoke, callInvoke] at h ⊢
  cases hr : resolveArgs U chain sig cs with
  | ok args => rw [hr] at h; simp at h
  | error e =>
    rw [hr] at h; simp only [Res.error.injEq] at h; subst h
    exact ⟨rfl, (argSets_error_iff U chain sig e).mp ((resolve_error_iff U chain sig cs e).mp hr)⟩

/-- "otherwise it runs exactly once with those arguments and its results come back unchanged":
    if every parameter type has an admissible value, the body is entered exactly once, with one
    argument per parameter, each an admissible value of that parameter's type (so: the exact
    registration of the nearest scope when there is one — `value_nearest_exact`), and the result
    of the invocation is exactly what the body returned for these arguments. -/
theorem invoke_runs_once_with (U : Universe) (chain : List Scope) (cs : List Nat) (sig : List Ty) (body : Body)
    (hall : ∀ p ∈ sig, valueSet U chain p ≠ []) :
    ∃ args, invoke U chain cs (.plain sig body) = { calls := [args], result := .ok (body args) } ∧
      args.length = sig.length ∧
      ∀ i (h1 : i < args.length) (h2 : i < sig.length), args[i] ∈ valueSet U chain sig[i] := by
  cases hr : resolveArgs U chain sig cs with
  | error e =>
    obtain ⟨pre, post, hs, _, ht⟩ := (argSets_error_iff U chain sig e).mp ((resolve_error_iff U chain sig cs e).mp hr)
    exact absurd ht (hall e (by simp [hs]))
  | ok args =>
    obtain ⟨sets, hs, hm⟩ := resolve_ok_members U chain sig cs args hr
    obtain ⟨hlen, hget⟩ := argSets_ok_get U chain sig sets hs
    have hl : args.length = sig.length := by rw [members_length hm, hlen]
    refine ⟨args, by simp [invoke, callInvoke, hr], hl, ?_⟩
    intro i h1 h2
    have := members_get hm i h1 (by omega)
    rwa [hget i (by omega) h2] at this

/-- every member-wise admissible argument list is one the Go code can produce (the sets the
    correspondence check compares against are not too large) -/
theorem invoke_admissible_complete (U : Universe) (chain : List Scope) (sig : List Ty) (body : Body)
    (args : List Val) (sets : List (List Val)) (hs : argSets U chain sig = .ok sets) (hm : Members args sets) :
    ∃ cs, invoke U chain cs (.plain sig body) = { calls := [args], result := .ok (body args) } := by
  obtain ⟨cs, h⟩ := resolve_complete U chain sig sets args hs hm
  exact ⟨cs, by simp [invoke, callInvoke, h]⟩

/-- the set-valued form printed by the model driver (`argSets`) describes `invoke` for every
    iteration choice: the same error with no call, or one call whose arguments are position by
    position among the printed alternatives, results being the body's -/
theorem invoke_within_argSets (U : Universe) (chain : List Scope) (cs : List Nat) (sig : List Ty) (body : Body) :
    match argSets U chain sig with
    | .error t => invoke U chain cs (.plain sig body) = { calls := [], result := .error t }
    | .ok sets => ∃ args, Members args sets ∧
        invoke U chain cs (.plain sig body) = { calls := [args], result := .ok (body args) } := by
  cases hs : argSets U chain sig with
  | error t =>
    have := (resolve_error_iff U chain sig cs t).mpr hs
    simp [invoke, callInvoke, this]
  | ok sets =>
    cases hr : resolveArgs U chain sig cs with
    | error e => rw [(resolve_error_iff U chain sig cs e).mp hr] at hs; cases hs
    | ok args =>
      obtain ⟨sets', hs', hm⟩ := resolve_ok_members U chain sig cs args hr
      rw [hs] at hs'; injection hs' with hs'; subst hs'
      exact ⟨args, hm, by simp [invoke, callInvoke, hr]⟩

/-- "identically for plain functions and for fast-invoker wrapped ones": a function wrapped in a
    positional wrapper (the harness's, `ContextInvoker`, `httpHandlerFuncInvoker`, `teapotInvoker`,
    `LoggerInvoker`) is entered with the same arguments, the same number of times, and returns the
    same results or the same error as the bare function, under the same iteration choices. -/
theorem fast_eq_call (U : Universe) (chain : List Scope) (sig : List Ty) (cs : List Nat) (body : Body) :
    fastInvoke U chain sig cs (wrap sig.length body) = callInvoke U chain sig cs body := by
  simp only [fastInvoke, callInvoke]
  cases hr : resolveArgs U chain sig cs with
  | error e => rfl
  | ok args =>
    obtain ⟨sets, hs, hm⟩ := resolve_ok_members U chain sig cs args hr
    have hl : args.length = sig.length := by rw [members_length hm, (argSets_ok_get U chain sig sets hs).1]
    simp [wrap, ← hl]

/-- "(including the built-in automatic wrapping)": `validateAndWrapHandler` does not change what an
    invocation does, whichever signatures count as built-in shapes -/
theorem invoke_validateAndWrap (U : Universe) (chain : List Scope) (cs : List Nat)
    (shape : List Ty → Bool) (h : Handler) :
    invoke U chain cs (validateAndWrap shape h) = invoke U chain cs h := by
  cases h with
  | fast sig f => rfl
  | plain sig body =>
    simp only [validateAndWrap]
    split
    · simp only [invoke]; exact fast_eq_call U chain sig cs body
    · rfl

/-! ### Apply -/

/-- what `Apply` may do to one field: nothing to its type/tag/settability; an injectable field
    holds an admissible value of its type afterwards; any other field is untouched -/
def FieldOK (U : Universe) (chain : List Scope) (g g' : Field) : Prop :=
  g'.ty = g.ty ∧ g'.tagged = g.tagged ∧ g'.settable = g.settable ∧
  (if g.injectable then g'.val ∈ valueSet U chain g.ty else g'.val = g.val)

/-- "(and every settable struct field tagged for injection)": if every injectable field's type is
    resolvable, `Apply` reports no error, sets each settable tagged field to an admissible value of
    exactly its type, and leaves untagged or unsettable fields alone. -/
theorem apply_fields (U : Universe) (chain : List Scope) (fs : List Field) (cs : List Nat)
    (hall : ∀ g ∈ fs, g.injectable = true → valueSet U chain g.ty ≠ []) :
    ∃ fs', apply U chain fs cs = (fs', none) ∧ AllPairs (FieldOK U chain) fs fs' := by
  induction fs generalizing cs with
  | nil => exact ⟨[], rfl, trivial⟩
  | cons f fs ih =>
    have hall' : ∀ g ∈ fs, g.injectable = true → valueSet U chain g.ty ≠ [] :=
      fun g hg => hall g (by simp [hg])
    by_cases hf : f.injectable = true
    · have hne := hall f (by simp) hf
      cases hp : value U chain f.ty (nextChoice cs) with
      | none => exact absurd ((pick_none_iff _ _).mp hp) hne
      | some v =>
        obtain ⟨fs', he, hok⟩ := ih cs.tail hall'
        refine ⟨{ f with val := v } :: fs', by simp [apply, hf, hp, he], ⟨?_, hok⟩⟩
        exact ⟨rfl, rfl, rfl, by simp only [hf, if_true]; exact pick_mem hp⟩
    · obtain ⟨fs', he, hok⟩ := ih cs hall'
      refine ⟨f :: fs', by simp [apply, hf, he], ⟨?_, hok⟩⟩
      exact ⟨rfl, rfl, rfl, by simp [hf]⟩

/-- the failing case: `Apply` stops at the FIRST injectable field whose type cannot be resolved and
    names that type; the fields before it have been set as above, this field and all later ones
    are exactly as they were. -/
theorem apply_fields_error (U : Universe) (chain : List Scope) (pre : List Field) (f : Field) (post : List Field)
    (cs : List Nat) (hpre : ∀ g ∈ pre, g.injectable = true → valueSet U chain g.ty ≠ [])
    (hf : f.injectable = true) (ht : valueSet U chain f.ty = []) :
    ∃ pre', apply U chain (pre ++ f :: post) cs = (pre' ++ f :: post, some f.ty) ∧
      AllPairs (FieldOK U chain) pre pre' := by
  induction pre generalizing cs with
  | nil =>
    refine ⟨[], ?_, trivial⟩
    have : value U chain f.ty (nextChoice cs) = none := (pick_none_iff _ _).mpr ht
    simp [apply, hf, this]
  | cons g pre ih =>
    have hpre' : ∀ g' ∈ pre, g'.injectable = true → valueSet U chain g'.ty ≠ [] :=
      fun g' hg => hpre g' (by simp [hg])
    by_cases hg : g.injectable = true
    · have hne := hpre g (by simp) hg
      cases hp : value U chain g.ty (nextChoice cs) with
      | none => exact absurd ((pick_none_iff _ _).mp hp) hne
      | some v =>
        obtain ⟨pre', he, hok⟩ := ih cs.tail hpre'
        refine ⟨{ g with val := v } :: pre', by simp [apply, hg, hp, he], ⟨?_, hok⟩⟩
        exact ⟨rfl, rfl, rfl, by simp only [hg, if_true]; exact pick_mem hp⟩
    · obtain ⟨pre', he, hok⟩ := ih cs hpre'
      refine ⟨g :: pre', by simp [apply, hg, he], ⟨?_, hok⟩⟩
      exact ⟨rfl, rfl, rfl, by simp [hg]⟩

/-- the set-valued form printed by the model driver describes `apply` for every iteration choice:
    same error, and every field's content is one of the printed alternatives -/
theorem apply_within_applySets (U : Universe) (chain : List Scope) (fs : List Field) (cs : List Nat) :
    (apply U chain fs cs).2 = (applySets U chain fs).2 ∧
    Members ((apply U chain fs cs).1.map (·.val)) (applySets U chain fs).1 := by
  induction fs generalizing cs with
  | nil => exact ⟨rfl, trivial⟩
  | cons f fs ih =>
    have self_members : ∀ l : List Field, Members (l.map (·.val)) (l.map (fun g => [g.val])) := by
      intro l; induction l with
      | nil => trivial
      | cons a l ih => exact ⟨by simp, ih⟩
    by_cases hf : f.injectable = true
    · by_cases he : valueSet U chain f.ty = []
      · have : value U chain f.ty (nextChoice cs) = none := (pick_none_iff _ _).mpr he
        simp only [apply, applySets, hf, if_true, this, he]
        exact ⟨by trivial, self_members (f :: fs)⟩
      · cases hp : value U chain f.ty (nextChoice cs) with
        | none => exact absurd ((pick_none_iff _ _).mp hp) he
        | some v =>
          obtain ⟨h1, h2⟩ := ih cs.tail
          simp only [apply, applySets, hf, if_true, hp, he, if_false]
          exact ⟨h1, pick_mem hp, h2⟩
    · obtain ⟨h1, h2⟩ := ih cs
      simp only [apply, applySets, hf]
      exact ⟨h1, by simp, h2⟩

/-! ### Non-vacuity: a concrete universe, chain, handlers and struct

  types: 0 = a struct type, 1 = pointer to it, 2 = interface implemented by 0 and 1,
         3 = interface nobody implements, 4 = string -/

def exU : Universe where
  isInterface t := t == 2 || t == 3
  implements k t := (t == 2 && (k == 0 || k == 1 || k == 2)) || (t == 3 && k == 3)

/-- request scope: string ↦ 10, struct ↦ 11, pointer ↦ 12, string again ↦ 13;
    application scope: interface 2 ↦ 20 (exact), string ↦ 21 -/
def exChain : List Scope := [[(4, 10), (0, 11), (1, 12), (4, 13)], [(2, 20), (4, 21)]]

-- exact, nearest, last registration wins: string is 13 (not 10, not the parent's 21)
example : valueSet exU exChain 4 = [13] := by decide
-- implementors in the request scope (11 and 12) come before the parent's exact registration 20
example : valueSet exU exChain 2 = [11, 12] := by decide
-- from the application scope alone the exact registration answers
example : valueSet exU exChain.tail 2 = [20] := by decide
-- nobody implements interface 3, nothing registered: not found
example : valueSet exU exChain 3 = [] := by decide
-- the hypotheses of `value_implementor_before_parent` are satisfiable
example : lookup exChain.head! 2 = none ∧ exU.isInterface 2 = true ∧ exU.implements 1 2 = true ∧
    lookup exChain.head! 1 = some 12 := by decide

def exBody : Body := fun args => [args.length, args.foldl (· + ·) 0]

-- func(string, iface2, *struct): runs once, with the two admissible choices for the interface
example : invoke exU exChain [0, 0, 0] (.plain [4, 2, 1] exBody) = { calls := [[13, 11, 12]], result := .ok [3, 36] } := by decide
example : invoke exU exChain [0, 1, 0] (.plain [4, 2, 1] exBody) = { calls := [[13, 12, 12]], result := .ok [3, 37] } := by decide
-- func(string, iface3, iface3'): first unresolved parameter named, body not run
example : invoke exU exChain [] (.plain [4, 3, 2] exBody) = { calls := [], result := .error 3 } := by decide
-- the same through a wrapper
example : invoke exU exChain [0, 1, 0] (.fast [4, 2, 1] (wrap 3 exBody)) = { calls := [[13, 12, 12]], result := .ok [3, 37] } := by decide
example : invoke exU exChain [] (validateAndWrap (fun _ => true) (.plain [4, 3] exBody)) = { calls := [], result := .error 3 } := by decide

-- Apply: tagged+settable string field set, untagged and unexported ones untouched, error at the
-- unresolvable interface, the field after it untouched
example : apply exU exChain
    [⟨4, true, true, 0⟩, ⟨4, false, true, 0⟩, ⟨4, true, false, 0⟩, ⟨3, true, true, 0⟩, ⟨1, true, true, 0⟩] [] =
    ([⟨4, true, true, 13⟩, ⟨4, false, true, 0⟩, ⟨4, true, false, 0⟩, ⟨3, true, true, 0⟩, ⟨1, true, true, 0⟩], some 3) := by decide
example : apply exU exChain [⟨1, true, true, 0⟩, ⟨2, true, true, 7⟩] [0, 1] =
    ([⟨1, true, true, 12⟩, ⟨2, true, true, 12⟩], none) := by decide

-- request scopes: request 0 maps a string, request 1 and the Flame do not see it
def exWorld : World := { app := [[(4, 21)]], reqs := [[(5, 100)], [(5, 101)]] }
example : valueSet exU ((exWorld.mapReq 0 4 30).chain 0) 4 = [30] ∧
          valueSet exU ((exWorld.mapReq 0 4 30).chain 1) 4 = [21] ∧
          (exWorld.mapReq 0 4 30).app = exWorld.app := by decide

end Flamego.Inject
