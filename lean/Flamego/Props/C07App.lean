/-
  Props/C07App.lean — C07 at the level of `Flame.ServeHTTP`: one request through a whole application
  (Model/App: Before hooks, router, createContext, handler chain), tying C01 / C03 / C10 together.

  Quantifier: every regular-expression engine `E`, every application `app` (any Before hooks, any
  middleware / route / not-found handler programs, action present or nil, any history `app.ops` of
  registrations and Headers() calls, either environment) and every request (any method token, any
  byte string as path, any headers).  The router theorems that are used carry the guard of
  C10 / C01 (`ParsedSeg` routes, one handle per registration); everything else is unguarded.
-/
import Flamego.Proofs.App
import Flamego.Props.C01Router
import Flamego.Props.C03
import Flamego.Props.C07
import Flamego.Props.C15

namespace Flamego.C07
open Flamego.App Flamego.Chain Flamego.Writer

/-! ### "runs exactly one handler chain: that of the single chosen route, or the not-found chain
    (default or user-supplied, with application middleware)" -/

/-- When no Before hook stops the request, exactly one chain is started.  It is
    `middleware ++ handlersOf hid` for the leaf the router chose (read with the parameters the router
    matched), or `middleware ++ notFound` (read with no parameters) when the router chose none — the
    same middleware prefix in both cases, and the same action slot (createContext sets `f.action` for
    every context, the not-found one included).  Its state is the chain machine's `serve` of it,
    behind a HEAD writer exactly when the request's method is HEAD. -/
theorem app_one_chain (E : Engine) (app : App) (req : Request) (hb : AllPass app.befores) :
    ∃ run, (app.serve E req).runs = [run] ∧
      run.cfg.mw = app.middleware.map (Handler.inst run.params) ∧
      run.cfg.action = app.action.map (Handler.inst run.params) ∧
      run.st = Chain.serve run.cfg ∧ run.cfg.head = ((app.trim req).method == "HEAD") ∧
      ((∃ l ps, (Router.run E app.ops).serve E (app.trim req) = .handler l ps ∧
          run.which = .route l.hid ∧ run.params = ps ∧
          run.cfg.chain = (app.middleware ++ app.handlersOf l.hid).map (Handler.inst ps)) ∨
       ((Router.run E app.ops).serve E (app.trim req) = .notFound ∧
          run.which = .notFound ∧ run.params = [] ∧
          run.cfg.chain = (app.middleware ++ app.notFound).map (Handler.inst []))) := by
  unfold App.serve App.serveWith
  rw [runBefores_allPass _ _ hb]
  refine ⟨_, rfl, rfl, rfl, rfl, rfl, ?_⟩
  cases ho : (Router.run E app.ops).serve E (app.trim req) with
  | handler l ps => exact Or.inl ⟨l, ps, rfl, rfl, rfl, cfgFor_chain app ps _ _⟩
  | notFound => exact Or.inr ⟨rfl, rfl, rfl, cfgFor_chain app [] _ _⟩

/-- in numbers: one chain, and every Before hook ran, in registration order (FIFO) -/
theorem app_one_chain_count (E : Engine) (app : App) (req : Request) (hb : AllPass app.befores) :
    (app.serve E req).runs.length = 1 ∧ (app.serve E req).befores = List.range app.befores.length ∧
    (app.serve E req).pre = [] := by
  unfold App.serve App.serveWith
  rw [runBefores_allPass _ _ hb, List.range_eq_range']
  exact ⟨rfl, rfl, rfl⟩

/-- "Flame instance stops further process when it returns true": the first Before hook that returns
    true ends the request — no chain at all is started (neither a route's nor the not-found one, no
    middleware, no action), the hooks before it ran in order, the hooks after it do not run, and the
    client has received exactly what that hook wrote. -/
theorem app_before_stops (E : Engine) (app : App) (req : Request) (pre post : List BeforeKind)
    (w : Option (Nat × Nat)) (hsplit : app.befores = pre ++ .stop w :: post) (hpre : AllPass pre) :
    (app.serve E req).runs = [] ∧ (app.serve E req).befores = List.range (pre.length + 1) ∧
    (app.serve E req).pre = stopWrites w := by
  unfold App.serve App.serveWith
  rw [hsplit, runBefores_stop _ _ _ _ hpre, List.range_eq_range']
  exact ⟨rfl, rfl, rfl⟩

/-- so, for EVERY application and request: at most one chain is started, and none only because a
    Before hook said so -/
theorem app_at_most_one_chain (E : Engine) (app : App) (req : Request) :
    (app.serve E req).runs.length ≤ 1 ∧
    ((app.serve E req).runs.length = 0 → ¬ AllPass app.befores) := by
  rcases befores_split app.befores with h | ⟨pre, w, post, he, hp⟩
  · have := (app_one_chain_count E app req h).1
    exact ⟨by omega, fun h0 => by omega⟩
  · have := (app_before_stops E app req pre post w he hp).1
    refine ⟨by rw [this]; exact Nat.zero_le _, fun _ hall => ?_⟩
    have := hall (.stop w) (by rw [he]; simp)
    cases this

/-! ### "that of the single chosen route, or the not-found chain … when no route is chosen" —
    which of the two, in terms of the registered routes (C01 at the level of `Flame.ServeHTTP`) -/

/-- the right-hand side of `C01.serve_dispatch_iff` for this application and request: some accepted
    registration of the request's method has a form that admits the path (after the prefix trim) and
    whose header constraints hold -/
def Admitted (E : Engine) (app : App) (req : Request) : Prop :=
  ∃ h : List (Route × Nat), (∀ rh ∈ h, (rh.2, rh.1) ∈ addPairs app.ops) ∧
    assocGet (Router.run E app.ops).trees (app.trim req).method = some (build E h) ∧
    ∃ rh ∈ accepted E h, ∃ f ∈ formsOfRoute E rh.1 rh.2,
      f.Admits E ((Router.run E app.ops).hok E (app.trim req).hdrs) (C01.segsOf (app.trim req).path)

/-- The chain a request starts is a registered route's iff the route set admits the request
    (`C01.serve_dispatch_iff`, fast path included); otherwise it is the not-found chain
    `middleware ++ notFound`. -/
theorem app_chain_of_chosen_route (E : Engine) (app : App) (req : Request)
    (hparsed : ∀ hr ∈ addPairs app.ops, ∀ s ∈ hr.2.segs, ParsedSeg s = true)
    (hdistinct : ((addPairs app.ops).map Prod.fst).Nodup) (hb : AllPass app.befores) :
    ((∃ run hid, (app.serve E req).runs = [run] ∧ run.which = .route hid ∧
        run.cfg.chain = (app.middleware ++ app.handlersOf hid).map (Handler.inst run.params))
      ↔ Admitted E app req) ∧
    (¬ Admitted E app req →
      ∃ run, (app.serve E req).runs = [run] ∧ run.which = .notFound ∧
        run.cfg.chain = (app.middleware ++ app.notFound).map (Handler.inst [])) := by
  have hiff := C01.serve_dispatch_iff E app.ops hparsed hdistinct (app.trim req)
  obtain ⟨run, hr, _, _, _, _, hcase⟩ := app_one_chain E app req hb
  refine ⟨⟨?_, ?_⟩, ?_⟩
  · rintro ⟨run', hid, hr', hw, _⟩
    rw [hr] at hr'
    have : run = run' := by simpa using hr'
    subst this
    rcases hcase with ⟨l, ps, ho, _, _, _⟩ | ⟨_, hnf, _, _⟩
    · exact hiff.mp ⟨l, ps, ho⟩
    · rw [hnf] at hw; cases hw
  · intro ha
    obtain ⟨l, ps, ho⟩ := hiff.mpr ha
    rcases hcase with ⟨l', ps', ho', hw, hp, hc⟩ | ⟨ho', _, _, _⟩
    · exact ⟨run, l'.hid, hr, hw, by rw [hp]; exact hc⟩
    · rw [ho] at ho'; cases ho'
  · intro hna
    rcases hcase with ⟨l, ps, ho, _, _, _⟩ | ⟨_, hw, _, hc⟩
    · exact absurd (hiff.mp ⟨l, ps, ho⟩) hna
    · exact ⟨run, hr, hw, hc⟩

/-! ### the static shortcut is invisible to the whole application (C10 at `Flame.ServeHTTP`) -/

/-- Replacing `Router.ServeHTTP` by full tree matching changes nothing of the response: the same
    Before hooks, the same chain with the same parameters, the same events, status and body. -/
theorem app_shortcut_invisible (E : Engine) (app : App)
    (hparsed : ∀ hr ∈ addPairs app.ops, ∀ s ∈ hr.2.segs, ParsedSeg s = true)
    (hdistinct : ((addPairs app.ops).map Prod.fst).Nodup) (req : Request) :
    app.serve E req = app.serveTreeOnly E req := by
  have : (Router.run E app.ops).serve E = (Router.run E app.ops).serveTreeOnly E :=
    funext (C10.shortcut_unobservable E app.ops hparsed hdistinct)
  unfold App.serve App.serveTreeOnly
  rw [this]

/-! ### "when … the method is unknown": the not-found chain, with the application middleware -/

/-- A method token that is not one of router.go's nine (any bytes: lower case, empty, "FOO") starts
    the not-found chain `middleware ++ notFound` with no parameters and the application's action,
    whatever the path, the headers and the registration history.  No guard on the history: no tree
    and no fast-path entry is ever created for such a token (`run_tree_keys`, `run_statics_methods`). -/
theorem app_unknown_method (E : Engine) (app : App) (req : Request) (hb : AllPass app.befores)
    (hm : req.method ∉ Gen.httpMethods) :
    ∃ run, (app.serve E req).runs = [run] ∧ run.which = .notFound ∧ run.params = [] ∧
      run.cfg.chain = (app.middleware ++ app.notFound).map (Handler.inst []) ∧
      run.cfg.action = app.action.map (Handler.inst []) := by
  obtain ⟨run, hr, _, ha, _, _, hcase⟩ := app_one_chain E app req hb
  have hmeth : (app.trim req).method = req.method := by
    unfold App.trim; split <;> rfl
  have hnf : (Router.run E app.ops).serve E (app.trim req) = .notFound := by
    have ht := unknown_method_no_tree E app.ops req.method hm
    have hs := unknown_method_no_static E app.ops req.method (app.trim req).path hm
    simp [Router.serve, Router.serveTreeOnly, hmeth, ht, hs]
  rcases hcase with ⟨l, ps, ho, _, _, _⟩ | ⟨_, hw, hp, hc⟩
  · rw [hnf] at ho; cases ho
  · exact ⟨run, hr, hw, hp, hc, by rw [ha, hp]⟩

/-! ### "The outcome is a function of the registered routes and the request alone, so repeating a
    request gives the same outcome." -/

/-- Repeating a request: equal applications and equal requests give equal responses (trace, chain,
    parameters, writer state).  Trivial — `serve` is a function; kept because the property says it.
    That the Go code has no hidden state is what the correspondence check observes (every request
    is served twice on the same real instance). -/
theorem app_deterministic (E : Engine) (a1 a2 : App) (q1 q2 : Request) (ha : a1 = a2) (hq : q1 = q2) :
    a1.serve E q1 = a2.serve E q2 := by
  rw [ha, hq]

/-- Serving does not change the application: on one instance the k-th request of any sequence is
    answered exactly as if it were alone. -/
theorem app_serve_frame (E : Engine) (app : App) (reqs : List Request) :
    app.serveSeq E reqs = reqs.map (app.serve E) := by
  induction reqs with
  | nil => rfl
  | cons q rest ih => simp [App.serveSeq, ih]

theorem app_serve_frame_at (E : Engine) (app : App) (reqs : List Request) (k : Nat) :
    (app.serveSeq E reqs)[k]? = reqs[k]?.map (app.serve E) := by
  rw [app_serve_frame]; simp

/-- The response depends on the router only through what `ServeHTTP` reads: two applications that
    differ only in their registration histories answer alike whenever the histories build routers
    with the same trees, fast-path table and header constraints (C07.serve_frame). -/
theorem app_router_frame (E : Engine) (app : App) (ops' : List RouterOp) (req : Request)
    (ht : (Router.run E app.ops).trees = (Router.run E ops').trees)
    (hs : (Router.run E app.ops).statics = (Router.run E ops').statics)
    (hh : (Router.run E app.ops).hdrs = (Router.run E ops').hdrs) :
    app.serve E req = ({ app with ops := ops' }).serve E req := by
  have : (Router.run E app.ops).serve E = (Router.run E ops').serve E :=
    funext (fun q => serve_frame E _ _ q ht hs hh)
  unfold App.serve App.serveWith
  rw [this]
  rfl

/-! ### C03 and C15 hold of the chain the application runs (HEAD or not): direct instances -/

/-- Every chain of a response is the chain machine's `serve` of a configuration the application
    assembled (`createContext`), behind a HEAD writer iff the request's method is HEAD — so every
    theorem of C03 / C15 about `Chain.serve` applies to it verbatim. -/
theorem app_chain_is_serve (E : Engine) (app : App) (req : Request) :
    ∀ run ∈ (app.serve E req).runs, run.st = Chain.serve run.cfg ∧
      ∃ ps hs, run.cfg = app.cfgFor ps hs ((app.trim req).method == "HEAD") := by
  intro run hrun
  unfold App.serve App.serveWith at hrun
  split at hrun
  · cases hrun
  · simp only [List.mem_singleton] at hrun
    rw [hrun]
    exact ⟨rfl, _, _, rfl⟩

/-- `C03.starts_no_skip` for the chain of a response: the slots started are 0, 1, …, k-1 in this
    order — application middleware first, then the route's (or not-found) handlers, then the action -/
theorem app_chain_starts_no_skip (E : Engine) (app : App) (req : Request) :
    ∀ run ∈ (app.serve E req).runs, ∃ k, k ≤ run.cfg.n + 1 ∧ starts run.st.trace = List.range k := by
  intro run hrun
  rw [(app_chain_is_serve E app req run hrun).1]
  exact starts_no_skip run.cfg

/-- `C03.at_most_once`: no handler of the chain is started twice -/
theorem app_chain_at_most_once (E : Engine) (app : App) (req : Request) :
    ∀ run ∈ (app.serve E req).runs, (starts run.st.trace).Nodup := by
  intro run hrun
  rw [(app_chain_is_serve E app req run hrun).1]
  exact at_most_once run.cfg

/-- `C03.well_bracketed`: handlers finish in reverse order of starting, nothing is left open -/
theorem app_chain_well_bracketed (E : Engine) (app : App) (req : Request) :
    ∀ run ∈ (app.serve E req).runs, wbGo [] run.st.trace = some [] := by
  intro run hrun
  rw [(app_chain_is_serve E app req run hrun).1]
  exact well_bracketed run.cfg

/-- `C03.chain_layout` read for the application: slot `i` of the started chain holds the i-th
    application middleware, then the handlers of the chosen list, then the action -/
theorem app_chain_layout (app : App) (ps : Params) (hs : List Handler) (head : Bool) (i : Nat) :
    (app.cfgFor ps hs head).slot i =
      if i < app.middleware.length then (app.middleware[i]?).map (Handler.inst ps)
      else if i < app.middleware.length + hs.length then (hs[i - app.middleware.length]?).map (Handler.inst ps)
      else if i = app.middleware.length + hs.length then app.action.map (Handler.inst ps)
      else none := by
  rw [chain_layout]
  simp only [App.cfgFor, List.length_map, List.length_nil, Nat.add_zero, List.getElem?_map,
    Nat.sub_zero]
  by_cases h1 : i < app.middleware.length
  · simp [h1]
  · simp [h1]

/-- `C15.no_escape_partial` for an application whose first middleware is Recovery (as
    `flamego.Classic()` installs it): no panic leaves `ServeHTTP`, whichever chain the request
    starts — a route's or the not-found one — whatever the handlers, the action, the parameters
    and the method (HEAD included) are (status codes ≥ 100). -/
theorem app_recovery_first_contains (E : Engine) (app : App) (req : Request) (rest : List Handler)
    (hm : app.middleware = .recovery :: rest) :
    ∀ run ∈ (app.serve E req).runs, run.cfg.codesOK (fun code => 100 ≤ code) →
      ∀ v j, Ev.escaped v j ∉ run.st.trace := by
  intro run hrun hc v j hmem
  obtain ⟨hst, ps, hs, hcfg⟩ := app_chain_is_serve E app req run hrun
  have hslot : run.cfg.slot 0 = some Kind.recovery := by
    rw [hcfg]
    simp [Cfg.slot, Cfg.n, Cfg.chain, App.cfgFor, hm, Handler.inst]
  have hI : Installed run.cfg 0 := ⟨by rw [hcfg]; rfl, hc, hslot⟩
  have hg : NextOnceBefore run.cfg 0 := fun i _ hi => absurd hi (Nat.not_lt_zero i)
  rw [hst] at hmem
  exact absurd (no_escape_partial run.cfg 0 hI hg v j hmem) (Nat.not_lt_zero j)

/-! ### non-vacuity -/

def appE : Engine := ⟨fun _ => some 0, fun _ _ => none, fun _ _ => false⟩

def appLit (t : String) : Segment := ⟨false, [.ident (B t)]⟩

/-- two passing Before hooks; a middleware that calls Next(); `/a/b` (static; GET, HEAD, POST) whose
    handler echoes the `route` parameter; `/a/{x}` (GET) whose two handlers echo `x`; an action that
    returns nothing; the default not-found chain -/
def exApp : App :=
  { befores := [.pass, .pass],
    middleware := [.plain { acts := [.act .next] }],
    ops := [.add 1 ⟨[appLit "a", appLit "b"]⟩ ["GET", "HEAD", "POST"],
            .add 2 ⟨[appLit "a", ⟨false, [.bind (B "x")]⟩]⟩ ["GET"]],
    handlersOf := fun hid =>
      if hid = 1 then [.plain { acts := [.echo (B "route")] }]
      else [.plain { acts := [] }, .plain { acts := [], ret := .param (B "x") }],
    action := some (.plain { acts := [], ret := .ret .nothing }) }

/-- what the examples look at: which chain, its event trace, status, the client's writer, body tokens -/
structure View where
  which  : Which
  trace  : List Ev
  status : Nat
  under  : List UEv
  out    : List Tok
  deriving DecidableEq

def Run.view (r : Run) : View := ⟨r.which, r.st.trace, r.st.w.status, r.st.w.under, r.st.out⟩

/-- the guard of the router theorems holds for `exApp`, and no Before hook stops -/
example : (∀ hr ∈ addPairs exApp.ops, ∀ s ∈ hr.2.segs, ParsedSeg s = true) ∧
    ((addPairs exApp.ops).map Prod.fst).Nodup ∧ AllPass exApp.befores := by
  refine ⟨by decide, by decide, by decide⟩

/-- `GET /a/b`: both hooks run, ONE chain — middleware, the handler of registration 1 — and the
    response body is the 4 bytes of the `route` parameter "/a/b" -/
example : ((exApp.serve appE ⟨"GET", B "/a/b", []⟩).befores, (exApp.serve appE ⟨"GET", B "/a/b", []⟩).pre,
      (exApp.serve appE ⟨"GET", B "/a/b", []⟩).runs.map Run.view) =
    ([0, 1], [], [⟨.route 1, [.enter 0, .enter 1, .exit 1, .exit 0], 200, [.hdr 200, .body 4], [.xs 4]⟩]) := by
  decide

/-- `HEAD /a/b`: the same chain and events behind a HEAD writer — no body reaches the client -/
example : (exApp.serve appE ⟨"HEAD", B "/a/b", []⟩).runs.map Run.view =
    [⟨.route 1, [.enter 0, .enter 1, .exit 1, .exit 0], 200, [.hdr 200], []⟩] := by
  decide

/-- `FOO /a/b` (unknown method): ONE chain, the not-found chain behind the same middleware;
    `http.NotFound` writes 404 and 19 bytes, so the action does not run -/
example : (exApp.serve appE ⟨"FOO", B "/a/b", []⟩).runs.map Run.view =
    [⟨.notFound, [.enter 0, .enter 1, .exit 1, .exit 0], 404, [.hdr 404, .body 19], [.xs 19]⟩] := by
  decide

/-- a user-supplied not-found chain that writes nothing: the action runs after it (createContext
    sets the action for the not-found context too) -/
example : (({ exApp with notFound := [.plain { acts := [] }] }).serve appE ⟨"FOO", B "/", []⟩).runs.map Run.view =
    [⟨.notFound, [.enter 0, .enter 1, .exit 1, .enter 2, .exit 2, .exit 0], 0, [], []⟩] := by
  decide

/-- a stopping hook in second place: no chain, the third hook does not run, the client got 403 + 2 bytes -/
example :
    let app := { exApp with befores := [.pass, .stop (some (403, 2)), .pass] }
    ((app.serve appE ⟨"GET", B "/a/b", []⟩).befores, (app.serve appE ⟨"GET", B "/a/b", []⟩).pre,
      (app.serve appE ⟨"GET", B "/a/b", []⟩).runs.length) = ([0, 1], [.hdr 403, .body 2], 0) := by
  decide

/-- Recovery as the only middleware, a route handler that panics: the panic is caught inside the one
    chain, the client gets 500 and the plain body, nothing escapes `ServeHTTP` -/
example : (({ exApp with middleware := [.recovery],
                          handlersOf := fun _ => [.plain { acts := [.act (.panic .str)] }] }).serve appE
      ⟨"GET", B "/a/b", []⟩).runs.map Run.view =
    [⟨.route 1, [.enter 0, .enter 1, .abort 1 1, .recovered 0 1 0, .exit 0], 500, [.hdr 500, .body 21], [.plain]⟩] := by
  decide

/-- the theorems apply to `exApp`: the fast-path answer for `GET /a/b` is the tree's answer -/
example : exApp.serveTreeOnly appE ⟨"GET", B "/a/b", []⟩ = exApp.serve appE ⟨"GET", B "/a/b", []⟩ :=
  (app_shortcut_invisible appE exApp (by decide) (by decide) _).symm

/-- `app_unknown_method` applies: "FOO" is not one of the nine methods -/
example : ∃ run, (exApp.serve appE ⟨"FOO", B "/a/zz", []⟩).runs = [run] ∧ run.which = .notFound := by
  obtain ⟨run, h1, h2, _⟩ := app_unknown_method appE exApp ⟨"FOO", B "/a/zz", []⟩ (by decide) (by decide)
  exact ⟨run, h1, h2⟩

/-- …and the middleware prefix of the chain for the dynamic route `/a/{x}` (decided by the tree
    matcher, whatever it answers) is the application's -/
example : ∃ run, (exApp.serve appE ⟨"GET", B "/a/zz", []⟩).runs = [run] ∧
    run.cfg.mw = exApp.middleware.map (Handler.inst run.params) := by
  obtain ⟨run, h1, h2, _⟩ := app_one_chain appE exApp ⟨"GET", B "/a/zz", []⟩ (by decide)
  exact ⟨run, h1, h2⟩

/-- the response depends on the parameters the router hands over: the same handler list read with
    `x = "zz"` returns a 2-byte body, read with no `x` an empty one (which writes nothing) -/
example : ((exApp.handlersOf 2).map (Handler.inst [(B "x", B "zz")]),
           (exApp.handlersOf 2).map (Handler.inst [])) =
    ([.plain { acts := [] }, .plain { acts := [], ret := .body 2 }],
     [.plain { acts := [] }, .plain { acts := [], ret := .body 0 }]) := by
  decide

end Flamego.C07
