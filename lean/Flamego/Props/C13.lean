/-
  Props/C13.lean — ResponseWriter: one status first, truthful Status/Size/Written, hooks once.

  Quantifier: every sequence of WriteHeader(c)/Write/Flush/Before/Status/Size/Written
  operations (`ops : List Op`), both kinds of request method (`head : Bool`), every amount
  the underlying writer chooses to accept per Write (`fwd`).  Guard: status codes are ones
  net/http accepts (`100 ≤ c`); with any other code the standard library itself panics.
-/
import Flamego.Proofs.Writer

namespace Flamego.Writer

def UEv.isHdr : UEv → Bool | .hdr _ => true | _ => false
def UEv.isBody : UEv → Bool | .body _ => true | _ => false
def UEv.isHook : UEv → Bool | .hook _ => true | _ => false

def bodySum : List UEv → Nat
  | [] => 0
  | .body n :: t => n + bodySum t
  | _ :: t => bodySum t

def firstHdr : List UEv → Option Nat
  | [] => none
  | .hdr c :: _ => some c
  | _ :: t => firstHdr t

def ValidOps (ops : List Op) : Prop := ∀ op ∈ ops, op.valid

/-! ### helper facts about the closed form's event list -/

theorem tailEv_noHdr (head : Bool) (op : Op) : ∀ e ∈ tailEv head op, e.isHdr = false ∧ e.isHook = false := by
  cases op <;> cases head <;> simp [tailEv, UEv.isHdr, UEv.isHook]

theorem tailOf_noHdr (head : Bool) (ops : List Op) : ∀ e ∈ tailOf head ops, e.isHdr = false ∧ e.isHook = false := by
  intro e he
  simp only [tailOf, List.mem_flatMap] at he
  obtain ⟨op, _, h⟩ := he
  exact tailEv_noHdr head op e h

theorem tailOf_head_noBody (ops : List Op) : ∀ e ∈ tailOf true ops, e.isBody = false := by
  intro e he
  simp only [tailOf, List.mem_flatMap] at he
  obtain ⟨op, _, h⟩ := he
  cases op <;> simp [tailEv] at h
  subst h; rfl

theorem bodySum_append (a b : List UEv) : bodySum (a ++ b) = bodySum a + bodySum b := by
  induction a with
  | nil => simp [bodySum]
  | cons x xs ih => cases x <;> simp [bodySum, ih] <;> omega

theorem bodySum_hooks (l : List Nat) : bodySum (l.map UEv.hook) = 0 := by
  induction l with
  | nil => rfl
  | cons x xs ih => simp [bodySum, ih]

theorem bodySum_tailOf (head : Bool) (ops : List Op) : bodySum (tailOf head ops) = sizeOf head ops := by
  induction ops with
  | nil => rfl
  | cons op ops ih =>
    have : tailOf head (op :: ops) = tailEv head op ++ tailOf head ops := by simp [tailOf]
    rw [this, bodySum_append, ih]
    cases op <;> simp [tailEv, fwdOf, sizeOf, bodySum]
    case write len fwd => cases head <;> simp [bodySum]

theorem filter_hdr_hooks (l : List Nat) : (l.map UEv.hook).filter UEv.isHdr = [] := by
  induction l with
  | nil => rfl
  | cons x xs ih => simp [UEv.isHdr]

theorem filter_none {l : List UEv} (h : ∀ e ∈ l, e.isHdr = false) : l.filter UEv.isHdr = [] := by
  induction l with
  | nil => rfl
  | cons x xs ih =>
    have hx := h x (by simp)
    simp [hx, ih (fun e he => h e (by simp [he]))]

theorem firstHdr_hooks (l : List Nat) (rest : List UEv) :
    firstHdr (l.map UEv.hook ++ rest) = firstHdr rest := by
  induction l with
  | nil => rfl
  | cons x xs ih => simp [firstHdr, ih]

/-- The shape every run has: either nothing was ever triggered, or the closed form. -/
theorem run_shape (head : Bool) (ops : List Op) (hv : ValidOps ops) :
    ((∀ op ∈ ops, op.isTrigger = false) ∧ run head ops = { init head with hooks := hooksOf ops })
    ∨ ∃ pre t post, ops = pre ++ t :: post ∧ (∀ op ∈ pre, op.isTrigger = false) ∧ t.isTrigger = true ∧
        run head ops = { head := head, status := t.code, onceDone := true,
                         under := (hooksOf pre).reverse.map UEv.hook ++ [UEv.hdr t.code] ++ tailOf head (t :: post),
                         size := sizeOf head (t :: post), hooks := hooksOf ops } := by
  rcases split_first_trigger ops with hq | ⟨pre, t, post, he, hq, ht⟩
  · left
    refine ⟨hq, ?_⟩
    rw [run_eq_runFrom, runFrom_fresh_quiet _ _ hq]; simp [init]
  · right
    refine ⟨pre, t, post, he, hq, ht, ?_⟩
    have hvt : t.valid := hv t (by simp [he])
    rw [run_eq_runFrom, he, runFrom_fresh_trigger _ pre t post (fresh_init head) hq ht hvt]
    simp [init]

/-! ### C13, clause by clause -/

/-- (1a) the underlying writer receives at most one status line -/
theorem at_most_one_status (head : Bool) (ops : List Op) (hv : ValidOps ops) :
    ((run head ops).under.filter UEv.isHdr).length ≤ 1 := by
  rcases run_shape head ops hv with ⟨_, h⟩ | ⟨pre, t, post, _, _, _, h⟩
  · rw [h]; simp [init]
  · rw [h]
    simp only [List.filter_append, filter_hdr_hooks]
    rw [filter_none (fun e he => (tailOf_noHdr head _ e he).1)]
    simp [List.filter, UEv.isHdr]

/-- (1b) … and receives it before any body byte (and before any flush) -/
theorem status_before_body (head : Bool) (ops : List Op) (hv : ValidOps ops)
    (a : List UEv) (e : UEv) (b : List UEv) (hu : (run head ops).under = a ++ e :: b)
    (he : e.isBody = true ∨ e = UEv.flush) : ∃ x ∈ a, x.isHdr = true := by
  rcases run_shape head ops hv with ⟨_, h⟩ | ⟨pre, t, post, _, _, _, h⟩
  · rw [h] at hu; simp [init] at hu
  · rw [h] at hu
    simp only at hu
    -- e is not a hook and not the hdr, so it lies in the tail, after the hdr
    have hmem : e ∈ (hooksOf pre).reverse.map UEv.hook ++ [UEv.hdr t.code] ++ tailOf head (t :: post) := by
      rw [hu]; simp
    generalize hH : (hooksOf pre).reverse.map UEv.hook = H at hu hmem
    have hHook : ∀ x ∈ H, x.isHook = true := by
      intro x hx; rw [← hH] at hx; simp at hx; obtain ⟨_, _, rfl⟩ := hx; rfl
    -- compare the two decompositions of the same list
    have key : ∀ (H a : List UEv), (∀ x ∈ H, x.isHook = true) →
        H ++ [UEv.hdr t.code] ++ tailOf head (t :: post) = a ++ e :: b → ∃ x ∈ a, x.isHdr = true := by
      intro H
      induction H with
      | nil =>
        intro a _ heq
        cases a with
        | nil =>
          simp at heq
          obtain ⟨h1, _⟩ := heq
          subst h1
          rcases he with he | he <;> simp [UEv.isBody] at he
        | cons x xs =>
          simp at heq
          exact ⟨x, by simp, by rw [← heq.1]; rfl⟩
      | cons y ys ih =>
        intro a hy heq
        cases a with
        | nil =>
          simp at heq
          obtain ⟨h1, _⟩ := heq
          have := hy y (by simp)
          subst h1
          rcases he with he | he
          · cases y <;> simp [UEv.isBody, UEv.isHook] at he this
          · subst he; simp [UEv.isHook] at this
        | cons x xs =>
          simp at heq
          obtain ⟨_, h2⟩ := heq
          obtain ⟨z, hz, hz'⟩ := ih xs (fun x hx => hy x (by simp [hx])) (by simpa using h2)
          exact ⟨z, by simp [hz], hz'⟩
    exact key H a hHook hu

/-- (2a) `Status()` is 0 until a status is sent and afterwards the status that was sent -/
theorem status_truthful (head : Bool) (ops : List Op) (hv : ValidOps ops) :
    (run head ops).status = (firstHdr (run head ops).under).getD 0 := by
  rcases run_shape head ops hv with ⟨_, h⟩ | ⟨pre, t, post, _, _, _, h⟩
  · rw [h]; simp [init, firstHdr]
  · rw [h]; simp only [List.append_assoc, firstHdr_hooks]; simp [firstHdr]

/-- (2b) the status sent is the first one asked for: the code of the first WriteHeader,
    or 200 when a body write or a flush came first -/
theorem status_is_first (head : Bool) (pre : List Op) (t : Op) (post : List Op)
    (hv : ValidOps (pre ++ t :: post))
    (hq : ∀ op ∈ pre, op.isTrigger = false) (ht : t.isTrigger = true) :
    (run head (pre ++ t :: post)).status = t.code ∧
    (∀ c, t = .writeHeader c → (run head (pre ++ t :: post)).status = c) ∧
    ((∀ c, t ≠ .writeHeader c) → (run head (pre ++ t :: post)).status = 200) := by
  have hvt : t.valid := hv t (by simp)
  have h := runFrom_fresh_trigger (init head) pre t post (fresh_init head) hq ht hvt
  rw [← run_eq_runFrom] at h
  rw [h]
  refine ⟨rfl, ?_, ?_⟩
  · intro c hc; subst hc; rfl
  · intro hn; cases t <;> simp [Op.code, Op.isTrigger] at * 

/-- (2c) `Written()` is true exactly from the moment a status has been sent -/
theorem written_iff (head : Bool) (ops : List Op) (hv : ValidOps ops) :
    (run head ops).written = true ↔ ∃ e ∈ (run head ops).under, e.isHdr = true := by
  rcases run_shape head ops hv with ⟨_, h⟩ | ⟨pre, t, post, he, _, _, h⟩
  · rw [h]; simp [init, W.written]
  · rw [h]
    have : t.code ≠ 0 := code_ne_zero t (hv t (by simp [he]))
    simp only [W.written, Gen.writerUnwrittenStatus, bne_iff_ne, ne_eq, this, not_false_eq_true, true_iff]
    exact ⟨UEv.hdr t.code, by simp, rfl⟩

/-- (2d) nothing is sent before the first trigger, and the status never changes afterwards -/
theorem status_stable (head : Bool) (ops more : List Op) (hv : ValidOps (ops ++ more))
    (hs : (run head ops).status ≠ 0) :
    (run head (ops ++ more)).status = (run head ops).status := by
  have hv1 : ValidOps ops := fun o ho => hv o (by simp [ho])
  rcases run_shape head ops hv1 with ⟨_, h⟩ | ⟨pre, t, post, he, hq, ht, h⟩
  · rw [h] at hs; simp [init] at hs
  · have hvt : t.valid := hv1 t (by simp [he])
    have h2 := runFrom_fresh_trigger (init head) pre t (post ++ more) (fresh_init head) hq ht hvt
    rw [← run_eq_runFrom] at h2
    have : ops ++ more = pre ++ t :: (post ++ more) := by simp [he]
    rw [this, h2, h]

/-- (3) `Size()` equals the body bytes actually forwarded -/
theorem size_truthful (head : Bool) (ops : List Op) (hv : ValidOps ops) :
    (run head ops).size = bodySum (run head ops).under := by
  rcases run_shape head ops hv with ⟨_, h⟩ | ⟨pre, t, post, _, _, _, h⟩
  · rw [h]; simp [init, bodySum]
  · rw [h]; simp only [bodySum_append, bodySum_hooks, bodySum_tailOf]; simp [bodySum]

/-- (4) HEAD requests forward no body bytes -/
theorem head_no_body (ops : List Op) (hv : ValidOps ops) :
    ∀ e ∈ (run true ops).under, e.isBody = false := by
  rcases run_shape true ops hv with ⟨_, h⟩ | ⟨pre, t, post, _, _, _, h⟩
  · rw [h]; simp [init]
  · rw [h]
    intro e he
    simp only [List.mem_append, List.mem_map, List.mem_singleton] at he
    rcases he with (⟨_, _, rfl⟩ | rfl) | he
    · rfl
    · rfl
    · exact tailOf_head_noBody _ e he

/-- (5) the functions registered before the first trigger run exactly once each, in
    reverse order of registration, before the status reaches the underlying writer,
    whichever operation triggers it; nothing registered later ever runs -/
theorem hooks_once_lifo_before_status (head : Bool) (pre : List Op) (t : Op) (post : List Op)
    (hv : ValidOps (pre ++ t :: post))
    (hq : ∀ op ∈ pre, op.isTrigger = false) (ht : t.isTrigger = true) :
    ∃ rest, (run head (pre ++ t :: post)).under =
        (hooksOf pre).reverse.map UEv.hook ++ UEv.hdr t.code :: rest ∧
      ∀ e ∈ rest, e.isHook = false ∧ e.isHdr = false := by
  have hvt : t.valid := hv t (by simp)
  have h := runFrom_fresh_trigger (init head) pre t post (fresh_init head) hq ht hvt
  rw [← run_eq_runFrom] at h
  refine ⟨tailOf head (t :: post), ?_, ?_⟩
  · rw [h]; simp [init]
  · intro e he; have := tailOf_noHdr head _ e he; exact ⟨this.2, this.1⟩

/-- (5'') while the registered functions run nothing has been reported as written yet: they run
    in the state reached by the operations before the trigger, where `Status()` is 0 and
    `Written()` is false ("the reported status is 0 until then") -/
theorem hooks_run_unwritten (head : Bool) (pre : List Op) (hq : ∀ op ∈ pre, op.isTrigger = false) :
    (run head pre).status = 0 ∧ (run head pre).written = false := by
  rw [run_eq_runFrom, runFrom_fresh_quiet _ _ hq]; simp [init, W.written]

/-- (5') with no trigger at all no function runs and nothing reaches the underlying writer -/
theorem quiet_sends_nothing (head : Bool) (ops : List Op) (hq : ∀ op ∈ ops, op.isTrigger = false) :
    (run head ops).under = [] ∧ (run head ops).status = 0 ∧ (run head ops).size = 0 := by
  rw [run_eq_runFrom, runFrom_fresh_quiet _ _ hq]; simp [init]

/-! ### non-vacuity: a concrete non-trivial sequence meets the hypotheses and shows the shape -/

example :
    let ops := [Op.before 1, .before 2, .status, .write 5 3, .writeHeader 404, .before 3, .flush, .write 2 2]
    ValidOps ops ∧
    (run false ops).under = [.hook 2, .hook 1, .hdr 200, .body 3, .flush, .body 2] ∧
    (run false ops).status = 200 ∧ (run false ops).size = 5 ∧
    (run true ops).under = [.hook 2, .hook 1, .hdr 200, .flush] := by
  refine ⟨?_, by decide, by decide, by decide, by decide⟩
  intro op hop
  simp at hop
  rcases hop with rfl | rfl | rfl | rfl | rfl | rfl | rfl | rfl <;> simp [Op.valid]

end Flamego.Writer
