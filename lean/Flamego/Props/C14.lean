/-
  Props/C14.lean — what a handler returns determines the response, by a fixed table.

  Quantifiers: every payload (`b m : Bytes`, including empty and non-UTF-8), both kinds of
  request method (`head`), every placeholder text `ph` reflect may print for other kinds,
  every status code net/http accepts (`validCode c`, 100..999; on any other code the standard
  library panics — `invalid_status_panics`).  "Fresh writer": nothing was written before the
  handler returned (`respond` starts from `Writer.init`).  The model is the REPAIRED table
  (finding F14); `unrepaired_writes_on_empty` shows what the original tail did.

  Reading of the clause "nil, empty and zero results write nothing": it is proved for every
  result that carries no `int` status (`RetShape.blank`).  For `(int, …)` the code writes the
  status line before it looks at the second value, so `(404, "")`, `(204, nil-error)` send a
  status and stop the chain (`int_status_sent_even_if_blank`), and the all-zero `(0, "")`
  panics inside net/http: `zero_int_pair_writes_nothing_full` is FALSE (proved below).
-/
import Flamego.Proofs.Return

namespace Flamego.Ret
open Flamego.Writer (W)

/-! ### row 1: "a string or byte slice is the body with status 200" -/

/-- `func() string` returning a non-empty string: 200 and exactly those bytes (none for HEAD) -/
theorem string_row (head : Bool) (ph b : Bytes) (hb : b ≠ []) :
    (respond head ph (.one (.str b))).resp = ⟨200, bodyFor head b, false⟩ := by
  have : handleReturn ph (.one (.str b)) = [.write b] := by
    cases b with
    | nil => exact absurd rfl hb
    | cons x xs => simp [handleReturn, select, render, asError, isZero, canDeref, payload]
  simp only [respond, respondFrom, afterHandler, resolve, RetShape.arity, this]
  exact (run_write head b).1

/-- `func() []byte` returning a non-empty slice -/
theorem bytes_row (head : Bool) (ph b : Bytes) (hb : b ≠ []) :
    (respond head ph (.one (.bytes (some b)))).resp = ⟨200, bodyFor head b, false⟩ := by
  have : handleReturn ph (.one (.bytes (some b))) = [.write b] := by
    cases b with
    | nil => exact absurd rfl hb
    | cons x xs => simp [handleReturn, select, render, asError, isZero, canDeref, payload]
  simp only [respond, respondFrom, afterHandler, resolve, RetShape.arity, this]
  exact (run_write head b).1

/-! ### row 2: "a non-nil error gives status 500 with its message" -/

/-- any single value that is a non-nil error (returned as `error`, as `interface{}`, or as its
    concrete type; `asError v = some (some m)`): 500 and `Error()`'s text, even when empty -/
theorem error_row (head : Bool) (ph m : Bytes) (v : RetVal) (hv : asError v = some (some m)) :
    (respond head ph (.one v)).resp = ⟨500, bodyFor head m, false⟩ := by
  have : handleReturn ph (.one v) = [.writeHeader 500, .write m] := by
    simp [handleReturn, select, render, hv]
  simp only [respond, respondFrom, afterHandler, resolve, RetShape.arity, this]
  exact (run_hdr_write head 500 m (by decide)).1

/-- the usual instance: `func() error { return err }` seen through `reflect.Value.Call` -/
theorem error_row_iface (head : Bool) (ph m : Bytes) :
    (respond head ph (.one (.ifaceOf (.err (some m))))).resp = ⟨500, bodyFor head m, false⟩ :=
  error_row head ph m _ rfl

/-! ### row 3: "`(int, string|[]byte|error)` uses the int as status and the second value as body" -/

theorem int_string_row (head : Bool) (ph b : Bytes) (c : Int) (hc : validCode c = true) :
    (respond head ph (.two (.int c) (.str b))).resp = ⟨c.toNat, bodyFor head b, false⟩ := by
  cases b with
  | nil =>
    have : handleReturn ph (.two (.int c) (.str [])) = [.writeHeader c] := by
      simp [handleReturn, select, render, asError, isZero]
    simp only [respond, respondFrom, afterHandler, resolve, RetShape.arity, this]
    simpa [bodyFor, fresh] using (run_hdr head c hc).1
  | cons x xs =>
    have : handleReturn ph (.two (.int c) (.str (x :: xs))) = [.writeHeader c, .write (x :: xs)] := by
      simp [handleReturn, select, render, asError, isZero, canDeref, payload]
    simp only [respond, respondFrom, afterHandler, resolve, RetShape.arity, this]
    exact (run_hdr_write head c _ hc).1

/-- `(int, []byte)`; `b = none` is the nil slice, `some []` the non-nil empty one -/
theorem int_bytes_row (head : Bool) (ph : Bytes) (b : Option Bytes) (c : Int) (hc : validCode c = true) :
    (respond head ph (.two (.int c) (.bytes b))).resp = ⟨c.toNat, bodyFor head (b.getD []), false⟩ := by
  have hempty : ∀ b : Option Bytes, b.getD [] = [] →
      handleReturn ph (.two (.int c) (.bytes b)) = [.writeHeader c] := by
    intro b hb
    cases b with
    | none => simp [handleReturn, select, render, asError, isZero]
    | some b =>
      simp at hb; subst hb
      simp [handleReturn, select, render, asError, isZero, canDeref, payload]
  by_cases hb : b.getD [] = []
  · simp only [respond, respondFrom, afterHandler, resolve, RetShape.arity, hempty b hb, hb]
    simpa [bodyFor, fresh] using (run_hdr head c hc).1
  · cases b with
    | none => simp at hb
    | some b =>
      simp at hb
      have : handleReturn ph (.two (.int c) (.bytes (some b))) = [.writeHeader c, .write b] := by
        cases b with
        | nil => exact absurd rfl hb
        | cons x xs => simp [handleReturn, select, render, asError, isZero, canDeref, payload]
      simp only [respond, respondFrom, afterHandler, resolve, RetShape.arity, this, Option.getD_some]
      exact (run_hdr_write head c _ hc).1

/-- `(int, error)` with a non-nil error: the int is the status (NOT 500 — the table's later
    `WriteHeader(500)` is swallowed by the writer's once), the message is the body -/
theorem int_error_row (head : Bool) (ph m : Bytes) (c : Int) (e : RetVal) (hc : validCode c = true)
    (he : asError e = some (some m)) :
    (respond head ph (.two (.int c) e)).resp = ⟨c.toNat, bodyFor head m, false⟩ := by
  have : handleReturn ph (.two (.int c) e) = [.writeHeader c, .writeHeader 500, .write m] := by
    simp [handleReturn, select, render, he]
  simp only [respond, respondFrom, afterHandler, resolve, RetShape.arity, this]
  exact (run_hdr_hdr_write head c 500 m hc).1

/-- `(int, nil error)`: the status alone -/
theorem int_nil_error_row (head : Bool) (ph : Bytes) (c : Int) (hc : validCode c = true) :
    (respond head ph (.two (.int c) .ifaceNil)).resp = ⟨c.toNat, [], false⟩ := by
  have : handleReturn ph (.two (.int c) .ifaceNil) = [.writeHeader c] := by
    simp [handleReturn, select, render, asError, isZero]
  simp only [respond, respondFrom, afterHandler, resolve, RetShape.arity, this]
  exact (run_hdr head c hc).1

/-! ### row 4: "`(string|[]byte, error)` sends the error as 500 when non-nil and otherwise the body" -/

/-- non-nil error: 500 and the message, whatever the first value is (the string is dropped) -/
theorem body_error_row_err (head : Bool) (ph m : Bytes) (a e : RetVal)
    (ha : isString a = true ∨ isByteSlice a = true) (he : asError e = some (some m)) :
    (respond head ph (.two a e)).resp = ⟨500, bodyFor head m, false⟩ := by
  have : handleReturn ph (.two a e) = [.writeHeader 500, .write m] := by
    cases a <;> simp [isString, isByteSlice] at ha <;> simp [handleReturn, select, render, he]
  simp only [respond, respondFrom, afterHandler, resolve, RetShape.arity, this]
  exact (run_hdr_write head 500 m (by decide)).1

/-- nil error: exactly the response of the first value alone (rows 1 and `zero_writes_nothing`) -/
theorem body_error_row_nil (head : Bool) (ph : Bytes) (a e : RetVal)
    (ha : isString a = true ∨ isByteSlice a = true) (he : asError e = none) :
    respond head ph (.two a e) = respond head ph (.one a) := by
  have : handleReturn ph (.two a e) = handleReturn ph (.one a) := by
    cases a <;> simp [isString, isByteSlice] at ha <;> simp [handleReturn, select, he]
  simp only [respond, respondFrom, afterHandler, resolve, RetShape.arity, this]
  simp

theorem string_nil_error_row (head : Bool) (ph b : Bytes) (hb : b ≠ []) :
    (respond head ph (.two (.str b) .ifaceNil)).resp = ⟨200, bodyFor head b, false⟩ := by
  rw [body_error_row_nil head ph _ _ (Or.inl rfl) rfl]; exact string_row head ph b hb

theorem bytes_nil_error_row (head : Bool) (ph b : Bytes) (hb : b ≠ []) :
    (respond head ph (.two (.bytes (some b)) .ifaceNil)).resp = ⟨200, bodyFor head b, false⟩ := by
  rw [body_error_row_nil head ph _ _ (Or.inr rfl) rfl]; exact bytes_row head ph b hb

/-! ### "nil, empty and zero results write nothing (so the chain continues)" -/

def innerBlank : RetVal → Bool
  | .str b => b.isEmpty
  | .bytes b => (b.getD []).isEmpty
  | _ => false

/-- nil, empty or zero: the empty string, a nil or empty byte slice, a nil pointer or interface,
    a pointer to / an interface holding an empty string or byte slice, the zero of another kind -/
def RetVal.blank : RetVal → Bool
  | .str b => b.isEmpty
  | .bytes b => (b.getD []).isEmpty
  | .ptrNil | .ifaceNil => true
  | .ptrTo v | .ifaceOf v => innerBlank v
  | .int n => n == 0
  | .other z => z
  | .err _ => false

/-- results without an int status all of whose parts are nil / empty / zero -/
def RetShape.blank : RetShape → Bool
  | .none => true
  | .one v => v.blank
  | .two a b => (isString a || isByteSlice a) && a.blank && (asError b).isNone
  | .many _ => false

theorem blank_not_error {v : RetVal} (h : v.blank = true) : asError v = none := by
  cases v <;> simp [RetVal.blank, asError] at h ⊢
  case ifaceOf v => cases v <;> simp [innerBlank, asError] at h ⊢

theorem blank_bodyOf (ph : Bytes) {v : RetVal} (h : v.blank = true) : bodyOf ph v = [] := by
  cases v <;> simp [RetVal.blank, bodyOf] at h ⊢ <;> try simp [h]
  case ptrTo v => cases v <;> simp [innerBlank, innerBody] at h ⊢ <;> simpa using h
  case ifaceOf v => cases v <;> simp [innerBlank, innerBody] at h ⊢ <;> simpa using h
  all_goals simpa using h

theorem blank_render (ph : Bytes) {v : RetVal} (h : v.blank = true) : render ph (some v) = [] := by
  rw [render_closed, blank_not_error h]; simp [blank_bodyOf ph h]

/-- The table performs NO writer operation for a nil / empty / zero result; hence `Written()`
    stays false, nothing reaches the client, and — by C03's rule in `run()`
    (`if c.ResponseWriter().Written() { return }`, theorem `auto_advance_iff`) — the chain
    continues with the next handler. -/
theorem zero_writes_nothing (head : Bool) (ph : Bytes) (s : RetShape) (hs : s.blank = true) :
    handleReturn ph s = [] ∧
    (respond head ph s).w.written = false ∧
    (respond head ph s).resp = ⟨0, [], false⟩ ∧
    (respond head ph s).continues = true := by
  have h0 : handleReturn ph s = [] := by
    cases s with
    | none => rfl
    | one v => simpa [handleReturn, select] using blank_render ph hs
    | two a b =>
      simp only [RetShape.blank, Bool.and_eq_true, Option.isNone_iff_eq_none] at hs
      obtain ⟨⟨hk, ha⟩, hb⟩ := hs
      have : (select (.two a b)) = ([], some a) := by
        cases a <;> simp [isString, isByteSlice] at hk <;> simp [select, hb]
      simp [handleReturn, this, blank_render ph ha]
    | many n => simp [RetShape.blank] at hs
  have h1 : respond head ph s = fresh head := by
    simp only [respond, respondFrom, afterHandler, resolve, h0]
    simp [Out.run, fresh]
  refine ⟨h0, ?_, ?_, ?_⟩ <;> rw [h1] <;> rfl

/-- shapes the table does not know (≥ 3 values; two values whose first is neither int, string nor
    byte slice, e.g. `(int64, string)`, `(error, string)`, `(*string, error)`): nothing is written
    — even a non-nil error in such a result is silently dropped -/
theorem unknown_shape_writes_nothing (ph : Bytes) (s : RetShape)
    (hs : (∃ n, s = .many n) ∨ ∃ a b, s = .two a b ∧ (∀ n, a ≠ .int n) ∧ isString a = false ∧ isByteSlice a = false) :
    handleReturn ph s = [] := by
  rcases hs with ⟨n, rfl⟩ | ⟨a, b, rfl, h1, h2, h3⟩
  · rfl
  · cases a <;> simp [isString, isByteSlice] at h2 h3 <;> simp [handleReturn, select, render]
    exact absurd rfl (h1 _)

/-! ### exactly when the table writes -/

/-- declaratively: an int status is present, or the deciding value is a non-nil error, or it
    stands for a non-empty body -/
def Writes (ph : Bytes) (s : RetShape) : Prop :=
  (select s).1 ≠ [] ∨ ∃ v, (select s).2 = some v ∧ ((asError v).isSome = true ∨ bodyOf ph v ≠ [])

/-- all `int` statuses in the result are codes net/http accepts -/
def RetShape.codesValid : RetShape → Prop
  | .two (.int c) _ => validCode c = true
  | _ => True

theorem acts_nonempty_iff (ph : Bytes) (s : RetShape) : handleReturn ph s ≠ [] ↔ Writes ph s := by
  unfold Writes handleReturn
  generalize select s = p
  obtain ⟨hdr, ov⟩ := p
  cases hdr with
  | cons a as => simp
  | nil =>
    cases ov with
    | none => simp [render]
    | some v =>
      simp only [List.nil_append, ne_eq, not_true_eq_false, false_or, Option.some.injEq, exists_eq_left']
      rw [render_closed]
      cases h : asError v with
      | some m => cases m <;> simp
      | none => by_cases hb : bodyOf ph v = [] <;> simp [hb]

/-- on a fresh writer a non-empty act list of the table always gets a status out -/
theorem written_of_acts (head : Bool) (ph : Bytes) (s : RetShape) (hv : s.codesValid) :
    (Out.run (fresh head) (handleReturn ph s)).w.written = true ↔ handleReturn ph s ≠ [] := by
  constructor
  · intro h he; rw [he] at h; simp [Out.run, fresh, Writer.init, W.written] at h
  · intro hne
    -- the first act decides: a valid WriteHeader or a Write sends a status; later acts keep it
    have key : ∀ (acts : List Act) (o : Out), o.w.written = true → (Out.run o acts).w.written = true := by
      intro acts
      induction acts with
      | nil => intro o h; exact h
      | cons a as ih =>
        intro o h
        simp only [Out.run, List.foldl_cons]
        apply ih
        obtain ⟨w, body, p⟩ := o
        obtain ⟨hd, st, sz, hk, once, un⟩ := w
        have hst : st ≠ 0 := by simpa [W.written] using h
        cases p <;> cases a <;>
          simp [Out.act, Writer.step, W.writeHeader, W.ensure, W.written, hst] <;>
          (try split) <;> simp [hst]
    unfold handleReturn at hne ⊢
    cases s with
    | none => simp [select, render] at hne
    | many n => simp [select, render] at hne
    | one v =>
      simp only [select, List.nil_append] at hne ⊢
      rw [render_closed] at hne ⊢
      cases h : asError v with
      | some m =>
        cases m with
        | none =>
          simp [Out.run, Out.act, fresh, Writer.init, Writer.step, W.writeHeader, W.written, validCode]
        | some m => exact (run_hdr_write head 500 m (by decide)).2
      | none =>
        rw [h] at hne
        by_cases hb : (bodyOf ph v).isEmpty = true
        · simp [hb] at hne
        · simp only [hb]; exact (run_write head _).2
    | two a b =>
      cases a with
      | int c =>
        have hc : validCode c = true := hv
        simp only [select]
        have h1 : (Out.run (fresh head) [.writeHeader c]).w.written = true := (run_hdr head c hc).2
        have : Out.run (fresh head) ([Act.writeHeader c] ++ render ph (some b)) =
            Out.run (Out.run (fresh head) [.writeHeader c]) (render ph (some b)) := by
          simp [Out.run]
        rw [this]
        exact key _ _ h1
      | str x =>
        simp only [select, List.nil_append] at hne ⊢
        generalize (if (asError b).isSome = true then b else RetVal.str x) = v at hne ⊢
        rw [render_closed] at hne ⊢
        cases h : asError v with
        | some m =>
          cases m with
          | none =>
            simp [Out.run, Out.act, fresh, Writer.init, Writer.step, W.writeHeader, W.written, validCode]
          | some m => exact (run_hdr_write head 500 m (by decide)).2
        | none =>
          rw [h] at hne
          by_cases hb : (bodyOf ph v).isEmpty = true
          · simp [hb] at hne
          · simp only [hb]; exact (run_write head _).2
      | bytes x =>
        simp only [select, List.nil_append] at hne ⊢
        generalize (if (asError b).isSome = true then b else RetVal.bytes x) = v at hne ⊢
        rw [render_closed] at hne ⊢
        cases h : asError v with
        | some m =>
          cases m with
          | none =>
            simp [Out.run, Out.act, fresh, Writer.init, Writer.step, W.writeHeader, W.written, validCode]
          | some m => exact (run_hdr_write head 500 m (by decide)).2
        | none =>
          rw [h] at hne
          by_cases hb : (bodyOf ph v).isEmpty = true
          · simp [hb] at hne
          · simp only [hb]; exact (run_write head _).2
      | err _ => simp [select, render] at hne
      | ptrNil => simp [select, render] at hne
      | ptrTo _ => simp [select, render] at hne
      | ifaceNil => simp [select, render] at hne
      | ifaceOf _ => simp [select, render] at hne
      | other _ => simp [select, render] at hne

/-- **Characterisation**: after a handler returned `s` on a fresh writer, something has been
    written (and the chain stops) exactly when `Writes ph s`. -/
theorem written_iff_nonempty (head : Bool) (ph : Bytes) (s : RetShape) (hv : s.codesValid) :
    (respond head ph s).w.written = true ↔ Writes ph s := by
  rw [← acts_nonempty_iff]
  by_cases h0 : s.arity = 0
  · cases s <;> simp [RetShape.arity] at h0
    simp [respond, respondFrom, afterHandler, RetShape.arity, Out.run, Writer.init, W.written, handleReturn, select, render]
  · simp only [respond, respondFrom, afterHandler, resolve, h0, if_false]
    exact written_of_acts head ph s hv

/-- … and the chain goes on exactly when nothing was written and nothing panicked (C03) -/
theorem continues_iff (head : Bool) (ph : Bytes) (s : RetShape) :
    (respond head ph s).continues = true ↔
      (respond head ph s).w.written = false ∧ (respond head ph s).panicked = false := by
  simp [Out.continues]

/-! ### corners of the `(int, …)` shape that the "write nothing" clause does not survive -/

/-- `(c, "")`, `(c, nil)`, `(c, []byte{})`, `(c, nil error)` with a valid `c`: the status line is
    sent although the second value is blank, so `Written()` is true and the chain STOPS -/
theorem int_status_sent_even_if_blank (head : Bool) (ph : Bytes) (c : Int) (b : RetVal)
    (hc : validCode c = true) (hb : b.blank = true) :
    (respond head ph (.two (.int c) b)).resp = ⟨c.toNat, [], false⟩ ∧
    (respond head ph (.two (.int c) b)).continues = false := by
  have : handleReturn ph (.two (.int c) b) = [.writeHeader c] := by
    simp [handleReturn, select, blank_render ph hb]
  simp only [respond, respondFrom, afterHandler, resolve, RetShape.arity, this, Out.continues]
  have h := run_hdr head c hc
  simp only [fresh] at h
  simp [h.1, h.2]

/-- any status outside 100..999 (0, negative, 1000…) reaching the wrapped writer first:
    net/http panics, nothing is sent, the chain is dead -/
theorem invalid_status_panics (head : Bool) (ph : Bytes) (c : Int) (b : RetVal) (hc : validCode c = false) :
    (respond head ph (.two (.int c) b)).resp = ⟨0, [], true⟩ := by
  have : handleReturn ph (.two (.int c) b) = .writeHeader c :: render ph (some b) := by
    simp [handleReturn, select]
  simp only [respond, respondFrom, afterHandler, resolve, RetShape.arity, this]
  exact run_invalid_hdr head c _ hc

/-- the clause read literally for the zero value of the `(int, …)` shapes -/
def zero_int_pair_writes_nothing_full : Prop :=
  ∀ (head : Bool) (ph : Bytes) (b : RetVal), b.blank = true →
    (respond head ph (.two (.int 0) b)).continues = true

/-- … is false: `func() (int, string) { return 0, "" }` panics (`invalid WriteHeader code 0`) -/
theorem zero_int_pair_writes_nothing_full_false : ¬ zero_int_pair_writes_nothing_full := by
  intro h
  have := h false [] (.str []) rfl
  revert this
  decide

/-! ### both invocation paths, and replacing the table -/

/-- "identically whether the handler is invoked reflectively or through the built-in fast
    path": for every `func() (int, string)`, `teapotInvoker` hands the table the same two
    values, in the same order, as `reflect.Value.Call`; so every observable agrees -/
theorem fast_eq_reflective (c : Int) (s : Bytes) :
    viaTeapot c s = viaReflect c s ∧
    ∀ (o0 : Out) (ph : Bytes) (req app : Option Handler),
      respondFrom o0 ph req app (viaTeapot c s) = respondFrom o0 ph req app (viaReflect c s) :=
  ⟨rfl, fun _ _ _ _ => rfl⟩

/-- the response to a `func() (int, string)` served through the fast path consists of that
    handler's own two values — whatever other requests (e.g. one nested inside a `Before` hook
    while this result is being rendered) are served meanwhile: the model's requests share nothing -/
theorem fast_path_own_values (head : Bool) (ph s : Bytes) (c : Int) (hc : validCode c = true) :
    (respond head ph (viaTeapot c s)).resp = ⟨c.toNat, bodyFor head s, false⟩ :=
  int_string_row head ph s c hc

/-- "a return handler registered in the injector replaces the table": if the lookup finds
    another handler `h` (request scope first, else app scope), the acts are `h`'s, whatever the
    table would have done; with nothing registered they are the table's -/
theorem custom_handler_replaces (ph : Bytes) (h : Handler) (other : Option Handler) (s : RetShape)
    (hs : s.arity ≠ 0) :
    afterHandler ph (some h) other s = h s ∧
    afterHandler ph none (some h) s = h s ∧
    afterHandler ph none none s = handleReturn ph s := by
  simp [afterHandler, resolve, hs]

/-- a handler that returns nothing: no return handler (not even a registered one) is called -/
theorem no_values_no_call (ph : Bytes) (req app : Option Handler) :
    afterHandler ph req app .none = [] := by
  simp [afterHandler, RetShape.arity]

/-! ### the lookup is made at every return: a mid-chain `Map` decides all later returns -/

def Step.isMapReq : Step → Bool | .mapReq _ => true | _ => false
def Step.isMapApp : Step → Bool | .mapApp _ => true | _ => false

theorem runChain_append (st : ChainSt) (a b : List Step) :
    runChain st (a ++ b) = runChain (runChain st a) b := by
  simp [runChain, List.foldl_append]

/-- once written (or dead) no further handler runs -/
theorem runChain_stuck (st : ChainSt) (steps : List Step) (h : st.out.continues = false) :
    runChain st steps = st := by
  induction steps with
  | nil => rfl
  | cons x xs ih => simp only [runChain, List.foldl_cons, ChainSt.step, h] at ih ⊢; simpa using ih

theorem continues_of_later (st : ChainSt) (steps : List Step)
    (h : (runChain st steps).out.continues = true) : st.out.continues = true := by
  cases hc : st.out.continues with
  | true => rfl
  | false => rw [runChain_stuck st steps hc, hc] at h; exact h

theorem step_req (st : ChainSt) (x : Step) (hx : x.isMapReq = false) : (st.step x).req = st.req := by
  unfold ChainSt.step
  split
  · rfl
  · cases x <;> simp [Step.isMapReq] at hx ⊢

theorem step_app (st : ChainSt) (x : Step) (hx : x.isMapApp = false) : (st.step x).app = st.app := by
  unfold ChainSt.step
  split
  · rfl
  · cases x <;> simp [Step.isMapApp] at hx ⊢

/-- handlers that do not map a ReturnHandler into the request scope leave its entry alone —
    in particular handlers that RETURN values do -/
theorem runChain_req (st : ChainSt) (steps : List Step) (h : ∀ x ∈ steps, x.isMapReq = false) :
    (runChain st steps).req = st.req := by
  induction steps generalizing st with
  | nil => rfl
  | cons x xs ih =>
    simp only [runChain, List.foldl_cons]
    have := ih (st.step x) (fun y hy => h y (by simp [hy]))
    simp only [runChain] at this
    rw [this, step_req st x (h x (by simp))]

theorem runChain_app (st : ChainSt) (steps : List Step) (h : ∀ x ∈ steps, x.isMapApp = false) :
    (runChain st steps).app = st.app := by
  induction steps generalizing st with
  | nil => rfl
  | cons x xs ih =>
    simp only [runChain, List.foldl_cons]
    have := ih (st.step x) (fun y hy => h y (by simp [hy]))
    simp only [runChain] at this
    rw [this, step_app st x (h x (by simp))]

/-- The handler used for a return is the one resolvable in the scope chain AT THAT MOMENT
    (request scope, then app scope, then the table) — for the k-th return of a request as for
    the first: the state `st` is arbitrary, whatever ran and returned before. -/
theorem lookup_at_each_return (st : ChainSt) (ph : Bytes) (s : RetShape)
    (hc : st.out.continues = true) :
    (st.step (.ret ph s)).out = Out.run st.out (afterHandler ph st.req st.app s) ∧
    (s.arity ≠ 0 → ∀ h, st.req = some h → (st.step (.ret ph s)).out = Out.run st.out (h s)) ∧
    (s.arity ≠ 0 → ∀ h, st.req = none → st.app = some h → (st.step (.ret ph s)).out = Out.run st.out (h s)) := by
  have h0 : (st.step (.ret ph s)).out = Out.run st.out (afterHandler ph st.req st.app s) := by
    simp [ChainSt.step, hc, respondFrom]
  refine ⟨h0, ?_, ?_⟩
  · intro hs h hr; rw [h0, hr]; simp [afterHandler, resolve, hs]
  · intro hs h hr ha; rw [h0, hr, ha]; simp [afterHandler, resolve, hs]

/-- A `c.Map(ReturnHandler(h))` in the middle of the chain takes effect for the next return,
    for ALL handlers `pre` before it (including handlers that already returned values and were
    rendered by the table or by another handler) and all handlers `mid` between that do not map
    again: if the chain gets that far, the values are rendered by `h`, not by the table. -/
theorem midchain_map_takes_effect (st : ChainSt) (pre mid : List Step) (h : Handler) (ph : Bytes)
    (s : RetShape) (hmid : ∀ x ∈ mid, x.isMapReq = false) (hs : s.arity ≠ 0)
    (hc : (runChain st (pre ++ .mapReq h :: mid)).out.continues = true) :
    (runChain st (pre ++ .mapReq h :: mid ++ [.ret ph s])).out =
      Out.run (runChain st (pre ++ .mapReq h :: mid)).out (h s) := by
  have e1 : pre ++ .mapReq h :: mid ++ [.ret ph s] = (pre ++ .mapReq h :: mid) ++ [.ret ph s] := by simp
  have e2 : pre ++ .mapReq h :: mid = pre ++ ([.mapReq h] ++ mid) := by simp
  rw [e1, runChain_append]
  have hreq : (runChain st (pre ++ .mapReq h :: mid)).req = some h := by
    rw [e2, runChain_append, runChain_append, runChain_req _ mid hmid]
    have hc1 : (runChain st pre).out.continues = true := by
      rw [e2, runChain_append] at hc; exact continues_of_later _ _ hc
    have hc1' : (List.foldl ChainSt.step st pre).out.continues = true := hc1
    simp [runChain, ChainSt.step, hc1']
  exact (lookup_at_each_return _ ph s hc).2.1 hs h hreq

/-- the same for a handler mapped into the app scope mid-request, as long as the request scope
    holds none -/
theorem midchain_app_map_takes_effect (st : ChainSt) (pre mid : List Step) (h : Handler) (ph : Bytes)
    (s : RetShape) (hmid : ∀ x ∈ mid, x.isMapApp = false) (hs : s.arity ≠ 0)
    (hreq : (runChain st (pre ++ .mapApp h :: mid)).req = none)
    (hc : (runChain st (pre ++ .mapApp h :: mid)).out.continues = true) :
    (runChain st (pre ++ .mapApp h :: mid ++ [.ret ph s])).out =
      Out.run (runChain st (pre ++ .mapApp h :: mid)).out (h s) := by
  have e1 : pre ++ .mapApp h :: mid ++ [.ret ph s] = (pre ++ .mapApp h :: mid) ++ [.ret ph s] := by simp
  have e2 : pre ++ .mapApp h :: mid = pre ++ ([.mapApp h] ++ mid) := by simp
  rw [e1, runChain_append]
  have happ : (runChain st (pre ++ .mapApp h :: mid)).app = some h := by
    rw [e2, runChain_append, runChain_append, runChain_app _ mid hmid]
    have hc1 : (runChain st pre).out.continues = true := by
      rw [e2, runChain_append] at hc; exact continues_of_later _ _ hc
    have hc1' : (List.foldl ChainSt.step st pre).out.continues = true := hc1
    simp [runChain, ChainSt.step, hc1']
  exact (lookup_at_each_return _ ph s hc).2.2 hs h hreq happ

-- non-vacuity: a nil error returned first (rendered by the table, writes nothing), then a
-- handler is mapped, then a string is returned: the mapped handler answers (299), not the table
example :
    let h : Handler := fun _ => [.writeHeader 299]
    let st := runChain (newRequest false none) [.ret [] (.one .ifaceNil), .mapReq h, .silent, .ret [] (.one (.str [120]))]
    st.out.resp = ⟨299, [], false⟩ ∧ st.ran = 4 := by decide
-- … and without the map the table does (200 "x")
example :
    (runChain (newRequest false none) [.ret [] (.one .ifaceNil), .silent, .ret [] (.one (.str [120]))]).out.resp
      = ⟨200, [120], false⟩ := by decide

/-! ### the original tail (finding F14), for comparison -/

/-- before the repair a non-nil empty byte slice sent `200` with an empty body and stopped the
    chain, contradicting `zero_writes_nothing` -/
theorem unrepaired_writes_on_empty :
    RetShape.blank (.one (.bytes (some []))) = true ∧
    handleReturnUnrepaired [] (.one (.bytes (some []))) = [.write []] ∧
    (Out.run (fresh false) (handleReturnUnrepaired [] (.one (.bytes (some []))))).resp = ⟨200, [], false⟩ ∧
    (Out.run (fresh false) (handleReturnUnrepaired [] (.one (.bytes (some []))))).continues = false := by
  decide

/-! ### non-vacuity -/

-- the rows are inhabited and distinguishable
example : (respond false [] (.one (.str [104, 105]))).resp = ⟨200, [104, 105], false⟩ := by decide
example : (respond true [] (.one (.str [104, 105]))).resp = ⟨200, [], false⟩ := by decide
example : (respond false [] (.one (.ifaceOf (.err (some [98, 111, 111, 109]))))).resp = ⟨500, [98, 111, 111, 109], false⟩ := by decide
example : (respond false [] (viaTeapot 418 [116, 101, 97])).resp = ⟨418, [116, 101, 97], false⟩ := by decide
example : (respond false [] (.two (.int 400) (.ifaceOf (.err (some [98, 97, 100]))))).resp = ⟨400, [98, 97, 100], false⟩ := by decide
example : (respond false [] (.two (.str [115]) (.ifaceOf (.err (some [101]))))).resp = ⟨500, [101], false⟩ := by decide
example : (respond false [] (.two (.str [115]) .ifaceNil)).resp = ⟨200, [115], false⟩ := by decide
-- blank results exist in every shape, and a non-blank one does stop the chain
example : RetShape.blank (.two (.bytes (some [])) .ifaceNil) = true ∧
    RetShape.blank (.one (.ptrTo (.str []))) = true ∧
    (respond false [] (.one (.str [120]))).continues = false := by decide
-- order matters: swapping teapot's results is a different (unknown) shape that writes nothing
example : (respond false [] (.two (.str [116, 101, 97]) (.int 418))).resp = ⟨200, [116, 101, 97], false⟩ := by decide
-- a custom handler really replaces the table
example : (respondFrom { w := Writer.init false } [] (some fun _ => [.writeHeader 299]) none (.one (.str [120]))).resp
    = ⟨299, [], false⟩ := by decide
-- codesValid / validCode hypotheses are satisfiable
example : RetShape.codesValid (.two (.int 418) (.str [116, 101, 97])) := by
  show validCode 418 = true
  decide

end Flamego.Ret
