/-
  Props/C15.lean — Recovery contains every panic and leaves the application serving.

  Quantifier: every configuration `c : Cfg` (any middleware/group/route/action layout, any handler
  programs, panics of every value kind at any position and phase, failed injections) with
  flamego.Recovery() in some slot `r`, both environments, request method HEAD or not (`c.head`).
  Standing hypotheses (`Installed c r`):
    * `c.onceBug = false` — the response writer does not lose its Once to a panicking Before hook.
      The real writer does (finding F15, `f15_as_is` below); sessions with such hooks are matched by
      the known-findings signature in the correspondence check.
    * status codes are ones net/http accepts (`100 ≤ code`), as in C13.
    * slot `r` holds Recovery.
  (`Installed`, its executable forms `Cfg.codesB`/`Cfg.nextOnceB` and the request-level lemmas
  `serve_contained`, `serve_mono` live in Proofs/Chain, part 4.)
  Panics carry the slot that raised them; `Ev.escaped v j` = a panic raised by slot j left ServeHTTP,
  `Ev.abort i j` = handler i was unwound by a panic raised by slot j, `Ev.recovered r j s` = the
  Recovery in slot r caught a panic raised by slot j when the status was s.
-/
import Flamego.Proofs.Chain

namespace Flamego.Chain
open Flamego.Writer

/-! ### "a panic … raised by any later handler at any depth of the chain … never escapes ServeHTTP" -/

/-- Frame level, no guard: whatever happens inside Recovery's `c.Next()` — any handlers, any depth,
    any panic value, before or after writing, failed injections — nothing propagates out of the
    Recovery handler; it returns normally to ITS caller. -/
theorem recovery_frame_contains (c : Cfg) (hb : c.onceBug = false) (runF : St → Res) (i : Nat) (st : St) :
    (invoke c runF i .recovery st).2 = none :=
  (invoke_recovery_spec hb runF i st).1

/-- The clause read by position, at full strength: with Recovery in slot r, only a panic raised by a
    slot before r can leave ServeHTTP.  This is FALSE (`no_escape_full_false`, finding F17). -/
def no_escape_full : Prop :=
  ∀ (c : Cfg) (r : Nat), Installed c r → ∀ v j, Ev.escaped v j ∈ (serve c).trace → j < r

/-- …and true when no handler before the Recovery calls Next() more than once: then every panic
    raised by Recovery's slot or any later slot — at any depth, in any phase, including a failed
    dependency resolution — stays inside ServeHTTP. -/
theorem no_escape_partial (c : Cfg) (r : Nat) (hI : Installed c r) (hg : NextOnceBefore c r) :
    ∀ v j, Ev.escaped v j ∈ (serve c).trace → j < r := by
  obtain ⟨evs, p, ht, _, _, hne, ho⟩ := serve_contained hI hg
  intro v j h
  rw [ht] at h
  rcases List.mem_append.mp h with h | h
  · exact absurd h (hne v j)
  · rcases p with _ | ⟨v', j'⟩
    · cases h
    · simp only [escEv, List.mem_singleton] at h
      cases h
      exact ho v j rfl

/-- F17's witness: `[h0: Next(); Next()] [Recovery] [h2: WriteHeader(200)] [h3: panic("…")]`.
    The chain stops inside the first Next() because h2 wrote; Recovery returns; h0's second Next()
    starts h3 outside Recovery's frame, and h3's panic (slot 3 > 1) leaves ServeHTTP. -/
def f17Witness : Cfg :=
  { mw := [.plain { acts := [.next, .next] }, .recovery],
    rt := [.plain { acts := [.write 200] }, .plain { acts := [.panic .str] }] }

theorem no_escape_full_false : ¬ no_escape_full := by
  intro h
  have hI : Installed f17Witness 1 := ⟨rfl, Cfg.codesB_ok _ (by decide), by decide⟩
  have ht : (serve f17Witness).trace =
      [.enter 0, .enter 1, .enter 2, .exit 2, .exit 1, .enter 3, .abort 3 3, .abort 0 3, .escaped .str 3] := by
    decide
  have := h f17Witness 1 hI .str 3 (by rw [ht]; simp)
  omega

/-! ### "the client gets status 500 if no status had been sent yet" (else the earlier status stands) -/

/-- the documented values of the two constants the model reads from recovery.go (Gen/ConstFacts):
    the status is 500, the plain body is the 21 bytes of "Internal Server Error".  The theorems
    below that say "500" go through `recoveryStatus_eq`, so a changed literal in recovery.go
    breaks them by name at build time (Proofs/Chain holds for any non-zero status). -/
theorem recoveryStatus_eq : recoveryStatus = 500 := rfl
theorem recoveryPlainLen_eq : recoveryPlainLen = 21 := rfl

/-- Recovery caught a panic while nothing had been sent: the response status is 500. -/
theorem status_500_if_unwritten (c : Cfg) (hb : c.onceBug = false) (hc : c.codesOK (fun code => 100 ≤ code))
    (r j : Nat) (h : Ev.recovered r j 0 ∈ (serve c).trace) : (serve c).w.status = 500 := by
  simpa [finStatus, recoveryStatus_eq] using (serve_mono c hb hc r j 0 h).1

/-- Recovery caught a panic after status `s` had been sent: `s` stands. -/
theorem earlier_status_stands (c : Cfg) (hb : c.onceBug = false) (hc : c.codesOK (fun code => 100 ≤ code))
    (r j s : Nat) (hs : s ≠ 0) (h : Ev.recovered r j s ∈ (serve c).trace) : (serve c).w.status = s := by
  simpa [finStatus, hs] using (serve_mono c hb hc r j s h).1

/-- Frame level: when the chain inside Recovery's Next() panics (value v raised by slot j) in state
    s1, Recovery records it, leaves status 500 if none had been sent (else the earlier one), sends
    the body for the environment, and returns normally. -/
theorem recovery_frame_status (c : Cfg) (hb : c.onceBug = false) (runF : St → Res) (i : Nat) (st s1 : St)
    (v : PVal) (j : Nat) (hr : runF (st.ev (.enter i)) = (s1, some (v, j))) (hw : WOK s1.w) :
    let s' := (invoke c runF i .recovery st).1
    s'.w.status = finStatus s1.w.status ∧ Ev.recovered i j s1.w.status ∈ s'.trace ∧
      s'.out = (if c.head then s1.out else s1.out ++ [recTok c]) ∧ (invoke c runF i .recovery st).2 = none := by
  have hw2 := recoverWrite_spec hb i (s1.ev (.recovered i j s1.w.status))
  rw [invoke_rec_caught hr hw2]
  refine ⟨?_, by simp [St.ev], by simp [St.ev, recTok], rfl⟩
  simp only [St.ev_w]
  generalize (if c.dev = true then c.detailLen else recoveryPlainLen) = len
  by_cases h0 : s1.w.status = 0
  · have e500 : (s1.w.writeHeader recoveryStatus).status = recoveryStatus := wh_fresh _ _ hw h0
    rw [write_sticky _ _ _ (by rw [e500]; exact recoveryStatus_ne), e500]; simp [finStatus, h0]
  · rw [write_sticky _ _ _ (by rw [wh_sticky _ _ h0]; exact h0), wh_sticky _ _ h0]; simp [finStatus, h0]

/-! ### "panic detail appears in the body only in development mode" -/

/-- The development page (panic value and stack) reaches the client only when `Env()` is
    development — for every configuration, with or without `onceBug`. -/
theorem body_detail_only_in_dev (c : Cfg) (h : Tok.detail ∈ (serve c).out) : c.dev = true := by
  have ok : RelOK c (fun _ => True) (fun a b => Tok.detail ∈ b.out → Tok.detail ∈ a.out ∨ c.dev = true) := {
    refl := fun _ h => Or.inl h
    trans := fun h1 h2 h => (h2 h).elim h1 Or.inr
    ev := fun _ _ _ h => Or.inl h
    adv := fun _ _ h => Or.inl h
    hdr := by
      intro i code s _ h
      unfold doHeader at h; split at h <;> exact Or.inl (by simpa [spendOnce] using h)
    body := by
      intro i n s h
      unfold doBody at h; split at h
      · exact Or.inl (by simpa [spendOnce] using h)
      · rcases (outStep c.head s.out (Tok.xs n)).2.1 _ h with h | h
        · exact Or.inl h
        · cases h
    recov := by
      intro r j s h
      unfold recoverWrite at h; split at h
      · exact Or.inl (by simpa [spendOnce, St.ev] using h)
      · rcases (outStep c.head s.out (if c.dev = true then Tok.detail else Tok.plain)).2.1 _ h with h | h
        · exact Or.inl h
        · right
          by_cases hd : c.dev = true
          · exact hd
          · simp [hd] at h
    cancel := fun _ h => Or.inl h
    hook := fun _ h => Or.inl h }
  obtain ⟨_, st1, p, hr, _, _, _, _, ho⟩ := serve_ext c
  have := run_rel ok c.codesOK_true c.fuel c.st0
  rw [hr] at this
  rw [ho] at h
  rcases this h with h | h
  · cases h
  · exact h

/-- …and every Recovery that caught a panic sent the body of the environment: the page in
    development, the plain "Internal Server Error" otherwise (for a HEAD request the writer forwards
    no body at all, C13). -/
theorem body_by_environment (c : Cfg) (hb : c.onceBug = false) (hc : c.codesOK (fun code => 100 ≤ code))
    (hh : c.head = false) (r j s : Nat) (h : Ev.recovered r j s ∈ (serve c).trace) :
    (if c.dev then Tok.detail else Tok.plain) ∈ (serve c).out :=
  (serve_mono c hb hc r j s h).2 hh

/-! ### "middleware placed before Recovery still completes its code after Next()" -/

/-- A handler in a slot before the Recovery is unwound only by a panic raised before the Recovery —
    never by one raised by the Recovery's slot or a later one (guard as for `no_escape_partial`). -/
theorem outer_middleware_completes (c : Cfg) (r : Nat) (hI : Installed c r) (hg : NextOnceBefore c r) :
    ∀ i j, Ev.abort i j ∈ (serve c).trace → i < r → j < r := by
  obtain ⟨evs, p, ht, hao, _, _, _⟩ := serve_contained hI hg
  intro i j h
  rw [ht] at h
  rcases List.mem_append.mp h with h | h
  · exact hao i j h
  · rcases p with _ | ⟨v, k⟩
    · cases h
    · simp [escEv] at h

/-- Hence every handler before the Recovery that started gets its exit event (its code after
    Next() ran to the end), unless a panic raised before the Recovery unwound it. -/
theorem outer_middleware_exits (c : Cfg) (r : Nat) (hI : Installed c r) (hg : NextOnceBefore c r)
    (i : Nat) (hi : i < r) (he : Ev.enter i ∈ (serve c).trace) :
    Ev.exit i ∈ (serve c).trace ∨ ∃ j, j < r ∧ Ev.abort i j ∈ (serve c).trace := by
  obtain ⟨evs, p, ht, hao, hbal, _, _⟩ := serve_contained hI hg
  have hin : Ev.enter i ∈ evs := by
    rw [ht] at he
    rcases List.mem_append.mp he with h | h
    · exact h
    · rcases p with _ | ⟨v, k⟩
      · cases h
      · simp [escEv] at h
  rcases wbGo_closed i evs [] [] (hbal []) (Or.inr hin) with h | h | ⟨j, h⟩
  · cases h
  · left; rw [ht]; simp [h]
  · right; exact ⟨j, hao i j h hi, by rw [ht]; simp [h]⟩

/-! ### "later requests are served as if nothing had happened" -/

/-- In the model a request is a function of the configuration alone and returns no new
    configuration: `serve : Cfg → St`.  There is nothing a request — panicking or not — could leave
    behind for the next one, so in any sequence of requests on one instance (the i-th served in
    environment `envs[i]`) each behaves exactly as if it were alone.  What this theorem cannot show
    is that the Go code has no such hidden state; that is what the correspondence check observes
    (2–3 requests per real instance, compared one by one with `serve`), and C05 for concurrency. -/
theorem instance_unchanged (c : Cfg) (envs : List Bool) (k : Nat) :
    (serveSeq c envs)[k]? = envs[k]?.map (fun d => serve { c with dev := d }) := by
  simp [serveSeq]

/-! ### finding F15, stated: what `onceBug = true` (response_writer.go as it is) does -/

/-- `[Recovery] [h: Before(panicking hook); WriteHeader(201)]`: the Once is spent by the panicking
    hook, Recovery's WriteHeader(500) is a no-op, no status is ever stored or sent explicitly
    (the client's writer defaults to 200) although Recovery's body goes out. -/
theorem f15_as_is :
    let c : Cfg := { mw := [.recovery], rt := [.plain { acts := [.hookPanic, .write 201] }], onceBug := true }
    (serve c).w.status = 0 ∧ (serve c).w.under = [UEv.body 21] ∧ (serve c).out = [Tok.plain] ∧
    (serve { c with onceBug := false }).w.status = 500 := by
  decide

/-! ### non-vacuity -/

/-- Recovery in slot 1 behind a logging middleware; the route handler writes 201 and two bytes, calls
    Next(), the action panics with a runtime error: the hypotheses hold, nothing escapes, the earlier
    status stands, and the middleware's code after Next() runs (`exit 0`). -/
example :
    let c : Cfg := { mw := [.plain { acts := [.next, .map] }, .recovery],
                     rt := [.plain { acts := [.write 201, .body 2, .next] }],
                     action := some (.plain { acts := [.panic .rt] }) }
    Installed c 1 ∧ NextOnceBefore c 1 ∧
    (serve c).trace = [.enter 0, .enter 1, .enter 2, .enter 3, .abort 3 3, .abort 2 3,
                       .recovered 1 3 201, .exit 1, .exit 0] ∧
    (serve c).w.status = 201 ∧ (serve c).out = [.xs 2, .plain] := by
  refine ⟨⟨rfl, Cfg.codesB_ok _ (by decide), by decide⟩, Cfg.nextOnceB_ok _ _ (by decide), by decide, by decide, by decide⟩

/-- a failed dependency resolution deep in the chain, nothing written yet, development mode -/
example :
    let c : Cfg := { mw := [.recovery], grp := [.plain { acts := [.next] }], rt := [.unresolvable], dev := true }
    Installed c 0 ∧ NextOnceBefore c 0 ∧
    (serve c).trace = [.enter 0, .enter 1, .inject 2, .abort 1 2, .recovered 0 2 0, .exit 0] ∧
    (serve c).w.status = 500 ∧ (serve c).out = [.detail] := by
  refine ⟨⟨rfl, Cfg.codesB_ok _ (by decide), by decide⟩, Cfg.nextOnceB_ok _ _ (by decide), by decide, by decide, by decide⟩

end Flamego.Chain
