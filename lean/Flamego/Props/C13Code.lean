/-
  Props/C13Code.lean — C13 at the level of the CODE.

  `Gen/WriterCode.lean` is not written by hand: /verif/translator (gocode.go) regenerates it from response_writer.go on
  every run, method by method, as pure state-passing functions over a structure that mirrors `type responseWriter struct`
  field by field.  This file proves, for ALL states of that structure, all arguments and all answers of the wrapped
  http.ResponseWriter, that each generated method is one step of the hand-written state machine `Model/Writer` (the
  machine the C13 theorems of Props/C13 are about) under the abstraction `abs`; by induction over the call sequence
  (`code_refines`) every C13 clause then holds of the generated code itself (`code_…` below).

  So for response_writer.go the tie to the source is of both kinds the method allows: the model of the METHOD BODIES is
  regenerated and the kernel re-checks the refinement on every run; the correspondence check (harness vs. `fmodel`) still
  runs the real binary against the hand-written machine.  What is assumed: the conventions of Code/GoSem.lean (an
  environment object answers arbitrarily; hooks are observers of the writer; integers do not wrap) and the translator.
-/
import Flamego.Gen.WriterCode
import Flamego.Props.C13
set_option linter.unusedSimpArgs false
set_option linter.unusedVariables false
namespace Flamego.C13Code
open Flamego.GoSem Flamego.Gen.WriterCode Flamego.Writer

/-! ### the abstraction -/

/-- one recorded call of the environment, seen as an event of the machine; the `k`-th call's answer is what a `Write`
accepted -/
def absEvAt (ans : Nat → String → Int × Int) (k : Nat) (c : String × List Arg) : List UEv :=
  if c.1 = "WriteHeader" then [UEv.hdr (c.2.headD (Arg.int 0)).toInt.toNat]
  else if c.1 = "Write" then [UEv.body (ans k "Write").1.toNat]
  else if c.1 = "Flush" then [UEv.flush]
  else if c.1 = "hook" then [UEv.hook (c.2.headD (Arg.int 0)).toInt.toNat]
  else []

def absTraceFrom (ans : Nat → String → Int × Int) : Nat → List (String × List Arg) → List UEv
  | _, [] => []
  | k, c :: cs => absEvAt ans k c ++ absTraceFrom ans (k + 1) cs

theorem absTraceFrom_append (ans : Nat → String → Int × Int) (k : Nat) (xs ys : List (String × List Arg)) :
    absTraceFrom ans k (xs ++ ys) = absTraceFrom ans k xs ++ absTraceFrom ans (k + xs.length) ys := by
  induction xs generalizing k with
  | nil => simp [absTraceFrom]
  | cons x xs ih => simp [absTraceFrom, ih, Nat.add_assoc, Nat.add_comm 1]

def abs (g : responseWriter) : W :=
  { head := g.method == "HEAD", status := g.status.toNat, size := g.size.toNat,
    hooks := g.beforeFuncs.map Int.toNat, onceDone := g.writeHeaderOnce,
    under := absTraceFrom g.ResponseWriter.answers 0 g.ResponseWriter.trace }

/-- what the code keeps true of itself: the counters never go negative -/
structure Wf (g : responseWriter) : Prop where
  status_nonneg : 0 ≤ g.status
  size_nonneg : 0 ≤ g.size

/-- the io.Writer contract of the wrapped writer: it never reports a negative count -/
def EnvOK (g : responseWriter) : Prop := ∀ k, 0 ≤ (g.ResponseWriter.answers k "Write").1

/-! ### method by method -/

theorem status_refines (g : responseWriter) (hw : Wf g) :
    (Status g).2 = g ∧ ((Status g).1.toNat = observe (abs g) .status) ∧ 0 ≤ (Status g).1 :=
  ⟨rfl, rfl, hw.status_nonneg⟩

theorem size_refines (g : responseWriter) :
    (Size g).2 = g ∧ (Size g).1.toNat = observe (abs g) .size :=
  ⟨rfl, rfl⟩

theorem written_refines (g : responseWriter) (hw : Wf g) :
    (Written g).2 = g ∧ (Written g).1 = (abs g).written := by
  have := hw.status_nonneg
  refine ⟨rfl, ?_⟩
  show (g.status != 0) = (g.status.toNat != Gen.writerUnwrittenStatus)
  by_cases h : g.status = 0
  · simp [h]
  · have h' : g.status.toNat ≠ 0 := by omega
    have h'' : g.status.toNat ≠ Gen.writerUnwrittenStatus := h'
    rw [bne_iff_ne.mpr h, bne_iff_ne.mpr h'']

theorem before_refines (g : responseWriter) (f : FuncVal) :
    abs (Before g f).2 = step (abs g) (.before f.toNat) := by
  simp [Before, step, abs]

theorem absTrace_hooks (ans : Nat → String → Int × Int) (k : Nat) (fs : List Int) :
    absTraceFrom ans k (fs.map fun f => ("hook", [Arg.int f])) = fs.map fun f => UEv.hook f.toNat := by
  induction fs generalizing k with
  | nil => simp [absTraceFrom]
  | cons f fs ih => simp [absTraceFrom, absEvAt, ih]

@[simp] theorem absTrace_hooks_rev (ans : Nat → String → Int × Int) (k : Nat) (fs : List Int) :
    absTraceFrom ans k (fs.map fun f => ("hook", [Arg.int f])).reverse = (fs.map (UEv.hook ∘ Int.toNat)).reverse := by
  rw [← List.map_reverse, absTrace_hooks, ← List.map_reverse]; rfl

/-- the loop of `callBefore`, in closed form: every registered function is called, last registered first, and nothing
else changes -/
theorem callBefore_closed (g : responseWriter) :
    (callBefore g).2 = { g with ResponseWriter :=
      { g.ResponseWriter with trace := g.ResponseWriter.trace ++ g.beforeFuncs.reverse.map fun f => ("hook", [Arg.int f]) } } := by
  simp only [callBefore]
  suffices h : ∀ (fs : List FuncVal) (g : responseWriter),
      forEachRev fs (fun elem_i (w : responseWriter) => call_BeforeFunc elem_i w) g
        = { g with ResponseWriter := { g.ResponseWriter with trace := g.ResponseWriter.trace ++ fs.reverse.map fun f => ("hook", [Arg.int f]) } } by
    exact h g.beforeFuncs g
  intro fs
  induction fs with
  | nil => intro g; simp
  | cons f fs ih =>
    intro g
    simp only [forEachRev, List.foldr_cons] at ih ⊢
    rw [ih g]
    simp [call_BeforeFunc, Env.record, List.append_assoc]

theorem callBefore_refines (g : responseWriter) :
    abs (callBefore g).2 = { abs g with under := (abs g).under ++ (abs g).hooks.reverse.map UEv.hook } := by
  rw [callBefore_closed]
  simp [abs, absTraceFrom_append, absTrace_hooks, List.map_reverse]

theorem callBefore_wf (g : responseWriter) (hw : Wf g) : Wf (callBefore g).2 := by
  rw [callBefore_closed]; exact ⟨hw.status_nonneg, hw.size_nonneg⟩

/-- `WriteHeader(s)` is the machine's `writeHeader` -/
theorem writeHeader_refines (g : responseWriter) (s : Int) (hs : 0 ≤ s) (hw : Wf g) :
    abs (WriteHeader g s).2 = (abs g).writeHeader s.toNat ∧ Wf (WriteHeader g s).2
      ∧ (WriteHeader g s).2.ResponseWriter.answers = g.ResponseWriter.answers := by
  have hwr := written_refines g hw
  by_cases h1 : g.writeHeaderOnce
  · simp [WriteHeader, h1, W.writeHeader, abs, hw.status_nonneg, hw.size_nonneg]
    exact ⟨hw.status_nonneg, hw.size_nonneg⟩
  · by_cases h2 : (Written g).1
    · have h2' : (abs g).written = true := by rw [← hwr.2]; exact h2
      have hst : (abs g).onceDone = false := by simp [abs, h1]
      simp only [WriteHeader, h1, hwr.1, h2]
      simp only [W.writeHeader, hst, h2']
      refine ⟨by simp [abs], ⟨hw.status_nonneg, hw.size_nonneg⟩, rfl⟩
    · have h2' : (abs g).written = false := by rw [← hwr.2]; simpa using h2
      have hst : (abs g).onceDone = false := by simp [abs, h1]
      simp only [WriteHeader, h1, hwr.1, h2]
      simp only [W.writeHeader, hst, h2']
      rw [callBefore_closed]
      refine ⟨?_, ⟨by simpa using hs, hw.size_nonneg⟩, rfl⟩
      simp [abs, envCall_ResponseWriter, Env.call, Env.record, absTraceFrom_append, absTrace_hooks, absTraceFrom, absEvAt,
        List.map_reverse]

theorem writeHeader_method (g : responseWriter) (s : Int) : (WriteHeader g s).2.method = g.method := by
  by_cases h1 : g.writeHeaderOnce
  · simp [WriteHeader, h1]
  · by_cases h2 : (Written g).1
    · simp only [WriteHeader, h1, h2, if_true, if_false, Bool.false_eq_true]
      rfl
    · simp only [WriteHeader, h1, h2, if_true, if_false, Bool.false_eq_true]
      rw [callBefore_closed]
      rfl

theorem writeHeader_ifaces (g : responseWriter) (s : Int) :
    (WriteHeader g s).2.ResponseWriter.ifaces = g.ResponseWriter.ifaces := by
  by_cases h1 : g.writeHeaderOnce
  · simp [WriteHeader, h1]
  · by_cases h2 : (Written g).1
    · simp only [WriteHeader, h1, h2, if_true, if_false, Bool.false_eq_true]
      rfl
    · simp only [WriteHeader, h1, h2, if_true, if_false, Bool.false_eq_true]
      rw [callBefore_closed]
      rfl

/-- `if !w.Written() { w.WriteHeader(200) }` — the common prefix of `Write` and `Flush` -/
def ensureC (g : responseWriter) : responseWriter :=
  if (!(Written g).1) then (WriteHeader (Written g).2 200).2 else (Written g).2

theorem ensure_refines (g : responseWriter) (hw : Wf g) :
    abs (ensureC g) = (abs g).ensure ∧ Wf (ensureC g)
      ∧ (ensureC g).ResponseWriter.answers = g.ResponseWriter.answers ∧ (ensureC g).method = g.method
      ∧ (ensureC g).ResponseWriter.ifaces = g.ResponseWriter.ifaces := by
  have hwr := written_refines g hw
  have hwh := writeHeader_refines g 200 (by decide) hw
  unfold ensureC W.ensure
  rw [hwr.1, hwr.2]
  by_cases h : (abs g).written
  · simp [h, hw]
  · simp only [h]
    exact ⟨by simpa using hwh.1, hwh.2.1, hwh.2.2, writeHeader_method g 200, writeHeader_ifaces g 200⟩

theorem write_eq (g : responseWriter) (b : Bytes) : Write g b =
      (if ((ensureC g).method != "HEAD") then
        ((envCall_ResponseWriter (ensureC g) "Write" [Arg.bytes b]).1,
          { (envCall_ResponseWriter (ensureC g) "Write" [Arg.bytes b]).2 with
            size := (ensureC g).size + (envCall_ResponseWriter (ensureC g) "Write" [Arg.bytes b]).1.1 })
      else ((0, 0), ensureC g)) := by
  simp only [Write, ensureC]
  by_cases hwn : (Written g).1 <;> by_cases hm : (WriteHeader (Written g).2 200).2.method != "HEAD" <;>
    by_cases hm' : (Written g).2.method != "HEAD" <;> simp [hwn, hm, hm', envCall_ResponseWriter, Env.call]

theorem flush_eq (g : responseWriter) : Flush g =
      (if (ensureC g).ResponseWriter.implements "net/http.Flusher"
       then ((), (envCall_ResponseWriter (ensureC g) "Flush" []).2) else ((), ensureC g)) := by
  simp only [Flush, ensureC]
  by_cases hwn : (Written g).1 <;> simp only [hwn, Bool.not_true, Bool.not_false, if_true, if_false, Bool.false_eq_true] <;>
    split <;> rfl

/-- `Write(b)`: one `write` step of the machine; the count the wrapped writer reports is the environment's answer to this
very call, and it is what `Write` returns and what `Size()` grows by -/
theorem write_refines (g : responseWriter) (b : Bytes) (hw : Wf g) (he : EnvOK g) :
    let fwd := (g.ResponseWriter.answers (ensureC g).ResponseWriter.trace.length "Write").1.toNat
    abs (Write g b).2 = step (abs g) (.write b.length fwd)
      ∧ (Write g b).1.1.toNat = observe (step (abs g) (.write b.length fwd)) (.write b.length fwd)
      ∧ Wf (Write g b).2 ∧ (Write g b).2.ResponseWriter.answers = g.ResponseWriter.answers := by
  intro fwd
  obtain ⟨h1, h2, h3, h4, _⟩ := ensure_refines g hw
  have hW := write_eq g b
  have hfw : 0 ≤ (g.ResponseWriter.answers (ensureC g).ResponseWriter.trace.length "Write").1 := he _
  have hhead : (abs (ensureC g)).head = (abs g).head := by simp [abs, h4]
  rw [hW]
  by_cases hm : (ensureC g).method = "HEAD"
  · have hh : (abs g).ensure.head = true := by rw [← h1]; simp [abs, hm]
    simp only [hm, bne_self_eq_false, Bool.false_eq_true, if_false, step, hh, if_true, observe]
    refine ⟨h1, ?_, h2, h3⟩
    have : (abs g).ensure.head = true := hh
    simp [this]
  · have hh : (abs g).ensure.head = false := by rw [← h1]; simp [abs, hm]
    have hne : ((ensureC g).method != "HEAD") = true := by simpa using hm
    simp only [hne, if_true, step, hh, observe]
    refine ⟨?_, ?_, ⟨h2.status_nonneg, ?_⟩, ?_⟩
    · rw [← h1]
      simp only [abs, envCall_ResponseWriter, Env.call, Env.record, absTraceFrom_append, absTraceFrom, absEvAt, h3]
      have := h2.size_nonneg
      simp [fwd, h3, hm, Int.toNat_add this hfw]
    · simp [envCall_ResponseWriter, Env.call, fwd, h3]
    · simp only [envCall_ResponseWriter, Env.call, h3]
      have := h2.size_nonneg
      omega
    · simp [envCall_ResponseWriter, Env.call, Env.record, h3]

/-- `Flush()`: the machine's `flush` when the wrapped writer is an http.Flusher (the machine assumes it is); the same
without the flush event when it is not -/
theorem flush_refines (g : responseWriter) (hw : Wf g) :
    (if g.ResponseWriter.implements "net/http.Flusher" then abs (Flush g).2 = step (abs g) .flush
     else abs (Flush g).2 = (abs g).ensure)
      ∧ Wf (Flush g).2 ∧ (Flush g).2.ResponseWriter.answers = g.ResponseWriter.answers := by
  obtain ⟨h1, h2, h3, _, h5⟩ := ensure_refines g hw
  have himpl : (ensureC g).ResponseWriter.implements "net/http.Flusher" = g.ResponseWriter.implements "net/http.Flusher" := by
    simp [Env.implements, h5]
  have hF := flush_eq g
  rw [hF, himpl]
  by_cases hi : g.ResponseWriter.implements "net/http.Flusher"
  · simp only [hi, if_true, step]
    refine ⟨?_, ⟨h2.status_nonneg, h2.size_nonneg⟩, by simpa [envCall_ResponseWriter, Env.call, Env.record] using h3⟩
    rw [← h1]
    simp [abs, envCall_ResponseWriter, Env.call, Env.record, absTraceFrom_append, absTraceFrom, absEvAt]
  · simp only [hi, Bool.false_eq_true, if_false]
    exact ⟨h1, h2, h3⟩

/-! ### every call sequence -/

/-- the calls a user of the writer can make (the translated methods) -/
inductive Call
  | writeHeader (s : Int) | write (b : Bytes) | flush | before (f : FuncVal) | status | size | written

/-- arguments net/http accepts: `WriteHeader` panics underneath for codes below 100 (finding F19 is about those) -/
def Call.valid : Call → Prop
  | .writeHeader s => 100 ≤ s
  | _ => True

/-- the state after one call of the generated code -/
def callStep (g : responseWriter) : Call → responseWriter
  | .writeHeader s => (WriteHeader g s).2
  | .write b => (Write g b).2
  | .flush => (Flush g).2
  | .before f => (Before g f).2
  | .status => (Status g).2
  | .size => (Size g).2
  | .written => (Written g).2

/-- the machine operation a call amounts to in state `g` (a `Write` forwards what the environment answers now) -/
def opOf (g : responseWriter) : Call → Op
  | .writeHeader s => .writeHeader s.toNat
  | .write b => .write b.length (g.ResponseWriter.answers (ensureC g).ResponseWriter.trace.length "Write").1.toNat
  | .flush => .flush
  | .before f => .before f.toNat
  | .status => .status
  | .size => .size
  | .written => .written

def runCode (g : responseWriter) : List Call → responseWriter
  | [] => g
  | c :: cs => runCode (callStep g c) cs

def opsOf (g : responseWriter) : List Call → List Op
  | [] => []
  | c :: cs => opOf g c :: opsOf (callStep g c) cs

/-- what has to be true of the world around the writer: it is an http.Flusher (as net/http's own writers are) and it
never reports a negative count -/
structure World (g : responseWriter) : Prop where
  flusher : g.ResponseWriter.implements "net/http.Flusher" = true
  envOK : EnvOK g

theorem implements_step (g : responseWriter) (c : Call) (i : String) :
    (callStep g c).ResponseWriter.implements i = g.ResponseWriter.implements i := by
  have hwh : ∀ (g : responseWriter) (s : Int), (WriteHeader g s).2.ResponseWriter.implements i = g.ResponseWriter.implements i := by
    intro g s; simp [Env.implements, writeHeader_ifaces]
  have hen : ∀ g : responseWriter, (ensureC g).ResponseWriter.implements i = g.ResponseWriter.implements i := by
    intro g; unfold ensureC; split
    · exact hwh _ _
    · rfl
  cases c with
  | writeHeader s => exact hwh g s
  | write b =>
    show (Write g b).2.ResponseWriter.implements i = _
    rw [write_eq]
    split
    · exact hen g
    · exact hen g
  | flush =>
    show (Flush g).2.ResponseWriter.implements i = _
    rw [flush_eq]
    split
    · exact hen g
    · exact hen g
  | before f => rfl
  | status => rfl
  | size => rfl
  | written => rfl

/-- one call of the generated code is one step of the machine, and the invariants carry over -/
theorem call_refines (g : responseWriter) (c : Call) (hv : c.valid) (hw : Wf g) (hx : World g) :
    abs (callStep g c) = step (abs g) (opOf g c) ∧ Wf (callStep g c) ∧ World (callStep g c) := by
  have hworld : (callStep g c).ResponseWriter.answers = g.ResponseWriter.answers → World (callStep g c) := by
    intro ha
    exact ⟨by rw [implements_step]; exact hx.flusher, by intro k; rw [ha]; exact hx.envOK k⟩
  cases c with
  | writeHeader s =>
    have hs : 0 ≤ s := by have : 100 ≤ s := hv; omega
    obtain ⟨h1, h2, h3⟩ := writeHeader_refines g s hs hw
    exact ⟨h1, h2, hworld h3⟩
  | write b =>
    obtain ⟨h1, _, h2, h3⟩ := write_refines g b hw hx.envOK
    exact ⟨h1, h2, hworld h3⟩
  | flush =>
    obtain ⟨h1, h2, h3⟩ := flush_refines g hw
    rw [hx.flusher] at h1
    exact ⟨(by simpa using h1 : abs (Flush g).2 = step (abs g) Op.flush), h2, hworld h3⟩
  | before f => exact ⟨before_refines g f, ⟨hw.status_nonneg, hw.size_nonneg⟩, hworld rfl⟩
  | status => exact ⟨rfl, hw, hworld rfl⟩
  | size => exact ⟨rfl, hw, hworld rfl⟩
  | written => exact ⟨rfl, hw, hworld rfl⟩

/-- REFINEMENT, for every call sequence: the generated code run from `g` is the machine run from `abs g` -/
theorem code_refines (g : responseWriter) (cs : List Call) (hv : ∀ c ∈ cs, c.valid) (hw : Wf g) (hx : World g) :
    abs (runCode g cs) = runFrom (abs g) (opsOf g cs) ∧ Wf (runCode g cs) := by
  induction cs generalizing g with
  | nil => exact ⟨rfl, hw⟩
  | cons c cs ih =>
    obtain ⟨h1, h2, h3⟩ := call_refines g c (hv c (by simp)) hw hx
    obtain ⟨i1, i2⟩ := ih (callStep g c) (fun c' hc' => hv c' (by simp [hc'])) h2 h3
    refine ⟨?_, i2⟩
    simp only [runCode, opsOf, runFrom, List.foldl_cons]
    rw [i1, h1]; rfl

theorem opsOf_valid (g : responseWriter) (cs : List Call) (hv : ∀ c ∈ cs, c.valid) : ValidOps (opsOf g cs) := by
  induction cs generalizing g with
  | nil => intro op h; simp [opsOf] at h
  | cons c cs ih =>
    intro op h
    simp only [opsOf, List.mem_cons] at h
    rcases h with rfl | h
    · have := hv c (by simp)
      cases c <;> simp only [opOf, Op.valid] <;> try trivial
      have h100 : (100 : Int) ≤ _ := this
      omega
    · exact ih (callStep g c) (fun c' hc' => hv c' (by simp [hc'])) op h

/-! ### C13 of the generated code

A writer as `NewResponseWriter` builds it, over a wrapped writer that has received nothing yet, driven by any sequence of
calls with arguments net/http accepts.  Each clause below is the clause of Props/C13 carried along `code_refines`; the
first three are also spelled out on the raw trace of calls the wrapped http.ResponseWriter received. -/

/-- a wrapped writer nobody has called yet -/
def freshEnv (answers : Nat → String → Int × Int) (ifaces : List String) : Env := { trace := [], answers, ifaces }

theorem abs_new (m : String) (e : Env) (he : e.trace = []) : abs (NewResponseWriter m e) = init (m == "HEAD") := by
  simp [NewResponseWriter, abs, init, he, absTraceFrom]

/-- the generated code, from construction on, IS the machine of Model/Writer -/
theorem code_is_machine (m : String) (e : Env) (cs : List Call) (he : e.trace = []) (hv : ∀ c ∈ cs, c.valid)
    (hf : e.implements "net/http.Flusher" = true) (hok : ∀ k, 0 ≤ (e.answers k "Write").1) :
    abs (runCode (NewResponseWriter m e) cs) = run (m == "HEAD") (opsOf (NewResponseWriter m e) cs) := by
  have hw : Wf (NewResponseWriter m e) := ⟨by simp [NewResponseWriter], by simp [NewResponseWriter]⟩
  have hx : World (NewResponseWriter m e) := ⟨hf, hok⟩
  rw [(code_refines _ cs hv hw hx).1, abs_new m e he]; rfl

def isCall (name : String) (c : String × List Arg) : Bool := c.1 == name

theorem hdr_count (ans : Nat → String → Int × Int) (k : Nat) (tr : List (String × List Arg)) :
    ((absTraceFrom ans k tr).filter UEv.isHdr).length = (tr.filter (isCall "WriteHeader")).length := by
  induction tr generalizing k with
  | nil => simp [absTraceFrom]
  | cons c tr ih =>
    simp only [absTraceFrom, List.filter_append, List.length_append, ih, List.filter_cons, isCall]
    by_cases h1 : c.1 = "WriteHeader"
    · have : ∀ n, (List.filter UEv.isHdr [UEv.hdr n]).length = 1 := fun _ => rfl
      simp [absEvAt, h1, this, Nat.add_comm]
    · by_cases h2 : c.1 = "Write"
      · simp [absEvAt, h1, h2, UEv.isHdr]
      · by_cases h3 : c.1 = "Flush"
        · simp [absEvAt, h1, h3, UEv.isHdr]
        · by_cases h4 : c.1 = "hook" <;> simp [absEvAt, h1, h2, h3, h4, UEv.isHdr]

section clauses
variable (m : String) (e : Env) (cs : List Call) (he : e.trace = []) (hv : ∀ c ∈ cs, c.valid)
  (hf : e.implements "net/http.Flusher" = true) (hok : ∀ k, 0 ≤ (e.answers k "Write").1)
include he hv hf hok

/-- (1a) the wrapped http.ResponseWriter sees `WriteHeader` at most once, whatever is called and how often -/
theorem code_at_most_one_status :
    ((runCode (NewResponseWriter m e) cs).ResponseWriter.trace.filter (isCall "WriteHeader")).length ≤ 1 := by
  have h := at_most_one_status (m == "HEAD") _ (opsOf_valid (NewResponseWriter m e) cs hv)
  rw [← code_is_machine m e cs he hv hf hok] at h
  simpa [abs, hdr_count] using h

/-- (1b) … and sees it before any body byte and before any flush -/
theorem code_status_before_body (a : List UEv) (x : UEv) (b : List UEv)
    (hu : (abs (runCode (NewResponseWriter m e) cs)).under = a ++ x :: b) (hx : x.isBody = true ∨ x = UEv.flush) :
    ∃ y ∈ a, y.isHdr = true := by
  rw [code_is_machine m e cs he hv hf hok] at hu
  exact status_before_body _ _ (opsOf_valid _ cs hv) a x b hu hx

/-- (2) what `Status()` returns is 0 until a status line went out and afterwards the code that went out -/
theorem code_status_truthful :
    (Status (runCode (NewResponseWriter m e) cs)).1.toNat
      = (firstHdr (abs (runCode (NewResponseWriter m e) cs)).under).getD 0 := by
  have h := status_truthful (m == "HEAD") _ (opsOf_valid (NewResponseWriter m e) cs hv)
  rw [← code_is_machine m e cs he hv hf hok] at h
  exact h

/-- (3) what `Size()` returns is the number of body bytes the wrapped writer accepted -/
theorem code_size_truthful :
    (Size (runCode (NewResponseWriter m e) cs)).1.toNat = bodySum (abs (runCode (NewResponseWriter m e) cs)).under := by
  have h := size_truthful (m == "HEAD") _ (opsOf_valid (NewResponseWriter m e) cs hv)
  rw [← code_is_machine m e cs he hv hf hok] at h
  exact h

/-- (2c) `Written()` is true exactly when a status line went out -/
theorem code_written_iff :
    (Written (runCode (NewResponseWriter m e) cs)).1 = true
      ↔ ∃ x ∈ (abs (runCode (NewResponseWriter m e) cs)).under, x.isHdr = true := by
  have hw : Wf (runCode (NewResponseWriter m e) cs) :=
    (code_refines (NewResponseWriter m e) cs hv ⟨by simp [NewResponseWriter], by simp [NewResponseWriter]⟩
      (World.mk hf hok)).2
  rw [(written_refines _ hw).2]
  have h := written_iff (m == "HEAD") _ (opsOf_valid (NewResponseWriter m e) cs hv)
  rw [← code_is_machine m e cs he hv hf hok] at h
  exact h

end clauses

/-- (4) a HEAD request: no body byte reaches the wrapped writer -/
theorem code_head_no_body (e : Env) (cs : List Call) (he : e.trace = []) (hv : ∀ c ∈ cs, c.valid)
    (hf : e.implements "net/http.Flusher" = true) (hok : ∀ k, 0 ≤ (e.answers k "Write").1) :
    ∀ x ∈ (abs (runCode (NewResponseWriter "HEAD" e) cs)).under, x.isBody = false := by
  rw [code_is_machine "HEAD" e cs he hv hf hok]
  exact head_no_body _ (opsOf_valid _ cs hv)

/-- the calls that can make a status line go out -/
def Call.isTrigger : Call → Bool
  | .writeHeader _ | .write _ | .flush => true
  | _ => false

/-- the status a triggering call sends -/
def Call.code : Call → Nat
  | .writeHeader s => s.toNat
  | _ => 200

/-- the functions a call sequence registers, in order -/
def hooksOfCalls : List Call → List Nat
  | [] => []
  | .before f :: cs => f.toNat :: hooksOfCalls cs
  | _ :: cs => hooksOfCalls cs

theorem opsOf_append (g : responseWriter) (cs ds : List Call) :
    opsOf g (cs ++ ds) = opsOf g cs ++ opsOf (runCode g cs) ds := by
  induction cs generalizing g with
  | nil => rfl
  | cons c cs ih => simp [opsOf, runCode, ih]

theorem opOf_trigger (g : responseWriter) (c : Call) : (opOf g c).isTrigger = c.isTrigger := by
  cases c <;> rfl

theorem opOf_code (g : responseWriter) (c : Call) : (opOf g c).code = c.code := by
  cases c <;> rfl

theorem hooksOf_opsOf (g : responseWriter) (cs : List Call) : hooksOf (opsOf g cs) = hooksOfCalls cs := by
  induction cs generalizing g with
  | nil => rfl
  | cons c cs ih =>
    cases c <;> simp [opsOf, hooksOf, hooksOfCalls, opOf, hookOf, List.flatMap_cons] <;>
      exact ih _

/-- (5) the functions registered before the first triggering call run exactly once each, last registered first, and
before the status line reaches the wrapped writer — whichever call triggers it; nothing registered later ever runs and no
second status line follows -/
theorem code_hooks_once_lifo_before_status (m : String) (e : Env) (pre : List Call) (t : Call) (post : List Call)
    (he : e.trace = []) (hv : ∀ c ∈ pre ++ t :: post, c.valid)
    (hf : e.implements "net/http.Flusher" = true) (hok : ∀ k, 0 ≤ (e.answers k "Write").1)
    (hq : ∀ c ∈ pre, c.isTrigger = false) (ht : t.isTrigger = true) :
    ∃ rest, (abs (runCode (NewResponseWriter m e) (pre ++ t :: post))).under =
        (hooksOfCalls pre).reverse.map UEv.hook ++ UEv.hdr t.code :: rest ∧
      ∀ x ∈ rest, x.isHook = false ∧ x.isHdr = false := by
  rw [code_is_machine m e _ he hv hf hok, opsOf_append]
  simp only [opsOf]
  have hvo := opsOf_valid (NewResponseWriter m e) (pre ++ t :: post) hv
  rw [opsOf_append] at hvo
  simp only [opsOf] at hvo
  have hq' : ∀ op ∈ opsOf (NewResponseWriter m e) pre, op.isTrigger = false := by
    intro op hop
    have : ∀ (g : responseWriter) (cs : List Call), (∀ c ∈ cs, c.isTrigger = false) →
        ∀ op ∈ opsOf g cs, op.isTrigger = false := by
      intro g cs
      induction cs generalizing g with
      | nil => intro _ op h; simp [opsOf] at h
      | cons c cs ih =>
        intro hc op h
        simp only [opsOf, List.mem_cons] at h
        rcases h with rfl | h
        · rw [opOf_trigger]; exact hc c (by simp)
        · exact ih _ (fun c' hc' => hc c' (by simp [hc'])) op h
    exact this _ pre hq op hop
  have ht' : (opOf (runCode (NewResponseWriter m e) pre) t).isTrigger = true := by rw [opOf_trigger]; exact ht
  obtain ⟨rest, h1, h2⟩ := hooks_once_lifo_before_status (m == "HEAD") _ _ _ hvo hq' ht'
  refine ⟨rest, ?_, h2⟩
  rw [h1, hooksOf_opsOf, opOf_code]

/-! ### the premises are satisfiable, and the code does something -/

def demoEnv : Env := freshEnv (fun _ _ => (3, 0)) ["net/http.Flusher"]
def demoCalls : List Call := [.before 7, .before 8, .write [1, 2, 3, 4], .writeHeader 404, .write [5], .status]

example : demoEnv.trace = [] ∧ (∀ c ∈ demoCalls, c.valid) ∧ demoEnv.implements "net/http.Flusher" = true
    ∧ ∀ k, 0 ≤ (demoEnv.answers k "Write").1 := by
  refine ⟨rfl, ?_, by decide, fun _ => by simp [demoEnv, freshEnv]⟩
  intro c hc
  simp only [demoCalls, List.mem_cons, List.not_mem_nil, or_false] at hc
  rcases hc with rfl | rfl | rfl | rfl | rfl | rfl <;> simp [Call.valid]

/-- hooks last-registered-first, then the implicit 200, then two short writes; the later `WriteHeader(404)` is ignored -/
example : (runCode (NewResponseWriter "GET" demoEnv) demoCalls).ResponseWriter.trace
    = [("hook", [.int 8]), ("hook", [.int 7]), ("WriteHeader", [.int 200]), ("Write", [.bytes [1, 2, 3, 4]]), ("Write", [.bytes [5]])] := by decide
example : (Status (runCode (NewResponseWriter "GET" demoEnv) demoCalls)).1 = 200
    ∧ (Size (runCode (NewResponseWriter "GET" demoEnv) demoCalls)).1 = 6 := by decide
example : (runCode (NewResponseWriter "HEAD" demoEnv) demoCalls).ResponseWriter.trace
    = [("hook", [.int 8]), ("hook", [.int 7]), ("WriteHeader", [.int 200])] := by decide

end Flamego.C13Code
