/-
  Props/C04Code.lean — C04 at the level of the CODE: `injector.Value`, `Set`, `SetParent`.

  `Gen/InjectCode.lean` is regenerated from inject/inject.go on every run (/verif/translator: gocode.go, injectcode.go).
  `reflect.Type` and `reflect.Value` stand for what they stand for in Model/Inject.lean (an index into the universe of
  types; the identity of a registered value, 0 = the zero Value), the universe `U` is the same parameter, and the parent
  injector is an environment object: `inj.parent.Value(t)` is a recorded call whose answer is arbitrary.

  Proved here, for every universe, every injector whose map is a map (one entry per key) of valid values, every type:

    * `value_one`: ONE level — an exact registration is returned as it is; else, for an interface type, an implementor
      registered in this scope (the first one in whatever order the map is ranged over); else what the parent answers, the
      zero Value when there is no parent; and `Value` does not change the injector's registrations;
    * `chain_in_valueSet`: closing the recursion — when every parent answers with what the code's own `Value` returns on
      it, the result is an element of the model's `valueSet` for the chain of scopes (and the zero Value exactly when that
      set is empty).  `valueSet` is what every theorem of Props/C04 is about (`value_nearest_exact`,
      `value_implementor_before_parent`, …), so those clauses hold of the code's own body (`code_nearest_exact`,
      `code_implementor_before_parent`);
    * `set_refines`: `Set` is the model's `register` (as far as any lookup can tell) and keeps the map a map.
-/
import Flamego.Gen.InjectCode
import Flamego.Props.C04
set_option linter.unusedSimpArgs false
set_option linter.unusedVariables false
namespace Flamego.C04Code
open Flamego.GoSem Flamego.Gen.InjectCode Flamego.Inject

/-- the code's map as the model's scope -/
def scopeOf (inj : injector) : Scope := inj.values.map fun kv => (kv.1, kv.2.toNat)

/-- the code's `values` is a Go map — one entry per key — and holds valid values only (the model's guard) -/
structure WfI (inj : injector) : Prop where
  nodup : (inj.values.map (·.1)).Nodup
  valid : ∀ kv ∈ inj.values, 0 < kv.2

/-! ### a map read as a registration log -/

theorem lookup_none_of_not_mem (s : Scope) (t : Ty) (h : t ∉ s.map (·.1)) : lookup s t = none := by
  induction s with
  | nil => rfl
  | cons kv s ih =>
    simp only [List.map_cons, List.mem_cons, not_or] at h
    obtain ⟨k, v⟩ := kv
    simp only [lookup, ih h.2]
    have : ¬ k = t := fun e => h.1 e.symm
    simp [this]

theorem lookup_of_nodup (s : Scope) (h : (s.map (·.1)).Nodup) (t : Ty) :
    lookup s t = (s.find? (fun kv => kv.1 == t)).map (·.2) := by
  induction s with
  | nil => rfl
  | cons kv s ih =>
    obtain ⟨k, v⟩ := kv
    simp only [List.map_cons, List.nodup_cons] at h
    by_cases hk : k = t
    · subst hk
      simp [lookup, lookup_none_of_not_mem s k h.1]
    · have hb : (k == t) = false := by simpa using hk
      simp only [lookup, List.find?_cons, hb]
      rw [ih h.2]
      cases hf : (List.find? (fun kv => kv.1 == t) s) <;> simp [hk]

theorem mem_lookup_of_nodup (s : Scope) (h : (s.map (·.1)).Nodup) (e : Ty × Val) (he : e ∈ s) : lookup s e.1 = some e.2 := by
  induction s with
  | nil => cases he
  | cons kv s ih =>
    obtain ⟨k, v⟩ := kv
    simp only [List.map_cons, List.nodup_cons] at h
    rcases List.mem_cons.mp he with rfl | he'
    · simp [lookup, lookup_none_of_not_mem s _ h.1]
    · have := ih h.2 he'
      simp [lookup, this]

/-- with one entry per key, the implementors are simply the entries whose key implements the type -/
theorem implementors_of_nodup (U : Universe) (s : Scope) (h : (s.map (·.1)).Nodup) (t : Ty) :
    implementors U s t = (s.filter (fun e => U.implements e.1 t)).map (·.2) := by
  unfold implementors
  congr 1
  apply List.filter_congr
  intro e he
  simp [mem_lookup_of_nodup s h e he]

theorem scope_keys (inj : injector) : (scopeOf inj).map (·.1) = inj.values.map (·.1) := by
  simp [scopeOf, List.map_map, Function.comp_def]

theorem mapGet_scope (inj : injector) (hw : WfI inj) (t : Ty) :
    (lookup (scopeOf inj) t = none ∧ GoSem.mapGet inj.values t = 0)
      ∨ (∃ v : Int, 0 < v ∧ GoSem.mapGet inj.values t = v ∧ lookup (scopeOf inj) t = some v.toNat) := by
  rw [lookup_of_nodup _ (by rw [scope_keys]; exact hw.nodup)]
  unfold GoSem.mapGet scopeOf
  rw [List.find?_map]
  simp only [Function.comp_def]
  cases hf : List.find? (fun kv => kv.1 == t) inj.values with
  | none => left; simp
  | some kv =>
    right
    have hm := List.mem_of_find?_eq_some hf
    exact ⟨kv.2, hw.valid kv hm, rfl, by simp⟩

/-- the loop of `Value`: the first entry, in iteration order, whose key implements `t` -/
theorem search_implementor (U : Universe) (inj : injector) (hw : WfI inj) (t : Ty) :
    (GoSem.forRangeRet inj.values (fun (k, v) => if (Lib.Ty_Implements U k t) then some v else none) = none
        ∧ implementors U (scopeOf inj) t = [])
      ∨ (∃ v : Int, GoSem.forRangeRet inj.values (fun (k, v) => if (Lib.Ty_Implements U k t) then some v else none) = some v
        ∧ 0 < v ∧ v.toNat ∈ implementors U (scopeOf inj) t) := by
  rw [implementors_of_nodup U _ (by rw [scope_keys]; exact hw.nodup)]
  unfold GoSem.forRangeRet scopeOf Lib.Ty_Implements
  have hv := hw.valid
  generalize inj.values = vs at hv
  induction vs with
  | nil => left; simp
  | cons kv vs ih =>
    obtain ⟨k, v⟩ := kv
    by_cases hi : U.implements k t
    · right
      exact ⟨v, by simp [List.findSome?_cons, hi], hv (k, v) (by simp), by simp [hi]⟩
    · have hi' : U.implements k t = false := by simpa using hi
      rcases ih (fun kv h => hv kv (by simp [h])) with ⟨h1, h2⟩ | ⟨w, h1, h2, h3⟩
      · left
        refine ⟨by simp [List.findSome?_cons, hi', h1], ?_⟩
        simpa [List.filter_cons, hi'] using h2
      · right
        refine ⟨w, by simp [List.findSome?_cons, hi', h1], h2, ?_⟩
        simpa [List.filter_cons, hi'] using h3

/-! ### `Value`, one level -/

/-- what the parent answers to the `Value` call this lookup may make -/
def parentAnswer (inj : injector) : Int :=
  if inj.parent.isNil then 0 else (inj.parent.answers inj.parent.trace.length "Value").1

/-- the search of `Value` among this scope's entries -/
def search (U : Universe) (inj : injector) (t : Ty) : Option Int :=
  GoSem.forRangeRet inj.values (fun (k, v) => if (Lib.Ty_Implements U k t) then some v else none)

/-- the value `Value` holds before it asks the parent -/
def localValue (U : Universe) (inj : injector) (t : Ty) : Int :=
  if Lib.RVal_IsValid (GoSem.mapGet inj.values t) then GoSem.mapGet inj.values t
  else if U.isInterface t then (match search U inj t with | some r => r | none => GoSem.mapGet inj.values t)
  else GoSem.mapGet inj.values t

/-- `Value`, in closed form: the local value when it is valid or there is no parent, else the parent's answer -/
theorem value_closed (U : Universe) (inj : injector) (t : Ty) :
    (Value U inj t).1 = (if Lib.RVal_IsValid (localValue U inj t) then localValue U inj t
                          else if inj.parent.isNil then localValue U inj t
                          else (inj.parent.answers inj.parent.trace.length "Value").1)
    ∧ (Value U inj t).2.values = inj.values := by
  have hkind : (Lib.Ty_Kind U t == 20) = U.isInterface t := by
    unfold Lib.Ty_Kind; cases U.isInterface t <;> simp
  unfold localValue search
  simp only [Value, hkind]
  cases h0 : Lib.RVal_IsValid (GoSem.mapGet inj.values t)
  · cases hi : U.isInterface t
    · cases hn : inj.parent.isNil <;> simp [h0, hi, hn, envCall_parent, Env.call]
    · cases hs : GoSem.forRangeRet inj.values (fun (k, v) => if (Lib.Ty_Implements U k t) then some v else none) with
      | none => cases hn : inj.parent.isNil <;> simp [h0, hi, hn, hs, envCall_parent, Env.call]
      | some r =>
        cases hr : Lib.RVal_IsValid r <;> cases hn : inj.parent.isNil <;>
          simp [h0, hi, hn, hs, hr, envCall_parent, Env.call]
  · simp [h0]

theorem value_one (U : Universe) (inj : injector) (hw : WfI inj) (t : Ty) :
    (∀ v, lookup (scopeOf inj) t = some v → 0 < (Value U inj t).1 ∧ (Value U inj t).1.toNat = v)
    ∧ (lookup (scopeOf inj) t = none → U.isInterface t = true → implementors U (scopeOf inj) t ≠ [] →
        0 < (Value U inj t).1 ∧ (Value U inj t).1.toNat ∈ implementors U (scopeOf inj) t)
    ∧ (lookup (scopeOf inj) t = none → (U.isInterface t = false ∨ implementors U (scopeOf inj) t = []) →
        (Value U inj t).1 = parentAnswer inj)
    ∧ (Value U inj t).2.values = inj.values := by
  obtain ⟨hc, hvals⟩ := value_closed U inj t
  have hpos : ∀ w : Int, 0 < w → Lib.RVal_IsValid w = true := by
    intro w hw0
    have : w ≠ 0 := by omega
    simp [Lib.RVal_IsValid, this]
  rcases mapGet_scope inj hw t with ⟨hl, hg⟩ | ⟨v, hv, hg, hl⟩
  · -- no exact registration in this scope
    have hinv : Lib.RVal_IsValid (GoSem.mapGet inj.values t) = false := by simp [hg, Lib.RVal_IsValid]
    refine ⟨(by intro v h; rw [hl] at h; cases h), ?_, ?_, hvals⟩
    · intro _ hi hne
      rcases search_implementor U inj hw t with ⟨_, h2⟩ | ⟨w, h1, h2, h3⟩
      · exact absurd h2 hne
      · have hloc : localValue U inj t = w := by
          unfold localValue search; rw [hinv, hi, h1]; simp
        rw [hc, hloc, hpos w h2]
        exact ⟨by simpa using h2, by simpa using h3⟩
    · intro _ hcase
      have hloc : localValue U inj t = 0 := by
        unfold localValue search
        rw [hinv, hg]
        rcases hcase with hi | hnone
        · simp [hi]
        · rcases search_implementor U inj hw t with ⟨h1, _⟩ | ⟨w, _, _, h3⟩
          · rw [h1]; cases U.isInterface t <;> simp
          · rw [hnone] at h3; cases h3
      rw [hc, hloc]
      unfold parentAnswer
      cases inj.parent.isNil <;> simp [Lib.RVal_IsValid]
  · -- an exact registration
    have hloc : localValue U inj t = v := by
      unfold localValue; rw [hg, hpos v hv]; simp
    refine ⟨?_, (by intro h; rw [hl] at h; cases h), (by intro h; rw [hl] at h; cases h), hvals⟩
    intro v' h
    rw [hl] at h
    cases h
    rw [hc, hloc, hpos v hv]
    exact ⟨by simpa using hv, by simp⟩

/-! ### the chain of scopes: every parent answers with what the code's own `Value` returns on it -/

/-- `inj` with a parent that answers `ans` (no parent at all when `none`) -/
def withParent (inj : injector) (ans : Option Int) : injector :=
  { inj with parent := { trace := [], answers := fun _ _ => (ans.getD 0, 0), ifaces := [], isNil := ans.isNone } }

/-- the code's `Value` along a chain of injectors, nearest first -/
def valueChain (U : Universe) : List injector → Ty → Int
  | [], _ => 0
  | [inj], t => (Value U (withParent inj none) t).1
  | inj :: next :: rest, t => (Value U (withParent inj (some (valueChain U (next :: rest) t))) t).1

theorem parentAnswer_with (inj : injector) (ans : Option Int) : parentAnswer (withParent inj ans) = ans.getD 0 := by
  cases ans <;> simp [parentAnswer, withParent]

theorem scopeOf_with (inj : injector) (ans : Option Int) : scopeOf (withParent inj ans) = scopeOf inj := rfl
theorem wf_with (inj : injector) (ans : Option Int) (h : WfI inj) : WfI (withParent inj ans) := ⟨h.nodup, h.valid⟩

/-- REFINEMENT along the chain: the code's answer is one of the model's admissible answers (`valueSet`), and the zero
Value exactly when there is none -/
theorem chain_in_valueSet (U : Universe) (chain : List injector) (hw : ∀ inj ∈ chain, WfI inj) (t : Ty) :
    (valueSet U (chain.map scopeOf) t = [] ∧ valueChain U chain t = 0)
      ∨ (0 < valueChain U chain t ∧ (valueChain U chain t).toNat ∈ valueSet U (chain.map scopeOf) t) := by
  induction chain with
  | nil => left; exact ⟨rfl, rfl⟩
  | cons inj rest ih =>
    have hwi : WfI inj := hw inj (by simp)
    have hrest := ih (fun i hi => hw i (by simp [hi]))
    -- the step, for whatever the parent answers
    have step : ∀ ans : Option Int, ans.getD 0 = valueChain U rest t →
        (valueChain U (inj :: rest) t = (Value U (withParent inj ans) t).1) →
        (valueSet U ((inj :: rest).map scopeOf) t = [] ∧ valueChain U (inj :: rest) t = 0)
          ∨ (0 < valueChain U (inj :: rest) t ∧ (valueChain U (inj :: rest) t).toNat ∈ valueSet U ((inj :: rest).map scopeOf) t) := by
      intro ans hans hdef
      obtain ⟨h1, h2, h3, _⟩ := value_one U (withParent inj ans) (wf_with inj ans hwi) t
      rw [scopeOf_with] at h1 h2 h3
      rw [hdef]
      simp only [List.map_cons, valueSet]
      cases hl : lookup (scopeOf inj) t with
      | some v =>
        right
        obtain ⟨p, q⟩ := h1 v hl
        exact ⟨p, by simp [q]⟩
      | none =>
        simp only
        by_cases hi : U.isInterface t = true
        · by_cases hne : implementors U (scopeOf inj) t = []
          · have := h3 hl (Or.inr hne)
            rw [this, parentAnswer_with, hans]
            simp only [hi, if_true, hne, List.isEmpty_nil]
            exact hrest
          · obtain ⟨p, q⟩ := h2 hl hi hne
            right
            refine ⟨p, ?_⟩
            have : (implementors U (scopeOf inj) t).isEmpty = false := by
              cases hh : implementors U (scopeOf inj) t with
              | nil => exact absurd hh hne
              | cons _ _ => rfl
            simp only [hi, if_true, this]
            exact q
        · have hif : U.isInterface t = false := by simpa using hi
          have := h3 hl (Or.inl hif)
          rw [this, parentAnswer_with, hans]
          simp only [hif, Bool.false_eq_true, if_false, List.isEmpty_nil, if_true]
          exact hrest
    cases rest with
    | nil => exact step none rfl rfl
    | cons next rest' => exact step (some (valueChain U (next :: rest') t)) rfl rfl

/-- C04 (nearest scope first, exact registration): when the scopes before `inj` have nothing for `t` and `inj` holds an
exact registration, the code returns that registration — whatever the scopes behind hold -/
theorem code_nearest_exact (U : Universe) (pre : List injector) (inj : injector) (post : List injector) (t : Ty) (v : Val)
    (hw : ∀ i ∈ pre ++ inj :: post, WfI i) (hpre : ∀ i ∈ pre, Silent U (scopeOf i) t)
    (h : lookup (scopeOf inj) t = some v) :
    0 < valueChain U (pre ++ inj :: post) t ∧ (valueChain U (pre ++ inj :: post) t).toNat = v := by
  have hset : valueSet U ((pre ++ inj :: post).map scopeOf) t = [v] := by
    have := (value_nearest_exact U (pre.map scopeOf) (scopeOf inj) (post.map scopeOf) t v
      (by intro s hs; obtain ⟨i, hi, rfl⟩ := List.mem_map.mp hs; exact hpre i hi) h).1
    simpa [List.map_append] using this
  rcases chain_in_valueSet U _ hw t with ⟨h0, _⟩ | ⟨hp, hm⟩
  · rw [hset] at h0; cases h0
  · rw [hset] at hm
    exact ⟨hp, by simpa using hm⟩

/-- C04 (an implementor in the nearer scope before anything of the parents): when `t` is an interface without an exact
registration in `inj` but some key registered there implements it, the code returns a value registered in `inj` under a
key that implements `t` — never the parents' -/
theorem code_implementor_before_parent (U : Universe) (pre : List injector) (inj : injector) (post : List injector)
    (t : Ty) (hw : ∀ i ∈ pre ++ inj :: post, WfI i) (hpre : ∀ i ∈ pre, Silent U (scopeOf i) t)
    (hl : lookup (scopeOf inj) t = none) (hi : U.isInterface t = true)
    (k : Ty) (w : Val) (hk : U.implements k t = true) (hkw : lookup (scopeOf inj) k = some w) :
    ∃ k', U.implements k' t = true ∧ lookup (scopeOf inj) k' = some (valueChain U (pre ++ inj :: post) t).toNat := by
  have hset : valueSet U ((pre ++ inj :: post).map scopeOf) t = implementors U (scopeOf inj) t := by
    have := (value_implementor_before_parent U (pre.map scopeOf) (scopeOf inj) (post.map scopeOf) t
      (by intro s hs; obtain ⟨i, hi', rfl⟩ := List.mem_map.mp hs; exact hpre i hi') hl hi k w hk hkw).1
    simpa [List.map_append] using this
  have hne : implementors U (scopeOf inj) t ≠ [] := by
    intro he
    have : w ∈ implementors U (scopeOf inj) t := (mem_implementors U _ t w).mpr ⟨k, hk, hkw⟩
    rw [he] at this; cases this
  rcases chain_in_valueSet U _ hw t with ⟨h0, _⟩ | ⟨_, hm⟩
  · rw [hset] at h0; exact absurd h0 hne
  · rw [hset] at hm
    exact (mem_implementors U _ t _).mp hm

/-! ### `Set` -/

theorem mapSet_keys_nodup [BEq κ] [LawfulBEq κ] (m : List (κ × ν)) (k : κ) (v : ν) (h : (m.map (·.1)).Nodup) :
    ((GoSem.mapSet m k v).map (·.1)).Nodup ∧ (∀ x, x ∈ (GoSem.mapSet m k v).map (·.1) ↔ x = k ∨ x ∈ m.map (·.1)) := by
  induction m with
  | nil => simp [GoSem.mapSet]
  | cons kv m ih =>
    obtain ⟨k', v'⟩ := kv
    simp only [List.map_cons, List.nodup_cons] at h
    by_cases hk : k' = k
    · subst hk
      simp only [GoSem.mapSet, beq_self_eq_true, if_true, List.map_cons, List.nodup_cons]
      exact ⟨h, by intro x; simp⟩
    · have hb : (k' == k) = false := by simpa using hk
      obtain ⟨i1, i2⟩ := ih h.2
      simp only [GoSem.mapSet, hb, Bool.false_eq_true, if_false, List.map_cons, List.nodup_cons]
      refine ⟨⟨?_, i1⟩, ?_⟩
      · intro hm
        rcases (i2 k').mp hm with e | e
        · exact hk e
        · exact h.1 e
      · intro x
        simp only [List.mem_cons, i2 x]
        constructor
        · rintro (e | e | e) <;> simp [e]
        · rintro (e | e | e) <;> simp [e]

theorem mapSet_find [BEq κ] [LawfulBEq κ] (m : List (κ × ν)) (k : κ) (v : ν) (x : κ) :
    ((GoSem.mapSet m k v).find? (fun kv => kv.1 == x)).map (·.2)
      = if (k == x) then some v else (m.find? (fun kv => kv.1 == x)).map (·.2) := by
  induction m with
  | nil => by_cases h : k = x <;> simp [GoSem.mapSet, h]
  | cons kv m ih =>
    obtain ⟨k', v'⟩ := kv
    by_cases hk : k' = k
    · subst hk
      by_cases hx : k' = x <;> simp [GoSem.mapSet, List.find?_cons, hx]
    · have hb : (k' == k) = false := by simpa using hk
      simp only [GoSem.mapSet, hb, Bool.false_eq_true, if_false, List.find?_cons]
      by_cases hx : k' = x
      · subst hx
        have : ¬ k = k' := fun e => hk e.symm
        simp [this]
      · have hbx : (k' == x) = false := by simpa using hx
        simp only [hbx]
        exact ih

/-- `Set(t, v)` (and `Map`, `MapTo`, which store the same way) is the model's `register`, as far as any lookup can tell,
and keeps the map a map of valid values -/
theorem set_refines (inj : injector) (hw : WfI inj) (t : Ty) (v : Int) (hv : 0 < v) :
    WfI (Set inj t v).2 ∧ (Set inj t v).2.parent = inj.parent
      ∧ ∀ t', lookup (scopeOf (Set inj t v).2) t' = lookup (register (scopeOf inj) t v.toNat) t' := by
  have hnd := mapSet_keys_nodup inj.values t v hw.nodup
  have hwf : WfI (Set inj t v).2 := by
    refine ⟨hnd.1, ?_⟩
    intro kv hkv
    simp only [Set] at hkv
    have : ∀ (m : List (Ty × Int)), (∀ e ∈ m, 0 < e.2) → ∀ e ∈ GoSem.mapSet m t v, 0 < e.2 := by
      intro m
      induction m with
      | nil => intro _ e he; simp [GoSem.mapSet] at he; subst he; exact hv
      | cons a m ih =>
        intro hm e he
        obtain ⟨k', v'⟩ := a
        by_cases hk : k' = t
        · subst hk
          simp only [GoSem.mapSet, beq_self_eq_true, if_true, List.mem_cons] at he
          rcases he with rfl | he
          · exact hv
          · exact hm e (by simp [he])
        · have hb : (k' == t) = false := by simpa using hk
          simp only [GoSem.mapSet, hb, Bool.false_eq_true, if_false, List.mem_cons] at he
          rcases he with rfl | he
          · exact hm _ (by simp)
          · exact ih (fun e he => hm e (by simp [he])) e he
    exact this inj.values hw.valid kv hkv
  refine ⟨hwf, rfl, ?_⟩
  intro t'
  rw [lookup_of_nodup _ (by rw [scope_keys]; exact hwf.nodup)]
  have hs : scopeOf (Set inj t v).2 = GoSem.mapSet (scopeOf inj) t v.toNat := by
    simp only [Set, scopeOf]
    generalize inj.values = m
    induction m with
    | nil => rfl
    | cons a m ih =>
      obtain ⟨k', v'⟩ := a
      by_cases hk : k' = t
      · subst hk; simp [GoSem.mapSet]
      · have hb : (k' == t) = false := by simpa using hk
        simp [GoSem.mapSet, hb, ih]
  rw [hs, mapSet_find]
  by_cases ht : t = t'
  · subst ht
    simp [lookup_register_same]
  · have hb : (t == t') = false := by simpa using ht
    simp only [hb, Bool.false_eq_true, if_false]
    rw [lookup_register_ne _ _ _ _ (fun e => ht e.symm), lookup_of_nodup _ (by rw [scope_keys]; exact hw.nodup)]

/-! ### `SetParent` -/

/-- `SetParent(p)` makes `p` the injector every unanswered lookup goes on to (`value_one`'s third clause), and touches
nothing else -/
theorem setParent_refines (inj : injector) (p : Env) :
    (SetParent inj p).2 = { inj with parent := p } ∧ (SetParent inj p).2.values = inj.values
      ∧ parentAnswer (SetParent inj p).2 = (if p.isNil then 0 else (p.answers p.trace.length "Value").1) :=
  ⟨rfl, rfl, rfl⟩

/-! ### `Map` -/

/-- the loop of `Map`, in closed form: `Set(TypeOf(v), ValueOf(v))` for each value, in the order given -/
theorem map_closed (tyOf : Any → Lib.Ty) (inj : injector) (vals : List Any) :
    (Map tyOf inj vals).2 = vals.foldl (fun i v => (Set i (tyOf v) (Lib.reflect_ValueOf v)).2) inj := by
  simp only [Map, GoSem.enum]
  suffices h : ∀ (n : Nat) (i : injector),
      (GoSem.forRangeCtl (ρ := Unit) ((vals.zipIdx n).map fun p => ((p.2 : Int), p.1))
        (fun (_, val) inj =>
          let inj := { inj with values := GoSem.mapSet inj.values (tyOf val) (Lib.reflect_ValueOf val) };
          (GoSem.Ctl.next, inj)) i).2
        = vals.foldl (fun i v => (Set i (tyOf v) (Lib.reflect_ValueOf v)).2) i by
    exact h 0 inj
  induction vals with
  | nil => intro n i; rfl
  | cons v vs ih =>
    intro n i
    simp only [List.zipIdx_cons, List.map_cons, GoSem.forRangeCtl, List.foldl_cons]
    exact ih (n + 1) _

theorem lookup_register_congr (s₁ s₂ : Scope) (h : ∀ t, lookup s₁ t = lookup s₂ t) (k : Ty) (v : Val) :
    ∀ t, lookup (register s₁ k v) t = lookup (register s₂ k v) t := by
  intro t
  by_cases e : t = k
  · subst e; rw [lookup_register_same, lookup_register_same]
  · rw [lookup_register_ne _ _ _ _ e, lookup_register_ne _ _ _ _ e]; exact h t

/-- two logs that agree on every lookup still do after the same registrations -/
theorem foldl_register_congr (tyOf : Any → Lib.Ty) (vs : List Any) (s₁ s₂ : Scope)
    (h : ∀ t, lookup s₁ t = lookup s₂ t) :
    ∀ t, lookup (vs.foldl (fun s v => register s (tyOf v) v.toNat) s₁) t
       = lookup (vs.foldl (fun s v => register s (tyOf v) v.toNat) s₂) t := by
  induction vs generalizing s₁ s₂ with
  | nil => exact h
  | cons x xs ih =>
    simp only [List.foldl_cons]
    exact ih _ _ (lookup_register_congr s₁ s₂ h (tyOf x) x.toNat)

/-- `Map(v₁ … vₙ)` is the model's `register`, one after the other: every valid value is found under its own type
afterwards unless a later one of the same type replaced it (`map_last_wins` of Props/C04 is about exactly this log) -/
theorem map_refines (tyOf : Any → Lib.Ty) (inj : injector) (hw : WfI inj) (vals : List Any) (hv : ∀ v ∈ vals, 0 < v) :
    WfI (Map tyOf inj vals).2 ∧ (Map tyOf inj vals).2.parent = inj.parent
      ∧ ∀ t', lookup (scopeOf (Map tyOf inj vals).2) t'
            = lookup (vals.foldl (fun s v => register s (tyOf v) v.toNat) (scopeOf inj)) t' := by
  rw [map_closed]
  induction vals generalizing inj with
  | nil => exact ⟨hw, rfl, fun _ => rfl⟩
  | cons v vs ih =>
    obtain ⟨h1, h2, h3⟩ := set_refines inj hw (tyOf v) (Lib.reflect_ValueOf v) (hv v (by simp))
    obtain ⟨i1, i2, i3⟩ := ih (Set inj (tyOf v) (Lib.reflect_ValueOf v)).2 h1 (fun x hx => hv x (by simp [hx]))
    refine ⟨i1, i2.trans h2, ?_⟩
    intro t'
    rw [List.foldl_cons, List.foldl_cons, i3 t']
    exact foldl_register_congr tyOf vs _ _ h3 t'

/-! ### the definitions compute -/

def demoU : Universe := { isInterface := fun t => t == 9, implements := fun k t => t == 9 && k == 2 }
def demoReqScope : injector := { values := [(1, 11)], parent := default }
def demoAppScope : injector := { values := [(2, 22), (3, 33)], parent := default }

example : WfI demoReqScope ∧ WfI demoAppScope := by
  constructor <;> constructor <;> simp [demoReqScope, demoAppScope]

/-- exact in the request scope; exact in the application scope; an implementor of the interface 9 found in the application
scope; nothing anywhere -/
example : valueChain demoU [demoReqScope, demoAppScope] 1 = 11 ∧ valueChain demoU [demoReqScope, demoAppScope] 3 = 33
    ∧ valueChain demoU [demoReqScope, demoAppScope] 9 = 22 ∧ valueChain demoU [demoReqScope, demoAppScope] 7 = 0 := by decide

end Flamego.C04Code
