/-
  Props/C12Code.lean — C12 at the level of the CODE: `router.URLPath`, the router's half of URL building.

  `Gen/RouterCode.lean` (regenerated from router.go on every run) contains the body of `URLPath`: look the name up (panic
  when it is not there — in the translation the result is `none`), turn the flat `pairs` into a map by an index loop
  (`for i := 1; i < len(pairs); i += 2`), consume `withOptional`, and hand over to the leaf.  `Leaf.URLPath` itself stands
  for the model's `urlPath` (Code/LibRoute.lean); its substitution theorems are Props/C12's.

  Proved, for every router whose name table holds what the model's holds, every name and every list of pairs:

    * `pairs_loop`: the index loop computes exactly the model's `Router.urlPath.mk` — later duplicates win, a trailing odd
      element is ignored;
    * `urlPath_refines`: the body returns what the model's `Router.urlPath` returns, `none` (the panic) exactly for an
      unknown name; the router is unchanged.
-/
import Flamego.Gen.RouterCode
import Flamego.Props.C12
set_option linter.unusedSimpArgs false
set_option linter.unusedVariables false
namespace Flamego.C12Code
open Flamego.GoSem Flamego.Gen.RouterCode

theorem mapSet_eq_assocSet (m : List (Bytes × Bytes)) (k v : Bytes) : GoSem.mapSet m k v = assocSet m k v := by
  induction m with
  | nil => rfl
  | cons kv m ih =>
    obtain ⟨k', v'⟩ := kv
    by_cases h : k' = k <;> simp [GoSem.mapSet, assocSet, h, ih]

theorem mapDel_eq_assocDel (m : List (Bytes × Bytes)) (k : Bytes) : GoSem.mapDel m k = assocDel m k := rfl

theorem mapGet_eq_assocGet (m : List (Bytes × Bytes)) (k : Bytes) : GoSem.mapGet m k = (assocGet m k).getD [] := by
  unfold GoSem.mapGet assocGet
  cases List.find? (fun kv => kv.1 == k) m <;> rfl

theorem idx_append (pre rest : List Bytes) (j : Nat) (i : Int) (hi : i = (pre.length : Int) + (j : Int)) :
    GoSem.idx (pre ++ rest) i = rest.getD j default := by
  unfold GoSem.idx
  have h0 : ¬ (i < 0) := by omega
  have e : i.toNat = pre.length + j := by omega
  rw [if_neg h0, e]
  simp [List.getD, List.getElem?_append_right]

/-- the body of the pairs loop, as the translation spells it -/
def pairsBody (pairs : List Bytes) : Int × Int → List (Bytes × Bytes) → GoSem.Ctl (Option Bytes) × List (Bytes × Bytes) :=
  fun (i, _) vals =>
    let vals := GoSem.mapSet vals (GoSem.idx pairs (i - 1)) (GoSem.idx pairs i);
    (GoSem.Ctl.next, vals)

/-- the index loop over `pairs`, started after a prefix of even length that has been consumed, computes the model's `mk` on
the rest -/
theorem pairs_loop_from (pre rest : List Bytes) (acc : List (Bytes × Bytes)) (fuel : Nat) (hf : rest.length ≤ fuel) :
    GoSem.forRangeCtl (ρ := Option Bytes)
        ((GoSem.rangeStepAux ((pre ++ rest).length : Int) 2 fuel ((pre.length : Int) + 1)).map fun i_ => (i_, i_))
        (pairsBody (pre ++ rest)) acc
      = (GoSem.Ctl.next, Router.urlPath.mk rest acc) := by
  induction fuel generalizing pre rest acc with
  | zero =>
    have : rest = [] := by cases rest with | nil => rfl | cons _ _ => simp at hf
    subst this
    simp [GoSem.rangeStepAux, GoSem.forRangeCtl, Router.urlPath.mk]
  | succ fuel ih =>
    match rest with
    | [] =>
      have : ¬ ((pre.length : Int) + 1 < (pre.length : Int)) := by omega
      simp [GoSem.rangeStepAux, this, GoSem.forRangeCtl, Router.urlPath.mk]
    | [x] =>
      have : ¬ ((pre.length : Int) + 1 < (pre.length : Int) + 1) := by omega
      simp [GoSem.rangeStepAux, this, GoSem.forRangeCtl, Router.urlPath.mk]
    | k :: v :: rest' =>
      have hlt : ((pre.length : Int) + 1 < ((pre ++ k :: v :: rest').length : Int)) := by simp; omega
      have hk : GoSem.idx (pre ++ k :: v :: rest') ((pre.length : Int) + 1 - 1) = k := by
        have := idx_append pre (k :: v :: rest') 0 ((pre.length : Int) + 1 - 1) (by omega)
        simpa using this
      have hv : GoSem.idx (pre ++ k :: v :: rest') ((pre.length : Int) + 1) = v := by
        have := idx_append pre (k :: v :: rest') 1 ((pre.length : Int) + 1) (by omega)
        simpa using this
      have hstep := ih (pre ++ [k, v]) rest' (GoSem.mapSet acc k v) (by simp at hf; omega)
      have hlist : pre ++ [k, v] ++ rest' = pre ++ k :: v :: rest' := by simp
      have hlen : (((pre ++ [k, v]).length : Nat) : Int) + 1 = (pre.length : Int) + 1 + 2 := by simp; omega
      rw [hlist, hlen] at hstep
      simp only [GoSem.rangeStepAux, hlt, if_true, List.map_cons, GoSem.forRangeCtl, pairsBody, hk, hv]
      rw [hstep, mapSet_eq_assocSet]
      simp [Router.urlPath.mk]

theorem pairs_loop (pairs : List Bytes) :
    GoSem.forRangeCtl (ρ := Option Bytes) ((GoSem.rangeStep 1 (pairs.length : Int) 2).map fun i_ => (i_, i_))
        (pairsBody pairs) ([] : List (Bytes × Bytes))
      = (GoSem.Ctl.next, Router.urlPath.mk pairs []) := by
  have h := pairs_loop_from [] pairs [] ((pairs.length : Int) - 1).toNat
  unfold GoSem.rangeStep
  simp only [show (0 : Int) < 2 by decide, if_true]
  by_cases hl : pairs.length = 0
  · have : pairs = [] := List.length_eq_zero_iff.mp hl
    subst this
    simp [GoSem.rangeStepAux, GoSem.forRangeCtl, Router.urlPath.mk]
  · -- one more unit of fuel than the loop can use does not matter: both run out of indices first
    have hfuel : ∀ (f1 f2 : Nat) (a : Int), ((pairs.length : Int) - a).toNat ≤ f1 → ((pairs.length : Int) - a).toNat ≤ f2 →
        GoSem.rangeStepAux (pairs.length : Int) 2 f1 a = GoSem.rangeStepAux (pairs.length : Int) 2 f2 a := by
      intro f1
      induction f1 with
      | zero =>
        intro f2 a h1 _
        have : ¬ a < (pairs.length : Int) := by omega
        cases f2 <;> simp [GoSem.rangeStepAux, this]
      | succ f1 ih =>
        intro f2 a h1 h2
        cases f2 with
        | zero =>
          have : ¬ a < (pairs.length : Int) := by omega
          simp [GoSem.rangeStepAux, this]
        | succ f2 =>
          by_cases ha : a < (pairs.length : Int)
          · simp only [GoSem.rangeStepAux, ha, if_true]
            rw [ih f2 (a + 2) (by omega) (by omega)]
          · simp [GoSem.rangeStepAux, ha]
    have := pairs_loop_from [] pairs [] pairs.length (Nat.le_refl _)
    simp only [List.nil_append, List.length_nil, Int.natCast_zero, Int.zero_add] at this
    rw [hfuel ((pairs.length : Int) - 1).toNat pairs.length 1 (by omega) (by omega)]
    exact this

/-- the code's name table holds what the model's holds -/
def NamesAgree (R : Flamego.Router) (r : router) : Prop :=
  ∀ n, GoSem.mapGet2 r.namedRoutes n
        = (match assocGet R.named n with
           | some rt => ((GoSem.mapGet2 r.namedRoutes n).1, true)
           | none => (default, false))
      ∧ ∀ rt, assocGet R.named n = some rt → (GoSem.mapGet2 r.namedRoutes n).1.route = rt

/-- REFINEMENT: `router.URLPath(name, pairs…)` is the model's `Router.urlPath` — `none`, the panic, exactly for an unknown
name — and leaves the router alone -/
theorem urlPath_refines (R : Flamego.Router) (r : router) (ha : NamesAgree R r) (name : Bytes) (pairs : List Bytes) :
    (URLPath r name pairs).1 = R.urlPath name pairs ∧ (URLPath r name pairs).2 = r := by
  obtain ⟨h1, h2⟩ := ha name
  have hb : (fun (x : Int × Int) (vals : List (Bytes × Bytes)) =>
      (match x with
       | (i, _) =>
         let vals := GoSem.mapSet vals (GoSem.idx pairs (i - 1)) (GoSem.idx pairs i);
         ((GoSem.Ctl.next : GoSem.Ctl (Option Bytes)), vals))) = pairsBody pairs := rfl
  unfold Router.urlPath
  cases hn : assocGet R.named name with
  | none =>
    rw [hn] at h1
    simp only [URLPath, h1]
    exact ⟨rfl, rfl⟩
  | some rt =>
    rw [hn] at h1
    have hroute := h2 rt hn
    have hok : (GoSem.mapGet2 r.namedRoutes name).2 = true := by rw [h1]
    have hloop := pairs_loop pairs
    simp only [URLPath]
    rw [show GoSem.mapGet2 r.namedRoutes name = ((GoSem.mapGet2 r.namedRoutes name).1, true) from by
      rw [Prod.ext_iff]; exact ⟨rfl, hok⟩]
    simp only [Bool.not_true, Bool.false_eq_true, if_false]
    rw [hb, hloop]
    simp only [mapGet_eq_assocGet, mapDel_eq_assocDel, Lib.Leaf_URLPath, hroute]
    have kw : ([119, 105, 116, 104, 79, 112, 116, 105, 111, 110, 97, 108] : Bytes) = B "withOptional" := by decide
    have kt : ([116, 114, 117, 101] : Bytes) = B "true" := by decide
    have hne : B "true" ≠ [] := by decide
    have hbeq : ∀ (o : Option Bytes), (o.getD [] == B "true") = (o == some (B "true")) := by
      intro o
      cases o with
      | none => simp [hne.symm]; exact fun h => hne h
      | some x => simp
    rw [kw, kt]
    simp only [hbeq]
    cases hwo : (assocGet (Router.urlPath.mk pairs []) (B "withOptional") == some (B "true")) <;> simp [hwo]

/-- the agreement is satisfiable: a name table in the shape of the Go struct (`namedRoutes map[string]route.Leaf`), built
from the model's -/
def namesOf (R : Flamego.Router) : List (Bytes × Lib.Leaf) :=
  R.named.map fun e => (e.1, { (default : Flamego.Leaf) with route := e.2 })

theorem names_agree_of (R : Flamego.Router) (r : router) (h : r.namedRoutes = namesOf R) : NamesAgree R r := by
  intro n
  rw [h]
  unfold GoSem.mapGet2 namesOf assocGet
  rw [List.find?_map]
  have hc : ((fun kv : Bytes × Lib.Leaf => kv.1 == n) ∘ fun e : Bytes × Route => (e.1, { (default : Flamego.Leaf) with route := e.2 }))
      = fun e => e.1 == n := rfl
  rw [hc]
  cases hf : List.find? (fun e => e.1 == n) R.named with
  | none => simp
  | some e => simp

/-- the consequences Props/C12 draws from the model's `Router.urlPath` therefore hold of what the code's body returns; for
instance an unknown name is the only way to the panic -/
theorem code_urlPath_none_iff (R : Flamego.Router) (r : router) (ha : NamesAgree R r) (name : Bytes) (pairs : List Bytes) :
    (URLPath r name pairs).1 = none ↔ assocGet R.named name = none := by
  rw [(urlPath_refines R r ha name pairs).1]
  unfold Router.urlPath
  cases assocGet R.named name <;> simp

end Flamego.C12Code
