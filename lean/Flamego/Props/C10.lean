/-
  Props/C10.lean — The static-route shortcut is unobservable.

  Quantifier: every regular-expression engine `E`, every history `ops` of router operations
  (`RouterOp`: registration for a method list, `Headers`, `Name`; applied from `newRouter()` by
  `Router.run`, exactly as the driver's `step` applies the model functions), every request
  (any method, any byte string as path, any headers).  Guard (`HistoryOK`, spelled out in the
  theorem statements): every registered route is as the parser produces it (`ParsedSeg`) and every
  registration has its own handle — the harness and the Go code give every registration its own
  handler / `*Route` object and its own leaves.

  Proof structure (Proofs/ShortcutTree.lean, Proofs/Shortcut.lean): the router invariant `RInv`
  says that every entry `(method, text) ↦ leaf` of the table lies at the end of a *static path* of
  the method's tree whose literals spell `text`, that `text` is the leaf's route text, and that the
  leaf has no header constraints.  (a) On such a path the matcher returns exactly that leaf and no
  parameters (`matchNext_staticPath`: siblings are sorted with static first and keys determine
  literals).  (b) The text splits back into the path's literals (`segs_renderLits`).  (c) Every
  operation keeps the invariant (`rinv_add`, `rinv_setHeaders` — using `C09.headers_evict_shortcut`
  —, `rinv_setName`).
-/
import Flamego.Proofs.Shortcut

namespace Flamego.C10

/-- a miss in the fast-path table is decided by full tree matching, unchanged -/
theorem miss_falls_through (E : Engine) (R : Router) (req : Request)
    (h : assocGet R.statics (req.method, req.path) = none) :
    R.serve E req = R.serveTreeOnly E req := by
  simp [Router.serve, h]

/-- a router without fast-path entries *is* the tree-only router -/
theorem no_table_no_difference (E : Engine) (R : Router) (req : Request) (h : R.statics = []) :
    R.serve E req = R.serveTreeOnly E req := by
  simp [Router.serve, h, assocGet]

/-- **the shortcut table is an invisible optimisation** — "for every history of registrations,
    header-constraint updates and requests, each request's outcome (chosen route, parameters, or
    not-found) is identical to what full tree matching gives for the same method and path":
    `serve` (table first, then the tree) and `serveTreeOnly` return the same `Outcome` — the same
    leaf with the same parameter list, or not-found — for every request, whatever its path
    (extra leading slashes, a trailing slash, a '?' …) and headers. -/
theorem shortcut_unobservable (E : Engine) (ops : List RouterOp)
    (hparsed : ∀ hr ∈ addPairs ops, ∀ s ∈ hr.2.segs, ParsedSeg s = true)
    (hdistinct : ((addPairs ops).map Prod.fst).Nodup) (req : Request) :
    (Router.run E ops).serve E req = (Router.run E ops).serveTreeOnly E req :=
  (run_inv E ops ⟨hparsed, hdistinct⟩).serve_eq E req

theorem addPairs_append (pre post : List RouterOp) :
    addPairs (pre ++ post) = addPairs pre ++ addPairs post := by
  induction pre with
  | nil => rfl
  | cons op pre ih => cases op <;> simp [addPairs, ih]

/-- requests interleaved with the operations: serving does not change the router, so a request
    issued after the prefix `pre` of a history sees `Router.run E pre`; it is answered as the tree
    answers, at every point of every (guarded) history -/
theorem shortcut_unobservable_at (E : Engine) (pre post : List RouterOp)
    (hparsed : ∀ hr ∈ addPairs (pre ++ post), ∀ s ∈ hr.2.segs, ParsedSeg s = true)
    (hdistinct : ((addPairs (pre ++ post)).map Prod.fst).Nodup) (req : Request) :
    (Router.run E pre).serve E req = (Router.run E pre).serveTreeOnly E req := by
  rw [addPairs_append] at hparsed hdistinct
  rw [List.map_append] at hdistinct
  exact shortcut_unobservable E pre
    (fun hr h => hparsed hr (List.mem_append_left _ h)) (List.nodup_append.mp hdistinct).1 req

/-- what a hit in the table is: the entry's leaf, no parameters but `route` — and full tree
    matching on the same method and path finds the same leaf with the same parameters -/
theorem table_hit_outcome (E : Engine) (ops : List RouterOp)
    (hparsed : ∀ hr ∈ addPairs ops, ∀ s ∈ hr.2.segs, ParsedSeg s = true)
    (hdistinct : ((addPairs ops).map Prod.fst).Nodup) (req : Request) (leaf : Leaf)
    (hhit : assocGet (Router.run E ops).statics (req.method, req.path) = some leaf) :
    (Router.run E ops).serve E req = .handler leaf [(B "route", leaf.route.render)] ∧
    (Router.run E ops).serveTreeOnly E req = .handler leaf [(B "route", leaf.route.render)] := by
  have h := shortcut_unobservable E ops hparsed hdistinct req
  have h1 : (Router.run E ops).serve E req = .handler leaf [(B "route", leaf.route.render)] := by
    simp [Router.serve, hhit]
  exact ⟨h1, by rw [← h]; exact h1⟩

/-- **the keys of the table are plain route texts** — "including paths with extra leading slashes,
    trailing slashes, or characters that are route syntax such as '?'": a key of the table is the
    route text of its leaf, it contains no '?', it starts with exactly one '/', and it is the
    canonical spelling "/" + segment … of its own segments (so a path with extra leading slashes or
    an extra trailing slash is a key only if it is itself that route text).  The leaf is flagged
    all-static, is the long form of a route whose last segment is not optional, and carries no
    header constraints. -/
theorem statics_keys_plain (E : Engine) (ops : List RouterOp)
    (hparsed : ∀ hr ∈ addPairs ops, ∀ s ∈ hr.2.segs, ParsedSeg s = true)
    (hdistinct : ((addPairs ops).map Prod.fst).Nodup) (m : String) (text : Bytes) (leaf : Leaf)
    (hhit : assocGet (Router.run E ops).statics (m, text) = some leaf) :
    text = leaf.route.render ∧ (63 : UInt8) ∉ text ∧ (∃ p, text = 47 :: p) ∧
    (∀ p, text ≠ 47 :: 47 :: p) ∧ renderLits (splitSlash (trimLeftSlash text)) = text ∧
    leaf.allStatic = true ∧ leaf.long = true ∧ lastOptional leaf.route = false ∧
    assocGet (Router.run E ops).hdrs leaf.hid = none := by
  have he := (run_inv E ops ⟨hparsed, hdistinct⟩).table m text leaf hhit
  obtain ⟨t, lits, _, hp, hg, hr⟩ := he.path
  subst hr
  refine ⟨he.route.symm, renderLits_no_qmark hg, renderLits_head hp.ne_nil,
    renderLits_no_double_slash hg, ?_, he.static, he.long, he.noopt, he.nohdr⟩
  rw [segs_renderLits hg hp.ne_nil]

/-- a path with extra leading slashes never hits the table: it is decided by the tree (which
    ignores the extra slashes) in `serve` just as in `serveTreeOnly` -/
theorem extra_leading_slashes_miss (E : Engine) (ops : List RouterOp)
    (hparsed : ∀ hr ∈ addPairs ops, ∀ s ∈ hr.2.segs, ParsedSeg s = true)
    (hdistinct : ((addPairs ops).map Prod.fst).Nodup) (m : String) (p : Bytes) :
    assocGet (Router.run E ops).statics (m, 47 :: 47 :: p) = none := by
  cases h : assocGet (Router.run E ops).statics (m, 47 :: 47 :: p) with
  | none => rfl
  | some leaf =>
    exact absurd rfl ((statics_keys_plain E ops hparsed hdistinct m _ leaf h).2.2.2.1 p)

/-- a path containing '?' never hits the table -/
theorem question_mark_misses (E : Engine) (ops : List RouterOp)
    (hparsed : ∀ hr ∈ addPairs ops, ∀ s ∈ hr.2.segs, ParsedSeg s = true)
    (hdistinct : ((addPairs ops).map Prod.fst).Nodup) (m : String) (path : Bytes)
    (hq : (63 : UInt8) ∈ path) :
    assocGet (Router.run E ops).statics (m, path) = none := by
  cases h : assocGet (Router.run E ops).statics (m, path) with
  | none => rfl
  | some leaf => exact absurd hq (statics_keys_plain E ops hparsed hdistinct m _ leaf h).2.1

/-- a path with a trailing slash hits the table only through a route whose own text has it -/
theorem trailing_slash_hits_only_itself (E : Engine) (ops : List RouterOp)
    (hparsed : ∀ hr ∈ addPairs ops, ∀ s ∈ hr.2.segs, ParsedSeg s = true)
    (hdistinct : ((addPairs ops).map Prod.fst).Nodup) (m : String) (p : Bytes) (leaf : Leaf)
    (hhit : assocGet (Router.run E ops).statics (m, p ++ [47]) = some leaf) :
    leaf.route.render = p ++ [47] :=
  (statics_keys_plain E ops hparsed hdistinct m _ leaf hhit).1.symm

/-! ### the guard on the handles cannot be dropped -/

def cexE : Engine := ⟨fun _ => some 0, fun _ _ => none, fun _ _ => false⟩

/-- `/a` registered under handle 1, `Headers` on handle 1, then `/b` registered under handle 1 again -/
def cexOps : List RouterOp :=
  [.add 1 ⟨[⟨false, [.ident (B "a")]⟩]⟩ ["GET"], .headers 1 [⟨B "X", B "X", B "1"⟩],
   .add 1 ⟨[⟨false, [.ident (B "b")]⟩]⟩ ["GET"]]

def cexReq : Request := ⟨"GET", B "/b", []⟩

/-- with one handle used for two registrations (which neither the harness nor the Go API can
    produce — every `*Route` has its own leaves and its own header matcher), `Headers` on the first
    also constrains the second's leaf in the tree, while the table serves it unconditionally: the
    hypothesis `hdistinct` of `shortcut_unobservable` is needed -/
theorem distinct_handles_needed :
    (∀ hr ∈ addPairs cexOps, ∀ s ∈ hr.2.segs, ParsedSeg s = true) ∧
    (Router.run cexE cexOps).serve cexE cexReq ≠ (Router.run cexE cexOps).serveTreeOnly cexE cexReq := by
  refine ⟨by decide, ?_⟩
  have h2 : (Router.run cexE cexOps).serveTreeOnly cexE cexReq = .notFound :=
    serveTreeOnly_single_notFound cexE _ cexReq (B "b") (by decide) (by decide)
  have h1 : (assocGet (Router.run cexE cexOps).statics (cexReq.method, cexReq.path)).isSome = true := by
    decide
  rw [h2]
  unfold Router.serve
  cases hg : assocGet (Router.run cexE cexOps).statics (cexReq.method, cexReq.path) with
  | none => rw [hg] at h1; cases h1
  | some leaf => intro h; cases h

/-! ### non-vacuity -/

def exE : Engine := ⟨fun _ => some 0, fun _ _ => none, fun _ _ => false⟩

def lit (t : String) : Segment := ⟨false, [.ident (B t)]⟩

/-- `/a/b` (static) for GET and POST, `/a/?c` (static, optional last segment) and `/a/{x}` (dynamic)
    for GET, `Headers` on the optional route, `Name` on the static one -/
def exOps : List RouterOp :=
  [.add 1 ⟨[lit "a", lit "b"]⟩ ["GET", "POST"], .add 2 ⟨[lit "a", ⟨true, [.ident (B "c")]⟩]⟩ ["GET"],
   .add 3 ⟨[lit "a", ⟨false, [.bind (B "x")]⟩]⟩ ["GET"],
   .headers 2 [⟨B "X", B "X", B "1"⟩], .name 1 (B "n")]

/-- the hypotheses of `shortcut_unobservable` hold for this history, the static route is in the
    table for both methods and the other two are not; after `Headers` on the static route it is
    evicted for both methods -/
example :
    (∀ hr ∈ addPairs exOps, ∀ s ∈ hr.2.segs, ParsedSeg s = true) ∧
    ((addPairs exOps).map Prod.fst).Nodup ∧
    (assocGet (Router.run exE exOps).statics ("GET", B "/a/b")).isSome = true ∧
    (assocGet (Router.run exE exOps).statics ("POST", B "/a/b")).isSome = true ∧
    (Router.run exE exOps).statics.length = 2 ∧
    (Router.run exE (exOps ++ [.headers 1 []])).statics.length = 0 := by
  refine ⟨by decide, by decide, by decide, by decide, by decide, by decide⟩

/-- and the theorem applies to it: the table hit for `GET /a/b` is what the tree gives -/
example : (Router.run exE exOps).serveTreeOnly exE ⟨"GET", B "/a/b", []⟩ =
    (Router.run exE exOps).serve exE ⟨"GET", B "/a/b", []⟩ :=
  (shortcut_unobservable exE exOps (by decide) (by decide) _).symm

end Flamego.C10
