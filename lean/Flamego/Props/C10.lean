/-
  Props/C10.lean — The static-route shortcut is unobservable.
  (the full `shortcut_unobservable` theorem over all histories is added as the proof development
  proceeds; DESIGN.md §5/C10)
-/
import Flamego.Proofs.Assoc

namespace Flamego.C10

/-- a miss in the fast-path table is decided by full tree matching, unchanged -/
theorem miss_falls_through (E : Engine) (R : Router) (req : Request)
    (h : assocGet R.statics (req.method, req.path) = none) :
    R.serve E req = R.serveTreeOnly E req := by
  simp [Router.serve, h]

/-- a router without fast-path entries *is* the tree-only router -/
theorem no_table_no_difference (E : Engine) (R : Router) (req : Request) (h : R.statics = []) :
    R.serve E req = R.serveTreeOnly E req := by
  simp [Router.serve, h, assocGet]

end Flamego.C10
