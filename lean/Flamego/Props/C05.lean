/-
  Props/C05.lean — concurrent requests are isolated and race-free (PARTIAL: see the notes below).

  Property C05: "Once set-up (routes, middleware, mapped services) has finished, any number of
  requests may be served concurrently: every response is the one the same request would get if
  served alone, each handler observes only its own request's parameters, injected request-scoped
  values and response writer, and no execution contains a data race on framework state."

  What is proved here, and what ties it to the Go source:
   (i)   `drf_of_discipline`  — for ALL executions (any length, any number of goroutines): an execution
         that respects the access discipline has every pair of conflicting accesses ordered by
         happens-before.  Lean cannot exhibit the Go memory model; the theorem is about the model of
         Model/Conc.lean (program order + sync.Once edge + atomic edge).
   (ii)  `footprint_disciplined` (+ `footprint_never_writes_immutable`, `once_reads_after_do`,
         `library_calls_documented`) — the REGENERATED tie: the write footprint that the translator
         extracts from the current Go source (Gen/ConcFacts.lean) contains no write to shared state
         other than inside a `sync.Once.Do` closure of the written object or through sync/atomic.
   (iii) `interleaving_serial` — frame argument: in every interleaving every request's record equals
         the record of the same request served alone, and the once-guarded caches only ever hold
         the value their function computes.
-/
import Flamego.Proofs.Conc
import Flamego.Gen.ConcFacts

namespace Flamego.Conc
open Flamego.Gen.ConcFacts

/-! ## (i) race freedom from the discipline -/

/-- C05 "no execution contains a data race on framework state": in every execution that follows the
    discipline (and in which sync.Once behaves as sync.Once), two conflicting accesses of different
    goroutines are ordered by happens-before. All executions, any number of goroutines. -/
theorem drf_of_discipline (cls : Loc → LocClass) (ex : Exec)
    (sem : OnceSemantics ex) (d : Disciplined cls ex) : RaceFree ex := by
  intro i j a b hij hi hj hg hc
  obtain ⟨l, hla, hlb, hw, hat⟩ := loc_of_conflict hc
  cases hcl : cls l with
  | immutableAfterSetup =>
    have h1 := d.immutable i a l hi hla hcl
    have h2 := d.immutable j b l hj hlb hcl
    rcases hw with hw | hw
    · rw [h1] at hw; cases hw
    · rw [h2] at hw; cases hw
  | requestLocal r =>
    have h1 := d.local_ i a l r hi hla hcl
    have h2 := d.local_ j b l r hj hlb hcl
    exact absurd (h1.trans h2.symm) hg
  | atomic =>
    exact absurd ⟨d.atomicOnly i a l hi hla hcl, d.atomicOnly j b l hj hlb hcl⟩ hat
  | onceGuarded o =>
    -- the later access b
    cases hbw : b.op.isWrite with
    | true =>
      -- b writes: it is inside the Once function; a is either inside too (same goroutine) or after a return
      have hbo := d.onceWrite j b l o hj hlb hcl hbw
      cases haw : a.op.isWrite with
      | true =>
        have hao := d.onceWrite i a l o hi hla hcl haw
        exact absurd (sem.oneRunner i j a b o hi hj hao hbo) hg
      | false =>
        rcases d.onceRead i a l o hi hla hcl haw with hao | ⟨k, e, hki, hk, _, hop⟩
        · exact absurd (sem.oneRunner i j a b o hi hj hao hbo) hg
        · -- a Do already returned before a, so the function was done before b ran inside it: impossible
          obtain ⟨dd, e', hdk, hd, hdone⟩ := sem.returnAfterDone k e o hk hop
          have := (sem.doneAfterBody j dd b e' o hj hd hbo hdone).1
          omega
    | false =>
      -- b reads, so a writes (inside the Once function)
      have haw : a.op.isWrite = true := by
        rcases hw with h | h
        · exact h
        · rw [hbw] at h; cases h
      have hao := d.onceWrite i a l o hi hla hcl haw
      rcases d.onceRead j b l o hj hlb hcl hbw with hbo | ⟨k, e, hkj, hk, hge, hop⟩
      · exact absurd (sem.oneRunner i j a b o hi hj hao hbo) hg
      · obtain ⟨dd, e', hdk, hd, hdone⟩ := sem.returnAfterDone k e o hk hop
        obtain ⟨hid, hgd⟩ := sem.doneAfterBody i dd a e' o hi hd hao hdone
        -- a →po onceDone →once onceReturn →po b
        exact HB.trans (HB.po hid hi hd hgd) (HB.trans (HB.once hdk hd hk hdone hop) (HB.po hkj hk hj hge))

/-- symmetric reading: any two conflicting accesses of different goroutines are ordered one way or the other -/
theorem drf_ordered (cls : Loc → LocClass) (ex : Exec) (sem : OnceSemantics ex) (d : Disciplined cls ex)
    (i j : Nat) (a b : Event) (hne : i ≠ j) (hi : ex[i]? = some a) (hj : ex[j]? = some b)
    (hg : a.g ≠ b.g) (hc : Conflict a.op b.op) : HB ex i j ∨ HB ex j i := by
  rcases Nat.lt_or_gt_of_ne hne with h | h
  · exact Or.inl (drf_of_discipline cls ex sem d i j a b h hi hj hg hc)
  · refine Or.inr (drf_of_discipline cls ex sem d j i b a h hj hi (Ne.symm hg) ?_)
    obtain ⟨l, h1, h2, h3, h4⟩ := hc
    exact ⟨l, h2, h1, h3.symm, fun ⟨x, y⟩ => h4 ⟨y, x⟩⟩

/-! ## (ii) the regenerated footprint respects the discipline -/

/-- the discipline class a write site claims, read off the extracted flags -/
inductive SiteClass where
  | requestLocal | atomic | onceGuarded | immutableAfterSetup
  deriving DecidableEq, Repr

def siteClass (a : Access) : SiteClass :=
  if a.requestLocal then .requestLocal
  else if a.atomic then .atomic
  else if a.insideOnce then .onceGuarded
  else .immutableAfterSetup      -- shared state, written without any guard: forbidden while serving

-- the regenerated footprint may be long (a rewrite that adds counters, hooks, helpers): the size of the table must
-- never be what breaks the obligation
set_option maxRecDepth 200000 in
/-- C05 tie: every write that serving a request can perform (as extracted from the CURRENT source) goes to
    a request-local object, or sits inside the `sync.Once.Do` closure of the object it writes, or is a
    sync/atomic operation.  Replacing a Once by a nil check, appending to `f.handlers` in `createContext`,
    pooling contexts, caching in the router … add an entry that falsifies this at build time. -/
theorem footprint_disciplined : ∀ a ∈ sharedWrites, a.requestLocal ∨ a.insideOnce ∨ a.atomic := by
  decide

-- the regenerated footprint may be long (a rewrite that adds counters, hooks, helpers): the size of the table must
-- never be what breaks the obligation
set_option maxRecDepth 200000 in
/-- the same in the vocabulary of the discipline: no write site targets an immutable-after-setup location -/
theorem footprint_never_writes_immutable : ∀ a ∈ sharedWrites, siteClass a ≠ .immutableAfterSetup := by
  decide

-- the regenerated footprint may be long (a rewrite that adds counters, hooks, helpers): the size of the table must
-- never be what breaks the obligation
set_option maxRecDepth 200000 in
/-- the footprint is not empty: the extraction did reach the serving code (the tie is not vacuous).  What KINDS of
    guarded writes exist today (once-guarded string caches, the atomic status) is not fixed here — a
    behaviour-preserving refactoring may remove a cache or guard the status differently. -/
theorem footprint_nonvacuous : sharedWrites.length > 10 ∧ servePhaseFunctions > 30 := by
  decide

-- the regenerated footprint may be long (a rewrite that adds counters, hooks, helpers): the size of the table must
-- never be what breaks the obligation
set_option maxRecDepth 200000 in
/-- reads of once-guarded fields happen inside the Do closure or after `x.once.Do(..)` on the same object
    (the `onceRead` clause of the discipline, on the extracted read sites) -/
theorem once_reads_after_do : ∀ r ∈ onceGuardedReads, r.afterDo = true := by
  decide

/-- Library code that serving calls with objects that are definitely shared (built during set-up, global or
    application-supplied).  Each entry is an ASSUMPTION about that library, recorded in the trusted base:
    the call is documented as safe for concurrent use (or only reads immutable data). -/
def documentedConcurrencySafe : List String := [
  -- regexp: "A Regexp is safe for concurrent use by multiple goroutines, except for configuration methods"
  "(*regexp.Regexp).FindStringSubmatch", "(*regexp.Regexp).MatchString",
  -- sync, sync/atomic
  "(*sync.Once).Do", "(*sync/atomic.Value).Load",
  -- charmbracelet/log: Logger methods take the logger's mutex
  "(*github.com/charmbracelet/log.Logger).Error", "(*github.com/charmbracelet/log.Logger).Print",
  "(*github.com/charmbracelet/log.Logger).WithPrefix",
  -- net/http: Dir is a string; FileSystem implementations must allow concurrent Open (net/http serves concurrently)
  "(net/http.Dir).Open", "invoke http.FileSystem.Open",
  -- reflect: read-only inspection of values the application mapped at set-up / returned from handlers
  "(reflect.Value).Bytes", "(reflect.Value).Elem", "(reflect.Value).Int", "(reflect.Value).IsValid",
  "(reflect.Value).IsZero", "(reflect.Value).Kind", "(reflect.Value).Pointer", "(reflect.Value).String",
  "(reflect.Value).Type", "reflect.TypeOf", "invoke reflect.Type.Implements",
  -- (*injector).Apply is application-invoked: it sets fields of the struct the application passes in
  "(reflect.Value).Set",
  -- read-only byte-slice helpers on Recovery's constant separators
  "bytes.Index", "bytes.LastIndex", "bytes.ReplaceAll",
  -- values the application mapped as services / returned from handlers (outside the claim)
  "invoke error.Error", "invoke http.ResponseWriter.Header", "invoke http.ResponseWriter.Write",
  "invoke http.ResponseWriter.WriteHeader"]

/-- Library code that is safe on shared arguments as a whole family: read-only inspection through `reflect.Type` /
    `reflect.Value` (type descriptors are immutable; `Value` getters do not write), and the pure functions of
    `strings`, `bytes`, `strconv`, `unicode`, `path`, `net/url`, `sort.Search…`, `errors`, `fmt.Sprint…`, which only
    read their arguments.  A behaviour-preserving refactoring is free to use any of them; stateful library objects
    (`bytes.Buffer`, `sync.Pool`, `sync.Map`, `strings.Builder`, `sync.Mutex` …) are NOT here: a shared one has to be
    justified by name in `documentedConcurrencySafe`. -/
def safeFamilies : List String := [
  "invoke reflect.Type.", "(reflect.Value).Is", "(reflect.Value).Can", "(reflect.Value).Num", "(reflect.Value).Len",
  "(reflect.Value).Field", "(reflect.Value).Index", "(reflect.Value).Interface", "(reflect.Value).Uint",
  "(reflect.Value).Float", "(reflect.Value).Bool", "(reflect.Value).MapIndex", "(reflect.Value).Cap",
  "reflect.TypeOf", "reflect.ValueOf", "reflect.Zero", "reflect.Indirect", "reflect.DeepEqual",
  "strings.", "bytes.Index", "bytes.LastIndex", "bytes.Contains", "bytes.Equal", "bytes.HasPrefix", "bytes.HasSuffix",
  "bytes.Trim", "bytes.Split", "bytes.Count", "bytes.Compare", "bytes.ReplaceAll", "bytes.Fields", "bytes.ToLower", "bytes.ToUpper",
  "strconv.", "unicode.", "unicode/utf8.", "path.", "path/filepath.Clean", "path/filepath.Join", "path/filepath.Base",
  "net/url.PathEscape", "net/url.PathUnescape", "net/url.QueryEscape", "net/url.QueryUnescape", "net/url.ParseQuery",
  "sort.Search", "errors.", "fmt.Sprint", "fmt.Errorf", "net/http.StatusText", "net/http.CanonicalHeaderKey",
  "(net/http.Header).Get", "(net/http.Header).Values", "net/textproto.CanonicalMIMEHeaderKey",
  -- regexp: "A Regexp is safe for concurrent use by multiple goroutines, except for configuration methods, such as
  -- Longest" — every matching / inspecting method, none of the configuration ones
  "(*regexp.Regexp).Find", "(*regexp.Regexp).Match", "(*regexp.Regexp).NumSubexp", "(*regexp.Regexp).Subexp",
  "(*regexp.Regexp).String", "(*regexp.Regexp).ReplaceAll", "(*regexp.Regexp).Split", "(*regexp.Regexp).Expand",
  "(*regexp.Regexp).LiteralPrefix",
  -- sync/atomic: every operation is atomic (the storing ones are also recorded as atomic WRITES of the footprint)
  "sync/atomic.", "(*sync/atomic.",
  -- charmbracelet/log: every method of a Logger takes the logger's mutex
  "(*github.com/charmbracelet/log.Logger).",
  -- the Append… functions write behind the end of the caller's own buffer and return it
  "strconv.Append", "(time.Time).AppendFormat", "fmt.Append", "unicode/utf8.AppendRune"]

def callPrefix (p s : String) : Bool := p.toUTF8.data.toList.isPrefixOf s.toUTF8.data.toList

def callIsSafe (callee : String) : Bool :=
  documentedConcurrencySafe.contains callee || safeFamilies.any (fun p => callPrefix p callee)

/-- Containers of package `sync` that are documented as safe for concurrent use AND carry state from one request to the
    next (`sync.Map`: "safe for concurrent use by multiple goroutines without additional locking or coordination";
    `sync.Pool`: "safe for use by multiple goroutines simultaneously").  A call on a shared one is no data race, and what
    is read out of one was published by the call that put it in.  Whether what it carries breaks ISOLATION (a recycled
    object that still holds another request's data) is NOT decided by this file: when the regenerated footprint
    contains such a call the check runs the concurrent correspondence at thorough depth (evidence
    `synchronised_shared_containers`; lib/props.py `_c05_extra_all`).  Writes to the objects kept in such a container are
    still subject to `footprint_disciplined`. -/
def synchronisedContainers : List String := ["(*sync.Map).", "(*sync.Pool)."]

def callIsSynchronised (callee : String) : Bool := synchronisedContainers.any (fun p => callPrefix p callee)

-- the regenerated footprint may be long (a rewrite that adds counters, hooks, helpers): the size of the table must
-- never be what breaks the obligation
set_option maxRecDepth 200000 in
/-- every library call that serving makes on definitely-shared objects is documented as safe for concurrent use — by
    name, as a member of a read-only family, or as a method of a synchronised container; any other stateful one (a shared
    `bytes.Buffer`, a `strings.Builder`, a mutex whose critical section the extraction cannot see) breaks the build until
    it is justified -/
theorem library_calls_documented : ∀ c ∈ libraryCallsOnShared,
    callIsSafe c.callee = true ∨ callIsSynchronised c.callee = true := by
  decide

/-- the calls of the current footprint on synchronised containers (today: none) -/
def statefulSharedCalls : List LibCall := libraryCallsOnShared.filter (fun c => callIsSynchronised c.callee)

/-- … and the families do not let the stateful ones in -/
example : callIsSafe "(*bytes.Buffer).WriteString" = false ∧ callIsSafe "(*sync.Pool).Get" = false ∧
    callIsSafe "(*sync.Map).Store" = false ∧ callIsSafe "(*strings.Builder).WriteString" = false ∧
    callIsSafe "(*sync.Pool).Put" = false ∧ callIsSafe "invoke reflect.Type.Kind" = true ∧
    callIsSynchronised "(*sync.Map).Store" = true ∧ callIsSynchronised "(*sync.Mutex).Lock" = false ∧
    callIsSynchronised "(*bytes.Buffer).WriteString" = false ∧ callIsSafe "(*regexp.Regexp).Longest" = false ∧
    callIsSafe "(*regexp.Regexp).FindStringSubmatchIndex" = true := by decide

/-! ## (iii) isolation: every interleaving is serial for every request -/

variable {Config Req St : Type}

/-- C05 "every response is the one the same request would get if served alone; each handler observes only
    its own request's parameters, values and writer": for EVERY interleaving `sched` of any number of
    requests, the record of request `i` equals the record of the same request served alone for as many steps
    as it has taken, and the once-guarded caches hold nothing but what their function computes.  Since every
    prefix of a schedule is a schedule, both hold throughout the execution.  `serve` is abstract (`Machine`). -/
theorem interleaving_serial (m : Machine Config Req St) (cfg : Config) (reqs : Nat → Req) (sched : List Nat) :
    let w := run m cfg reqs sched (World.start m reqs)
    CacheInv m cfg w ∧ ∀ i, w.locals i = solo m cfg (reqs i) (stepsOf i sched) := by
  have h := run_inv m cfg reqs sched (World.start m reqs) (fun _ => 0)
    (fun _ => Or.inl rfl) (fun _ => rfl)
  exact ⟨h.1, fun i => by simpa using h.2 i⟩

/-- the response is a function of the request's own record: it equals the solo response -/
theorem response_serial (m : Machine Config Req St) (cfg : Config) (reqs : Nat → Req) (sched : List Nat)
    {Resp : Type} (resp : St → Resp) (i : Nat) :
    resp ((run m cfg reqs sched (World.start m reqs)).locals i) = resp (solo m cfg (reqs i) (stepsOf i sched)) := by
  rw [(interleaving_serial m cfg reqs sched).2 i]

/-- the other requests are a frame: removing all of their steps from the schedule changes nothing for `i` -/
theorem others_are_frame (m : Machine Config Req St) (cfg : Config) (reqs : Nat → Req) (sched : List Nat) (i : Nat) :
    (run m cfg reqs sched (World.start m reqs)).locals i =
    (run m cfg reqs (sched.filter (· = i)) (World.start m reqs)).locals i := by
  rw [(interleaving_serial m cfg reqs sched).2 i, (interleaving_serial m cfg reqs _).2 i]
  congr 1
  simp [stepsOf, List.count_filter]

/-! ## non-vacuity -/

/-- two requests racing for one `Segment.String()`: goroutine 1 runs the Once function and writes `str`
    (location 0), goroutine 2's `Do` returns afterwards and it reads `str`; each also writes its own context
    (locations 1, 2). -/
def exampleExec : Exec := [
  { g := 1, op := .write 1 },
  { g := 2, op := .write 2 },
  { g := 1, op := .write 0, inOnce := some 7 },
  { g := 1, op := .onceDone 7 },
  { g := 1, op := .onceReturn 7 },
  { g := 2, op := .onceReturn 7 },
  { g := 2, op := .read 0 },
  { g := 1, op := .read 0 } ]

def exampleCls : Loc → LocClass
  | 0 => .onceGuarded 7
  | 1 => .requestLocal 1
  | 2 => .requestLocal 2
  | _ => .immutableAfterSetup

example : OnceSemantics exampleExec ∧ Disciplined exampleCls exampleExec ∧
    (∃ (i j : Nat) (a b : Event), i < j ∧ exampleExec[i]? = some a ∧ exampleExec[j]? = some b ∧ a.g ≠ b.g ∧ Conflict a.op b.op) := by
  refine ⟨⟨?_, ?_, ?_⟩, ⟨?_, ?_, ?_, ?_, ?_⟩, ?_⟩
  · intro i j a b o hi hj ha hb
    rcases getElem?_cases8 hi with h | h | h | h | h | h | h | h <;> obtain ⟨_, rfl⟩ := h <;> simp at ha <;>
    rcases getElem?_cases8 hj with h | h | h | h | h | h | h | h <;> obtain ⟨_, rfl⟩ := h <;> simp at hb <;> rfl
  · intro i d a e o hi hd ha he
    rcases getElem?_cases8 hi with h | h | h | h | h | h | h | h <;> obtain ⟨rfl, rfl⟩ := h <;> simp at ha <;>
    rcases getElem?_cases8 hd with h | h | h | h | h | h | h | h <;> obtain ⟨rfl, rfl⟩ := h <;> simp at he <;>
    subst ha <;> simp
  · intro k b o hk hb
    rcases getElem?_cases8 hk with h | h | h | h | h | h | h | h <;> obtain ⟨rfl, rfl⟩ := h <;> simp at hb <;>
    subst hb <;> exact ⟨3, _, by decide, rfl, rfl⟩
  · intro i e l hi hl hc
    rcases getElem?_cases8 hi with h | h | h | h | h | h | h | h <;> obtain ⟨_, rfl⟩ := h <;>
    simp [Op.loc?] at hl <;> subst hl <;> simp [exampleCls] at hc
  · intro i e l o hi hl hc hw
    rcases getElem?_cases8 hi with h | h | h | h | h | h | h | h <;> obtain ⟨_, rfl⟩ := h <;>
    simp [Op.loc?] at hl <;> subst hl <;> simp [exampleCls] at hc <;> simp [Op.isWrite] at hw <;> simp [hc]
  · intro i e l o hi hl hc hw
    rcases getElem?_cases8 hi with h | h | h | h | h | h | h | h <;> obtain ⟨rfl, rfl⟩ := h <;>
    simp [Op.loc?] at hl <;> subst hl <;> simp [exampleCls] at hc <;> simp [Op.isWrite] at hw <;> subst hc
    · exact Or.inr ⟨5, _, by decide, rfl, rfl, rfl⟩
    · exact Or.inr ⟨4, _, by decide, rfl, rfl, rfl⟩
  · intro i e l r hi hl hc
    rcases getElem?_cases8 hi with h | h | h | h | h | h | h | h <;> obtain ⟨_, rfl⟩ := h <;>
    simp [Op.loc?] at hl <;> subst hl <;> simp [exampleCls] at hc <;> simp [hc]
  · intro i e l hi hl hc
    rcases getElem?_cases8 hi with h | h | h | h | h | h | h | h <;> obtain ⟨_, rfl⟩ := h <;>
    simp [Op.loc?] at hl <;> subst hl <;> simp [exampleCls] at hc
  · exact ⟨2, 6, { g := 1, op := .write 0, inOnce := some 7 }, { g := 2, op := .read 0 }, by decide, rfl, rfl, by decide,
      0, rfl, rfl, Or.inl rfl, by simp [Op.isAtomic]⟩

/-- a two-request interleaving of a concrete machine: records equal the solo records -/
def exampleMachine : Machine Unit Nat (List String) where
  init := fun _ => []
  segOf := fun _ r st => r + st.length
  render := fun _ k => toString k
  step := fun _ _ st s => s :: st

example : (run exampleMachine () (fun i => 10 * i) [0, 1, 1, 0, 1] (World.start exampleMachine (fun i => 10 * i))).locals 1
    = ["12", "11", "10"] := by decide

end Flamego.Conc
