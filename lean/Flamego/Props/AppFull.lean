/-
  Props/AppFull.lean — the composed application model (Model/AppFull): the handler chain (C03), Recovery
  (C15), the injector's scopes (C04), the return-value table (C14), Static (C16) and Renderer / Render
  (C17) in ONE machine, the way `context.run` composes them.

  Quantifier: every environment `env` (any type universe, any encoders, any file system, either
  environment), every application (any middleware / route / not-found handlers of the four kinds, any
  typed signatures, any actions and return values, any custom ReturnHandlers), every regular-expression
  engine and every request, unless a theorem says otherwise.  `rep` is the machine's own record of whether
  every return value it rendered had an effect the chain machine of Model/Chain can express (no panic
  inside the ReturnHandler, no empty `Write`, status codes net/http accepts); `full_refines_chain` and its
  corollaries carry it as their only guard.
-/
import Flamego.Proofs.AppFull
import Flamego.Props.C03
import Flamego.Props.C04
import Flamego.Props.C14
import Flamego.Props.C15
import Flamego.Props.C16
import Flamego.Props.C17

namespace Flamego.AppFull
open Flamego.Chain (PVal Ev Tok starts wbGo)
open Flamego.Writer (W)
open Flamego.Render (ROp Hdr)
open Flamego.Inject (Ty Val Scope)

/-! ### the composed run refines the chain machine: C03 / C15 transfer -/

/-- Every chain a response started is `serveChain` of the configuration `createContext` assembled —
    application middleware first, then the chosen handler list, the action, a fresh request scope holding
    the request's services, the Flame's scope as it is now, no request-scope ReturnHandler. -/
theorem full_chain_is_serve (env : Env) (E : Engine) (app : AppFull) (rid : Nat) (req : Request) :
    ∀ run ∈ (serveFull env E app rid req).runs, run.st = serveChain env run.cfg ∧
      (∃ hs, run.cfg = app.cfgFor rid req hs) ∧
      (run.cfg.st0 env).req = env.services rid ∧ (run.cfg.st0 env).app = app.scope ∧
      (run.cfg.st0 env).reqRH = none := by
  intro run hrun
  unfold serveFull AppFull.serveWith at hrun
  split at hrun
  · cases hrun
  · simp only [List.mem_singleton] at hrun
    rw [hrun]
    exact ⟨rfl, ⟨_, rfl⟩, rfl, rfl, rfl⟩

/-- **Refinement.**  Erase the types and the return values of the chain along its run (`eraseCfg`: a
    handler whose parameters did not resolve becomes `unresolvable`; a `fn` handler becomes its actions,
    with scope changes reduced to `map` and rendering to the writes it made, and the abstract effect of what
    it returned; Static and Renderer become plain handlers; Recovery stays Recovery).  Then the chain
    machine of Model/Chain — the one C03 and C15 are proved on — run on the erased configuration produces
    exactly the projection of the composed run: the same event trace, writer, cursor and body tokens.
    The erased configuration has the same length, the same action slot, the same method and environment. -/
theorem full_refines_chain (env : Env) (c : Cfg) (h : (serveChain env c).rep = true) :
    Chain.serve (eraseCfg env c (serveChain env c).dec) = proj (serveChain env c) ∧
    (eraseCfg env c (serveChain env c).dec).n = c.n ∧
    (∀ j, (eraseCfg env c (serveChain env c).dec).slot j = none ↔ c.slot j = none) ∧
    (eraseCfg env c (serveChain env c).dec).head = c.head ∧
    (eraseCfg env c (serveChain env c).dec).dev = env.dev ∧
    (eraseCfg env c (serveChain env c).dec).onceBug = false :=
  ⟨serve_refines env c h, eraseCfg_n env c _,
   fun j => by rw [eraseCfg_slot]; cases c.slot j <;> simp, rfl, rfl, rfl⟩

/-- …for every chain of every response of an application -/
theorem full_refines_chain_app (env : Env) (E : Engine) (app : AppFull) (rid : Nat) (req : Request) :
    ∀ run ∈ (serveFull env E app rid req).runs, run.st.rep = true →
      Chain.serve (eraseCfg env run.cfg run.st.dec) = proj run.st := by
  intro run hrun hrep
  obtain ⟨hst, _⟩ := full_chain_is_serve env E app rid req run hrun
  rw [hst] at hrep ⊢
  exact serve_refines env run.cfg hrep

/-- `C03.starts_no_skip` transfers: the slots started are 0, 1, …, k-1 in this order, none skipped,
    none twice — whatever the signatures, scopes, return values, Static and Renderer in the chain -/
theorem full_starts_no_skip (env : Env) (c : Cfg) (h : (serveChain env c).rep = true) :
    ∃ k, k ≤ c.n + 1 ∧ starts (serveChain env c).trace = List.range k := by
  obtain ⟨k, hk, hs⟩ := Chain.starts_no_skip (eraseCfg env c (serveChain env c).dec)
  rw [serve_refines env c h, eraseCfg_n] at *
  exact ⟨k, hk, hs⟩

/-- `C03.at_most_once` transfers -/
theorem full_at_most_once (env : Env) (c : Cfg) (h : (serveChain env c).rep = true) :
    (starts (serveChain env c).trace).Nodup := by
  obtain ⟨k, _, hs⟩ := full_starts_no_skip env c h
  rw [hs]; exact List.nodup_range

/-- `C03.well_bracketed` transfers: handlers finish in reverse order of starting, nothing is left open -/
theorem full_well_bracketed (env : Env) (c : Cfg) (h : (serveChain env c).rep = true) :
    wbGo [] (serveChain env c).trace = some [] := by
  have := Chain.well_bracketed (eraseCfg env c (serveChain env c).dec)
  rw [serve_refines env c h] at this
  exact this

/-- The same two clauses with NO guard at all (proved on the composed machine directly, Proofs/AppFull §8):
    whatever the handlers return — values the chain machine cannot express, ReturnHandlers that panic —
    the slots started are an initial segment 0, 1, …, k-1 of the chain, in order, each once … -/
theorem full_starts_no_skip_unguarded (env : Env) (c : Cfg) :
    ∃ k, starts (serveChain env c).trace = List.range k := by
  obtain ⟨evs, st1, p, h, ht⟩ := serveChain_text env c
  refine ⟨st1.idx, ?_⟩
  rw [ht, Chain.starts_append, h.st, Chain.starts_escEv, List.range_eq_range']
  simp [Cfg.st0]

/-- … and the whole request is well bracketed: every `exit i` / `abort i` finds `i` on top of the stack of
    open handlers, nothing is left open. -/
theorem full_well_bracketed_unguarded (env : Env) (c : Cfg) : wbGo [] (serveChain env c).trace = some [] := by
  obtain ⟨evs, st1, p, h, ht⟩ := serveChain_text env c
  rw [ht]
  exact Chain.balanced_append h.bal (Chain.balanced_escEv p) []

/-- `C03.next_runs_rest_inside` on the composed machine: one `Next()` starts exactly the next slots, as far as
    it gets, and everything it starts finishes inside the call. -/
theorem full_next_runs_rest_inside (env : Env) (c : Cfg) (f : Nat) (st : St) :
    ∃ evs, (run env c f st).1.trace = st.trace ++ evs ∧ Chain.Balanced evs ∧
      starts evs = List.range' st.idx ((run env c f st).1.idx - st.idx) := by
  obtain ⟨evs, h⟩ := run_text env c f st
  exact ⟨evs, h.tr, h.bal, h.st⟩

/-- `C15.recovery_frame_contains`, on the composed machine, no guard: whatever happens inside
    Recovery's `c.Next()` — typed handlers, failed injections, panicking ReturnHandlers, Static,
    Renderer — nothing propagates out of the Recovery handler. -/
theorem full_recovery_frame_contains (env : Env) (c : Cfg) (runF : St → Res) (i : Nat) (st : St) :
    (invoke env c runF i .recovery st).2 = none := by
  simp only [invoke]
  split <;> rfl

/-- One loop iteration of `run()` (`C03.auto_advance_iff` on the composed machine): after the handler in
    the current slot came back normally — its return values, if any, rendered — the loop goes on iff
    nothing has been written and the request is not cancelled. -/
theorem full_auto_advance_iff (env : Env) (c : Cfg) (f : Nat) (st st1 : St) (h : Handler) (h1 : ¬ c.n < st.idx)
    (h2 : st.cancelled = false) (hs : c.slot st.idx = some h)
    (hr : invoke env c (run env c f) st.idx h st.adv = (st1, none)) :
    run env c (f + 1) st =
      if st1.w.status = 0 ∧ st1.cancelled = false then run env c f st1 else (st1, none) :=
  run_auto_advance env c f st st1 h h1 h2 hs hr

/-! ### C04 at application level -/

/-- "run() panics before any handler code runs": if some parameter of the handler in slot `i` (its own, or
    the `flamego.Render` it needs for rendering) has no value in request scope → app scope, the first such
    type makes `c.Invoke` fail: the only event is `inject i`, the handler is not entered (no `enter`, no
    argument list recorded), nothing is written, no scope changes, and the inject panic unwinds `run()`. -/
theorem unresolved_param_panics_before_body (env : Env) (c : Cfg) (runF : St → Res) (i : Nat) (sig : List Ty)
    (acts : List Act) (ret : Ret.RetShape) (st : St) (t : Ty)
    (h : Inject.argSets env.U [st.req, st.app] (fullSig env sig acts) = .error t) :
    invoke env c runF i (.fn sig acts ret) st =
      ((st.ev (.inject i)).record i .unresolvable, some (.inject, i)) := by
  simp only [invoke, resolve_error_of_argSets _ _ _ _ h]

/-- …and with parameters that all have a value the body is entered exactly with those values
    (left to right, nearest scope first — C04's `invoke_runs_once_with`) -/
theorem resolved_params_enter_body (env : Env) (c : Cfg) (runF : St → Res) (i : Nat) (sig : List Ty)
    (acts : List Act) (ret : Ret.RetShape) (st : St) (args : List Val)
    (h : Inject.resolveArgs env.U [st.req, st.app] (fullSig env sig acts) [] = .ok args) :
    invoke env c runF i (.fn sig acts ret) st = invokeFn env c runF i acts ret args st := by
  simp only [invoke, h]

/-- A value mapped by a handler into the request scope is what every later lookup of that type gets, in
    the same request, whatever the iteration choice and whatever the app scope holds for the type. -/
theorem later_handler_sees_map (env : Env) (runF : St → Res) (i : Nat) (ro : Render.Opts) (t : Ty) (v : Val)
    (st : St) (ch : Nat) :
    Inject.value env.U [(act1 env runF i ro (.map t v) st).1.req, (act1 env runF i ro (.map t v) st).1.app] t ch =
      some v ∧
    Inject.resolveArgs env.U [(act1 env runF i ro (.map t v) st).1.req, (act1 env runF i ro (.map t v) st).1.app]
      [t] [] = .ok [v] := by
  have hl : Inject.lookup (act1 env runF i ro (.map t v) st).1.req t = some v :=
    Inject.lookup_register_same st.req t v
  exact ⟨value_of_lookup _ _ _ _ _ _ hl, resolve_single _ _ _ _ _ hl⟩

/-- `f.Map` by a handler lands in the Flame's scope and is what the response hands on to the next request -/
theorem app_map_lands_in_app_scope (env : Env) (runF : St → Res) (i : Nat) (ro : Render.Opts) (t : Ty) (v : Val)
    (st : St) :
    (act1 env runF i ro (.mapApp t v) st).1.app = Inject.register st.app t v ∧
    (act1 env runF i ro (.mapApp t v) st).1.req = st.req := ⟨rfl, rfl⟩

/-- Several requests on one instance: the next request starts from the Flame's scope the previous one
    left and from NOTHING else of it — -/
theorem serveSeq_step (env : Env) (E : Engine) (app : AppFull) (rid : Nat) (q : Request) (rest : List Request) :
    serveSeqFull env E app rid (q :: rest) =
      serveFull env E app rid q ::
        serveSeqFull env E { app with scope := (serveFull env E app rid q).scope } (rid + 1) rest := rfl

/-- — so a request whose handlers left the Flame's scope as it was (they mapped into their REQUEST scope
    only) is invisible to the next request: that one is served exactly as if it were the first. -/
theorem request_maps_invisible_to_next_request (env : Env) (E : Engine) (app : AppFull) (rid : Nat)
    (q1 q2 : Request) (h : (serveFull env E app rid q1).scope = app.scope) :
    serveSeqFull env E app rid [q1, q2] = [serveFull env E app rid q1, serveFull env E app (rid + 1) q2] := by
  simp only [serveSeqFull, h]

/-- no handler anywhere in the application maps on the Flame (`f.Map` from inside a handler) -/
def AppFull.noMapApp (app : AppFull) : Prop :=
  (∀ h ∈ app.middleware, h.noMapApp = true) ∧ (∀ hid, ∀ h ∈ app.handlersOf hid, h.noMapApp = true) ∧
  (∀ h ∈ app.notFound, h.noMapApp = true) ∧ (∀ h, app.action = some h → h.noMapApp = true)

/-- Whatever the handlers of such an application map — into their request scopes, through `c.Map`,
    `c.MapTo`, the Renderer, `c.Map(ReturnHandler)` — the Flame's scope is after the request what it was before. -/
theorem scope_unchanged_without_mapApp (env : Env) (E : Engine) (app : AppFull) (rid : Nat) (req : Request)
    (h : app.noMapApp) : (serveFull env E app rid req).scope = app.scope := by
  unfold serveFull AppFull.serveWith
  split
  · rfl
  · simp only
    apply serveChain_app
    intro i hd hslot
    obtain ⟨hmw, hrt, hnf, hact⟩ := h
    unfold Cfg.slot at hslot
    split at hslot
    · exact hact hd hslot
    · have hmem : hd ∈ app.middleware ++ (app.target ((Router.run E app.ops).serve E req)).2.2 :=
        List.mem_of_getElem? hslot
      rcases List.mem_append.mp hmem with hm | hm
      · exact hmw hd hm
      · unfold AppFull.target at hm
        split at hm
        · exact hrt _ hd hm
        · exact hnf hd hm

/-- **Request-scope maps are invisible to later requests.**  On one instance of an application whose
    handlers never map on the Flame, the k-th request of any sequence is answered exactly as if it were the
    only one (with its own number): nothing a request mapped, no Renderer it installed, no ReturnHandler it
    registered, survives it. -/
theorem request_maps_invisible_to_later_requests (env : Env) (E : Engine) (app : AppFull) (h : app.noMapApp) :
    ∀ (reqs : List Request) (rid k : Nat),
      (serveSeqFull env E app rid reqs)[k]? = reqs[k]?.map (serveFull env E app (rid + k)) := by
  intro reqs
  induction reqs with
  | nil => intro rid k; rfl
  | cons q rest ih =>
    intro rid k
    rw [serveSeq_step, scope_unchanged_without_mapApp env E app rid q h]
    cases k with
    | zero => rfl
    | succ k =>
      simp only [List.getElem?_cons_succ]
      have := ih (rid + 1) k
      rw [show rid + 1 + k = rid + (k + 1) by omega] at this
      exact this

/-- Recovery first, then a handler with a parameter nobody mapped: the inject panic is caught, the client
    gets 500 and Recovery's plain body, Recovery itself exits normally, nothing escapes ServeHTTP, and no
    later handler runs (the response is written). -/
theorem unresolved_param_recovery_first (env : Env) (c : Cfg) (sig : List Ty) (acts : List Act)
    (ret : Ret.RetShape) (rest : List Handler) (t : Ty)
    (hc : c.chain = .recovery :: .fn sig acts ret :: rest)
    (h : Inject.argSets env.U [env.services c.rid, c.scope0] (fullSig env sig acts) = .error t) :
    (serveChain env c).trace = [.enter 0, .inject 1, .recovered 0 1 0, .exit 0] ∧
    (serveChain env c).w.status = 500 ∧ (serveChain env c).calls = [] ∧
    (serveChain env c).body = (if c.head then [] else if env.dev then env.detail else Gen.recoveryPlainBody) := by
  have hn : c.n = rest.length + 2 := by simp [Cfg.n, hc]
  have hs0 : c.slot (c.st0 env).idx = some .recovery := by simp [Cfg.slot, Cfg.st0, hn, hc]
  have hf : c.fuel = (rest.length + 2) + 1 + 1 := by simp [Cfg.fuel, hn]
  -- the inner `Next()`: slot 1 cannot be invoked
  let s1 : St := (c.st0 env).adv.ev (.enter 0)
  have hs1 : c.slot s1.idx = some (.fn sig acts ret) := by simp [s1, Cfg.slot, Cfg.st0, hn, hc]
  have e1 : run env c (rest.length + 2 + 1) s1 =
      ((s1.adv.ev (.inject 1)).record 1 .unresolvable, some (.inject, 1)) :=
    run_panic (rest.length + 2) (by simp [s1, Cfg.st0, hn]) rfl hs1
      (unresolved_param_panics_before_body env c _ 1 sig acts ret s1.adv t h)
  -- Recovery catches it and answers
  have e0 : invoke env c (run env c (rest.length + 2 + 1)) (c.st0 env).idx .recovery (c.st0 env).adv =
      (((recoverWrite env (((s1.adv.ev (.inject 1)).record 1 .unresolvable).ev (.recovered 0 1 0))).ev (.exit 0)).record 0
        .recovery, none) := by
    simp only [invoke]
    show (match run env c (rest.length + 2 + 1) s1 with
      | (st1, none) => _
      | (st1, some (_, j)) => _) = _
    rw [e1]
    rfl
  have hwr : (((recoverWrite env (((s1.adv.ev (.inject 1)).record 1 .unresolvable).ev (.recovered 0 1 0))).ev (.exit 0)).record 0
      Chain.Kind.recovery).w.written = true := by
    cases hh : c.head <;>
    simp [s1, recoverWrite, St.op, St.resp, Render.Resp.apply, Writer.step, Cfg.st0, Writer.init,
      Writer.W.writeHeader, Writer.W.written, Writer.W.ensure, Chain.recoveryStatus, St.adv, hh, Gen.recoveryStatus]
  rw [serveChain_eq, hf, run_stop _ (by simp [Cfg.st0, hn]) rfl hs0 e0 hwr]
  refine ⟨?_, ?_, ?_, ?_⟩
  · simp [s1, recoverWrite, St.op, Cfg.st0, St.adv, St.ev, St.record]
  · cases hh : c.head <;>
    simp [s1, recoverWrite, St.op, St.resp, Render.Resp.apply, Writer.step, Cfg.st0, Writer.init,
      Writer.W.writeHeader, Writer.W.written, Writer.W.ensure, Chain.recoveryStatus, St.adv, hh, Gen.recoveryStatus]
  · simp [s1, recoverWrite, St.op, Cfg.st0, St.adv, St.ev, St.record]
  · cases hh : c.head <;> cases hd : env.dev <;>
      simp [s1, recoverWrite, St.op, St.resp, Render.Resp.apply, Writer.step, Cfg.st0, Writer.init,
        Writer.W.writeHeader, Writer.W.written, Writer.W.ensure, Chain.recoveryStatus, St.adv, hh, hd]

/-! ### C14 × C03 -/

/-- The return values of a handler are rendered by `Ret.respondFrom` (C14's model) with the ReturnHandler
    visible when the handler RETURNS — request scope, then the Flame's, then the built-in table — on the
    writer and body as the handler left them; a panic inside the ReturnHandler unwinds `run()`. -/
theorem return_rendering_is_respondFrom (env : Env) (c : Cfg) (i : Nat) (erased : List Chain.Act)
    (ret : Ret.RetShape) (st1 : St) :
    (finishFn env c i erased ret st1).1.w =
      (Ret.respondFrom { w := st1.w, body := st1.body } env.ph st1.reqRH c.appRH ret).w ∧
    (finishFn env c i erased ret st1).1.body =
      (Ret.respondFrom { w := st1.w, body := st1.body } env.ph st1.reqRH c.appRH ret).body ∧
    (finishFn env c i erased ret st1).2.isSome =
      (Ret.respondFrom { w := st1.w, body := st1.body } env.ph st1.reqRH c.appRH ret).panicked :=
  finishFn_is_respondFrom env c i erased ret st1

/-- Return values that render to nothing under the built-in table (`¬ Ret.Writes`: no status, no error, an
    empty body — C14's `acts_nonempty_iff`) leave writer, headers and body exactly as the handler left them
    and raise nothing: whether the chain goes on is decided by what the handler itself wrote
    (`full_auto_advance_iff`) — if it wrote nothing, the next handler runs. -/
theorem return_writes_nothing_chain_continues (env : Env) (c : Cfg) (i : Nat) (erased : List Chain.Act)
    (ret : Ret.RetShape) (st1 : St) (hreq : st1.reqRH = none) (happ : c.appRH = none)
    (hw : ¬ Ret.Writes env.ph ret) :
    (finishFn env c i erased ret st1).2 = none ∧ (finishFn env c i erased ret st1).1.w = st1.w ∧
    (finishFn env c i erased ret st1).1.body = st1.body ∧ (finishFn env c i erased ret st1).1.hdr = st1.hdr ∧
    (finishFn env c i erased ret st1).1.idx = st1.idx ∧
    (finishFn env c i erased ret st1).1.cancelled = st1.cancelled := by
  have hnil : Ret.afterHandler env.ph st1.reqRH c.appRH ret = [] := by
    rw [hreq, happ]
    unfold Ret.afterHandler
    split
    · rfl
    · simp only [Ret.resolve]
      exact Classical.byContradiction (fun hne => hw ((Ret.acts_nonempty_iff env.ph ret).mp hne))
  rw [finishFn_nil env c i erased ret st1 hnil]
  exact ⟨rfl, rfl, rfl, rfl, rfl, rfl⟩

/-- Return values the built-in table writes for (`Ret.Writes`, valid status codes), returned by a handler
    that had written nothing on a fresh writer: the response is written afterwards (C14's
    `written_of_acts`), so `run()` returns instead of starting the next handler. -/
theorem return_writes_chain_stops (env : Env) (c : Cfg) (f : Nat) (st st1 : St) (sig : List Ty) (acts : List Act)
    (ret : Ret.RetShape) (h1 : ¬ c.n < st.idx) (h2 : st.cancelled = false)
    (hs : c.slot st.idx = some (.fn sig acts ret))
    (hr : invoke env c (run env c f) st.idx (.fn sig acts ret) st.adv = (st1, none))
    (hw : st1.w.written = true) :
    run env c (f + 1) st = (st1, none) :=
  run_stop f h1 h2 hs hr hw

/-- …and written it is: on a writer nothing has touched, with the built-in table -/
theorem return_writes_written (env : Env) (c : Cfg) (i : Nat) (erased : List Chain.Act) (ret : Ret.RetShape)
    (st1 : St) (head : Bool) (hreq : st1.reqRH = none) (happ : c.appRH = none) (hfresh : st1.w = Writer.init head)
    (hb : st1.body = []) (hv : ret.codesValid) (hw : Ret.Writes env.ph ret) :
    (finishFn env c i erased ret st1).1.w.written = true := by
  have h0 : ret.arity ≠ 0 := by
    intro h0
    cases ret <;> simp [Ret.RetShape.arity] at h0
    simp [Ret.Writes, Ret.select] at hw
  rw [(finishFn_is_respondFrom env c i erased ret st1).1, hreq, happ, hfresh, hb]
  have := (Ret.written_of_acts head env.ph ret hv).mpr ((Ret.acts_nonempty_iff env.ph ret).mpr hw)
  simpa [Ret.respondFrom, Ret.afterHandler, Ret.resolve, h0, Ret.fresh] using this

/-- A ReturnHandler mapped by a handler in the middle of the chain (`c.Map(flamego.ReturnHandler(h))`)
    renders the return values of every LATER return of the request — until another one is mapped — whatever
    the Flame's scope holds; the built-in table is not consulted. -/
theorem custom_return_handler_mapped_midchain_applies_to_later_handlers (env : Env) (c : Cfg) (runF : St → Res)
    (j : Nat) (ro : Render.Opts) (h : Ret.Handler) (st : St) :
    (act1 env runF j ro (.mapReturnHandler h) st).1.reqRH = some h ∧
    ∀ (i : Nat) (erased : List Chain.Act) (ret : Ret.RetShape) (st1 : St), st1.reqRH = some h → ret.arity ≠ 0 →
      (finishFn env c i erased ret st1).1.w = (Ret.Out.run { w := st1.w, body := st1.body } (h ret)).w ∧
      (finishFn env c i erased ret st1).1.body = (Ret.Out.run { w := st1.w, body := st1.body } (h ret)).body := by
  refine ⟨rfl, ?_⟩
  intro i erased ret st1 hrh har
  have := finishFn_is_respondFrom env c i erased ret st1
  rw [hrh] at this
  simp only [Ret.respondFrom, (Ret.custom_handler_replaces env.ph h c.appRH ret har).1] at this
  exact ⟨this.1, this.2.1⟩

/-- …and it is gone with the request: the next request starts with no request-scope ReturnHandler -/
theorem custom_return_handler_dies_with_request (env : Env) (c : Cfg) : (c.st0 env).reqRH = none := rfl

/-! ### C16 × C03 -/

/-- Static that decides to stay silent (C16's `silent_unless` says exactly when: not GET/HEAD, outside the
    prefix, file missing, directory without index) touches nothing — no status, no header, no body — and
    returns normally: the next handler runs iff nothing had been written before. -/
theorem static_silent_next_handler_runs (env : Env) (c : Cfg) (runF : St → Res) (i : Nat) (o : Static.Opts)
    (st : St)
    (h : (Static.staticDecide o env.etag (staticMethod c.method) c.path c.inm env.fs).out = .silent) :
    (invoke env c runF i (.static o) st).2 = none ∧
    (invoke env c runF i (.static o) st).1.w = st.w ∧ (invoke env c runF i (.static o) st).1.hdr = st.hdr ∧
    (invoke env c runF i (.static o) st).1.body = st.body ∧
    (invoke env c runF i (.static o) st).1.trace = st.trace ++ [.enter i, .exit i] := by
  simp [invoke, staticRun, h, staticOps, St.ops]

/-- …with `run()` around it: the loop goes straight on to the next slot -/
theorem static_silent_run_continues (env : Env) (c : Cfg) (f : Nat) (o : Static.Opts) (st : St)
    (h1 : ¬ c.n < st.idx) (h2 : st.cancelled = false) (hs : c.slot st.idx = some (.static o))
    (hw : st.w.written = false)
    (h : (Static.staticDecide o env.etag (staticMethod c.method) c.path c.inm env.fs).out = .silent) :
    run env c (f + 1) st = run env c f (invoke env c (run env c f) st.idx (.static o) st.adv).1 := by
  obtain ⟨hp, hww, _⟩ := static_silent_next_handler_runs env c (run env c f) st.idx o st.adv h
  have hr : invoke env c (run env c f) st.idx (.static o) st.adv =
      ((invoke env c (run env c f) st.idx (.static o) st.adv).1, none) := by
    rw [← hp]
  exact run_loop f h1 h2 hs hr (by rw [hww]; exact hw)

/-- Static that serves — a file, a 304, a redirect — leaves the response written, so `run()` returns and no
    later handler is started. -/
theorem static_serves_chain_stops (env : Env) (c : Cfg) (f : Nat) (o : Static.Opts) (st : St)
    (h1 : ¬ c.n < st.idx) (h2 : st.cancelled = false) (hs : c.slot st.idx = some (.static o))
    (hwok : Chain.WOK st.w)
    (h : (Static.staticDecide o env.etag (staticMethod c.method) c.path c.inm env.fs).out ≠ .silent) :
    (invoke env c (run env c f) st.idx (.static o) st.adv).1.w.written = true ∧
    run env c (f + 1) st = ((invoke env c (run env c f) st.idx (.static o) st.adv).1, none) := by
  have hwr : (invoke env c (run env c f) st.idx (.static o) st.adv).1.w.written = true := by
    simp only [invoke, St.record_w, St.ev_w]
    apply ops_written
    · exact hwok
    · intro code hmem
      unfold staticRun staticOps at hmem
      split at hmem <;> simp at hmem <;> (try omega)
      all_goals (rcases hmem with h | h | h <;> simp_all)
    · unfold staticRun staticOps
      split
      · rename_i heq; exact absurd heq h
      · exact ⟨Gen.staticRedirectStatus, by simp⟩
      · exact ⟨Gen.staticNotModifiedStatus, by simp⟩
      · exact ⟨200, by simp⟩
  refine ⟨hwr, ?_⟩
  have hr : invoke env c (run env c f) st.idx (.static o) st.adv =
      ((invoke env c (run env c f) st.idx (.static o) st.adv).1, none) := by
    simp only [invoke]
  exact run_stop f h1 h2 hs hr hwr

/-! ### C17 × C04 -/

/-- After the Renderer middleware ran, every later lookup of `flamego.Render` in the SAME request finds its
    service (whatever the iteration choice, whatever the app scope holds), so a handler that renders is
    entered with it and renders with ITS options; the middleware itself writes nothing. -/
theorem renderer_visible_to_later_handlers (env : Env) (c : Cfg) (runF : St → Res) (i : Nat) (vid : Val)
    (st : St) (ch : Nat) :
    (invoke env c runF i (.renderer vid) st).2 = none ∧
    (invoke env c runF i (.renderer vid) st).1.w = st.w ∧
    Inject.value env.U [(invoke env c runF i (.renderer vid) st).1.req, (invoke env c runF i (.renderer vid) st).1.app]
      env.renderTy ch = some vid ∧
    Inject.resolveArgs env.U [(invoke env c runF i (.renderer vid) st).1.req, (invoke env c runF i (.renderer vid) st).1.app]
      (fullSig env [] [.render 200 (.plainText [])]) [] = .ok [vid] := by
  have hl : Inject.lookup (invoke env c runF i (.renderer vid) st).1.req env.renderTy = some vid :=
    Inject.lookup_register_same st.req env.renderTy vid
  refine ⟨rfl, rfl, value_of_lookup _ _ _ _ _ _ hl, ?_⟩
  have : fullSig env [] [Act.render 200 (.plainText [])] = [env.renderTy] := by
    simp [fullSig, Act.usesRender]
  rw [this]
  exact resolve_single _ _ _ _ _ hl

/-- …in the same request ONLY: the binding lives in the request scope, and every request starts from
    `env.services` — the Flame's scope is untouched by the Renderer. -/
theorem renderer_same_request_only (env : Env) (c : Cfg) (runF : St → Res) (i : Nat) (vid : Val) (st : St)
    (c' : Cfg) :
    (invoke env c runF i (.renderer vid) st).1.app = st.app ∧ (c'.st0 env).req = env.services c'.rid :=
  ⟨rfl, rfl⟩

/-- A handler that renders although no Renderer ran before it in this request (and nobody mapped a
    `flamego.Render` on the Flame): `run()` panics with the inject panic, the body is not entered. -/
theorem render_without_renderer_panics (env : Env) (c : Cfg) (runF : St → Res) (i : Nat) (sig : List Ty)
    (acts : List Act) (ret : Ret.RetShape) (st : St) (hu : acts.any Act.usesRender = true)
    (h : Inject.valueSet env.U [st.req, st.app] env.renderTy = []) :
    invoke env c runF i (.fn sig acts ret) st =
      ((st.ev (.inject i)).record i .unresolvable, some (.inject, i)) := by
  have hsig : fullSig env sig acts = sig ++ [env.renderTy] := by simp [fullSig, hu]
  obtain ⟨e, he⟩ := argSets_append_error env.U [st.req, st.app] env.renderTy h sig
  exact unresolved_param_panics_before_body env c runF i sig acts ret st e (by rw [hsig]; exact he)

/-- The `render` action is exactly C17's `Render.render` on the response, with the options of the
    renderer the handler was handed. -/
theorem render_action_is_render (env : Env) (runF : St → Res) (i : Nat) (ro : Render.Opts) (status : Nat)
    (p : Render.Payload Nat) (st : St) :
    (act1 env runF i ro (.render status p) st).1.resp = Render.render env.enc ro status p st.resp := by
  simp only [act1, Render.render]
  exact ops_resp _ st

/-! ### non-vacuity: one concrete application, three requests on one instance -/

def exE : Engine := ⟨fun _ => some 0, fun _ _ => none, fun _ _ => false⟩

/-- types: 0 = a concrete service type, 5 = a type nobody maps, 12/13/14 = Context / ResponseWriter /
    *http.Request (the per-request services), 15 = the logger, 16 = flamego.Render -/
def exEnv : Env :=
  { U := { isInterface := fun t => t == 12 || t == 13 || t == 16, implements := fun _ _ => false },
    renderTy := 16,
    services := fun rid => [(12, 1000 + rid), (13, 2000 + rid), (14, 3000 + rid)],
    enc := Render.toyEnc,
    ropts := fun vid => ({ charset := if vid = 7 then b!"gbk" else [] } : Render.Opts).parse,
    fs := Static.exFs, content := fun id => [60, UInt8.ofNat id, 62], etag := fun id => [UInt8.ofNat id],
    redirectBody := fun loc => b!"to " ++ loc }

def exLit (t : String) : Segment := ⟨false, [.ident (B t)]⟩

/-- a custom ReturnHandler: status 299 and "R" whatever was returned -/
def exRH : Ret.Handler := fun _ => [.writeHeader 299, .write b!"R"]

/-- Recovery, an outer wrapper, Renderer (service value 7, charset gbk), Static under `/static`;
    `/hello`: a handler mapping type 0 ↦ 41 into the request scope, then one that needs type 0 and returns "hi";
    `/page`: a handler that renders plain text 201 "ok" through the Renderer;
    `/need`: a handler that needs type 0 (nobody mapped it in THIS request) — its body must not run;
    `/rh`: a handler mapping the custom ReturnHandler, then one returning a string;
    `/keep`: a handler doing `f.Map` of type 0 ↦ 99 on the Flame -/
def exApp : AppFull :=
  { middleware := [.recovery, .fn [12] [.next, .ops [.setHeader b!"X-After" b!"1"]] .none, .renderer 7,
                   .static Static.exOpts],
    ops := [.add 1 ⟨[exLit "hello"]⟩ ["GET"], .add 2 ⟨[exLit "page"]⟩ ["GET", "HEAD"],
            .add 3 ⟨[exLit "need"]⟩ ["GET"], .add 4 ⟨[exLit "rh"]⟩ ["GET"], .add 5 ⟨[exLit "keep"]⟩ ["GET"]],
    handlersOf := fun hid =>
      if hid = 1 then [.fn [12] [.map 0 41] .none, .fn [0, 14] [] (.one (.str b!"hi"))]
      else if hid = 2 then [.fn [12] [.render 201 (.plainText b!"ok")] .none]
      else if hid = 3 then [.fn [0] [.ops [.write b!"never"]] .none]
      else if hid = 4 then [.fn [12] [.mapReturnHandler exRH] (.one (.str b!"")), .fn [] [] (.one (.str b!"x")),
                            .fn [] [.ops [.write b!"not reached"]] .none]
      else [.fn [12] [.mapApp 0 99] .none],
    scope := [(15, 4000)] }

/-- what the examples look at -/
structure View where
  trace  : List Ev
  calls  : List (Nat × List Val)
  status : Nat
  body   : Bytes
  hdrs   : List Bytes
  rep    : Bool
  deriving DecidableEq

def RunFull.view (r : RunFull) : View :=
  ⟨r.st.trace, r.st.calls, r.st.w.status, r.st.body, r.st.hdr.map (·.1), r.st.rep⟩

def exGet (p : String) : Request := ⟨"GET", B p, []⟩

/-- `GET /hello`: Recovery, wrapper (entered with the Context of request 0), Renderer, Static (silent: no
    such file), the mapping handler, then the handler that needs type 0 — entered with 41 and the request's
    *http.Request; it returns "hi": 200 + body, the chain stops, the wrapper's code after Next() still runs
    (its header lands in the live map only) -/
example : ((serveFull exEnv exE exApp 0 (exGet "/hello")).runs.map RunFull.view) =
    [⟨[.enter 0, .enter 1, .enter 2, .exit 2, .enter 3, .exit 3, .enter 4, .exit 4, .enter 5, .exit 5, .exit 1, .exit 0],
      [(1, [1000]), (4, [1000]), (5, [41, 3000])], 200, b!"hi", [b!"X-After"], true⟩] := by
  decide

/-- `GET /page` as request 1: the rendering handler gets the Renderer's service (7) and its charset -/
example : ((serveFull exEnv exE exApp 1 (exGet "/page")).runs.map RunFull.view) =
    [⟨[.enter 0, .enter 1, .enter 2, .exit 2, .enter 3, .exit 3, .enter 4, .exit 4, .exit 1, .exit 0],
      [(1, [1001]), (4, [1001, 7])], 201, b!"ok", [b!"X-After", b!"Content-Type"], true⟩] ∧
    ((serveFull exEnv exE exApp 1 (exGet "/page")).runs.map (fun r => r.st.sent.bind (Hdr.get · Render.ctKey))) =
      [some b!"text/plain; charset=gbk"] := by
  decide

/-- `GET /need`: type 0 has no value in this request (the map of `/hello` died with its request): inject
    panic before the body, caught by Recovery: 500, plain body, nothing escapes, the wrapper is unwound -/
example : ((serveFull exEnv exE exApp 2 (exGet "/need")).runs.map RunFull.view) =
    [⟨[.enter 0, .enter 1, .enter 2, .exit 2, .enter 3, .exit 3, .inject 4, .abort 1 4, .recovered 0 4 0, .exit 0],
      [(1, [1002])], 500, Gen.recoveryPlainBody, [b!"Content-Type"], true⟩] := by
  decide

/-- `GET /static/secret`: Static serves file 7 (ETag set), the chain stops: no route handler runs -/
example : ((serveFull exEnv exE exApp 0 (exGet "/static/secret")).runs.map RunFull.view) =
    [⟨[.enter 0, .enter 1, .enter 2, .exit 2, .enter 3, .exit 3, .exit 1, .exit 0],
      [(1, [1000])], 200, [60, 7, 62],
      [b!"X-After", b!"Content-Length", b!"Accept-Ranges", b!"Last-Modified", b!"Content-Type", b!"ETag"], true⟩] := by
  decide

/-- `GET /rh`: the first handler maps a ReturnHandler and returns "" — rendered by the NEW handler (299 "R"),
    so the chain stops there: the lookup happens at every return -/
example : ((serveFull exEnv exE exApp 0 (exGet "/rh")).runs.map RunFull.view) =
    [⟨[.enter 0, .enter 1, .enter 2, .exit 2, .enter 3, .exit 3, .enter 4, .exit 4, .exit 1, .exit 0],
      [(1, [1000]), (4, [1000])], 299, b!"R", [b!"X-After"], true⟩] := by
  decide

/-- three requests on ONE instance: `/hello` maps type 0 in its request scope, `/need` (request 1) does not
    see it (500); `/keep` (request 2) maps it on the Flame, and then `/need` (request 3) is entered with 99 -/
example : (serveSeqFull exEnv exE exApp 0 [exGet "/hello", exGet "/need", exGet "/keep", exGet "/need"]).map
      (fun r => r.runs.map (fun x => (x.st.w.status, x.st.calls.getLast?))) =
    [[(200, some (5, [41, 3000]))], [(500, some (1, [1001]))], [(0, some (4, [1002]))], [(200, some (4, [99]))]] := by
  decide

/-- `request_maps_invisible_to_later_requests` applies to the application without its `/keep` route -/
example : ({ exApp with handlersOf := fun hid => if 1 ≤ hid ∧ hid ≤ 4 then exApp.handlersOf hid else [] }).noMapApp := by
  refine ⟨by decide, ?_, by decide, by decide⟩
  intro hid
  by_cases h : 1 ≤ hid ∧ hid ≤ 4
  · have : hid = 1 ∨ hid = 2 ∨ hid = 3 ∨ hid = 4 := by omega
    rcases this with rfl | rfl | rfl | rfl <;> decide
  · simp [h]

/-- the refinement applies to these runs (`rep` holds): e.g. C03's well-bracketing and no-skip transfer -/
example :
    let c := exApp.cfgFor 2 (exGet "/need") (exApp.handlersOf 3)
    (serveChain exEnv c).rep = true ∧ wbGo [] (serveChain exEnv c).trace = some [] ∧
    ∃ k, k ≤ c.n + 1 ∧ starts (serveChain exEnv c).trace = List.range k :=
  ⟨by decide, full_well_bracketed _ _ (by decide), full_starts_no_skip _ _ (by decide)⟩

/-- a return the chain machine cannot express (an error whose `Error()` panics) clears `rep` — and the
    panic, raised inside the ReturnHandler after the handler's exit, is caught by Recovery all the same -/
example :
    let c : Cfg := { chain := [.recovery, .fn [] [] (.one (.err none))] }
    (serveChain exEnv c).rep = false ∧ (serveChain exEnv c).w.status = 500 ∧
    (serveChain exEnv c).trace = [.enter 0, .enter 1, .exit 1, .recovered 0 1 500, .exit 0] := by
  decide

end Flamego.AppFull
