/-
  Props/C18.lean — Request accessors are total and follow one rule; cookies round-trip.

  Quantifier: every raw query string (`parseQuery raw`, or any association list `q`), every
  bind-parameter map, every list of `Cookie` header lines, every name, every default (present or
  not), every byte string as value — control bytes, separators, non-ASCII, huge numbers.

  TOTALITY ("never panics"): every accessor of Model/Access.lean is a total Lean function
  (structural recursion only, no partiality, no `Option` in the result), so in the model there is
  nothing to prove — it holds by construction.  For the implementation it is what the
  correspondence check observes on every generated request (a recovered panic prints `panic`).

  The rule is `accessRule raw conv dflt zero` (Model/Access.lean):
     present and non-empty → conv value ;  absent or empty → default if given, else zero.
-/
import Flamego.Proofs.Access

namespace Flamego.Access
open Flamego

/-! ## 1. "follows one rule for every accessor" — one theorem per accessor, all inputs -/

/-- `Values.Get` is the first of the key's values -/
theorem qLookup_eq_head (q : Query) (n : Bytes) : qLookup q n = (qValues q n).head? := by
  induction q with
  | nil => rfl
  | cons kv rest ih =>
    have e1 : qLookup (kv :: rest) n = if kv.1 == n then some kv.2 else qLookup rest n := by
      unfold qLookup; rw [List.find?_cons]; cases (kv.1 == n) <;> rfl
    have e2 : qValues (kv :: rest) n = if kv.1 == n then kv.2 :: qValues rest n else qValues rest n := by
      unfold qValues; rw [List.filter_cons]; cases (kv.1 == n) <;> rfl
    rw [e1, e2]
    cases (kv.1 == n) <;> simp [ih]

/-- "a query value that is present is returned, an absent or empty one yields the caller's default,
    or the zero value" — `Query`.  (A present-but-empty value yields the default.) -/
theorem query_rule (q : Query) (n : Bytes) (d : Option Bytes) :
    query q n d = accessRule (qLookup q n) id d [] := by
  unfold query accessRule qGet
  cases hq : qLookup q n with
  | none => cases d <;> simp
  | some v => cases d <;> cases v <;> simp

/-- `QueryBool`: converted with `strconv.ParseBool` (false on malformed text) -/
theorem queryBool_rule (q : Query) (n : Bytes) (d : Option Bool) :
    queryBool q n d = accessRule (qLookup q n) (fun v => (parseBool v).1) d false := by
  unfold queryBool query accessRule qGet
  cases hq : qLookup q n with
  | none => cases d <;> simp [parseBool_nil]
  | some v => cases d <;> cases v <;> simp [parseBool_nil]

/-- `QueryInt`: converted with `strconv.ParseInt(v, 10, 0)` (value component) -/
theorem queryInt_rule (q : Query) (n : Bytes) (d : Option Int) :
    queryInt q n d = accessRule (qLookup q n) (fun v => (parseInt intSize v).1) d 0 := by
  unfold queryInt query accessRule qGet
  cases hq : qLookup q n with
  | none => cases d <;> simp [parseInt]
  | some v => cases d <;> cases v <;> simp [parseInt]

/-- `QueryInt64`: converted with `strconv.ParseInt(v, 10, 64)` -/
theorem queryInt64_rule (q : Query) (n : Bytes) (d : Option Int) :
    queryInt64 q n d = accessRule (qLookup q n) (fun v => (parseInt 64 v).1) d 0 := by
  unfold queryInt64 query accessRule qGet
  cases hq : qLookup q n with
  | none => cases d <;> simp [parseInt]
  | some v => cases d <;> cases v <;> simp [parseInt]

/-- `QueryFloat64`, for EVERY float parser `pf` that returns 0 on the empty text
    (the one recorded assumption about `strconv.ParseFloat`) -/
theorem queryFloat64_rule (pf : Bytes → UInt64) (h0 : pf [] = 0) (q : Query) (n : Bytes) (d : Option UInt64) :
    queryFloat64 pf q n d = accessRule (qLookup q n) pf d 0 := by
  unfold queryFloat64 query accessRule qGet
  cases hq : qLookup q n with
  | none => cases d <;> simp [h0]
  | some v => cases d <;> cases v <;> simp [h0]

/-- `QueryStrings`: the datum is the list of all values of the key; absent → default, else `[]string{}` -/
theorem queryStrings_rule (q : Query) (n : Bytes) (d : Option (List Bytes)) :
    queryStrings q n d = accessRule (qAll q n) id d [] := by
  unfold queryStrings accessRule qAll
  cases hv : qValues q n with
  | nil => simp
  | cons a t => simp

/-- `QueryTrim`: converted with `strings.TrimSpace`; the caller's default is returned unchanged -/
theorem queryTrim_rule (q : Query) (n : Bytes) (d : Option Bytes) :
    queryTrim q n d = accessRule (qLookup q n) trimSpace d [] := by
  unfold queryTrim query accessRule qGet
  cases hq : qLookup q n with
  | none => cases d <;> simp [trimSpace_nil]
  | some v => cases d <;> cases v <;> simp [trimSpace_nil]

/-- `QueryUnescape`: converted with `url.QueryUnescape` ("" when that fails); the caller's default is
    returned unchanged -/
theorem queryUnescape_rule (q : Query) (n : Bytes) (d : Option Bytes) :
    queryUnescapeAcc q n d = accessRule (qLookup q n) (fun v => (queryUnescape v).getD []) d [] := by
  unfold queryUnescapeAcc query accessRule qGet
  cases hq : qLookup q n with
  | none => cases d <;> simp [queryUnescape]
  | some v => cases d <;> cases v <;> simp [queryUnescape]

/-- "a bind parameter that is present is returned … or the zero value" — `Param` (no default exists) -/
theorem param_rule (ps : Params) (n : Bytes) :
    param ps n = accessRule (pLookup ps n) id none [] := by
  unfold param accessRule
  cases pLookup ps n with
  | none => rfl
  | some v => cases v <;> rfl

/-- `ParamInt`: converted with `strconv.Atoi` -/
theorem paramInt_rule (ps : Params) (n : Bytes) :
    paramInt ps n = accessRule (pLookup ps n) (fun v => (atoi v).1) none 0 := by
  unfold paramInt param accessRule
  cases pLookup ps n with
  | none => rfl
  | some v => cases v <;> rfl

/-- `ParamInt64`: converted with `strconv.ParseInt(v, 10, 64)` -/
theorem paramInt64_rule (ps : Params) (n : Bytes) :
    paramInt64 ps n = accessRule (pLookup ps n) (fun v => (parseInt 64 v).1) none 0 := by
  unfold paramInt64 param accessRule
  cases pLookup ps n with
  | none => rfl
  | some v => cases v <;> rfl

/-- "a cookie that is present is returned" — `Cookie`: unescaped with `url.QueryUnescape`, the stored
    value itself when that fails; absent → "" -/
theorem cookie_rule (lines : List Bytes) (n : Bytes) :
    cookie lines n = accessRule (requestCookie lines n) unescapeOrRaw none [] := by
  unfold cookie accessRule
  cases requestCookie lines n with
  | none => rfl
  | some v => cases v <;> rfl

/-! ## 2. "converted with the standard base-10 / boolean parsing rules, zero on malformed text" -/

/-- A well-formed decimal numeral `[+-]?[0-9]+` of ANY length (leading zeros, huge numbers) parses to
    its value clamped to the int64 range; the error class is `range` exactly when clamping happened. -/
theorem parseInt64_decimal {s : Bytes} {v : Int} (h : decimal s = some v) :
    parseInt 64 s = (clamp64 v, if v = clamp64 v then NumErr.ok else NumErr.range) := by
  unfold decimal at h
  split at h
  · rename_i hb
    obtain ⟨hne, hdig⟩ := hb
    have hs := splitSign_ne_nil hne
    injection h with h
    subst h
    unfold parseInt
    simp only [hs, if_false]
    rw [parseUint64_digits hne hdig]
    generalize digitsFrom 0 (splitSign s).2 = D
    have e63 : (2:Nat)^(64-1) = 9223372036854775808 := by decide
    cases (splitSign s).1 <;> by_cases hD : D ≤ 18446744073709551615 <;>
      by_cases h1 : D ≥ 9223372036854775808 <;> by_cases h2 : D > 9223372036854775808 <;>
      simp [hD, h1, h2, e63, clamp64, maxInt64, minInt64] <;> omega
  · simp at h

/-- Malformed text (not `[+-]?[0-9]+`): the result is 0 with a syntax error — EXCEPT when the digit run
    before the first bad byte alone exceeds 2^64-1; then ParseUint has already returned a range error
    and the accessor yields the int64 limit. -/
theorem parseInt64_malformed {s : Bytes} (h : decimal s = none) :
    parseInt 64 s = if digitRunOverflows s then (if (splitSign s).1 then minInt64 else maxInt64, NumErr.range)
                    else (0, NumErr.syntax) := by
  unfold decimal at h
  split at h
  · simp at h
  · rename_i hb
    unfold parseInt
    by_cases hs : s = []
    · subst hs
      have : ¬ digitRunOverflows [] := by decide
      simp [this]
    · simp only [hs, if_false]
      have e64 : (2:Nat)^64 - 1 = 18446744073709551615 := by decide
      have e63 : (2:Nat)^(64-1) = 9223372036854775808 := by decide
      by_cases hne : (splitSign s).2 = []
      · have : ¬ digitRunOverflows s := by unfold digitRunOverflows; simp [hne, digitsFrom]
        simp [hne, parseUint, this]
      · have hd : (splitSign s).2.all isDigit = false := by
          cases hall : (splitSign s).2.all isDigit
          · rfl
          · exact absurd ⟨hne, hall⟩ hb
        unfold parseUint
        simp only [hne, if_false]
        have := loop_malformed max64_lt (splitSign s).2 0 (by omega) hd
        rw [e64] at this ⊢
        rw [this]
        by_cases hT : digitsFrom 0 ((splitSign s).2.takeWhile isDigit) ≤ 18446744073709551615
        · have hov : ¬ digitRunOverflows s := by unfold digitRunOverflows; omega
          simp [hT, hov]
        · have hov : digitRunOverflows s := by unfold digitRunOverflows; omega
          cases (splitSign s).1 <;> simp [hT, hov, e63, maxInt64, minInt64]

/-- "zero on malformed text", under the guard that the leading digit run does not overflow 64 bits -/
theorem malformed_zero_partial {s : Bytes} (h : decimal s = none) (hg : ¬ digitRunOverflows s) :
    (parseInt 64 s).1 = 0 := by
  rw [parseInt64_malformed h]; simp [hg]

/-- Full-strength "zero on malformed text" … -/
def malformed_zero_full : Prop := ∀ s : Bytes, decimal s = none → (parseInt 64 s).1 = 0

/-- … fails on the unchanged code/strconv: `"99999999999999999999x"` gives 9223372036854775807. -/
theorem malformed_zero_full_false : ¬ malformed_zero_full := by
  intro h
  have h1 := h (List.replicate 20 57 ++ [120]) (by decide)
  rw [parseInt64_malformed (by decide)] at h1
  revert h1
  decide

/-- `strconv.Atoi` (fast path and slow path) returns what `ParseInt(s, 10, 64)` returns, for every text -/
theorem atoi_eq_parseInt (s : Bytes) : atoi s = parseInt 64 s := by
  unfold atoi
  split
  · rename_i hl
    have hs : s ≠ [] := by rintro rfl; simp at hl
    have hblen : (splitSign s).2.length ≤ 18 := by
      unfold splitSign
      split
      · simp only [List.length_cons] at hl ⊢; omega
      · simp only [List.length_cons] at hl ⊢; omega
      · show s.length ≤ 18; omega
    by_cases hne : (splitSign s).2 = []
    · simp [hne, parseInt, hs, parseUint]
    · cases hd : (splitSign s).2.all isDigit
      · -- a non-digit within the first 18 bytes: the digit run cannot overflow
        have hnone : decimal s = none := by simp [decimal, hd]
        have hT : ¬ digitRunOverflows s := by
          unfold digitRunOverflows
          have hall : ((splitSign s).2.takeWhile isDigit).all isDigit = true := takeWhile_all _ _
          have hlt := digitsFrom_lt _ hall 0
          have hlen : ((splitSign s).2.takeWhile isDigit).length ≤ 18 :=
            Nat.le_trans (takeWhile_length_le _ _) hblen
          have := Nat.pow_le_pow_right (n := 10) (by omega) hlen
          omega
        rw [parseInt64_malformed hnone]
        simp [hne, hd, hT]
      · have hlt := digitsFrom_lt _ hd 0
        have := Nat.pow_le_pow_right (n := 10) (by omega) hblen
        have hdec : decimal s = some (if (splitSign s).1 then -((digitsFrom 0 (splitSign s).2 : Nat) : Int)
            else ((digitsFrom 0 (splitSign s).2 : Nat) : Int)) := by simp [decimal, hne, hd]
        rw [parseInt64_decimal hdec]
        simp only [hne, hd, if_false, if_true]
        have hfold : List.foldl (fun n c => n * 10 + (c - 48).toNat) 0 (splitSign s).2
            = digitsFrom 0 (splitSign s).2 := rfl
        rw [hfold]
        generalize digitsFrom 0 (splitSign s).2 = D at *
        cases (splitSign s).1 <;> simp [clamp64, maxInt64, minInt64] <;> omega
  · rfl

/-- `ParamInt` therefore follows the same decimal rule as the 64-bit accessors -/
theorem atoi_decimal {s : Bytes} {v : Int} (h : decimal s = some v) : (atoi s).1 = clamp64 v := by
  rw [atoi_eq_parseInt, parseInt64_decimal h]

/-- `strconv.ParseBool` yields true exactly on `1 t T TRUE true True` … -/
theorem parseBool_true (s : Bytes) : (parseBool s).1 = true ↔ s ∈ trueSpellings := by
  unfold parseBool
  split
  · rename_i h; simp [h]
  · rename_i h; split <;> simp [h]

/-- … and reports an error exactly outside the twelve accepted spellings; its value is false then
    ("zero on malformed text") -/
theorem parseBool_error (s : Bytes) :
    (parseBool s).2 = true ↔ (s ∉ trueSpellings ∧ s ∉ falseSpellings) := by
  unfold parseBool
  split
  · rename_i h; simp [h]
  · rename_i h; split <;> rename_i h2 <;> simp [h, h2]

theorem parseBool_malformed_zero (s : Bytes) (h : (parseBool s).2 = true) : (parseBool s).1 = false := by
  unfold parseBool at *
  split
  · rename_i h1; simp [h1] at h
  · split <;> rfl

/-! ## 3. the escape codec and the cookie round trip, for every byte string -/

/-- `url.QueryUnescape(url.QueryEscape(s)) == s, nil` for every byte string -/
theorem codec_roundtrip (s : Bytes) : queryUnescape (queryEscape s) = some s :=
  queryUnescape_queryEscape s

/-- every byte of `QueryEscape(s)` is a valid cookie-value byte and none of blank, comma, double quote,
    semicolon, backslash -/
theorem escape_cookie_safe (s : Bytes) : ∀ b ∈ queryEscape s,
    validCookieValueByte b = true ∧ b ≠ space ∧ b ≠ comma ∧ b ≠ dquote ∧ b ≠ semicolon ∧ b ≠ backslash := by
  intro b hb
  have := all_valid_of_safe (queryEscape_safe s) b hb
  exact ⟨this.1, this.2.1, this.2.2.1, this.2.2.2.1, this.2.2.2.2.1, this.2.2.2.2.2.1⟩

/-- so net/http's sanitiser is the identity on it (drops nothing, adds no quotes) … -/
theorem sanitize_identity (s : Bytes) : sanitizeCookieValue (queryEscape s) false = queryEscape s :=
  sanitize_safe (queryEscape_safe s)

/-- … and the request-side parser returns it unchanged -/
theorem parse_identity (s : Bytes) : parseCookieValue (queryEscape s) true = some (queryEscape s, false) :=
  parse_safe (queryEscape_safe s)

/-- "A cookie value written with SetCookie and sent back by a client is read back byte for byte,
    for every string value" — for every valid cookie name `n` and EVERY byte string `s`:
    SetCookie → `Set-Cookie` header → the client echoes `name=value` → `Cookie` header → `Cookie(n)`. -/
theorem cookie_roundtrip (n : Bytes) (hn : cookieNameValid n = true) (s : Bytes) :
    cookie [clientEcho (setCookieHeader n s)] n = s := by
  rw [clientEcho_setCookie s hn]
  unfold cookie
  rw [requestCookie_line hn (queryEscape_safe s)]
  simp [unescapeOrRaw, queryUnescape_queryEscape]

/-- the instance the harness exercises: cookie name `k` -/
theorem cookie_roundtrip_k (s : Bytes) : cookie [clientEcho (setCookieHeader [107] s)] [107] = s :=
  cookie_roundtrip [107] (by decide) s

/-- Several cookies on ONE response do not disturb each other: for any two DISTINCT valid names — no
    constraint on prefixes: `session` / `session_id`, `a` / `ab` are covered — and any two byte strings,
    writing both with `SetCookie`, letting the client store every `Set-Cookie` line and send them back in one
    `Cookie` header, reads EACH value back byte for byte.  The statement is symmetric in the two writes, so it
    covers both call orders (`cookies_independent_swapped` spells the other one out). -/
theorem cookies_independent (n₁ n₂ : Bytes) (h₁ : cookieNameValid n₁ = true) (h₂ : cookieNameValid n₂ = true)
    (hne : n₁ ≠ n₂) (s₁ s₂ : Bytes) :
    cookie [clientCookieHeader (setCookies [(n₁, s₁), (n₂, s₂)])] n₁ = s₁ ∧
    cookie [clientCookieHeader (setCookies [(n₁, s₁), (n₂, s₂)])] n₂ = s₂ := by
  obtain ⟨hn₁, _⟩ := name_facts h₁
  obtain ⟨hn₂, _⟩ := name_facts h₂
  have hs₁ := queryEscape_safe s₁
  have hs₂ := queryEscape_safe s₂
  rw [clientCookieHeader_two s₁ s₂ h₁ h₂ hne]
  have e₁ : n₁.isEmpty = false := by simp [hn₁]
  have e₂ : n₂.isEmpty = false := by simp [hn₂]
  have hne' : ¬ n₂ = n₁ := fun h => hne h.symm
  constructor
  · unfold cookie requestCookie readCookies
    simp only [e₁, Bool.false_eq_true, if_false, List.flatMap_cons, List.flatMap_nil, List.append_nil]
    rw [readCookieLine_pair h₁ h₂ hs₁ hs₂]
    simp [List.filterMap, readCookiePart_line h₁ hs₁ hn₁, readCookiePart_line h₂ hs₂ hn₁, hne,
      unescapeOrRaw, queryUnescape_queryEscape]
  · unfold cookie requestCookie readCookies
    simp only [e₂, Bool.false_eq_true, if_false, List.flatMap_cons, List.flatMap_nil, List.append_nil]
    rw [readCookieLine_pair h₁ h₂ hs₁ hs₂]
    simp [List.filterMap, readCookiePart_line h₁ hs₁ hn₂, readCookiePart_line h₂ hs₂ hn₂, hne',
      unescapeOrRaw, queryUnescape_queryEscape]

/-- the other call order, as an instance -/
theorem cookies_independent_swapped (n₁ n₂ : Bytes) (h₁ : cookieNameValid n₁ = true)
    (h₂ : cookieNameValid n₂ = true) (hne : n₁ ≠ n₂) (s₁ s₂ : Bytes) :
    cookie [clientCookieHeader (setCookies [(n₂, s₂), (n₁, s₁)])] n₁ = s₁ ∧
    cookie [clientCookieHeader (setCookies [(n₂, s₂), (n₁, s₁)])] n₂ = s₂ :=
  (cookies_independent n₂ n₁ h₂ h₁ (fun h => hne h.symm) s₂ s₁).symm

/-! ## non-vacuity -/

-- escaping really happens and the stored text is read back decoded
example : setCookieHeader [107] [97, 32, 98, 59] = [107, 61, 97, 43, 98, 37, 51, 66] := by decide   -- k=a+b%3B
example : cookie [[107, 61, 97, 43, 98, 37, 51, 66]] [107] = [97, 32, 98, 59] := by decide
-- prefix-related names (`ab` written first, then `a`) on one response, both read back
example : cookie [clientCookieHeader (setCookies [([97, 98], [120, 32]), ([97], [121])])] [97, 98] = [120, 32] ∧
    cookie [clientCookieHeader (setCookies [([97, 98], [120, 32]), ([97], [121])])] [97] = [121] := by decide
-- an equal name written twice: the client keeps the last
example : cookie [clientCookieHeader (setCookies [([97], [49]), ([97], [50])])] [97] = [50] := by decide
-- the rule's three branches are all inhabited
example : query (parseQuery [107, 61, 120]) [107] (some [100]) = [120] := by decide       -- k=x   → "x"
example : query (parseQuery [107, 61]) [107] (some [100]) = [100] := by decide            -- k=    → default
example : query (parseQuery [97, 61, 49]) [107] none = [] := by decide                    -- absent → zero
example : queryInt64 (parseQuery [107, 61, 45, 52, 50]) [107] (some 7) = -42 := by decide
example : decimal [45, 52, 50] = some (-42) := by decide
example : decimal [52, 50, 120] = none ∧ ¬ digitRunOverflows [52, 50, 120] := by decide

/-! ### `RemoteAddr()`: total ("reading request data never panics": the slice `addr[:i]` is always in range),
    header first, port cut at the LAST colon only -/

theorem lastColon_lt (s : Bytes) (i : Nat) (h : lastColon s = some i) : i < s.length := by
  induction s generalizing i with
  | nil => simp [lastColon] at h
  | cons c cs ih =>
    simp only [lastColon] at h
    cases hc : lastColon cs with
    | some j => rw [hc] at h; simp at h; subst h; simpa using ih j hc
    | none =>
      rw [hc] at h
      by_cases h58 : c = 58
      · simp [h58] at h; subst h; simp
      · simp [h58] at h

/-- the Go slice expression `addr[:i]` of `RemoteAddr()` is always within bounds: no panic for any header values and
    any `Request.RemoteAddr` (empty, without a colon, only colons, IPv6 literals, arbitrary bytes) -/
theorem remoteAddr_slice_in_range (raddr : Bytes) (i : Nat) (h : lastColon raddr = some i) : i ≤ raddr.length :=
  Nat.le_of_lt (lastColon_lt raddr i h)

/-- a non-empty `X-Real-IP` wins, then a non-empty `X-Forwarded-For`; both are returned unchanged -/
theorem remoteAddr_headers_first (x f r : Bytes) :
    (x ≠ [] → remoteAddr x f r = x) ∧ (x = [] → f ≠ [] → remoteAddr x f r = f) := by
  refine ⟨fun h => by simp [remoteAddr, h], fun hx hf => by simp [remoteAddr, hx, hf]⟩

/-- without those headers: `host:port` gives `host` when the port holds no colon — the cut is at the LAST colon,
    so the colons of an IPv6 host stay — and an address without any colon is returned whole -/
theorem remoteAddr_strips_port (host port : Bytes) (hp : (58 : UInt8) ∉ port) :
    remoteAddr [] [] (host ++ 58 :: port) = host := by
  have key : ∀ (h : Bytes), lastColon (h ++ 58 :: port) = some h.length := by
    intro h
    induction h with
    | nil =>
      have : lastColon port = none := by
        induction port with
        | nil => rfl
        | cons c cs ih =>
          have hc : c ≠ 58 := fun e => hp (by simp [e])
          have := ih (fun m => hp (by simp [m]))
          simp [lastColon, this, hc]
      simp [lastColon, this]
    | cons c cs ih => simp [lastColon, ih]
  simp [remoteAddr, key]

theorem remoteAddr_no_colon (r : Bytes) (h : (58 : UInt8) ∉ r) : remoteAddr [] [] r = r := by
  have : lastColon r = none := by
    induction r with
    | nil => rfl
    | cons c cs ih =>
      have hc : c ≠ 58 := fun e => h (by simp [e])
      simp [lastColon, ih (fun m => h (by simp [m])), hc]
  simp [remoteAddr, this]

-- "[::1]:2830" → "[::1]";  X-Forwarded-For "10.0.0.1" wins over "1.2.3.4:5";  ":" → "";  "" → ""
example : remoteAddr [] [] [91, 58, 58, 49, 93, 58, 50, 56, 51, 48] = [91, 58, 58, 49, 93] ∧
    remoteAddr [] [49, 48, 46, 48, 46, 48, 46, 49] [49, 46, 50, 46, 51, 46, 52, 58, 53] = [49, 48, 46, 48, 46, 48, 46, 49]
    ∧ remoteAddr [] [] [58] = [] ∧ remoteAddr [] [] [] = [] := by decide

end Flamego.Access
