/-
  Props/C02LeafCode.lean — C02 / C09 at the level of the CODE: `match` of the static, placeholder and regex leaves.

  `Gen/StaticLeafCode.lean`, `Gen/HoleLeafCode.lean`, `Gen/RegexLeafCode.lean` are regenerated from internal/route/leaf.go
  on every run.  For every engine, leaf, segment, parameter map and header set, with `hdrOK` (the leaf's `matchHeader`,
  inherited from the embedded baseLeaf) answering what the model's constraint test answers for the leaf's registration:

    * `static_leaf_refines`, `hole_leaf_refines`, `regex_leaf_refines`: the generated `match` is the model's `leafMatch`
      (Model/Tree.lean) for a leaf of that pattern — the literal compared as a whole, the placeholder taking the whole
      segment, the regex leaf writing every named bind from the submatch of its own group — and in each of them a leaf whose
      header constraints fail does not match and writes nothing (C09: the constraints gate every form).
-/
import Flamego.Gen.StaticLeafCode
import Flamego.Gen.HoleLeafCode
import Flamego.Gen.RegexLeafCode
import Flamego.Props.C02TreeCode
set_option linter.unusedSimpArgs false
set_option linter.unusedVariables false
namespace Flamego.C02LeafCode
open Flamego.GoSem Flamego.C02TreeCode

def mkLeaf (pat : Pat) (hid : Nat) (r : Route) : Leaf :=
  { key := [], pat := pat, hid := hid, route := r, long := true, allStatic := false }

theorem static_leaf_refines (E : Engine) (hok : Nat → Bool) (hdrOK : Gen.StaticLeafCode.staticLeaf → Lib.Header → Bool)
    (l : Gen.StaticLeafCode.staticLeaf) (hid : Nat) (r : Route) (seg : Bytes) (ps ps0 : Params) (header : Lib.Header)
    (hh : hdrOK l header = hok hid) :
    leafMatch E hok (mkLeaf (.static l.literals) hid r) seg ps
      = (if (Gen.StaticLeafCode.«match» hdrOK l seg ps0 header).1 then some ps else none)
    ∧ (Gen.StaticLeafCode.«match» hdrOK l seg ps0 header).2 = l := by
  by_cases h : l.literals = seg <;> cases hk : hok hid <;>
    simp [leafMatch, mkLeaf, Gen.StaticLeafCode.«match», hh, h, hk]

theorem hole_leaf_refines (E : Engine) (hok : Nat → Bool) (hdrOK : Gen.HoleLeafCode.placeholderLeaf → Lib.Header → Bool)
    (l : Gen.HoleLeafCode.placeholderLeaf) (hid : Nat) (r : Route) (seg : Bytes) (ps : Params) (header : Lib.Header)
    (hh : hdrOK l header = hok hid) :
    (match leafMatch E hok (mkLeaf (.hole l.bind) hid r) seg ps with
     | some ps' => (Gen.HoleLeafCode.«match» hdrOK l seg ps header).1 = (true, ps')
     | none => (Gen.HoleLeafCode.«match» hdrOK l seg ps header).1 = (false, ps))
    ∧ (Gen.HoleLeafCode.«match» hdrOK l seg ps header).2 = l := by
  cases hk : hok hid <;> simp [leafMatch, mkLeaf, Gen.HoleLeafCode.«match», hh, hk, mapSet_eq_set]

theorem regex_leaf_refines (E : Engine) (hok : Nat → Bool) (hdrOK : Gen.RegexLeafCode.regexLeaf → Lib.Header → Bool)
    (l : Gen.RegexLeafCode.regexLeaf) (hid : Nat) (r : Route) (seg : Bytes) (ps : Params) (header : Lib.Header)
    (hh : hdrOK l header = hok hid) :
    (match leafMatch E hok (mkLeaf (.regex l.regexp l.binds) hid r) seg ps with
     | some ps' => (Gen.RegexLeafCode.«match» E hdrOK l seg ps header).1 = (true, ps')
     | none => (Gen.RegexLeafCode.«match» E hdrOK l seg ps header).1 = (false, ps))
    ∧ (Gen.RegexLeafCode.«match» E hdrOK l seg ps header).2 = l := by
  cases hf : E.find l.regexp seg with
  | none =>
    have : (0 : Int) < (l.binds.length : Int) + 1 := by omega
    simp [leafMatch, mkLeaf, Gen.RegexLeafCode.«match», Lib.Regexp_FindStringSubmatch, hf, this]
  | some subm =>
    by_cases hl : subm.length < l.binds.length + 1
    · have hl' : (subm.length : Int) < (l.binds.length : Int) + 1 := by omega
      simp [leafMatch, mkLeaf, Gen.RegexLeafCode.«match», Lib.Regexp_FindStringSubmatch, hf, hl, hl']
    · have hl' : ¬ (subm.length : Int) < (l.binds.length : Int) + 1 := by omega
      cases hk : hok hid with
      | false =>
        simp [leafMatch, mkLeaf, Gen.RegexLeafCode.«match», Lib.Regexp_FindStringSubmatch, hf, hl, hl', hh, hk]
      | true =>
        have hloop := binds_loop [] l.binds subm ps (by simp; omega)
        simp only [List.length_nil, Nat.zero_add] at hloop
        simp only [leafMatch, mkLeaf, Gen.RegexLeafCode.«match», Lib.Regexp_FindStringSubmatch, hf, Option.getD_some, hl, hl',
          hh, hk, if_false, decide_false, Bool.not_true, Bool.false_eq_true, GoSem.enum]
        rw [hloop]
        exact ⟨rfl, trivial⟩

end Flamego.C02LeafCode
