/-
  Props/C11App.lean — C11 end to end: "Routes declared through arbitrarily nested Group (with group
  handlers), Combo, Routes, Any and AutoHead behave exactly like the flat list of single-method
  registrations with the concatenated path and concatenated handler list: same chosen route, same
  handler order and same parameters for every request" — as a statement about SERVING.

  Props/C11 proves `interp acc p = flat acc p` for every answer `acc` of the route-tree layer.
  Here the answer is the REAL one, `accReal E` (Model/DslApp): the text goes through the model of
  the route parser (Model/Parser, property C06) and the AST into the method's tree of the router
  built from the earlier registrations (Model/Router, `Router.addMethods`); the registrations a
  program leaves behind are turned into a registration history (`opsOfRegs`), an application
  (`appOfProg`: Before hooks, `Use` middleware, action, not-found chain taken from `base`; handler
  id `k` is the handler program `env k`) and served by `App.serve` (Model/App: Before hooks →
  `Router.serve` with the static fast path → `createContext` → the chain machine of C03).

  Quantifier: every regular-expression engine `E`, every registration program `p`, every handler
  environment `env`, every surrounding application `base`, every request (any method token, any
  byte string as path, any headers).  No guard: the guard of the router theorems (C01/C10:
  routes as the parser produces them, one handle per registration) is PROVED for every history a
  program can leave behind (`opsOfRegs_ok`).
-/
import Flamego.Proofs.DslApp
import Flamego.Props.C11

namespace Flamego.C11App
open Flamego.Dsl (Prog Stmt Reg Group interp flat nest methodsOf)
open Flamego.DslApp Flamego.App Flamego.C07

/-! ### "behave exactly like the flat list of single-method registrations … for every request" -/

/-- The program `flatProg E p` consists of one `Route(method, full path, all handlers)` call per
    entry of the flat expansion of `p` (`Dsl.flat`, the group prefixes handed down as an
    environment).  Run through the same interpreter (`interp`/`exec`: `Route` → `addRoute` → the
    real acceptance) it never panics and registers exactly what `p` registered, in the same order,
    whatever `p` did (groups, Combo, Routes, Any, AutoHead, recovered or final panics). -/
theorem dsl_regs_eq_flat_regs (E : Engine) (p : Prog) :
    (interp (accReal E) (flatProg E p)).regs = (interp (accReal E) p).regs ∧
    (interp (accReal E) (flatProg E p)).err = none := by
  unfold flatProg
  rw [← Dsl.interp_eq_flat]
  exact Dsl.interp_routeProg _ _ (Dsl.interp_regsOK _ p)

/-- **C11 for every request**: the application declared by `p` and the application declared by
    the flat list of `Route` calls answer every request alike — the same Before hooks, the same
    chosen chain (which registration or not-found), the same parameters, the same handlers in the
    same order, the same events, status and body. -/
theorem dsl_serve_eq_flat_serve (E : Engine) (env : Nat → Handler) (base : App) (p : Prog)
    (req : Request) :
    (appOfProg E env base p).serve E req = (appOfProg E env base (flatProg E p)).serve E req := by
  unfold appOfProg
  rw [(dsl_regs_eq_flat_regs E p).1]

/-- the same for a sequence of requests on one instance (serving changes nothing) -/
theorem dsl_serveSeq_eq_flat_serveSeq (E : Engine) (env : Nat → Handler) (base : App) (p : Prog)
    (reqs : List Request) :
    (appOfProg E env base p).serveSeq E reqs = (appOfProg E env base (flatProg E p)).serveSeq E reqs := by
  rw [app_serve_frame, app_serve_frame]
  exact List.map_congr_left (fun q _ => dsl_serve_eq_flat_serve E env base p q)

/-- the guard of the router theorems C01 / C10 holds for whatever a program registers, so every
    one of them applies to `appOfProg`: e.g. the static fast path is invisible -/
theorem dsl_shortcut_invisible (E : Engine) (env : Nat → Handler) (base : App) (p : Prog)
    (req : Request) :
    (appOfProg E env base p).serve E req = (appOfProg E env base p).serveTreeOnly E req :=
  app_shortcut_invisible E _ (opsOfRegs_ok _).1 (opsOfRegs_ok _).2 req

/-- what Driver/Dsl answers a probe request with IS `App.serve` on `appOfProg`: the driver builds
    `appOfRegs` of the registrations `interp (accReal E)` left, and the router of its history once -/
theorem driver_serve_is_app_serve (E : Engine) (env : Nat → Handler) (base : App) (p : Prog)
    (req : Request) :
    (appOfRegs env base (interp (accReal E) p).regs).serveWith
      ((Router.run E (appOfRegs env base (interp (accReal E) p).regs).ops).serve E) req
    = (appOfProg E env base p).serve E req := rfl

/-! ### "same handler order": the chain of a dispatched request -/

/-- When a request starts the chain of registration number `k` of the program, `k` IS one of the
    program's single-method registrations, of the request's method; the chain that runs is the
    application's `Use` middleware, then that registration's handlers — which are (see
    `dsl_chain_layout_nested`) the enclosing groups' handlers, outermost first, then the route's
    own — each reading the parameters the router matched, then the action; slot by slot as
    `C07.app_chain_layout` says, run by the chain machine of C03. -/
theorem dsl_chain_layout (E : Engine) (env : Nat → Handler) (base : App) (p : Prog) (req : Request)
    (hb : AllPass base.befores) (run : Run) (k : Nat)
    (hr : ((appOfProg E env base p).serve E req).runs = [run]) (hw : run.which = .route k) :
    ∃ r, (interp (accReal E) p).regs[k]? = some r ∧
      methodKey r.method = some (base.trim req).method ∧
      run.cfg.chain = (base.middleware ++ r.handlers.map env).map (Handler.inst run.params) ∧
      run.cfg.action = base.action.map (Handler.inst run.params) ∧
      run.st = Chain.serve run.cfg ∧
      ∀ i, run.cfg.slot i =
        if i < base.middleware.length then (base.middleware[i]?).map (Handler.inst run.params)
        else if i < base.middleware.length + r.handlers.length then
          ((r.handlers.map env)[i - base.middleware.length]?).map (Handler.inst run.params)
        else if i = base.middleware.length + r.handlers.length then
          base.action.map (Handler.inst run.params)
        else none := by
  obtain ⟨l, ps, ho, hl, hps, hcfg, hst⟩ := serve_route_run E (appOfProg E env base p) req hb run k hr hw
  obtain ⟨r, ast, hr1, hr2, _, _⟩ :=
    serve_handler_reg E (interp (accReal E) p).regs (Dsl.interp_regsOK _ p) _ l ps ho
  rw [hl] at hr1
  have hh : (appOfProg E env base p).handlersOf k = r.handlers.map env := by
    simp [appOfProg, appOfRegs, handlerIds, hr1]
  rw [hh] at hcfg
  refine ⟨r, hr1, hr2, ?_, ?_, hst, ?_⟩
  · rw [hcfg, hps]; exact cfgFor_chain _ _ _ _
  · rw [hcfg, hps]; rfl
  · intro i
    rw [hcfg, hps, app_chain_layout]
    simp only [List.length_map]
    rfl

/-- "(outer group handlers first, then inner, then the route's own)": a statement `s` nested in
    the groups `gs` (outermost first) anywhere in a program whose earlier part ran to its end.  A
    request that starts the chain of one of the registrations made by `s` runs the middleware, then
    the handlers of g₁, …, of gₙ, then what `s` itself contributes (`own`: inner groups of `s`,
    Combo's common handlers, the route's own), then the action; and the registration's path
    starts with g₁.path ++ … ++ gₙ.path. -/
theorem dsl_chain_layout_nested (E : Engine) (env : Nat → Handler) (base : App)
    (pre post : Prog) (gs : List Group) (s : Stmt) (req : Request)
    (hpre : (interp (accReal E) pre).err = none)
    (hb : AllPass base.befores) (run : Run) (k : Nat)
    (hr : ((appOfProg E env base (pre ++ nest gs s :: post)).serve E req).runs = [run])
    (hw : run.which = .route k)
    (hlo : (interp (accReal E) pre).regs.length ≤ k)
    (hhi : k < (interp (accReal E) (pre ++ [nest gs s])).regs.length) :
    ∃ r own, (interp (accReal E) (pre ++ nest gs s :: post)).regs[k]? = some r ∧
      r.handlers = (gs.map Group.handlers).flatten ++ own ∧
      (gs.map Group.path).flatten <+: r.path ∧
      run.cfg.chain = (base.middleware ++ ((gs.map Group.handlers).flatten.map env ++ own.map env)).map
        (Handler.inst run.params) ∧
      run.cfg.action = base.action.map (Handler.inst run.params) := by
  obtain ⟨r, hr1, _, hc, ha, _, _⟩ := dsl_chain_layout E env base _ req hb run k hr hw
  obtain ⟨new, later, h1, h2, h3⟩ := Dsl.nested_regs (accReal E) pre post gs s hpre
  rw [h2, List.length_append] at hhi
  have hmem : r ∈ new := by
    rw [h1, List.append_assoc, List.getElem?_append_right hlo,
      List.getElem?_append_left (by omega)] at hr1
    exact List.mem_of_getElem? hr1
  obtain ⟨hp, own, hown⟩ := h3 r hmem
  refine ⟨r, own, hr1, hown.symm, hp, ?_, ha⟩
  rw [hc, ← hown]
  simp only [List.map_append]

/-- `C11.handlers_outer_first` read for serving: a call nested in groups is SERVED exactly as the
    same call made outside any group with the concatenated path and the concatenated handlers -/
theorem dsl_nest_serve_eq (E : Engine) (env : Nat → Handler) (base : App) (gs : List Group)
    (s : Stmt) (hc : s.isCall = true) (req : Request) :
    (appOfProg E env base [nest gs s]).serve E req =
      (appOfProg E env base
        [s.inEnv ⟨(gs.map Group.path).flatten, (gs.map Group.handlers).flatten⟩]).serve E req := by
  unfold appOfProg
  rw [Dsl.handlers_outer_first (accReal E) gs s hc]

/-! ### "same chosen route": which requests are dispatched -/

/-- **`C01.serve_dispatch_iff` for DSL-declared routes**: a request is dispatched to a route
    handler iff some single-method registration the program left behind (number `k`: method text,
    concatenated path text) is of the request's method, and its path text — parsed — has a form
    (long, or short when the last segment is optional) that admits the request path.  Registrations
    refused by the parser or the tree are not in the list and admit nothing. -/
theorem dsl_dispatch_iff (E : Engine) (env : Nat → Handler) (base : App) (p : Prog) (req : Request) :
    (∃ l ps, (Router.run E (appOfProg E env base p).ops).serve E req = .handler l ps) ↔
      ∃ k r ast, (interp (accReal E) p).regs[k]? = some r ∧ methodKey r.method = some req.method ∧
        parse r.path = some ast ∧
        ∃ f ∈ formsOfRoute E ast k, f.Admits E (fun _ => true) (C01.segsOf req.path) := by
  constructor
  · rintro ⟨l, ps, h⟩
    obtain ⟨r, ast, h1, h2, h3, f, hf, _, ha⟩ :=
      serve_handler_reg E (interp (accReal E) p).regs (Dsl.interp_regsOK _ p) req l ps h
    exact ⟨l.hid, r, ast, h1, h2, h3, f, hf, ha⟩
  · rintro ⟨k, r, ast, h1, h2, h3, f, hf, ha⟩
    exact serve_of_admitting E _ (Dsl.interp_regsOK _ p) req k r ast h1 h2 h3 f hf ha

/-- … and the chain started is that of a registration that itself admits the request: the leaf
    chosen carries the number of a registration of the request's method whose form (long or short,
    as the leaf says) admits the path -/
theorem dsl_dispatch_sound (E : Engine) (env : Nat → Handler) (base : App) (p : Prog) (req : Request)
    (l : Leaf) (ps : Params)
    (h : (Router.run E (appOfProg E env base p).ops).serve E req = .handler l ps) :
    ∃ r ast, (interp (accReal E) p).regs[l.hid]? = some r ∧ methodKey r.method = some req.method ∧
      parse r.path = some ast ∧
      ∃ f ∈ formsOfRoute E ast l.hid, f.long = l.long ∧
        f.Admits E (fun _ => true) (C01.segsOf req.path) :=
  serve_handler_reg E (interp (accReal E) p).regs (Dsl.interp_regsOK _ p) req l ps h

/-- at the level of `Flame.ServeHTTP`: the started chain is a registration's iff a registration
    admits the (prefix-trimmed) request, otherwise it is `middleware ++ notFound` -/
theorem dsl_app_dispatch_iff (E : Engine) (env : Nat → Handler) (base : App) (p : Prog) (req : Request)
    (hb : AllPass base.befores) :
    (∃ run k, ((appOfProg E env base p).serve E req).runs = [run] ∧ run.which = .route k) ↔
      ∃ k r ast, (interp (accReal E) p).regs[k]? = some r ∧
        methodKey r.method = some (base.trim req).method ∧ parse r.path = some ast ∧
        ∃ f ∈ formsOfRoute E ast k, f.Admits E (fun _ => true) (C01.segsOf (base.trim req).path) := by
  rw [← dsl_dispatch_iff E env base p (base.trim req)]
  obtain ⟨run, hr, _, _, _, _, hcase⟩ := app_one_chain E (appOfProg E env base p) req hb
  constructor
  · rintro ⟨run', k, hr', hw⟩
    rw [hr] at hr'
    have : run = run' := by simpa using hr'
    subst this
    rcases hcase with ⟨l, ps, ho, _⟩ | ⟨_, hnf, _⟩
    · exact ⟨l, ps, ho⟩
    · rw [hnf] at hw; cases hw
  · rintro ⟨l, ps, ho⟩
    rcases hcase with ⟨l', ps', _, hw, _⟩ | ⟨ho', _⟩
    · exact ⟨run, l'.hid, hr, hw⟩
    · have : (Router.run E (appOfProg E env base p).ops).serve E ((appOfProg E env base p).trim req)
          = .handler l ps := ho
      rw [this] at ho'; cases ho'

/-! ### refused registrations -/

/-- A recovered statement that registers nothing and leaves the AutoHead flag alone — a `Route`
    refused by the parser or the tree, a Combo repeating a verb at once, a panic of the caller's
    own — is invisible: every request is served as if the statement were not in the program. -/
theorem dsl_recovered_noop_invisible (E : Engine) (env : Nat → Handler) (base : App)
    (pre post : Prog) (s : Stmt) (req : Request)
    (hregs : (Dsl.exec (accReal E) s (Dsl.execList (accReal E) pre {}).1).1.regs
      = (Dsl.execList (accReal E) pre {}).1.regs)
    (hah : (Dsl.exec (accReal E) s (Dsl.execList (accReal E) pre {}).1).1.autoHead
      = (Dsl.execList (accReal E) pre {}).1.autoHead) :
    (appOfProg E env base (pre ++ .recover [s] :: post)).serve E req
      = (appOfProg E env base (pre ++ post)).serve E req := by
  unfold appOfProg
  rw [(Dsl.recover_noop_regs (accReal E) pre post s hregs hah).1]

/-- **a refused registration is invisible**: a top-level `Route(method, path, hs)` whose first
    single-method registration `accReal` refuses after what `pre` registered (the text does not
    parse, or `AddRoute` reports a duplicate …) panics; once the caller has recovered, every
    request is served exactly as if the call had never been made — nothing of it is in a tree, in
    the fast-path table or in a handler list. -/
theorem dsl_rejected_invisible (E : Engine) (env : Nat → Handler) (base : App)
    (pre post : Prog) (m path : Bytes) (hs : List Nat) (req : Request)
    (href : ∀ m' ∈ (methodsOf m).head?,
      accReal E (interp (accReal E) pre).regs ⟨m', path, hs⟩ = false) :
    (appOfProg E env base (pre ++ .recover [.route m path hs] :: post)).serve E req
      = (appOfProg E env base (pre ++ post)).serve E req := by
  have hg0 : (Dsl.execList (accReal E) pre {}).1.groups = [] := by rw [Dsl.execList_eq]; rfl
  have key : (Dsl.exec (accReal E) (.route m path hs) (Dsl.execList (accReal E) pre {}).1).1
      = (Dsl.execList (accReal E) pre {}).1 := by
    simp only [interp] at href
    generalize Dsl.execList (accReal E) pre {} = o at href hg0
    obtain ⟨st, e⟩ := o
    simp only at href hg0
    simp only [Dsl.exec, Dsl.routeCall, hg0, Dsl.groupPrefix, List.foldl_nil, List.nil_append,
      Dsl.addRoute]
    cases hm : methodsOf m with
    | nil => rfl
    | cons m' ms =>
      have := href m' (by simp [hm])
      simp only [Dsl.addEach, this]
      rfl
  exact dsl_recovered_noop_invisible E env base pre post _ req (by rw [key]) (by rw [key])

/-- a sufficient condition: a path text outside the route grammar is refused whatever the method
    and whatever was registered before -/
theorem unparsable_refused (E : Engine) (regs : List Reg) (r : Reg) (h : parse r.path = none) :
    accReal E regs r = false := by
  simp [accReal, h]

/-! ### non-vacuity: a nested program with groups, a Combo, Any, AutoHead, an optional segment and
    a refused duplicate, evaluated with the toy engine `C07.appE` -/

def demo : Prog := [
  .autoHead true,
  .group (Dsl.B "/g") [1] [
    .group (Dsl.B "/{x}") [2] [
      .verb .get (Dsl.B "/a") [3],
      .combo (Dsl.B "/c") [4] [(.post, [5]), (.put, [6])] ],
    .group (Dsl.B "/h") [7] [ .combo (Dsl.B "/c") [4] [(.post, [5])] ],
    .any (Dsl.B "/s/?o") [8],
    .recover [.verb .post (Dsl.B "/{x}/c") [9]] ],
  .autoHead false,
  .verb .get (Dsl.B "/after") [10] ]

/-- a recording middleware that goes on, handlers that echo the `route` parameter, an action -/
def demoBase : App :=
  { middleware := [.plain { acts := [.act .next] }],
    action := some (.plain { acts := [], ret := .ret .nothing }) }

def demoEnv : Nat → Handler := fun k =>
  if k = 5 then .plain { acts := [.echo (Dsl.B "route")] } else .plain { acts := [] }

/-- what the real acceptance (model parser + model route trees) lets the program register:
    AutoHead doubles the first `Get` only, the duplicate `POST /g/{x}/c` is refused (recovered) -/
example : ((interp (accReal appE) demo).regs, (interp (accReal appE) demo).caught,
      (interp (accReal appE) demo).err) =
    ([⟨Dsl.B "GET", Dsl.B "/g/{x}/a", [1, 2, 3]⟩, ⟨Dsl.B "HEAD", Dsl.B "/g/{x}/a", [1, 2, 3]⟩,
      ⟨Dsl.B "POST", Dsl.B "/g/{x}/c", [1, 2, 4, 5]⟩, ⟨Dsl.B "PUT", Dsl.B "/g/{x}/c", [1, 2, 4, 6]⟩,
      ⟨Dsl.B "POST", Dsl.B "/g/h/c", [1, 7, 4, 5]⟩,
      ⟨Dsl.B "GET", Dsl.B "/g/s/?o", [1, 8]⟩, ⟨Dsl.B "POST", Dsl.B "/g/s/?o", [1, 8]⟩,
      ⟨Dsl.B "PUT", Dsl.B "/g/s/?o", [1, 8]⟩, ⟨Dsl.B "DELETE", Dsl.B "/g/s/?o", [1, 8]⟩,
      ⟨Dsl.B "PATCH", Dsl.B "/g/s/?o", [1, 8]⟩, ⟨Dsl.B "OPTIONS", Dsl.B "/g/s/?o", [1, 8]⟩,
      ⟨Dsl.B "HEAD", Dsl.B "/g/s/?o", [1, 8]⟩, ⟨Dsl.B "CONNECT", Dsl.B "/g/s/?o", [1, 8]⟩,
      ⟨Dsl.B "TRACE", Dsl.B "/g/s/?o", [1, 8]⟩,
      ⟨Dsl.B "GET", Dsl.B "/after", [10]⟩], [.rejected], none) := by decide +kernel

/-- the flat program is 15 `Route` calls; run through `exec` it registers the same list -/
example : (flatProg appE demo).length = 15 ∧
    (interp (accReal appE) (flatProg appE demo)).regs = (interp (accReal appE) demo).regs := by
  decide +kernel

/-- `POST /g/h/c` (a Combo inside two groups, fully static: answered by the fast path): the
    chain of registration 4 — middleware, then handlers 1 (outer group), 7 (inner group), 4 (Combo's
    common handler), 5 (the method's own), each entered once in this order — with the `route`
    parameter; the same on the application declared by the flat program -/
example : observe (interp (accReal appE) demo).regs
      ((appOfProg appE demoEnv demoBase demo).serve appE ⟨"POST", Dsl.B "/g/h/c", []⟩) 1
    = some (4, [1, 7, 4, 5], Dsl.B "/g/h/c") := by decide +kernel

example : observe (interp (accReal appE) (flatProg appE demo)).regs
      ((appOfProg appE demoEnv demoBase (flatProg appE demo)).serve appE ⟨"POST", Dsl.B "/g/h/c", []⟩) 1
    = some (4, [1, 7, 4, 5], Dsl.B "/g/h/c") := by decide +kernel

/-- … and handler 5 wrote the 6 bytes of the `route` parameter "/g/h/c" -/
example : ((appOfProg appE demoEnv demoBase demo).serve appE ⟨"POST", Dsl.B "/g/h/c", []⟩).runs.map
      (fun r => (r.which, r.st.w.status, r.st.out)) = [(.route 4, 200, [.xs 6])] := by decide +kernel

/-- `GET /after` is registered, `HEAD /after` is not (AutoHead was switched off before it):
    the HEAD request starts the not-found chain -/
example : observe (interp (accReal appE) demo).regs
      ((appOfProg appE demoEnv demoBase demo).serve appE ⟨"GET", Dsl.B "/after", []⟩) 1
    = some (14, [10], Dsl.B "/after") := by decide +kernel

example : (Router.run appE (appOfProg appE demoEnv demoBase demo).ops).serve appE
    ⟨"HEAD", Dsl.B "/after", []⟩ = .notFound := by
  have hmiss : assocGet (Router.run appE (appOfProg appE demoEnv demoBase demo).ops).statics
      ("HEAD", Dsl.B "/after") = none := by decide +kernel
  unfold Router.serve
  rw [hmiss]
  exact serveTreeOnly_single_notFound appE _ ⟨"HEAD", Dsl.B "/after", []⟩ (Dsl.B "after")
    (by decide +kernel) (by decide +kernel)

/-- `dsl_dispatch_iff` applies to a request the tree matcher decides: `GET /g/zz/a` is admitted by
    the (only) form of registration 0, `/g/{x}/a` declared as `Get("/a")` inside `Group("/{x}")`
    inside `Group("/g")` … -/
example : ∃ l ps, (Router.run appE (appOfProg appE demoEnv demoBase demo).ops).serve appE
    ⟨"GET", Dsl.B "/g/zz/a", []⟩ = .handler l ps := by
  refine (dsl_dispatch_iff appE demoEnv demoBase demo ⟨"GET", Dsl.B "/g/zz/a", []⟩).mpr ?_
  refine ⟨0, ⟨Dsl.B "GET", Dsl.B "/g/{x}/a", [1, 2, 3]⟩,
    ⟨[⟨false, [.ident (Dsl.B "g")]⟩, ⟨false, [.bind (Dsl.B "x")]⟩, ⟨false, [.ident (Dsl.B "a")]⟩]⟩,
    by decide +kernel, by decide +kernel, by decide +kernel,
    ⟨[.static (Dsl.B "g"), .hole (Dsl.B "x"), .static (Dsl.B "a")], 0, true⟩, by decide +kernel, ?_, rfl⟩
  have : C01.segsOf (Dsl.B "/g/zz/a") = [Dsl.B "g", Dsl.B "zz", Dsl.B "a"] := by decide +kernel
  show Consumes appE _ (C01.segsOf (Dsl.B "/g/zz/a"))
  rw [this]
  exact .innerOne _ _ _ _ (by simp) rfl (by decide +kernel)
    (.innerOne _ _ _ _ (by simp) rfl rfl (.lastOne _ _ rfl (by decide +kernel)))

/-- … and `TRACE /g/s` by the SHORT form of registration 13, `Any("/s/?o")` inside `Group("/g")`
    (the optional last segment left out) -/
example : ∃ l ps, (Router.run appE (appOfProg appE demoEnv demoBase demo).ops).serve appE
    ⟨"TRACE", Dsl.B "/g/s", []⟩ = .handler l ps := by
  refine (dsl_dispatch_iff appE demoEnv demoBase demo ⟨"TRACE", Dsl.B "/g/s", []⟩).mpr ?_
  refine ⟨13, ⟨Dsl.B "TRACE", Dsl.B "/g/s/?o", [1, 8]⟩,
    ⟨[⟨false, [.ident (Dsl.B "g")]⟩, ⟨false, [.ident (Dsl.B "s")]⟩, ⟨true, [.ident (Dsl.B "o")]⟩]⟩,
    by decide +kernel, by decide +kernel, by decide +kernel,
    ⟨[.static (Dsl.B "g"), .static (Dsl.B "s")], 13, false⟩, by decide +kernel, ?_, rfl⟩
  have : C01.segsOf (Dsl.B "/g/s") = [Dsl.B "g", Dsl.B "s"] := by decide +kernel
  show Consumes appE _ (C01.segsOf (Dsl.B "/g/s"))
  rw [this]
  exact .innerOne _ _ _ _ (by simp) rfl (by decide +kernel) (.lastOne _ _ rfl (by decide +kernel))

/-- the hypotheses of `dsl_chain_layout` are satisfiable for a tree-matched request: `GET /g/zz/a`
    starts ONE chain, a registration's, and it is middleware ++ that registration's handlers -/
example : ∃ run k r, ((appOfProg appE demoEnv demoBase demo).serve appE ⟨"GET", Dsl.B "/g/zz/a", []⟩).runs = [run] ∧
    run.which = .route k ∧ (interp (accReal appE) demo).regs[k]? = some r ∧
    run.cfg.chain = (demoBase.middleware ++ r.handlers.map demoEnv).map (Handler.inst run.params) := by
  have hb : AllPass demoBase.befores := by decide
  have hd : ∃ l ps, (Router.run appE (appOfProg appE demoEnv demoBase demo).ops).serve appE
      (demoBase.trim ⟨"GET", Dsl.B "/g/zz/a", []⟩) = .handler l ps := by
    refine (dsl_dispatch_iff appE demoEnv demoBase demo _).mpr ?_
    refine ⟨0, ⟨Dsl.B "GET", Dsl.B "/g/{x}/a", [1, 2, 3]⟩,
      ⟨[⟨false, [.ident (Dsl.B "g")]⟩, ⟨false, [.bind (Dsl.B "x")]⟩, ⟨false, [.ident (Dsl.B "a")]⟩]⟩,
      by decide +kernel, by decide +kernel, by decide +kernel,
      ⟨[.static (Dsl.B "g"), .hole (Dsl.B "x"), .static (Dsl.B "a")], 0, true⟩, by decide +kernel, ?_, rfl⟩
    have : C01.segsOf (demoBase.trim ⟨"GET", Dsl.B "/g/zz/a", []⟩).path = [Dsl.B "g", Dsl.B "zz", Dsl.B "a"] := by
      decide +kernel
    show Consumes appE _ (C01.segsOf (demoBase.trim ⟨"GET", Dsl.B "/g/zz/a", []⟩).path)
    rw [this]
    exact .innerOne _ _ _ _ (by simp) rfl (by decide +kernel)
      (.innerOne _ _ _ _ (by simp) rfl rfl (.lastOne _ _ rfl (by decide +kernel)))
  obtain ⟨run, k, hr, hw⟩ :=
    (dsl_app_dispatch_iff appE demoEnv demoBase demo ⟨"GET", Dsl.B "/g/zz/a", []⟩ hb).mpr
      ((dsl_dispatch_iff appE demoEnv demoBase demo _).mp hd)
  obtain ⟨r, h1, _, h2, _⟩ := dsl_chain_layout appE demoEnv demoBase demo _ hb run k hr hw
  exact ⟨run, k, r, hr, hw, h1, h2⟩

/-- the hypothesis of `dsl_rejected_invisible` is satisfiable: after the registrations made so far,
    a second `POST /g/{x}/c` is refused by the tree, a text outside the grammar by the parser -/
example : accReal appE ((interp (accReal appE) demo).regs.take 5) ⟨Dsl.B "POST", Dsl.B "/g/{x}/c", [1, 9]⟩ = false ∧
    accReal appE [] ⟨Dsl.B "GET", Dsl.B "/a/{x", [1]⟩ = false ∧
    accReal appE [] ⟨Dsl.B "GET", Dsl.B "/a/{x}", [1]⟩ = true := by decide +kernel

/-- `dsl_chain_layout_nested` applies: a Combo nested in the groups `/g` [1] and `/h` [7], after an
    `AutoHead(true)` and before another route; `POST /g/h/c` starts the chain of registration 0 and
    it is middleware, then 1, 7 (the groups, outermost first), then what the Combo contributes -/
def demoN : Prog :=
  [.autoHead true] ++ nest [⟨Dsl.B "/g", [1]⟩, ⟨Dsl.B "/h", [7]⟩] (.combo (Dsl.B "/c") [4] [(.post, [5])])
    :: [.verb .get (Dsl.B "/after") [10]]

example : ∃ run r own,
    ((appOfProg appE demoEnv demoBase demoN).serve appE ⟨"POST", Dsl.B "/g/h/c", []⟩).runs = [run] ∧
    (interp (accReal appE) demoN).regs[0]? = some r ∧ r.handlers = [1, 7] ++ own ∧
    run.cfg.chain = (demoBase.middleware ++ ([1, 7].map demoEnv ++ own.map demoEnv)).map
      (Handler.inst run.params) := by
  have hb : AllPass demoBase.befores := by decide
  obtain ⟨run, hr, _⟩ := app_one_chain appE (appOfProg appE demoEnv demoBase demoN)
    ⟨"POST", Dsl.B "/g/h/c", []⟩ hb
  have hw : run.which = .route 0 := by
    have h : ((appOfProg appE demoEnv demoBase demoN).serve appE ⟨"POST", Dsl.B "/g/h/c", []⟩).runs.map
        (·.which) = [.route 0] := by decide +kernel
    rw [hr] at h
    simpa using h
  obtain ⟨r, own, h1, h2, _, h3, _⟩ := dsl_chain_layout_nested appE demoEnv demoBase [.autoHead true]
    [.verb .get (Dsl.B "/after") [10]] [⟨Dsl.B "/g", [1]⟩, ⟨Dsl.B "/h", [7]⟩]
    (.combo (Dsl.B "/c") [4] [(.post, [5])]) ⟨"POST", Dsl.B "/g/h/c", []⟩ (by decide +kernel) hb run 0 hr hw
    (by decide +kernel) (by decide +kernel)
  exact ⟨run, r, own, hr, h1, by simpa using h2, by simpa using h3⟩

end Flamego.C11App
