/-
  Props/C01Router.lean — C01 at the level of `Router.ServeHTTP` (what `Flame.ServeHTTP` delegates to):
  for every history of registrations / Headers() / Name() calls and every request, a route handler
  runs iff an accepted registration of the request's method has a form that admits the path and whose
  header constraints hold.  Combines C01 (tree), C10 (`shortcut_unobservable`: the fast path changes
  nothing) and Proofs/RouterBuild (every reachable method tree is a built tree).
  (Kept apart from Props/C01.lean only because of the import order: C10's proofs build on C09's,
  which build on C01's.)
-/
import Flamego.Props.C10
import Flamego.Proofs.RouterBuild

namespace Flamego.C01
open Flamego.C10

/-- **`ServeHTTP` dispatches iff admitted** (fast path included, unknown methods included) -/
theorem serve_dispatch_iff (E : Engine) (ops : List RouterOp)
    (hparsed : ∀ hr ∈ addPairs ops, ∀ s ∈ hr.2.segs, ParsedSeg s = true)
    (hdistinct : ((addPairs ops).map Prod.fst).Nodup) (req : Request) :
    (∃ l ps, (Router.run E ops).serve E req = .handler l ps) ↔
      ∃ h : List (Route × Nat), (∀ rh ∈ h, (rh.2, rh.1) ∈ addPairs ops) ∧
        assocGet (Router.run E ops).trees req.method = some (build E h) ∧
        ∃ rh ∈ accepted E h, ∃ f ∈ formsOfRoute E rh.1 rh.2,
          f.Admits E ((Router.run E ops).hok E req.hdrs) (segsOf req.path) := by
  rw [shortcut_unobservable E ops hparsed hdistinct req]
  cases ht : assocGet (Router.run E ops).trees req.method with
  | none =>
    constructor
    · rintro ⟨l, ps, h⟩
      simp [Router.serveTreeOnly, ht] at h
    · rintro ⟨h, _, hb, _⟩
      cases hb
  | some t =>
    obtain ⟨h, hb, hsub⟩ := run_trees_built E ops req.method t ht
    have hP : ∀ rh ∈ h, ∀ s ∈ rh.1.segs, ParsedSeg s = true :=
      fun rh hrh s hs => hparsed (rh.2, rh.1) (hsub rh hrh) s hs
    rw [router_tree_dispatch E _ req t ht, hb, dispatch_iff E _ h hP req.path]
    constructor
    · rintro ⟨rh, hrh, f, hf, ha⟩
      exact ⟨h, hsub, rfl, rh, hrh, f, hf, ha⟩
    · rintro ⟨h', _, hb', rh, hrh, f, hf, ha⟩
      have : build E h' = build E h := by
        have := hb'
        simp only [Option.some.injEq] at this
        exact this.symm
      -- the admitting registration is accepted in `h'`; transport along the equal trees
      have hd := (dispatch_iff E ((Router.run E ops).hok E req.hdrs) h' ?_ req.path).mpr ⟨rh, hrh, f, hf, ha⟩
      · rw [this] at hd
        exact (dispatch_iff E _ h hP req.path).mp hd
      · intro rh' hrh' s hs
        rename_i hsub'
        exact hparsed (rh'.2, rh'.1) (hsub' rh' hrh') s hs

/-- an unknown method never reaches a route: the not-found chain takes it -/
theorem serve_unknown_method (E : Engine) (ops : List RouterOp)
    (hparsed : ∀ hr ∈ addPairs ops, ∀ s ∈ hr.2.segs, ParsedSeg s = true)
    (hdistinct : ((addPairs ops).map Prod.fst).Nodup) (req : Request)
    (hm : assocGet (Router.run E ops).trees req.method = none) :
    ∀ l ps, (Router.run E ops).serve E req ≠ .handler l ps := by
  intro l ps h
  rw [shortcut_unobservable E ops hparsed hdistinct req] at h
  simp [Router.serveTreeOnly, hm] at h

end Flamego.C01
