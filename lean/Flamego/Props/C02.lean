/-
  Props/C02.lean — Bind parameters are exactly what the route pattern captured.

  Quantifier: every regular-expression engine `E`, every header predicate `hok`, every tree
  registration can build (`build E h`, any history `h`) — or any tree with the registration
  invariant `BindsDistinct` — every request path (any byte string), every params list the search
  starts with.

  Vocabulary (Proofs/Params.lean): `Walk E hok subs leaves s rest` is `Spec.Dispatch.Reach` as data
  (the accepting root-to-leaf walk: same four constructors, same fields); `w.endLeaf` the leaf it
  ends in; `w.steps` which pattern took which segments; `w.binds = w.steps.flatMap (Step.caps E)`
  the *captured values* read off the walk, root to leaf:
      placeholder node/leaf            ↦ (bind, that one segment)
      match-all child taking s::skipped ↦ (bind, joinSlash (s :: skipped))
      final match-all leaf             ↦ (bind, joinSlash (all remaining segments))
      match-all leaf at the last segment ↦ (bind, s)
      regex node/leaf                  ↦ (bindᵢ, submatchᵢ₊₁) for the NAMED groups of `E.find pattern s`
      static                           ↦ nothing
  `w.writes` lists the same pairs in the order the code writes them (a match-all child writes
  after the search below it returned).

  Proof structure: Proofs/Params.lean (`match_frame`: a search below a node never touches a key
  an ancestor binds; `match_winner`: after a hit every captured pair of the winning walk is what
  `get?` returns), Proofs/ParamsAdd.lean (`build_bindsDistinct`: the `ancBinds` checks of
  registration keep bind names distinct along every root-to-leaf path), Proofs/ParamsUrl.lean
  (the round trip through `urlPath`, on top of C12), Proofs/ParamsRegex.lean (`EngineLaws`).
-/
import Flamego.Proofs.ParamsAdd
import Flamego.Proofs.ParamsUrl
import Flamego.Proofs.ParamsRegex
import Flamego.Props.C01

namespace Flamego.C02
open C01 (segsOf)

/-! ### 1. the reserved parameter `route` -/

/-- "the reserved parameter `route` is the canonical text of the matched route" — on both
    dispatch paths (fast path and tree), for every router state, engine and request. -/
theorem route_param_canonical (E : Engine) (R : Router) (req : Request) (l : Leaf) (ps : Params)
    (h : R.serve E req = .handler l ps) : ps.get? (B "route") = some l.route.render := by
  unfold Router.serve at h
  split at h
  · injection h with h1 h2
    subst h1 h2
    simp [Params.get?, List.find?]
  · unfold Router.serveTreeOnly at h
    split at h
    · cases h
    · split at h
      · cases h
      · injection h with h1 h2
        subst h1 h2
        exact Params.get?_set_same _ _ _

/-! ### 2. the values of the winner

"the bind-parameter values its handlers receive are exactly the substrings of the request path
captured by that route's pattern … and no value belongs to a different bind of the same route" -/

/-- **`params_of_winner`** (matcher level, raw values, any starting params).  If the search below
    a node returns leaf `l` with params `ps'`, there is an accepting walk `w` ending in `l` — the
    one the matcher took; by `C01.dispatch_first` its leaf is the first in priority order — with:
    * every bind of the walk is bound once on the walk (`Nodup`), and is no ancestor's bind;
    * for every captured pair `(b, v)` of the walk, `ps'.get? b = some v`: the winner's write to
      `b` is the last write to `b` of the whole search, so a stale value left by an abandoned
      branch never shadows it, and no value of another bind of the route is delivered under `b`;
    * keys bound by ancestors are untouched.
    Keys that the winning walk does not bind are NOT constrained: an abandoned branch may have
    left values under other names (the doc comment of `Tree.Match` allows extra values; see
    `stale_extra_key` below). -/
theorem params_of_winner (E : Engine) (hok : Nat → Bool) (anc : List Bytes) (subs : List Node)
    (leaves : List Leaf) (hb : BindsOK anc subs leaves) (s : Seg) (rest : List Seg) (ps ps' : Params)
    (l : Leaf) (h : matchNext E hok subs leaves s rest ps = (some l, ps')) :
    ∃ w : Walk E hok subs leaves s rest, w.endLeaf = l ∧
      (w.binds.map (·.1)).Nodup ∧ (∀ b ∈ w.binds.map (·.1), b ∉ anc) ∧
      (∀ b v, (b, v) ∈ w.binds → ps'.get? b = some v) ∧
      (∀ k ∈ anc, ps'.get? k = ps.get? k) := by
  obtain ⟨w, hw, hholds⟩ := (match_winner E hok).1 subs leaves s rest ps anc hb l ps' h
  obtain ⟨h1, h2⟩ := w.binds_keys anc hb
  refine ⟨w, hw, h1, h2, fun b v hbv => hholds (b, v) hbv, fun k hk => ?_⟩
  have := (match_frame E hok).1 subs leaves s rest ps anc hb k hk
  rw [h] at this
  exact this

/-- **`params_trace`** (no invariant at all, any tree).  The params after a successful search are
    the params before it with a list of writes `tr` applied in order (`applyWrites`, last write
    wins — Go's `params[k] = v`), and the writes of the winning walk occur in `tr` in the walk's
    own order: everything else in `tr` is what abandoned branches left behind ("values left by
    abandoned branches stay in the list").  WITHOUT distinct bind names this is all that can be
    said — the literal "`ps'.get? b` is the last value the walk writes for `b`" is false then, see
    `bad_stale_shadows` in §9; WITH them (`params_of_winner`) the winner's write to `b` is the
    last write to `b` in `tr`. -/
theorem params_trace (E : Engine) (hok : Nat → Bool) (subs : List Node) (leaves : List Leaf)
    (s : Seg) (rest : List Seg) (ps ps' : Params) (l : Leaf)
    (h : matchNext E hok subs leaves s rest ps = (some l, ps')) :
    ∃ (w : Walk E hok subs leaves s rest) (tr : List (Bytes × Bytes)), w.endLeaf = l ∧
      ps' = applyWrites tr ps ∧ w.writes.Sublist tr ∧
      ∀ k, ps'.get? k = (match lastW tr k with | some v => some v | none => ps.get? k) := by
  obtain ⟨tr, htr, hw⟩ := (match_trace E hok).1 subs leaves s rest ps (some l) ps' h
  obtain ⟨w, hwl, hsl⟩ := hw l rfl
  exact ⟨w, tr, hwl, htr, hsl, fun k => by rw [htr]; exact get?_applyWrites tr ps k⟩

/-- the order of the writes does not matter for the result: the pairs in code order (`writes`)
    and in root-to-leaf order (`binds`) are the same up to order -/
theorem writes_perm_binds {E : Engine} {hok : Nat → Bool} :
    {subs : List Node} → {leaves : List Leaf} → {s : Seg} → {rest : List Seg} →
    (w : Walk E hok subs leaves s rest) → w.writes.Perm w.binds
  | _, _, _, _, .leaf subs leaves s l hl ha hh => by
    rw [Walk.binds_leaf]; exact List.Perm.refl _
  | _, _, _, _, .sub subs leaves s s' rest' k p cs cl hn hna ha w => by
    rw [Walk.binds_sub]
    exact List.Perm.append_left _ (writes_perm_binds w)
  | _, _, _, _, .allSub subs leaves s rest k b cap cs cl skipped s' rest' heq hn hc w => by
    rw [Walk.binds_allSub]
    exact (List.perm_append_comm).trans (List.Perm.cons _ (writes_perm_binds w))
  | _, _, _, _, .allLeaf subs leaves s s' rest' l b cap hl hp hc hh => by
    rw [Walk.binds_allLeaf]; exact List.Perm.refl _

/-- registration rejects a bind name reused along one route, so every tree it builds has the
    invariant `params_of_winner` needs -/
theorem build_bindsDistinct (E : Engine) (h : List (Route × Nat)) : BindsDistinct (build E h) :=
  Flamego.build_bindsDistinct E h

/-! ### 3. decoding

"… percent-decoded once (left raw if undecodable)" -/

/-- **`decoded_once`** (`Tree.Match` level).  For every tree with distinct bind names along its
    routes: when `Tree.Match` returns `(l, ps)` there is the accepting walk `w` of the request's
    segments ending in `l`, and every bind `b` of the walk is delivered as
    `pathUnescapeOrRaw v`, `v` the raw substring captured for `b`: `url.PathUnescape` applied
    exactly once, the raw text kept when it fails. -/
theorem decoded_once (E : Engine) (hok : Nat → Bool) (t : Node) (hd : BindsDistinct t) (path : Bytes)
    (l : Leaf) (ps : Params) (hm : t.match E hok path = some (l, ps)) :
    ∃ s rest, segsOf path = s :: rest ∧ ∃ w : Walk E hok t.subs t.leaves s rest, w.endLeaf = l ∧
      (w.binds.map (·.1)).Nodup ∧
      ∀ b v, (b, v) ∈ w.binds → ps.get? b = some (pathUnescapeOrRaw v) := by
  unfold Node.match at hm
  cases hs : splitSlash (trimLeftSlash path) with
  | nil => exact absurd hs (splitSlash_ne_nil _)
  | cons s rest =>
    rw [hs] at hm
    simp only at hm
    cases hmn : matchNext E hok t.subs t.leaves s rest [] with
    | mk r ps0 =>
      rw [hmn] at hm
      cases r with
      | none => simp at hm
      | some l0 =>
        simp only [Option.some.injEq, Prod.mk.injEq] at hm
        obtain ⟨rfl, rfl⟩ := hm
        obtain ⟨w, hw, hnd, _, hval, _⟩ :=
          params_of_winner E hok [] t.subs t.leaves hd s rest [] ps0 l0 hmn
        refine ⟨s, rest, hs, w, hw, hnd, fun b v hbv => ?_⟩
        have := get?_map_val pathUnescapeOrRaw ps0 b
        rw [hval b v hbv] at this
        exact this

/-- the same for the trees of any registration history -/
theorem decoded_once_build (E : Engine) (hok : Nat → Bool) (h : List (Route × Nat)) (path : Bytes)
    (l : Leaf) (ps : Params) (hm : (build E h).match E hok path = some (l, ps)) :
    ∃ s rest, segsOf path = s :: rest ∧
      ∃ w : Walk E hok (build E h).subs (build E h).leaves s rest, w.endLeaf = l ∧
      (w.binds.map (·.1)).Nodup ∧
      ∀ b v, (b, v) ∈ w.binds → ps.get? b = some (pathUnescapeOrRaw v) :=
  decoded_once E hok _ (build_bindsDistinct E h) path l ps hm

/-- the winner is the first accepting walk in the documented priority order (C01): the leaf
    `Tree.Match` returns is the head of the enumeration `derivs` of all accepting walks -/
theorem winner_first (E : Engine) (hok : Nat → Bool) (h : List (Route × Nat)) (path : Bytes)
    (l : Leaf) (ps : Params) (hm : (build E h).match E hok path = some (l, ps))
    (s : Seg) (rest : List Seg) (hs : segsOf path = s :: rest) :
    (derivs E hok (build E h).subs (build E h).leaves s rest).head? = some l := by
  rw [← C01.dispatch_first E hok h path s rest hs]
  simp [C01.chosen, hm]

/-- nothing is decoded twice: a value whose decoding still contains an escape keeps it
    (`%2541` is delivered as `%41`, not as `A`) -/
example : pathUnescapeOrRaw (B "%2541") = B "%41" ∧ pathUnescapeOrRaw (B "%41") = B "A" ∧
    pathUnescapeOrRaw (B "%zz") = B "%zz" := by decide

/-! ### 4. shape of the values

`w.binds = w.steps.flatMap (Step.caps E)`: the clauses below say, per step of the winning walk,
which segments the step took and what it therefore captured. -/

/-- the captured pairs are, by definition, the captures of the steps -/
theorem binds_eq_steps {E : Engine} {hok : Nat → Bool} {subs leaves s rest}
    (w : Walk E hok subs leaves s rest) : w.binds = w.steps.flatMap (Step.caps E) := rfl

/-- the steps partition the request's segments, in order -/
theorem steps_partition {E : Engine} {hok : Nat → Bool} {subs leaves s rest}
    (w : Walk E hok subs leaves s rest) : w.steps.flatMap (·.taken) = s :: rest := w.steps_taken

/-- "literal text … matches literally" (a static segment): it took exactly one segment, equal to
    its literal, and binds nothing -/
theorem static_literal {E : Engine} {hok : Nat → Bool} {subs leaves s rest}
    (w : Walk E hok subs leaves s rest) (st : Step) (hst : st ∈ w.steps) (lit : Bytes)
    (hp : st.pat = .static lit) : st.taken = [lit] ∧ st.caps E = [] := by
  obtain ⟨x, hx, ha⟩ := (w.steps_ok st hst).single (by rw [hp]; rfl)
  rw [hp] at ha
  simp only [Pat.acceptsLeaf, decide_eq_true_eq] at ha
  subst ha
  exact ⟨hx, by simp [Step.caps, hp, Pat.caps]⟩

/-- "a placeholder is exactly one path segment": the step took one segment `x` of the request and
    its bind's value is `x` itself -/
theorem placeholder_one_segment {E : Engine} {hok : Nat → Bool} {subs leaves s rest}
    (w : Walk E hok subs leaves s rest) (st : Step) (hst : st ∈ w.steps) (b : Bytes)
    (hp : st.pat = .hole b) : ∃ x, x ∈ s :: rest ∧ st.taken = [x] ∧ st.caps E = [(b, x)] := by
  obtain ⟨x, hx, _⟩ := (w.steps_ok st hst).single (by rw [hp]; rfl)
  refine ⟨x, ?_, hx, by simp [Step.caps, hp, Pat.caps, hx, joinSlash]⟩
  rw [← w.steps_taken]
  exact List.mem_flatMap.mpr ⟨st, hst, by rw [hx]; simp⟩

/-- … and, the segments being those of a request path, the value contains no `/` -/
theorem placeholder_no_slash {E : Engine} {hok : Nat → Bool} {subs leaves s rest}
    (w : Walk E hok subs leaves s rest) (path : Bytes) (hpath : segsOf path = s :: rest)
    (st : Step) (hst : st ∈ w.steps) (b : Bytes) (hp : st.pat = .hole b) :
    ∃ x, st.caps E = [(b, x)] ∧ x ∈ segsOf path ∧ slash ∉ x := by
  obtain ⟨x, hx, _, hc⟩ := placeholder_one_segment w st hst b hp
  rw [← hpath] at hx
  exact ⟨x, hc, hx, splitSlash_mem_no_slash _ x hx⟩

/-- "a match-all spans at least one and at most its capture-limit segments": the step took `k`
    CONSECUTIVE segments of the request, `1 ≤ k`, `capOK cap k` (`k ≤ cap`, or `cap ≤ 0` =
    unlimited), and its bind's value is their `/`-join -/
theorem matchall_span {E : Engine} {hok : Nat → Bool} {subs leaves s rest}
    (w : Walk E hok subs leaves s rest) (st : Step) (hst : st ∈ w.steps) (b : Bytes) (cap : Int)
    (hp : st.pat = .all b cap) :
    st.caps E = [(b, joinSlash st.taken)] ∧ 1 ≤ st.taken.length ∧ capOK cap st.taken.length = true ∧
      ∃ pre post, s :: rest = pre ++ st.taken ++ post := by
  obtain ⟨hne, hc⟩ := (w.steps_ok st hst).all b cap hp
  refine ⟨by simp [Step.caps, hp, Pat.caps], ?_, hc, ?_⟩
  · cases h : st.taken with
    | nil => exact absurd h hne
    | cons a t => simp
  · obtain ⟨pre, post, h⟩ := flatMap_mem_split (·.taken) hst
    exact ⟨pre, post, by rw [← w.steps_taken, h]⟩

/-- the capture limit read as in the property text: a positive limit is an upper bound on the
    number of segments -/
theorem capOK_pos (cap : Int) (k : Nat) (hcap : 0 < cap) (h : capOK cap k = true) : (k : Int) ≤ cap := by
  simp only [capOK, Bool.or_eq_true, decide_eq_true_eq] at h
  omega

/-- a regex step took exactly one segment, the engine matched its assembled pattern against it
    (reporting at least one submatch per group), and the step's values are the submatches of
    the NAMED groups: bind `i` of the segment gets submatch `i + 1` -/
theorem regex_submatches {E : Engine} {hok : Nat → Bool} {subs leaves s rest}
    (w : Walk E hok subs leaves s rest) (st : Step) (hst : st ∈ w.steps) (pattern : Bytes)
    (bs : List Bytes) (hp : st.pat = .regex pattern bs) :
    ∃ x subm, x ∈ s :: rest ∧ st.taken = [x] ∧ E.find pattern x = some subm ∧
      bs.length + 1 ≤ subm.length ∧ st.caps E = zipNamed bs (subm.drop 1) := by
  obtain ⟨x, hx, ha⟩ := (w.steps_ok st hst).single (by rw [hp]; rfl)
  rw [hp] at ha
  simp only [Pat.acceptsLeaf] at ha
  cases hf : E.find pattern x with
  | none => rw [hf] at ha; cases ha
  | some subm =>
    rw [hf] at ha
    refine ⟨x, subm, ?_, hx, hf, by simpa using ha, ?_⟩
    · rw [← w.steps_taken]
      exact List.mem_flatMap.mpr ⟨st, hst, by rw [hx]; simp⟩
    · simp [Step.caps, hp, Pat.caps, hx, joinSlash, hf]

/-! ### 5. the round trip

"Consequently substituting the values back into the route (with the optional segment iff the
request used it) reproduces the request path" -/

/-- a walk without regex steps: static texts, placeholders and match-alls only -/
def RegexFree {E : Engine} {hok : Nat → Bool} {subs leaves s rest}
    (w : Walk E hok subs leaves s rest) : Prop := ∀ st ∈ w.steps, ∀ pt bs, st.pat ≠ .regex pt bs

/-- the root path: the short form of a route whose ONLY segment is optional (`/?name` requested as
    `/`).  `URLPath` stops before the optional segment and, nothing being in front of it, the
    buffer is empty — it then returns `/` (`root_short_url_root`), so the round trip holds here
    too (`walk_roundtrip_rootShort`); the walk's steps do not classify segments of the route in
    this case, which is why the theorems about steps (`regex_values_match`) set it aside. -/
def RootShort (l : Leaf) : Prop := l.long = false ∧ l.route.segs.length < 2

/-- **`roundtrip_partial`** — for the trees of every history of parsed routes and EVERY accepting
    walk `w` (in particular the winner's) that uses no regex segment: `URLPath` of the leaf's route
    with the RAW captures of the walk, the optional segment included iff the leaf is the long form,
    is `/` followed by the request's segments joined by `/` — the request path with its leading
    slashes reduced to one.  Covers static, placeholder and match-all segments (a match-all in
    the middle or at the end, any capture limit), long and short form, the root path included. -/
theorem roundtrip_partial (E : Engine) (hok : Nat → Bool) (h : List (Route × Nat))
    (hP : ∀ rh ∈ h, ∀ s ∈ rh.1.segs, ParsedSeg s = true) {s : Seg} {rest : List Seg}
    (w : Walk E hok (build E h).subs (build E h).leaves s rest)
    (hnr : RegexFree w) :
    urlPath w.endLeaf.route w.binds w.endLeaf.long = slash :: joinSlash (s :: rest) := by
  have hb := build_bindsDistinct E h
  by_cases hns : RootShort w.endLeaf
  · exact walk_roundtrip_rootShort w (build_routeInv E _ h hP) (build_keyInv E _ h hP) hns.1 hns.2
  refine walk_roundtrip_of w (build_routeInv E _ h hP) (build_keyInv E _ h hP) ?_ ?_
  · intro hl
    apply Classical.byContradiction
    intro hlt
    exact hns ⟨hl, by omega⟩
  · intro seg st _ hst hcl
    refine instSeg_step hcl (w.steps_ok st hst) (hnr st hst) ?_
    intro bv hbv
    exact lookup_of_mem_nodup w.binds (w.binds_keys [] hb).1 bv.1 bv.2
      (List.mem_flatMap.mpr ⟨st, hst, hbv⟩)

/-- the full statement: the same without `RegexFree`, for every engine that satisfies `EngineLaws`
    (§6).  It is proved in §7 (`roundtrip_regex`, `roundtrip_full_holds`).  Without `EngineLaws`
    it is false — an engine may report submatches that are no parts of the text, see
    `roundtrip_needs_engineLaws` in §9. -/
def roundtrip_full : Prop :=
  ∀ (E : Engine), EngineLaws E → ∀ (hok : Nat → Bool) (h : List (Route × Nat)),
    (∀ rh ∈ h, ∀ s ∈ rh.1.segs, ParsedSeg s = true) → ∀ (s : Seg) (rest : List Seg)
    (w : Walk E hok (build E h).subs (build E h).leaves s rest),
    urlPath w.endLeaf.route w.binds w.endLeaf.long = slash :: joinSlash (s :: rest)

/-- the same for arbitrary engines (no `EngineLaws`): refuted in §9 -/
def roundtrip_any_engine : Prop :=
  ∀ (E : Engine) (hok : Nat → Bool) (h : List (Route × Nat)),
    (∀ rh ∈ h, ∀ s ∈ rh.1.segs, ParsedSeg s = true) → ∀ (s : Seg) (rest : List Seg)
    (w : Walk E hok (build E h).subs (build E h).leaves s rest),
    urlPath w.endLeaf.route w.binds w.endLeaf.long = slash :: joinSlash (s :: rest)

/-- the root path: for the short form of `/?{x}` the URL is `/`, whatever the values -/
theorem root_short_url_root (opt : Segment) (hopt : opt.optional = true) (vals : List (Bytes × Bytes)) :
    urlPath ⟨[opt]⟩ vals false = B "/" :=
  C12.urlPath_fallback_root ⟨[opt]⟩ opt [] rfl hopt vals

/-- **dispatch + round trip**: what `Tree.Match` returns, in one statement — the winning walk,
    the decoded values delivered for its binds, and the URL rebuilt from the raw captures -/
theorem dispatch_roundtrip (E : Engine) (hok : Nat → Bool) (h : List (Route × Nat))
    (hP : ∀ rh ∈ h, ∀ s ∈ rh.1.segs, ParsedSeg s = true) (path : Bytes) (l : Leaf) (ps : Params)
    (hm : (build E h).match E hok path = some (l, ps)) :
    ∃ s rest, segsOf path = s :: rest ∧
      ∃ w : Walk E hok (build E h).subs (build E h).leaves s rest, w.endLeaf = l ∧
      (∀ b v, (b, v) ∈ w.binds → ps.get? b = some (pathUnescapeOrRaw v)) ∧
      (RegexFree w →
        urlPath l.route w.binds l.long = slash :: joinSlash (segsOf path)) := by
  obtain ⟨s, rest, hs, w, hw, _, hval⟩ := decoded_once_build E hok h path l ps hm
  refine ⟨s, rest, hs, w, hw, hval, fun hnr => ?_⟩
  subst hw
  rw [hs]
  exact roundtrip_partial E hok h hP w hnr

/-! ### 6. regex segments, under `EngineLaws`

"each regex-constrained value matches its own declared expression in full and literal text around
it matches literally".  `EngineLaws E` (Proofs/ParamsRegex.lean) is a HYPOTHESIS about the
engine parameter — soundness of a reported match of an assembled pattern `^q₁…qₖ$`: the input
splits into one part per piece, a literal part equals its literal, the part under `(e)` is
accepted by `^(?:e)$` and is reported as submatch `1 + Σ_{j<i} (1 + groups eⱼ)`.  It is never
postulated; the correspondence check monitors it on every answer of the real engine. -/

/-- the segments of a form of a parsed route are parsed -/
theorem formSegs_parsed {l : Leaf} (hS : ∀ x ∈ l.route.segs, ParsedSeg x = true) :
    ∀ x ∈ formSegs l, ParsedSeg x = true := by
  intro x hx
  apply hS
  unfold formSegs at hx
  split at hx
  · exact hx
  · exact List.dropLast_subset _ hx

/-- **`regex_values_match`** — for every accepting walk in a tree built from parsed routes and
    every regex step `st` of it: `st` stands for a segment `seg` of the leaf's route; it took one
    request segment `x`; and `x` splits into one part per piece of `seg`
    (`segPieces`: identifier ↦ `lit`, `{b}` ↦ `any b`, `b: /e/` ↦ `group b e n`) with
    * `lit t`       : the part equals `t`                       ("literal text matches literally"),
    * `any b`       : the part is non-empty and is the value captured for `b`,
    * `group b e n` : the part is accepted by `^(?:e)$`         ("matches its own declared
                      expression in full") and is the value captured for `b`. -/
theorem regex_values_match (E : Engine) (hE : EngineLaws E) (hok : Nat → Bool) (h : List (Route × Nat))
    (hP : ∀ rh ∈ h, ∀ s ∈ rh.1.segs, ParsedSeg s = true) {s : Seg} {rest : List Seg}
    (w : Walk E hok (build E h).subs (build E h).leaves s rest) (hns : ¬ RootShort w.endLeaf)
    (st : Step) (hst : st ∈ w.steps) (pattern : Bytes) (bs : List Bytes)
    (hp : st.pat = .regex pattern bs) :
    ∃ seg ∈ formSegs w.endLeaf, classifyLeaf E seg = .ok st.pat ∧
      ∃ x parts, st.taken = [x] ∧ x ∈ s :: rest ∧ parts.flatten = x ∧
        Forall2 (PieceCaptured E (st.caps E)) (segPieces E seg.elems) parts := by
  have hshort : w.endLeaf.long = false → 2 ≤ w.endLeaf.route.segs.length := by
    intro hl
    apply Classical.byContradiction
    intro hlt
    exact hns ⟨hl, by omega⟩
  obtain ⟨hS, hF, _⟩ := w.steps_classify (fun a b ha hb h => parsedSeg_render_inj ha hb h)
    (build_routeInv E _ h hP) (build_keyInv E _ h hP) hshort
  obtain ⟨seg, hseg, hcl⟩ := hF.exists_left hst
  obtain ⟨x, subm, hx, hf, _, hcaps⟩ := regex_step_find (w.steps_ok st hst) hp
  have hcl' := hcl
  rw [hp] at hcl'
  obtain ⟨parts, hflat, hFp⟩ := regex_pieces_captured hE (formSegs_parsed hS seg hseg) hcl' hf
  refine ⟨seg, hseg, hcl, x, parts, hx, ?_, hflat, by rw [hcaps]; exact hFp⟩
  rw [← w.steps_taken]
  exact List.mem_flatMap.mpr ⟨st, hst, by rw [hx]; simp⟩

/-! ### 7. the round trip with regex segments -/

/-- **`roundtrip_regex`** — under `EngineLaws`: the round trip of §5 for walks through ANY kind of
    segment (static, placeholder, match-all, regex with literal text around the binds and
    parameter lists of any length: `{a: /…/, b: /…/}` writes a hole per parameter), long and
    short form, the root path included -/
theorem roundtrip_regex (E : Engine) (hE : EngineLaws E) (hok : Nat → Bool) (h : List (Route × Nat))
    (hP : ∀ rh ∈ h, ∀ s ∈ rh.1.segs, ParsedSeg s = true) {s : Seg} {rest : List Seg}
    (w : Walk E hok (build E h).subs (build E h).leaves s rest) :
    urlPath w.endLeaf.route w.binds w.endLeaf.long = slash :: joinSlash (s :: rest) := by
  have hb := build_bindsDistinct E h
  by_cases hns : RootShort w.endLeaf
  · exact walk_roundtrip_rootShort w (build_routeInv E _ h hP) (build_keyInv E _ h hP) hns.1 hns.2
  have hshort : w.endLeaf.long = false → 2 ≤ w.endLeaf.route.segs.length := by
    intro hl
    apply Classical.byContradiction
    intro hlt
    exact hns ⟨hl, by omega⟩
  have hri := build_routeInv E _ h hP
  have hki := build_keyInv E _ h hP
  obtain ⟨hS, _, _⟩ := w.steps_classify (fun a b ha hb h => parsedSeg_render_inj ha hb h) hri hki hshort
  refine walk_roundtrip_of w hri hki hshort ?_
  intro seg st hseg hst hcl
  have hsegr : seg ∈ w.endLeaf.route.segs := by
    unfold formSegs at hseg
    split at hseg
    · exact hseg
    · exact List.dropLast_subset _ hseg
  refine instSeg_step_regex hE (hS seg hsegr) hcl (w.steps_ok st hst) ?_
  intro bv hbv
  exact lookup_of_mem_nodup w.binds (w.binds_keys [] hb).1 bv.1 bv.2
    (List.mem_flatMap.mpr ⟨st, hst, hbv⟩)

/-- **`roundtrip_full` holds**: the round trip for every engine satisfying `EngineLaws`, every
    history of parsed routes and every accepting walk -/
theorem roundtrip_full_holds : roundtrip_full :=
  fun E hE hok h hP _ _ w => roundtrip_regex E hE hok h hP w

/-! ### 8. router level

`Router.serve` puts `route` on top of what `Tree.Match` returned (tree path), or delivers `route`
alone (fast path: the table holds `allStatic` leaves only, and such a route binds nothing). -/

/-- tree path: the handler receives the decoded captures of the winning walk, and `route`.
    `route` is RESERVED: a bind that happens to be called `route` is overwritten by the route
    text (router.go sets it after `Match`), hence the side condition `b ≠ "route"`. -/
theorem serve_tree_params (E : Engine) (R : Router) (req : Request) (t : Node) (l : Leaf) (ps : Params)
    (hfast : assocGet R.statics (req.method, req.path) = none)
    (ht : assocGet R.trees req.method = some t) (hd : BindsDistinct t)
    (h : R.serve E req = .handler l ps) :
    ∃ s rest, segsOf req.path = s :: rest ∧
      ∃ w : Walk E (R.hok E req.hdrs) t.subs t.leaves s rest, w.endLeaf = l ∧
      ps.get? (B "route") = some l.route.render ∧
      ∀ b v, (b, v) ∈ w.binds → b ≠ B "route" → ps.get? b = some (pathUnescapeOrRaw v) := by
  have hroute := route_param_canonical E R req l ps h
  unfold Router.serve at h
  rw [hfast] at h
  simp only [Router.serveTreeOnly, ht] at h
  cases hm : t.match E (R.hok E req.hdrs) req.path with
  | none => rw [hm] at h; cases h
  | some lp =>
    obtain ⟨l0, ps0⟩ := lp
    rw [hm] at h
    simp only [Outcome.handler.injEq] at h
    obtain ⟨rfl, rfl⟩ := h
    obtain ⟨s, rest, hs, w, hw, _, hval⟩ := decoded_once E _ t hd req.path l0 ps0 hm
    refine ⟨s, rest, hs, w, hw, hroute, fun b v hbv hne => ?_⟩
    rw [Params.get?_set_other _ _ _ _ hne]
    exact hval b v hbv

/-- fast path: the params are exactly `[route]` -/
theorem serve_fast_params (E : Engine) (R : Router) (req : Request) (leaf : Leaf)
    (hfast : assocGet R.statics (req.method, req.path) = some leaf) :
    R.serve E req = .handler leaf [(B "route", leaf.route.render)] := by
  unfold Router.serve
  rw [hfast]

/-- … and nothing is lost by that: in every tree registration can build, a walk that ends in a
    leaf flagged `allStatic` (`Leaf.Static()`, the only leaves the fast-path table ever holds —
    `Router.addMethods`) captures nothing -/
theorem static_route_binds_nothing (E : Engine) (hok : Nat → Bool) (h : List (Route × Nat))
    {s : Seg} {rest : List Seg} (w : Walk E hok (build E h).subs (build E h).leaves s rest)
    (hf : w.endLeaf.allStatic = true) : w.binds = [] :=
  (w.binds_nil_of_allStatic true (build_staticInv E h) hf).2

/-- the fast-path table only ever receives `allStatic` leaves -/
theorem statics_only_allStatic (E : Engine) (hid : Nat) (r : Route) :
    ∀ (ms : List String) (R : Router) (acc : List (String × Leaf)),
    (∀ kv ∈ R.statics, kv.2.allStatic = true) →
    ∀ kv ∈ (R.addMethods E hid r ms acc).1.statics, kv.2.allStatic = true
  | [], R, acc, hR => by simpa [Router.addMethods] using hR
  | m :: ms, R, acc, hR => by
    rw [Router.addMethods]
    cases ht : assocGet R.trees m with
    | none => exact hR
    | some t =>
      simp only
      cases ha : addRoute E t r hid with
      | error e => exact hR
      | ok t' =>
        simp only
        cases hf : findLongLeaf hid t' with
        | none => exact hR
        | some leaf =>
          simp only
          apply statics_only_allStatic E hid r ms
          intro kv hkv
          split at hkv
          · rename_i hcond
            simp only [Bool.and_eq_true] at hcond
            rcases mem_assocSet_cases hkv with rfl | hm
            · exact hcond.1
            · exact hR kv hm
          · exact hR kv hkv

/-- the trees of a router that was built with `Router.new`, `addMethods`, `setHeaders`, `setName`
    all have distinct bind names along their routes (so `serve_tree_params` applies) -/
theorem router_trees_distinct_new : Router.new.TreesOK BindsDistinct :=
  Router.new_treesOK _ root_bindsDistinct

theorem router_trees_distinct_add (E : Engine) (R : Router) (hid : Nat) (r : Route) (ms : List String)
    (acc : List (String × Leaf)) (hR : R.TreesOK BindsDistinct) :
    (R.addMethods E hid r ms acc).1.TreesOK BindsDistinct :=
  Router.addMethods_treesOK E _ (fun _ _ _ _ ht ha => addRoute_bindsDistinct ht ha) hid r ms R acc hR

/-! ### 9. non-vacuity, and why the hypotheses are there -/

section Examples

/-- with an engine that compiles nothing no regex segment can be registered, so every walk in a
    tree it builds is regex-free: for such histories `roundtrip_partial` is unconditional -/
theorem regexFree_of_no_compile (E : Engine) (hE : ∀ p, E.compile p = none) (hok : Nat → Bool)
    (h : List (Route × Nat)) (hP : ∀ rh ∈ h, ∀ s ∈ rh.1.segs, ParsedSeg s = true)
    {s : Seg} {rest : List Seg} (w : Walk E hok (build E h).subs (build E h).leaves s rest)
    (hns : ¬ RootShort w.endLeaf) : RegexFree w := by
  have hshort : w.endLeaf.long = false → 2 ≤ w.endLeaf.route.segs.length := by
    intro hl
    apply Classical.byContradiction
    intro hlt
    exact hns ⟨hl, by omega⟩
  obtain ⟨_, hF, _⟩ := w.steps_classify (fun a b ha hb h => parsedSeg_render_inj ha hb h)
    (build_routeInv E _ h hP) (build_keyInv E _ h hP) hshort
  intro st hst pt bs hp
  obtain ⟨seg, _, hcl⟩ := hF.exists_left hst
  rw [hp] at hcl
  rcases classifyLeaf_inv hcl with ⟨_, _, _, hr⟩ | ⟨hp', _⟩ | ⟨_, hp', _⟩ | ⟨_, hp', _⟩ | ⟨_, _, hp', _⟩
  · unfold classifyRegex at hr
    simp only [bind, Except.bind] at hr
    split at hr
    · cases hr
    · split at hr
      · cases hr
      · rw [hE] at hr
        cases hr
  all_goals cases hp'

/-- an engine that knows no expression -/
def E₀ : Engine := ⟨fun _ => none, fun _ _ => none, fun _ _ => false⟩
def ok : Nat → Bool := fun _ => true

/-- `/{x}/a` then `/{y}/b` -/
def h₁ : List (Route × Nat) :=
  [(⟨[⟨false, [.bind [120]]⟩, ⟨false, [.ident [97]]⟩]⟩, 0),
   (⟨[⟨false, [.bind [121]]⟩, ⟨false, [.ident [98]]⟩]⟩, 1)]

def leafB : Leaf :=
  ⟨[98], .static [98], 1, ⟨[⟨false, [.bind [121]]⟩, ⟨false, [.ident [98]]⟩]⟩, true, false⟩

theorem build_h₁ : build E₀ h₁ = .mk [] (.static [])
    [.mk (B "/{x}") (.hole [120]) []
       [⟨[97], .static [97], 0, ⟨[⟨false, [.bind [120]]⟩, ⟨false, [.ident [97]]⟩]⟩, true, false⟩],
     .mk (B "/{y}") (.hole [121]) [] [leafB]] [] := rfl

/-- **extra keys are allowed, the winner's are exact**: `/%31/b` is served by `/{y}/b` with
    `y = "1"` (decoded once); the abandoned branch `/{x}/a` has left `x = "1"` behind — a key the
    winning route does not bind, which `params_of_winner` deliberately leaves unconstrained -/
theorem stale_extra_key :
    (build E₀ h₁).match E₀ ok (B "/%31/b") = some (leafB, [([120], [49]), ([121], [49])]) := by
  rw [build_h₁]
  simp [Node.match, B, trimLeftSlash, splitSlash, slash, matchNext, matchSubs, treeMatch, matchLeaves,
    leafMatch, Params.set, Node.subs, Node.leaves, pathUnescapeOrRaw, pathUnescape, pct, ok, leafB,
    isHex, unhex]
  decide

example : ∀ rh ∈ h₁, ∀ s ∈ rh.1.segs, ParsedSeg s = true := by decide

/-- the premises of `dispatch_roundtrip` are met by a concrete request, and its conclusions —
    including the round trip (`"/%31/b"` again: the RAW capture `%31` is substituted) — hold -/
example : ∃ s rest, segsOf (B "/%31/b") = s :: rest ∧
    ∃ w : Walk E₀ ok (build E₀ h₁).subs (build E₀ h₁).leaves s rest, w.endLeaf = leafB ∧
    (∀ b v, (b, v) ∈ w.binds →
      Params.get? [([120], [49]), ([121], [49])] b = some (pathUnescapeOrRaw v)) ∧
    urlPath leafB.route w.binds leafB.long = slash :: joinSlash (segsOf (B "/%31/b")) := by
  obtain ⟨s, rest, hs, w, hw, hv, hrt⟩ := dispatch_roundtrip E₀ ok h₁ (by decide) _ _ _ stale_extra_key
  refine ⟨s, rest, hs, w, hw, hv, hrt ?_⟩
  exact regexFree_of_no_compile E₀ (fun _ => rfl) ok h₁ (by decide) w
    (by rw [hw]; simp [RootShort, leafB])

/-- **the invariant is needed**: a hand-made tree registration can NOT build — `{x}` below `{x}`,
    with a match-all leaf `{y: **}` next to the inner one -/
def badSubs : List Node :=
  [.mk [1] (.hole [120]) [.mk [2] (.hole [120]) [] [⟨[97], .static [97], 0, ⟨[]⟩, true, false⟩]]
     [⟨[121], .all [121] 0, 1, ⟨[]⟩, true, false⟩]]

theorem bad_not_distinct : ¬ BindsOK [] badSubs [] := by
  intro h
  have hc := h.child (k := [1]) (p := .hole [120]) (List.mem_cons_self ..)
  have := (hc.subOK (k := [2]) (p := .hole [120]) (List.mem_cons_self ..)).2 [120] (by simp [Pat.binds])
  simp [Pat.binds] at this

/-- on `/1/2/3` the winning walk is `{x} ↦ "1"`, `{y: **} ↦ "2/3"`, but the abandoned inner `{x}`
    wrote `x = "2"` AFTER the winner's `x = "1"`: without distinct names a stale value shadows
    the winner's — exactly what `BindsDistinct` (kept by registration) excludes -/
theorem bad_stale_shadows :
    matchNext E₀ ok badSubs [] [49] [[50], [51]] [] =
      (some ⟨[121], .all [121] 0, 1, ⟨[]⟩, true, false⟩, [([120], [50]), ([121], [50, 47, 51])]) := by
  simp [badSubs, matchNext, matchSubs, treeMatch, matchLeaves, leafMatch, matchAllLeaf, Params.set, ok,
    joinSlash, slash]

/-- the engine that never matches satisfies `EngineLaws`: the hypothesis is consistent (that the
    real engine satisfies it on the expressions it is given is what the harness monitors) -/
theorem engineLaws_consistent : EngineLaws E₀ := ⟨fun _ _ _ _ h => by cases h⟩

/-- an engine that knows exactly `^(x+)(y+)$` on `xxyy` -/
def E₁ : Engine :=
  ⟨fun _ => some 0,
   fun p s => if p = B "^(x+)(y+)$" ∧ s = B "xxyy" then some [B "xxyy", B "xx", B "yy"] else none,
   fun _ _ => false⟩

/-- `/{a: /x+/, b: /y+/}` -/
def rMulti : Route := ⟨[⟨false, [.params [⟨[97], .re (B "x+")⟩, ⟨[98], .re (B "y+")⟩]]⟩]⟩
def hMulti : List (Route × Nat) := [(rMulti, 0)]
def leafMulti : Leaf :=
  ⟨B "{a: /x+/, b: /y+/}", .regex (B "^(x+)(y+)$") [[97], [98]], 0, rMulti, true, false⟩

theorem build_multi : build E₁ hMulti = .mk [] (.static []) [] [leafMulti] := rfl

/-- a parameter list with two entries: `/xxyy` is served by `/{a: /x+/, b: /y+/}` with `a = "xx"`,
    `b = "yy"`; `URLPath` writes `{a}{b}` (a hole per bind parameter), so the URL rebuilt from the
    captures is `/xxyy` again -/
example : ∃ w : Walk E₁ ok (build E₁ hMulti).subs (build E₁ hMulti).leaves (B "xxyy") [],
    w.endLeaf = leafMulti ∧ w.binds = [([97], B "xx"), ([98], B "yy")] ∧
    urlPath w.endLeaf.route w.binds w.endLeaf.long = slash :: joinSlash [B "xxyy"] := by
  have hl : leafMulti ∈ (build E₁ hMulti).leaves := by rw [build_multi]; simp [Node.leaves]
  have ha : leafMulti.pat.acceptsLeaf E₁ (B "xxyy") = true := by decide
  have hh : ok leafMulti.hid = true := by simp [ok]
  have hcaps : leafMulti.pat.caps E₁ (B "xxyy") = [([97], B "xx"), ([98], B "yy")] := by decide
  refine ⟨.leaf _ _ _ leafMulti hl ha hh, rfl, by rw [Walk.binds_leaf, hcaps], ?_⟩
  rw [Walk.binds_leaf, hcaps]
  simp only [Walk.endLeaf]
  decide

/-- an engine that LIES: on `xxyy` it reports the submatches `xx` and `y` for `^(x+)(y+)$` — the
    parts do not make up the text, so it does not satisfy `EngineLaws` -/
def E₁bad : Engine :=
  ⟨fun _ => some 0,
   fun p s => if p = B "^(x+)(y+)$" ∧ s = B "xxyy" then some [B "xxyy", B "xx", B "y"] else none,
   fun _ _ => false⟩

theorem build_multi_bad : build E₁bad hMulti = .mk [] (.static []) [] [leafMulti] := rfl

/-- **`EngineLaws` is needed**: with the lying engine `/xxyy` is served by `/{a: /x+/, b: /y+/}`
    with `a = "xx"`, `b = "y"`, and the URL rebuilt from the captures is `/xxy` -/
theorem roundtrip_needs_engineLaws : ¬ roundtrip_any_engine := by
  intro H
  have hl : leafMulti ∈ (build E₁bad hMulti).leaves := by rw [build_multi_bad]; simp [Node.leaves]
  have ha : leafMulti.pat.acceptsLeaf E₁bad (B "xxyy") = true := by decide
  have hh : ok leafMulti.hid = true := by simp [ok]
  have := H E₁bad ok hMulti (by decide) (B "xxyy") [] (.leaf _ _ _ leafMulti hl ha hh)
  rw [Walk.binds_leaf] at this
  simp only [Walk.endLeaf] at this
  have hcaps : leafMulti.pat.caps E₁bad (B "xxyy") = [([97], B "xx"), ([98], B "y")] := by decide
  rw [hcaps] at this
  revert this
  decide

/-- `/a{n: /x+/}` with the small engine `RegexExample.E₂` (which satisfies `EngineLaws`:
    `RegexExample.engineLaws_E₂`) -/
def rRe : Route := ⟨[⟨false, [.ident [97], .params [⟨[110], .re (B "x+")⟩]]⟩]⟩
def hRe : List (Route × Nat) := [(rRe, 0)]
def leafRe : Leaf := ⟨B "a{n: /x+/}", .regex (B "^a(x+)$") [[110]], 0, rRe, true, false⟩

theorem build_re : build RegexExample.E₂ hRe = .mk [] (.static []) [] [leafRe] := rfl

/-- the premises of `regex_values_match` and `roundtrip_regex` are met by a concrete regex route
    and request: `/axx` is served with `n = "xx"`, the literal `a` matched literally, `xx` is
    accepted by `^(?:x+)$`, and the URL rebuilt from the capture is `/axx` -/
example : ∃ w : Walk RegexExample.E₂ ok (build RegexExample.E₂ hRe).subs (build RegexExample.E₂ hRe).leaves
      (B "axx") [], w.endLeaf = leafRe ∧ w.binds = [([110], B "xx")] ∧
    urlPath rRe w.binds true = B "/axx" ∧
    ∃ parts, parts.flatten = B "axx" ∧
      Forall2 (PieceCaptured RegexExample.E₂ [([110], B "xx")])
        [.lit [97], .group [110] (B "x+") 0] parts := by
  have hl : leafRe ∈ (build RegexExample.E₂ hRe).leaves := by rw [build_re]; simp [Node.leaves]
  have ha : leafRe.pat.acceptsLeaf RegexExample.E₂ (B "axx") = true := by decide
  have hh : ok leafRe.hid = true := by simp [ok]
  have hP : ∀ rh ∈ hRe, ∀ s ∈ rh.1.segs, ParsedSeg s = true := by decide
  refine ⟨.leaf _ _ _ leafRe hl ha hh, rfl, ?_, ?_, ?_⟩
  · rw [Walk.binds_leaf]; decide
  · have := roundtrip_regex RegexExample.E₂ RegexExample.engineLaws_E₂ ok hRe hP
      (.leaf _ _ _ leafRe hl ha hh)
    simp only [Walk.endLeaf] at this
    show urlPath leafRe.route _ leafRe.long = _
    rw [this]
    decide
  · obtain ⟨seg, hseg, _, x, parts, hx, _, hflat, hF⟩ :=
      regex_values_match RegexExample.E₂ RegexExample.engineLaws_E₂ ok hRe hP
        (.leaf _ _ _ leafRe hl ha hh) (by simp [RootShort, Walk.endLeaf, leafRe])
        ⟨leafRe.key, leafRe.pat, [B "axx"]⟩ (by simp [Walk.steps]) (B "^a(x+)$") [[110]] rfl
    simp only [formSegs, Walk.endLeaf, leafRe, rRe, ↓reduceIte, List.mem_singleton] at hseg
    subst hseg
    simp only [List.cons.injEq, and_true] at hx
    subst hx
    refine ⟨parts, hflat, ?_⟩
    have hcaps : Step.caps RegexExample.E₂ ⟨leafRe.key, leafRe.pat, [B "axx"]⟩ = [([110], B "xx")] := by
      decide
    rw [hcaps] at hF
    exact hF

end Examples

end Flamego.C02
