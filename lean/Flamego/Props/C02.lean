/-
  Props/C02.lean — Bind parameters are exactly what the route pattern captured.
  (further clauses are added as the proof development proceeds; see DESIGN.md §5/C02)
-/
import Flamego.Proofs.Assoc

namespace Flamego.C02

/-- "the reserved parameter `route` is the canonical text of the matched route" — on both
    dispatch paths (fast path and tree), for every router state, engine and request. -/
theorem route_param_canonical (E : Engine) (R : Router) (req : Request) (l : Leaf) (ps : Params)
    (h : R.serve E req = .handler l ps) : ps.get? (B "route") = some l.route.render := by
  unfold Router.serve at h
  split at h
  · injection h with h1 h2
    subst h1 h2
    simp [Params.get?, List.find?]
  · unfold Router.serveTreeOnly at h
    split at h
    · cases h
    · split at h
      · cases h
      · injection h with h1 h2
        subst h1 h2
        exact Params.get?_set_same _ _ _

end Flamego.C02
