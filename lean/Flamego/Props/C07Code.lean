/-
  Props/C07Code.lean — C07 at the level of the CODE, the outermost step: `Flame.ServeHTTP` and `Flame.Before`.

  `Gen/FlameCode.lean` is regenerated from flame.go on every run (/verif/translator: gocode.go, flamecode.go).  A Before
  handler is a function value: that it ran, on which path, is recorded in `world`; what it answers is the environment's
  choice (`answers`); the embedded Router is an environment object.

  Proved, for every instance, every list of Before handlers, every request and every way the handlers answer:

    * `serve_closed`: the body is — trim the URL prefix; run the Before handlers in registration order, each on the request
      with the trimmed path, stopping at the first that answers true; ask the router to serve exactly when none did;
    * `before_stops`: a Before handler that answers true ends the request — no later Before handler runs and the router is
      never asked (no route's chain, no not-found chain);
    * `all_false_serves`: when every Before handler answers false each ran exactly once, in order, and the router is asked
      exactly once;
    * `before_registers_last`: `Before(h)` appends, so handlers run in registration order.
-/
import Flamego.Gen.FlameCode
set_option linter.unusedSimpArgs false
set_option linter.unusedVariables false
namespace Flamego.C07Code
open Flamego.GoSem Flamego.Gen.FlameCode

/-- the request the Before handlers and the router see: `r.URL.Path` with the instance's prefix trimmed -/
def trimmed (f : Flame) (r : Lib.Request) : Lib.Request :=
  if (f.urlPrefix != ([] : Bytes)) then Lib.Request_setPath r (Lib.strings_TrimPrefix r.path f.urlPrefix) else r

/-- the loop over the Before handlers, as a recursion: the state after it and whether one of them answered true -/
def beforeLoop (w : Env) (r : Lib.Request) : List FuncVal → Flame → Bool × Flame
  | [], f => (false, f)
  | h :: hs, f =>
    if (call_BeforeHandler h f w r).1 then (true, (call_BeforeHandler h f w r).2)
    else beforeLoop w r hs (call_BeforeHandler h f w r).2

/-- the body of the loop, as the translation spells it -/
def loopBody (w : Env) (r : Lib.Request) : Int × FuncVal → Flame → GoSem.Ctl Unit × Flame :=
  fun (_, h) f =>
    let (t1, f) := call_BeforeHandler h f w r;
    if t1 then (GoSem.Ctl.ret (), f) else (GoSem.Ctl.next, f)

theorem loop_eq (w : Env) (r : Lib.Request) (hs : List FuncVal) (n : Nat) (f : Flame) :
    GoSem.forRangeCtl (ρ := Unit) ((hs.zipIdx n).map fun p => ((p.2 : Int), p.1)) (loopBody w r) f
      = (if (beforeLoop w r hs f).1 then (GoSem.Ctl.ret (), (beforeLoop w r hs f).2)
         else (GoSem.Ctl.next, (beforeLoop w r hs f).2)) := by
  induction hs generalizing n f with
  | nil => simp [GoSem.forRangeCtl, beforeLoop]
  | cons h hs ih =>
    by_cases ht : (call_BeforeHandler h f w r).1 = true
    · simp [List.zipIdx_cons, GoSem.forRangeCtl, beforeLoop, loopBody, ht]
    · have ht' : (call_BeforeHandler h f w r).1 = false := by simpa using ht
      have hb : loopBody w r (((n : Nat) : Int), h) f = (GoSem.Ctl.next, (call_BeforeHandler h f w r).2) := by
        simp [loopBody, ht']
      simp only [List.zipIdx_cons, List.map_cons, GoSem.forRangeCtl, hb, beforeLoop, ht', Bool.false_eq_true, if_false]
      exact ih (n + 1) (call_BeforeHandler h f w r).2

/-- `ServeHTTP`, in closed form -/
theorem serve_closed (f : Flame) (w : Env) (r : Lib.Request) :
    (ServeHTTP f w r).2 =
      (if (beforeLoop w (trimmed f r) f.befores f).1 then (beforeLoop w (trimmed f r) f.befores f).2
       else (envCall_Router (beforeLoop w (trimmed f r) f.befores f).2 "ServeHTTP" [Arg.other, Arg.other]).2) := by
  have hr : (if (f.urlPrefix != ([] : Bytes)) then
      Lib.Request_setPath r (Lib.strings_TrimPrefix (Lib.URL_Path (Lib.Request_URL r)) f.urlPrefix) else r) = trimmed f r := rfl
  have hb : loopBody w (trimmed f r) = fun x g =>
      if (call_BeforeHandler x.2 g w (trimmed f r)).1 = true then
        (GoSem.Ctl.ret (), (call_BeforeHandler x.2 g w (trimmed f r)).2)
      else (GoSem.Ctl.next, (call_BeforeHandler x.2 g w (trimmed f r)).2) := by
    funext ⟨a, h⟩ g
    simp only [loopBody]
  have hl := loop_eq w (trimmed f r) f.befores 0 f
  rw [hb] at hl
  simp only [ServeHTTP, hr, GoSem.enum]
  rw [hl]
  cases (beforeLoop w (trimmed f r) f.befores f).1 <;> simp

/-- what the loop leaves behind: a prefix of the handlers ran, each once, in order, on the given request; nothing but the
world changed; and it reports true exactly when the last one that ran answered true -/
theorem loop_shape (w : Env) (r : Lib.Request) (hs : List FuncVal) (f : Flame) :
    ∃ k, k ≤ hs.length
      ∧ (beforeLoop w r hs f).2 = { f with world := f.world ++ (hs.take k).map fun h => (h, r.path) }
      ∧ ((beforeLoop w r hs f).1 = true → 0 < k ∧ ∃ h, hs[k - 1]? = some h ∧ f.answers (f.world.length + (k - 1)) h = true)
      ∧ ((beforeLoop w r hs f).1 = false → k = hs.length)
      ∧ ∀ i h, i < k - (if (beforeLoop w r hs f).1 then 1 else 0) → hs[i]? = some h → f.answers (f.world.length + i) h = false := by
  induction hs generalizing f with
  | nil => exact ⟨0, by simp, by simp [beforeLoop], by simp [beforeLoop], by simp [beforeLoop], by simp⟩
  | cons h hs ih =>
    cases ht : f.answers f.world.length h
    · -- h answers false: the loop goes on from the state with h recorded
      have hstep : beforeLoop w r (h :: hs) f = beforeLoop w r hs (call_BeforeHandler h f w r).2 := by
        simp [beforeLoop, call_BeforeHandler, ht]
      obtain ⟨k, hk, hst, ht1, hf1, hall⟩ := ih (call_BeforeHandler h f w r).2
      refine ⟨k + 1, by simp; omega, ?_, ?_, ?_, ?_⟩
      · rw [hstep, hst]; simp [call_BeforeHandler, List.take_succ_cons, List.append_assoc]
      · rw [hstep]; intro hb
        obtain ⟨hk0, h', hidx, hans⟩ := ht1 hb
        refine ⟨by omega, h', ?_, ?_⟩
        · have : k + 1 - 1 = (k - 1) + 1 := by omega
          rw [this, List.getElem?_cons_succ]; exact hidx
        · have : f.world.length + (k + 1 - 1) = (f.world.length + 1) + (k - 1) := by omega
          rw [this]; simpa [call_BeforeHandler] using hans
      · rw [hstep]; intro hb; simp [hf1 hb]
      · rw [hstep]
        intro i h' hi hget
        cases i with
        | zero => simp at hget; subst hget; simpa using ht
        | succ j =>
          rw [List.getElem?_cons_succ] at hget
          have := hall j h' (by omega) hget
          have e : f.world.length + (j + 1) = (f.world.length + 1) + j := by omega
          rw [e]; simpa [call_BeforeHandler] using this
    · -- h answers true: the loop stops here
      have hstep : beforeLoop w r (h :: hs) f = (true, (call_BeforeHandler h f w r).2) := by
        simp [beforeLoop, call_BeforeHandler, ht]
      refine ⟨1, by simp, ?_, ?_, ?_, ?_⟩
      · rw [hstep]; simp [call_BeforeHandler]
      · intro _; exact ⟨by omega, h, by simp, by simpa using ht⟩
      · rw [hstep]; intro hb; cases hb
      · rw [hstep]; intro i h' hi; simp at hi

/-- a Before handler that answers true ends the request: the router is never asked -/
theorem before_stops (f : Flame) (w : Env) (r : Lib.Request)
    (h : (beforeLoop w (trimmed f r) f.befores f).1 = true) :
    (ServeHTTP f w r).2.Router = f.Router
      ∧ ∃ k, 0 < k ∧ k ≤ f.befores.length
          ∧ (ServeHTTP f w r).2.world = f.world ++ (f.befores.take k).map fun b => (b, (trimmed f r).path) := by
  rw [serve_closed, h]
  obtain ⟨k, hk, hst, ht1, _, _⟩ := loop_shape w (trimmed f r) f.befores f
  simp only [if_true, hst]
  exact ⟨trivial, k, (ht1 h).1, hk, rfl⟩

/-- when every Before handler answers false: each ran exactly once, in registration order, on the trimmed request, and the
router is asked to serve exactly once -/
theorem all_false_serves (f : Flame) (w : Env) (r : Lib.Request)
    (h : (beforeLoop w (trimmed f r) f.befores f).1 = false) :
    (ServeHTTP f w r).2.world = f.world ++ f.befores.map (fun b => (b, (trimmed f r).path))
      ∧ (ServeHTTP f w r).2.Router.trace = f.Router.trace ++ [("ServeHTTP", [Arg.other, Arg.other])] := by
  rw [serve_closed, h]
  obtain ⟨k, hk, hst, _, hf1, _⟩ := loop_shape w (trimmed f r) f.befores f
  have hk' := hf1 h
  subst hk'
  simp only [Bool.false_eq_true, if_false, hst, envCall_Router, Env.call, Env.record, List.take_length]
  exact ⟨trivial, trivial⟩

/-- `Before(h)` registers `h` after the handlers registered so far -/
theorem before_registers_last (f : Flame) (h : FuncVal) :
    (Before f h).2.befores = f.befores ++ [h] ∧ (Before f h).2.world = f.world ∧ (Before f h).2.Router = f.Router := by
  simp [Before]

/-! ### the definitions compute -/

def demoFlame : Flame :=
  { (default : Flame) with urlPrefix := [47, 118, 49],                     -- "/v1"
                           befores := [1, 2, 3], answers := fun _ h => h == 2 }

/-- the second handler answers true: the third never runs, the router is never asked; the path was trimmed first -/
example : (ServeHTTP demoFlame default { (default : Lib.Request) with path := [47, 118, 49, 47, 120] }).2.world
      = [(1, [47, 120]), (2, [47, 120])]
    ∧ (ServeHTTP demoFlame default { (default : Lib.Request) with path := [47, 118, 49, 47, 120] }).2.Router.trace = [] := by
  decide
example : (ServeHTTP { demoFlame with answers := fun _ _ => false } default default).2.Router.trace
    = [("ServeHTTP", [Arg.other, Arg.other])] := by decide

end Flamego.C07Code
