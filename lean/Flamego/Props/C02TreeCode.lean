/-
  Props/C02TreeCode.lean — C02 at the level of the CODE: `regexTree.match`, where a regex subtree's captures are written.

  `Gen/RegexTreeCode.lean` is regenerated from internal/route/tree.go on every run.  For every engine, every regex subtree
  (its pattern, its bind list with `""` standing for a capture group of the user's own expression), every segment and every
  parameter map:

    * `tree_match_refines`: the generated `match` answers what the model's `treeMatch` (Model/Tree.lean) answers for a regex
      node — no match, or the parameter map with EVERY named bind set to the submatch of its own group (submatch i+1 for
      position i of the bind list), the unnamed groups skipped — and leaves the tree as it was.
-/
import Flamego.Gen.RegexTreeCode
import Flamego.Gen.HoleTreeCode
import Flamego.Model.Tree
set_option linter.unusedSimpArgs false
set_option linter.unusedVariables false
namespace Flamego.C02TreeCode
open Flamego.GoSem Flamego.Gen.RegexTreeCode
variable (E : Engine)

theorem mapSet_eq_set (ps : Params) (k v : Bytes) : GoSem.mapSet ps k v = ps.set k v := by
  induction ps with
  | nil => rfl
  | cons kv ps ih =>
    obtain ⟨k', v'⟩ := kv
    by_cases h : k' = k <;> simp [GoSem.mapSet, Params.set, h, ih]

/-- the loop of `match` from position `n` on: the model's `writeBinds` on the rest of the bind list and the submatches from
`n + 1` on -/
theorem binds_loop (pre rest : List Bytes) (subm : List Bytes) (ps : Params) (hlen : pre.length + rest.length + 1 ≤ subm.length) :
    GoSem.forRangeCtl (ρ := (Bool × List (Bytes × Bytes))) ((rest.zipIdx pre.length).map fun p => ((p.2 : Int), p.1))
        (fun (i, bind) params =>
          if (bind == ([] : Bytes)) then (GoSem.Ctl.next, params)
          else
            let params := GoSem.mapSet params bind (GoSem.idx subm (i + 1));
            (GoSem.Ctl.next, params)) ps
      = (GoSem.Ctl.next, treeMatch.writeBinds rest (subm.drop (pre.length + 1)) ps) := by
  induction rest generalizing pre ps with
  | nil => simp [GoSem.forRangeCtl, treeMatch.writeBinds]
  | cons b bs ih =>
    have hlt : pre.length + 1 < subm.length := by simp at hlen; omega
    have hdrop : subm.drop (pre.length + 1) = subm[pre.length + 1] :: subm.drop (pre.length + 1 + 1) := by
      rw [List.drop_eq_getElem_cons hlt]
    have hidx : GoSem.idx subm ((pre.length : Int) + 1) = subm[pre.length + 1] := by
      unfold GoSem.idx
      have h0 : ¬ ((pre.length : Int) + 1 < 0) := by omega
      have e : ((pre.length : Int) + 1).toNat = pre.length + 1 := by omega
      rw [if_neg h0, e]
      simp [List.getD, hlt]
    have hstep : ∀ ps', _ := fun ps' => ih (pre ++ [b]) ps' (by simp at hlen ⊢; omega)
    simp only [List.length_append, List.length_singleton] at hstep
    simp only [List.zipIdx_cons, List.map_cons, GoSem.forRangeCtl]
    rw [hdrop]
    by_cases hb : b = []
    · subst hb
      simp only [beq_self_eq_true, if_true, treeMatch.writeBinds]
      exact hstep ps
    · have hb' : (b == ([] : Bytes)) = false := by simpa using hb
      simp only [hb', Bool.false_eq_true, if_false, treeMatch.writeBinds, hb, hidx]
      have hset : GoSem.mapSet ps b subm[pre.length + 1] = ps.set b subm[pre.length + 1] := mapSet_eq_set _ _ _
      rw [hset]
      exact hstep _

/-- REFINEMENT of `regexTree.match` -/
theorem tree_match_refines (E : Engine) (t : regexTree) (seg : Bytes) (ps : Params) :
    («match» E t seg ps).2 = t
    ∧ (match treeMatch E (.regex t.regexp t.binds) seg ps with
       | some ps' => («match» E t seg ps).1 = (true, ps')
       | none => («match» E t seg ps).1 = (false, ps)) := by
  cases hf : E.find t.regexp seg with
  | none =>
    have : ¬ ((0 : Int) = (t.binds.length : Int) + 1) := by omega
    simp [«match», treeMatch, Lib.Regexp_FindStringSubmatch, hf, this]
  | some subm =>
    by_cases hl : subm.length = t.binds.length + 1
    · have hl' : ((subm.length : Int) != (t.binds.length : Int) + 1) = false := by
        simp; omega
      have hne : ¬ subm.length ≠ t.binds.length + 1 := by omega
      have hloop := binds_loop [] t.binds subm ps (by simp; omega)
      simp only [List.length_nil, Nat.zero_add] at hloop
      simp only [«match», treeMatch, Lib.Regexp_FindStringSubmatch, hf, Option.getD_some, hl', Bool.false_eq_true,
        if_false, hne, GoSem.enum]
      rw [hloop]
      exact ⟨trivial, rfl⟩
    · have hl' : ((subm.length : Int) != (t.binds.length : Int) + 1) = true := by
        simp; omega
      simp [«match», treeMatch, Lib.Regexp_FindStringSubmatch, hf, hl', hl]

/-- the definitions compute: the pattern `^([0-9]+)-((a|b)c)$` with binds `[id, kind, ""]` — the third group belongs to
the user's expression and is skipped -/
example :
    let E : Engine := { compile := fun _ => some 3, search := fun _ _ => true,
                        find := fun _ s => if s = [55, 45, 97, 99] then some [[55, 45, 97, 99], [55], [97, 99], [97]] else none }
    («match» E { baseTree := (), regexp := [94], binds := [[105, 100], [107], []] } [55, 45, 97, 99] []).1
      = (true, [([105, 100], [55]), ([107], [97, 99])]) := by decide

/-! ### `placeholderTree` (Gen/HoleTreeCode.lean) -/

/-- a placeholder subtree takes the whole segment — whatever it is — under its bind, and names exactly that bind -/
theorem hole_match_refines (t : Gen.HoleTreeCode.placeholderTree) (seg : Bytes) (ps : Params) :
    (Gen.HoleTreeCode.«match» t seg ps).1 = (true, ps.set t.bind seg)
      ∧ (Gen.HoleTreeCode.«match» t seg ps).2 = t
      ∧ treeMatch E (.hole t.bind) seg ps = some (ps.set t.bind seg)
      ∧ (Gen.HoleTreeCode.getBinds t).1 = (Pat.hole t.bind).binds := by
  refine ⟨?_, rfl, rfl, rfl⟩
  simp [Gen.HoleTreeCode.«match», mapSet_eq_set]

end Flamego.C02TreeCode
