/-
  Props/C12LeafCode.lean — C12 at the level of the CODE: `baseLeaf.URLPath`, the leaf's half of URL building.

  `Gen/LeafURLCode.lean` is regenerated from internal/route/leaf.go on every run (/verif/translator: gocode.go,
  treecode.go).  The body is three nested `range` loops (segments, with a `break` at the first optional segment that was not
  asked for; elements; the parameters of a parameter list, with a `continue` for the ones that bind nothing) writing into a
  `bytes.Buffer`, the fallback to "/" for an empty buffer, a `range` over the map of values building the replacer's flat
  list of pairs, and `strings.NewReplacer(pairs...).Replace(buf.String())`.  The buffer is its content and the replacer is
  the model's `replaceAll` (Code/LibRoute.lean; the correspondence check compares `replaceAll` with the real
  strings.Replacer on every run).  The map is ranged over in the order of the list that stands for it.

  Proved, for every route AST, every list of values and either setting of `withOptional`:

    * `params_loop`, `elem_body`, `skeleton_go_eq`, `pairs_loop`: each loop in closed form — what it writes is the model's
      `elemSkeleton` / `skeleton.go`, the pairs are `{k}` ↦ v in the order ranged over;
    * `urlPath_refines`: the body returns the model's `urlPath r vals withOptional`; the leaf is unchanged;
    * with Props/C12's theorems about `urlPath` this gives, for the code: `code_order_irrelevant` (the unspecified order of
      Go's map iteration cannot be observed — distinct brace-free keys), `code_unknown_ignored`, `code_annotations_dropped`,
      `code_tokenwise` (simultaneous substitution, never re-scanned), `code_optional_fallback_root`.
-/
import Flamego.Gen.LeafURLCode
import Flamego.Code.LoopLemmas
import Flamego.Props.C12
import Flamego.Code.LibRoute
set_option linter.unusedSimpArgs false
set_option linter.unusedVariables false
namespace Flamego.C12LeafCode
open Flamego.GoSem Flamego.Gen.LeafURLCode Flamego.Url Flamego.LoopLemmas

/-! ### the parser's AST in the Go structs of this module -/

def goVal : BindVal → BindParameterValue
  | .lit s => { Literal := some s, Regex := none }
  | .re s => { Literal := none, Regex := some s }
def goParam (p : BindParam) : BindParameter := { Ident := p.ident, Value := goVal p.val }
def goElem : Elem → SegmentElement
  | .ident s => { Pos := (), EndPos := (), Ident := some s, BindIdent := none, BindParameters := none }
  | .bind n => { Pos := (), EndPos := (), Ident := none, BindIdent := some n, BindParameters := none }
  | .params ps => { Pos := (), EndPos := (), Ident := none, BindIdent := none,
                    BindParameters := some { Parameters := ps.map goParam } }
def goSeg (s : Flamego.Segment) : Gen.LeafURLCode.Segment :=
  { Pos := (), Slash := [47], Optional := s.optional, Elements := s.elems.map goElem, strOnce := false, str := [] }
def goRoute (r : Flamego.Route) : Gen.LeafURLCode.Route :=
  { Segments := r.segs.map fun s => some (goSeg s), strOnce := false, str := [] }

/-! ### what each level writes -/

/-- the braces of one parameter of a list after its first: written iff it and the list's first parameter are expressions -/
def tailBind (p0 : BindParam) (q : BindParam) : Bytes :=
  match p0.val, q.val with
  | .re _, .re _ => B "{" ++ q.ident ++ B "}"
  | _, _ => []

theorem elemSkeleton_params (p : BindParam) (ps : List BindParam) :
    elemSkeleton (.params (p :: ps)) = B "{" ++ p.ident ++ B "}" ++ ps.flatMap (tailBind p) := by
  obtain ⟨pid, pv⟩ := p
  cases pv with
  | lit l =>
    have h : ∀ qs : List BindParam, qs.flatMap (tailBind ⟨pid, .lit l⟩) = [] := by
      intro qs
      induction qs with
      | nil => rfl
      | cons q qs ih => rw [List.flatMap_cons, ih]; simp [tailBind]
    simp only [elemSkeleton, h]
  | re e =>
    have h : ∀ qs : List BindParam, (qs.flatMap fun q => match q.val with
          | .re _ => B "{" ++ q.ident ++ B "}"
          | .lit _ => []) = qs.flatMap (tailBind ⟨pid, .re e⟩) := by
      intro qs
      induction qs with
      | nil => rfl
      | cons q qs ih =>
        obtain ⟨qid, qv⟩ := q
        rw [List.flatMap_cons, List.flatMap_cons, ih]
        cases qv <;> simp [tailBind]
    simp only [elemSkeleton]
    exact congrArg _ (h ps)


/-- the innermost loop: the braces of every parameter the list binds -/
theorem params_loop (p : BindParam) (ps : List BindParam) (buf : Lib.Buffer) (body : Int × BindParameter → Lib.Buffer → GoSem.Ctl Bytes × Lib.Buffer)
    (hb : ∀ (i : Int) (q : BindParameter) (b : Lib.Buffer), body (i, q) b =
      if ((decide (i > 0)) && (((q.Value.Regex).isNone || (((goParam p).Value).Regex).isNone))) then (GoSem.Ctl.next, b)
      else (GoSem.Ctl.next, Lib.Buffer_WriteString (Lib.Buffer_WriteString (Lib.Buffer_WriteString b [123]) q.Ident) [125])) :
    GoSem.forRangeCtl (ρ := Bytes) (GoSem.enum ((p :: ps).map goParam)) body buf
      = (GoSem.Ctl.next, Lib.Buffer_WriteString buf (elemSkeleton (.params (p :: ps)))) := by
  have hfirst : body (((0 : Nat) : Int), goParam p) buf = (GoSem.Ctl.next, buf ++ (B "{" ++ p.ident ++ B "}")) := by
    rw [hb]; simp [Lib.Buffer_WriteString, goParam, B]
  have htail := loop_next_from (ρ := Bytes) goParam (fun (b : Lib.Buffer) q => b ++ tailBind p q) body 1 (by
    intro i q b hi
    rw [hb]
    obtain ⟨pid, pv⟩ := p
    obtain ⟨qid, qv⟩ := q
    have : ((i : Int) > 0) := by omega
    have hi0 : ¬ i = 0 := by omega
    cases pv <;> cases qv <;> simp [goParam, goVal, tailBind, this, hi0, Lib.Buffer_WriteString, B]) ps 1 (Nat.le_refl 1)
  simp only [GoSem.enum, List.map_cons, List.zipIdx_cons, GoSem.forRangeCtl, hfirst, Nat.zero_add]
  rw [htail, elemSkeleton_params]
  congr 1
  simp only [Lib.Buffer_WriteString, foldl_append_flatMap, List.append_assoc]


/-- what one element writes -/
theorem elem_body (e : Elem) (buf : Lib.Buffer) :
    (if ((goElem e).Ident).isSome then (
        let buf := Lib.Buffer_WriteString buf (GoSem.deref (goElem e).Ident);
        ((GoSem.Ctl.next : GoSem.Ctl Bytes), buf)
      ) else (
        if ((goElem e).BindIdent).isSome then (
          let buf := Lib.Buffer_WriteString buf (([123] : Bytes));
          let buf := Lib.Buffer_WriteString buf (GoSem.deref (goElem e).BindIdent);
          let buf := Lib.Buffer_WriteString buf (([125] : Bytes));
          (GoSem.Ctl.next, buf)
        ) else (
          if (((goElem e).BindParameters).isNone || (((GoSem.deref (goElem e).BindParameters).Parameters.length : Int) == 0)) then (
            let buf := Lib.Buffer_WriteString buf (([63, 63, 63] : Bytes));
            (GoSem.Ctl.next, buf)
          ) else (
            let (ctl_, buf) := GoSem.forRangeCtl (ρ := Bytes) (GoSem.enum ((GoSem.deref (goElem e).BindParameters).Parameters)) (fun (i, p) buf =>
                if ((decide (i > 0)) && (((p.Value.Regex).isNone || ((((GoSem.idx ((GoSem.deref (goElem e).BindParameters).Parameters) 0).Value).Regex)).isNone))) then (
                  (GoSem.Ctl.next, buf)
                ) else (
                  let buf := Lib.Buffer_WriteString buf (([123] : Bytes));
                  let buf := Lib.Buffer_WriteString buf p.Ident;
                  let buf := Lib.Buffer_WriteString buf (([125] : Bytes));
                  (GoSem.Ctl.next, buf)
                )
              ) buf;
            (GoSem.Ctl.next, buf)
          )
        )
      )) = (GoSem.Ctl.next, buf ++ elemSkeleton e) := by
  cases e with
  | ident s => simp [goElem, GoSem.deref, Lib.Buffer_WriteString, elemSkeleton]
  | bind n => simp [goElem, GoSem.deref, Lib.Buffer_WriteString, elemSkeleton, B]
  | params ps =>
    cases ps with
    | nil => simp [goElem, GoSem.deref, Lib.Buffer_WriteString, elemSkeleton, B]
    | cons p ps =>
      simp only [goElem, GoSem.deref, Option.isSome_none, Bool.false_eq_true, if_false, Option.isNone_some, Bool.false_or]
      have hlen : ((((List.map goParam (p :: ps)).length : Nat) : Int) == 0) = false := by
        simp only [List.map_cons, List.length_cons, beq_eq_false_iff_ne, ne_eq]; omega
      have hidx : GoSem.idx (List.map goParam (p :: ps)) 0 = goParam p := by simp [GoSem.idx]
      simp only [Option.getD_some, hlen, Bool.false_eq_true, if_false, hidx]
      rw [params_loop p ps buf _ (fun i q b => rfl)]
      rfl


theorem B_slash : B "/" = [47] := by decide
theorem B_open : B "{" = [123] := by decide
theorem B_close : B "}" = [125] := by decide

theorem skeleton_go_eq (wo : Bool) (segs : List Flamego.Segment) (acc : Bytes) :
    (segs.takeWhile (fun s => !(s.optional && !wo))).foldl
        (fun (b : Bytes) s => (b ++ [47]) ++ s.elems.flatMap elemSkeleton) acc
      = acc ++ skeleton.go wo segs := by
  induction segs generalizing acc with
  | nil => simp [skeleton.go]
  | cons s rest ih =>
    cases hs : (s.optional && !wo) with
    | true =>
      rw [List.takeWhile_cons, hs]
      simp only [Bool.not_true, Bool.false_eq_true, if_false, List.foldl_nil, skeleton.go, hs, if_true, List.append_nil]
    | false =>
      rw [List.takeWhile_cons, hs]
      simp only [Bool.not_false, if_true, List.foldl_cons]
      rw [ih]
      simp only [skeleton.go, hs, Bool.false_eq_true, if_false, B_slash, List.append_assoc]

theorem pairs_loop (vals : List (Bytes × Bytes)) (acc : List Bytes) (body : Bytes × Bytes → List Bytes → GoSem.Ctl Bytes × List Bytes)
    (hb : ∀ k v ps, body (k, v) ps = (GoSem.Ctl.next, ps ++ [(([123] : Bytes) ++ k) ++ ([125] : Bytes), v])) :
    GoSem.forRangeCtl (ρ := Bytes) vals body acc
      = (GoSem.Ctl.next, acc ++ vals.flatMap fun kv => [(([123] : Bytes) ++ kv.1) ++ ([125] : Bytes), kv.2]) := by
  induction vals generalizing acc with
  | nil => simp [GoSem.forRangeCtl]
  | cons kv vals ih =>
    obtain ⟨k, v⟩ := kv
    simp only [GoSem.forRangeCtl, hb, ih, List.flatMap_cons, List.append_assoc]

theorem pairUp_flat (vals : List (Bytes × Bytes)) :
    Lib.pairUp (vals.flatMap fun kv => [(([123] : Bytes) ++ kv.1) ++ ([125] : Bytes), kv.2])
      = vals.map fun (k, v) => (B "{" ++ k ++ B "}", v) := by
  have hf : (fun (x : Bytes × Bytes) => match x with | (k, v) => (B "{" ++ k ++ B "}", v))
      = fun kv => ((([123] : Bytes) ++ kv.1) ++ ([125] : Bytes), kv.2) := by
    funext ⟨k, v⟩; simp only [B_open, B_close]
  rw [hf]
  induction vals with
  | nil => rfl
  | cons kv vals ih =>
    rw [List.flatMap_cons, List.map_cons, ← ih]
    rfl


/-- **`baseLeaf.URLPath` is the model's `urlPath`**: for every route the parser can produce, every list of values and
either setting of `withOptional`, the translated body returns what the model's function returns, and leaves the leaf as
it was -/
theorem urlPath_refines (l : baseLeaf) (r : Flamego.Route) (hl : l.route = some (goRoute r))
    (vals : List (Bytes × Bytes)) (wo : Bool) :
    URLPath l vals wo = (Flamego.urlPath r vals wo, l) := by
  have hsegs : (GoSem.deref l.route).Segments = r.segs.map fun s => some (goSeg s) := by rw [hl]; rfl
  unfold URLPath
  simp only [hsegs, GoSem.enum]
  rw [loop_brk (ρ := Bytes) (fun s => some (goSeg s)) (fun s => s.optional && !wo)
        (fun (b : Lib.Buffer) s => (b ++ [47]) ++ s.elems.flatMap elemSkeleton) _ (by
      intro i s st
      cases hs : (s.optional && !wo) with
      | true => simp [GoSem.deref, goSeg, hs]
      | false =>
        have hs' : ((GoSem.deref (some (goSeg s))).Optional && !wo) = false := hs
        have hel : (GoSem.deref (some (goSeg s))).Elements = s.elems.map goElem := rfl
        simp only [hs', hel, Bool.false_eq_true, if_false, GoSem.enum]
        rw [loop_next (ρ := Bytes) goElem (fun (b : Lib.Buffer) e => b ++ elemSkeleton e) _
              (fun i e b => elem_body e b)]
        simp only [foldl_append_flatMap, Lib.Buffer_WriteString])]
  rw [skeleton_go_eq]
  simp only
  rw [pairs_loop vals [] _ (fun k v ps => rfl)]
  simp only [List.nil_append, Lib.Replacer_Replace, Lib.strings_NewReplacer, pairUp_flat, Lib.Buffer_String,
    Flamego.urlPath, Flamego.skeleton]
  have hd : (default : Lib.Buffer) = ([] : Bytes) := rfl
  rw [hd, List.nil_append]
  cases hgo : skeleton.go wo r.segs with
  | nil => simp [Lib.Buffer_Len, Lib.Buffer_WriteString, B_slash]
  | cons c cs =>
    have : (Lib.Buffer_Len (c :: cs) == 0) = false := by
      simp only [Lib.Buffer_Len, List.length_cons, beq_eq_false_iff_ne, ne_eq]; omega
    simp [this]


/-! ### Props/C12's theorems, for the code -/

/-- the order in which Go ranges over the map of values cannot be observed -/
theorem code_order_irrelevant (l : baseLeaf) (r : Flamego.Route) (hl : l.route = some (goRoute r))
    (vals vals' : List (Bytes × Bytes)) (wo : Bool) (hr : BraceFree r = true)
    (hv : vals.all (fun p => noBrace p.1) = true) (hd : DistinctKeys vals) (hp : vals.Perm vals') :
    (URLPath l vals wo).1 = (URLPath l vals' wo).1 := by
  rw [urlPath_refines l r hl, urlPath_refines l r hl]
  exact C12.urlPath_perm r vals vals' wo hr hv hd hp

/-- every hole is substituted simultaneously; substituted text is never scanned again -/
theorem code_tokenwise (l : baseLeaf) (r : Flamego.Route) (hl : l.route = some (goRoute r))
    (vals : List (Bytes × Bytes)) (wo : Bool) (hr : BraceFree r = true) (hv : vals.all (fun p => noBrace p.1) = true) :
    (URLPath l vals wo).1 = (skeletonToks r wo).flatMap (Tok.subst vals) := by
  rw [urlPath_refines l r hl]
  exact C12.urlPath_tokenwise r vals wo hr hv

/-- a supplied name that is no hole of the route changes nothing -/
theorem code_unknown_ignored (l : baseLeaf) (r : Flamego.Route) (hl : l.route = some (goRoute r))
    (vals : List (Bytes × Bytes)) (wo : Bool) (k v : Bytes) (hr : BraceFree r = true)
    (hv : vals.all (fun p => noBrace p.1) = true) (hk : noBrace k = true) (hunk : Tok.hole k ∉ skeletonToks r wo) :
    (URLPath l ((k, v) :: vals) wo).1 = (URLPath l vals wo).1 := by
  rw [urlPath_refines l r hl, urlPath_refines l r hl]
  exact C12.unknown_value_ignored r vals wo k v hr hv hk hunk

/-- no regex text, literal text or capture limit influences the URL -/
theorem code_annotations_dropped (l l' : baseLeaf) (r : Flamego.Route) (hl : l.route = some (goRoute r))
    (hl' : l'.route = some (goRoute (stripRoute r))) (vals : List (Bytes × Bytes)) (wo : Bool) :
    (URLPath l vals wo).1 = (URLPath l' vals wo).1 := by
  rw [urlPath_refines l r hl, urlPath_refines l' _ hl']
  exact C12.urlPath_annotations_dropped r vals wo

/-- a route whose first segment is optional, built without it, is the root path -/
theorem code_optional_fallback_root (l : baseLeaf) (r : Flamego.Route) (hl : l.route = some (goRoute r))
    (s : Flamego.Segment) (rest : List Flamego.Segment) (h : r.segs = s :: rest) (ho : s.optional = true)
    (vals : List (Bytes × Bytes)) : (URLPath l vals false).1 = B "/" := by
  rw [urlPath_refines l r hl]
  exact C12.urlPath_fallback_root r s rest h ho vals

/-! ### joined with the router's half -/

/-- a leaf of the model as the Go struct `URLPath` runs on -/
def leafCodeOf (l : Flamego.Leaf) : baseLeaf := { (default : baseLeaf) with route := some (goRoute l.route) }

/-- what `Lib.Leaf_URLPath` stands for in the translated `router.URLPath` (Props/C12Code) is what the translated
`baseLeaf.URLPath` computes on that leaf: the two halves of URL building, joined at the level of the code -/
theorem leaf_urlPath_is_lib (l : Flamego.Leaf) (vals : List (Bytes × Bytes)) (wo : Bool) :
    Lib.Leaf_URLPath l vals wo = (URLPath (leafCodeOf l) vals wo).1 := by
  rw [urlPath_refines (leafCodeOf l) l.route rfl]
  rfl

/-! ### the definitions compute -/

def demoRoute : Flamego.Route :=
  ⟨[⟨false, [.ident [117]]⟩,                                             -- /u
    ⟨false, [.params [⟨[97], .re [46, 43]⟩, ⟨[98], .re [46]⟩, ⟨[99], .lit [50]⟩]]⟩,   -- /{a: /.+/, b: /./, c: 2}
    ⟨true, [.bind [120]]⟩]⟩                                              -- /?{x}
def demoLeaf : baseLeaf := { (default : baseLeaf) with route := some (goRoute demoRoute) }

/-- `/u/{a}{b}/{x}` with a ↦ "{b}", b ↦ "1": the substituted `{b}` is not scanned again; `{x}` stays visible -/
example : (URLPath demoLeaf [([97], [123, 98, 125]), ([98], [49])] true).1
    = [47, 117, 47, 123, 98, 125, 49, 47, 123, 120, 125] := by decide
example : (URLPath demoLeaf [] false).1 = [47, 117, 47, 123, 97, 125, 123, 98, 125] := by decide

end Flamego.C12LeafCode
