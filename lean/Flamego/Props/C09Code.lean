/-
  Props/C09Code.lean — C09 at the level of the CODE: `HeaderMatcher.Match`.

  `Gen/HeaderCode.lean` is regenerated from internal/route/header_matcher.go on every run (/verif/translator: gocode.go,
  headercode.go).  Its `Match` ranges over a Go map — in an order Go does not specify; in the translation the list's order
  stands for whichever order the run took.  This file proves, for every regex engine, every constraint set and every
  header set:

    * `match_refines`: the generated `Match` is the model's `hdrPairsOK` (Model/Router.lean — the function every C09
      theorem of Props/C09 and Props/C09Values is about), when the header set is read through `Header.Get`;
    * `match_order_irrelevant`: its answer does not depend on the order in which the map is ranged over;
    * `match_iff`: it answers true exactly when every constrained header carries a non-empty first value that its
      expression finds — the property's clause, of the code's own body;
    * `match_pure`: matching changes nothing in the matcher.
-/
import Flamego.Gen.HeaderCode
import Flamego.Model.Router
set_option linter.unusedSimpArgs false
namespace Flamego.C09Code
open Flamego.GoSem Flamego.Gen.HeaderCode

/-- the verdict of one constraint on a header set -/
def pairOK (E : Engine) (header : Lib.Header) (c : Bytes × Lib.Regexp) : Bool :=
  Lib.Header_Get header c.1 != [] && E.search c.2 (Lib.Header_Get header c.1)

/-- the loop of `Match`, in closed form -/
theorem match_closed (E : Engine) (m : HeaderMatcher) (header : Lib.Header) :
    (Match E m header).1 = m.«matches».all (pairOK E header) ∧ (Match E m header).2 = m := by
  unfold Match GoSem.forRangeRet
  have hlam : (fun (p : Bytes × Lib.Regexp) => match p with
        | (name, re) =>
          if (Lib.Header_Get header name == ([] : Bytes)) then some false
          else if (!(Lib.Regexp_MatchString E re (Lib.Header_Get header name))) then some false else none)
      = fun p => if pairOK E header p then none else some false := by
    funext ⟨name, re⟩
    simp only [pairOK, Lib.Regexp_MatchString]
    by_cases h1 : Lib.Header_Get header name = [] <;> by_cases h2 : E.search re (Lib.Header_Get header name) <;>
      simp [h1, h2]
  simp only [hlam]
  induction m.«matches» with
  | nil => simp
  | cons c cs ih =>
    by_cases hc : pairOK E header c
    · simp only [List.findSome?_cons, hc, if_true, List.all_cons, Bool.true_and]; exact ih
    · simp [List.findSome?_cons, hc]

theorem match_pure (E : Engine) (m : HeaderMatcher) (header : Lib.Header) : (Match E m header).2 = m :=
  (match_closed E m header).2

/-- (clause) `Match` is true exactly when every constrained header is present with a non-empty first value that the
constraint's expression finds -/
theorem match_iff (E : Engine) (m : HeaderMatcher) (header : Lib.Header) :
    (Match E m header).1 = true ↔
      ∀ c ∈ m.«matches», Lib.Header_Get header c.1 ≠ [] ∧ E.search c.2 (Lib.Header_Get header c.1) = true := by
  rw [(match_closed E m header).1, List.all_eq_true]
  constructor
  · intro h c hc; have := h c hc; simpa [pairOK] using this
  · intro h c hc; have := h c hc; simpa [pairOK] using this

/-- the order in which Go ranges over the map of constraints cannot matter -/
theorem match_order_irrelevant (E : Engine) (cs₁ cs₂ : List (Bytes × Lib.Regexp)) (header : Lib.Header)
    (hp : cs₁.Perm cs₂) :
    (Match E (NewHeaderMatcher cs₁) header).1 = (Match E (NewHeaderMatcher cs₂) header).1 := by
  rw [(match_closed E _ header).1, (match_closed E _ header).1]
  simp only [NewHeaderMatcher]
  rw [Bool.eq_iff_iff, List.all_eq_true, List.all_eq_true]
  exact ⟨fun h c hc => h c (hp.mem_iff.mpr hc), fun h c hc => h c (hp.mem_iff.mp hc)⟩

/-- REFINEMENT: the matcher built from a constraint list (raw name ↦ expression, as `Headers()` passes them) answers
what the model's `hdrPairsOK` answers on the request's headers, when `req` is what `Header.Get` returns for each
constrained name (canonical name ↦ first value; an absent header reads as "") -/
theorem match_refines (E : Engine) (pairs : List HdrPair) (header : Lib.Header) (req : List (Bytes × Bytes))
    (hget : ∀ p ∈ pairs, Lib.Header_Get header p.raw = (assocGet req p.canon).getD []) :
    (Match E (NewHeaderMatcher (pairs.map fun p => (p.raw, p.expr))) header).1 = hdrPairsOK E pairs req := by
  rw [(match_closed E _ header).1]
  simp only [NewHeaderMatcher, hdrPairsOK]
  induction pairs with
  | nil => rfl
  | cons p ps ih =>
    simp only [List.map_cons, List.all_cons]
    rw [ih (fun q hq => hget q (by simp [hq]))]
    congr 1
    simp only [pairOK, hget p (by simp)]
    cases h : assocGet req p.canon with
    | none => simp
    | some v => by_cases hv : v = [] <;> simp [hv]

/-- non-vacuity: a matcher with two constraints, a header set that satisfies one of them only -/
example :
    let E : Engine := { compile := fun _ => some 0, find := fun _ _ => none, search := fun p s => p == s }
    (Match E (NewHeaderMatcher [([65], [49]), ([66], [50])]) [([65], [[49]]), ([66], [[50]])]).1 = true
      ∧ (Match E (NewHeaderMatcher [([65], [49]), ([66], [50])]) [([65], [[49]]), ([66], [[51]])]).1 = false
      ∧ (Match E (NewHeaderMatcher [([65], [49]), ([66], [50])]) [([65], [[49]])]).1 = false := by decide

end Flamego.C09Code
