/-
  Props/C01LeafCode.lean — C01 / C02 at the level of the CODE: the match-all leaf (`matchAllLeaf.match`, `matchAll`).

  `Gen/AllLeafCode.lean` is regenerated from internal/route/leaf.go on every run.  `matchAll` decides whether a match-all leaf
  may take everything that is left of the path — its capture limit counts the segments from the current one on — and which
  value it binds.  For every leaf, path, position, segment and parameter map, with the position inside the path
  (`1 ≤ next ≤ len(path)`, which the matcher guarantees: C07's `matchIdx_cursor_invariant`; outside it the Go slice
  expressions panic, which the translation does not represent):

    * `matchAll_refines`: the generated `matchAll` is the index-level model's `matchAllLeafIdx` on a node whose last leaf is
      this leaf (Model/TreeIdx.lean): refused when the limit is positive and smaller than the number of remaining segments,
      refused when the header constraints fail, else the bind is set to `segment + "/" + path[next:]`;
    * `match_refines`: `match` (the leaf as the LAST segment's taker) sets the bind to the segment when the constraints hold.
-/
import Flamego.Gen.AllLeafCode
import Flamego.Model.TreeIdx
set_option linter.unusedSimpArgs false
set_option linter.unusedVariables false
namespace Flamego.C01LeafCode
open Flamego.GoSem Flamego.Gen.AllLeafCode

theorem mapSet_eq_set (ps : Params) (k v : Bytes) : GoSem.mapSet ps k v = ps.set k v := by
  induction ps with
  | nil => rfl
  | cons kv ps ih =>
    obtain ⟨k', v'⟩ := kv
    by_cases h : k' = k <;> simp [GoSem.mapSet, Params.set, h, ih]

theorem count_eq (s : Bytes) : Lib.strings_Count s [47] = ((countSlash s : Nat) : Int) := by
  unfold Lib.strings_Count
  congr 1
  induction s with
  | nil => rfl
  | cons c cs ih =>
    by_cases h : c = slash
    · subst h; simp [countSlash, List.filter_cons, slash, ih]; omega
    · have h' : (c == (47 : UInt8)) = false := by simpa [slash] using h
      simp [countSlash, List.filter_cons, h, h', ih]

/-- the model leaf for a code leaf: pattern `all bind capture`, registration `hid` -/
def leafOf (l : Gen.AllLeafCode.matchAllLeaf) (hid : Nat) (r : Route) : Leaf :=
  { key := [], pat := .all l.bind l.capture, hid := hid, route := r, long := true, allStatic := false }

theorem matchAll_refines (hdrOK : Gen.AllLeafCode.matchAllLeaf → Lib.Header → Bool) (hok : Nat → Bool) (l : Gen.AllLeafCode.matchAllLeaf) (hid : Nat)
    (r : Route) (pre : List Leaf) (path segment : Bytes) (next : Nat) (ps : Params) (header : Lib.Header)
    (hh : hdrOK l header = hok hid) (h1 : 1 ≤ next) (h2 : next ≤ path.length) :
    matchAllLeafIdx hok (pre ++ [leafOf l hid r]) path segment next ps
      = .ok (if (matchAll hdrOK l path segment (next : Int) ps header).1.1
             then (some (leafOf l hid r), (matchAll hdrOK l path segment (next : Int) ps header).1.2)
             else (none, ps))
    ∧ ((matchAll hdrOK l path segment (next : Int) ps header).1.1 = false →
        (matchAll hdrOK l path segment (next : Int) ps header).1.2 = ps)
    ∧ (matchAll hdrOK l path segment (next : Int) ps header).2 = l := by
  obtain ⟨m, rfl⟩ : ∃ m, next = m + 1 := ⟨next - 1, by omega⟩
  have hs1 : GoSem.sliceFrom path (((m + 1 : Nat) : Int) - 1) = path.drop m := by
    unfold GoSem.sliceFrom
    have : (((m + 1 : Nat) : Int) - 1).toNat = m := by omega
    rw [this]
  have hs2 : GoSem.sliceFrom path ((m + 1 : Nat) : Int) = path.drop (m + 1) := by
    unfold GoSem.sliceFrom
    have : (((m + 1 : Nat) : Int)).toNat = m + 1 := by omega
    rw [this]
  have hm : m ≤ path.length := by omega
  unfold matchAllLeafIdx
  simp only [List.getLast?_append, List.getLast?_singleton, Option.some_or, leafOf, sliceFromPred, sliceFrom, hm, h2,
    if_true, matchAll, hs1, hs2, count_eq, hh]
  by_cases hc : l.capture > 0
  · by_cases hlim : l.capture < ((countSlash (path.drop m) : Nat) : Int) + 1
    · have hlim' : l.capture < (((countSlash (path.drop m) + 1 : Nat)) : Int) := by omega
      simp [hc, hlim, hlim']
    · have hlim' : ¬ l.capture < (((countSlash (path.drop m) + 1 : Nat)) : Int) := by omega
      cases hk : hok hid <;> simp [hc, hlim, hlim', hk, mapSet_eq_set, slash]
  · cases hk : hok hid <;> simp [hc, hk, mapSet_eq_set, slash]

theorem match_refines (hdrOK : Gen.AllLeafCode.matchAllLeaf → Lib.Header → Bool) (l : Gen.AllLeafCode.matchAllLeaf) (seg : Bytes) (ps : Params)
    (header : Lib.Header) :
    («match» hdrOK l seg ps header).1 = (if hdrOK l header then (true, ps.set l.bind seg) else (false, ps))
      ∧ («match» hdrOK l seg ps header).2 = l := by
  cases h : hdrOK l header <;> simp [«match», h, mapSet_eq_set]

end Flamego.C01LeafCode
