/-
  Props/C15Env.lean — C15 says "panic detail appears in the body only in development mode"; which mode a process is
  in is decided by `flame.go`'s `init` (the variable FLAMEGO_ENV) and by `SetEnv` calls.  The theorems are over every
  value of the variable and every sequence of calls (Model/Env); the `envinit` sessions run the real package in fresh
  processes.
-/
import Flamego.Model.Env
import Flamego.Props.C15
namespace Flamego.Env

/-- the environment is always one of the three documented values -/
theorem run_valid (var : Bytes) (calls : List Bytes) : valid (run var calls) = true := by
  unfold run
  have h0 : valid (initEnv var) = true := by
    unfold initEnv setEnv
    by_cases hv : valid var = true
    · simp [hv]
    · simp [hv]; decide
  generalize initEnv var = cur at h0
  induction calls generalizing cur with
  | nil => simpa
  | cons c cs ih =>
    simp only [List.foldl_cons]
    apply ih
    unfold setEnv
    by_cases hv : valid c = true
    · simp [hv]
    · simp [hv, h0]

/-- an unset, empty or unknown `FLAMEGO_ENV` leaves the default: development -/
theorem init_default (var : Bytes) (h : valid var = false) : initEnv var = dev := by
  simp [initEnv, setEnv, h]

/-- a valid `FLAMEGO_ENV` is the environment of the process -/
theorem init_valid (var : Bytes) (h : valid var = true) : initEnv var = var := by
  simp [initEnv, setEnv, h]

/-- `SetEnv` with an invalid value changes nothing; with a valid one it is the new environment -/
theorem setEnv_invalid (cur e : Bytes) (h : valid e = false) : setEnv cur e = cur := by simp [setEnv, h]
theorem setEnv_valid (cur e : Bytes) (h : valid e = true) : setEnv cur e = e := by simp [setEnv, h]

/-- the environment after a run is the last VALID value among the variable and the calls, development when there is none -/
theorem run_last_valid (var : Bytes) (calls : List Bytes) :
    run var calls = (((var :: calls).filter valid).getLast?).getD dev := by
  unfold run
  have key : ∀ (cs : List Bytes) (cur : Bytes), cs.foldl setEnv cur = ((cs.filter valid).getLast?).getD cur := by
    intro cs
    induction cs with
    | nil => intro cur; simp
    | cons c cs ih =>
      intro cur
      simp only [List.foldl_cons, ih]
      by_cases hv : valid c = true
      · simp only [setEnv, hv, if_true, List.filter_cons_of_pos hv]
        cases hf : cs.filter valid with
        | nil => simp
        | cons x xs =>
          cases hl : (x :: xs).getLast? with
          | none => simp [List.getLast?_eq_none_iff] at hl
          | some y => simp [hl]
      · have hv' : valid c = false := by simpa using hv
        simp [setEnv, hv', List.filter_cons]
  rw [key]
  by_cases hv : valid var = true
  · simp only [initEnv, setEnv, hv, if_true, List.filter_cons_of_pos hv]
    cases hf : calls.filter valid with
    | nil => simp
    | cons x xs =>
      cases hl : (x :: xs).getLast? with
      | none => simp [List.getLast?_eq_none_iff] at hl
      | some y => simp [hl]
  · have hv' : valid var = false := by simpa using hv
    simp [initEnv, setEnv, hv', List.filter_cons]

/-- development mode — the only mode in which Recovery writes panic detail — is entered only by the default or by an
    explicit "development": no other text switches detail on -/
theorem dev_only_if (var : Bytes) (calls : List Bytes) (h : isDev (run var calls) = true) :
    (∀ e ∈ var :: calls, valid e = false) ∨ dev ∈ var :: calls := by
  rw [run_last_valid] at h
  cases hf : ((var :: calls).filter valid).getLast? with
  | none =>
    left
    intro e he
    have hnil : ∀ a ∈ var :: calls, ¬ valid a = true :=
      List.filter_eq_nil_iff.mp (List.getLast?_eq_none_iff.mp hf)
    simpa using hnil e he
  | some x =>
    right
    rw [hf] at h
    simp only [Option.getD_some, isDev, beq_iff_eq] at h
    subst h
    have := List.mem_of_getLast? hf
    exact (List.mem_filter.mp this).1

example : run prod [] = prod ∧ run [98, 111, 103, 117, 115] [] = dev ∧ run [] [test, 80 :: prod.tail] = test ∧
    isDev (run prod [[120]]) = false := by decide


/-! ### the two halves together: C15's "only in development mode", down to the process environment -/

/-- A request served by a chain with Recovery in a process started with `FLAMEGO_ENV = var` that has called `SetEnv`
    with each of `calls` (so that the chain's `dev` flag is `isDev (run var calls)`): panic detail reaches the client
    only if the mode was never set to a valid value at all (the default), or "development" was given explicitly —
    in particular never in a process started with FLAMEGO_ENV=production that does not itself call
    SetEnv("development"). -/
theorem detail_only_if_development_was_chosen (c : Chain.Cfg) (var : Bytes) (calls : List Bytes)
    (hdev : c.dev = isDev (run var calls)) (h : Chain.Tok.detail ∈ (Chain.serve c).out) :
    (∀ e ∈ var :: calls, valid e = false) ∨ dev ∈ var :: calls := by
  have := Flamego.Chain.body_detail_only_in_dev c h
  rw [hdev] at this
  exact dev_only_if var calls this

/-- … and a process in production or test mode never shows it, whatever panics -/
theorem no_detail_in_production (c : Chain.Cfg) (var : Bytes) (calls : List Bytes)
    (hdev : c.dev = isDev (run var calls)) (hmode : run var calls = prod ∨ run var calls = test) :
    Chain.Tok.detail ∉ (Chain.serve c).out := by
  intro h
  have := Flamego.Chain.body_detail_only_in_dev c h
  rw [hdev] at this
  rcases hmode with hm | hm <;> rw [hm] at this <;> revert this <;> decide

end Flamego.Env
