/-
  Props/C05Req.lean — C05 isolation on the CONCRETE models of the request-scoped state (PARTIAL, as all of C05).

  Property C05: "Once set-up has finished, any number of requests may be served concurrently: every
  response is the one the same request would get if served alone, each handler observes only its own
  request's parameters, injected request-scoped values and response writer, and no execution contains
  a data race on framework state."

  Props/C05.lean proves the frame argument for an abstract `Conc.Machine` whose `step` is opaque.
  Here the machine is `ConcReq.reqMachine` (Model/ConcReq): a request is the list of micro-operations
  its handlers perform against their context — `map`/`lookup` on the injector scope chain of
  Model/Inject, `Writer.Op`s on the writer of Model/Writer, reads and stores of its `Params`, the
  once-guarded `Route.String()`, `Router.urlPath` on the shared router — and `Conc.run` interleaves the
  micro-operations of any number of requests in any order.

  Quantifiers: every `Config` (universe of types, application scope chain, router, routes), every
  family of requests `reqs : Nat → Req` (any programs, any params, any services), every schedule
  `sched : List Nat` (any length, any number of requests), every iteration choice inside `lookup`.

  The shared `Config` is NOT a component of `Conc.World`: `stepReq : Config → Req → St → String → St`
  takes it as an argument and has no way of returning one, so "the configuration is unchanged" holds by
  the type of the machine; `shared_config_unchanged` states what is left to say (the only shared
  mutable component, the once-guarded cache, holds nothing but renderings of `Config`; a request that
  starts after any interleaving is served as if nothing had happened).

  What stays outside (see Props/C05.lean and the `level_note` of C05): the Go memory model, the
  scheduler, the footprint extraction, application handlers.  The tie of this machine to the code is
  the `concreq` sessions of suite C05 (harness/concreq.go, Driver/ConcReq.lean): the observations the
  real handlers make while N requests are in flight are compared with `solo` of this machine.
-/
import Flamego.Proofs.ConcReq
import Flamego.Props.C05
import Flamego.Props.C04
import Flamego.Props.C13

namespace Flamego.ConcReq
open Flamego.Inject (Ty Val Scope Universe)
open Flamego.Conc (World stepsOf)
open Flamego.Gen.ConcFacts

/-- the world after the interleaving `sched`, every request started from its initial record -/
abbrev runReq (cfg : Config) (reqs : Nat → Req) (sched : List Nat) : World St :=
  Conc.run reqMachine cfg reqs sched (World.start reqMachine reqs)

/-- the same request served alone for its first `n` micro-operations: a plain left fold -/
abbrev alone (cfg : Config) (req : Req) (n : Nat) : St :=
  runSeq cfg (initReq req) (req.prog.take n)

/-! ## every interleaving is serial for every request -/

/-- C05 "every response is the one the same request would get if served alone; each handler observes
    only its own request's parameters, injected request-scoped values and response writer": in EVERY
    interleaving of the micro-operations of any number of requests, the record of request `i` is the
    `Conc.solo` record (the instance of `interleaving_serial`), which is the sequential run of the first
    `stepsOf i sched` operations of its own program; in particular its observation list (what every
    lookup, param read, URLPath, Route.String and writer call returned), the events its writer
    forwarded and its status are those of the request served alone.  Every prefix of a schedule is a
    schedule, so this holds at every moment of the execution. -/
theorem req_interleaving_serial (cfg : Config) (reqs : Nat → Req) (sched : List Nat) (i : Nat) :
    let st := (runReq cfg reqs sched).locals i
    st = Conc.solo reqMachine cfg (reqs i) (stepsOf i sched) ∧
    st = alone cfg (reqs i) (stepsOf i sched) ∧
    st.obs = (alone cfg (reqs i) (stepsOf i sched)).obs ∧
    st.writer.under = (alone cfg (reqs i) (stepsOf i sched)).writer.under ∧
    st.writer.status = (alone cfg (reqs i) (stepsOf i sched)).writer.status ∧
    st.params = (alone cfg (reqs i) (stepsOf i sched)).params := by
  have h := (Conc.interleaving_serial reqMachine cfg reqs sched).2 i
  have h2 : (runReq cfg reqs sched).locals i = alone cfg (reqs i) (stepsOf i sched) := by
    exact h.trans (solo_eq_runSeq cfg (reqs i) (stepsOf i sched))
  exact ⟨h, h2, by rw [h2], by rw [h2], by rw [h2], by rw [h2]⟩

/-- … and once request `i` has performed all of its operations, its record is that of the whole
    request served alone from beginning to end, however the other requests were interleaved with it. -/
theorem completed_request_serial (cfg : Config) (reqs : Nat → Req) (sched : List Nat) (i : Nat)
    (hdone : (reqs i).prog.length ≤ stepsOf i sched) :
    (runReq cfg reqs sched).locals i = runSeq cfg (initReq (reqs i)) (reqs i).prog := by
  rw [(req_interleaving_serial cfg reqs sched i).1, solo_done cfg (reqs i) _ hdone]

/-- Non-interference, stated on two executions: what request `i` observes depends on its own request
    and on how many steps it has taken — not on which other requests exist, what they map, write or
    store, nor on the order in which anything is scheduled. -/
theorem observations_depend_only_on_own_request (cfg : Config) (reqs reqs' : Nat → Req)
    (sched sched' : List Nat) (i : Nat) (hreq : reqs i = reqs' i) (hsteps : stepsOf i sched = stepsOf i sched') :
    (runReq cfg reqs sched).locals i = (runReq cfg reqs' sched').locals i := by
  rw [(req_interleaving_serial cfg reqs sched i).1, (req_interleaving_serial cfg reqs' sched' i).1, hreq, hsteps]

/-! ## injected request-scoped values -/

/-- C05 "each handler observes only its own request's … injected request-scoped values": a `c.Map` by
    a handler of request `i` (in ANY state of the world, reachable or not)
    (a) leaves the whole record of every other request `j` untouched, hence
    (b) never changes what any lookup of request `j` returns, for any type and iteration choice;
    (c) seen through the world of Model/Inject the step is exactly `World.mapReq i t v`, the application
        scope of that world is still `cfg.app`, and by `request_scope_isolated` (Props/C04) every other
        request keeps its scope chain and all its admissible answers;
    (d) request `i` itself gets `v` for `t` from now on. -/
theorem request_scope_invisible_to_others (cfg : Config) (reqs : Nat → Req) (w : World St)
    (i : Nat) (t : Ty) (v : Val) (hop : nextOp (reqs i) (w.locals i) = some (.map t v)) :
    let w' := Conc.stepW reqMachine cfg reqs i w
    (∀ j, j ≠ i → w'.locals j = w.locals j) ∧
    (∀ j, j ≠ i → ∀ t' c, Inject.value cfg.U (chainOf cfg (w'.locals j)) t' c =
                          Inject.value cfg.U (chainOf cfg (w.locals j)) t' c) ∧
    (∀ n, injectView cfg w' n = (injectView cfg w n).mapReq i t v ∧ (injectView cfg w' n).app = cfg.app ∧
          ∀ j, j ≠ i → (injectView cfg w' n).chain j = (injectView cfg w n).chain j ∧
            ∀ t', Inject.valueSet cfg.U ((injectView cfg w' n).chain j) t' =
                  Inject.valueSet cfg.U ((injectView cfg w n).chain j) t') ∧
    (∀ c, Inject.value cfg.U (chainOf cfg (w'.locals i)) t c = some v) := by
  refine ⟨fun j hj => stepW_frame _ _ _ _ _ _ hj, fun j hj t' c => ?_, fun n => ?_, fun c => ?_⟩
  · rw [stepW_frame _ _ _ _ _ _ hj]
  · have hv := injectView_map_step cfg reqs i n w t v hop
    have hiso := Inject.request_scope_isolated cfg.U (injectView cfg w n) i t v
    refine ⟨hv, by rw [hv]; exact hiso.1, fun j hj => ?_⟩
    rw [hv]
    exact hiso.2.1 j hj
  · rw [stepW_own]
    show Inject.value cfg.U (chainOf cfg (stepReq cfg (reqs i) (w.locals i) _)) t c = some v
    simp only [stepReq, hop]
    exact (Inject.map_last_wins cfg.U (w.locals i).scope cfg.app t v).2.1 c

/-- what a `lookup` observes is an admissible answer of the injector model for the request's OWN chain (its
    scope, then `cfg.app`): found iff the set of admissible answers (`Inject.valueSet`, what the model driver
    prints) is not empty, and then a member of it — for every iteration choice `c` -/
theorem lookup_observation_admissible (cfg : Config) (st : St) (t : Ty) (c : Nat) (s : String) :
    ∃ o, (execOp cfg st (.lookup t c) s).obs = st.obs ++ [.value o] ∧
      (o = none ↔ Inject.valueSet cfg.U (chainOf cfg st) t = []) ∧
      (∀ v, o = some v → v ∈ Inject.valueSet cfg.U (chainOf cfg st) t) ∧
      (execOp cfg st (.lookup t c) s).scope = st.scope := by
  refine ⟨Inject.value cfg.U (chainOf cfg st) t c, rfl, ?_, ?_, rfl⟩
  · exact Inject.pick_none_iff _ _
  · intro v hv; exact Inject.pick_mem hv

/-- the request scope of request `i` after any interleaving holds the registrations of its own `map`
    operations (on top of the services it was created with) and nothing else -/
theorem request_scope_own_maps_only (cfg : Config) (reqs : Nat → Req) (sched : List Nat) (i : Nat) :
    ((runReq cfg reqs sched).locals i).scope =
      ((reqs i).prog.take (stepsOf i sched)).foldl scopeAfter (reqs i).services := by
  rw [(req_interleaving_serial cfg reqs sched i).2.1, runSeq_scope]; rfl

/-- C05 "… its own request's parameters": the params of request `i` after any interleaving are the ones
    the router built for it, updated by its own stores only -/
theorem params_private (cfg : Config) (reqs : Nat → Req) (sched : List Nat) (i : Nat) :
    ((runReq cfg reqs sched).locals i).params =
      ((reqs i).prog.take (stepsOf i sched)).foldl paramsAfter (reqs i).params := by
  rw [(req_interleaving_serial cfg reqs sched i).2.1, runSeq_params]; rfl

/-! ## the response writer -/

/-- C05 "… and response writer": after any interleaving the writer of request `j` is the writer model of
    C13 run over request `j`'s OWN writer operations (those among the steps it has taken), so the events
    its underlying `http.ResponseWriter` received are exactly the events of its own operations. -/
theorem writer_private (cfg : Config) (reqs : Nat → Req) (sched : List Nat) (j : Nat) :
    let own := writerOps ((reqs j).prog.take (stepsOf j sched))
    ((runReq cfg reqs sched).locals j).writer = Writer.run (reqs j).head own ∧
    ((runReq cfg reqs sched).locals j).writer.under = (Writer.run (reqs j).head own).under := by
  have h : ((runReq cfg reqs sched).locals j).writer =
      Writer.run (reqs j).head (writerOps ((reqs j).prog.take (stepsOf j sched))) := by
    rw [(req_interleaving_serial cfg reqs sched j).2.1, runSeq_writer]; rfl
  exact ⟨h, by rw [h]⟩

/-- hence C13 holds for every request of every interleaving: e.g. at most one status line reaches each
    request's underlying writer and `Status()` is truthful, whatever the other requests write -/
theorem writer_c13_under_concurrency (cfg : Config) (reqs : Nat → Req) (sched : List Nat) (j : Nat)
    (hv : Writer.ValidOps (writerOps (reqs j).prog)) :
    let wr := ((runReq cfg reqs sched).locals j).writer
    (wr.under.filter Writer.UEv.isHdr).length ≤ 1 ∧
    wr.status = (Writer.firstHdr wr.under).getD 0 ∧
    wr.size = Writer.bodySum wr.under := by
  have hv' : Writer.ValidOps (writerOps ((reqs j).prog.take (stepsOf j sched))) := by
    intro op hop
    apply hv op
    have : (reqs j).prog = (reqs j).prog.take (stepsOf j sched) ++ (reqs j).prog.drop (stepsOf j sched) :=
      (List.take_append_drop _ _).symm
    rw [this, writerOps_append]
    exact List.mem_append_left _ hop
  simp only [(writer_private cfg reqs sched j).1]
  exact ⟨Writer.at_most_one_status _ _ hv', Writer.status_truthful _ _ hv', Writer.size_truthful _ _ hv'⟩

/-! ## the shared configuration -/

/-- C05 "once set-up has finished": `Config` is an argument of every step and not a component of the
    world, so no interleaving can change it.  What remains observable of "shared state":
    (a) the only shared mutable component, the once-guarded cache, holds for every slot nothing or the
        rendering of `cfg` (for slot `k+1`: the text of `cfg.routes[k]`);
    (b) the application scope every request resolves against is `cfg.app`, before and after;
    (c) a request that takes its first step only after an arbitrary interleaving of the others is
        served exactly as if it were alone on a fresh instance. -/
theorem shared_config_unchanged (cfg : Config) (reqs : Nat → Req) (sched : List Nat) :
    let w := runReq cfg reqs sched
    (∀ k, w.cache k = none ∨ w.cache k = some (renderSlot cfg k)) ∧
    (∀ n, (injectView cfg w n).app = cfg.app) ∧
    (∀ i, chainOf cfg (w.locals i) = (w.locals i).scope :: cfg.app) ∧
    (∀ k more, stepsOf k sched = 0 →
       (runReq cfg reqs (sched ++ List.replicate more k)).locals k = alone cfg (reqs k) more) := by
  refine ⟨(Conc.interleaving_serial reqMachine cfg reqs sched).1, fun _ => rfl, fun _ => rfl, ?_⟩
  intro k more h0
  rw [(req_interleaving_serial cfg reqs _ k).2.1]
  have : stepsOf k (sched ++ List.replicate more k) = more := by
    simp only [stepsOf, List.count_append, List.count_replicate_self] at h0 ⊢
    omega
  rw [this]

/-! ## the regenerated footprint and the machine -/

/-- the kinds of per-request object the machine accounts for -/
inductive Component
  | context          -- flamego.context: the record as a whole (`St`: cursor `pc`, pointers to the parts below)
  | responseWriter   -- flamego.responseWriter: `St.writer`
  | params           -- route.Params built by the router for this request: `St.params`
  | requestInjector  -- the inject.injector made by newContext: `St.scope`
  | request          -- flamego.Request / RequestBody and the request's own *http.Request (URL, cookies): `Req`
  | render           -- flamego.render: a per-request service value mapped into the request scope
  | handlerList      -- the []Handler createContext builds for this request: `Req.prog`
  | callScratch      -- variables and argument slices/maps of one call (varargs, invoke argument lists,
                     -- URLPath's copy of the pairs): no state of the model, they die with the call
  deriving DecidableEq, Repr

/-- The documented list: which written struct type / container (a prefix of the footprint's `target`)
    belongs to which component.  A request-local write to anything that is not listed — say a pooled
    buffer, a new per-request cache — has no component and breaks `footprint_matches_machine`. -/
def ownerTable : List (String × Component) := [
  ("flamego.context.", .context),
  ("flamego.responseWriter.", .responseWriter),
  ("route.Params[", .params),
  ("param params route.Params[", .params),
  ("inject.injector.", .requestInjector),
  ("flamego.Request.", .request),
  ("flamego.RequestBody.", .request),
  ("url.URL.", .request),
  ("http.Cookie.", .request),
  ("flamego.render.", .render),
  ("[]flamego.Handler[", .handlerList),
  ("var ", .callScratch),
  ("[]reflect.Value[", .callScratch),
  ("[]interface{}[", .callScratch),
  ("[]string[", .callScratch),
  ("map[string]string[", .callScratch)]

/-- byte-wise `strings.HasPrefix` -/
def hasPrefix (p s : String) : Bool := p.toUTF8.data.toList.isPrefixOf s.toUTF8.data.toList

def componentOf (target : String) : Option Component :=
  (ownerTable.find? (fun e => hasPrefix e.1 target)).map (·.2)

/-- C05 tie between the REGENERATED write footprint and this machine: every write site that serving can
    reach (extracted from the current source) falls in a class of state the machine models — the
    per-request record (`requestLocal`), a once-guarded cache as in `Conc.World` (`onceGuarded`) or an atomic.
    (Which struct a request-local site writes, and which caches are once-guarded, is deliberately NOT fixed
    here: a behaviour-preserving refactoring may add a per-request helper object or one more once-guarded cache;
    `ownerTable` above documents today's components for the reader; it is not an obligation.) -/
theorem footprint_matches_machine :
    ∀ a ∈ sharedWrites, Conc.siteClass a ∈ [Conc.SiteClass.requestLocal, .onceGuarded, .atomic] := by
  decide

/-! ## non-vacuity: two requests over a concrete application scope

  types (the universe of Props/C04): 0 struct, 1 pointer to it, 2 interface implemented by 0 and 1,
  4 string.  Application scope: string ↦ 21, struct ↦ 22.  One named route "/u/{n}". -/

def exRoute : Route := ⟨[⟨false, [.ident (B "u")]⟩, ⟨false, [.bind (B "n")]⟩]⟩

def exCfg : Config where
  U := Inject.exU
  app := [[(4, 21), (0, 22)]]
  router := { Router.new with named := [(B "user", exRoute)] }
  routes := [exRoute]

/-- request 0: maps a string, looks it up, looks up the interface (nothing of its own implements it, so the
    application's struct answers), writes 404 and 3 bytes, reads its param, its status, the route text, a URL -/
def exReq0 : Req where
  params := [(B "n", B "alice")]
  prog := [.map 4 30, .lookup 4 0, .lookup 2 0, .w (.writeHeader 404), .w (.write 3 3), .param (B "n"),
           .w .status, .routeString 0, .urlPath (B "user") [B "n", B "bob"]]

/-- request 1 (HEAD): looks the string up BEFORE and AFTER mapping its own, stores a param, writes -/
def exReq1 : Req where
  head := true
  params := [(B "n", B "carol")]
  prog := [.lookup 4 0, .map 4 31, .lookup 4 0, .setParam (B "n") (B "dave"), .param (B "n"),
           .w (.write 5 5), .w .status, .w .size, .routeString 0]

def exReqs : Nat → Req
  | 0 => exReq0
  | 1 => exReq1
  | _ => {}

/-- an interleaving in which request 0 maps its string between request 1's first lookup and its own map -/
def exSched : List Nat := [1, 0, 0, 1, 1, 0, 0, 1, 0, 1, 1, 0, 1, 0, 1, 0, 1, 0]

example : stepsOf 0 exSched = 9 ∧ stepsOf 1 exSched = 9 := by decide

-- request 0 sees its own 30 (not 21, not request 1's 31), the application's struct 22 for the interface
example : ((runReq exCfg exReqs exSched).locals 0).obs =
    [.mapped, .value (some 30), .value (some 22), .wobs 0, .wobs 3, .param (B "alice"), .wobs 404,
     .str (B "/u/{n}").toHex, .url (some (B "/u/bob"))] := by decide
-- request 1 sees the application's 21 first (request 0's map of 30 has already happened), then its own 31
example : ((runReq exCfg exReqs exSched).locals 1).obs =
    [.value (some 21), .mapped, .value (some 31), .stored, .param (B "dave"), .wobs 0, .wobs 200, .wobs 0,
     .str (B "/u/{n}").toHex] := by decide
-- each writer received its own events only
example : ((runReq exCfg exReqs exSched).locals 0).writer.under = [.hdr 404, .body 3] ∧
          ((runReq exCfg exReqs exSched).locals 1).writer.under = [.hdr 200] := by decide
-- the hypothesis of `request_scope_invisible_to_others` is met in the second state of that run
example : nextOp (exReqs 0) ((runReq exCfg exReqs [1]).locals 0) = some (.map 4 30) := by decide
-- the once-guarded cache was filled once, with the route's text
example : (runReq exCfg exReqs exSched).cache 1 = some (B "/u/{n}").toHex := by decide

end Flamego.ConcReq
