/-
  Props/C06.lean — Route parser: total, exactly the grammar, canonical form a fixpoint.

  "Parsing a route string always terminates with either a route or an error, never a panic; it
   accepts exactly the strings of the documented route grammar, and the parsed structure mirrors
   the derivation (segments, optional marker, literals, bind names, regex text, parameter lists in
   order). Rendering a parsed route gives a canonical string - identical to the input except that
   spacing after ':' and ',' is normalised to one blank - which parses to the same structure and
   renders to itself."

  Objects.  `parse : Bytes → Option Route` (Model/Parser.lean) is the lexer INTERPRETING the rule
  table regenerated from parser.go (`Gen.lexRules`) followed by the recursive descent for the
  struct-tag grammar of definition.go.  `render` is `Route.String()` (Model/Syntax.lean).  The
  grammar is said without lexer or parser in Spec/RouteGrammar.lean: `WF r` (which ASTs are
  derivation trees) and `renderWith sp r` (the strings of the tree `r`: any number `≥ 0` of blanks
  after each `:` and `,` of a parameter list, chosen by `sp`; `oneBlank` = one blank everywhere).

  Quantifiers: every byte string `s` (not only UTF-8), every AST `r`, every spacing `sp`. No bound.
  "Documented grammar" is read as: the lexer classes of parser.go + the struct tags of
  definition.go (pinned below by `classes_documented`, `rules_documented`, `grammar_documented`).
  The BNF in internal/route/README.md disagrees with these classes on `$` and on `~@!&';%=` inside
  expressions: finding F12, recorded (theorems `f12_*` below), not repaired.
  Totality: `parse` is a total Lean function, so termination with a value holds by construction;
  the one way the Go lexer could panic (popping its state stack empty) is an explicit outcome of
  the model (`ParseOutcome.panic`) and `never_panics` proves it unreachable.
-/
import Flamego.Proofs.ParserSound
import Flamego.Proofs.Normalise
namespace Flamego
namespace RouteGrammar
open Gen RouteParser

/-! ### the regenerated facts are the documented ones (build-time tie to parser.go / definition.go) -/

/-- the byte set of the rule called `name` in lexer state `st` of the regenerated table -/
def genClass (st name : String) : Option (List UInt8 × Bool) :=
  ((rulesOf Gen.lexRules st).find? (fun r => r.name == name)).map (fun r => (r.bytes, r.plus))

/-- the Ident class (in every state that includes `Common`) and the Regex class of parser.go are
    exactly the documented byte sets, both under `+`.  A character dropped from or added to a class
    in parser.go makes this theorem fail at build time. -/
theorem classes_documented :
    genClass "Segment" "Ident" = some (identBytes, true) ∧
    genClass "Bind" "Ident" = some (identBytes, true) ∧
    genClass "BindParameter" "Ident" = some (identBytes, true) ∧
    genClass "BindParameterRegexValue" "Regex" = some (regexBytes, true) ∧
    genClass "Segment" "Whitespace" = some (spaceBytes, false) := by decide

/-- the whole rule table (states in order, rules in order, names, classes, push/pop actions) is
    the documented one -/
theorem rules_documented : Gen.lexRules = docRules := by decide

/-- the struct tags of definition.go are the grammar the parser model implements (types sorted by name — the order in
    which the struct types are declared means nothing to participle —, fields of one type in source order) -/
theorem grammar_documented : Gen.grammarTags = [
    ("BindParameter.Ident", "@Ident ':' ' '*"),
    ("BindParameter.Value", "@@"),
    ("BindParameterValue.Literal", "@Ident"),
    ("BindParameterValue.Regex", "| '/' @Regex '/'"),
    ("BindParameters.Parameters", "( @@ ( ',' ' '* @@ )* )+"),
    ("Route.Segments", "@@+"),
    ("Segment.Slash", "'/'"),
    ("Segment.Optional", "@'?'?"),
    ("Segment.Elements", "@@*"),
    ("SegmentElement.Ident", "@Ident"),
    ("SegmentElement.BindIdent", "| '{' @Ident '}'"),
    ("SegmentElement.BindParameters", "| '{' @@ '}'")] := by decide

/-- lookahead 2 and no elided token type (`Whitespace` tokens reach the parser) -/
theorem options_documented : Gen.parserOptions = ["Lexer(l)", "UseLookahead(2)"] := by decide

/-! ### C06, clause by clause -/

/-- "never a panic": the model's only panic outcome (state stack popped empty) is unreachable;
    together with `parse` being a total function: parsing always ends with a route or an error -/
theorem never_panics (s : Bytes) : parseOutcome s ≠ .panic := by
  unfold parseOutcome lex
  rw [rules_documented]
  have h := lexFrom_no_panic docRules_ok docRules_stack_ok s.length ["Root"] s (Nat.le_refl _)
    ⟨[], rfl, by simp⟩
  split
  · rename_i he; exact absurd he h
  · simp
  · split <;> simp

/-- "a route or an error": the two views of the outcome agree -/
theorem outcome_is_parse (s : Bytes) :
    parseOutcome s = (match parse s with | some r => .ok r | none => .err) := by
  have hp := never_panics s
  unfold parseOutcome at hp ⊢
  unfold parse
  split
  · rename_i he; simp [he] at hp
  · rename_i he; simp [he]
  · rename_i ts he; simp only [he]; split <;> simp_all

/-- "accepts … the strings of the documented route grammar" (completeness), "and the parsed
    structure mirrors the derivation": every string of a well-formed tree parses, to that tree -/
theorem parse_complete (sp : Spacing) (r : Route) (h : WF r) : parse (renderWith sp r) = some r := by
  unfold parse lex
  rw [rules_documented, renderWith, lex_segs sp r.segs h.2 (Or.inl rfl) []]
  exact parseTokens_toks sp r h

/-- "accepts exactly the strings of the documented route grammar" (soundness): whatever parses is
    a string of a well-formed tree, namely of the tree returned -/
theorem parse_sound (s : Bytes) (r : Route) (h : parse s = some r) :
    WF r ∧ ∃ sp, s = renderWith sp r := by
  unfold parse lex at h
  rw [rules_documented] at h
  split at h
  · rename_i ts hl
    have hok := lexedOK_of_lex hl
    obtain ⟨hwf, sp, hv⟩ := parseTokens_sound ⟨hok.tok_ok, hok.no_adj, hok.no_colon⟩ h
    exact ⟨hwf, sp, by rw [← hv, hok.vals_eq]⟩
  · cases h

/-- both directions as one statement: the accepted language is exactly `{renderWith sp r | WF r}`
    and the parse result is the tree -/
theorem parse_iff (s : Bytes) (r : Route) : parse s = some r ↔ WF r ∧ ∃ sp, s = renderWith sp r := by
  constructor
  · exact parse_sound s r
  · rintro ⟨hwf, sp, rfl⟩; exact parse_complete sp r hwf

/-- "Rendering … gives a canonical string": `Route.String()` is the rendering with exactly one
    blank after every `:` and `,` -/
theorem render_canonical (r : Route) : r.render = renderWith oneBlank r := by
  simp [Route.render, renderWith, oneBlank, renderSegs_one]

/-- "… which parses to the same structure" -/
theorem parse_render (r : Route) (h : WF r) : parse r.render = some r := by
  rw [render_canonical]; exact parse_complete oneBlank r h

/-- "identical to the input except that spacing after ':' and ',' is normalised to one blank":
    `normaliseSpacing` (Proofs/Normalise.lean) is a byte-level transducer that knows nothing of
    tokens or trees — inside `{…}` and outside `/…/` it drops the blanks that follow a `:` or `,`
    and writes exactly one; everything else is copied.  The canonical string of a parsed input is
    that function of the input, parses to the same structure, and renders to itself. -/
theorem render_fixpoint (s : Bytes) (r : Route) (h : parse s = some r) :
    parse r.render = some r ∧ r.render = normaliseSpacing s ∧
    (∀ r', parse r.render = some r' → r'.render = r.render) := by
  obtain ⟨hwf, sp, rfl⟩ := parse_sound s r h
  refine ⟨parse_render r hwf, ?_, ?_⟩
  · rw [render_canonical, normalise_renderWith sp r hwf]; rfl
  · intro r' h'; rw [parse_render r hwf] at h'; cases h'; rfl

/-- the canonical string is a fixpoint of normalisation, and two inputs with the same tree differ
    only in that spacing -/
theorem same_tree_same_canonical (s₁ s₂ : Bytes) (r : Route) (h₁ : parse s₁ = some r) (h₂ : parse s₂ = some r) :
    normaliseSpacing s₁ = normaliseSpacing s₂ := by
  rw [← (render_fixpoint s₁ r h₁).2.1, ← (render_fixpoint s₂ r h₂).2.1]

/-! ### finding F12: the README's BNF and the lexer's classes differ (recorded, not repaired) -/

/-- `<char>` of internal/route/README.md: `[a-z] | [A-Z] | [0-9] | - . _ ~ @ ! & ' ( ) * + ; % =`
    (byte values as naturals) -/
def readmeChar : List Nat :=
  (List.range 26).map (97 + ·) ++ (List.range 26).map (65 + ·) ++ (List.range 10).map (48 + ·) ++
  [45, 46, 95, 126, 64, 33, 38, 39, 40, 41, 42, 43, 59, 37, 61]

/-- `<any>` of the README: `<char> | [ ] + , ? { } ␣ \ |` -/
def readmeAny : List Nat := readmeChar ++ [91, 93, 43, 44, 63, 123, 125, 32, 92, 124]

/-- the lexer's Ident class is the README's `<char>` plus `$` -/
theorem f12_ident_class :
    (∀ c ∈ readmeChar, c ∈ identBytes.map UInt8.toNat) ∧
    (identBytes.map UInt8.toNat).filter (fun c => !readmeChar.contains c) = [36] := by decide

/-- the lexer's Regex class is the README's `<any>` minus `~ @ ! & ' ; % =` -/
theorem f12_regex_class :
    (∀ c ∈ regexBytes.map UInt8.toNat, c ∈ readmeAny) ∧
    readmeAny.filter (fun c => !(regexBytes.map UInt8.toNat).contains c) = [126, 64, 33, 38, 39, 59, 37, 61] := by
  decide

/-- witness 1: `/a$b` is accepted (the README's BNF has no `$`) -/
theorem f12_dollar_accepted :
    parse [47, 97, 36, 98] = some ⟨[⟨false, [.ident [97, 36, 98]]⟩]⟩ :=
  parse_complete [] ⟨[⟨false, [.ident [97, 36, 98]]⟩]⟩ (by decide)

/-- witness 2: `/{a: /x=y/}` is rejected (`=` is an `<any>` of the README's BNF): the lexer stops
    at the `=` inside the expression -/
theorem f12_equals_rejected : parse [47, 123, 97, 58, 32, 47, 120, 61, 121, 47, 125] = none := by
  have hl : lexFrom docRules ["Root"] [47, 123, 97, 58, 32, 47, 120, 61, 121, 47, 125] = .error .invalid := by
    rw [lex_slash (Or.inl rfl), lex_lbrace (Or.inl rfl),
      show ([97, 58, 32, 47, 120, 61, 121, 47, 125] : Bytes) = [97] ++ [58, 32, 47, 120, 61, 121, 47, 125] from rfl,
      lex_ident (Or.inr (Or.inl rfl)) _ [97] _ (by decide) (noIdentStart_cons _ (by decide)),
      lex_colon, lex_blank (Or.inr (Or.inr rfl)), lex_regex_open,
      show ([120, 61, 121, 47, 125] : Bytes) = [120] ++ [61, 121, 47, 125] from rfl,
      lex_regex' _ [120] _ (by decide) (by intro c cs h; cases h; decide),
      lex_fail _ _ (by decide)]
    rfl
  unfold parse lex
  rw [rules_documented, hl]

/-! ### non-vacuity -/

/-- a concrete non-trivial route: `/a/?{id}/{n: /[0-9]+/,  k:**}-x` with irregular spacing parses to
    the expected tree, whose canonical form has one blank after `:` and `,` -/
example :
    let r : Route := ⟨[⟨false, [.ident [97]]⟩, ⟨true, [.bind [105, 100]]⟩,
      ⟨false, [.params [⟨[110], .re [91, 48, 45, 57, 93, 43]⟩, ⟨[107], .lit [42, 42]⟩], .ident [45, 120]]⟩]⟩
    let sp : Spacing := [[], [], [[(0, 1), (2, 0)]]]
    WF r ∧
    renderWith sp r = [47, 97, 47, 63, 123, 105, 100, 125, 47, 123, 110, 58, 32, 47, 91, 48, 45, 57, 93, 43, 47,
      44, 32, 32, 107, 58, 42, 42, 125, 45, 120] ∧
    parse (renderWith sp r) = some r ∧
    r.render = [47, 97, 47, 63, 123, 105, 100, 125, 47, 123, 110, 58, 32, 47, 91, 48, 45, 57, 93, 43, 47,
      44, 32, 107, 58, 32, 42, 42, 125, 45, 120] := by
  intro r sp
  have hwf : WF r := by decide
  refine ⟨hwf, by decide, parse_complete sp r hwf, ?_⟩
  rw [render_canonical]; decide

end RouteGrammar
end Flamego
