/-
  Props/C16.lean — Static serves only inside its directory and prefix.   (PARTIAL, see below)

  Quantifiers: every request method, URL path, `If-None-Match` value (arbitrary byte strings),
  every option setting (`Opts`: directory, prefix and index as given by the user, SetETag),
  every ETag function and every file system `fs : Bytes → FsResult` (what `os.Open`+`Stat`
  answer for an OS name).

  PARTIAL because flamego delegates containment: the theorems cover flamego's own decision
  logic (`staticDecide`, a line-by-line model of static.go) and a Lean model of the lexical
  part of the standard library it relies on (`path.Clean`, `path.Join`, `http.Dir.Open`'s name
  mapping).  That `os.Open` resolves the lexical name to a file really below the directory
  (symbolic links!), that `http.ServeContent` sends the content of the handle it is given, and
  how `http.Redirect` renders its target are parameters — checked differentially on a real
  directory tree on every run, not proved.
-/
import Flamego.Proofs.Static

namespace Flamego.Static

/-- "lies under the configured prefix at a segment boundary": no prefix configured, or the
    path is the prefix itself, or the prefix followed by `/…`. -/
def UnderPrefix (p u : Bytes) : Prop := p = [] ∨ u = p ∨ (p ++ [slash]) <+: u

instance (p u : Bytes) : Decidable (UnderPrefix p u) := by unfold UnderPrefix; infer_instance

/-- `p` is lexically inside `root`: the directory itself, or `root/` followed by components none
    of which is empty, `.` or `..`. -/
def Inside (root p : Bytes) : Prop :=
  p = root ∨ ∃ rest, p = root ++ slash :: rest ∧ ∀ c ∈ splitSlash rest, Normal c

/-! ### silent_unless — "Whenever it cannot serve (other method, prefix mismatch, missing file,
    directory without index) it writes nothing, so the rest of the chain handles the request." -/

/-- other method ⇒ plain return, nothing opened -/
theorem silent_unless_method (o : Opts) (etag : Nat → Bytes) (m u inm : Bytes) (fs : Bytes → FsResult)
    (h : isGetHead m = false) : staticDecide o etag m u inm fs = ⟨.silent, []⟩ := by
  simp [staticDecide, h]

/-- prefix configured and the path does not start with it ⇒ plain return, nothing opened -/
theorem silent_unless_prefix (o : Opts) (etag : Nat → Bytes) (m u inm : Bytes) (fs : Bytes → FsResult)
    (hp : o.pfx ≠ []) (h : ¬ normPrefix o.pfx <+: u) : staticDecide o etag m u inm fs = ⟨.silent, []⟩ := by
  have hn : normPrefix o.pfx ≠ [] := by simp [normPrefix, hp]
  unfold staticDecide
  split
  · rfl
  · rw [stripPrefix_not_prefix hn h]

/-- prefix look-alike: the prefix followed by anything but `/` (`/staticfoo` for `/static`) ⇒
    plain return, nothing opened -/
theorem silent_unless_lookalike (o : Opts) (etag : Nat → Bytes) (m inm : Bytes) (fs : Bytes → FsResult)
    (hp : o.pfx ≠ []) (c : UInt8) (rest : Bytes) (hc : c ≠ slash) :
    staticDecide o etag m (normPrefix o.pfx ++ c :: rest) inm fs = ⟨.silent, []⟩ := by
  have hn : normPrefix o.pfx ≠ [] := by simp [normPrefix, hp]
  unfold staticDecide
  split
  · rfl
  · rw [stripPrefix_lookalike hn c rest hc]

/-- The exact characterisation: the handler stays silent in these cases AND ONLY in these. -/
theorem silent_unless (o : Opts) (etag : Nat → Bytes) (m u inm : Bytes) (fs : Bytes → FsResult) :
    (staticDecide o etag m u inm fs).out = .silent ↔
      isGetHead m = false ∨ stripPrefix (normPrefix o.pfx) u = none ∨
      ∃ f0, stripPrefix (normPrefix o.pfx) u = some f0 ∧
        (dirOpen o.root fs (openName f0) = .missing ∨
         (dirOpen o.root fs (openName f0) = .dir ∧ endsSlash (redirPath u) = true ∧
          ∀ id, dirOpen o.root fs (pathJoin (openName f0) (normIndex o.index)) ≠ .file id)) := by
  unfold staticDecide
  cases hm : isGetHead m with
  | false => simp
  | true =>
    cases hs : stripPrefix (normPrefix o.pfx) u with
    | none => simp
    | some f0 =>
      simp only [Bool.not_true, Bool.false_eq_true, ↓reduceIte, false_or, Option.some.injEq, reduceCtorEq,
        exists_eq_left']
      cases hd : dirOpen o.root fs (openName f0) with
      | missing => simp
      | file id => simp [finish_ne_silent]
      | dir =>
        cases hr : endsSlash (redirPath u) with
        | false => simp
        | true =>
          simp only [Bool.not_true, Bool.false_eq_true, ↓reduceIte, reduceCtorEq, true_and, false_or]
          cases hi : dirOpen o.root fs (pathJoin (openName f0) (normIndex o.index)) with
          | missing => simp
          | dir => simp
          | file id => simp [finish_ne_silent]

/-- missing file (or a name http.Dir refuses) ⇒ silent -/
theorem silent_unless_missing (o : Opts) (etag : Nat → Bytes) (m u inm : Bytes) (fs : Bytes → FsResult)
    (f0 : Bytes) (hs : stripPrefix (normPrefix o.pfx) u = some f0)
    (h : dirOpen o.root fs (openName f0) = .missing) : (staticDecide o etag m u inm fs).out = .silent :=
  (silent_unless o etag m u inm fs).mpr (Or.inr (Or.inr ⟨f0, hs, Or.inl h⟩))

/-- directory (already at its slash-terminated form) whose index is missing or is itself a
    directory ⇒ silent -/
theorem silent_unless_noindex (o : Opts) (etag : Nat → Bytes) (m u inm : Bytes) (fs : Bytes → FsResult)
    (f0 : Bytes) (hs : stripPrefix (normPrefix o.pfx) u = some f0)
    (hd : dirOpen o.root fs (openName f0) = .dir) (hr : endsSlash (redirPath u) = true)
    (hi : ∀ id, dirOpen o.root fs (pathJoin (openName f0) (normIndex o.index)) ≠ .file id) :
    (staticDecide o etag m u inm fs).out = .silent :=
  (silent_unless o etag m u inm fs).mpr (Or.inr (Or.inr ⟨f0, hs, Or.inr ⟨hd, hr, hi⟩⟩))

/-- "it writes nothing": the silent outcome performs no write at all (no header, no status, no body) -/
theorem silent_writes_nothing (r : Result) (h : r.out = .silent) : r.out.writes = [] := by
  rw [h]; rfl

/-! ### prefix_boundary — "answers only GET and HEAD requests whose path lies under the
    configured prefix at a segment boundary" -/

theorem prefix_boundary (o : Opts) (etag : Nat → Bytes) (m u inm : Bytes) (fs : Bytes → FsResult)
    (h : (staticDecide o etag m u inm fs).out ≠ .silent) :
    isGetHead m = true ∧ UnderPrefix (normPrefix o.pfx) u := by
  rw [Ne, silent_unless] at h
  simp only [not_or] at h
  obtain ⟨hm, hs, _⟩ := h
  refine ⟨by simpa using hm, ?_⟩
  cases hs' : stripPrefix (normPrefix o.pfx) u with
  | none => exact absurd hs' hs
  | some f0 =>
    rcases stripPrefix_some hs' with ⟨hp, _⟩ | ⟨_, hu, hf⟩
    · exact Or.inl hp
    · rcases hf with rfl | ⟨rest, rfl⟩
      · exact Or.inr (Or.inl (by simpa using hu))
      · exact Or.inr (Or.inr ⟨rest, by rw [hu]; simp⟩)

/-- the normalised prefix is what decides; the four usual spellings give the same one -/
example : normPrefix (asc "static") = asc "/static" ∧ normPrefix (asc "/static") = asc "/static" ∧
    normPrefix (asc "/static/") = asc "/static" ∧ normPrefix (asc "static/") = asc "/static" ∧
    normPrefix [] = [] := by decide

/-! ### opens_only_through_fs — "whatever it sends is the content of a regular file…": the file
    served is the one the file system returned for a name derived from the request; nothing
    else is ever opened, and nothing else about the file system matters. -/

/-- every name passed to `FileSystem.Open` is one of the (at most) two request-derived candidates,
    in order: the stripped path, then that path joined with the index name -/
theorem opens_only_candidates (o : Opts) (etag : Nat → Bytes) (m u inm : Bytes) (fs : Bytes → FsResult) :
    (staticDecide o etag m u inm fs).opens <+: candidates o u := by
  unfold staticDecide candidates
  split
  · simp
  · split
    · simp
    · rename_i f0 _
      simp only
      split
      · exact ⟨[_], rfl⟩
      · exact ⟨[_], rfl⟩
      · split
        · exact ⟨[_], rfl⟩
        · split <;> exact List.prefix_refl _

/-- what is served (or answered 304 for) is the regular file the file system returned for an
    opened name -/
theorem opens_only_through_fs (o : Opts) (etag : Nat → Bytes) (m u inm : Bytes) (fs : Bytes → FsResult)
    (name : Bytes) (id : Nat)
    (h : (staticDecide o etag m u inm fs).out = .serve name id ∨
         (staticDecide o etag m u inm fs).out = .notModified name id) :
    name ∈ (staticDecide o etag m u inm fs).opens ∧ name ∈ candidates o u ∧
      dirOpen o.root fs name = .file id := by
  have hpre := opens_only_candidates o etag m u inm fs
  have key : name ∈ (staticDecide o etag m u inm fs).opens ∧ dirOpen o.root fs name = .file id := by
    revert h
    unfold staticDecide
    split
    · simp
    · split
      · simp
      · rename_i f0 _
        simp only
        split
        · simp
        · rename_i id' hf
          intro h
          rcases finish_cases o etag inm (openName f0) id' with e | e <;> rw [e] at h <;>
            simp only [Outcome.serve.injEq, Outcome.notModified.injEq, reduceCtorEq, or_false, false_or] at h <;>
            obtain ⟨rfl, rfl⟩ := h <;> exact ⟨by simp, hf⟩
        · split
          · simp
          · split
            · rename_i id' hf
              intro h
              rcases finish_cases o etag inm (pathJoin (openName f0) (normIndex o.index)) id' with e | e <;>
                rw [e] at h <;>
                simp only [Outcome.serve.injEq, Outcome.notModified.injEq, reduceCtorEq, or_false, false_or] at h <;>
                obtain ⟨rfl, rfl⟩ := h <;> exact ⟨by simp, hf⟩
            · simp
  exact ⟨key.1, hpre.subset key.1, key.2⟩

/-- the decision depends on the file system only through the answers for the candidate names -/
theorem decision_depends_only_on_candidates (o : Opts) (etag : Nat → Bytes) (m u inm : Bytes)
    (fs fs' : Bytes → FsResult)
    (h : ∀ n ∈ candidates o u, dirOpen o.root fs n = dirOpen o.root fs' n) :
    staticDecide o etag m u inm fs = staticDecide o etag m u inm fs' := by
  unfold staticDecide
  split
  · rfl
  · split
    · rfl
    · rename_i f0 hs
      have hc : candidates o u = [openName f0, pathJoin (openName f0) (normIndex o.index)] := by
        simp [candidates, hs]
      rw [hc] at h
      have h1 := h (openName f0) (by simp)
      have h2 := h (pathJoin (openName f0) (normIndex o.index)) (by simp)
      simp only [h1, h2]

/-! ### clean_no_dotdot — "never outside it, whatever `..`, repeated slashes or odd bytes the
    path contains" (the traversal clause, for the lexical part) -/

/-- For EVERY byte string, `path.Clean("/"+n)` starts with `/` and is either the root `/` itself
    or `/` followed by components none of which is `..`, `.` or empty. -/
theorem clean_no_dotdot (n : Bytes) :
    cleanRooted n = [slash] ∨
    ∃ rest, cleanRooted n = slash :: rest ∧ ∀ c ∈ splitSlash rest, Normal c := by
  obtain ⟨comps, hc, hn⟩ := cleanRooted_shape n
  cases comps with
  | nil => left; simpa [joinSlash] using hc
  | cons c cs =>
    right
    refine ⟨joinSlash (c :: cs), hc, ?_⟩
    rw [splitSlash_joinSlash _ (by simp) (fun x hx => (hn x hx).2.2.2)]
    exact hn

/-- Hence the OS name `http.Dir(root).Open(name)` opens is lexically inside `root`, for every
    root and every name. -/
theorem dirOpenPath_inside (root name p : Bytes) (h : dirOpenPath root name = some p) : Inside root p := by
  unfold dirOpenPath at h
  simp only at h
  split at h
  · simp at h
  · split at h
    · left; simpa using h.symm
    · rename_i hne
      right
      simp only [Option.some.injEq] at h
      refine ⟨relOf name, h.symm, ?_⟩
      rcases clean_no_dotdot name with e | ⟨rest, e, hn⟩
      · exact absurd (by simp [relOf, e]) hne
      · simpa [relOf, e] using hn

/-- Put together: whatever the handler serves is a regular file (`fs p = file id`) at an OS name
    `p` lexically inside the configured directory. -/
theorem serve_inside (o : Opts) (etag : Nat → Bytes) (m u inm : Bytes) (fs : Bytes → FsResult)
    (name : Bytes) (id : Nat) (h : (staticDecide o etag m u inm fs).out = .serve name id) :
    ∃ p, dirOpenPath o.root name = some p ∧ Inside o.root p ∧ fs p = .file id := by
  have := (opens_only_through_fs o etag m u inm fs name id (Or.inl h)).2.2
  unfold dirOpen at this
  split at this
  · simp at this
  · rename_i p hp
    exact ⟨p, hp, dirOpenPath_inside _ _ _ hp, this⟩

/-! ### redirect_only_dirs — "directories are redirected to their slash-terminated form and
    then served through the index file" -/

/-- A redirect happens only when the file system says *directory* for the stripped path and the
    (cleaned) URL path lacks the trailing slash; its target is the cleaned URL path plus `/`. -/
theorem redirect_only_dirs (o : Opts) (etag : Nat → Bytes) (m u inm : Bytes) (fs : Bytes → FsResult)
    (loc : Bytes) (h : (staticDecide o etag m u inm fs).out = .redirect loc) :
    ∃ f0, stripPrefix (normPrefix o.pfx) u = some f0 ∧ dirOpen o.root fs (openName f0) = .dir ∧
      endsSlash u = false ∧ endsSlash (pathClean u) = false ∧ loc = pathClean u ++ [slash] := by
  revert h
  unfold staticDecide
  split
  · simp
  · split
    · simp
    · rename_i f0 hs
      simp only
      split
      · simp
      · rename_i id _
        rcases finish_cases o etag inm (openName f0) id with e | e <;> simp [e]
      · rename_i hd
        split
        · rename_i hr
          intro h
          simp only [Outcome.redirect.injEq] at h
          subst h
          have hr' : endsSlash (redirPath u) = false := by simpa using hr
          unfold redirPath at hr' ⊢
          simp only at hr' ⊢
          split at hr'
          · rw [endsSlash_append_slash] at hr'; simp at hr'
          · rename_i hcond
            simp only [Bool.not_eq_eq_eq_not, Bool.not_true, not_and, Bool.not_eq_false] at hcond
            refine ⟨f0, hs, hd, ?_, hr', by rw [if_neg (by simpa using hcond)]⟩
            cases hu : endsSlash u with
            | false => rfl
            | true => rw [hcond hu] at hr'; simp at hr'
        · split
          · rename_i id _
            rcases finish_cases o etag inm (pathJoin (openName f0) (normIndex o.index)) id with e | e <;> simp [e]
          · simp

/-- …and at the slash-terminated form the directory is served through the index file: the name
    opened second is `path.Join(dir, index)`. -/
theorem dir_served_through_index (o : Opts) (etag : Nat → Bytes) (m u inm : Bytes) (fs : Bytes → FsResult)
    (f0 : Bytes) (id : Nat) (hm : isGetHead m = true)
    (hs : stripPrefix (normPrefix o.pfx) u = some f0)
    (hd : dirOpen o.root fs (openName f0) = .dir) (hr : endsSlash (redirPath u) = true)
    (hi : dirOpen o.root fs (pathJoin (openName f0) (normIndex o.index)) = .file id) :
    staticDecide o etag m u inm fs =
      ⟨finish o etag inm (pathJoin (openName f0) (normIndex o.index)) id,
       [openName f0, pathJoin (openName f0) (normIndex o.index)]⟩ := by
  simp [staticDecide, hm, hs, hd, hr, hi]

/-! ### A clause the unchanged code does NOT satisfy (finding, see the hand-back notes)

  One would expect the redirect target to stay under the prefix (it is meant to be "the
  slash-terminated form" of the requested directory).  It does not: the file lookup cleans only
  the part after the prefix, the redirect cleans the whole URL path, so a `..` right after the
  prefix removes the prefix from the Location. -/

def redirect_under_prefix_full : Prop :=
  ∀ (o : Opts) (etag : Nat → Bytes) (m u inm : Bytes) (fs : Bytes → FsResult) (loc : Bytes),
    (staticDecide o etag m u inm fs).out = .redirect loc → UnderPrefix (normPrefix o.pfx) loc

/-- witness: prefix `/static`, `GET /static/../sub` where `sub` is a directory: redirect to `/sub/` -/
theorem redirect_under_prefix_full_false : ¬ redirect_under_prefix_full := by
  intro h
  have := h ⟨asc "/R", asc "static", [], false⟩ (fun _ => []) (asc "GET") (asc "/static/../sub") []
    (fun p => if p = asc "/R/sub" then .dir else .missing) (asc "/sub/") (by decide)
  revert this
  decide

/-- It does hold when the request path is already clean. -/
theorem redirect_under_prefix_partial (o : Opts) (etag : Nat → Bytes) (m u inm : Bytes)
    (fs : Bytes → FsResult) (loc : Bytes) (hclean : pathClean u = u)
    (h : (staticDecide o etag m u inm fs).out = .redirect loc) : UnderPrefix (normPrefix o.pfx) loc := by
  obtain ⟨f0, hs, _, _, _, rfl⟩ := redirect_only_dirs o etag m u inm fs loc h
  rw [hclean]
  rcases stripPrefix_some hs with ⟨hp, _⟩ | ⟨_, hu, hf⟩
  · exact Or.inl hp
  · right; right
    rcases hf with rfl | ⟨rest, rfl⟩
    · exact ⟨[], by rw [hu]; simp⟩
    · exact ⟨rest ++ [slash], by rw [hu]; simp⟩

/-! ### non-vacuity: concrete adversarial inputs -/

/-- a little file system: `/R` with `index.html`, `secret` (file 7), `a/b/` (dir with index 9) -/
def exFs (p : Bytes) : FsResult :=
  if p = asc "/R" then .dir
  else if p = asc "/R/secret" then .file 7
  else if p = asc "/R/a" then .dir
  else if p = asc "/R/a/b" then .dir
  else if p = asc "/R/a/b/index.html" then .file 9
  else if p = asc "/R/etc/passwd" then .file 3
  else .missing

def exOpts : Opts := ⟨asc "/R", asc "static/", [], true⟩

example : cleanRooted (asc "/../../etc/passwd") = asc "/etc/passwd" := by decide
example : cleanRooted (asc "..//.././a/./b/../../..") = asc "/" := by decide
example : pathClean (asc "../a/../../b/") = asc "../../b" := by decide
example : dirOpenPath (asc "/R") (asc "/../../etc/passwd") = some (asc "/R/etc/passwd") := by decide
example : dirOpenPath (asc "/R") (asc "/a" ++ [0] ++ asc ".txt") = none := by decide
example : dirOpenPath (asc "/R") [47, 0xff] = none := by decide

-- `/static/../secret`: the `..` cannot leave the directory: `/R/secret` is opened
example : staticDecide exOpts (fun _ => [1]) (asc "GET") (asc "/static/../secret") [] exFs =
    ⟨.serve (asc "/../secret") 7, [asc "/../secret"]⟩ := by decide
-- `/../../etc/passwd` without prefix: the name opened is `/R/etc/passwd`, inside `/R`
example : staticDecide ⟨asc "/R", [], [], false⟩ (fun _ => []) (asc "HEAD") (asc "/../../etc/passwd") [] exFs =
    ⟨.serve (asc "/../../etc/passwd") 3, [asc "/../../etc/passwd"]⟩ := by decide
-- `//a//b/`: directory with trailing slash, served through the index
example : staticDecide ⟨asc "/R", [], [], false⟩ (fun _ => []) (asc "GET") (asc "//a//b/") [] exFs =
    ⟨.serve (asc "/a/b/index.html") 9, [asc "//a//b", asc "/a/b/index.html"]⟩ := by decide
-- `//a//b`: directory without trailing slash, redirected to the cleaned path + "/"
example : staticDecide ⟨asc "/R", [], [], false⟩ (fun _ => []) (asc "GET") (asc "//a//b") [] exFs =
    ⟨.redirect (asc "/a/b/"), [asc "//a//b"]⟩ := by decide
-- directory without index: silent after two opens
example : staticDecide ⟨asc "/R", [], [], false⟩ (fun _ => []) (asc "GET") (asc "/a/") [] exFs =
    ⟨.silent, [asc "/a", asc "/a/index.html"]⟩ := by decide
-- prefix `/pub` vs path `/public/x`: look-alike, nothing opened
example : staticDecide ⟨asc "/R", asc "/pub", [], false⟩ (fun _ => []) (asc "GET") (asc "/public/x") [] (fun _ => .file 1) =
    ⟨.silent, []⟩ := by decide
-- POST is never answered, whatever the file system says
example : staticDecide ⟨asc "/R", [], [], false⟩ (fun _ => []) (asc "POST") (asc "/secret") [] (fun _ => .file 1) =
    ⟨.silent, []⟩ := by decide
-- ETag match ⇒ 304
example : staticDecide exOpts (fun id => [id.toUInt8]) (asc "GET") (asc "/static/secret") [7] exFs =
    ⟨.notModified (asc "/secret") 7, [asc "/secret"]⟩ := by decide

end Flamego.Static
