/-
  Props/C13Late.lean — C13 "hooks registered BEFORE the response is committed run exactly once": the other half.
  A hook registered after the commit — by a handler that runs later, or by another hook WHILE the commit runs (Go's loop
  walks the hooks registered before it; `bfr` sessions) — never runs: once the `sync.Once` is spent no operation whatever
  produces a hook event again, and the commit itself runs exactly the hooks of its pre-state.
-/
import Flamego.Model.Writer
namespace Flamego.Writer

def isHook : UEv → Bool
  | .hook _ => true
  | _ => false

theorem ensure_of_once (w : W) (h : w.onceDone = true) : w.ensure = w := by
  unfold W.ensure W.writeHeader
  split
  · rfl
  · simp [h]

/-- one operation after the Once is spent: still spent, and no new hook event -/
theorem step_after_commit (w : W) (h : w.onceDone = true) (op : Op) :
    (step w op).onceDone = true ∧ (step w op).under.filter isHook = w.under.filter isHook := by
  cases op with
  | writeHeader c => simp [step, W.writeHeader, h]
  | write len fwd =>
    simp only [step, ensure_of_once w h]
    split
    · exact ⟨h, rfl⟩
    · simp [h, List.filter_append, isHook]
  | flush =>
    simp only [step, ensure_of_once w h]
    simp [h, List.filter_append, isHook]
  | before k => simp [step, h]
  | status => simp [step, h]
  | size => simp [step, h]
  | written => simp [step, h]

/-- **a hook registered after the commit never runs**: whatever follows — more registrations, writes, flushes, further
    WriteHeader calls — the hook events the client's writer has seen are those of the commit -/
theorem late_hooks_never_run (w : W) (h : w.onceDone = true) (ops : List Op) :
    (ops.foldl step w).under.filter isHook = w.under.filter isHook := by
  induction ops generalizing w with
  | nil => rfl
  | cons op ops ih =>
    simp only [List.foldl_cons]
    rw [ih (step w op) (step_after_commit w h op).1, (step_after_commit w h op).2]

/-- the commit runs exactly the hooks registered so far, newest first, and spends the Once -/
theorem commit_runs_prestate_hooks (w : W) (c : Nat) (ho : w.onceDone = false) (hw : w.written = false) :
    (w.writeHeader c).onceDone = true ∧
    (w.writeHeader c).under.filter isHook = w.under.filter isHook ++ w.hooks.reverse.map UEv.hook := by
  have hmap : ∀ l : List Nat, (l.map UEv.hook).filter isHook = l.map UEv.hook := by
    intro l; induction l with
    | nil => rfl
    | cons x xs ih => simp [isHook, ih]
  unfold W.writeHeader
  simp [ho, hw, List.filter_append, hmap, isHook]

/-- together: from a fresh writer, after ANY sequence of operations, the number of hook events never exceeds the number
    of registrations made before the commit — in particular each hook runs at most once -/
theorem hooks_run_at_most_once (head : Bool) (pre : List Op) (c : Nat) (post : List Op)
    (hpre : (run head pre).onceDone = false) (hw : (run head pre).written = false) :
    (run head (pre ++ .writeHeader c :: post)).under.filter isHook =
      (run head pre).under.filter isHook ++ (run head pre).hooks.reverse.map UEv.hook := by
  unfold run at *
  rw [List.foldl_append, List.foldl_cons]
  have hc := commit_runs_prestate_hooks (pre.foldl step (init head)) c hpre hw
  show (post.foldl step (step _ (.writeHeader c))).under.filter isHook = _
  simp only [step]
  rw [late_hooks_never_run _ hc.1 post, hc.2]

example : (run false [.before 1, .before 2, .writeHeader 204, .before 3, .write 3 3, .flush]).under.filter isHook =
    [UEv.hook 2, UEv.hook 1] := by decide

end Flamego.Writer
