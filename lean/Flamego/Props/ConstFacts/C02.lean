/-
  Props/ConstFacts/C02.lean — the literals of router.go / leaf.go / tree.go behind property C02
  ("the reserved parameter `route` is the canonical text of the matched route", "each
  regex-constrained value matches its own declared expression in full and literal text around it
  matches literally", "a placeholder is exactly one path segment", "a match-all spans at least
  one and at most its capture-limit segments"), about the constants read from the current
  source (Gen/ConstFacts).  The model (Model/Classify, Model/Tree, Model/Router) spells these
  values itself; the ties below check that it spells the SAME values.
-/
import Flamego.Model.Router
namespace Flamego.ConstFacts.C02
open Flamego

/-- C02 "the reserved parameter `route`": the key on the static fast path … -/
theorem routerRouteParamFast_documented : Gen.routerRouteParamFast = B "route" := by decide
/-- … and after a tree match -/
theorem routerRouteParamTree_documented : Gen.routerRouteParamTree = B "route" := by decide

/-- C02 "matches its own declared expression in full": the assembled pattern starts with `^` … -/
theorem leafRegexStart_documented : Gen.leafRegexStart = B "^" := by decide
/-- … and ends with `$` -/
theorem leafRegexEnd_documented : Gen.leafRegexEnd = B "$" := by decide
/-- C02 "literal text around it matches literally": literals are quoted with `regexp.QuoteMeta` -/
theorem leafRegexLiteralQuoter_documented : Gen.leafRegexLiteralQuoter = "regexp.QuoteMeta" := rfl
/-- a bare `{name}` inside a regex segment captures one or more of anything -/
theorem leafRegexPlaceholder_documented : Gen.leafRegexPlaceholder = B "(.+)" := by decide
/-- each declared expression is its own capture group: `(` … -/
theorem leafRegexGroupOpen_documented : Gen.leafRegexGroupOpen = B "(" := by decide
/-- … `)` -/
theorem leafRegexGroupClose_documented : Gen.leafRegexGroupClose = B ")" := by decide

/-- C02 "at most its capture-limit segments": segments are counted by `/` … -/
theorem leafMatchAllCountSep_documented : Gen.leafMatchAllCountSep = B "/" := by decide
/-- … and a match-all leaf's value is the segment, `/`, and the rest of the path -/
theorem leafMatchAllJoin_documented : Gen.leafMatchAllJoin = B "/" := by decide

/-- C02 "a placeholder is exactly one path segment": the path loses its leading `/`s … -/
theorem treeMatchTrimCutset_documented : Gen.treeMatchTrimCutset = B "/" := by decide
/-- … and is cut into segments at `/` … -/
theorem treeSegmentSeparator_documented : Gen.treeSegmentSeparator = B "/" := by decide
/-- … also by a match-all subtree, which extends its value segment by segment … -/
theorem treeMatchAllSeparator_documented : Gen.treeMatchAllSeparator = B "/" := by decide
/-- … joined by `/` -/
theorem treeMatchAllJoin_documented : Gen.treeMatchAllJoin = B "/" := by decide

/-! ### ties to the model -/

/-- a bare bind inside a regex segment: the model writes the source's group for it -/
theorem placeholder_tie (E : Engine) (b : Bytes) :
    regexOfElems E [.bind b] = .ok (Gen.leafRegexPlaceholder, [b]) := rfl

/-- a declared expression: the model brackets it with the source's literals -/
theorem group_tie (E : Engine) (name e : Bytes) (n : Nat) (h : E.compile e = some n) :
    regexOfElems E [.params [⟨name, .re e⟩]] =
      .ok (Gen.leafRegexGroupOpen ++ e ++ Gen.leafRegexGroupClose, name :: List.replicate n []) := by
  have ho : B "(" = Gen.leafRegexGroupOpen := by decide
  have hc : B ")" = Gen.leafRegexGroupClose := by decide
  simp [regexOfElems, regexOfElems.paramsRegex, h, bind, Except.bind, pure, Except.pure, ho, hc]

/-- the separators are the model's `slash` -/
theorem slash_tie :
    [Gen.treeMatchTrimCutset, Gen.treeSegmentSeparator, Gen.treeMatchAllSeparator, Gen.treeMatchAllJoin,
     Gen.leafMatchAllCountSep, Gen.leafMatchAllJoin] = List.replicate 6 [slash] := rfl

/-- the fast path of the model's `serve` hands over exactly the source's key -/
theorem serve_fast_key_tie (E : Engine) (leaf : Leaf) (m : String) (p : Bytes) :
    Router.serve E { trees := [], statics := [((m, p), leaf)] } ⟨m, p, []⟩ =
      .handler leaf [(Gen.routerRouteParamFast, leaf.route.render)] := by
  have hk : Gen.routerRouteParamFast = B "route" := by decide
  simp [Router.serve, assocGet, hk]

end Flamego.ConstFacts.C02
