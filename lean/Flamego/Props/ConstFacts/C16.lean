/-
  Props/ConstFacts/C16.lean — the literals of static.go that property C16 spells out ("answers
  only GET and HEAD requests", "directories are redirected to their slash-terminated form and
  then served through the index file", the documented defaults "public" and "index.html"), about
  the constants read from the current source (Gen/ConstFacts).
-/
import Flamego.Model.Syntax
import Flamego.Model.Static
namespace Flamego.ConstFacts.C16
open Flamego

/-- StaticOptions.Directory: "Default is \"public\"" -/
theorem staticDefaultDirectory_documented : Gen.staticDefaultDirectory = B "public" := by decide

/-- C16 "served through the index file"; StaticOptions.Index: "Default is \"index.html\"" -/
theorem staticDefaultIndex_documented : Gen.staticDefaultIndex = B "index.html" := by decide

/-- C16 "under the configured prefix": the prefix is normalised to one leading slash … -/
theorem staticPrefixLead_documented : Gen.staticPrefixLead = B "/" := by decide

/-- … and no trailing slash (`strings.Trim(opts.Prefix, "/")`) -/
theorem staticPrefixCutset_documented : Gen.staticPrefixCutset = B "/" := by decide

/-- C16 "answers only GET and HEAD requests" -/
theorem staticMethods_documented : Gen.staticMethods = [B "GET", B "HEAD"] := by decide

/-- the directory itself is asked for as "/" … -/
theorem staticRootFile_documented : Gen.staticRootFile = B "/" := by decide

/-- … and opened as "." -/
theorem staticRootOpenName_documented : Gen.staticRootOpenName = B "." := by decide

/-- any other name loses its trailing slashes -/
theorem staticTrimRightCutset_documented : Gen.staticTrimRightCutset = B "/" := by decide

/-- C16 "directories are redirected to their slash-terminated form" … -/
theorem staticRedirectSuffix_documented : Gen.staticRedirectSuffix = B "/" := by decide

/-- … with `http.StatusFound` -/
theorem staticRedirectStatus_documented : Gen.staticRedirectStatus = 302 := rfl

/-- the entity tag travels in `ETag` … -/
theorem staticETagHeader_documented : Gen.staticETagHeader = B "ETag" := by decide

/-- … is compared with `If-None-Match` … -/
theorem staticIfNoneMatchHeader_documented : Gen.staticIfNoneMatchHeader = B "If-None-Match" := by decide

/-- … and a match answers `http.StatusNotModified` -/
theorem staticNotModifiedStatus_documented : Gen.staticNotModifiedStatus = 304 := rfl

/-! ### ties: the model computes with these constants (or spells the same value) -/

theorem normIndex_tie : Static.normIndex [] = Gen.staticDefaultIndex := rfl

theorem isGetHead_tie (m : Bytes) : Static.isGetHead m = Gen.staticMethods.contains m := rfl

theorem normPrefix_tie (p : Bytes) :
    Static.normPrefix p = if p = [] then [] else Gen.staticPrefixLead ++ Static.trimSlashes p := rfl

theorem openName_root_tie : Static.openName Gen.staticRootFile = Gen.staticRootOpenName := by decide

theorem openName_other_tie (f : Bytes) (h : f ≠ Gen.staticRootFile) :
    Static.openName f = Static.trimRightSlash f := by
  have h' : f ≠ [slash] := h
  simp [Static.openName, h']

theorem redirect_writes_tie (loc : Bytes) :
    (Static.Outcome.redirect loc).writes = [.header (Static.asc "Location"), .status Gen.staticRedirectStatus] := rfl

theorem notModified_writes_tie (n : Bytes) (id : Nat) :
    (Static.Outcome.notModified n id).writes = [.header Gen.staticETagHeader, .status Gen.staticNotModifiedStatus] := rfl

/-- the redirect target of the model ends in the suffix of the source -/
theorem redirect_suffix_tie : [slash] = Gen.staticRedirectSuffix := rfl

end Flamego.ConstFacts.C16
