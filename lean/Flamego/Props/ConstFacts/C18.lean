/-
  Props/ConstFacts/C18.lean — the literals of context.go that property C18 spells out
  ("converted with the standard base-10 / boolean / float parsing rules for the typed
  accessors"), about the constants read from the current source (Gen/ConstFacts).
-/
import Flamego.Model.Syntax
import Flamego.Model.Access
namespace Flamego.ConstFacts.C18
open Flamego

/-- C18 "standard base-10 … parsing rules": `ParamInt64` = `strconv.ParseInt(·, 10, 64)` -/
theorem paramInt64Base_documented : Gen.paramInt64Base = 10 := rfl
theorem paramInt64BitSize_documented : Gen.paramInt64BitSize = 64 := rfl

/-- `QueryInt` = `strconv.ParseInt(·, 10, 0)` (0 = the platform's int) -/
theorem queryIntBase_documented : Gen.queryIntBase = 10 := rfl
theorem queryIntBitSize_documented : Gen.queryIntBitSize = 0 := rfl

/-- `QueryInt64` = `strconv.ParseInt(·, 10, 64)` -/
theorem queryInt64Base_documented : Gen.queryInt64Base = 10 := rfl
theorem queryInt64BitSize_documented : Gen.queryInt64BitSize = 64 := rfl

/-- C18 "float parsing rules": `QueryFloat64` = `strconv.ParseFloat(·, 64)` -/
theorem queryFloat64BitSize_documented : Gen.queryFloat64BitSize = 64 := rfl

/-- `ParamInt` goes through `strconv.Atoi` (the model's `atoi`) -/
theorem paramIntParser_documented : Gen.paramIntParser = "strconv.Atoi" := rfl

/-- C18 "boolean … parsing rules": `QueryBool` goes through `strconv.ParseBool` -/
theorem queryBoolParser_documented : Gen.queryBoolParser = "strconv.ParseBool" := rfl

/-- C18 "a cookie value written with SetCookie": it is added as a `Set-Cookie` header -/
theorem setCookieHeaderName_documented : Gen.setCookieHeaderName = B "Set-Cookie" := by decide

/-! ### ties: the model computes with these constants -/

theorem queryIntBits_tie : Access.queryIntBits = Access.resolveBits Gen.queryIntBitSize := rfl
theorem queryInt64Bits_tie : Access.queryInt64Bits = Access.resolveBits Gen.queryInt64BitSize := rfl
theorem paramInt64Bits_tie : Access.paramInt64Bits = Access.resolveBits Gen.paramInt64BitSize := rfl

/-- the model's `parseInt` is base 10 only; all three call sites pass that base -/
theorem bases_tie : [Gen.paramInt64Base, Gen.queryIntBase, Gen.queryInt64Base] = [10, 10, 10] := rfl

end Flamego.ConstFacts.C18
