/-
  Props/ConstFacts/C14.lean — the literal of return_handler.go that property C14 spells out
  ("a non-nil error gives status 500 with its message"), about the constant read from the
  current source (Gen/ConstFacts).
-/
import Flamego.Model.Return
namespace Flamego.ConstFacts.C14
open Flamego

/-- C14 "a non-nil error gives status 500": `w.WriteHeader(http.StatusInternalServerError)` -/
theorem returnErrorStatus_documented : Gen.returnErrorStatus = 500 := rfl

/-- tie: the status the model's table writes for an error is that constant -/
theorem errorStatus_tie : Ret.errorStatus = (Gen.returnErrorStatus : Int) := rfl

/-- tie, on the table itself: a lone non-nil error renders as that status, then the message -/
theorem render_error_tie (ph m : Bytes) :
    Ret.handleReturn ph (.one (.err (some m))) = [.writeHeader (Gen.returnErrorStatus : Int), .write m] := rfl

end Flamego.ConstFacts.C14
