/-
  Props/ConstFacts/C15.lean — the literals of recovery.go (and the EnvType constant of flame.go)
  that property C15 spells out ("the client gets status 500 if no status had been sent yet",
  "panic detail appears in the body only in development mode"), about the constants read from
  the current source (Gen/ConstFacts).
-/
import Flamego.Model.Syntax
import Flamego.Model.Chain
namespace Flamego.ConstFacts.C15
open Flamego

/-- C15 "the client gets status 500": `w.WriteHeader(http.StatusInternalServerError)` in the recover branch -/
theorem recoveryStatus_documented : Gen.recoveryStatus = 500 := rfl

/-- C15 "only in development mode": the detailed page is chosen by `Env() == EnvTypeDev` … -/
theorem recoveryDetailEnvName_documented : Gen.recoveryDetailEnvName = "EnvTypeDev" := rfl

/-- … and `EnvTypeDev` is "development" -/
theorem recoveryDetailEnv_documented : Gen.recoveryDetailEnv = B "development" := by decide

/-- both branches set `Content-Type` -/
theorem recoveryHeaderKeys_documented :
    Gen.recoveryHeaderKeys = [B "Content-Type", B "Content-Type"] := by decide

/-- C15 "panic detail appears in the body only in development mode": the detail page is HTML … -/
theorem recoveryDetailType_documented : Gen.recoveryDetailType = B "text/html" := by decide

/-- … and otherwise the body is plain text … -/
theorem recoveryPlainType_documented : Gen.recoveryPlainType = B "text/plain" := by decide

/-- … namely `http.StatusText(http.StatusInternalServerError)` … -/
theorem recoveryPlainBodyStatus_documented : Gen.recoveryPlainBodyStatus = 500 := rfl

/-- … which reads "Internal Server Error" (no panic detail) -/
theorem recoveryPlainBody_documented : Gen.recoveryPlainBody = B "Internal Server Error" := by decide

/-! ### ties: the model computes with these constants -/

theorem recoveryStatus_tie : Chain.recoveryStatus = Gen.recoveryStatus := rfl
theorem recoveryPlainLen_tie : Chain.recoveryPlainLen = Gen.recoveryPlainBody.length := rfl

/-- Recovery's own write, in the model: that status, then a body of that length (production mode) -/
theorem recoverWrite_tie (c : Chain.Cfg) (hb : c.onceBug = false) (hd : c.dev = false) (r : Nat) (st : Chain.St) :
    (Chain.recoverWrite c r st).1.w =
      Writer.step (st.w.writeHeader Gen.recoveryStatus)
        (.write Gen.recoveryPlainBody.length Gen.recoveryPlainBody.length) := by
  simp [Chain.recoverWrite, hb, hd, Chain.recoveryStatus, Chain.recoveryPlainLen]

end Flamego.ConstFacts.C15
