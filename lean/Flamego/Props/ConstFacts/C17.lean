/-
  Props/ConstFacts/C17.lean — the literals of render.go that property C17 spells out ("the
  matching Content-Type (with the configured charset where applicable)", RenderOptions.Charset
  "Default is \"utf-8\""), about the constants read from the current source (Gen/ConstFacts).
-/
import Flamego.Model.Syntax
import Flamego.Model.Render
namespace Flamego.ConstFacts.C17
open Flamego

/-- C17 "the matching Content-Type": JSON -/
theorem renderJSONType_documented : Gen.renderJSONType = B "application/json; charset=" := by decide
/-- C17 "with the configured charset where applicable": JSON appends the charset -/
theorem renderJSONCharset_documented : Gen.renderJSONCharset = true := rfl

/-- C17 "the matching Content-Type": XML -/
theorem renderXMLType_documented : Gen.renderXMLType = B "text/xml; charset=" := by decide
theorem renderXMLCharset_documented : Gen.renderXMLCharset = true := rfl

/-- C17 "the matching Content-Type": Binary, which has no charset -/
theorem renderBinaryType_documented : Gen.renderBinaryType = B "application/octet-stream" := by decide
theorem renderBinaryCharset_documented : Gen.renderBinaryCharset = false := rfl

/-- C17 "the matching Content-Type": PlainText -/
theorem renderPlainType_documented : Gen.renderPlainType = B "text/plain; charset=" := by decide
theorem renderPlainCharset_documented : Gen.renderPlainCharset = true := rfl

/-- all four methods set `Content-Type` -/
theorem renderHeaderKeys_documented :
    Gen.renderHeaderKeys = [B "Content-Type", B "Content-Type", B "Content-Type", B "Content-Type"] := by decide

/-- RenderOptions.Charset: "Default is \"utf-8\"" -/
theorem renderDefaultCharset_documented : Gen.renderDefaultCharset = B "utf-8" := by decide

/-- an encoder failure is reported with `http.StatusInternalServerError`, by JSON … -/
theorem renderJSONErrorStatus_documented : Gen.renderJSONErrorStatus = 500 := rfl
/-- … and by XML -/
theorem renderXMLErrorStatus_documented : Gen.renderXMLErrorStatus = 500 := rfl

/-! ### ties: the model computes with these constants -/

theorem ctKey_tie : Gen.renderHeaderKeys = [Render.ctKey, Render.ctKey, Render.ctKey, Render.ctKey] := by decide

theorem contentType_tie (o : Render.Opts) :
    Render.contentType o .json = Gen.renderJSONType ++ o.charset ∧
    Render.contentType o .xml = Gen.renderXMLType ++ o.charset ∧
    Render.contentType o .binary = Gen.renderBinaryType ∧
    Render.contentType o .plainText = Gen.renderPlainType ++ o.charset := ⟨rfl, rfl, rfl, rfl⟩

theorem parse_tie : (Render.Opts.parse {}).charset = Gen.renderDefaultCharset := rfl

/-- the model uses one status for both encoders: JSON's literal, which is also XML's -/
theorem encodeErrorStatus_tie :
    Render.encodeErrorStatus = Gen.renderJSONErrorStatus ∧ Render.encodeErrorStatus = Gen.renderXMLErrorStatus := ⟨rfl, rfl⟩

end Flamego.ConstFacts.C17
