/-
  Props/ConstFacts/C13.lean — the literals of response_writer.go that property C13 spells out
  ("the first status sent (200 when a body write or flush came first)", "the reported status is
  0 until then", "HEAD requests forward no body bytes"), stated about the constants the
  translator reads from the CURRENT source on every run (Gen/ConstFacts).  A changed literal
  breaks the theorem that names it, at build time.
-/
import Flamego.Model.Syntax
import Flamego.Model.Writer
namespace Flamego.ConstFacts.C13
open Flamego

/-- C13 "200 when a body write … came first": `Write` sends `http.StatusOK` implicitly -/
theorem writerWriteImplicitStatus_documented : Gen.writerWriteImplicitStatus = 200 := rfl

/-- C13 "200 when a … flush came first": `Flush` sends `http.StatusOK` implicitly -/
theorem writerFlushImplicitStatus_documented : Gen.writerFlushImplicitStatus = 200 := rfl

/-- C13 "HEAD requests forward no body bytes": the method `Write` tests for is `http.MethodHead` -/
theorem writerBodylessMethod_documented : Gen.writerBodylessMethod = B "HEAD" := by decide

/-- C13 "the reported status is 0 until then": `Written()` is `Status() != 0` -/
theorem writerUnwrittenStatus_documented : Gen.writerUnwrittenStatus = 0 := rfl

/-! ### ties: the model computes with these constants -/

/-- the model's `ensure` (shared by `Write` and `Flush`) sends the literal of `Write` … -/
theorem ensure_tie (w : Writer.W) (h : w.written = false) :
    w.ensure = w.writeHeader Gen.writerWriteImplicitStatus := by
  simp [Writer.W.ensure, h]

/-- … which is also the literal of `Flush` -/
theorem flush_status_tie : Gen.writerFlushImplicitStatus = Gen.writerWriteImplicitStatus := rfl

/-- a fresh writer reports the "nothing sent" status, and `Written()` compares with it -/
theorem written_tie (w : Writer.W) : w.written = (w.status != Gen.writerUnwrittenStatus) := rfl

/-- "the underlying writer receives at most one status line … whichever operation triggers it": in the
    source the whole body of `WriteHeader` runs under a `sync.Once` — which is what the model's `onceDone`
    flag mirrors (Model/Writer.lean) and what makes a second commit a no-op even when it arrives while the
    first is still running its hooks. If the commit stops being serialised this way the model no longer
    mirrors the code and this obligation breaks. -/
theorem writerCommitGuard_documented : Gen.writerCommitGuard = "sync.Once" := by decide

end Flamego.ConstFacts.C13
