/-
  Props/ConstFacts/C12.lean — the literals of router.go `URLPath` and leaf.go `URLPath` behind
  property C12 ("replaces every `{bind}` of the route by the supplied value", "leaves binds
  without a value visible as `{bind}`", "includes the optional segment only when asked" — by
  passing `"withOptional", "true"`), about the constants read from the current source
  (Gen/ConstFacts).  The model (Model/Router, URL building) spells the same values.
-/
import Flamego.Model.Syntax
import Flamego.Gen.ConstFacts
namespace Flamego.ConstFacts.C12
open Flamego

/-- C12 "includes the optional segment only when asked": the pair `"withOptional", "true"` … -/
theorem routerWithOptionalKey_documented : Gen.routerWithOptionalKey = B "withOptional" := by decide
theorem routerWithOptionalValue_documented : Gen.routerWithOptionalValue = B "true" := by decide
/-- … which is consumed (not substituted) -/
theorem routerWithOptionalDeleted_documented : Gen.routerWithOptionalDeleted = B "withOptional" := by decide

/-- every segment starts with `/` -/
theorem urlSegmentLead_documented : Gen.urlSegmentLead = B "/" := by decide
/-- C12 "leaves binds without a value visible as `{bind}`": a bare bind is written `{name}` … -/
theorem urlBindOpen_documented : Gen.urlBindOpen = B "{" := by decide
theorem urlBindClose_documented : Gen.urlBindClose = B "}" := by decide
/-- … so is each parameter of a list (its regex / capture annotation dropped) … -/
theorem urlParamOpen_documented : Gen.urlParamOpen = B "{" := by decide
theorem urlParamClose_documented : Gen.urlParamClose = B "}" := by decide
/-- … an empty element is `???` … -/
theorem urlEmptyElement_documented : Gen.urlEmptyElement = B "???" := by decide
/-- … and the route without its only, optional segment is `/` -/
theorem urlRootPath_documented : Gen.urlRootPath = B "/" := by decide
/-- C12 "replaces every `{bind}`": the replacer's keys are `{` + name + `}` -/
theorem urlKeyOpen_documented : Gen.urlKeyOpen = B "{" := by decide
theorem urlKeyClose_documented : Gen.urlKeyClose = B "}" := by decide

/-- what is written for a bind is what the replacer looks for -/
theorem key_matches_bind :
    (Gen.urlBindOpen, Gen.urlBindClose) = (Gen.urlKeyOpen, Gen.urlKeyClose) ∧
    (Gen.urlParamOpen, Gen.urlParamClose) = (Gen.urlKeyOpen, Gen.urlKeyClose) := by decide

end Flamego.ConstFacts.C12
