/-
  Props/ConstFacts/C11.lean — the literals and the small table of router.go behind property C11
  (Group / Combo / Routes / Any / AutoHead equal their flat expansion): which method each
  shortcut registers, what `Any` passes, what `Routes` splits at, what AutoHead adds.
-/
import Flamego.Model.Dsl
namespace Flamego.ConstFacts.C11
open Flamego

/-- `Any` is `Route("*", …)` -/
theorem routerAnyArg_documented : Gen.routerAnyArg = Dsl.B "*" := by decide

/-- `Get` … `Trace` are `Route(http.MethodGet, …)` … `Route(http.MethodTrace, …)` -/
theorem routerVerbMethods_documented :
    Gen.routerVerbMethods = [("Get", "GET"), ("Patch", "PATCH"), ("Post", "POST"), ("Put", "PUT"),
      ("Delete", "DELETE"), ("Options", "OPTIONS"), ("Head", "HEAD"), ("Connect", "CONNECT"), ("Trace", "TRACE")] := rfl

/-- each `ComboRoute` verb calls the router shortcut of the same name, with the same method -/
theorem comboVerbMethods_documented : Gen.comboVerbMethods = Gen.routerVerbMethods := rfl

/-- AutoHead: `Get` additionally calls `Head` -/
theorem routerAutoHeadVerb_documented : Gen.routerAutoHeadVerb = "Head" := rfl

/-- `Routes("…", "GET,POST", …)`: the method list is split at commas -/
theorem routerRoutesSeparator_documented : Gen.routerRoutesSeparator = Dsl.B "," := by decide

/-! ### ties to the model -/

/-- the Go name of a verb of the DSL model -/
def goName : Dsl.Verb → String
  | .get => "Get" | .post => "Post" | .put => "Put" | .delete => "Delete" | .patch => "Patch"
  | .options => "Options" | .head => "Head" | .connect => "Connect" | .trace => "Trace"

/-- the model's `Verb.method` is the source's table -/
theorem verb_method_tie (v : Dsl.Verb) :
    (Gen.routerVerbMethods.lookup (goName v)).map Dsl.B = some v.method := by
  cases v <;> decide

/-- what AutoHead adds in the model (`B "HEAD"`) is the method of the shortcut the source calls -/
theorem autoHead_tie :
    (Gen.routerVerbMethods.lookup Gen.routerAutoHeadVerb).map Dsl.B = some Dsl.Verb.head.method := by decide

theorem anyArg_tie : Dsl.anyArg = Gen.routerAnyArg := rfl

/-- the model's `splitComma` cuts at the source's separator -/
theorem splitComma_tie (a b : Bytes) (ha : 44 ∉ a) :
    Dsl.splitComma (a ++ Gen.routerRoutesSeparator ++ b) = a :: Dsl.splitComma b := by
  induction a with
  | nil => rfl
  | cons c cs ih =>
    have hc : c ≠ 44 := fun h => ha (by simp [h])
    have hcs : 44 ∉ cs := fun h => ha (by simp [h])
    have := ih hcs
    rw [List.append_assoc] at this
    simp [Dsl.splitComma, hc, this]

end Flamego.ConstFacts.C11
