/-
  Props/ConstFacts/C08.lean — the literals of router.go / leaf.go / tree.go behind property C08
  ("the HTTP method is unknown", "the same route is already registered for that method
  (including the short form implied by an optional segment)", "two match-all segments …"), about
  the constants read from the current source (Gen/ConstFacts): the `*` method, the match-all
  keyword `**` at its four sites, `capture`, and the cutset that strips `/` and the optional
  mark `?` from a segment's text.
-/
import Flamego.Model.Classify
import Flamego.Model.Dsl
namespace Flamego.ConstFacts.C08
open Flamego

/-- C08 "the HTTP method is unknown": every method but the nine and `*` is; `*` is all nine -/
theorem routerAnyMethod_documented : Gen.routerAnyMethod = B "*" := by decide

/-- `{**}` is not a placeholder … -/
theorem leafPlaceholderExcluded_documented : Gen.leafPlaceholderExcluded = B "**" := by decide
/-- … it is the bare match-all … -/
theorem leafAllBareIdent_documented : Gen.leafAllBareIdent = B "**" := by decide
/-- … binding the name `**` … -/
theorem leafAllBareBind_documented : Gen.leafAllBareBind = B "**" := by decide
/-- … without a capture limit -/
theorem leafAllBareCapture_documented : Gen.leafAllBareCapture = 0 := rfl
/-- `{name: **}` is a match-all -/
theorem leafAllLiteral_documented : Gen.leafAllLiteral = B "**" := by decide
/-- its limit is the second parameter, named `capture` … -/
theorem leafCaptureKeyword_documented : Gen.leafCaptureKeyword = B "capture" := by decide
/-- … read with `strconv.Atoi` (the model's `atoiGo`) -/
theorem leafCaptureParser_documented : Gen.leafCaptureParser = "strconv.Atoi" := rfl

/-- C08 "including the short form implied by an optional segment": a static leaf's literal is
    the segment text without `/` and without the optional mark `?` … -/
theorem leafStaticTrimCutset_documented : Gen.leafStaticTrimCutset = B "/?" := by decide
/-- … and the duplicate test compares both segment texts stripped the same way -/
theorem treeDuplicateTrimCutsets_documented : Gen.treeDuplicateTrimCutsets = [B "/?", B "/?"] := by decide

/-! ### ties to the model -/

/-- the model has ONE keyword `starStar`; it is the source's literal at each of the four sites -/
theorem starStar_tie :
    starStar = Gen.leafAllLiteral ∧ starStar = Gen.leafPlaceholderExcluded ∧
    starStar = Gen.leafAllBareIdent ∧ starStar = Gen.leafAllBareBind := ⟨rfl, rfl, rfl, rfl⟩

theorem captureKeyword_tie : captureKeyword = Gen.leafCaptureKeyword := rfl

/-- the bare match-all of the model: that name, that limit -/
theorem allBind_bare_tie (o : Bool) :
    allBind ⟨o, [.bind Gen.leafAllBareIdent]⟩ = some (Gen.leafAllBareBind, (Gen.leafAllBareCapture : Int)) := by
  cases o <;> decide

/-- `{name: **, capture: 3}` in the model: the source's two keywords -/
theorem allBind_capture_tie (o : Bool) :
    allBind ⟨o, [.params [⟨[110], .lit Gen.leafAllLiteral⟩, ⟨Gen.leafCaptureKeyword, .lit [51]⟩]]⟩ = some ([110], 3) := by
  cases o <;> decide

/-- the DSL model's `addRoute` expands exactly the source's `*` -/
theorem anyMethod_tie : Dsl.anyMethod = Gen.routerAnyMethod := rfl

end Flamego.ConstFacts.C08
