/-
  Props/C02Code.lean — C02 / C08 at the level of the CODE: `constructMatchStyleRegex`.

  The function that assembles a regex segment's pattern and the list of bind names aligned with its capture groups — the
  place where C02's "each bind gets what ITS expression captured" and C08's "a bind used twice in a segment is refused" are
  decided — is in `Gen/ClassifyCode.lean`, regenerated from leaf.go on every run: two nested `range` loops with early
  returns over the segment's elements and their parameter lists, a `bytes.Buffer`, a map used as a set.

  For every regex engine and EVERY segment of the parser's AST (`goSeg`, Props/C01Code):

    * `regex_refines`: the generated function returns what the model's `classifyRegex` (Model/Classify.lean) returns — the
      same pattern `^…$`, the same bind list (one entry per capture group, the groups of a user's own expression unnamed),
      and an error exactly when, and of the kind, the model says (an element without content, a non-regex literal in a
      parameter list, an expression that does not compile, a bind used twice, an assembled pattern that does not compile).
-/
import Flamego.Props.C01Code
set_option linter.unusedSimpArgs false
set_option linter.unusedVariables false
namespace Flamego.C02Code
open Flamego.GoSem Flamego.Gen.ClassifyCode Flamego.C01Code

/-- the model's error as the code's error value -/
def codeOf : RegErr → Err
  | .emptySegment => 1
  | .nonRegexLiteral => 2
  | .badSubexpr => 3
  | .dupBindInSegment => 4
  | .badPattern => 3
  | _ => 9

/-- what `constructMatchStyleRegex` returns for a verdict of the model -/
def resOf : Except RegErr Pat → Lib.Regexp × List Bytes × Err
  | .ok (.regex p bs) => (p, bs, 0)
  | .ok _ => (default, [], 9)
  | .error e => (default, [], codeOf e)

theorem err_empty : Lib.errors_Errorf (B "empty segment element in position %d") = 1 := by decide
theorem err_nonregex : Lib.errors_Errorf (B "segment has non-regex literal in position %d") = 2 := by decide
theorem err_compile : Lib.errors_Wrapf (B "compile regexp near position %d") = 3 := by decide
theorem err_dup : Lib.errors_Errorf (B "duplicated bind parameter %q in position %d") = 4 := by decide


/-! ### the three loop bodies, as the translation spells them (copied from Gen/ClassifyCode.lean; `code_shape` below checks by
`rfl` that the generated function is built from exactly these) -/

abbrev R := Lib.Regexp × List Bytes × Err

def innerBody (E : Engine) : Int × BindParameter → List Bytes × Lib.Buffer → GoSem.Ctl R × (List Bytes × Lib.Buffer) :=
  fun (_, p) (binds, buf) =>
                if (p.Value.Regex).isNone then (
                  (GoSem.Ctl.ret ((default : Lib.Regexp), [], (Lib.errors_Errorf (([115, 101, 103, 109, 101, 110, 116, 32, 104, 97, 115, 32, 110, 111, 110, 45, 114, 101, 103, 101, 120, 32, 108, 105, 116, 101, 114, 97, 108, 32, 105, 110, 32, 112, 111, 115, 105, 116, 105, 111, 110, 32, 37, 100] : Bytes) /- "segment has non-regex literal in position %d" -/))), (binds, buf))
                ) else (
                  let (sub, err) := (Lib.regexp_Compile E (GoSem.deref p.Value.Regex));
                  if (err != 0) then (
                    (GoSem.Ctl.ret ((default : Lib.Regexp), [], (Lib.errors_Wrapf (([99, 111, 109, 112, 105, 108, 101, 32, 114, 101, 103, 101, 120, 112, 32, 110, 101, 97, 114, 32, 112, 111, 115, 105, 116, 105, 111, 110, 32, 37, 100] : Bytes) /- "compile regexp near position %d" -/))), (binds, buf))
                  ) else (
                    let binds := (binds ++ [p.Ident]);
                    let binds := (binds ++ (List.replicate ((Lib.Regexp_NumSubexp E sub)).toNat ([]) : List Bytes));
                    let buf := Lib.Buffer_WriteString buf (([40] : Bytes) /- "(" -/);
                    let buf := Lib.Buffer_WriteString buf (GoSem.deref p.Value.Regex);
                    let buf := Lib.Buffer_WriteString buf (([41] : Bytes) /- ")" -/);
                    (GoSem.Ctl.next, (binds, buf))
                  )
                )

def outerBody (E : Engine) : Int × SegmentElement → Lib.Buffer × List Bytes → GoSem.Ctl R × (Lib.Buffer × List Bytes) :=
  fun (_, e) (buf, binds) =>
      if (e.Ident).isSome then (
        let buf := Lib.Buffer_WriteString buf (Flamego.quoteMeta (GoSem.deref e.Ident));
        (GoSem.Ctl.next, (buf, binds))
      ) else (
        if (e.BindIdent).isSome then (
          let binds := (binds ++ [(GoSem.deref e.BindIdent)]);
          let buf := Lib.Buffer_WriteString buf (([40, 46, 43, 41] : Bytes) /- "(.+)" -/);
          (GoSem.Ctl.next, (buf, binds))
        ) else (
          if ((e.BindParameters).isNone || (((GoSem.deref e.BindParameters).Parameters.length : Int) == 0)) then (
            (GoSem.Ctl.ret ((default : Lib.Regexp), [], (Lib.errors_Errorf (([101, 109, 112, 116, 121, 32, 115, 101, 103, 109, 101, 110, 116, 32, 101, 108, 101, 109, 101, 110, 116, 32, 105, 110, 32, 112, 111, 115, 105, 116, 105, 111, 110, 32, 37, 100] : Bytes) /- "empty segment element in position %d" -/))), (buf, binds))
          ) else (
            let (ctl_, (binds, buf)) := GoSem.forRangeCtl (ρ := R) (GoSem.enum ((GoSem.deref e.BindParameters).Parameters)) (innerBody E) (binds, buf);
            match ctl_ with
            | GoSem.Ctl.ret r_ => (GoSem.Ctl.ret r_, (buf, binds))
            | _ => (
              (GoSem.Ctl.next, (buf, binds))
            )
          )
        )
      )

def dupBody : Int × Bytes → List (Bytes × Unit) → GoSem.Ctl R × List (Bytes × Unit) :=
  fun (_, bind) seen =>
        if (bind == ([] : Bytes)) then (
          (GoSem.Ctl.next, seen)
        ) else (
          let (_, «exists») := GoSem.mapGet2 seen bind;
          if «exists» then (
            (GoSem.Ctl.ret ((default : Lib.Regexp), [], (Lib.errors_Errorf (([100, 117, 112, 108, 105, 99, 97, 116, 101, 100, 32, 98, 105, 110, 100, 32, 112, 97, 114, 97, 109, 101, 116, 101, 114, 32, 37, 113, 32, 105, 110, 32, 112, 111, 115, 105, 116, 105, 111, 110, 32, 37, 100] : Bytes) /- "duplicated bind parameter %q in position %d" -/))), seen)
          ) else (
            let seen := GoSem.mapSet seen bind ();
            (GoSem.Ctl.next, seen)
          )
        )

/-- the generated function with its three loop bodies named -/
def codeShape (E : Engine) (s : Gen.ClassifyCode.Segment) : R :=
  let binds := ([] : List Bytes);
  let buf := (Lib.Buffer_new (([94] : Bytes) /- "^" -/));
  let (ctl_, (buf, binds)) := GoSem.forRangeCtl (ρ := R) (GoSem.enum s.Elements) (outerBody E) (buf, binds);
  match ctl_ with
  | GoSem.Ctl.ret r_ => r_
  | _ => (
    let buf := Lib.Buffer_WriteString buf (([36] : Bytes) /- "$" -/);
    let seen := ([] : List (Bytes × Unit));
    let (ctl_, seen) := GoSem.forRangeCtl (ρ := R) (GoSem.enum binds) dupBody seen;
    match ctl_ with
    | GoSem.Ctl.ret r_ => r_
    | _ => (
      let (re, err) := (Lib.regexp_Compile E (Lib.Buffer_String buf));
      if (err != 0) then (
        ((default : Lib.Regexp), [], (Lib.errors_Wrapf (([99, 111, 109, 112, 105, 108, 101, 32, 114, 101, 103, 101, 120, 112, 32, 110, 101, 97, 114, 32, 112, 111, 115, 105, 116, 105, 111, 110, 32, 37, 100] : Bytes) /- "compile regexp near position %d" -/)))
      ) else (
        (re, binds, 0)
      )
    )
  )


theorem code_shape (E : Engine) (s : Gen.ClassifyCode.Segment) : constructMatchStyleRegex E s = codeShape E s := rfl


/-! ### loops against folds -/

/-- a loop's result agrees with a verdict of the model: it went through and left exactly that state, or it returned the
error of that kind -/
def Agree {σ : Type} (r : GoSem.Ctl R × σ) : Except RegErr σ → Prop
  | .ok s' => r = (GoSem.Ctl.next, s')
  | .error e => ∃ s', r = (GoSem.Ctl.ret ((default : Lib.Regexp), [], codeOf e), s')

theorem fold_agree {α β σ : Type} (g : α → β) (f : σ → α → Except RegErr σ) (body : Int × β → σ → GoSem.Ctl R × σ)
    (hbody : ∀ i x st, Agree (body (i, g x) st) (f st x)) (xs : List α) (n : Nat) (st : σ) :
    Agree (GoSem.forRangeCtl (ρ := R) (((xs.map g).zipIdx n).map fun p => ((p.2 : Int), p.1)) body st) (xs.foldlM f st) := by
  induction xs generalizing n st with
  | nil => simp [GoSem.forRangeCtl, Agree, List.foldlM, pure, Except.pure]
  | cons x xs ih =>
    have h := hbody (n : Int) x st
    simp only [List.map_cons, List.zipIdx_cons, GoSem.forRangeCtl, List.foldlM_cons]
    cases hf : f st x with
    | error e =>
      rw [hf] at h
      obtain ⟨s', hs'⟩ := h
      rw [hs']
      exact ⟨s', rfl⟩
    | ok s1 =>
      rw [hf] at h
      simp only [Agree] at h
      rw [h]
      simp only [bind, Except.bind]
      exact ih (n + 1) s1

theorem err_lit1 : Lib.errors_Errorf ([101, 109, 112, 116, 121, 32, 115, 101, 103, 109, 101, 110, 116, 32, 101, 108, 101, 109, 101, 110, 116, 32, 105, 110, 32, 112, 111, 115, 105, 116, 105, 111, 110, 32, 37, 100] : Bytes) = 1 := by decide
theorem err_lit2 : Lib.errors_Errorf ([115, 101, 103, 109, 101, 110, 116, 32, 104, 97, 115, 32, 110, 111, 110, 45, 114, 101, 103, 101, 120, 32, 108, 105, 116, 101, 114, 97, 108, 32, 105, 110, 32, 112, 111, 115, 105, 116, 105, 111, 110, 32, 37, 100] : Bytes) = 2 := by decide
theorem err_lit3 : Lib.errors_Wrapf ([99, 111, 109, 112, 105, 108, 101, 32, 114, 101, 103, 101, 120, 112, 32, 110, 101, 97, 114, 32, 112, 111, 115, 105, 116, 105, 111, 110, 32, 37, 100] : Bytes) = 3 := by decide
theorem err_lit4 : Lib.errors_Errorf ([100, 117, 112, 108, 105, 99, 97, 116, 101, 100, 32, 98, 105, 110, 100, 32, 112, 97, 114, 97, 109, 101, 116, 101, 114, 32, 37, 113, 32, 105, 110, 32, 112, 111, 115, 105, 116, 105, 111, 110, 32, 37, 100] : Bytes) = 4 := by decide

/-! ### the parameter list of one element -/

def pStep (E : Engine) (st : List Bytes × Bytes) (p : BindParam) : Except RegErr (List Bytes × Bytes) :=
  match p.val with
  | .lit _ => .error .nonRegexLiteral
  | .re e =>
    match E.compile e with
    | none => .error .badSubexpr
    | some n => .ok (st.1 ++ p.ident :: List.replicate n [], st.2 ++ (B "(" ++ e ++ B ")"))

theorem params_fold (E : Engine) (ps : List BindParam) (bs0 : List Bytes) (buf0 : Bytes) :
    ps.foldlM (pStep E) (bs0, buf0)
      = (regexOfElems.paramsRegex E ps).map fun r => (bs0 ++ r.2, buf0 ++ r.1) := by
  induction ps generalizing bs0 buf0 with
  | nil => simp [List.foldlM, regexOfElems.paramsRegex, pure, Except.pure, Except.map]
  | cons q qs ih =>
    obtain ⟨qid, qv⟩ := q
    cases qv with
    | lit l => simp [List.foldlM_cons, pStep, regexOfElems.paramsRegex, bind, Except.bind, Except.map]
    | re e =>
      cases hc : E.compile e with
      | none => simp [List.foldlM_cons, pStep, regexOfElems.paramsRegex, hc, bind, Except.bind, Except.map]
      | some n =>
        simp only [List.foldlM_cons, pStep, regexOfElems.paramsRegex, hc, bind, Except.bind]
        rw [ih]
        cases regexOfElems.paramsRegex E qs with
        | error e' => simp [Except.map, pure, Except.pure]
        | ok r => simp [Except.map, pure, Except.pure, List.append_assoc]

theorem inner_agree (E : Engine) (i : Int) (p : BindParam) (st : List Bytes × Lib.Buffer) :
    Agree (innerBody E (i, goParam p) st) (pStep E st p) := by
  obtain ⟨pid, pv⟩ := p
  obtain ⟨bs, buf⟩ := st
  cases pv with
  | lit l => simp [innerBody, goParam, goVal, pStep, Agree, codeOf, err_lit2]
  | re e =>
    cases hc : E.compile e with
    | none =>
      simp [innerBody, goParam, goVal, pStep, Agree, codeOf, err_lit3, GoSem.deref, Lib.regexp_Compile, hc]
    | some n =>
      simp [innerBody, goParam, goVal, pStep, Agree, GoSem.deref, Lib.regexp_Compile, Lib.Regexp_NumSubexp, hc,
        Lib.Buffer_WriteString, B, List.append_assoc]



/-! ### the elements of the segment -/

def eStep (E : Engine) (st : Bytes × List Bytes) (el : Elem) : Except RegErr (Bytes × List Bytes) :=
  match el with
  | .ident x => .ok (st.1 ++ quoteMeta x, st.2)
  | .bind b => .ok (st.1 ++ B "(.+)", st.2 ++ [b])
  | .params [] => .error .emptySegment
  | .params (q :: qs) => (regexOfElems.paramsRegex E (q :: qs)).map fun r => (st.1 ++ r.1, st.2 ++ r.2)

theorem elems_fold (E : Engine) (es : List Elem) (buf0 : Bytes) (bs0 : List Bytes) :
    es.foldlM (eStep E) (buf0, bs0) = (regexOfElems E es).map fun r => (buf0 ++ r.1, bs0 ++ r.2) := by
  induction es generalizing buf0 bs0 with
  | nil => simp [List.foldlM, regexOfElems, pure, Except.pure, Except.map]
  | cons el es ih =>
    cases el with
    | ident x =>
      simp only [List.foldlM_cons, eStep, regexOfElems, bind, Except.bind]
      rw [ih]
      cases regexOfElems E es <;> simp [Except.map, pure, Except.pure, List.append_assoc]
    | bind b =>
      simp only [List.foldlM_cons, eStep, regexOfElems, bind, Except.bind]
      rw [ih]
      cases regexOfElems E es <;> simp [Except.map, pure, Except.pure, List.append_assoc]
    | params ps =>
      cases ps with
      | nil => simp [List.foldlM_cons, eStep, regexOfElems, bind, Except.bind, Except.map]
      | cons q qs =>
        simp only [List.foldlM_cons, eStep, regexOfElems, bind, Except.bind]
        cases hp : regexOfElems.paramsRegex E (q :: qs) with
        | error e => simp [Except.map]
        | ok r =>
          simp only [Except.map]
          rw [ih]
          cases regexOfElems E es <;> simp [Except.map, pure, Except.pure, List.append_assoc]

theorem outer_agree (E : Engine) (i : Int) (el : Elem) (st : Lib.Buffer × List Bytes) :
    Agree (outerBody E (i, goElem el) st) (eStep E st el) := by
  obtain ⟨buf, bs⟩ := st
  cases el with
  | ident x => simp [outerBody, goElem, eStep, Agree, GoSem.deref, Lib.Buffer_WriteString]
  | bind b => simp [outerBody, goElem, eStep, Agree, GoSem.deref, Lib.Buffer_WriteString, B]
  | params ps =>
    cases ps with
    | nil => simp [outerBody, goElem, eStep, Agree, codeOf, err_lit1, GoSem.deref]
    | cons q qs =>
      have hloop := fold_agree goParam (pStep E) (innerBody E) (fun i p st => inner_agree E i p st) (q :: qs) 0 (bs, buf)
      rw [params_fold] at hloop
      have hne : (((q :: qs).map goParam).length : Int) ≠ 0 := by simp; omega
      simp only [outerBody, goElem, GoSem.deref, Option.getD_some, Option.isSome_none, Option.isNone_some, Bool.false_eq_true,
        if_false, Bool.false_or, GoSem.enum, beq_iff_eq, hne]
      cases hp : regexOfElems.paramsRegex E (q :: qs) with
      | error e =>
        rw [hp] at hloop
        obtain ⟨s', hs'⟩ := hloop
        rw [hs']
        simp [eStep, hp, Except.map, Agree]
      | ok r =>
        rw [hp] at hloop
        simp only [Except.map, Agree] at hloop
        rw [hloop]
        simp [eStep, hp, Except.map, Agree]



/-! ### a bind used twice -/

def keysOf (seen : List (Bytes × Unit)) : List Bytes := seen.map (·.1)

def dStep (seen : List (Bytes × Unit)) (b : Bytes) : Except RegErr (List (Bytes × Unit)) :=
  if b = [] then .ok seen
  else if (keysOf seen).contains b then .error .dupBindInSegment
  else .ok (GoSem.mapSet seen b ())

theorem find_keys (seen : List (Bytes × Unit)) (b : Bytes) :
    (seen.find? (fun kv => kv.1 == b)).isSome = (keysOf seen).contains b := by
  induction seen with
  | nil => rfl
  | cons kv seen ih =>
    by_cases h : kv.1 = b
    · simp [keysOf, List.find?_cons, h]
    · have h1 : (kv.1 == b) = false := by simpa using h
      have h2 : (b == kv.1) = false := by simpa using fun e : b = kv.1 => h e.symm
      simp only [keysOf, List.map_cons, List.find?_cons, h1, List.contains_cons, h2, Bool.false_or] at ih ⊢
      exact ih

theorem mapGet2_snd (seen : List (Bytes × Unit)) (b : Bytes) :
    (GoSem.mapGet2 seen b).2 = (keysOf seen).contains b := by
  rw [← find_keys]
  unfold GoSem.mapGet2
  cases seen.find? (fun kv => kv.1 == b) <;> rfl

theorem dup_agree (i : Int) (b : Bytes) (seen : List (Bytes × Unit)) :
    Agree (dupBody (i, id b) seen) (dStep seen b) := by
  by_cases hb : b = []
  · simp [dupBody, dStep, hb, Agree]
  · have hk := mapGet2_snd seen b
    have hbb : (b == ([] : Bytes)) = false := by simpa using hb
    simp only [dupBody, dStep, hb, id, hbb, Bool.false_eq_true, if_false, hk]
    cases hc : (keysOf seen).contains b <;> simp [Agree, codeOf, err_lit4]

theorem keys_mapSet (seen : List (Bytes × Unit)) (b : Bytes) (h : (keysOf seen).contains b = false) :
    keysOf (GoSem.mapSet seen b ()) = keysOf seen ++ [b] := by
  induction seen with
  | nil => rfl
  | cons kv seen ih =>
    obtain ⟨k, u⟩ := kv
    have hk : ¬ b = k := by
      intro e; subst e; simp [keysOf] at h
    have hk' : (k == b) = false := by simpa using fun e : k = b => hk e.symm
    have hrest : (keysOf seen).contains b = false := by
      simp [keysOf] at h ⊢; exact h.2
    simp only [GoSem.mapSet, hk', Bool.false_eq_true, if_false, keysOf, List.map_cons, List.cons_append]
    exact congrArg _ (ih hrest)

/-- does a non-empty name occur among the names seen before or twice in the list -/
def hasDupFrom : List Bytes → List Bytes → Bool
  | _, [] => false
  | ks, b :: bs => if b = [] then hasDupFrom ks bs else ks.contains b || hasDupFrom (ks ++ [b]) bs

theorem dup_fold (bs : List Bytes) (seen : List (Bytes × Unit)) :
    (hasDupFrom (keysOf seen) bs = true → bs.foldlM dStep seen = .error .dupBindInSegment)
    ∧ (hasDupFrom (keysOf seen) bs = false → ∃ seen', bs.foldlM dStep seen = .ok seen') := by
  induction bs generalizing seen with
  | nil => simp [hasDupFrom, List.foldlM, pure, Except.pure]
  | cons b bs ih =>
    by_cases hb : b = []
    · simp only [hasDupFrom, hb, if_true, List.foldlM_cons, dStep, bind, Except.bind]
      exact ih seen
    · cases hc : (keysOf seen).contains b with
      | true =>
        have hm : b ∈ keysOf seen := by simpa using hc
        simp [hasDupFrom, hb, hc, hm, List.foldlM_cons, dStep, bind, Except.bind]
      | false =>
        have := ih (GoSem.mapSet seen b ())
        rw [keys_mapSet seen b hc] at this
        simp only [hasDupFrom, hb, if_false, hc, Bool.false_or, List.foldlM_cons, dStep, Bool.false_eq_true, bind, Except.bind]
        exact this

theorem contains_append_single (ks : List Bytes) (b x : Bytes) : (ks ++ [b]).contains x = (ks.contains x || x == b) := by
  by_cases h : x = b <;> simp [List.contains_append, h]

theorem hasDupFrom_eq (ks bs : List Bytes) :
    hasDupFrom ks bs = ((bs.filter (· ≠ [])).any (fun x => ks.contains x) || hasDup (bs.filter (· ≠ []))) := by
  induction bs generalizing ks with
  | nil => simp [hasDupFrom, hasDup]
  | cons b bs ih =>
    by_cases hb : b = []
    · simp [hasDupFrom, hb, ih]
    · have hf : (b :: bs).filter (· ≠ []) = b :: bs.filter (· ≠ []) := by simp [List.filter_cons, hb]
      rw [hf]
      simp only [hasDupFrom, hb, if_false, ih, List.any_cons, hasDup, contains_append_single, List.any_eq_true, Bool.or_eq_true]
      have hany : ((bs.filter (· ≠ [])).any fun x => ks.contains x || x == b)
          = ((bs.filter (· ≠ [])).any (fun x => ks.contains x) || (bs.filter (· ≠ [])).contains b) := by
        induction bs.filter (· ≠ []) with
        | nil => simp
        | cons y ys ihy =>
          simp only [List.any_cons, ihy, List.contains_cons]
          have : (y == b) = (b == y) := by
            by_cases e : y = b
            · subst e; rfl
            · have e' : ¬ b = y := fun q => e q.symm
              rw [beq_eq_false_iff_ne.mpr e, beq_eq_false_iff_ne.mpr e']
          rw [this]
          cases ks.contains y <;> cases (b == y) <;> cases (ys.any fun x => ks.contains x) <;> cases ys.contains b <;> rfl
      rw [hany]
      cases ks.contains b <;> cases ((bs.filter (· ≠ [])).any fun x => ks.contains x) <;>
        cases (bs.filter (· ≠ [])).contains b <;> cases hasDup (bs.filter (· ≠ [])) <;> rfl


/-! ### the function -/

/-- REFINEMENT: for every engine and every segment of the parser's AST, `constructMatchStyleRegex` returns what the model's
`classifyRegex` returns: pattern, bind list aligned with the capture groups, and the error of the model's kind -/
theorem regex_refines (E : Engine) (s : Flamego.Segment) :
    constructMatchStyleRegex E (goSeg s) = resOf (classifyRegex E s) := by
  rw [code_shape]
  have houter := fold_agree goElem (eStep E) (outerBody E) (fun i el st => outer_agree E i el st) s.elems 0
    (Lib.Buffer_new [94], ([] : List Bytes))
  rw [elems_fold] at houter
  have henum : GoSem.enum (goSeg s).Elements = ((s.elems.map goElem).zipIdx 0).map fun p => ((p.2 : Int), p.1) := rfl
  unfold codeShape classifyRegex
  simp only [henum]
  cases hr : regexOfElems E s.elems with
  | error e =>
    rw [hr] at houter
    obtain ⟨s', hs'⟩ := houter
    rw [hs']
    simp [resOf, bind, Except.bind]
  | ok r =>
    obtain ⟨p, bs⟩ := r
    rw [hr] at houter
    simp only [Except.map, Agree] at houter
    rw [houter]
    simp only [Lib.Buffer_new, Lib.Buffer_WriteString, Lib.Buffer_String, List.nil_append, bind, Except.bind]
    have hdup := fold_agree (id : Bytes → Bytes) dStep dupBody (fun i b st => dup_agree i b st) bs 0 ([] : List (Bytes × Unit))
    have henum2 : GoSem.enum bs = ((bs.map id).zipIdx 0).map fun p => ((p.2 : Int), p.1) := by simp [GoSem.enum]
    simp only [henum2]
    have hd := dup_fold bs ([] : List (Bytes × Unit))
    have hfrom := hasDupFrom_eq [] bs
    simp only [keysOf, List.map_nil, List.contains_nil, List.any_eq_true, Bool.false_eq_true, and_false, exists_false,
      decide_false, Bool.false_or] at hd hfrom
    have hfrom' : hasDupFrom [] bs = hasDup (bs.filter (· ≠ [])) := by
      rw [hasDupFrom_eq]; simp
    have hpat : ([94] : Bytes) ++ p ++ [36] = B "^" ++ p ++ B "$" := by simp [B]
    cases hh : hasDup (bs.filter (· ≠ [])) with
    | true =>
      have hfold := hd.1 (by rw [hfrom', hh])
      rw [hfold] at hdup
      obtain ⟨s', hs'⟩ := hdup
      rw [hs']
      simp [resOf, hh, codeOf]
    | false =>
      obtain ⟨seen', hfold⟩ := hd.2 (by rw [hfrom', hh])
      rw [hfold] at hdup
      simp only [Agree] at hdup
      rw [hdup]
      simp only [hh, Bool.false_eq_true, if_false]
      rw [← hpat]
      cases hc : E.compile ([94] ++ p ++ [36]) with
      | none =>
        have hc' : E.compile (94 :: (p ++ [36])) = none := by simpa using hc
        simp [Lib.regexp_Compile, hc, hc', resOf, codeOf, err_lit3]
      | some n =>
        have hc' : E.compile (94 :: (p ++ [36])) = some n := by simpa using hc
        simp [Lib.regexp_Compile, hc, hc', resOf, pure, Except.pure]

/-- the non-regex styles never reach this function with a verdict of their own: its only successful verdicts are regex
patterns anchored at both ends -/
theorem regex_ok_shape (E : Engine) (s : Flamego.Segment) (re : Lib.Regexp) (bs : List Bytes)
    (h : constructMatchStyleRegex E (goSeg s) = (re, bs, 0)) :
    ∃ p, re = B "^" ++ p ++ B "$" ∧ classifyRegex E s = .ok (.regex re bs) := by
  rw [regex_refines] at h
  unfold classifyRegex at h ⊢
  cases hr : regexOfElems E s.elems with
  | error e => rw [hr] at h; simp [resOf, bind, Except.bind, codeOf] at h; cases e <;> simp at h
  | ok r =>
    obtain ⟨p, bs'⟩ := r
    rw [hr] at h
    simp only [bind, Except.bind] at h ⊢
    cases hh : hasDup (bs'.filter (· ≠ [])) with
    | true => rw [hh] at h; simp [resOf, codeOf] at h
    | false =>
      rw [hh] at h
      simp only [Bool.false_eq_true, if_false] at h ⊢
      cases hc : E.compile (B "^" ++ p ++ B "$") with
      | none => rw [hc] at h; simp [resOf, codeOf] at h
      | some n =>
        rw [hc] at h
        simp only [resOf, pure, Except.pure, Prod.mk.injEq] at h
        obtain ⟨h1, h2, _⟩ := h
        exact ⟨p, h1.symm, by rw [h1, h2]; rfl⟩

end Flamego.C02Code
