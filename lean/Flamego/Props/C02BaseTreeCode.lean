/-
  Props/C02BaseTreeCode.lean — C01/C02/C08 at the level of the CODE: the matcher every tree inherits from `baseTree`
  (tree.go) — `matchLeaf`, `matchSubtree`, `matchNextSegment`, `Match` — the place where the PRECEDENCE among competing routes is
  decided: leaves in their (priority) order, first match wins; subtrees in their order, each tried to the bottom before the
  next; the match-all subtree last; then the tree's own match-all leaf.

  `Gen/BaseTreeCode.lean` is regenerated from internal/route/tree.go on every run.  Calls on the children (interface values)
  stand for the model's functions on them (Code/LibTree.lean): the translated bodies are one level of the recursion.

  Proved, for every tree node, path, cursor, segment and parameter map:

    * `matchLeaf_refines`: the loop over the leaves is the model's `matchLeaves` — the first leaf in list order that
      matches, with the parameters it wrote;
    * `matchSubtree_refines`: the loop over the subtrees with its `break`/`continue`/`return`, and the fall-back to the last
      leaf, is the model's `matchSubsIdx` (whenever the model does not panic);
    * `matchNextSegment_refines`: cutting the segment off the path and dispatching is the model's `matchNextIdx`;
    * `matchNextSegment_segments`: hence, at a cursor inside the path, the body returns what the SEGMENT-level model
      `matchNext` (Model/Tree.lean — the one C01/C02/C08's theorems are about) returns, and never runs into a panic.
    * `Match_refines`: `baseTree.Match` — trim the leading slashes, search from the root with an empty map, then rewrite
      every value by its percent-decoding when it has one (`unescape_loop`: in place, each exactly once — the map's names are
      distinct, Proofs/ParamsDistinct) — is the model's `Node.match`, for every byte string.
  The receiver is never changed.
-/
import Flamego.Gen.BaseTreeCode
import Flamego.Proofs.TreeIdx
import Flamego.Proofs.ParamsDistinct
set_option linter.unusedSimpArgs false
set_option linter.unusedVariables false
namespace Flamego.C02BaseTreeCode
open Flamego.GoSem Flamego.Gen.BaseTreeCode

variable (E : Flamego.Engine) (hok : Nat → Bool)

/-! ### matchLeaf -/

theorem leaves_loop (seg : Bytes) (h : Lib.Header)
    (body : Int × Lib.Leaf → Params → GoSem.Ctl (Lib.Leaf × Bool × Params) × Params)
    (hb : ∀ i l ps, body (i, l) ps =
      (if (Lib.Leaf_match E hok l seg ps h).1 then (GoSem.Ctl.ret (l, true, (Lib.Leaf_match E hok l seg ps h).2), (Lib.Leaf_match E hok l seg ps h).2)
       else (GoSem.Ctl.next, (Lib.Leaf_match E hok l seg ps h).2)))
    (leaves : List Leaf) (n : Nat) (ps : Params) :
    GoSem.forRangeCtl ((leaves.zipIdx n).map fun p => ((p.2 : Int), p.1)) body ps =
      (match matchLeaves E hok leaves seg ps with
       | (some l, ps') => (GoSem.Ctl.ret (l, true, ps'), ps')
       | (none, ps') => (GoSem.Ctl.next, ps')) := by
  induction leaves generalizing n ps with
  | nil => simp [GoSem.forRangeCtl, matchLeaves]
  | cons l ls ih =>
    cases hm : leafMatch E hok l seg ps with
    | some ps' =>
      have hL : Lib.Leaf_match E hok l seg ps h = (true, ps') := by simp [Lib.Leaf_match, hm]
      have hbody : body (((n : Nat) : Int), l) ps = (GoSem.Ctl.ret (l, true, ps'), ps') := by rw [hb, hL]; rfl
      simp only [List.zipIdx_cons, List.map_cons, GoSem.forRangeCtl, hbody, matchLeaves, hm]
    | none =>
      have hL : Lib.Leaf_match E hok l seg ps h = (false, ps) := by simp [Lib.Leaf_match, hm]
      have hbody : body (((n : Nat) : Int), l) ps = (GoSem.Ctl.next, ps) := by rw [hb, hL]; rfl
      simp only [List.zipIdx_cons, List.map_cons, GoSem.forRangeCtl, hbody, matchLeaves, hm]
      exact ih (n + 1) ps

/-- **`baseTree.matchLeaf` is the model's `matchLeaves`**: the first leaf, in the order of `t.leaves`, whose `match` succeeds -/
theorem matchLeaf_refines (t : baseTree) (seg : Bytes) (ps : Params) (h : Lib.Header) :
    matchLeaf E hok t seg ps h = (Lib.resOf ps (matchLeavesIdx E hok t.leaves seg ps), t) := by
  unfold matchLeaf
  simp only [GoSem.enum]
  rw [leaves_loop E hok seg h _ (fun i l ps => by
    cases hm : (Lib.Leaf_match E hok l seg ps h) with
    | mk ok ps' => cases ok <;> simp [hm])]
  simp only [matchLeavesIdx]
  cases hr : matchLeaves E hok t.leaves seg ps with
  | mk ol ps' => cases ol <;> simp [Lib.resOf]

/-! ### matchSubtree -/

/-- the part of `matchSubtree` after the loop, as the translation spells it: the tree's last leaf, if it is a match-all leaf -/
def fallback (t : baseTree) (path segment : Bytes) (next : Int) (params : Params) (header : Lib.Header) :
    (Lib.Leaf × Bool × Params) × baseTree :=
  if (decide ((t.leaves.length : Int) > 0)) then (
    let leaf := (GoSem.idx t.leaves ((t.leaves.length : Int) - 1));
    if ((Lib.Leaf_getMatchStyle leaf) != 4) then (
      (((default : Lib.Leaf), false, params), t)
    ) else (
      let (t6, params) := Lib.Leaf_matchAll hok leaf path segment next params header;
      let ok := t6;
      if ok then (
        ((leaf, ok, params), t)
      ) else (
        (((default : Lib.Leaf), false, params), t)
      )
    )
  ) else (
    (((default : Lib.Leaf), false, params), t)
  )

theorem idx_last (ls : List Leaf) (l : Leaf) (h : ls.getLast? = some l) :
    GoSem.idx ls ((ls.length : Int) - 1) = l ∧ 0 < ls.length := by
  have hne : ls ≠ [] := by intro e; subst e; simp at h
  have hpos : 0 < ls.length := List.length_pos_iff.mpr hne
  refine ⟨?_, hpos⟩
  have h1 : ¬ ((ls.length : Int) - 1 < 0) := by omega
  have h2 : ((ls.length : Int) - 1).toNat = ls.length - 1 := by omega
  simp only [GoSem.idx, h1, if_false, h2]
  rw [List.getLast?_eq_getElem?] at h
  simp [List.getD_eq_getElem?_getD, h]

theorem matchAllLeafIdx_last (leaves : List Leaf) (l : Leaf) (h : leaves.getLast? = some l) (path seg : Bytes) (next : Nat)
    (ps : Params) : matchAllLeafIdx hok leaves path seg next ps = matchAllLeafIdx hok [l] path seg next ps := by
  unfold matchAllLeafIdx
  simp [h]

theorem matchAllLeafIdx_shape (l : Leaf) (path seg : Bytes) (next : Nat) (ps : Params) (ol : Option Leaf) (ps' : Params)
    (hr : matchAllLeafIdx hok [l] path seg next ps = .ok (ol, ps')) :
    (ol = none → ps' = ps) ∧ (∀ l', ol = some l' → l' = l) := by
  simp only [matchAllLeafIdx, List.getLast?_singleton] at hr
  repeat' split at hr
  all_goals (try cases hr)
  all_goals (refine ⟨?_, ?_⟩)
  all_goals (intro a)
  all_goals first
    | rfl
    | (intro b; cases b; rfl)
    | (intro b; cases b)
    | cases a

theorem fallback_refines (t : baseTree) (path seg : Bytes) (next : Nat) (ps : Params) (h : Lib.Header)
    (r : Option Leaf × Params) (hr : matchAllLeafIdx hok t.leaves path seg next ps = .ok r) :
    fallback hok t path seg (next : Int) ps h = (Lib.resOf ps (.ok r), t) := by
  unfold fallback
  cases hl : t.leaves.getLast? with
  | none =>
    have : t.leaves = [] := List.getLast?_eq_none_iff.mp hl
    have hr' : r = (none, ps) := by
      rw [this] at hr; simp [matchAllLeafIdx] at hr; exact hr.symm
    simp [this, hr', Lib.resOf]
  | some l =>
    obtain ⟨hidx, hpos⟩ := idx_last t.leaves l hl
    have hlen : decide ((t.leaves.length : Int) > 0) = true := by simp; omega
    rw [matchAllLeafIdx_last hok t.leaves l hl] at hr
    simp only [hlen, if_true, hidx, Lib.Leaf_getMatchStyle, Lib.Leaf_matchAll, Int.toNat_natCast, hr]
    cases hp : l.pat with
    | «static» _ =>
      have : r = (none, ps) := by simp [matchAllLeafIdx, hp] at hr; exact hr.symm
      simp [Lib.styleOf, this, Lib.resOf]
    | hole _ =>
      have : r = (none, ps) := by simp [matchAllLeafIdx, hp] at hr; exact hr.symm
      simp [Lib.styleOf, this, Lib.resOf]
    | regex _ _ =>
      have : r = (none, ps) := by simp [matchAllLeafIdx, hp] at hr; exact hr.symm
      simp [Lib.styleOf, this, Lib.resOf]
    | all b cap =>
      simp only [Lib.styleOf, bne_self_eq_false, Bool.false_eq_true, if_false]
      obtain ⟨ol, ps'⟩ := r
      obtain ⟨h1, h2⟩ := matchAllLeafIdx_shape hok l path seg next ps ol ps' hr
      cases ol with
      | none => simp [Lib.resOf, h1 rfl]
      | some l' => simp [Lib.resOf, h2 l' rfl]

/-- a search result of the model as the three values of the Go methods -/
def tri : Option Leaf × Params → Lib.Leaf × Bool × Params
  | (some l, ps) => (l, true, ps)
  | (none, ps) => (default, false, ps)

theorem resOf_ok (ps0 : Params) (r : Option Leaf × Params) : Lib.resOf ps0 (.ok r) = tri r := by
  obtain ⟨ol, ps⟩ := r
  cases ol <;> rfl

/-- the body of the loop over the subtrees, as the translation spells it -/
def subBody (path segment : Bytes) (next : Int) (header : Lib.Header) :
    Int × Lib.Tree → Params → GoSem.Ctl (Lib.Leaf × Bool × Params) × Params :=
  fun (_, st) params =>
      if ((Lib.Tree_getMatchStyle st) == 4) then (
        let (t1, t2, params) := Lib.Tree_matchAll E hok st path segment next params header;
        let (leaf, ok) := (t1, t2);
        if ok then (
          (GoSem.Ctl.ret (leaf, true, params), params)
        ) else (
          (GoSem.Ctl.brk, params)
        )
      ) else (
        let (t3, params) := Lib.Tree_match E st segment params;
        let ok := t3;
        if (!ok) then (
          (GoSem.Ctl.next, params)
        ) else (
          let (t4, t5, params) := Lib.Tree_matchNextSegment E hok st path next params header;
          let (leaf, ok) := (t4, t5);
          if (!ok) then (
            (GoSem.Ctl.next, params)
          ) else (
            (GoSem.Ctl.ret (leaf, true, params), params)
          )
        )
      )

/-- the loop and what follows it, for the subtrees not yet visited -/
def afterLoop (t : baseTree) (path segment : Bytes) (next : Int) (header : Lib.Header)
    (x : GoSem.Ctl (Lib.Leaf × Bool × Params) × Params) : (Lib.Leaf × Bool × Params) × baseTree :=
  match x.1 with
  | GoSem.Ctl.ret r_ => (r_, t)
  | _ => fallback hok t path segment next x.2 header

theorem subs_loop (t : baseTree) (path seg : Bytes) (next : Nat) (h : Lib.Header) (subs : List Node) (n : Nat) (ps : Params)
    (r : Option Leaf × Params) (hr : matchSubsIdx E hok subs t.leaves path seg next ps = .ok r) :
    afterLoop hok t path seg (next : Int) h
      (GoSem.forRangeCtl ((subs.zipIdx n).map fun p => ((p.2 : Int), p.1)) (subBody E hok path seg (next : Int) h) ps)
      = (tri r, t) := by
  induction subs generalizing n ps r with
  | nil =>
    rw [matchSubsIdx] at hr
    simp only [List.zipIdx_nil, List.map_nil, GoSem.forRangeCtl, afterLoop]
    rw [fallback_refines hok t path seg next ps h r hr, resOf_ok]
  | cons st more ih =>
    obtain ⟨key, cpat, csubs, cleaves⟩ := st
    have hnat : ((next : Nat) : Int).toNat = next := Int.toNat_natCast next
    by_cases hall : ∃ b cap, cpat = .all b cap
    · -- the match-all subtree: hit → return; miss → break, then the fall-back
      obtain ⟨b, cap, rfl⟩ := hall
      rw [matchSubsIdx] at hr
      have hstyle : Lib.Tree_getMatchStyle (Node.mk key (.all b cap) csubs cleaves) = 4 := rfl
      have hta : Lib.Tree_matchAll E hok (Node.mk key (.all b cap) csubs cleaves) path seg (next : Int) ps h
          = Lib.resOf ps (matchAllLoopIdx E hok csubs cleaves b cap 1 path seg next ps) := by
        simp only [Lib.Tree_matchAll, Node.pat, Node.subs, Node.leaves, hnat]
      cases hm : matchAllLoopIdx E hok csubs cleaves b cap 1 path seg next ps with
      | error e => simp [hm] at hr
      | ok v =>
        obtain ⟨ol, ps'⟩ := v
        cases ol with
        | some l =>
          simp only [hm] at hr
          cases hr
          have hbody : subBody E hok path seg (next : Int) h (((n : Nat) : Int), Node.mk key (.all b cap) csubs cleaves) ps
              = (GoSem.Ctl.ret (l, true, ps'), ps') := by
            simp only [subBody, hstyle, hta, hm, Lib.resOf]; rfl
          simp only [List.zipIdx_cons, List.map_cons, GoSem.forRangeCtl, hbody, afterLoop, tri]
        | none =>
          simp only [hm] at hr
          have hbody : subBody E hok path seg (next : Int) h (((n : Nat) : Int), Node.mk key (.all b cap) csubs cleaves) ps
              = (GoSem.Ctl.brk, ps') := by
            simp only [subBody, hstyle, hta, hm, Lib.resOf]; rfl
          simp only [List.zipIdx_cons, List.map_cons, GoSem.forRangeCtl, hbody, afterLoop]
          rw [fallback_refines hok t path seg next ps' h r hr, resOf_ok]
    · -- any other subtree: its own match, then the search below it; a miss at either step → continue
      have hna : ∀ b cap, cpat = .all b cap → False := fun b cap e => hall ⟨b, cap, e⟩
      rw [matchSubsIdx] at hr
      · have hstyle : (Lib.Tree_getMatchStyle (Node.mk key cpat csubs cleaves) == 4) = false := by
          cases cpat with
          | all b cap => exact absurd rfl (fun e => hna b cap e)
          | _ => rfl
        cases hm : treeMatch E cpat seg ps with
        | none =>
          simp only [hm] at hr
          have hbody : subBody E hok path seg (next : Int) h (((n : Nat) : Int), Node.mk key cpat csubs cleaves) ps
              = (GoSem.Ctl.next, ps) := by
            simp only [subBody, hstyle, Lib.Tree_match, Node.pat, hm]; rfl
          simp only [List.zipIdx_cons, List.map_cons, GoSem.forRangeCtl, hbody]
          exact ih (n + 1) ps r hr
        | some ps1 =>
          simp only [hm] at hr
          have htn : Lib.Tree_matchNextSegment E hok (Node.mk key cpat csubs cleaves) path (next : Int) ps1 h
              = Lib.resOf ps1 (matchNextIdx E hok csubs cleaves path next ps1) := by
            simp only [Lib.Tree_matchNextSegment, Node.subs, Node.leaves, hnat]
          cases hn : matchNextIdx E hok csubs cleaves path next ps1 with
          | error e => simp [hn] at hr
          | ok v =>
            obtain ⟨ol, ps2⟩ := v
            cases ol with
            | some l =>
              simp only [hn] at hr
              cases hr
              have hbody : subBody E hok path seg (next : Int) h (((n : Nat) : Int), Node.mk key cpat csubs cleaves) ps
                  = (GoSem.Ctl.ret (l, true, ps2), ps2) := by
                simp only [subBody, hstyle, Lib.Tree_match, Node.pat, hm, htn, hn, Lib.resOf]; rfl
              simp only [List.zipIdx_cons, List.map_cons, GoSem.forRangeCtl, hbody, afterLoop, tri]
            | none =>
              simp only [hn] at hr
              have hbody : subBody E hok path seg (next : Int) h (((n : Nat) : Int), Node.mk key cpat csubs cleaves) ps
                  = (GoSem.Ctl.next, ps2) := by
                simp only [subBody, hstyle, Lib.Tree_match, Node.pat, hm, htn, hn, Lib.resOf]; rfl
              simp only [List.zipIdx_cons, List.map_cons, GoSem.forRangeCtl, hbody]
              exact ih (n + 1) ps2 r hr
      · exact hna

/-- **`baseTree.matchSubtree` is the model's `matchSubsIdx`** (on every run on which the model does not panic): subtrees in
order, each searched to the bottom before the next is tried; a match-all subtree ends the loop; then the tree's own last
leaf, if it is a match-all leaf -/
theorem matchSubtree_refines (t : baseTree) (path seg : Bytes) (next : Nat) (ps : Params) (h : Lib.Header)
    (r : Option Leaf × Params) (hr : matchSubsIdx E hok t.subtrees t.leaves path seg next ps = .ok r) :
    matchSubtree E hok t path seg (next : Int) ps h = (tri r, t) := by
  have hshape : matchSubtree E hok t path seg (next : Int) ps h
      = afterLoop hok t path seg (next : Int) h
          (GoSem.forRangeCtl (GoSem.enum t.subtrees) (subBody E hok path seg (next : Int) h) ps) := rfl
  rw [hshape]
  exact subs_loop E hok t path seg next h t.subtrees 0 ps r hr

/-! ### matchNextSegment -/

theorem strings_Index_slash (s : Bytes) :
    Lib.strings_Index s [47] = (match indexSlash s with | some i => (i : Int) | none => -1) := by
  unfold Lib.strings_Index
  rw [if_pos rfl]
  cases indexSlash s <;> rfl

/-- **`baseTree.matchNextSegment` is the model's `matchNextIdx`**: no further "/" — the leaves decide; else the segment up to
it is cut off and the subtrees decide -/
theorem matchNextSegment_refines (t : baseTree) (path : Bytes) (next : Nat) (ps : Params) (h : Lib.Header)
    (r : Option Leaf × Params) (hr : matchNextIdx E hok t.subtrees t.leaves path next ps = .ok r) :
    matchNextSegment E hok t path (next : Int) ps h = (tri r, t) := by
  rw [matchNextIdx] at hr
  cases hs : sliceFrom path next with
  | error e => simp [hs] at hr
  | ok tail =>
    obtain ⟨hle, htail⟩ := sliceFrom_ok hs
    have hdrop : GoSem.sliceFrom path (next : Int) = tail := by simp [GoSem.sliceFrom, htail]
    simp only [hs] at hr
    unfold matchNextSegment
    simp only [hdrop, strings_Index_slash]
    cases hi : indexSlash tail with
    | none =>
      simp only [hi] at hr
      have hr' : matchLeavesIdx E hok t.leaves tail ps = .ok r := hr
      simp only [matchLeaf_refines, hr', resOf_ok]
      obtain ⟨ol, ps'⟩ := r
      cases ol <;> simp [tri]
    | some i =>
      simp only [hi] at hr
      have hlt := indexSlash_lt hi
      have hlen : tail.length = path.length - next := by rw [htail, List.length_drop]
      have hsl : slice path next (next + i) = .ok (tail.take i) := by
        rw [slice_eq path next i (by omega), htail]
      simp only [hsl] at hr
      have hne : ((i : Int) == -1) = false := by
        simp only [beq_eq_false_iff_ne, ne_eq]; omega
      have hseg : GoSem.sliceTo tail (((next : Int) + (i : Int)) - (next : Int)) = tail.take i := by
        have : ((next : Int) + (i : Int)) - (next : Int) = (i : Int) := by omega
        simp [GoSem.sliceTo, this]
      have hnext : ((next : Int) + (i : Int)) + 1 = ((next + i + 1 : Nat) : Int) := by omega
      simp only [hne, Bool.false_eq_true, if_false, hseg, hnext]
      rw [matchSubtree_refines E hok t path (tail.take i) (next + i + 1) ps h r hr]

/-! ### down to the segment-level model (the one C01/C02/C08's theorems are about) -/

/-- at a cursor inside the path the body returns what the SEGMENT-level matcher `matchNext` returns for the segments that
are left — and the index-level model does not panic there (Proofs/TreeIdx), so the hypothesis of `matchNextSegment_refines`
is met on every request path -/
theorem matchNextSegment_segments (t : baseTree) (path : Bytes) (next : Nat) (ps : Params) (h : Lib.Header)
    (s : Seg) (rest : List Seg) (hc : Cursor path next) (hsp : splitSlash (path.drop next) = s :: rest) :
    matchNextSegment E hok t path (next : Int) ps h = (tri (matchNext E hok t.subtrees t.leaves s rest ps), t) :=
  matchNextSegment_refines E hok t path next ps h _ (matchNextIdx_refines E hok t.subtrees t.leaves path next s rest ps hc hsp)

/-- the start of `Match`: the search from the root on a path whose leading slashes were trimmed -/
theorem matchNextSegment_root (t : baseTree) (path : Bytes) (h : Lib.Header) (s : Seg) (rest : List Seg)
    (hsp : splitSlash path = s :: rest) :
    matchNextSegment E hok t path 0 [] h = (tri (matchNext E hok t.subtrees t.leaves s rest []), t) :=
  matchNextSegment_segments E hok t path 0 [] h s rest (Cursor.zero path) (by simpa using hsp)

theorem matchLeaves_first (pre : List Leaf) (l : Leaf) (post : List Leaf) (seg : Bytes) (ps ps' : Params)
    (hpre : ∀ l' ∈ pre, leafMatch E hok l' seg ps = none) (hl : leafMatch E hok l seg ps = some ps') :
    matchLeaves E hok (pre ++ l :: post) seg ps = (some l, ps') := by
  induction pre with
  | nil => simp [matchLeaves, hl]
  | cons p pre ih =>
    have hp := hpre p (by simp)
    simp only [List.cons_append, matchLeaves, hp]
    exact ih (fun l' hl' => hpre l' (List.mem_cons_of_mem _ hl'))

/-- precedence among the leaves, for the code: an earlier leaf that matches hides every later one -/
theorem code_first_leaf_wins (t : baseTree) (pre : List Leaf) (l : Leaf) (post : List Leaf) (seg : Bytes) (ps ps' : Params)
    (h : Lib.Header) (ht : t.leaves = pre ++ l :: post) (hpre : ∀ l' ∈ pre, leafMatch E hok l' seg ps = none)
    (hl : leafMatch E hok l seg ps = some ps') :
    (matchLeaf E hok t seg ps h).1 = (l, true, ps') := by
  rw [matchLeaf_refines, ht]
  simp only [matchLeavesIdx, matchLeaves_first E hok pre l post seg ps ps' hpre hl]
  rfl

/-! ### Match -/

open Flamego.ParamsDistinct in
theorem mapSet_skip (pre rest : Params) (k v u : Bytes) (hk : ∀ x ∈ pre, x.1 ≠ k) :
    GoSem.mapSet (pre ++ (k, v) :: rest) k u = pre ++ (k, u) :: rest := by
  induction pre with
  | nil => simp [GoSem.mapSet]
  | cons p pre ih =>
    have hp : (p.1 == k) = false := by simpa using hk p (by simp)
    simp only [List.cons_append, GoSem.mapSet, hp, Bool.false_eq_true, if_false]
    rw [ih (fun x hx => hk x (by simp [hx]))]

open Flamego.ParamsDistinct in
/-- the final loop of `Match`: every value is replaced, in place, by its percent-decoding when it has one -/
theorem unescape_loop (body : Bytes × Bytes → Params → GoSem.Ctl (Lib.Leaf × Params × Bool) × Params)
    (hb : ∀ k v ps, body (k, v) ps = (GoSem.Ctl.next,
      if ((Lib.url_PathUnescape v).2 == 0) then GoSem.mapSet ps k (Lib.url_PathUnescape v).1 else ps))
    (rest : Params) (pre pre' : Params) (hd : KeysDistinct (pre ++ rest)) (hk : pre'.map (·.1) = pre.map (·.1)) :
    GoSem.forRangeCtl rest body (pre' ++ rest)
      = (GoSem.Ctl.next, pre' ++ rest.map fun kv => (kv.1, pathUnescapeOrRaw kv.2)) := by
  induction rest generalizing pre pre' with
  | nil => simp [GoSem.forRangeCtl]
  | cons kv rest ih =>
    obtain ⟨k, v⟩ := kv
    have hfresh : ∀ x ∈ pre', x.1 ≠ k := by
      intro x hx
      have hmem : x.1 ∈ pre'.map (·.1) := List.mem_map_of_mem hx
      rw [hk] at hmem
      obtain ⟨y, hy, e⟩ := List.mem_map.mp hmem
      have hpw := List.pairwise_append.mp hd
      have := hpw.2.2 y hy (k, v) (by simp)
      rw [← e]; exact this
    have hstep : (if ((Lib.url_PathUnescape v).2 == 0) then GoSem.mapSet (pre' ++ (k, v) :: rest) k (Lib.url_PathUnescape v).1
        else pre' ++ (k, v) :: rest) = (pre' ++ [(k, pathUnescapeOrRaw v)]) ++ rest := by
      cases hu : pathUnescape v with
      | some u =>
        simp only [Lib.url_PathUnescape, hu, beq_self_eq_true, if_true, pathUnescapeOrRaw, Option.getD_some]
        rw [mapSet_skip pre' rest k v u hfresh]; simp
      | none =>
        simp [Lib.url_PathUnescape, hu, pathUnescapeOrRaw]
    simp only [GoSem.forRangeCtl, hb, hstep]
    rw [ih (pre ++ [(k, v)]) (pre' ++ [(k, pathUnescapeOrRaw v)]) (by simpa using hd) (by simp [hk])]
    simp

theorem splitSlash_cons (p : Bytes) : ∃ s rest, splitSlash p = s :: rest := by
  cases h : splitSlash p with
  | nil => exact absurd h (splitSlash_ne_nil p)
  | cons s rest => exact ⟨s, rest, rfl⟩

open Flamego.ParamsDistinct in
/-- **`baseTree.Match` is the model's `Node.match`** (segment level): trim the leading slashes, search from the root with an
empty map, percent-decode every value that decodes — for every tree node, every byte string -/
theorem Match_refines (t : baseTree) (node : Node) (hs : t.subtrees = node.subs) (hl : t.leaves = node.leaves)
    (path : Bytes) (h : Lib.Header) :
    Match E hok t path h =
      ((match node.match E hok path with
        | some (l, ps) => (l, ps, true)
        | none => ((default : Lib.Leaf), [], false)), t) := by
  obtain ⟨s, rest, hsp⟩ := splitSlash_cons (trimLeftSlash path)
  have htrim : Lib.strings_TrimLeft path [47] = trimLeftSlash path := by simp [Lib.strings_TrimLeft]
  unfold Match
  simp only [htrim]
  have hroot := matchNextSegment_root E hok t (trimLeftSlash path) h s rest hsp
  have h0 : ((0 : Nat) : Int) = 0 := rfl
  rw [hroot]
  simp only [Node.match, hsp, hs, hl]
  have hdist := matchNext_distinct E hok node.subs node.leaves s rest [] List.Pairwise.nil
  cases hm : matchNext E hok node.subs node.leaves s rest [] with
  | mk ol ps =>
    rw [hm] at hdist
    cases ol with
    | none => simp [tri]
    | some l =>
      simp only [tri, Bool.not_true, Bool.false_eq_true, if_false]
      have hloop := unescape_loop
        (fun (x : Bytes × Bytes) (params : Params) =>
          ((GoSem.Ctl.next : GoSem.Ctl (Lib.Leaf × Params × Bool)),
            if ((Lib.url_PathUnescape x.snd).snd == 0) = true then
              GoSem.mapSet params x.fst (Lib.url_PathUnescape x.snd).fst
            else params))
        (fun k v ps => rfl) ps [] [] (by simpa using hdist) rfl
      simp only [List.nil_append] at hloop
      rw [hloop]

/-! ### hasMatchAllLeaf / hasMatchAllSubtree (asked when a route is added: at most one match-all per list, and it is last) -/

theorem idx_last' {α : Type} [Inhabited α] (ls : List α) (x : α) (h : ls.getLast? = some x) :
    GoSem.idx ls ((ls.length : Int) - 1) = x ∧ 0 < ls.length := by
  have hne : ls ≠ [] := by intro e; subst e; simp at h
  have hpos : 0 < ls.length := List.length_pos_iff.mpr hne
  refine ⟨?_, hpos⟩
  have h1 : ¬ ((ls.length : Int) - 1 < 0) := by omega
  have h2 : ((ls.length : Int) - 1).toNat = ls.length - 1 := by omega
  simp only [GoSem.idx, h1, if_false, h2]
  rw [List.getLast?_eq_getElem?] at h
  simp [List.getD_eq_getElem?_getD, h]

theorem styleOf_all (p : Pat) : (Lib.styleOf p == 4) = p.isAll := by
  cases p <;> rfl

/-- `hasMatchAllLeaf` is the model's `lastIsAll` on the leaves -/
theorem hasMatchAllLeaf_refines (t : baseTree) :
    hasMatchAllLeaf t = (lastIsAll Leaf.pat t.leaves, t) := by
  unfold hasMatchAllLeaf lastIsAll
  cases hl : t.leaves.getLast? with
  | none =>
    have : t.leaves = [] := List.getLast?_eq_none_iff.mp hl
    simp [this]
  | some l =>
    obtain ⟨hidx, hpos⟩ := idx_last' t.leaves l hl
    have : decide ((t.leaves.length : Int) > 0) = true := by simp; omega
    simp only [this, Bool.true_and, hidx, Lib.Leaf_getMatchStyle, styleOf_all]

/-- `hasMatchAllSubtree` is the model's `lastIsAll` on the subtrees -/
theorem hasMatchAllSubtree_refines (t : baseTree) :
    hasMatchAllSubtree t = (lastIsAll Node.pat t.subtrees, t) := by
  unfold hasMatchAllSubtree lastIsAll
  cases hl : t.subtrees.getLast? with
  | none =>
    have : t.subtrees = [] := List.getLast?_eq_none_iff.mp hl
    simp [this]
  | some st =>
    obtain ⟨hidx, hpos⟩ := idx_last' t.subtrees st hl
    have : decide ((t.subtrees.length : Int) > 0) = true := by simp; omega
    simp only [this, Bool.true_and, hidx, Lib.Tree_getMatchStyle, styleOf_all]

/-! ### the definitions compute -/

def demoEngine : Engine := ⟨fun _ => some 0, fun _ _ => none, fun _ _ => false⟩
def mkLeaf (pat : Pat) (hid : Nat) : Leaf := { (default : Leaf) with pat := pat, hid := hid }
/-- a node with the subtrees `a` (static, with a leaf `x` below it) and `{n}` (placeholder, with a leaf `{m}`), and the
leaves `a` and `{p}` -/
def demoTree : baseTree :=
  { parent := default, segment := (),
    subtrees := [Node.mk [97] (.static [97]) [] [mkLeaf (.static [120]) 1],
                 Node.mk [] (.hole [110]) [] [mkLeaf (.hole [109]) 2]],
    leaves := [mkLeaf (.static [97]) 3, mkLeaf (.hole [112]) 4] }

/-- "a": no further segment — the leaves, in order: the static leaf before the placeholder leaf -/
example : ((matchNextSegment demoEngine (fun _ => true) demoTree [97] 0 [] default).1).1.hid = 3 := by decide
/-- header constraints of the first leaf fail: the second leaf is taken -/
example : ((matchNextSegment demoEngine (fun hid => hid != 3) demoTree [97] 0 [] default).1).1.hid = 4 := by decide

/-- for EVERY node, engine and header predicate: the translated `matchNextSegment` on "a/b" from the start is the
segment-level search on the segments `a`, `b` — an instance of `matchNextSegment_root` with nothing left to assume -/
example (E : Engine) (hok : Nat → Bool) (t : baseTree) (h : Lib.Header) :
    matchNextSegment E hok t [97, 47, 98] 0 [] h = (tri (matchNext E hok t.subtrees t.leaves [97] [[98]] []), t) :=
  matchNextSegment_root E hok t [97, 47, 98] h [97] [[98]] (by decide)

end Flamego.C02BaseTreeCode
