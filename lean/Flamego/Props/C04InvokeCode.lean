/-
  Props/C04InvokeCode.lean — C04 at the level of the CODE: `injector.callInvoke` (inject.go), the place where the
  parameters of a handler are resolved and the handler is called.

  `Gen/InjectCode.lean` is regenerated from inject/inject.go on every run.  `t.In(i)` (the i-th parameter type of the
  function type) and `reflect.ValueOf(f).Call(in)` (what the function returns for these arguments) are parameters of the
  generated definitions (`sigIn`, `callF`): nothing is assumed about them.  `inj.Value` is the translated `Value`
  (Props/C04Code: the nearest scope, exact before implementor).

  Proved, for every injector, function value, function type and number of parameters:

    * `loop_refines`, `callInvoke_closed`: the body resolves the parameter types IN ORDER, each by `Value` on the injector as
      the previous resolutions left it (`resolve`); at the first type without a value it stops, reports an error and the
      function is NOT called; otherwise the function is called exactly once, with exactly the resolved values in parameter
      order, and its results come back unchanged with a nil error;
    * `code_missing_not_called`, `code_all_resolved_called_once`: the two halves as C04 states them.
-/
import Flamego.Gen.InjectCode
set_option linter.unusedSimpArgs false
set_option linter.unusedVariables false
namespace Flamego.C04InvokeCode
open Flamego.GoSem Flamego.Gen.InjectCode

variable (U : Flamego.Inject.Universe) (sigIn : Lib.Ty → Int → Lib.Ty) (callF : Lib.RVal → List Lib.RVal → List Lib.RVal)

/-- resolve the parameters `is` (indices into the function type) in order; `none` at the first that has no value -/
def resolve (t : Lib.Ty) : injector → List Int → Option (List Lib.RVal) × injector
  | inj, [] => (some [], inj)
  | inj, i :: rest =>
    if !(Lib.RVal_IsValid (Value U inj (sigIn t i)).1) then (none, (Value U inj (sigIn t i)).2)
    else match resolve t (Value U inj (sigIn t i)).2 rest with
      | (none, j) => (none, j)
      | (some vs, j) => (some ((Value U inj (sigIn t i)).1 :: vs), j)

abbrev St := injector × Lib.Ty × Lib.RVal × List Lib.RVal

/-- the loop body, as the translation spells it -/
def body (t : Lib.Ty) : Int × Int → St → GoSem.Ctl (List Lib.RVal × Err) × St :=
  fun (i, _) (inj, argType, val, «in») =>
        let argType := (sigIn t i);
        let (t1, inj) := Value U inj argType;
        let val := t1;
        if (!(Lib.RVal_IsValid val)) then (
          (GoSem.Ctl.ret ([], (Lib.fmt_Errorf ("value not found for type %v"))), (inj, argType, val, «in»))
        ) else (
          let «in» := GoSem.setIdx «in» i val;
          (GoSem.Ctl.next, (inj, argType, val, «in»))
        )

/-- what the loop leaves behind, given what `resolve` says -/
def Post (done : List Lib.RVal) (r : Option (List Lib.RVal) × injector)
    (x : GoSem.Ctl (List Lib.RVal × Err) × St) : Prop :=
  match r with
  | (none, j) => ∃ a v l, x = (GoSem.Ctl.ret ([], 1), (j, a, v, l))
  | (some vs, j) => ∃ a v, x = (GoSem.Ctl.next, (j, a, v, done ++ vs))

theorem set_done (done : List Lib.RVal) (v : Lib.RVal) (m : Nat) :
    GoSem.setIdx (done ++ List.replicate (m + 1) (0 : Lib.RVal)) (done.length : Int) v
      = (done ++ [v]) ++ List.replicate m 0 := by
  have h1 : ¬ ((done.length : Int) < 0) := by omega
  simp only [GoSem.setIdx, h1, if_false, Int.toNat_natCast]
  rw [List.set_append_right _ _ (Nat.le_refl _)]
  simp [List.replicate_succ]

theorem loop_refines (t : Lib.Ty) (n : Nat) (fuel : Nat) :
    ∀ (k : Nat) (inj : injector) (a : Lib.Ty) (v : Lib.RVal) (done : List Lib.RVal),
      done.length = k → fuel = n - k → k ≤ n →
      Post done (resolve U sigIn t inj ((List.range' k (n - k)).map fun (i : Nat) => (i : Int)))
        (GoSem.forRangeCtl ((GoSem.rangeStepAux (n : Int) 1 fuel (k : Int)).map fun i_ => (i_, i_)) (body U sigIn t)
          (inj, a, v, done ++ List.replicate (n - k) 0)) := by
  induction fuel with
  | zero =>
    intro k inj a v done hd hf hk
    have : n - k = 0 := by omega
    simp only [this, List.range'_zero, List.map_nil, resolve, GoSem.rangeStepAux, GoSem.forRangeCtl, Post,
      List.replicate_zero, List.append_nil]
    exact ⟨a, v, rfl⟩
  | succ fuel ih =>
    intro k inj a v done hd hf hk
    have hlt : (k : Int) < (n : Int) := by omega
    have hnk : n - k = (n - (k + 1)) + 1 := by omega
    have hstep : GoSem.rangeStepAux (n : Int) 1 (fuel + 1) (k : Int) = (k : Int) :: GoSem.rangeStepAux (n : Int) 1 fuel ((k + 1 : Nat) : Int) := by
      simp only [GoSem.rangeStepAux, hlt, if_true]
      congr 2
    rw [hstep, hnk, List.range'_succ]
    simp only [List.map_cons, resolve, GoSem.forRangeCtl]
    cases hv : Lib.RVal_IsValid (Value U inj (sigIn t (k : Int))).1 with
    | false =>
      have hb : body U sigIn t ((k : Int), (k : Int)) (inj, a, v, done ++ List.replicate (n - (k + 1) + 1) 0)
          = (GoSem.Ctl.ret ([], 1), ((Value U inj (sigIn t (k : Int))).2, sigIn t (k : Int), (Value U inj (sigIn t (k : Int))).1,
              done ++ List.replicate (n - (k + 1) + 1) 0)) := by
        simp only [body, hv]; rfl
      simp only [hb, Bool.not_false, if_true, Post]
      exact ⟨_, _, _, rfl⟩
    | true =>
      have hb : body U sigIn t ((k : Int), (k : Int)) (inj, a, v, done ++ List.replicate (n - (k + 1) + 1) 0)
          = (GoSem.Ctl.next, ((Value U inj (sigIn t (k : Int))).2, sigIn t (k : Int), (Value U inj (sigIn t (k : Int))).1,
              (done ++ [(Value U inj (sigIn t (k : Int))).1]) ++ List.replicate (n - (k + 1)) 0)) := by
        simp only [body, hv]
        rw [← hd, set_done]
        rfl
      simp only [hb, Bool.not_true, Bool.false_eq_true, if_false]
      have := ih (k + 1) (Value U inj (sigIn t (k : Int))).2 (sigIn t (k : Int)) (Value U inj (sigIn t (k : Int))).1
        (done ++ [(Value U inj (sigIn t (k : Int))).1]) (by simp [hd]) (by omega) (by omega)
      cases hr : resolve U sigIn t (Value U inj (sigIn t (k : Int))).2 ((List.range' (k + 1) (n - (k + 1))).map fun (i : Nat) => (i : Int)) with
      | mk o j =>
        rw [hr] at this
        cases o with
        | none => exact this
        | some vs =>
          obtain ⟨a', v', e⟩ := this
          simp only [Post]
          exact ⟨a', v', by rw [e]; simp⟩

/-- the parameter indices of a function type with `n` parameters -/
def paramIdx (n : Nat) : List Int := (List.range' 0 n).map fun (i : Nat) => (i : Int)

/-- **`callInvoke` in closed form**: resolve the parameter types in order; a missing one → an error, the function is not
called; all found → the function is called once with them, its results come back with a nil error -/
theorem callInvoke_closed (inj : injector) (f : Any) (t : Lib.Ty) (n : Nat) :
    callInvoke U sigIn callF inj f t (n : Int) =
      (match resolve U sigIn t inj (paramIdx n) with
       | (none, j) => (([], 1), j)
       | (some vs, j) => ((callF (Lib.reflect_ValueOf f) vs, 0), j)) := by
  cases n with
  | zero =>
    simp [Gen.InjectCode.callInvoke, paramIdx, resolve]
  | succ m =>
    have hpos : decide ((((m + 1 : Nat) : Int)) > 0) = true := by simp
    have hshape : Gen.InjectCode.callInvoke U sigIn callF inj f t ((m + 1 : Nat) : Int) =
        (match GoSem.forRangeCtl ((GoSem.rangeStep 0 ((m + 1 : Nat) : Int) 1).map fun i_ => (i_, i_)) (body U sigIn t)
            (inj, 0, 0, List.replicate (((m + 1 : Nat) : Int)).toNat 0) with
         | (ctl_, (inj, argType, val, «in»)) =>
           match ctl_ with
           | GoSem.Ctl.ret r_ => (r_, inj)
           | _ => ((callF (Lib.reflect_ValueOf f) «in», 0), inj)) := by
      unfold Gen.InjectCode.callInvoke
      rw [if_pos hpos]
      rfl
    rw [hshape]
    have hrs : GoSem.rangeStep 0 ((m + 1 : Nat) : Int) 1 = GoSem.rangeStepAux ((m + 1 : Nat) : Int) 1 (m + 1) ((0 : Nat) : Int) := by
      simp [GoSem.rangeStep]
    have hrep : List.replicate (((m + 1 : Nat) : Int)).toNat (0 : Lib.RVal) = [] ++ List.replicate (m + 1 - 0) 0 := by simp
    rw [hrs, hrep]
    have hp := loop_refines U sigIn t (m + 1) (m + 1) 0 inj 0 0 [] rfl (by omega) (by omega)
    simp only [paramIdx]
    cases hr : resolve U sigIn t inj ((List.range' 0 (m + 1 - 0)).map fun (i : Nat) => (i : Int)) with
    | mk o j =>
      rw [hr] at hp
      cases o with
      | none =>
        obtain ⟨a, v, l, e⟩ := hp
        rw [e]
      | some vs =>
        obtain ⟨a, v, e⟩ := hp
        rw [e]
        simp

/-- "If any parameter cannot be resolved the invocation reports an error … and the handler body does not run": the results
are empty and the error non-nil — `callF`, the only way the function could run, does not occur in the answer -/
theorem code_missing_not_called (inj : injector) (f : Any) (t : Lib.Ty) (n : Nat)
    (h : (resolve U sigIn t inj (paramIdx n)).1 = none) :
    (callInvoke U sigIn callF inj f t (n : Int)).1 = ([], 1) := by
  rw [callInvoke_closed]
  cases hr : resolve U sigIn t inj (paramIdx n) with
  | mk o j => rw [hr] at h; cases h; rfl

/-- "otherwise it runs exactly once with those arguments and its results come back unchanged" -/
theorem code_all_resolved_called_once (inj : injector) (f : Any) (t : Lib.Ty) (n : Nat) (vs : List Lib.RVal)
    (h : (resolve U sigIn t inj (paramIdx n)).1 = some vs) :
    (callInvoke U sigIn callF inj f t (n : Int)).1 = (callF (Lib.reflect_ValueOf f) vs, 0) := by
  rw [callInvoke_closed]
  cases hr : resolve U sigIn t inj (paramIdx n) with
  | mk o j => rw [hr] at h; cases h; rfl

/-- what `resolve` hands over: one value per parameter, in parameter order, each the `Value` of that parameter's type, and
each valid -/
theorem resolve_spec (t : Lib.Ty) (inj : injector) (is : List Int) (vs : List Lib.RVal) (j : injector)
    (h : resolve U sigIn t inj is = (some vs, j)) :
    vs.length = is.length ∧ ∀ v ∈ vs, Lib.RVal_IsValid v = true := by
  induction is generalizing inj vs j with
  | nil => simp [resolve] at h; obtain ⟨rfl, _⟩ := h; simp
  | cons i rest ih =>
    simp only [resolve] at h
    split at h
    · cases h
    · rename_i hv
      cases hr : resolve U sigIn t (Value U inj (sigIn t i)).2 rest with
      | mk o j' =>
        rw [hr] at h
        cases o with
        | none => cases h
        | some ws =>
          obtain ⟨hl, hall⟩ := ih _ ws j' hr
          cases h
          refine ⟨by simp [hl], ?_⟩
          intro v hvm
          rcases List.mem_cons.mp hvm with rfl | hm
          · simpa using hv
          · exact hall v hm

end Flamego.C04InvokeCode
