/-
  Spec/Access.lean — what "the standard base-10 parsing rules" mean, said without the
  algorithm: a decimal numeral is an optional sign followed by one or more ASCII digits, its value
  is the usual positional value, and a value outside the 64-bit range is clamped to the limit
  (strconv's documented result for `ErrRange`).
-/
import Flamego.Model.Access
namespace Flamego.Access

/-- positional value of a digit string, continuing from `n` -/
def digitsFrom (n : Nat) (cs : Bytes) : Nat := cs.foldl (fun n c => n * 10 + (c - 48).toNat) n

/-- the integer a text denotes when it is `[+-]?[0-9]+`, `none` when it is malformed -/
def decimal (s : Bytes) : Option Int :=
  if (splitSign s).2 ≠ [] ∧ (splitSign s).2.all isDigit = true then
    some (if (splitSign s).1 then -((digitsFrom 0 (splitSign s).2 : Nat) : Int)
          else ((digitsFrom 0 (splitSign s).2 : Nat) : Int))
  else none

def maxInt64 : Int := 9223372036854775807
def minInt64 : Int := -9223372036854775808

/-- `strconv`'s value for an out-of-range numeral: the nearest limit -/
def clamp64 (v : Int) : Int := if v > maxInt64 then maxInt64 else if v < minInt64 then minInt64 else v

/-- the quirk of ParseUint's early return: the leading digit run alone already exceeds 2^64-1 -/
def digitRunOverflows (s : Bytes) : Prop :=
  digitsFrom 0 ((splitSign s).2.takeWhile isDigit) > 18446744073709551615

instance (s : Bytes) : Decidable (digitRunOverflows s) :=
  inferInstanceAs (Decidable (digitsFrom 0 ((splitSign s).2.takeWhile isDigit) > 18446744073709551615))

end Flamego.Access
