/-
  Spec/Register.lean — which registrations are accepted, said condition by condition
  (property C08), with no registration algorithm in sight.

  A route is `inner ++ [last]`: the segments before the final one become tree nodes, the final one
  a leaf.  `RouteOK` collects the clauses that concern the route alone, `WalkFree` the clauses
  that concern what the tree already holds along the route's path, `ValidNew` is both.

  The error monad, the rank insertion, the `ancBinds`/`ancAll` accumulators and the short-form
  flag of `addNext` do not occur here; `Props/C08.register_ok_iff` proves that `addRoute`
  succeeds exactly on `ValidNew`.
-/
import Flamego.Model.Tree
namespace Flamego

/-- the pattern a segment gets as a non-final segment (a tree node), if it has one -/
def treePat (E : Engine) (s : Segment) : Option Pat :=
  match classifyTree E s with | .ok p => some p | .error _ => none

/-- the pattern a segment gets as the final segment (a leaf), if it has one -/
def leafPat (E : Engine) (s : Segment) : Option Pat :=
  match classifyLeaf E s with | .ok p => some p | .error _ => none

def optBinds : Option Pat → List Bytes
  | some p => p.binds
  | none => []

def optIsAll : Option Pat → Bool
  | some p => p.isAll
  | none => false

/-- the bind names along the segments `inner` (as tree nodes) followed by `last` (as a leaf) -/
def bindsAlong (E : Engine) (inner : List Segment) (last : Segment) : List Bytes :=
  inner.flatMap (fun s => optBinds (treePat E s)) ++ optBinds (leafPat E last)

/-- the clauses of C08 that concern the route alone -/
structure RouteOK (E : Engine) (inner : List Segment) (last : Segment) : Prop where
  /-- "a non-final segment is optional" ⇒ rejected -/
  innerNotOptional : ∀ s ∈ inner, s.optional = false
  /-- "an inner segment is empty" ⇒ rejected -/
  innerNotEmpty : ∀ s ∈ inner, s.elems ≠ []
  /-- "an expression does not compile" ⇒ rejected; classification also refuses a parameter value
      that is no expression, a match-all that is not alone in its segment, and a bind name used
      twice within one segment -/
  innerClassify : ∀ s ∈ inner, (treePat E s).isSome = true
  lastClassify : (leafPat E last).isSome = true
  /-- "a bind name is reused along one route" ⇒ rejected -/
  bindsDistinct : (bindsAlong E inner last).Nodup
  /-- "two match-all segments precede the end of one route" ⇒ rejected -/
  oneMatchAll : (inner.filter (fun s => optIsAll (treePat E s))).length ≤ 1
  /-- the short form of an optional last segment ends in `prev`, now a leaf: it has a leaf
      pattern and its binds are distinct from those of the segments before it -/
  shortForm : last.optional = true → ∀ init prev, inner = init ++ [prev] →
    (leafPat E prev).isSome = true ∧ (bindsAlong E init prev).Nodup

/-- a new leaf for segment `s` is free in the leaf list `leaves` -/
def LeafFree (E : Engine) (leaves : List Leaf) (s : Segment) : Prop :=
  -- "the same route is already registered" (the optional mark is not part of the key)
  (∀ l ∈ leaves, l.key ≠ s.leafKey) ∧
  -- "two different match-alls share a position"
  (optIsAll (leafPat E s) = true → ∀ l ∈ leaves, l.pat.isAll = false)

/-- the clauses of C08 that concern the tree: walk down along the rendered texts of the inner
    segments; existing children are reused, and from the first missing child on the rest of the
    route is in fresh territory, where nothing can clash -/
def WalkFree (E : Engine) (last : Segment) : List Segment → List Node → List Leaf → Prop
  | [], _, leaves =>
    -- the node where the leaf goes
    LeafFree E leaves last
  | s :: inner, subs, leaves =>
    (match subs.find? (fun n => decide (n.key = s.render)) with
     | some c => WalkFree E last inner c.subs c.leaves
     | none =>
       -- "two different match-alls share a position": a new match-all node among siblings
       optIsAll (treePat E s) = true → ∀ n ∈ subs, n.pat.isAll = false)
    ∧
    -- "including the short form implied by an optional segment": `s` is the last inner segment
    -- and the route without its optional last segment ends here, as a leaf for `s`
    (inner = [] → last.optional = true → LeafFree E leaves s)

/-- **the registrations that are accepted** on top of the tree `t` -/
def ValidNew (E : Engine) (t : Node) (r : Route) : Prop :=
  ∃ inner last, r.segs = inner ++ [last] ∧
    RouteOK E inner last ∧
    WalkFree E last inner t.subs t.leaves ∧
    -- a single optional segment "/?x": its short form is the root path "/" (empty key)
    (inner = [] → last.optional = true → last.elems ≠ [] → ∀ l ∈ t.leaves, l.key ≠ [])

end Flamego
