/-
  Spec/RouteGrammar.lean — the route grammar said declaratively (no lexer, no parser in it):
  which ASTs are well formed (`WF`), and the strings of a well-formed AST (`renderWith`): its
  rendering with any number of blanks after each `:` and each `,` of a parameter list.

  The character classes are TRANSCRIBED from internal/route/parser.go as it is now
  (`Props/C06.lean` proves that the regenerated rule table has exactly these classes):

      Ident  `[a-zA-Z0-9\-._~@!$&'()*+;%=]+`
      Regex  `[a-zA-Z0-9*\-+._,?()\[\]{} \\\|]+`

  `docRules` is the whole lexer rule table of parser.go (states, rule order, names, classes,
  push/pop) written over these classes; the lexer model never uses it — it interprets the table the
  translator regenerates — but `Props/C06.lean` proves the two equal, and the driver uses it to
  point at concrete inputs when they no longer are.

  (Finding F12: internal/route/README.md's BNF has no `$` in <char>, and allows `~@!&';%=` inside
  expressions; the lexer is what decides, so the lexer's classes are the documented ones here.)
-/
import Flamego.Model.Syntax
import Flamego.Model.Lexer
namespace Flamego
namespace RouteGrammar
open Gen

/-- bytes of the `Ident` class, ascending:
    `! $ % & ' ( ) * + - . 0-9 ; = @ A-Z _ a-z ~` -/
def identBytes : List UInt8 :=
  [33, 36, 37, 38, 39, 40, 41, 42, 43, 45, 46,
   48, 49, 50, 51, 52, 53, 54, 55, 56, 57, 59, 61, 64,
   65, 66, 67, 68, 69, 70, 71, 72, 73, 74, 75, 76, 77, 78, 79, 80, 81, 82, 83, 84, 85, 86, 87, 88, 89, 90,
   95,
   97, 98, 99, 100, 101, 102, 103, 104, 105, 106, 107, 108, 109, 110, 111, 112, 113, 114, 115, 116, 117, 118,
   119, 120, 121, 122, 126]

/-- bytes of the `Regex` class, ascending:
    `␣ ( ) * + , - . 0-9 ? A-Z [ \ ] _ a-z { | }` -/
def regexBytes : List UInt8 :=
  [32, 40, 41, 42, 43, 44, 45, 46,
   48, 49, 50, 51, 52, 53, 54, 55, 56, 57, 63,
   65, 66, 67, 68, 69, 70, 71, 72, 73, 74, 75, 76, 77, 78, 79, 80, 81, 82, 83, 84, 85, 86, 87, 88, 89, 90,
   91, 92, 93, 95,
   97, 98, 99, 100, 101, 102, 103, 104, 105, 106, 107, 108, 109, 110, 111, 112, 113, 114, 115, 116, 117, 118,
   119, 120, 121, 122, 123, 124, 125]

/-- bytes of `\s` (Go regexp: `[\t\n\f\r ]`) -/
def spaceBytes : List UInt8 := [9, 10, 12, 13, 32]

/-! ### the documented rule table -/

def rIdent : LexRule := { name := "Ident", bytes := identBytes, plus := true, elide := false, action := .none }
def rSpace : LexRule := { name := "Whitespace", bytes := spaceBytes, plus := false, elide := false, action := .none }
def rSegment : LexRule := { name := "Segment", bytes := [47], plus := false, elide := false, action := .push "Segment" }
def rOptional : LexRule := { name := "Optional", bytes := [63], plus := false, elide := false, action := .none }
def rBind : LexRule := { name := "Bind", bytes := [123], plus := false, elide := false, action := .push "Bind" }
def rBindEnd : LexRule := { name := "BindEnd", bytes := [125], plus := false, elide := false, action := .pop }
def rBindParameter : LexRule :=
  { name := "BindParameter", bytes := [58], plus := false, elide := false, action := .push "BindParameter" }
def rRegexValue : LexRule :=
  { name := "BindParameterRegexValue", bytes := [47], plus := false, elide := false,
    action := .push "BindParameterRegexValue" }
def rBindParameterEnd : LexRule :=
  { name := "BindParameterEnd", bytes := [44, 125], plus := false, elide := false, action := .pop }
def rRegex : LexRule := { name := "Regex", bytes := regexBytes, plus := true, elide := false, action := .none }
def rRegexEnd : LexRule := { name := "RegexEnd", bytes := [47], plus := false, elide := false, action := .pop }

/-- `lexer.Rules{…}` of parser.go with `Include("Common")` expanded, over the documented classes: the states the
    lexer can be in (reachable from `Root` through `Push`).  `Common` exists in the source only to be included;
    nothing pushes it, so it is no state of the machine and the translator leaves it out. -/
def docRules : LexRules := [
  ("Root", [rSegment]),
  ("Segment", [rIdent, rSpace, rOptional, rBind, rSegment]),
  ("Bind", [rIdent, rSpace, rBindParameter, rBind, rBindEnd, rSegment]),
  ("BindParameter", [rIdent, rSpace, rRegexValue, rBindParameterEnd]),
  ("BindParameterRegexValue", [rRegex, rRegexEnd])]

/-- a non-empty string over the Ident class -/
def IdentText (s : Bytes) : Prop := s ≠ [] ∧ ∀ c ∈ s, c ∈ identBytes
/-- a non-empty string over the Regex class -/
def RegexText (s : Bytes) : Prop := s ≠ [] ∧ ∀ c ∈ s, c ∈ regexBytes

instance : DecidablePred IdentText := fun s => by unfold IdentText; infer_instance
instance : DecidablePred RegexText := fun s => by unfold RegexText; infer_instance

def WFVal : BindVal → Prop
  | .lit s => IdentText s
  | .re s => RegexText s

instance : DecidablePred WFVal := fun v => by cases v <;> simp only [WFVal] <;> infer_instance

def WFParam (p : BindParam) : Prop := IdentText p.ident ∧ WFVal p.val

instance : DecidablePred WFParam := fun p => by unfold WFParam; infer_instance

def WFElem : Elem → Prop
  | .ident s => IdentText s
  | .bind n => IdentText n
  | .params ps => ps ≠ [] ∧ ∀ p ∈ ps, WFParam p

instance : DecidablePred WFElem := fun e => by cases e <;> simp only [WFElem] <;> infer_instance

def isIdentElem : Elem → Bool
  | .ident _ => true
  | _ => false

/-- no two adjacent literal elements (the lexer would have read them as one identifier) -/
def noAdjIdent : List Elem → Bool
  | a :: b :: rest => !(isIdentElem a && isIdentElem b) && noAdjIdent (b :: rest)
  | _ => true

def WFSeg (s : Segment) : Prop := (∀ e ∈ s.elems, WFElem e) ∧ noAdjIdent s.elems = true

instance : DecidablePred WFSeg := fun s => by unfold WFSeg; infer_instance

/-- well-formed route AST: at least one segment; identifiers, bind names, parameter names and
    literal values non-empty over the Ident class; regex text non-empty over the Regex class;
    parameter lists non-empty; no two adjacent literal elements in a segment -/
def WF (r : Route) : Prop := r.segs ≠ [] ∧ ∀ s ∈ r.segs, WFSeg s

instance : DecidablePred WF := fun r => by unfold WF; infer_instance

/-! ### spacing choices and the strings of an AST -/

/-- for one parameter: (blanks after the `,` in front of it — unused for the first parameter of a
    list —, blanks after its `:`) -/
abbrev ParamSp := Nat × Nat
/-- one entry per element of a segment (used by parameter lists only): one `ParamSp` per parameter -/
abbrev ElemSp := List ParamSp
abbrev SegSp := List ElemSp
/-- spacing choices of a whole route: per segment, per element, per parameter.  A missing entry
    means the canonical choice, one blank; so `[]` is "one blank everywhere". -/
abbrev Spacing := List SegSp

def blanks (n : Nat) : Bytes := List.replicate n 32

/-- the choice for the parameter at the head of the list -/
def spHead (sp : ElemSp) : ParamSp := sp.headD (1, 1)

/-- a literal value as it stands, an expression between slashes (= `BindVal.render`) -/
def renderValW : BindVal → Bytes
  | .lit s => s
  | .re s => [47] ++ s ++ [47]

/-- `ident ':' ' '^k value` -/
def renderParamW (k : Nat) (p : BindParam) : Bytes := p.ident ++ [58] ++ blanks k ++ renderValW p.val

/-- `( ',' ' '^j param )*` -/
def renderMoreW : ElemSp → List BindParam → Bytes
  | _, [] => []
  | sp, p :: ps => [44] ++ blanks (spHead sp).1 ++ renderParamW (spHead sp).2 p ++ renderMoreW sp.tail ps

def renderParamsW (sp : ElemSp) : List BindParam → Bytes
  | [] => []
  | p :: ps => renderParamW (spHead sp).2 p ++ renderMoreW sp.tail ps

def renderElemW (sp : ElemSp) : Elem → Bytes
  | .ident s => s
  | .bind n => [123] ++ n ++ [125]
  | .params [] => [63, 63, 63]
  | .params (p :: ps) => [123] ++ renderParamsW sp (p :: ps) ++ [125]

def renderElemsW : SegSp → List Elem → Bytes
  | _, [] => []
  | sp, e :: es => renderElemW (sp.headD []) e ++ renderElemsW sp.tail es

def renderSegW (sp : SegSp) (s : Segment) : Bytes :=
  [47] ++ (if s.optional then [63] else []) ++ renderElemsW sp s.elems

def renderSegsW : Spacing → List Segment → Bytes
  | _, [] => []
  | sp, s :: ss => renderSegW (sp.headD []) s ++ renderSegsW sp.tail ss

/-- the route written with the spacing choices `sp` -/
def renderWith (sp : Spacing) (r : Route) : Bytes := renderSegsW sp r.segs

/-- the canonical choice: one blank after every `:` and `,` -/
def oneBlank : Spacing := []

end RouteGrammar
end Flamego
