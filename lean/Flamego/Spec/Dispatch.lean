/-
  Spec/Dispatch.lean — what "a route admits a path" and "the documented priority" mean,
  with no matcher algorithm in sight.

  * `Form`        : one way a registered route can be reached — its list of patterns, one per
                    route segment (the long form, and the short form without the optional segment).
  * `Consumes`    : a pattern list consumes a list of path segments (static / regex / placeholder
                    take exactly one segment they accept; a match-all that is not last takes
                    `k ≥ 1` segments within its capture limit and must leave at least one; a
                    match-all that ends the route takes everything that is left, at least one).
  * `Reach`       : the same notion read off a tree: a root-to-leaf walk that accepts the segments.
  * `derivs`      : every successful walk of a tree, enumerated in the documented priority order:
                    children in list order (the lists are kept sorted by rank, then by age — see
                    `TreeInv`), a match-all child trying 1, 2, 3 … segments in that order, and the
                    match-all leaf of the node last.
  * `TreeInv`     : the invariant registration maintains.
-/
import Flamego.Model.Tree
namespace Flamego

/-! ### acceptance of one segment by one pattern (params-free) -/

/-- a tree node's pattern accepts segment `s` (regex: exactly `binds + 1` submatches) -/
def Pat.acceptsTree (E : Engine) : Pat → Seg → Bool
  | .static lit, s => lit = s
  | .hole _, _ => true
  | .regex p bs, s => match E.find p s with
    | some subm => subm.length = bs.length + 1
    | none => false
  | .all _ _, _ => false

/-- a leaf's pattern accepts the single last segment `s` (regex: at least `binds + 1` submatches) -/
def Pat.acceptsLeaf (E : Engine) : Pat → Seg → Bool
  | .static lit, s => lit = s
  | .hole _, _ => true
  | .all _ _, _ => true
  | .regex p bs, s => match E.find p s with
    | some subm => bs.length + 1 ≤ subm.length
    | none => false

/-- the capture limit of a match-all allows `k` segments (non-positive = unlimited) -/
def capOK (cap : Int) (k : Nat) : Bool := cap ≤ 0 || (k : Int) ≤ cap

/-! ### tree-free: forms and consumption -/

/-- one reachable form of a registered route -/
structure Form where
  pats : List Pat        -- one per route segment of this form; the last one is the leaf's
  hid  : Nat
  long : Bool
  deriving Repr, DecidableEq

/-- `Consumes E pats segs`: the pattern list takes exactly the segments `segs` -/
inductive Consumes (E : Engine) : List Pat → List Seg → Prop
  /-- last pattern, not a match-all: exactly one segment is left and it is accepted -/
  | lastOne (p : Pat) (s : Seg) (hna : p.isAll = false) (h : p.acceptsLeaf E s = true) :
      Consumes E [p] [s]
  /-- last pattern is a match-all: it takes all `n ≥ 1` remaining segments within its limit -/
  | lastAll (b : Bytes) (cap : Int) (segs : List Seg) (hne : segs ≠ []) (hc : capOK cap segs.length = true) :
      Consumes E [.all b cap] segs
  /-- inner pattern, not a match-all: takes one accepted segment -/
  | innerOne (p : Pat) (ps : List Pat) (s : Seg) (rest : List Seg) (hps : ps ≠ [])
      (hna : p.isAll = false) (h : p.acceptsTree E s = true) (hr : Consumes E ps rest) :
      Consumes E (p :: ps) (s :: rest)
  /-- inner match-all: takes `taken` (at least one segment, within its limit), the rest goes on -/
  | innerAll (b : Bytes) (cap : Int) (ps : List Pat) (taken rest : List Seg) (hps : ps ≠ [])
      (hne : taken ≠ []) (hc : capOK cap taken.length = true) (hr : Consumes E ps rest) :
      Consumes E (.all b cap :: ps) (taken ++ rest)

/-- a form admits the segments of a request: its patterns consume them and its header constraints hold -/
def Form.Admits (E : Engine) (hok : Nat → Bool) (f : Form) (segs : List Seg) : Prop :=
  Consumes E f.pats segs ∧ hok f.hid = true

/-- the forms a successfully registered route contributes (in terms of the classifiers) -/
def formsOfRoute (E : Engine) (r : Route) (hid : Nat) : List Form :=
  match r.segs.reverse with
  | [] => []
  | last :: revInit =>
    let inner := revInit.reverse
    let pat? (f : Segment → Except RegErr Pat) (s : Segment) : Option Pat :=
      match f s with | .ok p => some p | .error _ => none
    match inner.mapM (pat? (classifyTree E)), pat? (classifyLeaf E) last with
    | some ips, some lp =>
      let long : Form := ⟨ips ++ [lp], hid, true⟩
      if last.optional then
        match revInit with
        | [] => if last.elems.isEmpty then [long]                  -- "/?": both forms are "/"
                else [long, ⟨[.static []], hid, false⟩]            -- "/?x": the short form is "/"
        | prev :: revInit2 =>
          match pat? (classifyLeaf E) prev with
          | some sp => [long, ⟨(revInit2.reverse.filterMap (pat? (classifyTree E))) ++ [sp], hid, false⟩]
          | none => [long]
      else [long]
    | _, _ => []

/-! ### tree-level: walks, their enumeration, the invariant -/

/-- the segments of a request, at least one: `s` and what follows it -/
abbrev Segs := Seg × List Seg

/-- `Reach E hok subs leaves s rest l`: a walk from a node with children `subs`/`leaves` that
    accepts the segments `s :: rest` and ends in leaf `l` -/
inductive Reach (E : Engine) (hok : Nat → Bool) : List Node → List Leaf → Seg → List Seg → Leaf → Prop
  /-- the last segment is taken by a leaf of this node -/
  | leaf (subs leaves s l) (hl : l ∈ leaves) (ha : l.pat.acceptsLeaf E s = true) (hh : hok l.hid = true) :
      Reach E hok subs leaves s [] l
  /-- a non-match-all child takes `s`, the walk goes on below it -/
  | sub (subs leaves s s' rest' l) (k : Bytes) (p : Pat) (cs : List Node) (cl : List Leaf)
      (hn : Node.mk k p cs cl ∈ subs) (hna : p.isAll = false) (ha : p.acceptsTree E s = true)
      (hr : Reach E hok cs cl s' rest' l) :
      Reach E hok subs leaves s (s' :: rest') l
  /-- a match-all child takes `s` and `skipped` more segments, the walk goes on below it -/
  | allSub (subs leaves s l) (k b : Bytes) (cap : Int) (cs : List Node) (cl : List Leaf)
      (skipped : List Seg) (s' : Seg) (rest' : List Seg)
      (hn : Node.mk k (.all b cap) cs cl ∈ subs) (hc : capOK cap (skipped.length + 1) = true)
      (hr : Reach E hok cs cl s' rest' l) :
      Reach E hok subs leaves s (skipped ++ s' :: rest') l
  /-- the match-all leaf of this node takes `s` and everything after it (at least one more) -/
  | allLeaf (subs leaves s s' rest' l) (b : Bytes) (cap : Int) (hl : l ∈ leaves) (hp : l.pat = .all b cap)
      (hc : capOK cap (rest'.length + 2) = true) (hh : hok l.hid = true) :
      Reach E hok subs leaves s (s' :: rest') l

/-- leaves of a list that accept the last segment, in list order -/
def leafDerivs (E : Engine) (hok : Nat → Bool) (leaves : List Leaf) (s : Seg) : List Leaf :=
  leaves.filter fun l => l.pat.acceptsLeaf E s && hok l.hid

/-- the match-all leaves of a list that may take `n` segments, in list order -/
def allLeafDerivs (hok : Nat → Bool) (leaves : List Leaf) (n : Nat) : List Leaf :=
  leaves.filter fun l => match l.pat with
    | .all _ cap => capOK cap n && hok l.hid
    | _ => false

mutual
/-- every leaf reachable by a walk accepting `s :: rest`, in priority order -/
def derivs (E : Engine) (hok : Nat → Bool) (subs : List Node) (leaves : List Leaf)
    (s : Seg) (rest : List Seg) : List Leaf :=
  match rest with
  | [] => leafDerivs E hok leaves s
  | s' :: rest' => derivsSubs E hok subs s s' rest' ++ allLeafDerivs hok leaves (rest'.length + 2)
termination_by (rest.length, subs.length, 1)

/-- walks that continue through one of the children `subs` (in list order) -/
def derivsSubs (E : Engine) (hok : Nat → Bool) (subs : List Node) (s s' : Seg) (rest' : List Seg) : List Leaf :=
  match subs with
  | [] => []
  | .mk _ p cs cl :: more =>
    (match p with
     | .all _ cap => derivsAll E hok cs cl cap 1 s' rest'
     | _ => if p.acceptsTree E s then derivs E hok cs cl s' rest' else [])
    ++ derivsSubs E hok more s s' rest'
termination_by (rest'.length + 1, subs.length, 0)

/-- walks through a match-all child that has taken `captured` segments so far: go on below it
    with `s' :: rest'`, or take `s'` as well -/
def derivsAll (E : Engine) (hok : Nat → Bool) (cs : List Node) (cl : List Leaf) (cap : Int)
    (captured : Nat) (s' : Seg) (rest' : List Seg) : List Leaf :=
  if capOK cap captured then
    derivs E hok cs cl s' rest' ++
      (match rest' with
       | [] => []
       | s'' :: rest'' => derivsAll E hok cs cl cap (captured + 1) s'' rest'')
  else []
termination_by (rest'.length + 1, 0, 0)
end

/-- the invariant of one sibling list: sorted by rank, at most one match-all (necessarily last),
    canonical keys pairwise different -/
structure ListInv {α} (pat : α → Pat) (key : α → Bytes) (l : List α) : Prop where
  sorted : l.Pairwise (fun a b => (pat a).rank ≤ (pat b).rank)
  oneAll : l.Pairwise (fun a _ => (pat a).isAll = false)
  keys   : l.Pairwise (fun a b => key a ≠ key b)

/-- the invariant of a whole (sub)tree -/
inductive TreeInv : List Node → List Leaf → Prop
  | mk (subs : List Node) (leaves : List Leaf)
      (hs : ListInv Node.pat Node.key subs) (hl : ListInv Leaf.pat Leaf.key leaves)
      (hc : ∀ k p cs cl, Node.mk k p cs cl ∈ subs → TreeInv cs cl) :
      TreeInv subs leaves

end Flamego

namespace Flamego

mutual
/-- every root-to-leaf pattern path below a node, as a form -/
def Node.forms : Node → List Form
  | .mk _ p subs leaves =>
    (leaves.map fun l => ⟨[p, l.pat], l.hid, l.long⟩) ++ (Node.formsList subs).map fun f => { f with pats := p :: f.pats }
def Node.formsList : List Node → List Form
  | [] => []
  | n :: ns => n.forms ++ Node.formsList ns
end

/-- the forms stored in a tree whose root has children `subs` / `leaves` (the root has no pattern) -/
def treeForms (subs : List Node) (leaves : List Leaf) : List Form :=
  (leaves.map fun l => ⟨[l.pat], l.hid, l.long⟩) ++ Node.formsList subs

end Flamego
