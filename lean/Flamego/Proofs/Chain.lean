/-
  Proofs/Chain.lean — lemmas about the handler-chain machine (Model/Chain).

  Part 1: vocabulary on traces (`starts`, the bracket checker `wbGo`) and the relation
          `Ext st st' evs` ("st' extends st by the events evs, which start exactly the slots
          st.idx … st'.idx-1 in order and are well bracketed"), proved for `run` at any fuel.
  Part 2: fuel: enough fuel is as good as more (`run_fuel_irrelevant`), and what a run that
          returns normally has achieved (`run_done`).
  Part 3: Recovery frames (C15).
-/
import Flamego.Model.Chain
namespace Flamego.Chain
open Flamego.Writer

/-! ### the two constants the model reads from recovery.go (Gen/ConstFacts)

  The lemmas of this file hold for whatever status and body length the source has, as long as
  the status is not 0 (`recoveryStatus_ne`); the documented values (500, the 21 bytes of
  "Internal Server Error") are stated where the property names them, in Props/C15
  (`recoveryStatus_eq`, `recoveryPlainLen_eq`) and Props/ConstFacts/C15. -/

theorem recoveryStatus_ne : recoveryStatus ≠ 0 := by decide

/-! ### Part 1a: traces -/

/-- the slot an event starts, if it is a start event (`run()` consumed that slot) -/
def Ev.start : Ev → Option Nat
  | .enter i => some i
  | .inject i => some i
  | .nilact i => some i
  | _ => none

/-- slots started, in order of starting -/
def starts (evs : List Ev) : List Nat := evs.filterMap Ev.start

/-- Bracket checker: `enter i` pushes i; `exit i` / `abort i _` must find i on top and pop it;
    other events are ignored.  Returns the stack left over, `none` on a mismatch. -/
def wbGo : List Nat → List Ev → Option (List Nat)
  | s, [] => some s
  | s, .enter i :: r => wbGo (i :: s) r
  | [], .exit _ :: _ => none
  | t :: s, .exit i :: r => if t = i then wbGo s r else none
  | [], .abort _ _ :: _ => none
  | t :: s, .abort i _ :: r => if t = i then wbGo s r else none
  | s, .inject _ :: r => wbGo s r
  | s, .nilact _ :: r => wbGo s r
  | s, .recovered _ _ _ :: r => wbGo s r
  | s, .escaped _ _ :: r => wbGo s r

/-- every frame opened in `evs` is closed in `evs`, innermost first, and nothing else is closed -/
def Balanced (evs : List Ev) : Prop := ∀ s, wbGo s evs = some s

theorem starts_append (a b : List Ev) : starts (a ++ b) = starts a ++ starts b := by
  simp [starts, List.filterMap_append]

theorem wbGo_append (a b : List Ev) : ∀ s, wbGo s (a ++ b) = (wbGo s a).bind (fun s' => wbGo s' b) := by
  induction a with
  | nil => intro s; simp [wbGo]
  | cons e r ih =>
    intro s
    cases e with
    | enter i => simp [wbGo, ih]
    | exit i =>
      cases s with
      | nil => simp [wbGo]
      | cons t s => by_cases h : t = i <;> simp [wbGo, h, ih]
    | abort i j =>
      cases s with
      | nil => simp [wbGo]
      | cons t s => by_cases h : t = i <;> simp [wbGo, h, ih]
    | inject i => simp [wbGo, ih]
    | nilact i => simp [wbGo, ih]
    | recovered r j k => simp [wbGo, ih]
    | escaped v j => simp [wbGo, ih]

theorem balanced_nil : Balanced [] := fun _ => rfl

theorem balanced_append {a b : List Ev} (ha : Balanced a) (hb : Balanced b) : Balanced (a ++ b) := by
  intro s; rw [wbGo_append, ha s]; exact hb s

theorem balanced_wrap_exit {evs : List Ev} (i : Nat) (h : Balanced evs) :
    Balanced (Ev.enter i :: evs ++ [Ev.exit i]) := by
  intro s
  show wbGo (i :: s) (evs ++ [Ev.exit i]) = some s
  rw [wbGo_append, h (i :: s)]; simp [wbGo]

theorem balanced_wrap_abort {evs : List Ev} (i j : Nat) (h : Balanced evs) :
    Balanced (Ev.enter i :: evs ++ [Ev.abort i j]) := by
  intro s
  show wbGo (i :: s) (evs ++ [Ev.abort i j]) = some s
  rw [wbGo_append, h (i :: s)]; simp [wbGo]

theorem balanced_inject (i : Nat) : Balanced [Ev.inject i] := fun _ => rfl
theorem balanced_nilact (i : Nat) : Balanced [Ev.nilact i] := fun _ => rfl
theorem balanced_recovered (r j s : Nat) : Balanced [Ev.recovered r j s] := fun _ => rfl

/-! ### Part 1b: the extension relation -/

/-- `st'` extends `st` by the events `evs`: the cursor only moves forward, the new events start
    exactly the slots `st.idx, …, st'.idx - 1` in this order, and they are well bracketed. -/
structure Ext (st st' : St) (evs : List Ev) : Prop where
  tr : st'.trace = st.trace ++ evs
  idx : st.idx ≤ st'.idx
  st : starts evs = List.range' st.idx (st'.idx - st.idx)
  bal : Balanced evs

theorem Ext.refl (st : St) : Ext st st [] :=
  ⟨by simp, Nat.le_refl _, by simp [starts], balanced_nil⟩

/-- a state change that touches neither the trace nor the cursor -/
theorem Ext.quiet {st st' : St} (ht : st'.trace = st.trace) (hi : st'.idx = st.idx) : Ext st st' [] :=
  ⟨by simp [ht], by omega, by simp [starts, hi], balanced_nil⟩

theorem Ext.trans {a b d : St} {e1 e2 : List Ev} (h1 : Ext a b e1) (h2 : Ext b d e2) :
    Ext a d (e1 ++ e2) := by
  refine ⟨by rw [h2.tr, h1.tr, List.append_assoc], Nat.le_trans h1.idx h2.idx, ?_,
    balanced_append h1.bal h2.bal⟩
  rw [starts_append, h1.st, h2.st]
  obtain ⟨k1, hk1⟩ := Nat.exists_eq_add_of_le h1.idx
  obtain ⟨k2, hk2⟩ := Nat.exists_eq_add_of_le h2.idx
  rw [hk2, hk1]
  have e1 : a.idx + k1 - a.idx = k1 := by omega
  have e2 : a.idx + k1 + k2 - (a.idx + k1) = k2 := by omega
  have e3 : a.idx + k1 + k2 - a.idx = k1 + k2 := by omega
  rw [e1, e2, e3, List.range'_append_1]

/-- a "Next function" all of whose calls extend the state properly -/
def GoodF (runF : St → Res) : Prop := ∀ st, ∃ evs, Ext st (runF st).1 evs

theorem doHeader_quiet (c : Cfg) (i code : Nat) (st : St) :
    (doHeader c i code st).1.trace = st.trace ∧ (doHeader c i code st).1.idx = st.idx := by
  unfold doHeader; split <;> simp [spendOnce]

theorem doBody_quiet (c : Cfg) (i n : Nat) (st : St) :
    (doBody c i n st).1.trace = st.trace ∧ (doBody c i n st).1.idx = st.idx := by
  unfold doBody; split <;> simp [spendOnce]

theorem recoverWrite_quiet (c : Cfg) (r : Nat) (st : St) :
    (recoverWrite c r st).1.trace = st.trace ∧ (recoverWrite c r st).1.idx = st.idx := by
  unfold recoverWrite; split <;> simp [spendOnce]

theorem act1_ext (c : Cfg) {runF : St → Res} (hF : GoodF runF) (i : Nat) (a : Act) (st : St) :
    ∃ evs, Ext st (act1 c runF i a st).1 evs := by
  cases a with
  | write code => exact ⟨[], Ext.quiet (doHeader_quiet c i code st).1 (doHeader_quiet c i code st).2⟩
  | body n => exact ⟨[], Ext.quiet (doBody_quiet c i n st).1 (doBody_quiet c i n st).2⟩
  | next => exact hF st
  | cancel => exact ⟨[], Ext.quiet rfl rfl⟩
  | map => exact ⟨[], Ext.refl st⟩
  | panic v => exact ⟨[], Ext.refl st⟩
  | hookPanic => exact ⟨[], Ext.quiet rfl rfl⟩

theorem execActs_ext (c : Cfg) {runF : St → Res} (hF : GoodF runF) (i : Nat) :
    ∀ (acts : List Act) (st : St), ∃ evs, Ext st (execActs c runF i acts st).1 evs := by
  intro acts
  induction acts with
  | nil => intro st; exact ⟨[], Ext.refl st⟩
  | cons a rest ih =>
    intro st
    obtain ⟨e1, h1⟩ := act1_ext c hF i a st
    unfold execActs
    rcases hr : act1 c runF i a st with ⟨st', _ | p⟩
    · rw [hr] at h1
      obtain ⟨e2, h2⟩ := ih st'
      exact ⟨e1 ++ e2, h1.trans h2⟩
    · rw [hr] at h1; exact ⟨e1, h1⟩

theorem render_quiet (c : Cfg) (i : Nat) (r : Ret) (st : St) :
    (render c i r st).1.trace = st.trace ∧ (render c i r st).1.idx = st.idx := by
  cases r with
  | none => simp [render]
  | nothing => simp [render]
  | body len =>
    by_cases hl : len = 0
    · simp [render, hl]
    · simpa [render, hl] using doBody_quiet c i len st
  | writes code len =>
    have h1 := doHeader_quiet c i code st
    rcases hr : doHeader c i code st with ⟨st', _ | p⟩
    · rw [hr] at h1
      by_cases hl : len = 0
      · simpa [render, hr, hl] using h1
      · have h2 := doBody_quiet c i len st'
        simp only [render, hr, hl, if_false]
        exact ⟨h2.1.trans h1.1, h2.2.trans h1.2⟩
    · rw [hr] at h1; simpa [render, hr] using h1

/-! ### Part 1c: one handler invocation, then `run` -/

/-- what one `invoke` of slot `i` adds (the cursor already points past `i`) -/
structure InvokeExt (i : Nat) (st st' : St) (evs : List Ev) : Prop where
  tr : st'.trace = st.trace ++ evs
  idx : st.idx ≤ st'.idx
  st : starts evs = i :: List.range' st.idx (st'.idx - st.idx)
  bal : Balanced evs

theorem wrap_ext {st st1 st' : St} {e1 mid : List Ev} {i : Nat} (close : Ev)
    (hc : close = Ev.exit i ∨ ∃ j, close = Ev.abort i j)
    (h1 : Ext (st.ev (.enter i)) st1 e1) (hmid : Balanced mid) (hms : starts mid = [])
    (ht : st'.trace = st1.trace ++ mid ++ [close]) (hi : st'.idx = st1.idx) :
    InvokeExt i st st' (Ev.enter i :: (e1 ++ mid) ++ [close]) := by
  have hidx : st.idx ≤ st1.idx := h1.idx
  have hst := h1.st
  have hcs : starts [close] = [] := by
    rcases hc with rfl | ⟨j, rfl⟩ <;> rfl
  refine ⟨?_, by omega, ?_, ?_⟩
  · rw [ht, h1.tr]; simp [St.ev]
  · have : starts (Ev.enter i :: (e1 ++ mid) ++ [close]) = i :: (starts e1 ++ starts mid ++ starts [close]) := by
      simp [starts, List.filterMap_append, Ev.start]
    rw [this, hms, hcs, hst, hi]; simp [St.ev]
  · have hb : Balanced (e1 ++ mid) := balanced_append h1.bal hmid
    rcases hc with rfl | ⟨j, rfl⟩
    · exact balanced_wrap_exit i hb
    · exact balanced_wrap_abort i j hb

/-! equation lemmas for `invoke`, one per way a handler can end -/

theorem invoke_plain_ok {c : Cfg} {runF : St → Res} {i : Nat} {p : Prog} {st st1 : St}
    (h : execActs c runF i p.acts (st.ev (.enter i)) = (st1, none)) :
    invoke c runF i (.plain p) st = render c i p.ret (st1.ev (.exit i)) := by
  simp [invoke, h]

theorem invoke_plain_panic {c : Cfg} {runF : St → Res} {i : Nat} {p : Prog} {st st1 : St} {v : PVal} {j : Nat}
    (h : execActs c runF i p.acts (st.ev (.enter i)) = (st1, some (v, j))) :
    invoke c runF i (.plain p) st = (st1.ev (.abort i j), some (v, j)) := by
  simp [invoke, h]

theorem invoke_rec_ok {c : Cfg} {runF : St → Res} {i : Nat} {st st1 : St}
    (h : runF (st.ev (.enter i)) = (st1, none)) :
    invoke c runF i .recovery st = (st1.ev (.exit i), none) := by
  simp [invoke, h]

theorem invoke_rec_caught {c : Cfg} {runF : St → Res} {i : Nat} {st st1 st2 : St} {v : PVal} {j : Nat}
    (h : runF (st.ev (.enter i)) = (st1, some (v, j)))
    (hw : recoverWrite c i (st1.ev (.recovered i j st1.w.status)) = (st2, none)) :
    invoke c runF i .recovery st = (st2.ev (.exit i), none) := by
  simp [invoke, h, hw]

theorem invoke_rec_repanic {c : Cfg} {runF : St → Res} {i : Nat} {st st1 st2 : St} {v v' : PVal} {j j' : Nat}
    (h : runF (st.ev (.enter i)) = (st1, some (v, j)))
    (hw : recoverWrite c i (st1.ev (.recovered i j st1.w.status)) = (st2, some (v', j'))) :
    invoke c runF i .recovery st = (st2.ev (.abort i j'), some (v', j')) := by
  simp [invoke, h, hw]

theorem invoke_ext (c : Cfg) {runF : St → Res} (hF : GoodF runF) (i : Nat) (k : Kind) (st : St) :
    ∃ evs, InvokeExt i st (invoke c runF i k st).1 evs := by
  cases k with
  | unresolvable =>
    refine ⟨[Ev.inject i], ?_, ?_, ?_, balanced_inject i⟩ <;> simp [invoke, St.ev, starts, Ev.start]
  | plain p =>
    obtain ⟨e1, h1⟩ := execActs_ext c hF i p.acts (st.ev (.enter i))
    rcases hr : execActs c runF i p.acts (st.ev (.enter i)) with ⟨st1, _ | ⟨v, j⟩⟩
    · rw [hr] at h1
      rw [invoke_plain_ok hr]
      have hq := render_quiet c i p.ret (st1.ev (.exit i))
      exact ⟨_, wrap_ext (mid := []) (Ev.exit i) (Or.inl rfl) h1 balanced_nil rfl
        (by rw [hq.1]; simp [St.ev]) (by rw [hq.2]; simp [St.ev])⟩
    · rw [hr] at h1
      rw [invoke_plain_panic hr]
      exact ⟨_, wrap_ext (mid := []) (Ev.abort i j) (Or.inr ⟨j, rfl⟩) h1 balanced_nil rfl
        (by simp [St.ev]) (by simp [St.ev])⟩
  | recovery =>
    obtain ⟨e1, h1⟩ := hF (st.ev (.enter i))
    rcases hr : runF (st.ev (.enter i)) with ⟨st1, _ | ⟨v, j⟩⟩
    · rw [hr] at h1
      rw [invoke_rec_ok hr]
      exact ⟨_, wrap_ext (mid := []) (Ev.exit i) (Or.inl rfl) h1 balanced_nil rfl
        (by simp [St.ev]) (by simp [St.ev])⟩
    · rw [hr] at h1
      have hq := recoverWrite_quiet c i (st1.ev (.recovered i j st1.w.status))
      rcases hw : recoverWrite c i (st1.ev (.recovered i j st1.w.status)) with ⟨st2, _ | ⟨v', j'⟩⟩
      · rw [hw] at hq; dsimp only at hq
        rw [invoke_rec_caught hr hw]
        exact ⟨_, wrap_ext (mid := [Ev.recovered i j st1.w.status]) (Ev.exit i) (Or.inl rfl) h1
          (balanced_recovered _ _ _) rfl (by simp [St.ev, hq.1]) (by simp [St.ev, hq.2])⟩
      · rw [hw] at hq; dsimp only at hq
        rw [invoke_rec_repanic hr hw]
        exact ⟨_, wrap_ext (mid := [Ev.recovered i j st1.w.status]) (Ev.abort i j') (Or.inr ⟨j', rfl⟩) h1
          (balanced_recovered _ _ _) rfl (by simp [St.ev, hq.1]) (by simp [St.ev, hq.2])⟩

/-! equation lemmas for `run`, one per way a loop iteration can go -/

/-- `index := c.index; c.index++` -/
def St.adv (st : St) : St := { st with idx := st.idx + 1 }

@[simp] theorem St.adv_idx (st : St) : st.adv.idx = st.idx + 1 := rfl
@[simp] theorem St.adv_trace (st : St) : st.adv.trace = st.trace := rfl
@[simp] theorem St.ev_idx (st : St) (e : Ev) : (st.ev e).idx = st.idx := rfl
@[simp] theorem St.ev_trace (st : St) (e : Ev) : (st.ev e).trace = st.trace ++ [e] := rfl
@[simp] theorem St.ev_w (st : St) (e : Ev) : (st.ev e).w = st.w := rfl
@[simp] theorem St.adv_w (st : St) : st.adv.w = st.w := rfl
@[simp] theorem St.ev_cancelled (st : St) (e : Ev) : (st.ev e).cancelled = st.cancelled := rfl
@[simp] theorem St.adv_cancelled (st : St) : st.adv.cancelled = st.cancelled := rfl

theorem run_zero (c : Cfg) (st : St) : run c 0 st = (st, none) := rfl

theorem run_exhausted {c : Cfg} {st : St} (f : Nat) (h : c.n < st.idx) : run c f st = (st, none) := by
  cases f <;> simp [run, h]

theorem run_cancelled {c : Cfg} {st : St} (f : Nat) (h : st.cancelled = true) : run c f st = (st, none) := by
  cases f <;> simp [run, h]

theorem run_nil {c : Cfg} {st : St} (f : Nat) (h1 : ¬ c.n < st.idx) (h2 : st.cancelled = false)
    (hs : c.slot st.idx = none) : run c (f + 1) st = (st.adv.ev (.nilact st.idx), none) := by
  simp [run, h1, h2, hs, St.adv]

theorem run_panic {c : Cfg} {st st1 : St} {k : Kind} {p : PVal × Nat} (f : Nat) (h1 : ¬ c.n < st.idx)
    (h2 : st.cancelled = false) (hs : c.slot st.idx = some k)
    (hr : invoke c (run c f) st.idx k st.adv = (st1, some p)) : run c (f + 1) st = (st1, some p) := by
  unfold St.adv at hr
  simp only [h2] at hr
  simp [run, h1, h2, hs, hr]

theorem run_stop {c : Cfg} {st st1 : St} {k : Kind} (f : Nat) (h1 : ¬ c.n < st.idx)
    (h2 : st.cancelled = false) (hs : c.slot st.idx = some k)
    (hr : invoke c (run c f) st.idx k st.adv = (st1, none)) (hw : st1.w.written = true) :
    run c (f + 1) st = (st1, none) := by
  unfold St.adv at hr
  simp only [h2] at hr
  simp [run, h1, h2, hs, hr, hw]

theorem run_loop {c : Cfg} {st st1 : St} {k : Kind} (f : Nat) (h1 : ¬ c.n < st.idx)
    (h2 : st.cancelled = false) (hs : c.slot st.idx = some k)
    (hr : invoke c (run c f) st.idx k st.adv = (st1, none)) (hw : st1.w.written = false) :
    run c (f + 1) st = run c f st1 := by
  unfold St.adv at hr
  simp only [h2] at hr
  simp [run, h1, h2, hs, hr, hw]

/-- every call of `run` (= every `Next()`), at any fuel, extends the state properly -/
theorem run_ext (c : Cfg) : ∀ f, GoodF (run c f) := by
  intro f
  induction f with
  | zero => intro st; exact ⟨[], Ext.refl st⟩
  | succ f ih =>
    intro st
    by_cases h1 : c.n < st.idx
    · rw [run_exhausted _ h1]; exact ⟨[], Ext.refl st⟩
    cases h2 : st.cancelled with
    | true => rw [run_cancelled _ h2]; exact ⟨[], Ext.refl st⟩
    | false =>
    cases hs : c.slot st.idx with
    | none =>
      rw [run_nil f h1 h2 hs]
      refine ⟨[Ev.nilact st.idx], ?_, ?_, ?_, balanced_nilact _⟩ <;> simp [starts, Ev.start]
    | some k =>
      obtain ⟨e1, h⟩ := invoke_ext c ih st.idx k st.adv
      have key : ∀ st1, InvokeExt st.idx st.adv st1 e1 → Ext st st1 e1 := by
        intro st1 h
        have hi : st.idx + 1 ≤ st1.idx := h.idx
        refine ⟨h.tr, by omega, ?_, h.bal⟩
        rw [h.st]
        have : st1.idx - st.idx = (st1.idx - (st.idx + 1)) + 1 := by omega
        rw [this, List.range'_succ]; rfl
      rcases hr : invoke c (run c f) st.idx k st.adv with ⟨st1, _ | p⟩
      · rw [hr] at h
        cases hw : st1.w.written with
        | true => rw [run_stop f h1 h2 hs hr hw]; exact ⟨e1, key st1 h⟩
        | false =>
          rw [run_loop f h1 h2 hs hr hw]
          obtain ⟨e2, h2⟩ := ih st1
          exact ⟨e1 ++ e2, (key st1 h).trans h2⟩
      · rw [hr] at h; rw [run_panic f h1 h2 hs hr]; exact ⟨e1, key st1 h⟩

/-! ### Part 2: fuel -/

theorem run_idx_le (c : Cfg) (f : Nat) (st : St) : st.idx ≤ (run c f st).1.idx := by
  obtain ⟨_, h⟩ := run_ext c f st; exact h.idx

/-- the slot is empty only at the action position -/
theorem slot_none {c : Cfg} {i : Nat} (hi : ¬ c.n < i) (h : c.slot i = none) : i = c.n := by
  unfold Cfg.slot at h
  by_cases hn : i = c.n
  · exact hn
  · simp only [hn, if_false] at h
    have : i < c.chain.length := by unfold Cfg.n at hi hn; omega
    simp [List.getElem?_eq_getElem this] at h

theorem act1_congr (c : Cfg) {runF runG : St → Res} (i : Nat) (a : Act) (st : St)
    (h : runF st = runG st) : act1 c runF i a st = act1 c runG i a st := by
  cases a <;> simp [act1, h]

theorem execActs_congr (c : Cfg) {runF runG : St → Res} (hF : GoodF runF) (i : Nat) :
    ∀ (acts : List Act) (st : St), (∀ st', st.idx ≤ st'.idx → runF st' = runG st') →
      execActs c runF i acts st = execActs c runG i acts st := by
  intro acts
  induction acts with
  | nil => intro st _; rfl
  | cons a rest ih =>
    intro st h
    have e := act1_congr c i a st (h st (Nat.le_refl _))
    obtain ⟨_, hx⟩ := act1_ext c hF i a st
    unfold execActs
    rw [← e]
    rcases hr : act1 c runF i a st with ⟨st', _ | p⟩
    · rw [hr] at hx
      exact ih st' (fun s hs => h s (Nat.le_trans hx.idx hs))
    · rfl

theorem invoke_congr (c : Cfg) {runF runG : St → Res} (hF : GoodF runF) (i : Nat) (k : Kind) (st : St)
    (h : ∀ st', st.idx ≤ st'.idx → runF st' = runG st') :
    invoke c runF i k st = invoke c runG i k st := by
  cases k with
  | unresolvable => rfl
  | plain p =>
    simp only [invoke]
    rw [execActs_congr c hF i p.acts (st.ev (.enter i)) h]
  | recovery =>
    simp only [invoke]
    rw [h (st.ev (.enter i)) (Nat.le_refl _)]

/-- One more unit of fuel changes nothing once the fuel covers the slots that are left. -/
theorem run_fuel_succ (c : Cfg) : ∀ (f : Nat) (st : St), c.n + 1 - st.idx ≤ f → run c (f + 1) st = run c f st := by
  intro f
  induction f with
  | zero =>
    intro st h
    have : c.n < st.idx := by omega
    rw [run_exhausted _ this, run_exhausted _ this]
  | succ f ih =>
    intro st h
    by_cases h1 : c.n < st.idx
    · rw [run_exhausted _ h1, run_exhausted _ h1]
    cases h2 : st.cancelled with
    | true => rw [run_cancelled _ h2, run_cancelled _ h2]
    | false =>
    cases hs : c.slot st.idx with
    | none => rw [run_nil _ h1 h2 hs, run_nil _ h1 h2 hs]
    | some k =>
      have agree : ∀ st', st.adv.idx ≤ st'.idx → run c (f + 1) st' = run c f st' := by
        intro st' hle
        apply ih
        simp at hle; omega
      have e := invoke_congr c (run_ext c (f + 1)) st.idx k st.adv agree
      obtain ⟨_, hx⟩ := invoke_ext c (run_ext c f) st.idx k st.adv
      rcases hr : invoke c (run c f) st.idx k st.adv with ⟨st1, _ | p⟩
      · rw [hr] at hx
        have hi : st.idx + 1 ≤ st1.idx := hx.idx
        cases hw : st1.w.written with
        | true => rw [run_stop _ h1 h2 hs (e.trans hr) hw, run_stop _ h1 h2 hs hr hw]
        | false =>
          rw [run_loop _ h1 h2 hs (e.trans hr) hw, run_loop _ h1 h2 hs hr hw]
          apply ih; omega
      · rw [run_panic _ h1 h2 hs (e.trans hr), run_panic _ h1 h2 hs hr]

/-- Enough fuel is as good as any larger amount: `run` never runs dry when started with
    at least `len(handlers) + 1 - index` (serve starts it with `len(handlers) + 2` at index 0). -/
theorem run_fuel_irrelevant (c : Cfg) (f g : Nat) (st : St) (hf : c.n + 1 - st.idx ≤ f) (hg : f ≤ g) :
    run c g st = run c f st := by
  induction g with
  | zero => have : f = 0 := by omega
            rw [this]
  | succ g ih =>
    by_cases h : f = g + 1
    · rw [h]
    · rw [run_fuel_succ c g st (by omega)]; exact ih (by omega)

/-- what a run that returns normally has achieved: the response is written, or the request is
    cancelled, or the chain is exhausted -/
def Done (c : Cfg) (st : St) : Prop := st.w.written = true ∨ st.cancelled = true ∨ c.n < st.idx

theorem run_done (c : Cfg) : ∀ (f : Nat) (st st' : St), c.n + 1 - st.idx ≤ f →
    run c f st = (st', none) → Done c st' := by
  intro f
  induction f with
  | zero =>
    intro st st' h hr
    have : c.n < st.idx := by omega
    rw [run_zero] at hr
    cases hr; exact Or.inr (Or.inr this)
  | succ f ih =>
    intro st st' h hr
    by_cases h1 : c.n < st.idx
    · rw [run_exhausted _ h1] at hr; cases hr; exact Or.inr (Or.inr h1)
    cases h2 : st.cancelled with
    | true => rw [run_cancelled _ h2] at hr; cases hr; exact Or.inr (Or.inl h2)
    | false =>
    cases hs : c.slot st.idx with
    | none =>
      rw [run_nil _ h1 h2 hs] at hr; cases hr
      have := slot_none h1 hs
      exact Or.inr (Or.inr (by simp; omega))
    | some k =>
      obtain ⟨_, hx⟩ := invoke_ext c (run_ext c f) st.idx k st.adv
      rcases hi : invoke c (run c f) st.idx k st.adv with ⟨st1, _ | p⟩
      · rw [hi] at hx
        have hle : st.idx + 1 ≤ st1.idx := hx.idx
        cases hw : st1.w.written with
        | true => rw [run_stop _ h1 h2 hs hi hw] at hr; cases hr; exact Or.inl hw
        | false =>
          rw [run_loop _ h1 h2 hs hi hw] at hr
          exact ih st1 st' (by omega) hr
      · rw [run_panic _ h1 h2 hs hi] at hr; cases hr

/-! ### Part 2b: a generic invariant pass

  Any reflexive–transitive relation between states that every primitive state change respects is
  respected by `run` at any fuel.  `P` is a predicate all status codes of the configuration satisfy. -/

def Act.codeOK (P : Nat → Prop) : Act → Prop
  | .write code => P code
  | _ => True

def Prog.codesOK (P : Nat → Prop) (p : Prog) : Prop :=
  (∀ a ∈ p.acts, a.codeOK P) ∧ (match p.ret with | .writes code _ => P code | _ => True)

def Kind.codesOK (P : Nat → Prop) : Kind → Prop
  | .plain p => p.codesOK P
  | _ => True

/-- every status code any handler of `c` may send satisfies `P` -/
def Cfg.codesOK (c : Cfg) (P : Nat → Prop) : Prop := ∀ i k, c.slot i = some k → k.codesOK P

theorem Cfg.codesOK_true (c : Cfg) : c.codesOK (fun _ => True) := by
  intro i k _
  cases k with
  | plain p =>
    refine ⟨fun a _ => ?_, ?_⟩
    · cases a <;> trivial
    · cases p.ret <;> trivial
  | recovery => trivial
  | unresolvable => trivial

/-- the events `run`/`invoke` emit directly (all but `recovered`, which comes with Recovery's write,
    and `escaped`, which only `serve` emits) -/
def Ev.plainEv : Ev → Prop
  | .enter _ | .exit _ | .abort _ _ | .inject _ | .nilact _ => True
  | _ => False

structure RelOK (c : Cfg) (P : Nat → Prop) (R : St → St → Prop) : Prop where
  refl : ∀ s, R s s
  trans : ∀ {a b d}, R a b → R b d → R a d
  ev : ∀ s e, e.plainEv → R s (s.ev e)
  adv : ∀ s, ¬ c.n < s.idx → R s s.adv
  hdr : ∀ i code s, P code → R s (doHeader c i code s).1
  body : ∀ i n s, R s (doBody c i n s).1
  recov : ∀ r j s, R s (recoverWrite c r (s.ev (.recovered r j s.w.status))).1
  cancel : ∀ s, R s { s with cancelled := true }
  hook : ∀ s, R s { s with badHook := true }

theorem ne_rec_enter (i : Nat) : (Ev.enter i).plainEv := trivial
theorem ne_rec_exit (i : Nat) : (Ev.exit i).plainEv := trivial
theorem ne_rec_abort (i l : Nat) : (Ev.abort i l).plainEv := trivial
theorem ne_rec_inject (i : Nat) : (Ev.inject i).plainEv := trivial
theorem ne_rec_nilact (i : Nat) : (Ev.nilact i).plainEv := trivial

section rel
variable {c : Cfg} {P : Nat → Prop} {R : St → St → Prop} (ok : RelOK c P R)
include ok

theorem act1_rel {runF : St → Res} (hF : ∀ s, R s (runF s).1) (i : Nat) (a : Act) (ha : a.codeOK P) (st : St) :
    R st (act1 c runF i a st).1 := by
  cases a with
  | write code => exact ok.hdr i code st ha
  | body n => exact ok.body i n st
  | next => exact hF st
  | cancel => exact ok.cancel st
  | map => exact ok.refl st
  | panic v => exact ok.refl st
  | hookPanic => exact ok.hook st

theorem execActs_rel {runF : St → Res} (hF : ∀ s, R s (runF s).1) (i : Nat) :
    ∀ (acts : List Act), (∀ a ∈ acts, a.codeOK P) → ∀ st, R st (execActs c runF i acts st).1 := by
  intro acts
  induction acts with
  | nil => intro _ st; exact ok.refl st
  | cons a rest ih =>
    intro hc st
    have h1 := act1_rel ok hF i a (hc a (by simp)) st
    unfold execActs
    rcases hr : act1 c runF i a st with ⟨st', _ | p⟩
    · rw [hr] at h1
      exact ok.trans h1 (ih (fun a ha => hc a (by simp [ha])) st')
    · rw [hr] at h1; exact h1

theorem render_rel (i : Nat) (r : Ret) (hr : match r with | .writes code _ => P code | _ => True) (st : St) :
    R st (render c i r st).1 := by
  cases r with
  | none => exact ok.refl st
  | nothing => exact ok.refl st
  | body len =>
    by_cases hl : len = 0
    · simpa [render, hl] using ok.refl st
    · simpa [render, hl] using ok.body i len st
  | writes code len =>
    have h1 := ok.hdr i code st hr
    rcases hd : doHeader c i code st with ⟨st', _ | p⟩
    · rw [hd] at h1
      by_cases hl : len = 0
      · simpa [render, hd, hl] using h1
      · have h2 := ok.body i len st'
        simp only [render, hd, hl, if_false]
        exact ok.trans h1 h2
    · rw [hd] at h1; simpa [render, hd] using h1

theorem invoke_rel {runF : St → Res} (hF : ∀ s, R s (runF s).1) (i : Nat) (k : Kind) (hk : k.codesOK P) (st : St) :
    R st (invoke c runF i k st).1 := by
  cases k with
  | unresolvable => exact ok.ev st _ (ne_rec_inject i)
  | plain p =>
    have h0 := ok.ev st _ (ne_rec_enter i)
    have h1 := execActs_rel ok hF i p.acts hk.1 (st.ev (.enter i))
    rcases hr : execActs c runF i p.acts (st.ev (.enter i)) with ⟨st1, _ | ⟨v, j⟩⟩
    · rw [hr] at h1
      rw [invoke_plain_ok hr]
      exact ok.trans h0 (ok.trans h1 (ok.trans (ok.ev st1 _ (ne_rec_exit i)) (render_rel ok i p.ret hk.2 _)))
    · rw [hr] at h1
      rw [invoke_plain_panic hr]
      exact ok.trans h0 (ok.trans h1 (ok.ev st1 _ (ne_rec_abort i j)))
  | recovery =>
    have h0 := ok.ev st _ (ne_rec_enter i)
    have h1 := hF (st.ev (.enter i))
    rcases hr : runF (st.ev (.enter i)) with ⟨st1, _ | ⟨v, j⟩⟩
    · rw [hr] at h1
      rw [invoke_rec_ok hr]
      exact ok.trans h0 (ok.trans h1 (ok.ev st1 _ (ne_rec_exit i)))
    · rw [hr] at h1
      have h2 := ok.recov i j st1
      rcases hw : recoverWrite c i (st1.ev (.recovered i j st1.w.status)) with ⟨st2, _ | ⟨v', j'⟩⟩
      · rw [hw] at h2
        rw [invoke_rec_caught hr hw]
        exact ok.trans h0 (ok.trans h1 (ok.trans h2 (ok.ev st2 _ (ne_rec_exit i))))
      · rw [hw] at h2
        rw [invoke_rec_repanic hr hw]
        exact ok.trans h0 (ok.trans h1 (ok.trans h2 (ok.ev st2 _ (ne_rec_abort i j'))))

theorem run_rel (hc : c.codesOK P) : ∀ f st, R st (run c f st).1 := by
  intro f
  induction f with
  | zero => intro st; exact ok.refl st
  | succ f ih =>
    intro st
    by_cases h1 : c.n < st.idx
    · rw [run_exhausted _ h1]; exact ok.refl st
    cases h2 : st.cancelled with
    | true => rw [run_cancelled _ h2]; exact ok.refl st
    | false =>
    cases hs : c.slot st.idx with
    | none =>
      rw [run_nil _ h1 h2 hs]
      exact ok.trans (ok.adv st h1) (ok.ev _ _ (ne_rec_nilact _))
    | some k =>
      have h3 := ok.trans (ok.adv st h1) (invoke_rel ok ih st.idx k (hc _ _ hs) st.adv)
      rcases hi : invoke c (run c f) st.idx k st.adv with ⟨st1, _ | p⟩
      · rw [hi] at h3
        cases hw : st1.w.written with
        | true => rw [run_stop _ h1 h2 hs hi hw]; exact h3
        | false => rw [run_loop _ h1 h2 hs hi hw]; exact ok.trans h3 (ih st1)
      · rw [hi] at h3; rw [run_panic _ h1 h2 hs hi]; exact h3

end rel

/-- the cursor never passes `len(handlers) + 1` -/
theorem run_idx_bound (c : Cfg) (f : Nat) (st : St) (h : st.idx ≤ c.n + 1) : (run c f st).1.idx ≤ c.n + 1 := by
  have ok : RelOK c (fun _ => True) (fun a b => a.idx ≤ c.n + 1 → b.idx ≤ c.n + 1) := {
    refl := fun _ h => h
    trans := fun h1 h2 h => h2 (h1 h)
    ev := fun _ _ _ h => h
    adv := fun s hs _ => by simp; omega
    hdr := fun i code s _ h => by rw [(doHeader_quiet c i code s).2]; exact h
    body := fun i n s h => by rw [(doBody_quiet c i n s).2]; exact h
    recov := fun r j s h => by rw [(recoverWrite_quiet c r _).2]; exact h
    cancel := fun _ h => h
    hook := fun _ h => h }
  exact run_rel ok c.codesOK_true f st h

/-! ### Part 2c: the top-level request -/

/-- the event `serve` appends when a panic leaves ServeHTTP -/
def escEv : Option (PVal × Nat) → List Ev
  | none => []
  | some (v, j) => [Ev.escaped v j]

theorem starts_escEv (p : Option (PVal × Nat)) : starts (escEv p) = [] := by
  rcases p with _ | ⟨v, j⟩ <;> rfl

theorem balanced_escEv (p : Option (PVal × Nat)) : Balanced (escEv p) := by
  rcases p with _ | ⟨v, j⟩ <;> intro s <;> rfl

/-- the trace of a request is the events of the top-level `run`, plus `escaped` if a panic got out -/
@[simp] theorem Cfg.st0_idx (c : Cfg) : c.st0.idx = 0 := rfl
@[simp] theorem Cfg.st0_trace (c : Cfg) : c.st0.trace = [] := rfl
@[simp] theorem Cfg.st0_out (c : Cfg) : c.st0.out = [] := rfl

theorem serve_ext (c : Cfg) :
    ∃ evs st1 p, run c c.fuel c.st0 = (st1, p) ∧ Ext c.st0 st1 evs ∧ st1.idx ≤ c.n + 1 ∧
      (serve c).trace = evs ++ escEv p ∧ (serve c).w = st1.w ∧ (serve c).out = st1.out := by
  obtain ⟨evs, h⟩ := run_ext c c.fuel c.st0
  have hb := run_idx_bound c c.fuel c.st0 (by simp)
  rcases hr : run c c.fuel c.st0 with ⟨st1, _ | ⟨v, j⟩⟩
  · rw [hr] at h hb
    have := h.tr
    refine ⟨evs, st1, none, rfl, h, hb, ?_, ?_, ?_⟩ <;> simp [serve, hr, escEv]
    simpa using this
  · rw [hr] at h hb
    have := h.tr
    refine ⟨evs, st1, some (v, j), rfl, h, hb, ?_, ?_, ?_⟩ <;> simp [serve, hr, escEv, St.ev]
    simpa using this

/-- a run that finds a slot to start (not exhausted, not cancelled, fuel left) moves the cursor -/
theorem run_advances (c : Cfg) (f : Nat) (st : St) (h1 : ¬ c.n < st.idx) (h2 : st.cancelled = false) :
    st.idx + 1 ≤ (run c (f + 1) st).1.idx := by
  cases hs : c.slot st.idx with
  | none => rw [run_nil _ h1 h2 hs]; simp
  | some k =>
    obtain ⟨_, hx⟩ := invoke_ext c (run_ext c f) st.idx k st.adv
    rcases hi : invoke c (run c f) st.idx k st.adv with ⟨st1, _ | p⟩
    · rw [hi] at hx
      have hle : st.idx + 1 ≤ st1.idx := hx.idx
      cases hw : st1.w.written with
      | true => rw [run_stop _ h1 h2 hs hi hw]; exact hle
      | false =>
        rw [run_loop _ h1 h2 hs hi hw]
        exact Nat.le_trans hle (run_idx_le c f st1)
    · rw [hi] at hx; rw [run_panic _ h1 h2 hs hi]; exact hx.idx

/-! ### Part 3a: the writer inside the chain (for C15; `onceBug = false`, codes ≥ 100) -/

/-- the Once is spent only together with a stored status -/
def WOK (w : W) : Prop := w.onceDone = true → w.status ≠ 0

theorem wh_sticky (w : W) (code : Nat) (h : w.status ≠ 0) : (w.writeHeader code).status = w.status := by
  unfold W.writeHeader
  split
  · rfl
  · split
    · rfl
    · rename_i hw; simp [W.written, h] at hw

theorem wh_wok (w : W) (code : Nat) (hc : code ≠ 0) (h : WOK w) : WOK (w.writeHeader code) := by
  unfold W.writeHeader
  split
  · exact h
  · split
    · rename_i hw; intro _; simpa [W.written] using hw
    · intro _; exact hc

theorem wh_fresh (w : W) (code : Nat) (h : WOK w) (h0 : w.status = 0) : (w.writeHeader code).status = code := by
  have hd : w.onceDone = false := by
    cases hd : w.onceDone with
    | false => rfl
    | true => exact absurd h0 (h hd)
  simp [W.writeHeader, hd, W.written, h0]

theorem write_status (w : W) (n m : Nat) : (step w (.write n m)).status = w.ensure.status := by
  simp only [step]; split <;> rfl

theorem write_onceDone (w : W) (n m : Nat) : (step w (.write n m)).onceDone = w.ensure.onceDone := by
  simp only [step]; split <;> rfl

theorem ensure_sticky (w : W) (h : w.status ≠ 0) : w.ensure.status = w.status := by
  unfold W.ensure; split
  · rfl
  · exact wh_sticky w 200 h

theorem ensure_wok (w : W) (h : WOK w) : WOK w.ensure := by
  unfold W.ensure; split
  · exact h
  · exact wh_wok w 200 (by decide) h

theorem write_wok (w : W) (n m : Nat) (h : WOK w) : WOK (step w (.write n m)) := by
  intro hd
  rw [write_onceDone] at hd
  rw [write_status]
  exact ensure_wok w h hd

theorem write_sticky (w : W) (n m : Nat) (h : w.status ≠ 0) : (step w (.write n m)).status = w.status := by
  rw [write_status]; exact ensure_sticky w h

theorem write_written (w : W) (n m : Nat) (h : WOK w) : (step w (.write n m)).status ≠ 0 := by
  rw [write_status]
  by_cases h0 : w.status = 0
  · unfold W.ensure
    simp only [W.written, h0]
    simp [wh_fresh w 200 h h0]
  · rw [ensure_sticky w h0]; exact h0

/-- the status Recovery leaves behind when it found status `s` -/
def finStatus (s : Nat) : Nat := if s = 0 then recoveryStatus else s

theorem finStatus_ne (s : Nat) : finStatus s ≠ 0 := by
  unfold finStatus; split
  · exact recoveryStatus_ne
  · assumption

/-- the body token Recovery sends in this environment -/
def recTok (c : Cfg) : Tok := if c.dev then Tok.detail else Tok.plain

/-- what one stretch of execution preserves, seen from a state whose writer is `WOK` -/
structure Mono (c : Cfg) (a b : St) : Prop where
  wok : WOK b.w
  sticky : a.w.status ≠ 0 → b.w.status = a.w.status
  canc : a.cancelled = true → b.cancelled = true
  out : ∀ t ∈ a.out, t ∈ b.out
  detail : Tok.detail ∈ b.out → Tok.detail ∈ a.out ∨ c.dev = true
  recd : ∀ r j s, Ev.recovered r j s ∈ b.trace →
    Ev.recovered r j s ∈ a.trace ∨ (b.w.status = finStatus s ∧ (c.head = false → recTok c ∈ b.out))

/-- the body-token list after one Write: unchanged for HEAD, one more token otherwise -/
theorem outStep (h : Bool) (o : List Tok) (t : Tok) :
    (∀ x ∈ o, x ∈ (if h = true then o else o ++ [t])) ∧
    (∀ x, x ∈ (if h = true then o else o ++ [t]) → x ∈ o ∨ x = t) ∧
    (h = false → t ∈ (if h = true then o else o ++ [t])) := by
  cases h
  · refine ⟨fun x hx => by simp [hx], fun x hx => by simpa using hx, fun _ => by simp⟩
  · exact ⟨fun x hx => by simpa using hx, fun x hx => Or.inl (by simpa using hx), fun h => by cases h⟩

theorem spendOnce_spec {c : Cfg} (h : c.onceBug = false) (st : St) : spendOnce c st = st := by
  simp [spendOnce, h]

theorem mono_ok (c : Cfg) (hb : c.onceBug = false) :
    RelOK c (fun code => 100 ≤ code) (fun a b => WOK a.w → Mono c a b) := {
  refl := fun s h => ⟨h, fun _ => rfl, id, fun _ h => h, Or.inl, fun _ _ _ h => Or.inl h⟩
  trans := by
    intro a b d h1 h2 ha
    have m1 := h1 ha
    have m2 := h2 m1.wok
    refine ⟨m2.wok, ?_, fun h => m2.canc (m1.canc h), fun t h => m2.out t (m1.out t h), ?_, ?_⟩
    · intro h; have := m1.sticky h; rw [m2.sticky (by rw [this]; exact h), this]
    · intro h
      rcases m2.detail h with h | h
      · exact m1.detail h
      · exact Or.inr h
    · intro r j s h
      rcases m2.recd r j s h with h | h
      · rcases m1.recd r j s h with h | ⟨hs, ht⟩
        · exact Or.inl h
        · refine Or.inr ⟨?_, fun hh => m2.out _ (ht hh)⟩
          rw [m2.sticky (by rw [hs]; exact finStatus_ne s), hs]
      · exact Or.inr h
  ev := by
    intro s e he hw
    refine ⟨hw, fun _ => rfl, id, fun _ h => h, Or.inl, ?_⟩
    intro r j k h
    simp only [St.ev_trace, List.mem_append, List.mem_singleton] at h
    rcases h with h | h
    · exact Or.inl h
    · subst h; exact absurd he (by simp [Ev.plainEv])
  adv := fun s _ hw => ⟨hw, fun _ => rfl, id, fun _ h => h, Or.inl, fun _ _ _ h => Or.inl h⟩
  hdr := by
    intro i code s hc hw
    unfold doHeader
    split
    · rw [spendOnce_spec hb]
      exact ⟨hw, fun _ => rfl, id, fun _ h => h, Or.inl, fun _ _ _ h => Or.inl h⟩
    · exact ⟨wh_wok _ _ (by omega) hw, wh_sticky _ _, id, fun _ h => h, Or.inl, fun _ _ _ h => Or.inl h⟩
  body := by
    intro i n s hw
    unfold doBody
    split
    · rw [spendOnce_spec hb]
      exact ⟨hw, fun _ => rfl, id, fun _ h => h, Or.inl, fun _ _ _ h => Or.inl h⟩
    · have os := outStep c.head s.out (Tok.xs n)
      refine ⟨write_wok s.w n n hw, write_sticky s.w n n, id, os.1, ?_, fun _ _ _ h => Or.inl h⟩
      intro h
      rcases os.2.1 _ h with h | h
      · exact Or.inl h
      · cases h
  recov := by
    intro r j s hw
    have hnf : (c.onceBug && hookFires (s.ev (.recovered r j s.w.status))) = false := by simp [hb]
    unfold recoverWrite
    rw [hnf]
    simp only [Bool.false_eq_true, if_false, St.ev_w, St.ev_trace]
    have hw1 : WOK (s.w.writeHeader recoveryStatus) := wh_wok _ _ recoveryStatus_ne hw
    generalize (if c.dev = true then c.detailLen else recoveryPlainLen) = len
    have os := outStep c.head s.out (if c.dev = true then Tok.detail else Tok.plain)
    refine ⟨write_wok (s.w.writeHeader recoveryStatus) len len hw1, ?_, id, os.1, ?_, ?_⟩
    · intro h
      rw [write_sticky (s.w.writeHeader recoveryStatus) len len (by rw [wh_sticky _ _ h]; exact h), wh_sticky _ _ h]
    · intro h
      rcases os.2.1 _ h with h | h
      · exact Or.inl h
      · right
        by_cases hd : c.dev = true
        · exact hd
        · simp [hd] at h
    · intro r' j' s' h
      simp only [List.mem_append, List.mem_singleton] at h
      rcases h with h | h
      · exact Or.inl h
      · right
        cases h
        refine ⟨?_, by simpa [recTok, St.ev] using os.2.2⟩
        by_cases h0 : s.w.status = 0
        · have e500 : (s.w.writeHeader recoveryStatus).status = recoveryStatus := wh_fresh _ _ hw h0
          rw [write_sticky (s.w.writeHeader recoveryStatus) len len (by rw [e500]; exact recoveryStatus_ne), e500]; simp [finStatus, h0]
        · rw [write_sticky (s.w.writeHeader recoveryStatus) len len (by rw [wh_sticky _ _ h0]; exact h0), wh_sticky _ _ h0]; simp [finStatus, h0]
  cancel := fun s hw => ⟨hw, fun _ => rfl, fun _ => rfl, fun _ h => h, Or.inl, fun _ _ _ h => Or.inl h⟩
  hook := fun s hw => ⟨hw, fun _ => rfl, id, fun _ h => h, Or.inl, fun _ _ _ h => Or.inl h⟩ }

/-! ### Part 3b: brackets, origins -/

/-- an `abort i _` closes a frame that was on the stack or was opened earlier in the same list -/
theorem wbGo_abort_opened (i j : Nat) : ∀ (evs : List Ev) (s s' : List Nat), wbGo s evs = some s' →
    Ev.abort i j ∈ evs → i ∈ s ∨ Ev.enter i ∈ evs := by
  intro evs
  induction evs with
  | nil => intro s s' _ h; cases h
  | cons e rest ih =>
    intro s s' hw hm
    have tail : ∀ s0, wbGo s0 rest = some s' → Ev.abort i j ∈ rest → (∀ x, x ∈ s0 → x ∈ s) → i ∈ s ∨ Ev.enter i ∈ e :: rest := by
      intro s0 h0 hm0 hsub
      rcases ih s0 s' h0 hm0 with h | h
      · exact Or.inl (hsub i h)
      · exact Or.inr (by simp [h])
    cases e with
    | enter k =>
      simp only [List.mem_cons] at hm
      rcases hm with hm | hm
      · cases hm
      · rcases ih (k :: s) s' (by simpa [wbGo] using hw) hm with h | h
        · simp only [List.mem_cons] at h
          rcases h with h | h
          · subst h; exact Or.inr (by simp)
          · exact Or.inl h
        · exact Or.inr (by simp [h])
    | exit k =>
      have hm' : Ev.abort i j ∈ rest := by simpa using hm
      cases s with
      | nil => simp [wbGo] at hw
      | cons t s0 =>
        by_cases ht : t = k
        · exact tail s0 (by simpa [wbGo, ht] using hw) hm' (fun x hx => by simp [hx])
        · simp [wbGo, ht] at hw
    | abort k l =>
      cases s with
      | nil => simp [wbGo] at hw
      | cons t s0 =>
        by_cases ht : t = k
        · simp only [List.mem_cons] at hm
          rcases hm with hm | hm
          · cases hm; exact Or.inl (by simp [ht])
          · exact tail s0 (by simpa [wbGo, ht] using hw) hm (fun x hx => by simp [hx])
        · simp [wbGo, ht] at hw
    | inject k => exact tail s (by simpa [wbGo] using hw) (by simpa using hm) (fun _ h => h)
    | nilact k => exact tail s (by simpa [wbGo] using hw) (by simpa using hm) (fun _ h => h)
    | recovered a b d => exact tail s (by simpa [wbGo] using hw) (by simpa using hm) (fun _ h => h)
    | escaped v k => exact tail s (by simpa [wbGo] using hw) (by simpa using hm) (fun _ h => h)

/-- every frame that is open at the start or opened in the list is still open at the end or was
    closed (by `exit` or `abort`) in the list -/
theorem wbGo_closed (i : Nat) : ∀ (evs : List Ev) (s s' : List Nat), wbGo s evs = some s' →
    (i ∈ s ∨ Ev.enter i ∈ evs) → i ∈ s' ∨ Ev.exit i ∈ evs ∨ ∃ j, Ev.abort i j ∈ evs := by
  intro evs
  induction evs with
  | nil => intro s s' hw h; simp [wbGo] at hw; subst hw; simpa using h
  | cons e rest ih =>
    intro s s' hw h
    have lift : (i ∈ s' ∨ Ev.exit i ∈ rest ∨ ∃ j, Ev.abort i j ∈ rest) →
        i ∈ s' ∨ Ev.exit i ∈ e :: rest ∨ ∃ j, Ev.abort i j ∈ e :: rest := by
      rintro (h | h | ⟨j, h⟩)
      · exact Or.inl h
      · exact Or.inr (Or.inl (by simp [h]))
      · exact Or.inr (Or.inr ⟨j, by simp [h]⟩)
    cases e with
    | enter k =>
      apply lift
      apply ih (k :: s) s' (by simpa [wbGo] using hw)
      rcases h with h | h
      · exact Or.inl (by simp [h])
      · simp only [List.mem_cons] at h
        rcases h with h | h
        · cases h; exact Or.inl (by simp)
        · exact Or.inr h
    | exit k =>
      cases s with
      | nil => simp [wbGo] at hw
      | cons t s0 =>
        by_cases ht : t = k
        · have hw' : wbGo s0 rest = some s' := by simpa [wbGo, ht] using hw
          rcases h with h | h
          · simp only [List.mem_cons] at h
            rcases h with h | h
            · subst h; subst ht; exact Or.inr (Or.inl (by simp))
            · exact lift (ih s0 s' hw' (Or.inl h))
          · exact lift (ih s0 s' hw' (Or.inr (by simpa using h)))
        · simp [wbGo, ht] at hw
    | abort k l =>
      cases s with
      | nil => simp [wbGo] at hw
      | cons t s0 =>
        by_cases ht : t = k
        · have hw' : wbGo s0 rest = some s' := by simpa [wbGo, ht] using hw
          rcases h with h | h
          · simp only [List.mem_cons] at h
            rcases h with h | h
            · subst h; subst ht; exact Or.inr (Or.inr ⟨l, by simp⟩)
            · exact lift (ih s0 s' hw' (Or.inl h))
          · exact lift (ih s0 s' hw' (Or.inr (by simpa using h)))
        · simp [wbGo, ht] at hw
    | inject k =>
      exact lift (ih s s' (by simpa [wbGo] using hw) (h.imp id (by simp)))
    | nilact k =>
      exact lift (ih s s' (by simpa [wbGo] using hw) (h.imp id (by simp)))
    | recovered a b d =>
      exact lift (ih s s' (by simpa [wbGo] using hw) (h.imp id (by simp)))
    | escaped v k =>
      exact lift (ih s s' (by simpa [wbGo] using hw) (h.imp id (by simp)))

theorem enter_mem_starts {i : Nat} {evs : List Ev} (h : Ev.enter i ∈ evs) : i ∈ starts evs := by
  simp only [starts, List.mem_filterMap]
  exact ⟨_, h, rfl⟩

/-- the events a run adds only unwind frames of slots at or after its starting cursor -/
theorem ext_abort_ge {st st' : St} {evs : List Ev} (h : Ext st st' evs) {i j : Nat}
    (ha : Ev.abort i j ∈ evs) : st.idx ≤ i := by
  rcases wbGo_abort_opened i j evs [] [] (h.bal []) ha with h0 | h0
  · cases h0
  · have := enter_mem_starts h0
    rw [h.st, List.mem_range'_1] at this
    exact this.1

theorem doHeader_origin {c : Cfg} {i code : Nat} {st st' : St} {v : PVal} {j : Nat}
    (h : doHeader c i code st = (st', some (v, j))) : j = i := by
  unfold doHeader at h; split at h <;> simp at h; exact h.2.2.symm

theorem doBody_origin {c : Cfg} {i n : Nat} {st st' : St} {v : PVal} {j : Nat}
    (h : doBody c i n st = (st', some (v, j))) : j = i := by
  unfold doBody at h; split at h <;> simp at h; exact h.2.2.symm

theorem render_origin {c : Cfg} {i : Nat} {r : Ret} {st st' : St} {v : PVal} {j : Nat}
    (h : render c i r st = (st', some (v, j))) : j = i := by
  cases r with
  | none => simp [render] at h
  | nothing => simp [render] at h
  | body len =>
    by_cases hl : len = 0
    · simp [render, hl] at h
    · simp only [render, hl, if_false] at h
      exact doBody_origin h
  | writes code len =>
    rcases hd : doHeader c i code st with ⟨s1, _ | ⟨v1, j1⟩⟩
    · by_cases hl : len = 0
      · simp [render, hd, hl] at h
      · simp only [render, hd, hl, if_false] at h
        exact doBody_origin h
    · simp only [render, hd] at h
      cases h
      exact doHeader_origin hd

/-- an action other than Next() adds no event, leaves the cursor, and can only panic as handler `i` -/
theorem act1_quiet (c : Cfg) (runF : St → Res) (i : Nat) (a : Act) (ha : a ≠ Act.next) (st : St) :
    (act1 c runF i a st).1.trace = st.trace ∧ (act1 c runF i a st).1.idx = st.idx ∧
    ∀ v j, (act1 c runF i a st).2 = some (v, j) → j = i := by
  cases a with
  | write code =>
    refine ⟨(doHeader_quiet c i code st).1, (doHeader_quiet c i code st).2, ?_⟩
    intro v j h
    exact doHeader_origin (st' := (doHeader c i code st).1) (by rw [← h]; rfl)
  | body n =>
    refine ⟨(doBody_quiet c i n st).1, (doBody_quiet c i n st).2, ?_⟩
    intro v j h
    exact doBody_origin (st' := (doBody c i n st).1) (by rw [← h]; rfl)
  | next => exact absurd rfl ha
  | cancel => simp [act1]
  | map => simp [act1]
  | panic v => simp [act1]
  | hookPanic => simp [act1]

theorem execActs_quiet (c : Cfg) (runF : St → Res) (i : Nat) :
    ∀ (acts : List Act), (∀ a ∈ acts, a ≠ Act.next) → ∀ (st st' : St) (p : Option (PVal × Nat)),
      execActs c runF i acts st = (st', p) →
      st'.trace = st.trace ∧ st'.idx = st.idx ∧ ∀ v j, p = some (v, j) → j = i := by
  intro acts
  induction acts with
  | nil =>
    intro _ st st' p h
    simp [execActs] at h
    obtain ⟨rfl, rfl⟩ := h
    simp
  | cons a rest ih =>
    intro hn st st' p h
    have hq := act1_quiet c runF i a (hn a (by simp)) st
    unfold execActs at h
    rcases hr : act1 c runF i a st with ⟨s1, _ | ⟨v1, j1⟩⟩
    · rw [hr] at h hq
      obtain ⟨h1, h2, h3⟩ := ih (fun a ha => hn a (by simp [ha])) s1 st' p h
      exact ⟨h1.trans hq.1, h2.trans hq.2.1, h3⟩
    · rw [hr] at h hq
      simp at h
      obtain ⟨rfl, rfl⟩ := h
      refine ⟨hq.1, hq.2.1, ?_⟩
      intro v j hv
      cases hv
      exact hq.2.2 _ _ rfl

theorem done_mono {c : Cfg} {a b : St} (m : Mono c a b) (hi : a.idx ≤ b.idx) (h : Done c a) : Done c b := by
  rcases h with h | h | h
  · left
    have h0 : a.w.status ≠ 0 := by simpa [W.written] using h
    have := m.sticky h0
    simp [W.written, this, h0]
  · exact Or.inr (Or.inl (m.canc h))
  · exact Or.inr (Or.inr (by omega))

/-! ### Part 3c: containment (C15) -/

/-- guard of the position-based containment theorems: no handler before slot `r` calls
    Next() more than once (decidable on the configuration) -/
def NextOnceBefore (c : Cfg) (r : Nat) : Prop :=
  ∀ i p, i < r → c.slot i = some (.plain p) → p.acts.count Act.next ≤ 1

/-- frames of slots before `r` are unwound only by panics raised before `r` -/
def AbortsOK (r : Nat) (evs : List Ev) : Prop := ∀ i j, Ev.abort i j ∈ evs → i < r → j < r

structure Contained (r : Nat) (st st' : St) (p : Option (PVal × Nat)) : Prop where
  origin : ∀ v j, p = some (v, j) → j < r
  evs : ∃ evs, st'.trace = st.trace ++ evs ∧ AbortsOK r evs

theorem run_mono {c : Cfg} (hb : c.onceBug = false) (hc : c.codesOK (fun code => 100 ≤ code))
    (f : Nat) (st : St) (hw : WOK st.w) : Mono c st (run c f st).1 :=
  run_rel (mono_ok c hb) hc f st hw

/-- the body of a handler in a slot before `r` that calls Next() at most once -/
theorem contained_acts {c : Cfg} {r f i : Nat} (hb : c.onceBug = false)
    (hc : c.codesOK (fun code => 100 ≤ code)) (hi : i < r)
    (IH : ∀ st, c.n + 1 - st.idx ≤ f → st.idx ≤ r → WOK st.w → ∀ st' p, run c f st = (st', p) →
      Contained r st st' p) :
    ∀ (acts : List Act), acts.count Act.next ≤ 1 → (∀ a ∈ acts, a.codeOK (fun code => 100 ≤ code)) →
      ∀ st, c.n + 1 - st.idx ≤ f → st.idx ≤ r → WOK st.w →
      ∀ st' p, execActs c (run c f) i acts st = (st', p) →
        Contained r st st' p ∧ (p = none → st'.idx ≤ r ∨ Done c st') := by
  have hF : ∀ s, WOK s.w → Mono c s (run c f s).1 := fun s => run_mono hb hc f s
  intro acts
  induction acts with
  | nil =>
    intro _ _ st _ hr _ st' p h
    simp [execActs] at h
    obtain ⟨rfl, rfl⟩ := h
    exact ⟨⟨by simp, [], by simp, by intro _ _ h; cases h⟩, fun _ => Or.inl hr⟩
  | cons a rest ih =>
    intro hcnt hcodes st hfu hr hw st' p h
    by_cases ha : a = Act.next
    · subst ha
      have hrest : ∀ a ∈ rest, a ≠ Act.next := by
        have : rest.count Act.next = 0 := by simp at hcnt; omega
        intro a ha hn; subst hn
        exact absurd (List.count_pos_iff.mpr ha) (by omega)
      unfold execActs at h
      simp only [act1] at h
      rcases hrun : run c f st with ⟨s1, _ | ⟨v1, j1⟩⟩
      · rw [hrun] at h; dsimp only at h
        have k1 := IH st hfu hr hw s1 none hrun
        have hd : Done c s1 := run_done c f st s1 hfu hrun
        have hw1 : WOK s1.w := by have := (hF st hw).wok; rw [hrun] at this; exact this
        obtain ⟨e1, e2, e3⟩ := execActs_quiet c (run c f) i rest hrest s1 st' p h
        obtain ⟨evs, ht, ho⟩ := k1.evs
        refine ⟨⟨?_, evs, by rw [e1, ht], ho⟩, ?_⟩
        · intro v j hv; rw [e3 v j hv]; exact hi
        · intro _
          have m := execActs_rel (mono_ok c hb) (fun s => run_rel (mono_ok c hb) hc f s) i rest
            (fun a ha => hcodes a (by simp [ha])) s1 hw1
          rw [h] at m
          exact Or.inr (done_mono m (by rw [e2]; exact Nat.le_refl _) hd)
      · rw [hrun] at h
        simp at h
        obtain ⟨rfl, rfl⟩ := h
        exact ⟨IH st hfu hr hw s1 _ hrun, by intro h; cases h⟩
    · have hq := act1_quiet c (run c f) i a ha st
      have hm := act1_rel (mono_ok c hb) (fun s => run_rel (mono_ok c hb) hc f s) i a (hcodes a (by simp)) st hw
      unfold execActs at h
      rcases h1 : act1 c (run c f) i a st with ⟨s1, _ | ⟨v1, j1⟩⟩
      · rw [h1] at h hq hm; dsimp only at h hq hm
        have hcnt' : rest.count Act.next ≤ 1 := by
          have : (a :: rest).count Act.next = rest.count Act.next := by
            simp [ha]
          omega
        obtain ⟨k, kd⟩ := ih hcnt' (fun a ha => hcodes a (by simp [ha])) s1
          (by rw [hq.2.1]; exact hfu) (by rw [hq.2.1]; exact hr) hm.wok st' p h
        obtain ⟨evs, ht, ho⟩ := k.evs
        exact ⟨⟨k.origin, evs, by rw [ht, hq.1], ho⟩, kd⟩
      · rw [h1] at h hq; dsimp only at hq
        simp at h
        obtain ⟨rfl, rfl⟩ := h
        refine ⟨⟨?_, [], by simp [hq.1], by intro _ _ h; cases h⟩, by intro h; cases h⟩
        intro v j hv; cases hv
        rw [hq.2.2 _ _ rfl]; exact hi

theorem abortsOK_nil (r : Nat) : AbortsOK r [] := by intro _ _ h; cases h

theorem abortsOK_append {r : Nat} {a b : List Ev} (ha : AbortsOK r a) (hb : AbortsOK r b) : AbortsOK r (a ++ b) := by
  intro i j h
  rcases List.mem_append.mp h with h | h
  · exact ha i j h
  · exact hb i j h

theorem abortsOK_single {r : Nat} (e : Ev) (h : ∀ i j, e = Ev.abort i j → i < r → j < r) : AbortsOK r [e] := by
  intro i j hm hi
  simp only [List.mem_singleton] at hm
  exact h i j hm.symm hi

/-- `enter i :: evs ++ mid ++ [close]` keeps the property when the closing event does -/
theorem abortsOK_wrap {r i : Nat} {evs mid : List Ev} {close : Ev} (h : AbortsOK r evs) (hm : AbortsOK r mid)
    (hc : ∀ i j, close = Ev.abort i j → i < r → j < r) : AbortsOK r (Ev.enter i :: (evs ++ mid) ++ [close]) := by
  have h1 : AbortsOK r [Ev.enter i] := abortsOK_single _ (by intro _ _ h; cases h)
  have := abortsOK_append h1 (abortsOK_append (abortsOK_append h hm) (abortsOK_single close hc))
  simpa using this

theorem Contained.trans {r : Nat} {a b d : St} {p : Option (PVal × Nat)}
    (h1 : Contained r a b none) (h2 : Contained r b d p) : Contained r a d p := by
  obtain ⟨e1, t1, o1⟩ := h1.evs
  obtain ⟨e2, t2, o2⟩ := h2.evs
  exact ⟨h2.origin, e1 ++ e2, by rw [t2, t1, List.append_assoc], abortsOK_append o1 o2⟩

theorem recoverWrite_spec {c : Cfg} (hb : c.onceBug = false) (r : Nat) (st : St) :
    recoverWrite c r st =
      ({ st with w := step (st.w.writeHeader recoveryStatus)
                        (.write (if c.dev then c.detailLen else recoveryPlainLen) (if c.dev then c.detailLen else recoveryPlainLen)),
                 out := if c.head then st.out else st.out ++ [if c.dev then Tok.detail else Tok.plain] }, none) := by
  simp [recoverWrite, hb]

/-- with `onceBug = false` nothing ever propagates out of a Recovery frame, and a Recovery frame that
    caught something leaves the response written -/
theorem invoke_recovery_spec {c : Cfg} (hb : c.onceBug = false) (runF : St → Res) (i : Nat) (st : St) :
    (invoke c runF i .recovery st).2 = none ∧
    ∀ s1 v j, runF (st.ev (.enter i)) = (s1, some (v, j)) → WOK s1.w →
      (invoke c runF i .recovery st).1.w.written = true := by
  rcases hr : runF (st.ev (.enter i)) with ⟨s1, _ | ⟨v, j⟩⟩
  · rw [invoke_rec_ok hr]
    exact ⟨rfl, by intro _ _ _ h; cases h⟩
  · have hw := recoverWrite_spec hb i (s1.ev (.recovered i j s1.w.status))
    rw [invoke_rec_caught hr hw]
    refine ⟨rfl, ?_⟩
    intro s1' v' j' h hwok
    cases h
    have := write_written (s1.w.writeHeader recoveryStatus) (if c.dev then c.detailLen else recoveryPlainLen)
      (if c.dev then c.detailLen else recoveryPlainLen) (wh_wok _ _ recoveryStatus_ne hwok)
    simpa [W.written] using this

theorem contained_invoke {c : Cfg} {r f : Nat} (hb : c.onceBug = false)
    (hc : c.codesOK (fun code => 100 ≤ code)) (hrec : c.slot r = some .recovery) (hg : NextOnceBefore c r)
    (IH : ∀ st, c.n + 1 - st.idx ≤ f → st.idx ≤ r → WOK st.w → ∀ st' p, run c f st = (st', p) →
      Contained r st st' p)
    (st : St) (k : Kind) (hs : c.slot st.idx = some k) (hfu : c.n + 1 - st.idx ≤ f + 1) (hr : st.idx ≤ r)
    (hw : WOK st.w) :
    ∀ s1 p1, invoke c (run c f) st.idx k st.adv = (s1, p1) →
      Contained r st s1 p1 ∧ (p1 = none → s1.idx ≤ r ∨ Done c s1) := by
  intro s1 p1 hinv
  have hwe : WOK (st.adv.ev (.enter st.idx)).w := hw
  have hfe : c.n + 1 - (st.adv.ev (.enter st.idx)).idx ≤ f := by simp; omega
  cases k with
  | unresolvable =>
    simp [invoke] at hinv
    obtain ⟨rfl, rfl⟩ := hinv
    have hne : st.idx ≠ r := by intro h; rw [h, hrec] at hs; cases hs
    refine ⟨⟨?_, [Ev.inject st.idx], by simp, abortsOK_single _ (by intro _ _ h; cases h)⟩, by intro h; cases h⟩
    intro v j h; cases h; omega
  | plain p =>
    have hne : st.idx ≠ r := by intro h; rw [h, hrec] at hs; cases hs
    have hi : st.idx < r := by omega
    have hck := hc _ _ hs
    rcases he : execActs c (run c f) st.idx p.acts (st.adv.ev (.enter st.idx)) with ⟨sa, _ | ⟨v, j⟩⟩
    · obtain ⟨k1, kd⟩ := contained_acts hb hc hi IH p.acts (hg _ p hi hs) hck.1 _ hfe
        (by simp; omega) hwe sa none he
      rw [invoke_plain_ok he] at hinv
      have hq := render_quiet c st.idx p.ret (sa.ev (.exit st.idx))
      rw [hinv] at hq
      obtain ⟨evs, ht, ho⟩ := k1.evs
      refine ⟨⟨?_, Ev.enter st.idx :: (evs ++ []) ++ [Ev.exit st.idx], ?_, abortsOK_wrap ho (abortsOK_nil r)
        (by intro _ _ h; cases h)⟩, ?_⟩
      · intro v j h; subst h
        rw [render_origin hinv]; exact hi
      · rw [hq.1]; simp [ht]
      · intro _
        have hwa : WOK sa.w := by
          have := execActs_rel (mono_ok c hb) (fun s => run_rel (mono_ok c hb) hc f s) st.idx p.acts hck.1 _ hwe
          rw [he] at this; exact this.wok
        have m := render_rel (mono_ok c hb) st.idx p.ret hck.2 (sa.ev (.exit st.idx)) hwa
        rw [hinv] at m
        rcases kd rfl with h | h
        · left; rw [hq.2]; exact h
        · right; exact done_mono m (by rw [hq.2]; exact Nat.le_refl _) h
    · obtain ⟨k1, _⟩ := contained_acts hb hc hi IH p.acts (hg _ p hi hs) hck.1 _ hfe
        (by simp; omega) hwe sa _ he
      rw [invoke_plain_panic he] at hinv
      simp at hinv
      obtain ⟨rfl, rfl⟩ := hinv
      obtain ⟨evs, ht, ho⟩ := k1.evs
      have hj : j < r := k1.origin v j rfl
      refine ⟨⟨?_, Ev.enter st.idx :: (evs ++ []) ++ [Ev.abort st.idx j], by simp [ht],
        abortsOK_wrap ho (abortsOK_nil r) ?_⟩, by intro h; cases h⟩
      · intro v' j' h; cases h; exact hj
      · intro i' j' h _; cases h; exact hj
  | recovery =>
    -- the events of the inner run: before r by induction, at r because they all belong to later slots
    obtain ⟨evs, hx⟩ := run_ext c f (st.adv.ev (.enter st.idx))
    have hspec := invoke_recovery_spec hb (run c f) st.idx st.adv
    rw [hinv] at hspec
    have hp1 : p1 = none := hspec.1
    subst hp1
    rcases hrun : run c f (st.adv.ev (.enter st.idx)) with ⟨sa, pa⟩
    rw [hrun] at hx
    have htr : sa.trace = (st.adv.ev (.enter st.idx)).trace ++ evs := hx.tr
    have hao : AbortsOK r evs := by
      by_cases hi : st.idx < r
      · obtain ⟨evs', ht', ho'⟩ := (IH _ hfe (by simp; omega) hwe sa pa hrun).evs
        have : evs' = evs := by
          have := hx.tr; rw [ht'] at this; exact List.append_cancel_left this
        rw [← this]; exact ho'
      · intro i j ha hlt
        have := ext_abort_ge hx ha
        simp at this; omega
    have hwa : WOK sa.w := by
      have := run_mono hb hc f _ hwe; rw [hrun] at this; exact this.wok
    rcases pa with _ | ⟨v, j⟩
    · rw [invoke_rec_ok hrun] at hinv
      cases hinv
      have hd := run_done c f _ sa hfe hrun
      refine ⟨⟨(by intro _ _ h; cases h), Ev.enter st.idx :: (evs ++ []) ++ [Ev.exit st.idx], (by simp [htr]),
        abortsOK_wrap hao (abortsOK_nil r) (by intro _ _ h; cases h)⟩, fun _ => Or.inr hd⟩
    · have hwr := hspec.2 sa v j hrun hwa
      have hw2 := recoverWrite_spec hb st.idx (sa.ev (.recovered st.idx j sa.w.status))
      rw [invoke_rec_caught hrun hw2] at hinv
      cases hinv
      refine ⟨⟨(by intro _ _ h; cases h),
        Ev.enter st.idx :: (evs ++ [Ev.recovered st.idx j sa.w.status]) ++ [Ev.exit st.idx], (by simp [htr]),
        abortsOK_wrap hao (abortsOK_single _ (by intro _ _ h; cases h)) (by intro _ _ h; cases h)⟩,
        fun _ => Or.inr (Or.inl ?_)⟩
      simpa [invoke_rec_caught hrun hw2] using hwr

/-- The core of C15's position-based clauses: a run started at or before a Recovery in slot `r` lets
    only panics raised before `r` out, and unwinds frames before `r` only by such panics. -/
theorem contained_run {c : Cfg} {r : Nat} (hb : c.onceBug = false)
    (hc : c.codesOK (fun code => 100 ≤ code)) (hrec : c.slot r = some .recovery) (hg : NextOnceBefore c r) :
    ∀ f st, c.n + 1 - st.idx ≤ f → st.idx ≤ r → WOK st.w → ∀ st' p, run c f st = (st', p) →
      Contained r st st' p := by
  intro f
  induction f with
  | zero =>
    intro st _ _ _ st' p h
    rw [run_zero] at h; cases h
    exact ⟨(by intro _ _ h; cases h), [], (by simp), abortsOK_nil r⟩
  | succ f ih =>
    intro st hfu hr hw st' p h
    have triv : (st, (none : Option (PVal × Nat))) = (st', p) → Contained r st st' p := by
      intro h; cases h
      exact ⟨(by intro _ _ h; cases h), [], (by simp), abortsOK_nil r⟩
    by_cases h1 : c.n < st.idx
    · rw [run_exhausted _ h1] at h; exact triv h
    cases h2 : st.cancelled with
    | true => rw [run_cancelled _ h2] at h; exact triv h
    | false =>
    cases hs : c.slot st.idx with
    | none =>
      rw [run_nil _ h1 h2 hs] at h; cases h
      exact ⟨(by intro _ _ h; cases h), [Ev.nilact st.idx], (by simp),
        abortsOK_single _ (by intro _ _ h; cases h)⟩
    | some k =>
      obtain ⟨_, hx⟩ := invoke_ext c (run_ext c f) st.idx k st.adv
      have hm := invoke_rel (mono_ok c hb) (fun s => run_rel (mono_ok c hb) hc f s) st.idx k (hc _ _ hs) st.adv hw
      rcases hi : invoke c (run c f) st.idx k st.adv with ⟨s1, _ | pp⟩
      · obtain ⟨k1, kd⟩ := contained_invoke hb hc hrec hg ih st k hs hfu hr hw s1 none hi
        rw [hi] at hx hm
        have hle : st.idx + 1 ≤ s1.idx := hx.idx
        cases hw1 : s1.w.written with
        | true => rw [run_stop _ h1 h2 hs hi hw1] at h; cases h; exact k1
        | false =>
          rw [run_loop _ h1 h2 hs hi hw1] at h
          rcases kd rfl with hle' | hd
          · exact k1.trans (ih s1 (by omega) hle' hm.wok st' p h)
          · rcases hd with hd | hd | hd
            · rw [hw1] at hd; cases hd
            · rw [run_cancelled _ hd] at h; cases h; exact k1
            · rw [run_exhausted _ hd] at h; cases h; exact k1
      · obtain ⟨k1, _⟩ := contained_invoke hb hc hrec hg ih st k hs hfu hr hw s1 (some pp) hi
        rw [run_panic _ h1 h2 hs hi] at h; cases h; exact k1

/-- `run` never emits `escaped` (only `serve` does) -/
theorem run_no_escaped (c : Cfg) (f : Nat) (st : St) :
    ∀ e ∈ (run c f st).1.trace, (∃ v j, e = Ev.escaped v j) → e ∈ st.trace := by
  have ok : RelOK c (fun _ => True) (fun a b => ∀ e ∈ b.trace, (∃ v j, e = Ev.escaped v j) → e ∈ a.trace) := {
    refl := fun _ _ h _ => h
    trans := fun h1 h2 e he hx => h1 e (h2 e he hx) hx
    ev := by
      intro s e hp x hx hex
      simp only [St.ev_trace, List.mem_append, List.mem_singleton] at hx
      rcases hx with hx | hx
      · exact hx
      · subst hx
        obtain ⟨v, j, rfl⟩ := hex
        exact absurd hp (by simp [Ev.plainEv])
    adv := fun _ _ _ h _ => h
    hdr := fun i code s _ e he _ => by rw [(doHeader_quiet c i code s).1] at he; exact he
    body := fun i n s e he _ => by rw [(doBody_quiet c i n s).1] at he; exact he
    recov := by
      intro r j s e he hex
      rw [(recoverWrite_quiet c r _).1] at he
      simp only [St.ev_trace, List.mem_append, List.mem_singleton] at he
      rcases he with he | he
      · exact he
      · subst he; obtain ⟨_, _, h⟩ := hex; cases h
    cancel := fun _ _ h _ => h
    hook := fun _ _ h _ => h }
  exact run_rel ok c.codesOK_true f st

theorem serve_evs_no_escaped {c : Cfg} {st1 : St} {p : Option (PVal × Nat)} {evs : List Ev}
    (hr : run c c.fuel c.st0 = (st1, p)) (hx : Ext c.st0 st1 evs) : ∀ v j, Ev.escaped v j ∉ evs := by
  intro v j h
  have := run_no_escaped c c.fuel c.st0 (Ev.escaped v j) (by rw [hr, hx.tr]; simp [h]) ⟨v, j, rfl⟩
  cases this

/-! ### Part 4: the hypotheses of C15 and request-level lemmas -/

structure Installed (c : Cfg) (r : Nat) : Prop where
  spec : c.onceBug = false
  codes : c.codesOK (fun code => 100 ≤ code)
  recAt : c.slot r = some Kind.recovery

/-! executable forms of the hypotheses (used by the non-vacuity examples) -/

def Kind.codesB : Kind → Bool
  | .plain p => p.acts.all (fun a => match a with | .write code => decide (100 ≤ code) | _ => true) &&
      (match p.ret with | .writes code _ => decide (100 ≤ code) | _ => true)
  | _ => true

theorem Kind.codesB_ok (k : Kind) (h : k.codesB = true) : k.codesOK (fun code => 100 ≤ code) := by
  cases k with
  | plain p =>
    simp only [Kind.codesB, Bool.and_eq_true, List.all_eq_true] at h
    refine ⟨fun a ha => ?_, ?_⟩
    · have := h.1 a ha
      cases a <;> simp_all [Act.codeOK]
    · cases hr : p.ret <;> simp_all
  | recovery => trivial
  | unresolvable => trivial

def Cfg.codesB (c : Cfg) : Bool := c.chain.all Kind.codesB && c.action.all Kind.codesB

theorem Cfg.codesB_ok (c : Cfg) (h : c.codesB = true) : c.codesOK (fun code => 100 ≤ code) := by
  simp only [Cfg.codesB, Bool.and_eq_true, List.all_eq_true] at h
  intro i k hs
  unfold Cfg.slot at hs
  split at hs
  · apply Kind.codesB_ok
    have := h.2
    rw [hs] at this
    simpa using this
  · exact Kind.codesB_ok k (h.1 k (List.mem_of_getElem? hs))

/-- the guard, executable: no handler in a slot before `r` calls Next() more than once -/
def Cfg.nextOnceB (c : Cfg) (r : Nat) : Bool :=
  (List.range r).all (fun i => match c.slot i with
    | some (.plain p) => decide (p.acts.count Act.next ≤ 1)
    | _ => true)

theorem Cfg.nextOnceB_ok (c : Cfg) (r : Nat) (h : c.nextOnceB r = true) : NextOnceBefore c r := by
  simp only [Cfg.nextOnceB, List.all_eq_true, List.mem_range] at h
  intro i p hi hs
  have := h i hi
  rw [hs] at this
  simpa using this

theorem wok_init (c : Cfg) : WOK c.st0.w := by intro h; cases h

/-- the request as one extension of the initial state, with everything the C15 proofs need -/
theorem serve_contained {c : Cfg} {r : Nat} (hI : Installed c r) (hg : NextOnceBefore c r) :
    ∃ evs p, (serve c).trace = evs ++ escEv p ∧ AbortsOK r evs ∧ Balanced evs ∧
      (∀ v j, Ev.escaped v j ∉ evs) ∧ ∀ v j, p = some (v, j) → j < r := by
  obtain ⟨evs, st1, p, hr, hx, hb, ht, _, _⟩ := serve_ext c
  have k := contained_run hI.spec hI.codes hI.recAt hg c.fuel c.st0 (by show c.n + 1 - 0 ≤ c.n + 2; omega)
    (Nat.zero_le r) (wok_init c) st1 p hr
  obtain ⟨evs', ht', ho⟩ := k.evs
  have : evs' = evs := by
    have := hx.tr; rw [ht'] at this; exact List.append_cancel_left this
  subst this
  exact ⟨evs', p, ht, ho, hx.bal, serve_evs_no_escaped hr hx, k.origin⟩

/-- the request relative to the fresh state: statuses are sticky, every Recovery that caught
    something left `finStatus` and its body token -/
theorem serve_mono (c : Cfg) (hb : c.onceBug = false) (hc : c.codesOK (fun code => 100 ≤ code)) :
    ∀ r j s, Ev.recovered r j s ∈ (serve c).trace →
      (serve c).w.status = finStatus s ∧ (c.head = false → recTok c ∈ (serve c).out) := by
  obtain ⟨evs, st1, p, hr, hx, _, ht, hw, ho⟩ := serve_ext c
  have m := run_mono hb hc c.fuel c.st0 (wok_init c)
  rw [hr] at m
  intro r j s h
  rw [hw, ho]
  have hin : Ev.recovered r j s ∈ st1.trace := by
    rw [ht] at h
    rcases List.mem_append.mp h with h | h
    · rw [hx.tr]; simp [h]
    · rcases p with _ | ⟨v, k⟩
      · cases h
      · simp [escEv] at h
  rcases m.recd r j s hin with h0 | h0
  · cases h0
  · exact h0

