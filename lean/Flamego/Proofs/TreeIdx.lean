/-
  Proofs/TreeIdx.lean — the index-level matcher (`Model/TreeIdx`) never slices out of range and
  computes exactly what the segment-level matcher (`Model/Tree`) computes.

  The bridge between the two views of a request path: with `q = path[next:]`,
    * `splitSlash q = [s]`             ⇔  `strings.Index(q, "/") = -1`, and then `s = q`;
    * `splitSlash q = s :: s' :: rest` ⇔  `strings.Index(q, "/") = len(s)`, `q[:len(s)] = s`, and
                                           `splitSlash (path[next+len(s)+1:]) = s' :: rest`;
    * `strings.Count("/" ++ q, "/") = len(splitSlash q)`.
  The invariant of the search (`Cursor`): `next ≤ len(path)`; and where `matchSubtree`,
  `matchAllTree.matchAll` and `matchAllLeaf.matchAll` run (`CursorS`): additionally `1 ≤ next` and
  `path[next-1] = '/'`.
-/
import Flamego.Model.TreeIdx
namespace Flamego

/-! ### `strings.Index`, `strings.Count` against `splitSlash` -/

theorem indexSlash_no_slash (s : Bytes) (h : slash ∉ s) : indexSlash s = none := by
  induction s with
  | nil => rfl
  | cons c cs ih =>
    have hc : c ≠ slash := fun e => h (by simp [e])
    have hcs : slash ∉ cs := fun e => h (by simp [e])
    simp [indexSlash, hc, ih hcs]

theorem indexSlash_append_slash (s q : Bytes) (h : slash ∉ s) :
    indexSlash (s ++ slash :: q) = some s.length := by
  induction s with
  | nil => simp [indexSlash]
  | cons c cs ih =>
    have hc : c ≠ slash := fun e => h (by simp [e])
    have hcs : slash ∉ cs := fun e => h (by simp [e])
    simp [indexSlash, hc, ih hcs]

theorem indexSlash_none_iff (q : Bytes) : indexSlash q = none ↔ slash ∉ q := by
  induction q with
  | nil => simp [indexSlash]
  | cons c cs ih =>
    by_cases hc : c = slash
    · simp [indexSlash, hc]
    · have hc' : ¬ slash = c := fun e => hc e.symm
      simp [indexSlash, hc, hc', ih]

/-- `strings.Index(q, "/") = -1` exactly when `q` is a single segment -/
theorem indexSlash_none_iff_split (q : Bytes) : indexSlash q = none ↔ splitSlash q = [q] := by
  rw [indexSlash_none_iff]
  constructor
  · exact splitSlash_no_slash q
  · intro h; exact (splitSlash_singleton q q h).2

/-- `strings.Index(q, "/") = i`: the first segment is `q[:i]`, a '/' sits at `i`, and the other
    segments are those of `q[i+1:]` -/
theorem indexSlash_some_split (q : Bytes) (i : Nat) (h : indexSlash q = some i) :
    i < q.length ∧ q = q.take i ++ slash :: q.drop (i + 1) ∧ slash ∉ q.take i ∧
      splitSlash q = q.take i :: splitSlash (q.drop (i + 1)) := by
  have hlt := indexSlash_lt h
  cases hq : splitSlash q with
  | nil => exact absurd hq (splitSlash_ne_nil q)
  | cons s rest =>
    cases rest with
    | nil =>
      have := (indexSlash_none_iff_split q).2 (by rw [hq, (splitSlash_singleton q s hq).1])
      rw [this] at h; cases h
    | cons s' rest' =>
      obtain ⟨q', e1, e2, e3⟩ := splitSlash_cons_cons q s s' rest' hq
      subst e1
      rw [indexSlash_append_slash s q' e3] at h
      cases h
      refine ⟨hlt, ?_, ?_, ?_⟩
      · simp
      · simpa using e3
      · simp [e2]

/-- `strings.Count(q, "/") + 1 = len(strings.Split(q, "/"))` -/
theorem countSlash_succ (q : Bytes) : countSlash q + 1 = (splitSlash q).length := by
  induction q with
  | nil => simp [countSlash, splitSlash]
  | cons c cs ih =>
    rw [splitSlash, countSlash]
    by_cases hc : c = slash
    · simp [hc, ← ih]; omega
    · cases hcs : splitSlash cs with
      | nil => exact absurd hcs (splitSlash_ne_nil cs)
      | cons s ss => rw [hcs] at ih; simp [hc, ih]

/-! ### slice expressions that are in range -/

theorem sliceFrom_eq (p : Bytes) (a : Nat) (h : a ≤ p.length) : sliceFrom p a = .ok (p.drop a) := by
  simp [sliceFrom, h]

theorem sliceFrom_error_iff (p : Bytes) (a : Nat) :
    sliceFrom p a = .error .sliceBounds ↔ p.length < a := by
  unfold sliceFrom
  split
  · simp; omega
  · simp; omega

theorem slice_eq (p : Bytes) (a i : Nat) (h : a + i ≤ p.length) :
    slice p a (a + i) = .ok ((p.drop a).take i) := by
  have : (p.take (a + i)).drop a = (p.drop a).take i := by
    rw [List.drop_take]; simp
  simp [slice, h, this]

/-- `Cursor path next`: the cursor is inside the string (`path[next:]` is legal) -/
def Cursor (path : Bytes) (next : Nat) : Prop := next ≤ path.length

/-- `CursorS path next`: the cursor stands just behind a '/' (`path[next-1:]` is legal and starts
    with '/') -/
def CursorS (path : Bytes) (next : Nat) : Prop :=
  1 ≤ next ∧ next ≤ path.length ∧ path.drop (next - 1) = slash :: path.drop next

theorem CursorS.cursor {path : Bytes} {next : Nat} (h : CursorS path next) : Cursor path next := h.2.1

/-- `CursorS` says literally: `path[next-1] = '/'` -/
theorem CursorS.byte {path : Bytes} {next : Nat} (h : CursorS path next) :
    path[next - 1]? = some slash := by
  have := congrArg List.head? h.2.2
  simpa [List.head?_drop] using this

/-- … and conversely -/
theorem CursorS.of_byte {path : Bytes} {next : Nat} (h1 : 1 ≤ next) (h2 : next ≤ path.length)
    (h3 : path[next - 1]? = some slash) : CursorS path next := by
  refine ⟨h1, h2, ?_⟩
  obtain ⟨m, rfl⟩ : ∃ m, next = m + 1 := ⟨next - 1, by omega⟩
  simp only [Nat.add_sub_cancel] at h3 ⊢
  have hm : m < path.length := by omega
  rw [List.getElem?_eq_getElem hm] at h3
  have h4 : path[m] = slash := Option.some.inj h3
  rw [List.drop_eq_getElem_cons hm, h4]

theorem Cursor.zero (path : Bytes) : Cursor path 0 := Nat.zero_le _

/-- one step of the cursor: from `next` over a segment of length `i` and the '/' behind it -/
theorem Cursor.step {path : Bytes} {next i : Nat} (hc : Cursor path next)
    (hi : indexSlash (path.drop next) = some i) : CursorS path (next + i + 1) := by
  obtain ⟨hlt, e, _, _⟩ := indexSlash_some_split _ _ hi
  simp only [List.length_drop] at hlt
  unfold Cursor at hc
  refine ⟨by omega, by omega, ?_⟩
  have e2 := congrArg (List.drop i) e
  rw [List.drop_append_of_le_length (by simp; omega)] at e2
  simp only [List.drop_drop] at e2
  simp at e2
  have h1 : next + i + 1 - 1 = next + i := by omega
  rw [h1, e2, Nat.add_assoc]

/-! ### the bridge: `(path, next)` against the segment view `splitSlash (path[next:])` -/

/-- last segment: `strings.Index(path[next:], "/") = -1` and the segment is `path[next:]` -/
theorem cursor_split_singleton {path : Bytes} {next : Nat} {s : Bytes}
    (h : splitSlash (path.drop next) = [s]) :
    indexSlash (path.drop next) = none ∧ path.drop next = s := by
  obtain ⟨e, hns⟩ := splitSlash_singleton _ _ h
  exact ⟨indexSlash_no_slash _ hns, e.symm⟩

/-- a segment followed by more: `strings.Index(path[next:], "/") = len(s)`, `path[next:next+i] = s`,
    the cursor `next+i+1` stands behind a '/', and `path[next+i+1:]` splits into the rest -/
theorem cursor_split_cons_cons {path : Bytes} {next : Nat} {s s' : Bytes} {rest' : List Bytes}
    (hc : Cursor path next) (h : splitSlash (path.drop next) = s :: s' :: rest') :
    indexSlash (path.drop next) = some s.length ∧
    slice path next (next + s.length) = .ok s ∧
    CursorS path (next + s.length + 1) ∧
    splitSlash (path.drop (next + s.length + 1)) = s' :: rest' := by
  obtain ⟨q', e1, e2, e3⟩ := splitSlash_cons_cons _ s s' rest' h
  have hi : indexSlash (path.drop next) = some s.length := by
    rw [e1]; exact indexSlash_append_slash s q' e3
  have hlt := indexSlash_lt hi
  simp only [List.length_drop] at hlt
  unfold Cursor at hc
  refine ⟨hi, ?_, Cursor.step hc hi, ?_⟩
  · rw [slice_eq path next s.length (by omega), e1]
    simp
  · have : path.drop (next + s.length + 1) = (path.drop next).drop (s.length + 1) := by
      rw [List.drop_drop, Nat.add_assoc]
    rw [this, e1]
    simp [e2]

/-- the fall-back leaf (`matchAllLeaf.matchAll`): same answer, no slice out of range, provided the
    cursor stands behind a '/' -/
theorem matchAllLeafIdx_refines (hok : Nat → Bool) (leaves : List Leaf) (path s : Bytes) (next : Nat)
    (s' : Bytes) (rest' : List Bytes) (ps : Params)
    (hc : CursorS path next) (h : splitSlash (path.drop next) = s' :: rest') :
    matchAllLeafIdx hok leaves path s next ps = .ok (matchAllLeaf hok leaves s (s' :: rest') ps) := by
  obtain ⟨h1, h2, h3⟩ := hc
  unfold matchAllLeafIdx matchAllLeaf
  cases leaves.getLast? with
  | none => rfl
  | some l =>
    simp only
    cases l.pat with
    | «static» _ => rfl
    | hole _ => rfl
    | regex _ _ => rfl
    | all b cap =>
      simp only
      have hpred : sliceFromPred path next = .ok (slash :: path.drop next) := by
        obtain ⟨m, rfl⟩ : ∃ m, next = m + 1 := ⟨next - 1, by omega⟩
        simp only [sliceFromPred]
        rw [sliceFrom_eq _ _ (by omega)]
        simpa using h3
      have hcnt : countSlash (slash :: path.drop next) + 1 = (s' :: rest').length + 1 := by
        rw [← h, ← countSlash_succ]; simp [countSlash]; omega
      have hjoin : joinSlash (s :: s' :: rest') = s ++ slash :: path.drop next := by
        rw [joinSlash, ← h, joinSlash_splitSlash]
        simp
      rw [hpred, sliceFrom_eq _ _ h2, hjoin]
      generalize (s' :: rest').length = n at hcnt ⊢
      simp only [hcnt]
      by_cases hcap : cap > 0
      · by_cases hlt : cap < (n : Int) + 1
        · simp [hcap, hlt]
        · simp only [hcap, hlt, Int.natCast_add, Int.cast_ofNat_Int, ↓reduceIte, decide_true, decide_false,
            Bool.and_false, Bool.false_eq_true]
          cases hok l.hid <;> simp
      · simp only [hcap, ↓reduceIte, decide_false, Bool.false_and, Bool.false_eq_true]
        cases hok l.hid <;> simp

/-! ### refinement: the index-level search returns `.ok` of the segment-level search -/

/-- what is claimed of `matchNextSegment` at a legal cursor -/
def RefNext (E : Engine) (hok : Nat → Bool) (subs : List Node) (leaves : List Leaf)
    (s : Seg) (rest : List Seg) (ps : Params) : Prop :=
  ∀ (path : Bytes) (next : Nat), Cursor path next → splitSlash (path.drop next) = s :: rest →
    matchNextIdx E hok subs leaves path next ps = .ok (matchNext E hok subs leaves s rest ps)

/-- what is claimed of `matchSubtree` at a cursor behind a '/' -/
def RefSubs (E : Engine) (hok : Nat → Bool) (subs : List Node) (leaves : List Leaf)
    (s s' : Seg) (rest' : List Seg) (ps : Params) : Prop :=
  ∀ (path : Bytes) (next : Nat), CursorS path next → splitSlash (path.drop next) = s' :: rest' →
    matchSubsIdx E hok subs leaves path s next ps = .ok (matchSubs E hok subs leaves s s' rest' ps)

/-- what is claimed of `matchAllTree.matchAll` at a cursor behind a '/' -/
def RefLoop (E : Engine) (hok : Nat → Bool) (csubs : List Node) (cleaves : List Leaf) (b : Bytes)
    (cap : Int) (captured : Nat) (acc s' : Seg) (rest' : List Seg) (ps : Params) : Prop :=
  ∀ (path : Bytes) (next : Nat), CursorS path next → splitSlash (path.drop next) = s' :: rest' →
    matchAllLoopIdx E hok csubs cleaves b cap captured path acc next ps =
      .ok (matchAllLoop E hok csubs cleaves b cap captured acc s' rest' ps)

theorem matchIdx_refines_all (E : Engine) (hok : Nat → Bool) :
    (∀ subs leaves s rest ps, RefNext E hok subs leaves s rest ps) ∧
    (∀ subs leaves s s' rest' ps, RefSubs E hok subs leaves s s' rest' ps) ∧
    (∀ csubs cleaves b cap captured acc s' rest' ps,
      RefLoop E hok csubs cleaves b cap captured acc s' rest' ps) := by
  apply matchNext.mutual_induct E hok (RefNext E hok) (RefSubs E hok) (RefLoop E hok)
  -- matchNextSegment, last segment
  · intro subs leaves s ps path next hc h
    obtain ⟨hi, e⟩ := cursor_split_singleton h
    subst e
    rw [matchNextIdx, matchNext, sliceFrom_eq _ _ hc]
    simp only [hi, matchLeavesIdx]
  -- matchNextSegment, a segment with more behind it
  · intro subs leaves s ps s' rest' ih path next hc h
    obtain ⟨hi, hsl, hc', h'⟩ := cursor_split_cons_cons hc h
    rw [matchNextIdx, matchNext, sliceFrom_eq _ _ hc]
    simp only [hi, hsl]
    exact ih path _ hc' h'
  -- matchSubtree, no subtree left
  · intro leaves s s' rest' ps path next hc h
    rw [matchSubsIdx, matchSubs]
    exact matchAllLeafIdx_refines hok leaves path s next s' rest' ps hc h
  -- matchSubtree, match-all subtree, hit
  · intro leaves s s' rest' ps key csubs cleaves more b cap l ps' hm ih path next hc h
    rw [matchSubsIdx, matchSubs]
    simp only [ih path next hc h, hm]
  -- matchSubtree, match-all subtree, miss: break
  · intro leaves s s' rest' ps key csubs cleaves more b cap ps' hm ih path next hc h
    rw [matchSubsIdx, matchSubs]
    simp only [ih path next hc h, hm]
    exact matchAllLeafIdx_refines hok leaves path s next s' rest' ps' hc h
  -- matchSubtree, the subtree does not match the segment: continue
  · intro leaves s s' rest' ps key cpat csubs cleaves more hm hna ih path next hc h
    rw [matchSubsIdx, matchSubs]
    · simp only [hm]; exact ih path next hc h
    · exact hna
    · exact hna
  -- matchSubtree, the subtree matches and the search below it hits
  · intro leaves s s' rest' ps key cpat csubs cleaves more ps1 hm l ps' hn hna ih path next hc h
    rw [matchSubsIdx, matchSubs]
    · simp only [hm, ih path next hc.cursor h, hn]
    · exact hna
    · exact hna
  -- matchSubtree, the subtree matches and the search below it misses: continue
  · intro leaves s s' rest' ps key cpat csubs cleaves more ps1 hm ps' hn hna ih ih2 path next hc h
    rw [matchSubsIdx, matchSubs]
    · simp only [hm, ih path next hc.cursor h, hn]; exact ih2 path next hc h
    · exact hna
    · exact hna
  -- matchAll, children hit
  · intro csubs cleaves b cap captured acc s' rest' ps hcond l ps' hn ih path next hc h
    rw [matchAllLoopIdx, matchAllLoop]
    simp only [hcond, ↓reduceIte, ih path next hc.cursor h, hn]
  -- matchAll, children miss, last segment: break
  · intro csubs cleaves b cap captured acc s' ps hcond ps' hn ih path next hc h
    obtain ⟨hi, e⟩ := cursor_split_singleton h
    rw [matchAllLoopIdx, matchAllLoop]
    simp only [hcond, ↓reduceIte, ih path next hc.cursor h, hn]
    split
    · rename_i e1 hs; rw [sliceFrom_eq _ _ hc.cursor] at hs; cases hs
    · rename_i tail hs
      rw [sliceFrom_eq _ _ hc.cursor] at hs
      cases hs
      split
      · rfl
      · rename_i i hi2; rw [hi] at hi2; cases hi2
  -- matchAll, children miss, swallow one more segment
  · intro csubs cleaves b cap captured acc s' ps hcond ps' s'' rest'' hn ih ih2 path next hc h
    obtain ⟨hi, hsl, hc', h'⟩ := cursor_split_cons_cons hc.cursor h
    rw [matchAllLoopIdx, matchAllLoop]
    simp only [hcond, ↓reduceIte, ih path next hc.cursor h, hn]
    split
    · rename_i e1 hs; rw [sliceFrom_eq _ _ hc.cursor] at hs; cases hs
    · rename_i tail hs
      rw [sliceFrom_eq _ _ hc.cursor] at hs
      cases hs
      split
      · rename_i hi2; rw [hi] at hi2; cases hi2
      · rename_i i hi2
        rw [hi] at hi2
        cases hi2
        simp only [hsl]
        exact ih2 path _ hc' h'
  -- matchAll, capture limit reached
  · intro csubs cleaves b cap captured acc s' rest' ps hcond path next hc h
    rw [matchAllLoopIdx, matchAllLoop]
    simp only [hcond]
    rfl

theorem matchNextIdx_refines (E : Engine) (hok : Nat → Bool) (subs : List Node) (leaves : List Leaf)
    (path : Bytes) (next : Nat) (s : Seg) (rest : List Seg) (ps : Params)
    (hc : Cursor path next) (h : splitSlash (path.drop next) = s :: rest) :
    matchNextIdx E hok subs leaves path next ps = .ok (matchNext E hok subs leaves s rest ps) :=
  (matchIdx_refines_all E hok).1 subs leaves s rest ps path next hc h

theorem matchSubsIdx_refines (E : Engine) (hok : Nat → Bool) (subs : List Node) (leaves : List Leaf)
    (path s : Bytes) (next : Nat) (s' : Seg) (rest' : List Seg) (ps : Params)
    (hc : CursorS path next) (h : splitSlash (path.drop next) = s' :: rest') :
    matchSubsIdx E hok subs leaves path s next ps = .ok (matchSubs E hok subs leaves s s' rest' ps) :=
  (matchIdx_refines_all E hok).2.1 subs leaves s s' rest' ps path next hc h

theorem matchAllLoopIdx_refines (E : Engine) (hok : Nat → Bool) (csubs : List Node) (cleaves : List Leaf)
    (b : Bytes) (cap : Int) (captured : Nat) (path acc : Bytes) (next : Nat) (s' : Seg)
    (rest' : List Seg) (ps : Params)
    (hc : CursorS path next) (h : splitSlash (path.drop next) = s' :: rest') :
    matchAllLoopIdx E hok csubs cleaves b cap captured path acc next ps =
      .ok (matchAllLoop E hok csubs cleaves b cap captured acc s' rest' ps) :=
  (matchIdx_refines_all E hok).2.2 csubs cleaves b cap captured acc s' rest' ps path next hc h

/-- `Tree.Match` at the index level = `.ok` of `Tree.Match` at the segment level: every tree, every
    byte string -/
theorem Node.matchIdx_eq (E : Engine) (hok : Nat → Bool) (t : Node) (path : Bytes) :
    t.matchIdx E hok path = .ok (t.match E hok path) := by
  unfold Node.matchIdx Node.match
  cases hsp : splitSlash (trimLeftSlash path) with
  | nil => exact absurd hsp (splitSlash_ne_nil _)
  | cons s rest =>
    simp only
    rw [matchNextIdx_refines E hok t.subs t.leaves (trimLeftSlash path) 0 s rest []
      (Cursor.zero _) (by simpa using hsp)]
    rcases matchNext E hok t.subs t.leaves s rest [] with ⟨_ | l, ps⟩ <;> rfl

theorem Router.serveTreeOnlyIdx_eq (E : Engine) (R : Router) (req : Request) :
    R.serveTreeOnlyIdx E req = .ok (R.serveTreeOnly E req) := by
  unfold Router.serveTreeOnlyIdx Router.serveTreeOnly
  cases assocGet R.trees req.method with
  | none => rfl
  | some t =>
    simp only [Node.matchIdx_eq]
    rcases t.match E (R.hok E req.hdrs) req.path with _ | ⟨l, ps⟩ <;> rfl

theorem Router.serveIdx_eq (E : Engine) (R : Router) (req : Request) :
    R.serveIdx E req = .ok (R.serve E req) := by
  unfold Router.serveIdx Router.serve
  cases assocGet R.statics (req.method, req.path) with
  | some leaf => rfl
  | none => exact Router.serveTreeOnlyIdx_eq E R req

/-! ### the invariant, directly (no reference to the segment model)

  Induction over the call structure of the index-level functions themselves: every case of
  `matchNextIdx.mutual_induct` is one call site of tree.go; the induction hypothesis for a callee is
  only available after its precondition (`Cursor` / `CursorS` at the callee's `next`) has been
  established from the caller's.  So: at every call `next ≤ len(path)`, and wherever `path[next-1:]`
  can be taken, `1 ≤ next` and `path[next-1] = '/'`. -/

def Safe (r : MatchRes) : Prop := ∀ e, r ≠ .error e

theorem Safe.ok (x : Option Leaf × Params) : Safe (.ok x) := by intro e h; cases h

/-- `matchAllLeaf.matchAll`: `path[next-1:]` and `path[next:]` are in range behind a '/' -/
theorem matchAllLeafIdx_safe (hok : Nat → Bool) (leaves : List Leaf) (path segment : Bytes)
    (next : Nat) (ps : Params) (hc : CursorS path next) :
    Safe (matchAllLeafIdx hok leaves path segment next ps) := by
  obtain ⟨h1, h2, _⟩ := hc
  obtain ⟨m, rfl⟩ : ∃ m, next = m + 1 := ⟨next - 1, by omega⟩
  unfold matchAllLeafIdx
  cases leaves.getLast? with
  | none => exact Safe.ok _
  | some l =>
    simp only
    cases l.pat with
    | «static» _ => exact Safe.ok _
    | hole _ => exact Safe.ok _
    | regex _ _ => exact Safe.ok _
    | all b cap =>
      simp only [sliceFromPred, sliceFrom_eq path m (by omega), sliceFrom_eq path (m + 1) h2]
      intro e
      by_cases hcap : cap > 0 <;> simp only [hcap, ↓reduceIte]
      · cases decide (cap < ((countSlash (List.drop m path) + 1 : Nat) : Int)) <;> simp only [] <;>
          (try split) <;> simp
      · split <;> simp

theorem matchIdx_safe_all (E : Engine) (hok : Nat → Bool) (path : Bytes) :
    (∀ subs leaves next ps, Cursor path next → Safe (matchNextIdx E hok subs leaves path next ps)) ∧
    (∀ subs leaves segment next ps, CursorS path next →
      Safe (matchSubsIdx E hok subs leaves path segment next ps)) ∧
    (∀ csubs cleaves b cap captured segment next ps, CursorS path next →
      Safe (matchAllLoopIdx E hok csubs cleaves b cap captured path segment next ps)) := by
  apply matchNextIdx.mutual_induct E hok path
    (fun subs leaves next ps => Cursor path next → Safe (matchNextIdx E hok subs leaves path next ps))
    (fun subs leaves segment next ps => CursorS path next →
      Safe (matchSubsIdx E hok subs leaves path segment next ps))
    (fun csubs cleaves b cap captured segment next ps => CursorS path next →
      Safe (matchAllLoopIdx E hok csubs cleaves b cap captured path segment next ps))
  -- matchNextSegment: `path[next:]` (twice) and `path[next:next+i]` are in range
  · intro subs leaves next ps e hs hc
    rw [sliceFrom_eq _ _ hc] at hs; cases hs
  · intro subs leaves next ps tail _ _ e hs hc
    rw [sliceFrom_eq _ _ hc] at hs; cases hs
  · intro subs leaves next ps tail hs hi tail2 hs2 hc
    rw [matchNextIdx]; simp only [hs, hi, matchLeavesIdx]; exact Safe.ok _
  · intro subs leaves next ps tail hs i hi e hsl hc
    obtain ⟨_, rfl⟩ := sliceFrom_ok hs
    have := indexSlash_lt hi
    simp only [List.length_drop] at this
    rw [slice_eq _ _ _ (by unfold Cursor at hc; omega)] at hsl; cases hsl
  · intro subs leaves next ps tail hs i hi seg hsl ih hc
    obtain ⟨_, rfl⟩ := sliceFrom_ok hs
    rw [matchNextIdx]; simp only [hs, hi, hsl]
    exact ih (Cursor.step hc hi)          -- callee `matchSubtree` at `next+i+1`: behind a '/'
  -- matchSubtree
  · intro leaves segment next ps hc
    rw [matchSubsIdx]; exact matchAllLeafIdx_safe hok leaves path segment next ps hc
  · intro leaves segment next ps key csubs cleaves more b cap e hm ih hc
    exact absurd hm (ih hc e)
  · intro leaves segment next ps key csubs cleaves more b cap l ps' hm ih hc
    rw [matchSubsIdx]; simp only [hm]; exact Safe.ok _
  · intro leaves segment next ps key csubs cleaves more b cap ps' hm ih hc
    rw [matchSubsIdx]; simp only [hm]
    exact matchAllLeafIdx_safe hok leaves path segment next ps' hc
  · intro leaves segment next ps key cpat csubs cleaves more hm hna ih hc
    rw [matchSubsIdx]
    · simp only [hm]; exact ih hc
    · exact hna
  · intro leaves segment next ps key cpat csubs cleaves more ps1 hm e hn hna ih hc
    exact absurd hn (ih hc.cursor e)
  · intro leaves segment next ps key cpat csubs cleaves more ps1 hm l ps' hn hna ih hc
    rw [matchSubsIdx]
    · simp only [hm, hn]; exact Safe.ok _
    · exact hna
  · intro leaves segment next ps key cpat csubs cleaves more ps1 hm ps' hn hna ih ih2 hc
    rw [matchSubsIdx]
    · simp only [hm, hn]; exact ih2 hc
    · exact hna
  -- matchAllTree.matchAll
  · intro csubs cleaves b cap captured segment next ps hcond e hn ih hc
    exact absurd hn (ih hc.cursor e)
  · intro csubs cleaves b cap captured segment next ps hcond l ps' hn ih hc
    rw [matchAllLoopIdx]; simp only [hcond, ↓reduceIte, hn]; exact Safe.ok _
  · intro csubs cleaves b cap captured segment next ps hcond ps' hn e hs ih hc
    rw [sliceFrom_eq _ _ hc.cursor] at hs; cases hs
  · intro csubs cleaves b cap captured segment next ps hcond ps' hn tail hs hi ih hc
    rw [matchAllLoopIdx]; simp only [hcond, ↓reduceIte, hn]
    split
    · rename_i e1 hs'; rw [hs] at hs'; cases hs'
    · rename_i t hs'; rw [hs] at hs'; cases hs'
      split
      · exact Safe.ok _
      · rename_i j hj; rw [hi] at hj; cases hj
  · intro csubs cleaves b cap captured segment next ps hcond ps' hn tail hs i hi e hsl ih hc
    obtain ⟨_, rfl⟩ := sliceFrom_ok hs
    have := indexSlash_lt hi
    simp only [List.length_drop] at this
    rw [slice_eq _ _ _ (by have := hc.cursor; unfold Cursor at this; omega)] at hsl; cases hsl
  · intro csubs cleaves b cap captured segment next ps hcond ps' hn tail hs i hi seg hsl ih ih2 hc
    obtain ⟨_, rfl⟩ := sliceFrom_ok hs
    rw [matchAllLoopIdx]; simp only [hcond, ↓reduceIte, hn]
    split
    · rename_i e1 hs'; rw [hs] at hs'; cases hs'
    · rename_i t hs'; rw [hs] at hs'; cases hs'
      split
      · rename_i hj; rw [hi] at hj; cases hj
      · rename_i j hj; rw [hi] at hj; cases hj
        simp only [hsl]
        exact ih2 (Cursor.step hc.cursor hi)   -- next iteration at `next+i+1`: behind a '/'
  · intro csubs cleaves b cap captured segment next ps hcond hc
    rw [matchAllLoopIdx]; simp only [hcond]; exact Safe.ok _

end Flamego
