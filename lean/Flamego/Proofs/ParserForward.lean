/-
  Proofs/ParserForward.lean — the token list of a well-formed AST parses back to that AST
  (token-level half of `parse_complete`), plus the unfolding equations of the parser's loops.
-/
import Flamego.Proofs.LexerForward
namespace Flamego
namespace RouteParser
open RouteGrammar

/-! ### unfolding the loops -/

theorem pMore_nil : pMore [] = ([], []) := by rw [pMore]

theorem pMore_not_comma {c : Token} {ts : List Token} (hc : c.val ≠ cComma) :
    pMore (c :: ts) = ([], c :: ts) := by
  rw [pMore]; simp [hc]

theorem pMore_comma_none {c : Token} {ts : List Token} (hc : c.val = cComma)
    (h : pParam (skipBlanks ts) = none) : pMore (c :: ts) = ([], c :: ts) := by
  rw [pMore]; simp only [hc, if_true]; split
  · rename_i h2; rw [h] at h2; cases h2
  · rfl

theorem pMore_comma_some {c : Token} {ts : List Token} {p : BindParam} {rest : List Token}
    (hc : c.val = cComma) (h : pParam (skipBlanks ts) = some (p, rest)) :
    pMore (c :: ts) = (p :: (pMore rest).1, (pMore rest).2) := by
  rw [pMore]; simp only [hc, if_true]; split
  · rename_i p' rest' h2; rw [h] at h2; cases h2; rfl
  · rename_i h2; rw [h] at h2; cases h2

theorem pParamsLoop_none {ts : List Token} (h : pParam ts = none) : pParamsLoop ts = ([], ts) := by
  rw [pParamsLoop]; split
  · rfl
  · rename_i h2; rw [h] at h2; cases h2

theorem pParamsLoop_some {ts : List Token} {p : BindParam} {rest : List Token}
    (h : pParam ts = some (p, rest)) :
    pParamsLoop ts = (p :: (pMore rest).1 ++ (pParamsLoop (pMore rest).2).1, (pParamsLoop (pMore rest).2).2) := by
  rw [pParamsLoop]; split
  · rename_i h2; rw [h] at h2; cases h2
  · rename_i p' rest' h2; rw [h] at h2; cases h2; rfl

theorem pElems_none {ts : List Token} (h : pElem ts = none) : pElems ts = ([], ts) := by
  rw [pElems]; split
  · rfl
  · rename_i h2; rw [h] at h2; cases h2

theorem pElems_some {ts : List Token} {e : Elem} {rest : List Token} (h : pElem ts = some (e, rest)) :
    pElems ts = (e :: (pElems rest).1, (pElems rest).2) := by
  rw [pElems]; split
  · rename_i h2; rw [h] at h2; cases h2
  · rename_i e' rest' h2; rw [h] at h2; cases h2; rfl

theorem pSegments_none {ts : List Token} (h : pSegment ts = none) : pSegments ts = ([], ts) := by
  rw [pSegments]; split
  · rfl
  · rename_i h2; rw [h] at h2; cases h2

theorem pSegments_some {ts : List Token} {s : Segment} {rest : List Token} (h : pSegment ts = some (s, rest)) :
    pSegments ts = (s :: (pSegments rest).1, (pSegments rest).2) := by
  rw [pSegments]; split
  · rename_i h2; rw [h] at h2; cases h2
  · rename_i s' rest' h2; rw [h] at h2; cases h2; rfl

/-! ### parsing the tokens of a well-formed AST -/

theorem identText_ne_blank {w : Bytes} (h : IdentText w) : w ≠ cBlank := by
  intro he; subst he
  have := h.2 32 (by simp [cBlank])
  revert this; decide

/-- the first token after the blanks is not a blank -/
def NoBlankStart (ts : List Token) : Prop := ∀ t tl, ts = t :: tl → t.val ≠ cBlank

theorem skipBlanks_toksBlanks (n : Nat) (rest : List Token) (hr : NoBlankStart rest) :
    skipBlanks (toksBlanks n ++ rest) = rest := by
  induction n with
  | zero =>
    simp only [toksBlanks, List.replicate_zero, List.nil_append]
    cases rest with
    | nil => rfl
    | cons t tl => simp [skipBlanks, hr t tl rfl]
  | succ n ih =>
    simp only [toksBlanks, List.replicate_succ, List.cons_append] at ih ⊢
    simp [skipBlanks, tBlank, cBlank]
    simpa [tBlank] using ih

theorem noBlankStart_val (v : BindVal) (hv : WFVal v) (rest : List Token) : NoBlankStart (toksVal v ++ rest) := by
  intro t tl h
  cases v with
  | lit s => simp [toksVal] at h; rw [← h.1]; exact identText_ne_blank hv
  | re s => simp [toksVal] at h; rw [← h.1]; decide

theorem pValue_toks (v : BindVal) (rest : List Token) : pValue (toksVal v ++ rest) = some (v, rest) := by
  cases v with
  | lit s => simp [toksVal, pValue]
  | re s => simp [toksVal, pValue, cSlash]

theorem pParam_toks (k : Nat) (p : BindParam) (hp : WFParam p) (rest : List Token) :
    pParam (toksParam k p ++ rest) = some (p, rest) := by
  have h := skipBlanks_toksBlanks k (toksVal p.val ++ rest) (noBlankStart_val p.val hp.2 rest)
  simp only [toksParam, List.cons_append, List.nil_append, List.append_assoc, pParam]
  simp [cColon, h, pValue_toks]

/-- the token that follows is not a `,` -/
def NoCommaStart (ts : List Token) : Prop := ∀ t tl, ts = t :: tl → t.val ≠ cComma

theorem noBlankStart_param (k : Nat) (p : BindParam) (hp : WFParam p) (rest : List Token) :
    NoBlankStart (toksParam k p ++ rest) := by
  intro t tl h
  simp [toksParam] at h; rw [← h.1]; exact identText_ne_blank hp.1

theorem pMore_toks (sp : ElemSp) (ps : List BindParam) (hps : ∀ p ∈ ps, WFParam p) (rest : List Token)
    (hr : NoCommaStart rest) : pMore (toksMore sp ps ++ rest) = (ps, rest) := by
  induction ps generalizing sp with
  | nil =>
    simp only [toksMore, List.nil_append]
    cases rest with
    | nil => exact pMore_nil
    | cons t tl => exact pMore_not_comma (hr t tl rfl)
  | cons p ps ih =>
    have hp : WFParam p := hps p (by simp)
    have h1 : toksMore sp (p :: ps) ++ rest =
        ⟨"BindParameterEnd", [44]⟩ :: (toksBlanks (spHead sp).1 ++ (toksParam (spHead sp).2 p ++ (toksMore sp.tail ps ++ rest))) := by
      simp [toksMore]
    have h2 : pParam (skipBlanks (toksBlanks (spHead sp).1 ++ (toksParam (spHead sp).2 p ++ (toksMore sp.tail ps ++ rest)))) =
        some (p, toksMore sp.tail ps ++ rest) := by
      rw [skipBlanks_toksBlanks _ _ (noBlankStart_param _ p hp _), pParam_toks _ p hp]
    rw [h1, pMore_comma_some (by decide) h2, ih _ (fun q hq => hps q (by simp [hq]))]

theorem pParam_not_ident {t : Token} (tl : List Token) (h : t.name ≠ "Ident") : pParam (t :: tl) = none := by
  cases tl with
  | nil => simp [pParam]
  | cons c tl => simp [pParam, h]

/-- a whole parameter list, followed by its closing brace -/
theorem pParamsLoop_toks (sp : ElemSp) (p : BindParam) (ps : List BindParam) (hps : ∀ q ∈ p :: ps, WFParam q)
    (rest : List Token) :
    pParamsLoop (toksParams sp (p :: ps) ++ ⟨"BindParameterEnd", [125]⟩ :: rest) =
      (p :: ps, ⟨"BindParameterEnd", [125]⟩ :: rest) := by
  have h1 : toksParams sp (p :: ps) ++ ⟨"BindParameterEnd", [125]⟩ :: rest =
      toksParam (spHead sp).2 p ++ (toksMore sp.tail ps ++ ⟨"BindParameterEnd", [125]⟩ :: rest) := by
    simp [toksParams]
  have hm := pMore_toks sp.tail ps (fun q hq => hps q (by simp [hq])) (⟨"BindParameterEnd", [125]⟩ :: rest)
    (by intro t tl h; cases h; decide)
  rw [h1, pParamsLoop_some (pParam_toks _ p (hps p (by simp)) _), hm]
  simp only
  rw [pParamsLoop_none (pParam_not_ident _ (by decide))]
  simp

theorem pElem_toks (sp : ElemSp) (e : Elem) (he : WFElem e) (rest : List Token) :
    pElem (toksElem sp e ++ rest) = some (e, rest) := by
  cases e with
  | ident s => simp [toksElem, pElem]
  | bind n => simp [toksElem, pElem, cLBrace, pBindIdent, cRBrace]
  | params ps =>
    cases ps with
    | nil => exact absurd rfl he.1
    | cons p ps =>
      have h1 : toksElem sp (.params (p :: ps)) ++ rest =
          ⟨"Bind", [123]⟩ :: (toksParams sp (p :: ps) ++ ⟨"BindParameterEnd", [125]⟩ :: rest) := by
        simp [toksElem]
      have hb : pBindIdent (toksParams sp (p :: ps) ++ ⟨"BindParameterEnd", [125]⟩ :: rest) = none := by
        simp [toksParams, toksParam, pBindIdent, cRBrace]
      rw [h1]
      simp only [pElem]
      rw [hb]
      simp [cLBrace, pBindParams, pParamsLoop_toks sp p ps he.2 rest, cRBrace]

/-- the token that follows the elements starts no element -/
def NoElemStart (ts : List Token) : Prop := ∀ t tl, ts = t :: tl → t.name ≠ "Ident" ∧ t.val ≠ cLBrace

theorem pElem_noElemStart (rest : List Token) (hr : NoElemStart rest) : pElem rest = none := by
  cases rest with
  | nil => rfl
  | cons t tl => have := hr t tl rfl; simp [pElem, this.1, this.2]

theorem pElems_toks (sp : SegSp) (es : List Elem) (hes : ∀ e ∈ es, WFElem e) (rest : List Token)
    (hr : NoElemStart rest) : pElems (toksElems sp es ++ rest) = (es, rest) := by
  induction es generalizing sp with
  | nil => simp only [toksElems, List.nil_append]; exact pElems_none (pElem_noElemStart rest hr)
  | cons e es ih =>
    have h1 : toksElems sp (e :: es) ++ rest = toksElem (sp.headD []) e ++ (toksElems sp.tail es ++ rest) := by
      simp [toksElems]
    rw [h1, pElems_some (pElem_toks _ e (hes e (by simp)) _), ih _ (fun x hx => hes x (by simp [hx]))]

/-- what follows a segment: nothing, or the `/` token of the next segment -/
def SegBoundary (ts : List Token) : Prop := ∀ t tl, ts = t :: tl → t = ⟨"Segment", [47]⟩

theorem SegBoundary.noElemStart {ts : List Token} (h : SegBoundary ts) : NoElemStart ts := by
  intro t tl he; rw [h t tl he]; decide

theorem segBoundary_segs (sp : Spacing) (ss : List Segment) : SegBoundary (toksSegs sp ss) := by
  intro t tl h
  cases ss with
  | nil => cases h
  | cons s ss => simp [toksSegs, toksSeg] at h; exact h.1.symm

theorem pOptional_false (ts : List Token) (h : ∀ q tl, ts = q :: tl → q.val ≠ cQMark) :
    pOptional ts = (false, ts) := by
  cases ts with
  | nil => rfl
  | cons q tl => simp [pOptional, h q tl rfl]

theorem identText_ne_qmark {w : Bytes} (h : IdentText w) : w ≠ cQMark := by
  intro he; subst he
  have := h.2 63 (by simp [cQMark])
  revert this; decide

theorem noQStart_elems (sp : SegSp) (es : List Elem) (hes : ∀ e ∈ es, WFElem e) (rest : List Token)
    (hr : SegBoundary rest) : ∀ q tl, toksElems sp es ++ rest = q :: tl → q.val ≠ cQMark := by
  intro q tl h
  cases es with
  | nil =>
    simp only [toksElems, List.nil_append] at h
    rw [hr q tl h]; decide
  | cons e es =>
    have he := hes e (by simp)
    cases e with
    | ident s => simp [toksElems, toksElem] at h; rw [← h.1]; exact identText_ne_qmark he
    | bind n => simp [toksElems, toksElem] at h; rw [← h.1]; decide
    | params ps => simp [toksElems, toksElem] at h; rw [← h.1]; decide

theorem pSegment_toks (sp : SegSp) (s : Segment) (hs : WFSeg s) (rest : List Token) (hr : SegBoundary rest) :
    pSegment (toksSeg sp s ++ rest) = some (s, rest) := by
  obtain ⟨o, es⟩ := s
  cases o with
  | false =>
    have hopt := pOptional_false _ (noQStart_elems sp es hs.1 rest hr)
    simp [toksSeg, pSegment, cSlash, hopt, pElems_toks sp es hs.1 rest hr.noElemStart]
  | true =>
    simp [toksSeg, pSegment, cSlash, pOptional, cQMark, pElems_toks sp es hs.1 rest hr.noElemStart]

theorem pSegments_toks (sp : Spacing) (ss : List Segment) (hss : ∀ s ∈ ss, WFSeg s) :
    pSegments (toksSegs sp ss) = (ss, []) := by
  induction ss generalizing sp with
  | nil => simp only [toksSegs]; exact pSegments_none rfl
  | cons s ss ih =>
    simp only [toksSegs]
    rw [pSegments_some (pSegment_toks _ s (hss s (by simp)) _ (segBoundary_segs _ _)),
      ih _ (fun x hx => hss x (by simp [hx]))]

/-- token-level completeness: the tokens of a well-formed route parse to it -/
theorem parseTokens_toks (sp : Spacing) (r : Route) (h : WF r) :
    parseTokens (toksSegs sp r.segs) = some r := by
  obtain ⟨segs⟩ := r
  cases segs with
  | nil => exact absurd rfl h.1
  | cons s ss => simp [parseTokens, pSegments_toks sp (s :: ss) h.2]

end RouteParser
end Flamego
