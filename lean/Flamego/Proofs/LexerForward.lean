/-
  Proofs/LexerForward.lean — the rendering of a well-formed AST (any spacing) lexes to the
  token list `toksSegs` (forward half of the lexer correspondence used by `parse_complete`).

  State stack along the way (top first): a segment's `/` pushes `Segment`; `{name}` pushes `Bind`
  and its `}` pops it; in `{a: v, b: w}` the `:` pushes `BindParameter`, `,` pops it, the final `}`
  pops `BindParameter` only — so after a parameter list the lexer is left in `Bind`, which lexes
  identifiers, `{` and `/` exactly like `Segment` (`SegLike`); `stackAfter` records this.
-/
import Flamego.Proofs.Lexer
namespace Flamego
namespace RouteGrammar

/-! ### the tokens of an AST -/

def tBlank : Token := ⟨"Whitespace", [32]⟩
def toksBlanks (n : Nat) : List Token := List.replicate n tBlank

def toksVal : BindVal → List Token
  | .lit s => [⟨"Ident", s⟩]
  | .re s => [⟨"BindParameterRegexValue", [47]⟩, ⟨"Regex", s⟩, ⟨"RegexEnd", [47]⟩]

def toksParam (k : Nat) (p : BindParam) : List Token :=
  [⟨"Ident", p.ident⟩, ⟨"BindParameter", [58]⟩] ++ toksBlanks k ++ toksVal p.val

def toksMore : ElemSp → List BindParam → List Token
  | _, [] => []
  | sp, p :: ps =>
    [⟨"BindParameterEnd", [44]⟩] ++ toksBlanks (spHead sp).1 ++ toksParam (spHead sp).2 p ++ toksMore sp.tail ps

def toksParams (sp : ElemSp) : List BindParam → List Token
  | [] => []
  | p :: ps => toksParam (spHead sp).2 p ++ toksMore sp.tail ps

def toksElem (sp : ElemSp) : Elem → List Token
  | .ident s => [⟨"Ident", s⟩]
  | .bind n => [⟨"Bind", [123]⟩, ⟨"Ident", n⟩, ⟨"BindEnd", [125]⟩]
  | .params ps => [⟨"Bind", [123]⟩] ++ toksParams sp ps ++ [⟨"BindParameterEnd", [125]⟩]

def toksElems : SegSp → List Elem → List Token
  | _, [] => []
  | sp, e :: es => toksElem (sp.headD []) e ++ toksElems sp.tail es

def toksSeg (sp : SegSp) (s : Segment) : List Token :=
  [⟨"Segment", [47]⟩] ++ (if s.optional then [⟨"Optional", [63]⟩] else []) ++ toksElems sp s.elems

def toksSegs : Spacing → List Segment → List Token
  | _, [] => []
  | sp, s :: ss => toksSeg (sp.headD []) s ++ toksSegs sp.tail ss

/-! ### lexing the pieces -/

theorem lex_blanks {S : String} (hS : CommonState S) (stk : List String) (n : Nat) (rest : Bytes) :
    lexFrom docRules (S :: stk) (blanks n ++ rest) =
      consToks (toksBlanks n) (lexFrom docRules (S :: stk) rest) := by
  induction n with
  | zero => simp [blanks, toksBlanks]
  | succ n ih =>
    have : blanks (n + 1) ++ rest = 32 :: (blanks n ++ rest) := by simp [blanks, List.replicate_succ]
    rw [this, lex_blank hS, ih]
    simp [toksBlanks, List.replicate_succ, tBlank]

/-- a value, lexed in `BindParameter` state; what follows is `,` or `}` -/
theorem lex_val (v : BindVal) (hv : WFVal v) (stk : List String) (rest : Bytes) (hr : NoIdentStart rest) :
    lexFrom docRules ("BindParameter" :: stk) (v.render ++ rest) =
      consToks (toksVal v) (lexFrom docRules ("BindParameter" :: stk) rest) := by
  cases v with
  | lit s =>
    simp only [BindVal.render, toksVal, consToks_cons, consToks_nil]
    exact lex_ident (Or.inr (Or.inr rfl)) stk s rest hv hr
  | re s =>
    simp only [BindVal.render, B_slash, toksVal, consToks_cons, consToks_nil]
    have : [47] ++ s ++ [47] ++ rest = 47 :: (s ++ 47 :: rest) := by simp
    rw [this, lex_regex_open, lex_regex _ s rest hv, lex_regex_close]

theorem noIdentStart_44 (cs : Bytes) : NoIdentStart (44 :: cs) := noIdentStart_cons cs (by decide)
theorem noIdentStart_125 (cs : Bytes) : NoIdentStart (125 :: cs) := noIdentStart_cons cs (by decide)
theorem noIdentStart_123 (cs : Bytes) : NoIdentStart (123 :: cs) := noIdentStart_cons cs (by decide)
theorem noIdentStart_47 (cs : Bytes) : NoIdentStart (47 :: cs) := noIdentStart_cons cs (by decide)

/-- one parameter `ident ':' ' '^k value`, lexed from `Bind` state; leaves `BindParameter` on top -/
theorem lex_param (k : Nat) (p : BindParam) (hp : WFParam p) (stk : List String) (rest : Bytes)
    (hr : NoIdentStart rest) :
    lexFrom docRules ("Bind" :: stk) (renderParamW k p ++ rest) =
      consToks (toksParam k p) (lexFrom docRules ("BindParameter" :: "Bind" :: stk) rest) := by
  have h1 : renderParamW k p ++ rest = p.ident ++ (58 :: (blanks k ++ (p.val.render ++ rest))) := by
    simp [renderParamW, renderValW_eq]
  rw [h1, lex_ident (Or.inr (Or.inl rfl)) stk p.ident _ hp.1 (noIdentStart_cons _ (by decide)),
    lex_colon, lex_blanks (Or.inr (Or.inr rfl)), lex_val p.val hp.2 _ rest hr]
  simp [toksParam, consToks_append]

theorem noIdentStart_more (sp : ElemSp) (ps : List BindParam) (rest : Bytes) (hr : NoIdentStart rest) :
    NoIdentStart (renderMoreW sp ps ++ rest) := by
  cases ps with
  | nil => simpa [renderMoreW] using hr
  | cons p ps => simp only [renderMoreW, List.append_assoc, List.cons_append, List.nil_append]; exact noIdentStart_44 _

/-- `( ',' ' '^j param )*`, lexed from `BindParameter` state (on top of `Bind`) -/
theorem lex_more (sp : ElemSp) (ps : List BindParam) (hps : ∀ p ∈ ps, WFParam p) (stk : List String)
    (rest : Bytes) (hr : NoIdentStart rest) :
    lexFrom docRules ("BindParameter" :: "Bind" :: stk) (renderMoreW sp ps ++ rest) =
      consToks (toksMore sp ps) (lexFrom docRules ("BindParameter" :: "Bind" :: stk) rest) := by
  induction ps generalizing sp with
  | nil => simp [renderMoreW, toksMore]
  | cons p ps ih =>
    have hp : WFParam p := hps p (by simp)
    have h1 : renderMoreW sp (p :: ps) ++ rest =
        44 :: (blanks (spHead sp).1 ++ (renderParamW (spHead sp).2 p ++ (renderMoreW sp.tail ps ++ rest))) := by
      simp [renderMoreW]
    rw [h1, lex_comma, lex_blanks (Or.inr (Or.inl rfl)),
      lex_param _ p hp stk _ (noIdentStart_more _ _ _ hr),
      ih _ (fun q hq => hps q (by simp [hq]))]
    simp [toksMore, consToks_append]

theorem lex_params (sp : ElemSp) (p : BindParam) (ps : List BindParam) (hps : ∀ q ∈ p :: ps, WFParam q)
    (stk : List String) (rest : Bytes) (hr : NoIdentStart rest) :
    lexFrom docRules ("Bind" :: stk) (renderParamsW sp (p :: ps) ++ rest) =
      consToks (toksParams sp (p :: ps)) (lexFrom docRules ("BindParameter" :: "Bind" :: stk) rest) := by
  have h1 : renderParamsW sp (p :: ps) ++ rest =
      renderParamW (spHead sp).2 p ++ (renderMoreW sp.tail ps ++ rest) := by simp [renderParamsW]
  rw [h1, lex_param _ p (hps p (by simp)) stk _ (noIdentStart_more _ _ _ hr),
    lex_more _ ps (fun q hq => hps q (by simp [hq])) stk rest hr]
  simp [toksParams, consToks_append]

/-- the state stack after an element: a parameter list leaves `Bind` behind -/
def stackAfterElem : Elem → List String → List String
  | .params _, st => "Bind" :: st
  | _, st => st

def stackAfter : List Elem → List String → List String
  | [], st => st
  | e :: es, st => stackAfter es (stackAfterElem e st)

theorem stackAfterElem_segLike (e : Elem) {S : String} (hS : SegLike S) (stk : List String) :
    ∃ S' stk', stackAfterElem e (S :: stk) = S' :: stk' ∧ SegLike S' := by
  cases e with
  | ident s => exact ⟨S, stk, rfl, hS⟩
  | bind n => exact ⟨S, stk, rfl, hS⟩
  | params ps => exact ⟨"Bind", S :: stk, rfl, Or.inr rfl⟩

theorem stackAfter_segLike (es : List Elem) {S : String} (hS : SegLike S) (stk : List String) :
    ∃ S' stk', stackAfter es (S :: stk) = S' :: stk' ∧ SegLike S' := by
  induction es generalizing S stk with
  | nil => exact ⟨S, stk, rfl, hS⟩
  | cons e es ih =>
    obtain ⟨S1, stk1, h1, hS1⟩ := stackAfterElem_segLike e hS stk
    simp only [stackAfter, h1]
    exact ih hS1 stk1

/-- one element, lexed between the elements of a segment -/
theorem lex_elem (sp : ElemSp) (e : Elem) (he : WFElem e) {S : String} (hS : SegLike S) (stk : List String)
    (rest : Bytes) (hr : isIdentElem e = true → NoIdentStart rest) :
    lexFrom docRules (S :: stk) (renderElemW sp e ++ rest) =
      consToks (toksElem sp e) (lexFrom docRules (stackAfterElem e (S :: stk)) rest) := by
  cases e with
  | ident s =>
    simp only [renderElemW, toksElem, stackAfterElem, consToks_cons, consToks_nil]
    exact lex_ident hS.common stk s rest he (hr rfl)
  | bind n =>
    have h1 : renderElemW sp (.bind n) ++ rest = 123 :: (n ++ 125 :: rest) := by simp [renderElemW]
    rw [h1, lex_lbrace hS, lex_ident (Or.inr (Or.inl rfl)) _ n _ he (noIdentStart_125 _), lex_rbrace_bind]
    simp [toksElem, stackAfterElem]
  | params ps =>
    cases ps with
    | nil => exact absurd rfl he.1
    | cons p ps =>
      have h1 : renderElemW sp (.params (p :: ps)) ++ rest =
          123 :: (renderParamsW sp (p :: ps) ++ 125 :: rest) := by simp [renderElemW]
      rw [h1, lex_lbrace hS, lex_params sp p ps he.2 _ _ (noIdentStart_125 _), lex_rbrace_param]
      simp [toksElem, stackAfterElem, consToks_append]

theorem noIdentStart_elems (sp : SegSp) (es : List Elem) (rest : Bytes) (hr : NoIdentStart rest)
    (hhd : ∀ e es', es = e :: es' → isIdentElem e = false) :
    NoIdentStart (renderElemsW sp es ++ rest) := by
  cases es with
  | nil => simpa [renderElemsW] using hr
  | cons e es' =>
    have := hhd e es' rfl
    cases e with
    | ident s => simp [isIdentElem] at this
    | bind n => simp only [renderElemsW, renderElemW, List.append_assoc, List.cons_append, List.nil_append]; exact noIdentStart_123 _
    | params ps =>
      cases ps with
      | nil => simp only [renderElemsW, renderElemW, List.cons_append]; exact noIdentStart_cons _ (by decide)
      | cons p ps => simp only [renderElemsW, renderElemW, List.append_assoc, List.cons_append, List.nil_append]; exact noIdentStart_123 _

/-- the elements of a segment -/
theorem lex_elems (sp : SegSp) (es : List Elem) (hwf : ∀ e ∈ es, WFElem e) (hadj : noAdjIdent es = true)
    {S : String} (hS : SegLike S) (stk : List String) (rest : Bytes) (hr : NoIdentStart rest) :
    lexFrom docRules (S :: stk) (renderElemsW sp es ++ rest) =
      consToks (toksElems sp es) (lexFrom docRules (stackAfter es (S :: stk)) rest) := by
  induction es generalizing sp S stk with
  | nil => simp [renderElemsW, toksElems, stackAfter]
  | cons e es ih =>
    have he : WFElem e := hwf e (by simp)
    have hadj' : noAdjIdent es = true := by
      cases es with
      | nil => rfl
      | cons e2 es2 => simp [noAdjIdent] at hadj; exact hadj.2
    have hnext : isIdentElem e = true → NoIdentStart (renderElemsW sp.tail es ++ rest) := by
      intro hie
      apply noIdentStart_elems _ _ _ hr
      intro e2 es2 heq
      subst heq
      simp [noAdjIdent, hie] at hadj
      exact hadj.1
    obtain ⟨S1, stk1, h1, hS1⟩ := stackAfterElem_segLike e hS stk
    have h0 : renderElemsW sp (e :: es) ++ rest =
        renderElemW (sp.headD []) e ++ (renderElemsW sp.tail es ++ rest) := by simp [renderElemsW]
    rw [h0, lex_elem _ e he hS stk _ hnext, h1, ih _ (fun x hx => hwf x (by simp [hx])) hadj' hS1]
    simp [toksElems, stackAfter, h1, consToks_append]

/-- a segment, lexed where a `/` starts one; the next thing is another `/` or the end -/
theorem lex_seg (sp : SegSp) (s : Segment) (hs : WFSeg s) {S : String} (hS : SlashState S) (stk : List String)
    (rest : Bytes) (hr : NoIdentStart rest) :
    lexFrom docRules (S :: stk) (renderSegW sp s ++ rest) =
      consToks (toksSeg sp s) (lexFrom docRules (stackAfter s.elems ("Segment" :: S :: stk)) rest) := by
  have hseg : SegLike "Segment" := Or.inl rfl
  cases ho : s.optional with
  | false =>
    have h0 : renderSegW sp s ++ rest = 47 :: (renderElemsW sp s.elems ++ rest) := by simp [renderSegW, ho]
    rw [h0, lex_slash hS, lex_elems sp s.elems hs.1 hs.2 hseg _ rest hr]
    simp [toksSeg, ho]
  | true =>
    have h0 : renderSegW sp s ++ rest = 47 :: 63 :: (renderElemsW sp s.elems ++ rest) := by simp [renderSegW, ho]
    rw [h0, lex_slash hS, lex_qmark, lex_elems sp s.elems hs.1 hs.2 hseg _ rest hr]
    simp [toksSeg, ho]

theorem noIdentStart_segs (sp : Spacing) (ss : List Segment) : NoIdentStart (renderSegsW sp ss) := by
  cases ss with
  | nil => exact noIdentStart_nil
  | cons s ss => simp only [renderSegsW, renderSegW, List.append_assoc, List.cons_append, List.nil_append]; exact noIdentStart_47 _

/-- all segments of a route: the whole input lexes, to `toksSegs` -/
theorem lex_segs (sp : Spacing) (ss : List Segment) (hss : ∀ s ∈ ss, WFSeg s) {S : String} (hS : SlashState S)
    (stk : List String) :
    lexFrom docRules (S :: stk) (renderSegsW sp ss) = .ok (toksSegs sp ss) := by
  induction ss generalizing sp S stk with
  | nil => simp [renderSegsW, toksSegs, lexFrom_nil]
  | cons s ss ih =>
    obtain ⟨S1, stk1, h1, hS1⟩ := stackAfter_segLike s.elems (Or.inl rfl : SegLike "Segment") (S :: stk)
    simp only [renderSegsW, toksSegs]
    rw [lex_seg _ s (hss s (by simp)) hS stk _ (noIdentStart_segs _ _), h1,
      ih _ (fun x hx => hss x (by simp [hx])) hS1.slash, consToks_ok]

end RouteGrammar
end Flamego
