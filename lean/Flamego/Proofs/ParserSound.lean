/-
  Proofs/ParserSound.lean — token-level half of `parse_sound`: when the recursive descent accepts
  a token list the route lexer can produce, the AST is well formed and the token values spell
  `renderWith sp` of it for some spacing `sp` (read off the blank tokens that were skipped).
-/
import Flamego.Proofs.LexerRun
import Flamego.Proofs.ParserForward
namespace Flamego
namespace RouteParser
open RouteGrammar

/-- the lexer guarantees the parser proofs use, in a form that passes to suffixes -/
structure TokListOK (ts : List Token) : Prop where
  tok_ok : ∀ t ∈ ts, TokOK t
  no_adj : NoAdjIdentInfix ts
  no_colon : NoColonAfterRegex ts

theorem TokListOK.suffix {pre rest : List Token} (h : TokListOK (pre ++ rest)) : TokListOK rest := by
  refine ⟨fun t ht => h.tok_ok t (by simp [ht]), ?_, ?_⟩
  · intro p a b post he
    exact h.no_adj (pre ++ p) a b post (by simp [he])
  · intro p r e i c post he
    exact h.no_colon (pre ++ p) r e i c post (by simp [he])

theorem vals_append (a b : List Token) : vals (a ++ b) = vals a ++ vals b := by simp [vals]
theorem vals_cons (t : Token) (ts : List Token) : vals (t :: ts) = t.val ++ vals ts := by simp [vals]
theorem vals_nil : vals [] = [] := rfl

/-- how the tokens of a parameter value end: an `Ident` token, or `Regex` and the closing slash -/
def EndsValue (pre : List Token) : Prop :=
  (∃ pre' t, pre = pre' ++ [t] ∧ t.name = "Ident") ∨ (∃ pre' r e, pre = pre' ++ [r, e] ∧ r.name = "Regex")

theorem EndsValue.append (a : List Token) {b : List Token} (h : EndsValue b) : EndsValue (a ++ b) := by
  rcases h with ⟨p, t, rfl, ht⟩ | ⟨p, r, e, rfl, hr⟩
  · exact Or.inl ⟨a ++ p, t, by simp, ht⟩
  · exact Or.inr ⟨a ++ p, r, e, by simp, hr⟩

theorem skipBlanks_sound (ts : List Token) :
    ∃ pre n, ts = pre ++ skipBlanks ts ∧ vals pre = blanks n := by
  induction ts with
  | nil => exact ⟨[], 0, rfl, rfl⟩
  | cons t ts ih =>
    unfold skipBlanks
    split
    · rename_i hb
      obtain ⟨pre, n, h1, h2⟩ := ih
      refine ⟨t :: pre, n + 1, by simp [← h1], ?_⟩
      rw [vals_cons, h2, hb]; simp [blanks, cBlank, List.replicate_succ]
    · exact ⟨[], 0, rfl, rfl⟩

theorem pValue_sound {ts : List Token} {v : BindVal} {rest : List Token} (h : pValue ts = some (v, rest)) :
    ∃ pre, ts = pre ++ rest ∧ vals pre = v.render ∧ EndsValue pre ∧ ((∀ t ∈ pre, TokOK t) → WFVal v) := by
  unfold pValue at h
  split at h
  · simp at h
  · rename_i t ts'
    split at h
    · rename_i hn
      simp at h; obtain ⟨rfl, rfl⟩ := h
      refine ⟨[t], rfl, by simp [vals, BindVal.render], Or.inl ⟨[], t, rfl, hn⟩, ?_⟩
      intro hok; exact (hok t (by simp)).1 hn
    · split at h
      · rename_i hs
        split at h
        · rename_i r e rest'
          split at h
          · rename_i hre
            simp at h; obtain ⟨rfl, rfl⟩ := h
            refine ⟨[t, r, e], rfl, ?_, Or.inr ⟨[t], r, e, rfl, hre.1⟩, ?_⟩
            · simp [vals, BindVal.render, B_slash, hs, hre.2, cSlash]
            · intro hok; exact (hok r (by simp)).2 hre.1
          · simp at h
        · simp at h
      · simp at h

theorem pParam_sound {ts : List Token} {p : BindParam} {rest : List Token} (h : pParam ts = some (p, rest)) :
    ∃ pre k, ts = pre ++ rest ∧ vals pre = renderParamW k p ∧ EndsValue pre ∧
      ((∀ t ∈ pre, TokOK t) → WFParam p) := by
  match ts, h with
  | [], h => simp [pParam] at h
  | [_], h => simp [pParam] at h
  | i :: c :: ts', h =>
    simp only [pParam] at h
    split at h
    · rename_i hic
      split at h
      · rename_i v rest' hv
        simp at h; obtain ⟨rfl, rfl⟩ := h
        obtain ⟨preB, k, hb1, hb2⟩ := skipBlanks_sound ts'
        obtain ⟨preV, hv1, hv2, hv3, hv4⟩ := pValue_sound hv
        refine ⟨i :: c :: (preB ++ preV), k, ?_, ?_, ?_, ?_⟩
        · rw [hv1] at hb1; simp [hb1]
        · simp [vals_cons, vals_append, hb2, hv2, renderParamW, hic.2, cColon, renderValW_eq]
        · exact EndsValue.append (i :: c :: preB) hv3
        · intro hok
          exact ⟨(hok i (by simp)).1 hic.1, hv4 (fun t ht => hok t (by simp [ht]))⟩
      · simp at h
    · simp at h

theorem pParam_some_shape {ts : List Token} {p : BindParam} {rest : List Token}
    (h : pParam ts = some (p, rest)) : ∃ i c tl, ts = i :: c :: tl ∧ i.name = "Ident" ∧ c.val = [58] := by
  match ts, h with
  | [], h => simp [pParam] at h
  | [_], h => simp [pParam] at h
  | i :: c :: ts', h =>
    simp only [pParam] at h
    split at h
    · rename_i hic; exact ⟨i, c, ts', rfl, hic.1, hic.2⟩
    · simp at h

theorem renderMoreW_cons (j k : Nat) (sp : ElemSp) (p : BindParam) (ps : List BindParam) :
    renderMoreW ((j, k) :: sp) (p :: ps) = [44] ++ blanks j ++ renderParamW k p ++ renderMoreW sp ps := by
  simp [renderMoreW, spHead]

theorem pMore_sound (ts : List Token) : ∀ ps rest, pMore ts = (ps, rest) →
    ∃ pre sp, ts = pre ++ rest ∧ vals pre = renderMoreW sp ps ∧ (ps ≠ [] → EndsValue pre) ∧
      (ps = [] → pre = []) ∧ ((∀ t ∈ pre, TokOK t) → ∀ p ∈ ps, WFParam p) := by
  fun_induction pMore ts with
  | case1 =>
    intro ps rest h; cases h
    exact ⟨[], [], rfl, rfl, by simp, by simp, by simp⟩
  | case2 c ts' hc p rest1 hp hlt r ih =>
    intro ps rest h
    have hps : ps = p :: (pMore rest1).1 := (Prod.mk.inj h).1.symm
    have hrest : rest = (pMore rest1).2 := (Prod.mk.inj h).2.symm
    obtain ⟨preM, spM, hm1, hm2, hm3, hm4, hm5⟩ := ih (pMore rest1).1 (pMore rest1).2 rfl
    obtain ⟨preB, j, hb1, hb2⟩ := skipBlanks_sound ts'
    obtain ⟨preP, k, hp1, hp2, hp3, hp4⟩ := pParam_sound hp
    subst hps hrest
    refine ⟨c :: (preB ++ preP ++ preM), (j, k) :: spM, ?_, ?_, ?_, by simp, ?_⟩
    · rw [hp1, hm1] at hb1; simp [hb1]
    · rw [renderMoreW_cons, vals_cons, vals_append, vals_append, hb2, hp2, hm2, hc]; simp [cComma]
    · intro _
      by_cases hnil : (pMore rest1).1 = []
      · rw [hm4 hnil, List.append_nil]
        exact EndsValue.append (c :: preB) hp3
      · have := EndsValue.append (c :: (preB ++ preP)) (hm3 hnil)
        simpa using this
    · intro hok q hq
      simp only [List.mem_cons] at hq
      rcases hq with rfl | hq
      · exact hp4 (fun t ht => hok t (by simp [ht]))
      · exact hm5 (fun t ht => hok t (by simp [ht])) q hq
  | case3 c ts' hc hp =>
    intro ps rest h; cases h
    exact ⟨[], [], rfl, rfl, by simp, by simp, by simp⟩
  | case4 c ts' hc =>
    intro ps rest h; cases h
    exact ⟨[], [], rfl, rfl, by simp, by simp, by simp⟩

/-- the `+` loop of BindParameters iterates at most once on lexer output: after a complete
    parameter (and its `, …` followers) no `Ident ':'` can follow -/
theorem pParam_after_value {pre rest : List Token} (hok : TokListOK (pre ++ rest)) (hend : EndsValue pre) :
    pParam rest = none := by
  cases hp : pParam rest with
  | none => rfl
  | some pr =>
    obtain ⟨p, rest'⟩ := pr
    obtain ⟨i, c, tl, rfl, hi, hc⟩ := pParam_some_shape hp
    rcases hend with ⟨pre', t, rfl, ht⟩ | ⟨pre', r, e, rfl, hr⟩
    · exact absurd hi (hok.no_adj pre' t i (c :: tl) (by simp) ht)
    · exact absurd hc (hok.no_colon pre' r e i c tl (by simp) hr hi)

theorem pParamsLoop_sound {ts : List Token} (hok : TokListOK ts) {ps : List BindParam} {rest : List Token}
    (h : pParamsLoop ts = (ps, rest)) :
    (ps = [] ∧ rest = ts) ∨
    (∃ p ps' pre sp, ps = p :: ps' ∧ ts = pre ++ rest ∧ vals pre = renderParamsW sp (p :: ps') ∧
      ∀ q ∈ ps, WFParam q) := by
  cases hp : pParam ts with
  | none => rw [pParamsLoop_none hp] at h; cases h; exact Or.inl ⟨rfl, rfl⟩
  | some pr =>
    obtain ⟨p, rest1⟩ := pr
    rw [pParamsLoop_some hp] at h
    obtain ⟨preP, k, hp1, hp2, hp3, hp4⟩ := pParam_sound hp
    obtain ⟨preM, spM, hm1, hm2, hm3, hm4, hm5⟩ := pMore_sound rest1 _ _ rfl
    have hts : ts = (preP ++ preM) ++ (pMore rest1).2 := by rw [hp1, List.append_assoc, ← hm1]
    have hend : EndsValue (preP ++ preM) := by
      by_cases hnil : (pMore rest1).1 = []
      · rw [hm4 hnil, List.append_nil]; exact hp3
      · exact EndsValue.append preP (hm3 hnil)
    have hnone := pParam_after_value (hts ▸ hok) hend
    rw [pParamsLoop_none hnone] at h
    simp only [List.append_nil] at h
    cases h
    refine Or.inr ⟨p, (pMore rest1).1, preP ++ preM, (0, k) :: spM, rfl, hts, ?_, ?_⟩
    · simp [renderParamsW, spHead, vals_append, hp2, hm2]
    · intro q hq
      have htok : ∀ t ∈ preP ++ preM, TokOK t := fun t ht => hok.tok_ok t (by rw [hts]; exact List.mem_append_left _ ht)
      simp only [List.mem_cons] at hq
      rcases hq with rfl | hq
      · exact hp4 (fun t ht => htok t (by simp [ht]))
      · exact hm5 (fun t ht => htok t (by simp [ht])) q hq

theorem pElem_sound {ts : List Token} (hok : TokListOK ts) {e : Elem} {rest : List Token}
    (h : pElem ts = some (e, rest)) :
    ∃ pre sp, ts = pre ++ rest ∧ vals pre = renderElemW sp e ∧ WFElem e ∧
      (isIdentElem e = true → ∃ t, ts = t :: rest ∧ t.name = "Ident") := by
  unfold pElem at h
  split at h
  · simp at h
  · rename_i t ts'
    split at h
    · rename_i hn
      simp at h; obtain ⟨rfl, rfl⟩ := h
      exact ⟨[t], [], rfl, by simp [vals, renderElemW], (hok.tok_ok t (by simp)).1 hn, fun _ => ⟨t, rfl, hn⟩⟩
    · split at h
      · rename_i hb
        split at h
        · rename_i r hbi
          cases h
          unfold pBindIdent at hbi
          split at hbi
          · rename_i n e' rest'
            split at hbi
            · rename_i hne
              simp at hbi; obtain ⟨rfl, rfl⟩ := hbi
              refine ⟨[t, n, e'], [], rfl, ?_, (hok.tok_ok n (by simp)).1 hne.1, by simp [isIdentElem]⟩
              simp [vals, renderElemW, hb, hne.2, cLBrace, cRBrace]
            · simp at hbi
          · simp at hbi
        · unfold pBindParams at h
          split at h
          · simp at h
          · simp at h
          · rename_i p ps e' rest' hpl
            split at h
            · rename_i hbr
              simp at h; obtain ⟨rfl, rfl⟩ := h
              have hok' : TokListOK ts' := TokListOK.suffix (pre := [t]) hok
              rcases pParamsLoop_sound hok' hpl with ⟨hnil, _⟩ | ⟨p', ps', pre, sp, hps, hts, hv, hwf⟩
              · cases hnil
              · cases hps
                refine ⟨t :: (pre ++ [e']), sp, by simp [hts], ?_, ⟨by simp, hwf⟩, by simp [isIdentElem]⟩
                simp [vals_cons, vals_append, vals_nil, renderElemW, hb, hbr, hv, cLBrace, cRBrace]
            · simp at h
      · simp at h

theorem pElems_sound (ts : List Token) : TokListOK ts → ∀ es rest, pElems ts = (es, rest) →
    ∃ pre sp, ts = pre ++ rest ∧ vals pre = renderElemsW sp es ∧ (∀ e ∈ es, WFElem e) ∧
      noAdjIdent es = true ∧
      (∀ e es', es = e :: es' → isIdentElem e = true → ∃ t tl, ts = t :: tl ∧ t.name = "Ident") := by
  fun_induction pElems ts with
  | case1 ts hnone =>
    intro _ es rest h; cases h
    exact ⟨[], [], rfl, rfl, by simp, rfl, by intro e es' h; cases h⟩
  | case2 ts e rest1 hsome hlt r ih =>
    intro hok es rest h
    have hes : es = e :: (pElems rest1).1 := (Prod.mk.inj h).1.symm
    have hrest : rest = (pElems rest1).2 := (Prod.mk.inj h).2.symm
    subst hes hrest
    obtain ⟨preE, spE, he1, he2, he3, he4⟩ := pElem_sound hok hsome
    have hok1 : TokListOK rest1 := TokListOK.suffix (he1 ▸ hok)
    obtain ⟨preR, spR, hr1, hr2, hr3, hr4, hr5⟩ := ih hok1 _ _ rfl
    refine ⟨preE ++ preR, spE :: spR, ?_, ?_, ?_, ?_, ?_⟩
    · rw [List.append_assoc, ← hr1, ← he1]
    · simp [renderElemsW, vals_append, he2, hr2]
    · intro x hx
      simp only [List.mem_cons] at hx
      rcases hx with rfl | hx
      · exact he3
      · exact hr3 x hx
    · cases hes' : (pElems rest1).1 with
      | nil => rfl
      | cons e2 es2 =>
        rw [hes'] at hr4
        simp only [noAdjIdent, hr4, Bool.and_true, Bool.not_eq_true', Bool.and_eq_false_imp]
        intro hie
        cases hie2 : isIdentElem e2 with
        | false => rfl
        | true =>
          obtain ⟨t, hts, ht⟩ := he4 hie
          obtain ⟨t2, tl2, hts2, ht2⟩ := hr5 e2 es2 hes' hie2
          exact absurd ht2 (hok.no_adj [] t t2 tl2 (by rw [hts, hts2]; rfl) ht)
    · intro e' es' heq hie
      cases heq
      obtain ⟨t, hts, ht⟩ := he4 hie
      exact ⟨t, rest1, hts, ht⟩

theorem pOptional_sound (ts : List Token) :
    ∃ pre, ts = pre ++ (pOptional ts).2 ∧ vals pre = (if (pOptional ts).1 then [63] else []) := by
  unfold pOptional
  split
  · exact ⟨[], rfl, rfl⟩
  · rename_i q tl
    split
    · rename_i hq; exact ⟨[q], rfl, by simp [vals, hq, cQMark]⟩
    · exact ⟨[], rfl, rfl⟩

theorem pSegment_sound {ts : List Token} (hok : TokListOK ts) {s : Segment} {rest : List Token}
    (h : pSegment ts = some (s, rest)) :
    ∃ pre sp, ts = pre ++ rest ∧ vals pre = renderSegW sp s ∧ WFSeg s := by
  unfold pSegment at h
  split at h
  · simp at h
  · rename_i t ts'
    split at h
    · rename_i hsl
      simp only [Option.some.injEq, Prod.mk.injEq] at h
      obtain ⟨rfl, rfl⟩ := h
      obtain ⟨preO, ho1, ho2⟩ := pOptional_sound ts'
      have hok1 : TokListOK (pOptional ts').2 := by
        have : TokListOK (([t] ++ preO) ++ (pOptional ts').2) := by
          rw [List.append_assoc, ← ho1]; exact hok
        exact this.suffix
      obtain ⟨preE, spE, he1, he2, he3, he4, _⟩ := pElems_sound _ hok1 _ _ rfl
      refine ⟨t :: (preO ++ preE), spE, ?_, ?_, ⟨he3, he4⟩⟩
      · rw [List.cons_append, List.append_assoc, ← he1, ← ho1]
      · simp [renderSegW, vals_cons, vals_append, hsl, ho2, he2, cSlash]
    · simp at h

theorem pSegments_sound (ts : List Token) : TokListOK ts → ∀ ss rest, pSegments ts = (ss, rest) →
    ∃ pre sp, ts = pre ++ rest ∧ vals pre = renderSegsW sp ss ∧ ∀ s ∈ ss, WFSeg s := by
  fun_induction pSegments ts with
  | case1 ts hnone =>
    intro _ ss rest h; cases h
    exact ⟨[], [], rfl, rfl, by simp⟩
  | case2 ts s rest1 hsome hlt r ih =>
    intro hok ss rest h
    have hss : ss = s :: (pSegments rest1).1 := (Prod.mk.inj h).1.symm
    have hrest : rest = (pSegments rest1).2 := (Prod.mk.inj h).2.symm
    subst hss hrest
    obtain ⟨preS, spS, hs1, hs2, hs3⟩ := pSegment_sound hok hsome
    have hok1 : TokListOK rest1 := TokListOK.suffix (hs1 ▸ hok)
    obtain ⟨preR, spR, hr1, hr2, hr3⟩ := ih hok1 _ _ rfl
    refine ⟨preS ++ preR, spS :: spR, ?_, ?_, ?_⟩
    · rw [List.append_assoc, ← hr1, ← hs1]
    · simp [renderSegsW, vals_append, hs2, hr2]
    · intro x hx
      simp only [List.mem_cons] at hx
      rcases hx with rfl | hx
      · exact hs3
      · exact hr3 x hx

/-- token-level soundness: an accepted token list of the lexer spells a rendering of a
    well-formed route -/
theorem parseTokens_sound {ts : List Token} (hok : TokListOK ts) {r : Route}
    (h : parseTokens ts = some r) : WF r ∧ ∃ sp, vals ts = renderWith sp r := by
  unfold parseTokens at h
  split at h
  · rename_i s ss hps
    cases h
    obtain ⟨pre, sp, h1, h2, h3⟩ := pSegments_sound ts hok _ _ hps
    rw [List.append_nil] at h1
    subst h1
    exact ⟨⟨by simp, h3⟩, sp, h2⟩
  · simp at h

end RouteParser
end Flamego
