/-
  Proofs/Lexer.lean — lemmas about the table-driven lexer (`Model/Lexer.lean`) run on the rule
  table of parser.go.

  * `docRules` (Spec/RouteGrammar.lean): the rule table written out over the documented classes;
    `Props/C06.lean` proves `Gen.lexRules = docRules`, everything here is about `lexFrom docRules`.
  * here: the single-step equations of the lexer on that table (one per token kind and state).
  * Proofs/LexerForward.lean (`lex_segs`): the rendering of a well-formed AST lexes to its tokens.
  * Proofs/LexerSound.lean (`lexFrom_sound`, `lexFrom_run`, `lexFrom_no_panic`) and
    Proofs/LexerRun.lean (`lexedOK_of_lex`): what every successful run guarantees.
-/
import Flamego.Model.Parser
import Flamego.Proofs.Syntax
namespace Flamego
namespace RouteGrammar
open Gen

/-! ### generic facts -/

/-- tokens in front of a lexing result -/
def consToks (ts : List Token) (res : Except LexErr (List Token)) : Except LexErr (List Token) :=
  ts.foldr consTok res

@[simp] theorem consToks_nil (res) : consToks [] res = res := rfl
@[simp] theorem consToks_cons (t ts res) : consToks (t :: ts) res = consTok t (consToks ts res) := rfl
theorem consToks_append (a b res) : consToks (a ++ b) res = consToks a (consToks b res) := by
  simp [consToks, List.foldr_append]
theorem consToks_ok (ts us : List Token) : consToks ts (.ok us) = .ok (ts ++ us) := by
  induction ts with
  | nil => rfl
  | cons t ts ih => simp [ih, consTok]

theorem lexFrom_step {rules : LexRules} {top : String} {stk : List String} {c : UInt8} {cs : Bytes}
    {r : LexRule} (h : firstMatch (rulesOf rules top) c = some r) (he : r.elide = false) :
    lexFrom rules (top :: stk) (c :: cs) =
      consTok ⟨r.name, c :: munchTake r cs⟩
        (lexFrom rules (applyAction r.action (top :: stk)) (munchDrop r cs)) := by
  rw [lexFrom]
  simp [h, he]

theorem lexFrom_nil (rules : LexRules) (top : String) (stk : List String) :
    lexFrom rules (top :: stk) [] = .ok [] := by
  rw [lexFrom]

/-- the next byte (if any) is not an identifier byte -/
def NoIdentStart (bs : Bytes) : Prop := ∀ c cs, bs = c :: cs → c ∉ identBytes

theorem noIdentStart_nil : NoIdentStart [] := by intro c cs h; cases h
theorem noIdentStart_cons {c : UInt8} (cs : Bytes) (h : c ∉ identBytes) : NoIdentStart (c :: cs) := by
  intro c' cs' he; cases he; exact h

theorem takeWhile_class (set : List UInt8) (w rest : Bytes) (hw : ∀ c ∈ w, c ∈ set)
    (hr : ∀ c cs, rest = c :: cs → c ∉ set) :
    (w ++ rest).takeWhile (fun b => decide (b ∈ set)) = w ∧
    (w ++ rest).dropWhile (fun b => decide (b ∈ set)) = rest := by
  induction w with
  | nil =>
    cases rest with
    | nil => simp
    | cons c cs =>
      have := hr c cs rfl
      simp [this]
  | cons a w ih =>
    have ha : a ∈ set := hw a (by simp)
    have := ih (fun c hc => hw c (by simp [hc]))
    simp [ha, this]

/-! ### single steps on the documented table -/

/-- the states that include `Common` -/
def CommonState (S : String) : Prop := S = "Segment" ∨ S = "Bind" ∨ S = "BindParameter"

theorem firstMatch_ident {S : String} (hS : CommonState S) {c : UInt8} (hc : c ∈ identBytes) :
    firstMatch (rulesOf docRules S) c = some rIdent := by
  have hc' : c ∈ rIdent.bytes := hc
  rcases hS with rfl | rfl | rfl <;> simp [rulesOf, docRules, List.lookup, firstMatch, hc']

/-- an identifier, in any state that includes `Common`, when no identifier byte follows it -/
theorem lex_ident {S : String} (hS : CommonState S) (stk : List String) (w rest : Bytes)
    (hw : IdentText w) (hr : NoIdentStart rest) :
    lexFrom docRules (S :: stk) (w ++ rest) =
      consTok ⟨"Ident", w⟩ (lexFrom docRules (S :: stk) rest) := by
  obtain ⟨hne, hall⟩ := hw
  cases w with
  | nil => exact absurd rfl hne
  | cons c w =>
    have hc : c ∈ identBytes := hall c (by simp)
    have htd := takeWhile_class identBytes w rest (fun x hx => hall x (by simp [hx])) hr
    rw [List.cons_append, lexFrom_step (firstMatch_ident hS hc) rfl]
    show consTok ⟨"Ident", c :: (w ++ rest).takeWhile (fun b => decide (b ∈ identBytes))⟩
      (lexFrom docRules (S :: stk) ((w ++ rest).dropWhile (fun b => decide (b ∈ identBytes)))) = _
    rw [htd.1, htd.2]

/-- regex text, in `BindParameterRegexValue` state, when no regex byte follows it -/
theorem lex_regex' (stk : List String) (w rest : Bytes) (hw : RegexText w)
    (hr : ∀ c cs, rest = c :: cs → c ∉ regexBytes) :
    lexFrom docRules ("BindParameterRegexValue" :: stk) (w ++ rest) =
      consTok ⟨"Regex", w⟩ (lexFrom docRules ("BindParameterRegexValue" :: stk) rest) := by
  obtain ⟨hne, hall⟩ := hw
  cases w with
  | nil => exact absurd rfl hne
  | cons c w =>
    have hc : c ∈ rRegex.bytes := hall c (by simp)
    have htd := takeWhile_class regexBytes w rest (fun x hx => hall x (by simp [hx])) hr
    have hf : firstMatch (rulesOf docRules "BindParameterRegexValue") c = some rRegex := by
      simp [rulesOf, docRules, List.lookup, firstMatch, hc]
    rw [List.cons_append, lexFrom_step hf rfl]
    show consTok ⟨"Regex", c :: (w ++ rest).takeWhile (fun b => decide (b ∈ regexBytes))⟩
      (lexFrom docRules ("BindParameterRegexValue" :: stk)
        ((w ++ rest).dropWhile (fun b => decide (b ∈ regexBytes)))) = _
    rw [htd.1, htd.2]

theorem lex_regex (stk : List String) (w rest : Bytes) (hw : RegexText w) :
    lexFrom docRules ("BindParameterRegexValue" :: stk) (w ++ 47 :: rest) =
      consTok ⟨"Regex", w⟩ (lexFrom docRules ("BindParameterRegexValue" :: stk) (47 :: rest)) :=
  lex_regex' stk w (47 :: rest) hw (by intro c cs h; cases h; decide)

/-- no rule of the state matches the next byte: `lexer: invalid input text` -/
theorem lex_fail {S : String} {c : UInt8} (stk : List String) (cs : Bytes)
    (h : firstMatch (rulesOf docRules S) c = none) :
    lexFrom docRules (S :: stk) (c :: cs) = .error .invalid := by
  rw [lexFrom]; simp [h]

/-- one-byte rules: the table says which rule fires, the rest is computation -/
theorem lex_char {S : String} {c : UInt8} {r : LexRule} (stk : List String) (cs : Bytes)
    (h : firstMatch (rulesOf docRules S) c = some r) (he : r.elide = false) (hp : r.plus = false) :
    lexFrom docRules (S :: stk) (c :: cs) =
      consTok ⟨r.name, [c]⟩ (lexFrom docRules (applyAction r.action (S :: stk)) cs) := by
  rw [lexFrom_step h he]
  simp [munchTake, munchDrop, hp]

/-- the states in which a `/` starts a segment -/
def SlashState (S : String) : Prop := S = "Root" ∨ S = "Segment" ∨ S = "Bind"
/-- the states the lexer is in between the elements of a segment -/
def SegLike (S : String) : Prop := S = "Segment" ∨ S = "Bind"

theorem SegLike.slash {S} (h : SegLike S) : SlashState S := Or.inr h
theorem SegLike.common {S} (h : SegLike S) : CommonState S := by
  rcases h with rfl | rfl <;> simp [CommonState]

theorem lex_slash {S : String} (hS : SlashState S) (stk : List String) (cs : Bytes) :
    lexFrom docRules (S :: stk) (47 :: cs) =
      consTok ⟨"Segment", [47]⟩ (lexFrom docRules ("Segment" :: S :: stk) cs) := by
  rcases hS with rfl | rfl | rfl
  · exact lex_char (r := rSegment) stk cs (by decide) rfl rfl
  · exact lex_char (r := rSegment) stk cs (by decide) rfl rfl
  · exact lex_char (r := rSegment) stk cs (by decide) rfl rfl

theorem lex_qmark (stk : List String) (cs : Bytes) :
    lexFrom docRules ("Segment" :: stk) (63 :: cs) =
      consTok ⟨"Optional", [63]⟩ (lexFrom docRules ("Segment" :: stk) cs) :=
  lex_char (r := rOptional) stk cs (by decide) rfl rfl

theorem lex_lbrace {S : String} (hS : SegLike S) (stk : List String) (cs : Bytes) :
    lexFrom docRules (S :: stk) (123 :: cs) =
      consTok ⟨"Bind", [123]⟩ (lexFrom docRules ("Bind" :: S :: stk) cs) := by
  rcases hS with rfl | rfl
  · exact lex_char (r := rBind) stk cs (by decide) rfl rfl
  · exact lex_char (r := rBind) stk cs (by decide) rfl rfl

theorem lex_rbrace_bind (stk : List String) (cs : Bytes) :
    lexFrom docRules ("Bind" :: stk) (125 :: cs) =
      consTok ⟨"BindEnd", [125]⟩ (lexFrom docRules stk cs) :=
  lex_char (r := rBindEnd) stk cs (by decide) rfl rfl

theorem lex_colon (stk : List String) (cs : Bytes) :
    lexFrom docRules ("Bind" :: stk) (58 :: cs) =
      consTok ⟨"BindParameter", [58]⟩ (lexFrom docRules ("BindParameter" :: "Bind" :: stk) cs) :=
  lex_char (r := rBindParameter) stk cs (by decide) rfl rfl

theorem lex_blank {S : String} (hS : CommonState S) (stk : List String) (cs : Bytes) :
    lexFrom docRules (S :: stk) (32 :: cs) =
      consTok ⟨"Whitespace", [32]⟩ (lexFrom docRules (S :: stk) cs) := by
  rcases hS with rfl | rfl | rfl
  · exact lex_char (r := rSpace) stk cs (by decide) rfl rfl
  · exact lex_char (r := rSpace) stk cs (by decide) rfl rfl
  · exact lex_char (r := rSpace) stk cs (by decide) rfl rfl

theorem lex_regex_open (stk : List String) (cs : Bytes) :
    lexFrom docRules ("BindParameter" :: stk) (47 :: cs) =
      consTok ⟨"BindParameterRegexValue", [47]⟩
        (lexFrom docRules ("BindParameterRegexValue" :: "BindParameter" :: stk) cs) :=
  lex_char (r := rRegexValue) stk cs (by decide) rfl rfl

theorem lex_regex_close (stk : List String) (cs : Bytes) :
    lexFrom docRules ("BindParameterRegexValue" :: stk) (47 :: cs) =
      consTok ⟨"RegexEnd", [47]⟩ (lexFrom docRules stk cs) :=
  lex_char (r := rRegexEnd) stk cs (by decide) rfl rfl

theorem lex_comma (stk : List String) (cs : Bytes) :
    lexFrom docRules ("BindParameter" :: stk) (44 :: cs) =
      consTok ⟨"BindParameterEnd", [44]⟩ (lexFrom docRules stk cs) :=
  lex_char (r := rBindParameterEnd) stk cs (by decide) rfl rfl

theorem lex_rbrace_param (stk : List String) (cs : Bytes) :
    lexFrom docRules ("BindParameter" :: stk) (125 :: cs) =
      consTok ⟨"BindParameterEnd", [125]⟩ (lexFrom docRules stk cs) :=
  lex_char (r := rBindParameterEnd) stk cs (by decide) rfl rfl

end RouteGrammar
end Flamego
