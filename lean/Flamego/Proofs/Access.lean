/-
  Proofs/Access.lean — lemmas for Props/C18.lean: the cookie path end to end, and the
  closed form of the strconv integer loop.
-/
import Flamego.Spec.Access
import Flamego.Proofs.Codec
namespace Flamego.Access
open Flamego

/-! ### the bit sizes the model reads from context.go (Gen/ConstFacts): their documented values

  `QueryInt` passes 0 (= IntSize), `QueryInt64` and `ParamInt64` pass 64.  The accessor theorems of
  C18 go through these lemmas, so a changed bit size in context.go breaks them by name. -/

@[simp] theorem queryIntBits_eq : queryIntBits = intSize := rfl
@[simp] theorem queryInt64Bits_eq : queryInt64Bits = 64 := rfl
@[simp] theorem paramInt64Bits_eq : paramInt64Bits = 64 := rfl

theorem cut_none {sep : UInt8} {l : Bytes} (h : ∀ b ∈ l, b ≠ sep) : cut sep l = (l, []) := by
  induction l with
  | nil => rfl
  | cons c cs ih =>
    have hc : c ≠ sep := h c (by simp)
    have := ih (fun b hb => h b (by simp [hb]))
    simp [cut, hc, this]

/-- facts about a valid cookie name -/
theorem name_facts {n : Bytes} (hn : cookieNameValid n = true) :
    n ≠ [] ∧ ∀ b ∈ n, b ≠ eqSign ∧ b ≠ semicolon ∧ isAsciiSpace b = false := by
  unfold cookieNameValid at hn
  simp only [Bool.and_eq_true, Bool.not_eq_true', List.isEmpty_eq_false_iff, List.all_eq_true] at hn
  refine ⟨hn.1, fun b hb => ?_⟩
  have := token_props b (hn.2 b hb)
  simp only [Bool.and_eq_true, bne_iff_ne, ne_eq, Bool.not_eq_true'] at this
  exact ⟨this.1.1, this.1.2, this.2⟩

/-- the `Cookie` header line `name=e` with `e` made of escape-safe bytes is read back as `e` -/
theorem requestCookie_line {n e : Bytes} (hn : cookieNameValid n = true) (he : ∀ b ∈ e, escSafe b = true) :
    requestCookie [n ++ eqSign :: e] n = some e := by
  obtain ⟨hne, hnb⟩ := name_facts hn
  have hv := all_valid_of_safe he
  have hline_sp : ∀ b ∈ n ++ eqSign :: e, isAsciiSpace b = false := by
    intro b hb
    simp only [List.mem_append, List.mem_cons] at hb
    rcases hb with hb | rfl | hb
    · exact (hnb b hb).2.2
    · decide
    · exact (hv b hb).2.2.2.2.2.2.2
  have hline_sc : ∀ b ∈ n ++ eqSign :: e, b ≠ semicolon := by
    intro b hb
    simp only [List.mem_append, List.mem_cons] at hb
    rcases hb with hb | rfl | hb
    · exact (hnb b hb).2.1
    · decide
    · exact (hv b hb).2.2.2.2.1
  have hn_sp : trimString n = n := trimString_id (fun b hb => (hnb b hb).2.2)
  have hcut : cut eqSign (n ++ eqSign :: e) = (n, e) := cut_append e (fun b hb => (hnb b hb).1)
  have hnemp : n.isEmpty = false := by simp [hne]
  unfold requestCookie readCookies
  simp only [hnemp, Bool.false_eq_true, if_false, List.flatMap_cons, List.flatMap_nil, List.append_nil]
  unfold readCookieLine
  rw [trimString_id hline_sp, splitOn_none hline_sc]
  simp [readCookiePart, trimString_id hline_sp, hcut, hn_sp, hn, hnemp, parse_safe he]

/-- the `Set-Cookie` header SetCookie produces is exactly `name=` followed by the escaped value -/
theorem setCookieHeader_eq {n : Bytes} (s : Bytes) (hn : cookieNameValid n = true) :
    setCookieHeader n s = n ++ eqSign :: queryEscape s := by
  unfold setCookieHeader cookieString
  simp [hn, sanitize_safe (queryEscape_safe s)]

/-- … and it has no attribute part, so the client echoes all of it -/
theorem clientEcho_setCookie {n : Bytes} (s : Bytes) (hn : cookieNameValid n = true) :
    clientEcho (setCookieHeader n s) = n ++ eqSign :: queryEscape s := by
  rw [setCookieHeader_eq s hn]
  obtain ⟨_, hnb⟩ := name_facts hn
  have hv := all_valid_of_safe (queryEscape_safe s)
  unfold clientEcho
  rw [cut_none]
  intro b hb
  simp only [List.mem_append, List.mem_cons] at hb
  rcases hb with hb | rfl | hb
  · exact (hnb b hb).2.1
  · decide
  · exact (hv b hb).2.2.2.2.1


/-! ### strconv: closed form of the ParseUint digit loop -/

theorem digitsFrom_cons (n : Nat) (c : UInt8) (cs : Bytes) :
    digitsFrom n (c :: cs) = digitsFrom (n * 10 + (c - 48).toNat) cs := rfl

theorem digitsFrom_ge (cs : Bytes) : ∀ n, n ≤ digitsFrom n cs := by
  induction cs with
  | nil => intro n; exact Nat.le_refl n
  | cons c cs ih =>
    intro n
    rw [digitsFrom_cons]
    have := ih (n * 10 + (c - 48).toNat)
    omega

set_option maxRecDepth 100000 in
theorem digit_le_nine : ∀ c : UInt8, isDigit c = true → (c - 48).toNat ≤ 9 := by
  apply forall_byte; decide

/-- `k` digits after `n` stay below `(n+1)·10^k` -/
theorem digitsFrom_lt (cs : Bytes) (hd : cs.all isDigit = true) : ∀ n, digitsFrom n cs < (n + 1) * 10 ^ cs.length := by
  induction cs with
  | nil => intro n; simp [digitsFrom]
  | cons c cs ih =>
    intro n
    simp only [List.all_cons, Bool.and_eq_true] at hd
    have hc : (c - 48).toNat ≤ 9 := digit_le_nine c hd.1
    rw [digitsFrom_cons]
    have := ih hd.2 (n * 10 + (c - 48).toNat)
    simp only [List.length_cons, Nat.pow_succ]
    calc digitsFrom (n * 10 + (c - 48).toNat) cs
        < (n * 10 + (c - 48).toNat + 1) * 10 ^ cs.length := this
      _ ≤ ((n + 1) * 10) * 10 ^ cs.length := Nat.mul_le_mul_right _ (by omega)
      _ = (n + 1) * (10 ^ cs.length * 10) := by rw [Nat.mul_assoc, Nat.mul_comm 10]

/-- on an all-digit text the loop computes the positional value, or reports `range` with `maxVal` -/
theorem loop_digits {maxVal : Nat} (hmax : maxVal < 10 * uintCutoff) :
    ∀ (cs : Bytes) (n : Nat), n ≤ maxVal → cs.all isDigit = true →
      parseUintLoop maxVal n cs =
        if digitsFrom n cs ≤ maxVal then (digitsFrom n cs, NumErr.ok) else (maxVal, NumErr.range) := by
  intro cs
  induction cs with
  | nil => intro n hn _; simp [parseUintLoop, digitsFrom, hn]
  | cons c cs ih =>
    intro n hn hd
    simp only [List.all_cons, Bool.and_eq_true] at hd
    rw [digitsFrom_cons]
    have hge := digitsFrom_ge cs (n * 10 + (c - 48).toNat)
    unfold parseUintLoop
    simp only [hd.1, if_true]
    by_cases h1 : n ≥ uintCutoff
    · have : ¬ digitsFrom (n * 10 + (c - 48).toNat) cs ≤ maxVal := by unfold uintCutoff at *; omega
      simp [h1, this]
    · by_cases h2 : n * 10 + (c - 48).toNat > maxVal
      · have : ¬ digitsFrom (n * 10 + (c - 48).toNat) cs ≤ maxVal := by omega
        simp [h1, h2, this]
      · simp only [h1, h2, if_false]
        exact ih _ (by omega) hd.2

/-- on a text with a non-digit the loop reports `syntax` with 0 — unless the digit run before the
    first non-digit already overflowed, in which case it never gets there -/
theorem loop_malformed {maxVal : Nat} (hmax : maxVal < 10 * uintCutoff) :
    ∀ (cs : Bytes) (n : Nat), n ≤ maxVal → cs.all isDigit = false →
      parseUintLoop maxVal n cs =
        if digitsFrom n (cs.takeWhile isDigit) ≤ maxVal then (0, NumErr.syntax) else (maxVal, NumErr.range) := by
  intro cs
  induction cs with
  | nil => intro n _ hd; simp at hd
  | cons c cs ih =>
    intro n hn hd
    unfold parseUintLoop
    cases hc : isDigit c
    · simp [hc, List.takeWhile, digitsFrom, hn]
    · simp only [List.all_cons, hc, Bool.true_and] at hd
      simp only [if_true, List.takeWhile, hc]
      rw [digitsFrom_cons]
      have hge := digitsFrom_ge (cs.takeWhile isDigit) (n * 10 + (c - 48).toNat)
      by_cases h1 : n ≥ uintCutoff
      · have : ¬ digitsFrom (n * 10 + (c - 48).toNat) (cs.takeWhile isDigit) ≤ maxVal := by
          unfold uintCutoff at *; omega
        simp [h1, this]
      · by_cases h2 : n * 10 + (c - 48).toNat > maxVal
        · have : ¬ digitsFrom (n * 10 + (c - 48).toNat) (cs.takeWhile isDigit) ≤ maxVal := by omega
          simp [h1, h2, this]
        · simp only [h1, h2, if_false]
          exact ih _ (by omega) hd

theorem takeWhile_all (p : UInt8 → Bool) (l : Bytes) : (l.takeWhile p).all p = true := by
  induction l with
  | nil => rfl
  | cons a t ih =>
    cases h : p a <;> simp [List.takeWhile, h, ih]

theorem takeWhile_length_le (p : UInt8 → Bool) (l : Bytes) : (l.takeWhile p).length ≤ l.length :=
  (List.takeWhile_sublist p).length_le

theorem max64_lt : 2 ^ 64 - 1 < 10 * uintCutoff := by unfold uintCutoff; omega

theorem parseBool_nil : parseBool [] = (false, true) := by decide

theorem splitSign_ne_nil {s : Bytes} (h : (splitSign s).2 ≠ []) : s ≠ [] := by
  rintro rfl; exact h rfl

theorem parseUint64_digits {body : Bytes} (hne : body ≠ []) (hd : body.all isDigit = true) :
    parseUint 64 body = if digitsFrom 0 body ≤ 18446744073709551615 then (digitsFrom 0 body, NumErr.ok)
      else (18446744073709551615, NumErr.range) := by
  unfold parseUint
  simp only [hne, if_false]
  have := loop_digits max64_lt body 0 (by omega) hd
  simpa using this

theorem trimSpace_nil : trimSpace [] = [] := rfl


/-! ### several cookies on one response -/

theorem dropWhile_append_keep {p : UInt8 → Bool} {x : Bytes} (y : Bytes) (h : ∀ b ∈ x, p b = false) (hx : x ≠ []) :
    (x ++ y).dropWhile p = x ++ y := by
  cases x with
  | nil => exact absurd rfl hx
  | cons a t => simp [h a (by simp)]

/-- `a; b` with `a`, `b` free of white space and non-empty is not changed by `TrimString` -/
theorem trimString_pair {a b : Bytes} (ha : ∀ c ∈ a, isAsciiSpace c = false) (hb : ∀ c ∈ b, isAsciiSpace c = false)
    (hane : a ≠ []) (hbne : b ≠ []) :
    trimString (a ++ semicolon :: space :: b) = a ++ semicolon :: space :: b := by
  unfold trimString
  rw [dropWhile_append_keep _ ha hane]
  have hrev : (a ++ semicolon :: space :: b).reverse = b.reverse ++ (space :: semicolon :: a.reverse) := by simp
  rw [hrev, dropWhile_append_keep _ (fun c hc => hb c (List.mem_reverse.mp hc)) (by simpa using hbne)]
  simp

theorem splitOn_append {sep : UInt8} {a : Bytes} (b : Bytes) (h : ∀ c ∈ a, c ≠ sep) :
    splitOn sep (a ++ sep :: b) = a :: splitOn sep b := by
  induction a with
  | nil => simp [splitOn]
  | cons c cs ih =>
    have hc : c ≠ sep := h c (by simp)
    have := ih (fun x hx => h x (by simp [hx]))
    simp only [List.cons_append]
    rw [splitOn]
    simp [hc, this]

theorem trimString_space_cons (l : Bytes) : trimString (space :: l) = trimString l := by
  unfold trimString
  have : isAsciiSpace space = true := by decide
  simp [List.dropWhile, this]

/-- facts about the line `name=e` -/
theorem line_facts {n e : Bytes} (hn : cookieNameValid n = true) (he : ∀ b ∈ e, escSafe b = true) :
    (∀ b ∈ n ++ eqSign :: e, isAsciiSpace b = false) ∧ (∀ b ∈ n ++ eqSign :: e, b ≠ semicolon)
      ∧ n ++ eqSign :: e ≠ [] := by
  obtain ⟨_, hnb⟩ := name_facts hn
  have hv := all_valid_of_safe he
  refine ⟨?_, ?_, by simp⟩
  · intro b hb
    simp only [List.mem_append, List.mem_cons] at hb
    rcases hb with hb | rfl | hb
    · exact (hnb b hb).2.2
    · decide
    · exact (hv b hb).2.2.2.2.2.2.2
  · intro b hb
    simp only [List.mem_append, List.mem_cons] at hb
    rcases hb with hb | rfl | hb
    · exact (hnb b hb).2.1
    · decide
    · exact (hv b hb).2.2.2.2.1

/-- one `name=e` part of a `Cookie` line is kept exactly when the filter is that name -/
theorem readCookiePart_line {n e f : Bytes} (hn : cookieNameValid n = true) (he : ∀ b ∈ e, escSafe b = true)
    (hf : f ≠ []) :
    readCookiePart f (n ++ eqSign :: e) = if f = n then some (n, e) else none := by
  obtain ⟨hne, hnb⟩ := name_facts hn
  obtain ⟨hsp, _, _⟩ := line_facts hn he
  have hn_sp : trimString n = n := trimString_id (fun b hb => (hnb b hb).2.2)
  have hcut : cut eqSign (n ++ eqSign :: e) = (n, e) := cut_append e (fun b hb => (hnb b hb).1)
  have hfe : f.isEmpty = false := by simp [hf]
  unfold readCookiePart
  by_cases hfn : f = n
  · simp [trimString_id hsp, hcut, hn_sp, hn, hfn, parse_safe he]
  · simp [trimString_id hsp, hcut, hn_sp, hn, hfn, hfe]

/-- the `Cookie` header `n₁=e₁; n₂=e₂` read with a filter -/
theorem readCookieLine_pair {n₁ e₁ n₂ e₂ f : Bytes} (h₁ : cookieNameValid n₁ = true) (h₂ : cookieNameValid n₂ = true)
    (he₁ : ∀ b ∈ e₁, escSafe b = true) (he₂ : ∀ b ∈ e₂, escSafe b = true) :
    readCookieLine ((n₁ ++ eqSign :: e₁) ++ semicolon :: space :: (n₂ ++ eqSign :: e₂)) f =
      [n₁ ++ eqSign :: e₁, n₂ ++ eqSign :: e₂].filterMap (readCookiePart f) := by
  obtain ⟨hsp₁, hsc₁, hne₁⟩ := line_facts h₁ he₁
  obtain ⟨hsp₂, hsc₂, hne₂⟩ := line_facts h₂ he₂
  unfold readCookieLine
  rw [trimString_pair hsp₁ hsp₂ hne₁ hne₂, splitOn_append _ hsc₁]
  have hs2 : splitOn semicolon (space :: (n₂ ++ eqSign :: e₂)) = [space :: (n₂ ++ eqSign :: e₂)] := by
    apply splitOn_none
    intro b hb
    simp only [List.mem_cons] at hb
    rcases hb with rfl | hb
    · decide
    · exact hsc₂ b hb
  rw [hs2]
  have hp : readCookiePart f (space :: (n₂ ++ eqSign :: e₂)) = readCookiePart f (n₂ ++ eqSign :: e₂) := by
    unfold readCookiePart; rw [trimString_space_cons]
  simp [List.filterMap, hp]

/-- the user agent's `Cookie` header after two `SetCookie` calls with distinct valid names -/
theorem clientCookieHeader_two {n₁ n₂ : Bytes} (s₁ s₂ : Bytes) (h₁ : cookieNameValid n₁ = true)
    (h₂ : cookieNameValid n₂ = true) (hne : n₁ ≠ n₂) :
    clientCookieHeader (setCookies [(n₁, s₁), (n₂, s₂)]) =
      (n₁ ++ eqSign :: queryEscape s₁) ++ semicolon :: space :: (n₂ ++ eqSign :: queryEscape s₂) := by
  obtain ⟨_, hnb₁⟩ := name_facts h₁
  obtain ⟨_, hnb₂⟩ := name_facts h₂
  have c₁ : cut eqSign (n₁ ++ eqSign :: queryEscape s₁) = (n₁, queryEscape s₁) :=
    cut_append _ (fun b hb => (hnb₁ b hb).1)
  have c₂ : cut eqSign (n₂ ++ eqSign :: queryEscape s₂) = (n₂, queryEscape s₂) :=
    cut_append _ (fun b hb => (hnb₂ b hb).1)
  have hbeq : (n₁ == n₂) = false := by simpa using hne
  unfold clientCookieHeader clientJar setCookies
  simp [List.foldl, jarPut, clientEcho_setCookie, h₁, h₂, c₁, c₂, hbeq, joinCookies]

end Flamego.Access
