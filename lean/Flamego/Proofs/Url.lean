/-
  Proofs/Url.lean — lemmas for C12 (URL building): the token view of the skeleton that
  `Leaf.URLPath` writes, one step of the replacer at a token boundary, fuel sufficiency of
  `replaceAll`, permutation invariance, and the pair-list folding of `router.URLPath`.
-/
import Flamego.Proofs.Assoc
import Flamego.Proofs.Syntax
namespace Flamego
namespace Url

/-! ### Tokens -/

/-- what `URLPath` writes into its buffer, element by element: a literal text, or a placeholder
    `{name}` still to be substituted -/
inductive Tok
  | lit (b : Bytes)
  | hole (name : Bytes)
  deriving DecidableEq, Repr

/-- the bytes a token stands for in the buffer -/
def Tok.render : Tok → Bytes
  | .lit b => b
  | .hole n => B "{" ++ n ++ B "}"

def render (ts : List Tok) : Bytes := ts.flatMap Tok.render

/-- one hole per regex-valued parameter, none for a literal-valued one -/
def regexHoles (ps : List BindParam) : List Tok :=
  ps.flatMap fun q => match q.val with
    | .re _ => [.hole q.ident]
    | .lit _ => []

theorem regexHoles_of_lit (ps : List BindParam) (h : ∀ q ∈ ps, ∃ t, q.val = .lit t) :
    regexHoles ps = [] := by
  induction ps with
  | nil => rfl
  | cons q qs ih =>
    have hs : regexHoles (q :: qs) =
        (match q.val with | .re _ => [Tok.hole q.ident] | .lit _ => []) ++ regexHoles qs := rfl
    obtain ⟨t, ht⟩ := h q (List.mem_cons_self ..)
    rw [hs, ih (fun x hx => h x (List.mem_cons_of_mem _ hx)), ht]
    rfl

/-- the holes of the parameters after the first one `p` of a list: a list whose first value is a
    literal (a match-all `{p: **, capture: 2}`) binds only `p`; a regex list binds each of its
    regex-valued parameters -/
def laterHoles (p : BindParam) (ps : List BindParam) : List Tok :=
  match p.val with
  | .lit _ => []
  | .re _ => regexHoles ps

theorem laterHoles_lit (p : BindParam) (ps : List BindParam) (t : Bytes) (h : p.val = .lit t) :
    laterHoles p ps = [] := by
  simp [laterHoles, h]

theorem laterHoles_re (p : BindParam) (ps : List BindParam) (t : Bytes) (h : p.val = .re t) :
    laterHoles p ps = regexHoles ps := by
  simp [laterHoles, h]

/-- the tokens of one route element: an identifier is a literal, `{bind}` a hole, a parameter list
    `{a: …, b: …}` one hole per bind parameter (the first, and every later regex-valued one);
    regex texts and the capture limit do not occur -/
def elemToks : Elem → List Tok
  | .ident s => [.lit s]
  | .bind n => [.hole n]
  | .params [] => [.lit (B "???")]
  | .params (p :: ps) => .hole p.ident :: laterHoles p ps

/-- a segment: the `/` then its elements -/
def segToks (s : Segment) : List Tok := .lit (B "/") :: s.elems.flatMap elemToks

/-- "the route without its only, optional segment is the root path": an empty buffer becomes `/` -/
def orRoot : List Tok → List Tok
  | [] => [.lit (B "/")]
  | t => t

def skeletonToks (r : Route) (withOptional : Bool) : List Tok :=
  orRoot (go withOptional r.segs)
where
  go (withOptional : Bool) : List Segment → List Tok
    | [] => []
    | s :: rest =>
      if s.optional && !withOptional then []
      else segToks s ++ go withOptional rest

theorem render_append (a b : List Tok) : render (a ++ b) = render a ++ render b := by
  simp [render]

theorem render_regexHoles (ps : List BindParam) :
    render (regexHoles ps) = ps.flatMap fun q => match q.val with
      | .re _ => B "{" ++ q.ident ++ B "}"
      | .lit _ => [] := by
  induction ps with
  | nil => rfl
  | cons q qs ih =>
    have h : regexHoles (q :: qs) =
        (match q.val with | .re _ => [Tok.hole q.ident] | .lit _ => []) ++ regexHoles qs := rfl
    rw [h, render_append, ih, List.flatMap_cons]
    congr 1
    cases q.val <;> simp [render, Tok.render]

theorem elemSkeleton_eq (e : Elem) : elemSkeleton e = render (elemToks e) := by
  cases e with
  | ident s => simp [elemSkeleton, elemToks, render, Tok.render]
  | bind n => simp [elemSkeleton, elemToks, render, Tok.render]
  | params ps =>
    cases ps with
    | nil => simp [elemSkeleton, elemToks, render, Tok.render]
    | cons p ps =>
      have h : render (elemToks (.params (p :: ps))) =
          (B "{" ++ p.ident ++ B "}") ++ render (laterHoles p ps) := rfl
      rw [h]
      simp only [elemSkeleton, laterHoles]
      cases p.val with
      | lit t => rfl
      | re t => simp only [render_regexHoles]; rfl

theorem render_segToks (s : Segment) :
    render (segToks s) = B "/" ++ s.elems.flatMap elemSkeleton := by
  have h : ∀ es : List Elem, render (es.flatMap elemToks) = es.flatMap elemSkeleton := by
    intro es
    induction es with
    | nil => rfl
    | cons e es ih => simp only [List.flatMap_cons, render_append, ih, elemSkeleton_eq]
  show Tok.render (.lit (B "/")) ++ render (s.elems.flatMap elemToks) = _
  rw [h]; rfl

theorem skeleton_go_eq (wo : Bool) (segs : List Segment) :
    skeleton.go wo segs = render (skeletonToks.go wo segs) := by
  induction segs with
  | nil => rfl
  | cons s rest ih =>
    unfold skeleton.go skeletonToks.go
    split
    · rfl
    · rw [render_append, render_segToks, ih, List.append_assoc]

/-- the token list of the buffer is empty or starts with the `/` of a segment -/
theorem skeletonToks_go_shape (wo : Bool) (segs : List Segment) :
    skeletonToks.go wo segs = [] ∨ ∃ t, skeletonToks.go wo segs = .lit (B "/") :: t := by
  cases segs with
  | nil => exact Or.inl rfl
  | cons s rest =>
    unfold skeletonToks.go
    split
    · exact Or.inl rfl
    · exact Or.inr ⟨_, rfl⟩

theorem orRoot_of_ne {ts : List Tok} (h : ts ≠ []) : orRoot ts = ts := by
  cases ts with
  | nil => exact absurd rfl h
  | cons t ts => rfl

theorem skeleton_eq (r : Route) (wo : Bool) : skeleton r wo = render (skeletonToks r wo) := by
  unfold skeleton skeletonToks
  rw [skeleton_go_eq]
  rcases skeletonToks_go_shape wo r.segs with h | ⟨t, h⟩
  · rw [h]; simp [orRoot, render, Tok.render]
  · rw [h, orRoot_of_ne (by simp)]
    have : render (Tok.lit (B "/") :: t) = 47 :: render t := by
      simp [render, Tok.render, B_slash]
    rw [this]

/-! ### Brace-freeness -/

/-- neither `{` (123) nor `}` (125) occurs -/
def noBrace (b : Bytes) : Bool := b.all fun c => c != 123 && c != 125

def Tok.braceFree : Tok → Bool
  | .lit b => noBrace b
  | .hole n => noBrace n

def elemBraceFree : Elem → Bool
  | .ident s => noBrace s
  | .bind n => noBrace n
  | .params [] => false
  | .params (p :: ps) => (p :: ps).all fun q => noBrace q.ident

theorem noBrace_slash : noBrace (B "/") = true := by rw [B_slash]; decide
theorem noBrace_qqq : noBrace (B "???") = true := by rw [B_qqq]; decide

theorem regexHoles_braceFree (ps : List BindParam) (h : ps.all (fun q => noBrace q.ident) = true) :
    (regexHoles ps).all Tok.braceFree = true := by
  induction ps with
  | nil => rfl
  | cons q qs ih =>
    simp only [List.all_cons, Bool.and_eq_true] at h
    have hs : regexHoles (q :: qs) =
        (match q.val with | .re _ => [Tok.hole q.ident] | .lit _ => []) ++ regexHoles qs := rfl
    rw [hs, List.all_append, ih h.2, Bool.and_true]
    cases q.val
    · rfl
    · simp only [List.all_cons, List.all_nil, Bool.and_true]; exact h.1

theorem elemToks_braceFree (e : Elem) (h : elemBraceFree e = true) :
    (elemToks e).all Tok.braceFree = true := by
  cases e with
  | ident s => simp only [elemToks, List.all_cons, List.all_nil, Bool.and_true]; exact h
  | bind n => simp only [elemToks, List.all_cons, List.all_nil, Bool.and_true]; exact h
  | params ps =>
    cases ps with
    | nil => simp only [elemToks, List.all_cons, List.all_nil, Bool.and_true]; exact noBrace_qqq
    | cons p ps =>
      simp only [elemBraceFree, List.all_cons, Bool.and_eq_true] at h
      simp only [elemToks, List.all_cons, Bool.and_eq_true]
      refine ⟨h.1, ?_⟩
      unfold laterHoles
      cases p.val with
      | lit t => rfl
      | re t => exact regexHoles_braceFree ps h.2

theorem segToks_braceFree (s : Segment) (h : s.elems.all elemBraceFree = true) :
    (segToks s).all Tok.braceFree = true := by
  simp only [segToks, List.all_cons, Bool.and_eq_true, List.all_flatMap]
  refine ⟨noBrace_slash, ?_⟩
  rw [List.all_eq_true] at h ⊢
  intro e he
  exact elemToks_braceFree e (h e he)

theorem skeletonToks_go_braceFree (wo : Bool) (segs : List Segment)
    (h : segs.all (fun s => s.elems.all elemBraceFree) = true) :
    (skeletonToks.go wo segs).all Tok.braceFree = true := by
  induction segs with
  | nil => rfl
  | cons s rest ih =>
    simp only [List.all_cons, Bool.and_eq_true] at h
    unfold skeletonToks.go
    split
    · rfl
    · rw [List.all_append, segToks_braceFree s h.1, ih h.2]; rfl

theorem orRoot_braceFree (ts : List Tok) (h : ts.all Tok.braceFree = true) :
    (orRoot ts).all Tok.braceFree = true := by
  cases ts with
  | nil => simp only [orRoot, List.all_cons, List.all_nil, Bool.and_true]; exact noBrace_slash
  | cons t ts => exact h

/-! ### The replacer: fuel -/

theorem go_nil (pairs : List (Bytes × Bytes)) (f : Nat) : replaceAll.go pairs f [] = [] := by
  cases f <;> rfl

/-- `replaceAll.go` consumes at least one input byte per unit of fuel, so any fuel that covers the
    remaining input gives the same result -/
theorem go_fuel (pairs : List (Bytes × Bytes)) :
    ∀ (n : Nat) (s : Bytes) (f1 f2 : Nat), s.length ≤ n → n ≤ f1 → n ≤ f2 →
      replaceAll.go pairs f1 s = replaceAll.go pairs f2 s := by
  intro n
  induction n with
  | zero =>
    intro s f1 f2 hs _ _
    have : s = [] := List.eq_nil_of_length_eq_zero (Nat.le_zero.mp hs)
    subst this
    rw [go_nil, go_nil]
  | succ n ih =>
    intro s f1 f2 hs h1 h2
    cases s with
    | nil => rw [go_nil, go_nil]
    | cons c cs =>
      obtain ⟨g1, rfl⟩ : ∃ k, f1 = k + 1 := ⟨f1 - 1, by omega⟩
      obtain ⟨g2, rfl⟩ : ∃ k, f2 = k + 1 := ⟨f2 - 1, by omega⟩
      simp only [List.length_cons] at hs
      simp only [replaceAll.go]
      split
      · next k v hfind =>
        have hk := List.find?_some hfind
        simp only [ne_eq, Bool.and_eq_true, decide_eq_true_eq] at hk
        have hlen : 0 < k.length := List.length_pos_iff.mpr hk.1
        congr 1
        apply ih
        · simp only [List.length_drop, List.length_cons]; omega
        · omega
        · omega
      · congr 1
        apply ih <;> omega

/-! ### The replacer: one step at a token boundary -/

/-- the replacer pairs `URLPath` builds from the value map -/
def keyed (vals : List (Bytes × Bytes)) : List (Bytes × Bytes) :=
  vals.map fun (k, v) => (B "{" ++ k ++ B "}", v)

theorem keyed_eq (vals : List (Bytes × Bytes)) :
    keyed vals = vals.map fun p => (123 :: (p.1 ++ [125]), p.2) := by
  simp [keyed, B_lbrace, B_rbrace]

theorem noBrace_cons (c : UInt8) (b : Bytes) :
    noBrace (c :: b) = true ↔ (c ≠ 123 ∧ c ≠ 125) ∧ noBrace b = true := by
  simp [noBrace]

/-- at the text `n}…` with brace-free `n`, the key tail `k}` is a prefix iff `k = n` -/
theorem isPrefixOf'_name (k : Bytes) : ∀ (n rest : Bytes), noBrace k = true → noBrace n = true →
    isPrefixOf' (k ++ [125]) (n ++ 125 :: rest) = decide (k = n) := by
  induction k with
  | nil =>
    intro n rest _ hn
    cases n with
    | nil => simp [isPrefixOf']
    | cons c n =>
      have := ((noBrace_cons c n).mp hn).1.2
      simp [isPrefixOf', Ne.symm this]
  | cons a k ih =>
    intro n rest hk hn
    have hk' := (noBrace_cons a k).mp hk
    cases n with
    | nil => simp [isPrefixOf', hk'.1.2]
    | cons c n =>
      have hn' := (noBrace_cons c n).mp hn
      simp only [List.cons_append, isPrefixOf', ih n rest hk'.2 hn'.2]
      by_cases hac : a = c <;> simp [hac]

/-- at a `{` that starts `{n}` (brace-free `n`), the first listed key that is a prefix is the
    first pair whose name is `n` -/
theorem find_hole (n rest : Bytes) (hn : noBrace n = true) :
    ∀ (vals : List (Bytes × Bytes)), vals.all (fun p => noBrace p.1) = true →
    (keyed vals).find? (fun p => p.1 ≠ [] && isPrefixOf' p.1 (123 :: (n ++ 125 :: rest))) =
      (vals.lookup n).map fun v => (123 :: (n ++ [125]), v) := by
  intro vals
  rw [keyed_eq]
  induction vals with
  | nil => intro _; rfl
  | cons p vs ih =>
    intro h
    obtain ⟨k, v⟩ := p
    simp only [List.all_cons, Bool.and_eq_true] at h
    simp only [List.map_cons, List.find?_cons, List.lookup_cons, isPrefixOf',
      isPrefixOf'_name k n rest h.1 hn]
    by_cases hkn : k = n
    · subst hkn; simp
    · have : (n == k) = false := by simp [Ne.symm hkn]
      simp only [hkn, this, decide_false, Bool.and_false]
      exact ih h.2

/-- inside a text without `{` no key matches (every key starts with `{`): it is copied -/
theorem go_lit (pairs : List (Bytes × Bytes)) (hp : ∀ p ∈ pairs, ∃ t, p.1 = 123 :: t) (s : Bytes) :
    ∀ (b : Bytes), (123 : UInt8) ∉ b → ∀ fuel, b.length + s.length ≤ fuel →
      replaceAll.go pairs fuel (b ++ s) = b ++ replaceAll.go pairs (fuel - b.length) s := by
  intro b
  induction b with
  | nil => intro _ fuel _; rfl
  | cons c b ih =>
    intro hb fuel hf
    obtain ⟨g, rfl⟩ : ∃ k, fuel = k + 1 := ⟨fuel - 1, by simp only [List.length_cons] at hf; omega⟩
    simp only [List.mem_cons, not_or] at hb
    simp only [List.length_cons] at hf
    have hnone : pairs.find? (fun p => p.1 ≠ [] && isPrefixOf' p.1 (c :: (b ++ s))) = none := by
      rw [List.find?_eq_none]
      intro p hpm
      obtain ⟨t, ht⟩ := hp p hpm
      simp [ht, isPrefixOf', hb.1]
    simp only [List.cons_append, replaceAll.go, hnone, List.length_cons]
    rw [ih hb.2 g (by omega)]
    congr 3
    omega

theorem keyed_start (vals : List (Bytes × Bytes)) : ∀ p ∈ keyed vals, ∃ t, p.1 = 123 :: t := by
  intro p hp
  rw [keyed_eq, List.mem_map] at hp
  obtain ⟨q, _, rfl⟩ := hp
  exact ⟨_, rfl⟩

theorem noBrace_not_mem (b : Bytes) (h : noBrace b = true) : (123 : UInt8) ∉ b ∧ (125 : UInt8) ∉ b := by
  induction b with
  | nil => simp
  | cons c b ih =>
    have hc := (noBrace_cons c b).mp h
    have hb := ih hc.2
    simp only [List.mem_cons, not_or]
    exact ⟨⟨Ne.symm hc.1.1, hb.1⟩, ⟨Ne.symm hc.1.2, hb.2⟩⟩

/-! ### Token-wise substitution -/

/-- what a token becomes: a literal stays; a hole takes the supplied value, or stays visible -/
def Tok.subst (vals : List (Bytes × Bytes)) : Tok → Bytes
  | .lit b => b
  | .hole n => match vals.lookup n with
    | some v => v
    | none => B "{" ++ n ++ B "}"

theorem go_toks (vals : List (Bytes × Bytes)) (hv : vals.all (fun p => noBrace p.1) = true) :
    ∀ (ts : List Tok), ts.all Tok.braceFree = true → ∀ fuel, (render ts).length ≤ fuel →
      replaceAll.go (keyed vals) fuel (render ts) = ts.flatMap (Tok.subst vals) := by
  intro ts
  induction ts with
  | nil => intro _ fuel _; exact go_nil _ _
  | cons t ts ih =>
    intro hts fuel hf
    simp only [List.all_cons, Bool.and_eq_true] at hts
    have hr : render (t :: ts) = t.render ++ render ts := rfl
    rw [hr] at hf ⊢
    rw [List.length_append] at hf
    simp only [List.flatMap_cons]
    cases t with
    | lit b =>
      have hb := (noBrace_not_mem b hts.1).1
      show replaceAll.go (keyed vals) fuel (b ++ render ts) = b ++ _
      rw [go_lit _ (keyed_start vals) _ b hb fuel hf, ih hts.2 _ (by simp only [Tok.render] at hf; omega)]
    | hole n =>
      have hn : noBrace n = true := hts.1
      have hren : (Tok.hole n).render = 123 :: (n ++ [125]) := by
        simp [Tok.render, B_lbrace, B_rbrace]
      rw [hren] at hf ⊢
      simp only [List.length_cons, List.length_append, List.length_nil] at hf
      obtain ⟨g, rfl⟩ : ∃ k, fuel = k + 1 := ⟨fuel - 1, by omega⟩
      have hshape : (123 :: (n ++ [125])) ++ render ts = 123 :: (n ++ 125 :: render ts) := by simp
      rw [hshape]
      simp only [replaceAll.go, find_hole n (render ts) hn vals hv, Tok.subst]
      cases hl : vals.lookup n with
      | some v =>
        simp only [Option.map_some]
        have hdrop : List.drop (123 :: (n ++ [125])).length (123 :: (n ++ 125 :: render ts)) = render ts := by
          rw [← hshape, List.drop_left]
        rw [hdrop, ih hts.2 g (by omega)]
      | none =>
        simp only [Option.map_none]
        have hnb : (123 : UInt8) ∉ n ++ [125] := by
          have := (noBrace_not_mem n hn).1
          simp [this]
        have hs2 : n ++ 125 :: render ts = (n ++ [125]) ++ render ts := by simp
        rw [hs2, go_lit _ (keyed_start vals) _ _ hnb g (by simp; omega), ih hts.2 _ (by simp; omega)]
        simp [B_lbrace, B_rbrace]

/-! ### Permutation invariance -/

/-- the keys of a value list are pairwise distinct (it came from a Go map) -/
def DistinctKeys (vals : List (Bytes × Bytes)) : Prop := vals.Pairwise fun a b => a.1 ≠ b.1

instance (vals : List (Bytes × Bytes)) : Decidable (DistinctKeys vals) := by
  unfold DistinctKeys; infer_instance

theorem lookup_perm {l₁ l₂ : List (Bytes × Bytes)} (h : l₁.Perm l₂) :
    DistinctKeys l₁ → ∀ n, l₁.lookup n = l₂.lookup n := by
  induction h with
  | nil => intro _ _; rfl
  | cons x _ ih =>
    intro nd n
    obtain ⟨xk, xv⟩ := x
    simp only [List.lookup_cons]
    rw [ih (List.Pairwise.of_cons nd) n]
  | swap x y l =>
    intro nd n
    obtain ⟨xk, xv⟩ := x
    obtain ⟨yk, yv⟩ := y
    have hne : yk ≠ xk := (List.pairwise_cons.mp nd).1 (xk, xv) (by simp)
    simp only [List.lookup_cons]
    by_cases h1 : n = yk
    · subst h1
      have : (n == xk) = false := by simp [hne]
      simp [this]
    · have : (n == yk) = false := by simp [h1]
      simp [this]
  | trans h1 _ ih1 ih2 =>
    intro nd n
    have nd2 : DistinctKeys _ :=
      (h1.pairwise_iff (R := fun a b : Bytes × Bytes => a.1 ≠ b.1) (fun hab => Ne.symm hab)).mp nd
    rw [ih1 nd n, ih2 nd2 n]

theorem all_perm {α} {p : α → Bool} {l₁ l₂ : List α} (h : l₁.Perm l₂) :
    l₁.all p = true → l₂.all p = true := by
  simp only [List.all_eq_true]
  intro h1 x hx
  exact h1 x (h.mem_iff.mpr hx)

/-! ### Annotations and the optional segment -/

/-- the plain binds of the regex-valued parameters -/
def regexBinds (ps : List BindParam) : List Elem :=
  ps.flatMap fun q => match q.val with
    | .re _ => [.bind q.ident]
    | .lit _ => []

/-- forget everything `URLPath` does not look at: a parameter list becomes the sequence of plain
    binds of its bind parameters (the first; and, when that one is regex-valued, every later
    regex-valued one) -/
def stripElem : Elem → List Elem
  | .params (p :: ps) =>
    .bind p.ident :: (match p.val with
      | .lit _ => []
      | .re _ => regexBinds ps)
  | e => [e]

def stripRoute (r : Route) : Route :=
  ⟨r.segs.map fun s => ⟨s.optional, s.elems.flatMap stripElem⟩⟩

theorem regexBinds_toks (ps : List BindParam) : (regexBinds ps).flatMap elemToks = regexHoles ps := by
  induction ps with
  | nil => rfl
  | cons q qs ih =>
    have hs : regexHoles (q :: qs) =
        (match q.val with | .re _ => [Tok.hole q.ident] | .lit _ => []) ++ regexHoles qs := rfl
    have hb : regexBinds (q :: qs) =
        (match q.val with | .re _ => [Elem.bind q.ident] | .lit _ => []) ++ regexBinds qs := rfl
    rw [hs, hb, List.flatMap_append, ih]
    congr 1
    cases q.val <;> simp [elemToks]

theorem elemToks_strip (e : Elem) : (stripElem e).flatMap elemToks = elemToks e := by
  cases e with
  | ident s => simp [stripElem]
  | bind n => simp [stripElem]
  | params ps =>
    cases ps with
    | nil => simp [stripElem]
    | cons p ps =>
      simp only [stripElem, List.flatMap_cons, elemToks, List.singleton_append, List.cons.injEq,
        true_and, laterHoles]
      cases p.val with
      | lit t => rfl
      | re t => exact regexBinds_toks ps

theorem segToks_strip (s : Segment) :
    segToks ⟨s.optional, s.elems.flatMap stripElem⟩ = segToks s := by
  simp only [segToks]
  congr 1
  induction s.elems with
  | nil => rfl
  | cons e es ih => simp only [List.flatMap_cons, List.flatMap_append, ih, elemToks_strip]

theorem skeletonToks_go_strip (wo : Bool) (segs : List Segment) :
    skeletonToks.go wo (segs.map fun s => ⟨s.optional, s.elems.flatMap stripElem⟩) =
      skeletonToks.go wo segs := by
  induction segs with
  | nil => rfl
  | cons s rest ih =>
    simp only [List.map_cons]
    unfold skeletonToks.go
    simp only [ih, segToks_strip]

theorem regexBinds_binds (ps : List BindParam) (x : Elem) (hx : x ∈ regexBinds ps) :
    ∃ n, x = .bind n := by
  simp only [regexBinds, List.mem_flatMap] at hx
  obtain ⟨q, _, hq⟩ := hx
  cases hv : q.val with
  | lit t => rw [hv] at hq; simp at hq
  | re t => rw [hv] at hq; simp only [List.mem_singleton] at hq; exact ⟨_, hq⟩

theorem stripElem_binds (e x : Elem) (hx : x ∈ stripElem e) :
    (x = e ∧ ∀ p ps, e ≠ .params (p :: ps)) ∨ ∃ n, x = .bind n := by
  cases e with
  | ident s =>
    simp only [stripElem, List.mem_singleton] at hx
    exact Or.inl ⟨hx, fun _ _ h => by cases h⟩
  | bind n => simp only [stripElem, List.mem_singleton] at hx; exact Or.inr ⟨n, hx⟩
  | params ps =>
    cases ps with
    | nil =>
      simp only [stripElem, List.mem_singleton] at hx
      exact Or.inl ⟨hx, fun _ _ h => by cases h⟩
    | cons p ps =>
      simp only [stripElem, List.mem_cons] at hx
      rcases hx with hx | hx
      · exact Or.inr ⟨_, hx⟩
      · cases hv : p.val with
        | lit t => rw [hv] at hx; simp at hx
        | re t => rw [hv] at hx; exact Or.inr (regexBinds_binds ps x hx)

theorem skeletonToks_go_ne (wo : Bool) (s : Segment) (rest : List Segment)
    (h : s.optional = false ∨ wo = true) : skeletonToks.go wo (s :: rest) ≠ [] := by
  unfold skeletonToks.go
  have : (s.optional && !wo) = false := by
    rcases h with h | h <;> simp [h]
  simp [this, segToks]

theorem skeletonToks_go_opt (s : Segment) (rest : List Segment) (h : s.optional = true) :
    skeletonToks.go false (s :: rest) = [] := by
  unfold skeletonToks.go
  simp [h]

theorem skeletonToks_go_true (segs : List Segment) :
    skeletonToks.go true segs = segs.flatMap segToks := by
  induction segs with
  | nil => rfl
  | cons s rest ih =>
    unfold skeletonToks.go
    simp [ih]

theorem skeletonToks_go_false (segs : List Segment) :
    skeletonToks.go false segs = (segs.takeWhile fun s => !s.optional).flatMap segToks := by
  induction segs with
  | nil => rfl
  | cons s rest ih =>
    unfold skeletonToks.go
    cases h : s.optional <;> simp [h, ih]

/-! ### `router.URLPath`: folding the pair list into the value map -/

/-- the names of a `k₁ v₁ k₂ v₂ …` argument list (a trailing odd element is no name) -/
def keysOf : List Bytes → List Bytes
  | k :: _ :: rest => k :: keysOf rest
  | _ => []

/-- the value the argument list gives a name: that of its LAST occurrence as a name -/
def lastVal : List Bytes → Bytes → Option Bytes
  | k :: v :: rest, x =>
    match lastVal rest x with
    | some w => some w
    | none => if k = x then some v else none
  | _, _ => none

theorem mk_get (x : Bytes) (pairs : List Bytes) (acc : List (Bytes × Bytes)) :
    assocGet (Router.urlPath.mk pairs acc) x =
      match lastVal pairs x with
      | some w => some w
      | none => assocGet acc x := by
  fun_induction Router.urlPath.mk pairs acc with
  | case1 k v rest acc ih =>
    rw [ih]
    simp only [lastVal]
    cases lastVal rest x with
    | some w => rfl
    | none =>
      by_cases hkx : k = x
      · subst hkx; simp [assocGet_assocSet_same]
      · simp only [hkx, ↓reduceIte]
        exact assocGet_assocSet_other acc k x v (Ne.symm hkx)
  | case2 pairs acc hne =>
    have : lastVal pairs x = none := by
      unfold lastVal
      split
      · next k v rest => exact absurd rfl (hne k v rest)
      · rfl
    rw [this]

theorem mk_append_even (more : List Bytes) (pairs : List Bytes) (acc : List (Bytes × Bytes))
    (h : pairs.length % 2 = 0) :
    Router.urlPath.mk (pairs ++ more) acc = Router.urlPath.mk more (Router.urlPath.mk pairs acc) := by
  fun_induction Router.urlPath.mk pairs acc with
  | case1 k v rest acc ih =>
    simp only [List.length_cons] at h
    simp only [List.cons_append, Router.urlPath.mk]
    exact ih (by omega)
  | case2 pairs acc hne =>
    match pairs, hne, h with
    | [], _, _ => simp
    | [_], _, h => simp at h
    | k :: v :: rest, hne, _ => exact absurd rfl (hne k v rest)

theorem mem_assocSet {l : List (Bytes × Bytes)} {k v : Bytes} {p : Bytes × Bytes}
    (h : p ∈ assocSet l k v) : p.1 = k ∨ p ∈ l := by
  induction l with
  | nil =>
    simp only [assocSet, List.mem_singleton] at h
    subst h; exact Or.inl rfl
  | cons q rest ih =>
    obtain ⟨k', v'⟩ := q
    unfold assocSet at h
    split at h
    · rcases List.mem_cons.mp h with h | h
      · subst h; exact Or.inl rfl
      · exact Or.inr (List.mem_cons_of_mem _ h)
    · rcases List.mem_cons.mp h with h | h
      · subst h; exact Or.inr (List.mem_cons_self ..)
      · rcases ih h with h | h
        · exact Or.inl h
        · exact Or.inr (List.mem_cons_of_mem _ h)

theorem assocSet_distinct {l : List (Bytes × Bytes)} (k v : Bytes) (h : DistinctKeys l) :
    DistinctKeys (assocSet l k v) := by
  unfold DistinctKeys at h ⊢
  induction l with
  | nil => simp [assocSet]
  | cons q rest ih =>
    obtain ⟨k', v'⟩ := q
    rw [List.pairwise_cons] at h
    unfold assocSet
    split
    · next heq =>
      have hk : k' = k := by simpa using heq
      subst hk
      exact List.pairwise_cons.mpr ⟨h.1, h.2⟩
    · next hne =>
      have hk : k' ≠ k := by simpa using hne
      refine List.pairwise_cons.mpr ⟨?_, ih h.2⟩
      intro p hp
      rcases mem_assocSet hp with h1 | h1
      · rw [h1]; exact hk
      · exact h.1 p h1

theorem mk_distinct (pairs : List Bytes) (acc : List (Bytes × Bytes)) (h : DistinctKeys acc) :
    DistinctKeys (Router.urlPath.mk pairs acc) := by
  fun_induction Router.urlPath.mk pairs acc with
  | case1 k v rest acc ih => exact ih (assocSet_distinct k v h)
  | case2 pairs acc hne => exact h

theorem mk_keys (P : Bytes → Bool) (pairs : List Bytes) (acc : List (Bytes × Bytes))
    (hp : (keysOf pairs).all P = true) (ha : acc.all (fun p => P p.1) = true) :
    (Router.urlPath.mk pairs acc).all (fun p => P p.1) = true := by
  fun_induction Router.urlPath.mk pairs acc with
  | case1 k v rest acc ih =>
    simp only [keysOf, List.all_cons, Bool.and_eq_true] at hp
    apply ih hp.2
    rw [List.all_eq_true] at ha ⊢
    intro p hpm
    rcases mem_assocSet hpm with h1 | h1
    · rw [h1]; exact hp.1
    · exact ha p h1
  | case2 pairs acc hne => exact ha

theorem assocGet_eq_lookup (l : List (Bytes × Bytes)) (k : Bytes) : assocGet l k = l.lookup k := by
  induction l with
  | nil => rfl
  | cons p rest ih =>
    obtain ⟨k', v'⟩ := p
    simp only [assocGet, List.find?_cons, List.lookup_cons] at ih ⊢
    by_cases h : k' = k
    · subst h; simp
    · have h1 : (k' == k) = false := by simp [h]
      have h2 : (k == k') = false := by simp [Ne.symm h]
      simp only [h1, h2]; exact ih

theorem assocGet_assocDel_other (l : List (Bytes × Bytes)) (k x : Bytes) (h : x ≠ k) :
    assocGet (assocDel l k) x = assocGet l x := by
  induction l with
  | nil => rfl
  | cons p rest ih =>
    obtain ⟨k', v'⟩ := p
    simp only [assocDel, assocGet] at ih ⊢
    by_cases h1 : k' = k
    · subst h1
      have : (k' == x) = false := by simp [Ne.symm h]
      simp only [List.filter, BEq.rfl, Bool.not_true, List.find?_cons, this]
      exact ih
    · have h2 : (k' == k) = false := by simp [h1]
      simp only [List.filter, h2, Bool.not_false, List.find?_cons]
      cases (k' == x)
      · exact ih
      · rfl

theorem assocDel_all {P : Bytes × Bytes → Bool} (l : List (Bytes × Bytes)) (k : Bytes)
    (h : l.all P = true) : (assocDel l k).all P = true := by
  rw [List.all_eq_true] at h ⊢
  intro p hp
  exact h p (List.mem_filter.mp hp).1

theorem mk_get_nil (x : Bytes) (pairs : List Bytes) :
    assocGet (Router.urlPath.mk pairs []) x = lastVal pairs x := by
  rw [mk_get]
  cases lastVal pairs x <;> rfl

/-- the route-level guard: literal texts and bind names contain neither `{` nor `}`, and no
    parameter list is empty -/
def BraceFree (r : Route) : Bool := r.segs.all fun s => s.elems.all elemBraceFree

/-! ### Segment view of the result (for the round trip) -/

/-- an element with its binds filled in (a bind without a value stays visible); a parameter list
    gives the concatenation of the values of its bind parameters -/
def instElem (vals : List (Bytes × Bytes)) (e : Elem) : Bytes :=
  (elemToks e).flatMap (Tok.subst vals)

/-- a segment with its binds filled in -/
def instSeg (vals : List (Bytes × Bytes)) (s : Segment) : Bytes := s.elems.flatMap (instElem vals)

theorem subst_segToks (vals : List (Bytes × Bytes)) (s : Segment) :
    (segToks s).flatMap (Tok.subst vals) = slash :: instSeg vals s := by
  have h : ∀ es : List Elem,
      (es.flatMap elemToks).flatMap (Tok.subst vals) = es.flatMap (instElem vals) := by
    intro es
    induction es with
    | nil => rfl
    | cons e es ih => simp only [List.flatMap_cons, List.flatMap_append, ih, instElem]
  simp only [segToks, List.flatMap_cons, Tok.subst, B_slash, instSeg, h]
  rfl

theorem subst_flatMap_segToks (vals : List (Bytes × Bytes)) (segs : List Segment) :
    (segs.flatMap segToks).flatMap (Tok.subst vals) =
      segs.flatMap fun s => slash :: instSeg vals s := by
  induction segs with
  | nil => rfl
  | cons s rest ih => simp only [List.flatMap_cons, List.flatMap_append, ih, subst_segToks]

def slashFree (b : Bytes) : Bool := b.all fun c => c != slash

theorem flatMap_slash_eq_join : ∀ (l : List Bytes), l ≠ [] →
    (l.flatMap fun x => slash :: x) = slash :: joinSlash l
  | [], h => absurd rfl h
  | [a], _ => by simp [joinSlash]
  | a :: b :: l, _ => by
    have ih := flatMap_slash_eq_join (b :: l) (by simp)
    rw [List.flatMap_cons, ih]
    simp [joinSlash]

theorem splitSlash_slashFree (a : Bytes) (h : slashFree a = true) : splitSlash a = [a] := by
  induction a with
  | nil => rfl
  | cons c cs ih =>
    simp only [slashFree, List.all_cons, Bool.and_eq_true, bne_iff_ne, ne_eq] at h
    have ih' := ih (by simpa [slashFree] using h.2)
    unfold splitSlash
    simp [h.1, ih']

theorem splitSlash_append_slash (a rest : Bytes) (h : slashFree a = true) :
    splitSlash (a ++ slash :: rest) = a :: splitSlash rest := by
  induction a with
  | nil => simp [splitSlash]
  | cons c cs ih =>
    simp only [slashFree, List.all_cons, Bool.and_eq_true, bne_iff_ne, ne_eq] at h
    have ih' := ih (by simpa [slashFree] using h.2)
    simp only [List.cons_append]
    rw [splitSlash]
    simp [h.1, ih']

theorem splitSlash_joinSlash : ∀ (l : List Bytes), l ≠ [] → l.all slashFree = true →
    splitSlash (joinSlash l) = l
  | [], h, _ => absurd rfl h
  | [a], _, hs => by
    simp only [List.all_cons, List.all_nil, Bool.and_true] at hs
    simpa [joinSlash] using splitSlash_slashFree a hs
  | a :: b :: l, _, hs => by
    simp only [List.all_cons, Bool.and_eq_true] at hs
    have ih := splitSlash_joinSlash (b :: l) (by simp) (by simp [hs.2.1, hs.2.2])
    show splitSlash (a ++ slash :: joinSlash (b :: l)) = _
    rw [splitSlash_append_slash a _ hs.1, ih]

theorem trimLeftSlash_of_head (a rest : Bytes) (ha : a ≠ []) (h : slashFree a = true) :
    trimLeftSlash (a ++ rest) = a ++ rest := by
  cases a with
  | nil => exact absurd rfl ha
  | cons c cs =>
    simp only [slashFree, List.all_cons, Bool.and_eq_true, bne_iff_ne, ne_eq] at h
    simp [trimLeftSlash, h.1]

/-- the values of the binds and the literal texts are slash-free -/
theorem instSeg_slashFree (vals : List (Bytes × Bytes)) (s : Segment)
    (h : ∀ e ∈ s.elems, slashFree (instElem vals e) = true) : slashFree (instSeg vals s) = true := by
  simp only [slashFree, instSeg, List.all_flatMap, List.all_eq_true] at h ⊢
  intro e he c hc
  exact h e he c hc

theorem flatMap_congr_mem {α β} {f g : α → List β} :
    ∀ (l : List α), (∀ a ∈ l, f a = g a) → l.flatMap f = l.flatMap g
  | [], _ => rfl
  | a :: l, h => by
    rw [List.flatMap_cons, List.flatMap_cons, h a (List.mem_cons_self ..),
      flatMap_congr_mem l (fun b hb => h b (List.mem_cons_of_mem _ hb))]

theorem trimLeftSlash_slashFree (a : Bytes) (h : slashFree a = true) : trimLeftSlash a = a := by
  cases a with
  | nil => rfl
  | cons c cs =>
    simp only [slashFree, List.all_cons, Bool.and_eq_true, bne_iff_ne, ne_eq] at h
    simp [trimLeftSlash, h.1]

theorem trimLeftSlash_joinSlash (a : Bytes) (l : List Bytes) (h : slashFree a = true)
    (hne : a ≠ [] ∨ l = []) : trimLeftSlash (joinSlash (a :: l)) = joinSlash (a :: l) := by
  cases l with
  | nil => exact trimLeftSlash_slashFree a h
  | cons b l =>
    have ha : a ≠ [] := by
      rcases hne with h1 | h1
      · exact h1
      · cases h1
    show trimLeftSlash (a ++ slash :: joinSlash (b :: l)) = _
    exact trimLeftSlash_of_head a _ ha h

theorem B_withOptional :
    B "withOptional" = [119, 105, 116, 104, 79, 112, 116, 105, 111, 110, 97, 108] := by
  have h : "withOptional" =
      String.ofList ['w', 'i', 't', 'h', 'O', 'p', 't', 'i', 'o', 'n', 'a', 'l'] := rfl
  rw [h, B_ofList]; decide

theorem B_true : B "true" = [116, 114, 117, 101] := by
  have h : "true" = String.ofList ['t', 'r', 'u', 'e'] := rfl
  rw [h, B_ofList]; decide

end Url
end Flamego
